(* C13 for the two clustering routines of Model/Knn.v:
   [clustering_sup force g]  = KNNSupervisedOPF._clustering(force_prototype)
   [clustering_unsup k g]    = UnsupervisedOPF._clustering(k)
   [propagate_labels g]      = UnsupervisedOPF.propagate_labels
   The plateau steps only prepend node indices to adjacency lists; the competition is
   handled by Proofs/ClusterLoop.v. *)
From Coq Require Import List Arith Bool ZArith Lia Permutation.
From OPF Require Import Base.Lists Model.Heap Model.Knn Spec.Paths Spec.Trees
  Proofs.ClusterBase Proofs.ClusterLoop.
Import ListNotations.
Close Scope Z_scope.

(* ---------------- plateau steps keep adjacency entries in range ---------------- *)

Definition adj_ok (n : nat) (adj : list (list nat)) : Prop :=
  forall p q, In q (nth p adj []) -> q < n.

Lemma fold_left_inv {A B} (P : A -> Prop) (f : A -> B -> A) (l : list B) :
  (forall a x, P a -> In x l -> P (f a x)) -> forall a, P a -> P (fold_left f l a).
Proof.
  induction l as [|x l IH]; intros Hf a Ha; [exact Ha|]. cbn [fold_left].
  apply IH.
  - intros a' y Ha' Hy. apply Hf; [exact Ha'|right; exact Hy].
  - apply Hf; [exact Ha|left; reflexivity].
Qed.

Lemma adj_ok_upd n adj j l :
  adj_ok n adj -> (forall q, In q l -> q < n) -> adj_ok n (upd adj j l).
Proof.
  intros Hok Hl p q. rewrite nth_upd.
  destruct (Nat.eqb j p); [|apply Hok].
  destruct (Nat.ltb j (length adj)); [apply Hl|apply Hok].
Qed.

Lemma plateau_sup_inner_ok zero n dens i adj j :
  i < n -> adj_ok n adj -> adj_ok n (plateau_sup_inner Z.ltb zero dens i adj j).
Proof.
  intros Hi Hok. unfold plateau_sup_inner.
  destruct (weqb Z.ltb (nth i dens zero) (nth j dens zero)); [|exact Hok].
  destruct (existsb (Nat.eqb i) (nth j adj [])); [exact Hok|].
  apply adj_ok_upd; [exact Hok|]. intros q [<-|Hq]; [exact Hi|apply (Hok j q Hq)].
Qed.

Lemma plateau_sup_ok zero n dens adj :
  adj_ok n adj -> adj_ok n (plateau_sup Z.ltb zero n dens adj).
Proof.
  intros Hok. unfold plateau_sup. apply fold_left_inv; [|exact Hok].
  intros a i Ha Hi. apply in_seq in Hi. apply fold_left_inv; [|exact Ha].
  intros a' j Ha' _. apply plateau_sup_inner_ok; [lia|exact Ha'].
Qed.

Lemma plateau_unsup_l_ok n i st l :
  i < n -> (forall q, In q (fst (fst st)) -> q < n) ->
  forall q, In q (fst (fst (plateau_unsup_l i st l))) -> q < n.
Proof.
  intros Hi Hst. destruct st as [[aj np] ins]. cbn [fst] in Hst. unfold plateau_unsup_l.
  destruct (if Nat.eqb i (nth l aj 0) then false else ins); cbn [fst]; [|exact Hst].
  intros q [<-|Hq]; [exact Hi|apply Hst; exact Hq].
Qed.

Lemma plateau_unsup_k_ok zero n k dens i st kk :
  i < n -> adj_ok n (fst st) -> adj_ok n (fst (plateau_unsup_k Z.ltb zero k dens i st kk)).
Proof.
  intros Hi Hok. destruct st as [adj nps]. cbn [fst] in Hok. unfold plateau_unsup_k.
  set (j := nth kk (nth i adj []) 0).
  destruct (weqb Z.ltb (nth i dens zero) (nth j dens zero)); [|exact Hok].
  pose proof (fold_left_inv (fun st => forall q, In q (fst (fst st)) -> q < n)
                (plateau_unsup_l i) (seq 0 k)
                (fun a x Ha _ => plateau_unsup_l_ok n i a x Hi Ha)
                (nth j adj [], nth j nps 0, true)) as HF.
  destruct (fold_left (plateau_unsup_l i) (seq 0 k) (nth j adj [], nth j nps 0, true))
    as [[aj np] b].
  cbn [fst] in *. apply adj_ok_upd; [exact Hok|]. apply HF. intros q Hq. apply (Hok j q Hq).
Qed.

Lemma plateau_unsup_ok zero n k dens adj nps :
  adj_ok n adj -> adj_ok n (fst (plateau_unsup Z.ltb zero k n dens adj nps)).
Proof.
  intros Hok. unfold plateau_unsup.
  apply (fold_left_inv (fun st => adj_ok n (fst st))); [|exact Hok].
  intros a i Ha Hi. apply in_seq in Hi.
  apply (fold_left_inv (fun st => adj_ok n (fst st))); [|exact Ha].
  intros a' kk Ha' _. apply plateau_unsup_k_ok; [lia|exact Ha'].
Qed.

(* ---------------- KNN-supervised flavour ---------------- *)

Definition nbrs_sup (g : @knn Z) (p : nat) : list nat := nth p (k_adj g) [].
Definition nbrs_unsup (k : nat) (g : @knn Z) (p : nat) : list nat :=
  firstn (nth p (k_nplat g) 0 + k) (nth p (k_adj g) []).

Section Sup.
  Variables (zero top bot : Z) (force : bool) (g : @knn Z) (n : nat).
  Hypothesis Hn : length (k_label g) = n.
  Hypothesis Hl_cost : length (k_cost g) = n.
  Hypothesis Hl_pred : length (k_pred g) = n.
  Hypothesis Hl_root : length (k_root g) = n.
  Hypothesis Hl_plabel : length (k_plabel g) = n.
  Hypothesis Hl_clabel : length (k_clabel g) = n.
  Hypothesis Hadj : forall p q, In q (nth p (k_adj g) []) -> q < n.
  Hypothesis Hc0 : forall i, i < n -> (nth i (k_cost g) zero < nth i (k_dens g) zero)%Z.
  Hypothesis Hbot : force = true -> forall i, i < n -> (bot < nth i (k_cost g) zero)%Z.

  Definition sup_g1 : @knn Z :=
    set_adj g (plateau_sup Z.ltb zero n (k_dens g) (k_adj g)) (k_nplat g).

  Lemma clustering_sup_eq :
    clustering_sup Z.ltb zero top bot force g =
    fst (result zero top bot n true force nbrs_sup sup_g1).
  Proof. unfold clustering_sup, result, sup_g1. rewrite Hn. reflexivity. Qed.

  Lemma sup_final : exists ord lc,
    Final zero n true force nbrs_sup sup_g1 ord (clustering_sup Z.ltb zero top bot force g) lc.
  Proof.
    rewrite clustering_sup_eq.
    destruct (run_final zero top bot n true force nbrs_sup sup_g1) as [ord HF];
      try assumption.
    - intros g1 g2 p E _. unfold nbrs_sup. rewrite E. reflexivity.
    - intros p q _ Hq. unfold nbrs_sup, sup_g1 in Hq; cbn [set_adj k_adj] in Hq.
      revert p q Hq. apply plateau_sup_ok. exact Hadj.
    - exists ord, (snd (result zero top bot n true force nbrs_sup sup_g1)). exact HF.
  Qed.

  Theorem clustering_sup_order :
    let g' := clustering_sup Z.ltb zero top bot force g in
    exists ord, k_order g' = k_order g ++ ord /\ Permutation ord (seq 0 n).
  Proof.
    intros g'. destruct sup_final as (ord & lc & HF). exists ord.
    split; [apply (fi_order _ _ _ _ _ _ _ _ _ HF)|apply (fi_perm _ _ _ _ _ _ _ _ _ HF)].
  Qed.

  Theorem clustering_sup_links :
    let g' := clustering_sup Z.ltb zero top bot force g in
    let pred := fun q => nth q (k_pred g') None in
    let root := fun q => nth q (k_root g') 0 in
    let cost := fun q => nth q (k_cost g') zero in
    let plabel := fun q => nth q (k_plabel g') 0 in
    let dens := fun q => nth q (k_dens g) zero in
    let cost0 := fun q => nth q (k_cost g) zero in
    let label := fun q => nth q (k_label g) 0 in
    k_label g' = k_label g /\ k_dens g' = k_dens g /\
    k_adj g' = plateau_sup Z.ltb zero n (k_dens g) (k_adj g) /\
    exists ord, k_order g' = k_order g ++ ord /\ Permutation ord (seq 0 n) /\
      forall q, q < n ->
        match pred q with
        | None => root q = q /\ cost q = dens q /\ plabel q = label q
        | Some p => p < n /\ before ord p q /\ In q (nth p (k_adj g') []) /\
                    root q = root p /\ cost q = Z.min (cost p) (dens q) /\
                    (cost0 q < cost q)%Z /\ plabel q = plabel p /\
                    (force = true -> label p = label q)
        end.
  Proof.
    intros g' pred root cost plabel dens cost0 label.
    destruct sup_final as (ord & lc & HF). fold g' in HF.
    destruct (fi_frame _ _ _ _ _ _ _ _ _ HF) as (Flab & Fadj & _ & _ & Fdens & _).
    split; [exact Flab|]. split; [exact Fdens|]. split; [exact Fadj|].
    exists ord. split; [apply (fi_order _ _ _ _ _ _ _ _ _ HF)|].
    split; [apply (fi_perm _ _ _ _ _ _ _ _ _ HF)|].
    intros q Hq. destruct (pred q) as [p|] eqn:Hp.
    - destruct (fi_link _ _ _ _ _ _ _ _ _ HF q p Hq Hp) as (A & B & C & D & E & F & G & _ & I).
      split; [exact A|]. split; [exact B|]. split.
      { rewrite Fadj. exact C. }
      split; [exact D|]. split; [exact E|]. split; [exact F|]. split; [apply G; reflexivity|exact I].
    - destruct (fi_root _ _ _ _ _ _ _ _ _ HF q Hq Hp) as (A & B & C).
      split; [exact A|]. split; [exact B|apply C; reflexivity].
  Qed.

  Theorem clustering_sup_forest :
    let g' := clustering_sup Z.ltb zero top bot force g in
    let pred := fun q => nth q (k_pred g') None in
    let root := fun q => nth q (k_root g') 0 in
    let cost := fun q => nth q (k_cost g') zero in
    let plabel := fun q => nth q (k_plabel g') 0 in
    let dens := fun q => nth q (k_dens g) zero in
    let cost0 := fun q => nth q (k_cost g) zero in
    let label := fun q => nth q (k_label g) 0 in
    forall q, q < n ->
      exists r k, k < n /\ r < n /\ reaches pred q r k /\ pred r = None /\
        (forall r', root_of pred q r' -> r' = r) /\
        root q = r /\ (cost q <= cost r)%Z /\ cost r = dens r /\ (cost0 q < dens r)%Z /\
        plabel q = plabel r /\ plabel r = label r /\
        (force = true -> label q = label r).
  Proof.
    intros g' pred root cost plabel dens cost0 label q Hq.
    destruct sup_final as (ord & lc & HF). fold g' in HF.
    destruct (final_forest zero n true force nbrs_sup sup_g1) with (ord := ord) (g := g')
      (lc := lc) (q := q) as (r & k & A & B & C & D & E & F & G & H & I & J & _ & L);
      try assumption.
    destruct (J eq_refl) as [J1 J2].
    exists r, k. repeat (split; [assumption|]). exact L.
  Qed.

  Theorem clustering_sup_density_gap :
    let g' := clustering_sup Z.ltb zero top bot force g in
    let root := fun q => nth q (k_root g') 0 in
    let dens := fun q => nth q (k_dens g) zero in
    (forall q, q < n -> nth q (k_cost g) zero = (dens q - 1)%Z) ->
    forall q, q < n -> (dens q < dens (root q) + 1)%Z.
  Proof.
    intros g' root dens Hrel q Hq.
    destruct sup_final as (ord & lc & HF). fold g' in HF.
    apply (final_density_gap zero n true force nbrs_sup sup_g1) with (ord := ord) (lc := lc);
      assumption.
  Qed.

  (* the KNN-supervised half of C04 *)
  Theorem knn_train_labels_own :
    force = true ->
    let g' := clustering_sup Z.ltb zero top bot force g in
    forall q, q < n -> nth q (k_plabel g') 0 = nth q (k_label g) 0.
  Proof.
    intros Hf g' q Hq.
    destruct sup_final as (ord & lc & HF). fold g' in HF.
    apply (final_plabel_own zero n true force nbrs_sup sup_g1) with (ord := ord) (lc := lc);
      auto.
  Qed.
End Sup.

(* ---------------- unsupervised flavour ---------------- *)

Section Unsup.
  Variables (zero top bot : Z) (k : nat) (g : @knn Z) (n : nat).
  Hypothesis Hn : length (k_label g) = n.
  Hypothesis Hl_cost : length (k_cost g) = n.
  Hypothesis Hl_pred : length (k_pred g) = n.
  Hypothesis Hl_root : length (k_root g) = n.
  Hypothesis Hl_plabel : length (k_plabel g) = n.
  Hypothesis Hl_clabel : length (k_clabel g) = n.
  Hypothesis Hadj : forall p q, In q (nth p (k_adj g) []) -> q < n.
  Hypothesis Hc0 : forall i, i < n -> (nth i (k_cost g) zero < nth i (k_dens g) zero)%Z.

  Definition unsup_plateau : list (list nat) * list nat :=
    plateau_unsup Z.ltb zero k n (k_dens g) (k_adj g) (k_nplat g).
  Definition unsup_g1 : @knn Z := set_adj g (fst unsup_plateau) (snd unsup_plateau).
  Definition unsup_res : @knn Z * nat := result zero top bot n false false (nbrs_unsup k) unsup_g1.

  Lemma clustering_unsup_eq :
    clustering_unsup Z.ltb zero top bot k g =
    let g2 := fst unsup_res in
    mkKnn (k_label g2) (k_adj g2) (k_radius g2) (k_nplat g2) (k_dens g2) (k_cost g2) (k_pred g2)
          (k_root g2) (k_plabel g2) (k_clabel g2) (k_order g2) (k_gdens g2) (snd unsup_res).
  Proof.
    unfold clustering_unsup, unsup_res, result, unsup_g1, unsup_plateau. rewrite Hn.
    destruct (plateau_unsup Z.ltb zero k n (k_dens g) (k_adj g) (k_nplat g)) as [adj nps].
    cbn [fst snd]. unfold nbrs_unsup.
    destruct (cl_run Z.ltb zero top bot false false
                (fun g p => firstn (nth p (k_nplat g) 0 + k) (nth p (k_adj g) [])) n
                (set_adj g adj nps)) as [g2 l].
    reflexivity.
  Qed.

  Lemma unsup_final : exists ord,
    Final zero n false false (nbrs_unsup k) unsup_g1 ord
          (clustering_unsup Z.ltb zero top bot k g)
          (k_nclusters (clustering_unsup Z.ltb zero top bot k g)).
  Proof.
    destruct (run_final zero top bot n false false (nbrs_unsup k) unsup_g1) as [ord HF];
      try assumption.
    - intros g1 g2 p E1 E2. unfold nbrs_unsup. rewrite E1, E2. reflexivity.
    - intros p q _ Hq. unfold nbrs_unsup in Hq. apply In_firstn_In in Hq.
      unfold unsup_g1 in Hq; cbn [set_adj k_adj] in Hq.
      revert p q Hq. apply plateau_unsup_ok. exact Hadj.
    - discriminate.
    - exists ord. fold unsup_res in HF. rewrite clustering_unsup_eq. cbv zeta.
      cbn [k_nclusters]. destruct HF as [A B C D E F G].
      constructor; assumption.
  Qed.

  Theorem clustering_unsup_order :
    let g' := clustering_unsup Z.ltb zero top bot k g in
    exists ord, k_order g' = k_order g ++ ord /\ Permutation ord (seq 0 n).
  Proof.
    intros g'. destruct unsup_final as (ord & HF). exists ord.
    split; [apply (fi_order _ _ _ _ _ _ _ _ _ HF)|apply (fi_perm _ _ _ _ _ _ _ _ _ HF)].
  Qed.

  Theorem clustering_unsup_links :
    let g' := clustering_unsup Z.ltb zero top bot k g in
    let pred := fun q => nth q (k_pred g') None in
    let root := fun q => nth q (k_root g') 0 in
    let cost := fun q => nth q (k_cost g') zero in
    let clabel := fun q => nth q (k_clabel g') 0 in
    let dens := fun q => nth q (k_dens g) zero in
    let cost0 := fun q => nth q (k_cost g) zero in
    k_label g' = k_label g /\ k_dens g' = k_dens g /\
    (k_adj g', k_nplat g') = plateau_unsup Z.ltb zero k n (k_dens g) (k_adj g) (k_nplat g) /\
    exists ord, k_order g' = k_order g ++ ord /\ Permutation ord (seq 0 n) /\
      forall q, q < n ->
        match pred q with
        | None => root q = q /\ cost q = dens q
        | Some p => p < n /\ before ord p q /\
                    In q (firstn (nth p (k_nplat g') 0 + k) (nth p (k_adj g') [])) /\
                    root q = root p /\ cost q = Z.min (cost p) (dens q) /\
                    (cost0 q < cost q)%Z /\ clabel q = clabel p
        end.
  Proof.
    intros g' pred root cost clabel dens cost0.
    destruct unsup_final as (ord & HF). fold g' in HF.
    destruct (fi_frame _ _ _ _ _ _ _ _ _ HF) as (Flab & Fadj & _ & Fnp & Fdens & _).
    split; [exact Flab|]. split; [exact Fdens|]. split.
    { rewrite Fadj, Fnp. unfold unsup_g1; cbn [set_adj k_adj k_nplat].
      symmetry. apply surjective_pairing. }
    exists ord. split; [apply (fi_order _ _ _ _ _ _ _ _ _ HF)|].
    split; [apply (fi_perm _ _ _ _ _ _ _ _ _ HF)|].
    intros q Hq. destruct (pred q) as [p|] eqn:Hp.
    - destruct (fi_link _ _ _ _ _ _ _ _ _ HF q p Hq Hp) as (A & B & C & D & E & F & _ & H & _).
      split; [exact A|]. split; [exact B|]. split.
      { rewrite Fadj, Fnp. exact C. }
      split; [exact D|]. split; [exact E|]. split; [exact F|apply H; reflexivity].
    - destruct (fi_root _ _ _ _ _ _ _ _ _ HF q Hq Hp) as (A & B & _).
      split; [exact A|exact B].
  Qed.

  Theorem clustering_unsup_forest :
    let g' := clustering_unsup Z.ltb zero top bot k g in
    let pred := fun q => nth q (k_pred g') None in
    let root := fun q => nth q (k_root g') 0 in
    let cost := fun q => nth q (k_cost g') zero in
    let clabel := fun q => nth q (k_clabel g') 0 in
    let dens := fun q => nth q (k_dens g) zero in
    let cost0 := fun q => nth q (k_cost g) zero in
    forall q, q < n ->
      exists r j, j < n /\ r < n /\ reaches pred q r j /\ pred r = None /\
        (forall r', root_of pred q r' -> r' = r) /\
        root q = r /\ (cost q <= cost r)%Z /\ cost r = dens r /\ (cost0 q < dens r)%Z /\
        clabel q = clabel r.
  Proof.
    intros g' pred root cost clabel dens cost0 q Hq.
    destruct unsup_final as (ord & HF). fold g' in HF.
    destruct (final_forest zero n false false (nbrs_unsup k) unsup_g1) with (ord := ord) (g := g')
      (lc := k_nclusters g') (q := q) as (r & j & A & B & C & D & E & F & G & H & I & _ & K & _);
      try assumption.
    exists r, j. repeat (split; [assumption|]). apply K; reflexivity.
  Qed.

  Theorem clustering_unsup_density_gap :
    let g' := clustering_unsup Z.ltb zero top bot k g in
    let root := fun q => nth q (k_root g') 0 in
    let dens := fun q => nth q (k_dens g) zero in
    (forall q, q < n -> nth q (k_cost g) zero = (dens q - 1)%Z) ->
    forall q, q < n -> (dens q < dens (root q) + 1)%Z.
  Proof.
    intros g' root dens Hrel q Hq.
    destruct unsup_final as (ord & HF). fold g' in HF.
    apply (final_density_gap zero n false false (nbrs_unsup k) unsup_g1) with (ord := ord)
      (lc := k_nclusters g'); assumption.
  Qed.

  (* cluster identifiers: the reported number of clusters is the number of roots; the i-th
     root in removal order carries identifier i; every identifier is below n_clusters *)
  Theorem clustering_unsup_ids :
    let g' := clustering_unsup Z.ltb zero top bot k g in
    let pred := fun q => nth q (k_pred g') None in
    let clabel := fun q => nth q (k_clabel g') 0 in
    let isroot := fun q => match pred q with None => true | Some _ => false end in
    k_nclusters g' = length (filter isroot (seq 0 n)) /\
    (exists ord, k_order g' = k_order g ++ ord /\ Permutation ord (seq 0 n) /\
       length (filter isroot ord) = k_nclusters g' /\
       forall i, i < k_nclusters g' -> clabel (nth i (filter isroot ord) 0) = i) /\
    (forall r, r < n -> pred r = None -> clabel r < k_nclusters g') /\
    (forall r r', r < n -> r' < n -> pred r = None -> pred r' = None ->
       clabel r = clabel r' -> r = r') /\
    (forall i, i < k_nclusters g' -> exists r, r < n /\ pred r = None /\ clabel r = i) /\
    (forall q, q < n -> clabel q < k_nclusters g').
  Proof.
    intros g' pred clabel isroot.
    destruct unsup_final as (ord & HF). fold g' in HF.
    destruct (final_ids zero n false false (nbrs_unsup k) unsup_g1 ord g' (k_nclusters g') HF Hc0
                eq_refl) as (A & B & C & D & E).
    change (ClusterLoop.isroot g') with isroot in *.
    unfold roots_in_order in *. change (ClusterLoop.isroot g') with isroot in *.
    split; [exact B|]. split.
    { exists ord. split; [apply (fi_order _ _ _ _ _ _ _ _ _ HF)|].
      split; [apply (fi_perm _ _ _ _ _ _ _ _ _ HF)|]. split; [symmetry; exact A|exact C]. }
    split; [intros r Hr Hp; apply (D r Hr Hp)|]. split.
    { intros r r' Hr Hr' Hp Hp' Ecl. destruct (D r Hr Hp) as [_ Er].
      destruct (D r' Hr' Hp') as [_ Er'].
      assert (X : nth (clab g' r) (filter isroot ord) 0 = nth (clab g' r') (filter isroot ord) 0).
      { unfold clab. unfold clabel in Ecl. rewrite Ecl. reflexivity. }
      rewrite Er, Er' in X. exact X. }
    split; [|exact E].
    intros i Hi. exists (nth i (filter isroot ord) 0).
    assert (Hin : In (nth i (filter isroot ord) 0) (filter isroot ord)) by (apply nth_In; lia).
    apply filter_In in Hin. destruct Hin as [Hin Hr].
    split; [apply (Permutation_in _ (fi_perm _ _ _ _ _ _ _ _ _ HF)) in Hin; apply in_seq in Hin; lia|].
    split; [|apply C; exact Hi].
    set (x := nth i (filter isroot ord) 0) in *. change (isroot x) with
      (match pred x with None => true | Some _ => false end) in Hr.
    destruct (pred x); [discriminate|reflexivity].
  Qed.
End Unsup.

(* ---------------- label propagation ---------------- *)

Theorem propagate_labels_spec (g : @knn Z) :
  k_plabel (propagate_labels g) =
    map (fun i => nth (nth i (k_root g) 0) (k_label g) 0) (seq 0 (length (k_label g))) /\
  k_root (propagate_labels g) = k_root g /\ k_pred (propagate_labels g) = k_pred g /\
  k_label (propagate_labels g) = k_label g.
Proof. repeat split; reflexivity. Qed.

Lemma propagate_labels_nth (g : @knn Z) q : q < length (k_label g) ->
  nth q (k_plabel (propagate_labels g)) 0 = nth (nth q (k_root g) 0) (k_label g) 0.
Proof.
  intros Hq. unfold propagate_labels; cbn [k_plabel].
  exact (nth_tabulate (fun i => nth (nth i (k_root g) 0) (k_label g) 0) (length (k_label g)) q 0 Hq).
Qed.

(* after unsupervised clustering, label propagation gives every sample the true label of
   the unique root it reaches *)
Theorem propagate_labels_root (zero top bot : Z) (k : nat) (g : @knn Z) (n : nat) :
  length (k_label g) = n -> length (k_cost g) = n -> length (k_pred g) = n ->
  length (k_root g) = n -> length (k_plabel g) = n -> length (k_clabel g) = n ->
  (forall p q, In q (nth p (k_adj g) []) -> q < n) ->
  (forall i, i < n -> (nth i (k_cost g) zero < nth i (k_dens g) zero)%Z) ->
  let g' := clustering_unsup Z.ltb zero top bot k g in
  let pred := fun q => nth q (k_pred g') None in
  forall q, q < n ->
    exists r, r < n /\ root_of pred q r /\ (forall r', root_of pred q r' -> r' = r) /\
      nth q (k_plabel (propagate_labels g')) 0 = nth r (k_label g) 0.
Proof.
  intros Hn H1 H2 H3 H4 H5 Hadj Hc0 g' pred q Hq.
  destruct (clustering_unsup_forest zero top bot k g n Hn H1 H2 H3 H4 H5 Hadj Hc0 q Hq)
    as (r & j & A & B & C & D & E & F & _).
  destruct (clustering_unsup_links zero top bot k g n Hn H1 H2 H3 H4 H5 Hadj Hc0) as (Flab & _).
  fold g' in C, D, E, F, Flab. fold pred in C, D, E.
  exists r. split; [exact B|]. split; [exists j; split; assumption|]. split; [exact E|].
  rewrite propagate_labels_nth by (rewrite Flab, Hn; exact Hq).
  rewrite F, Flab. reflexivity.
Qed.
