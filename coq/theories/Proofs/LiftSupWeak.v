(* C01 for a strict weak order on a set P of admissible weights.

   Proofs/LiftSup.v pulls the optimum-path-forest theorem back from Z along the rank map of a
   strict TOTAL order; equalities between costs ("cost q = max (cost p) (w p q)") come back as
   Leibniz equalities because the rank map is injective.  For a strict WEAK order (binary64
   without NaN under PrimFloat.ltb: -0 and +0 incomparable and distinct) the rank map preserves
   and reflects the comparison but identifies incomparable elements, so the same pull-back yields
   the same statement with every equality between COSTS replaced by

       eqv a b  :=  ltb a b = false /\ ltb b a = false          ("==" on floats)

   and everything else (permutation, predecessors, labels, root paths, order) unchanged. *)
From Coq Require Import List Arith Bool ZArith Lia Permutation.
From OPF Require Import Base.Lists Base.TotalOrder Model.Heap Model.Sup Spec.Paths.
From OPF Require Import Proofs.ParamBase Proofs.ParamSup Proofs.Rescale Proofs.OrderEmbed Proofs.FitBase
  Proofs.Fit Proofs.FitSup Proofs.LiftSup Proofs.WeakOrder.
Import ListNotations.
Close Scope Z_scope.

Definition eqv {W} (ltb : W -> W -> bool) (a b : W) : Prop := ltb a b = false /\ ltb b a = false.

Definition opf_spec_Ww {W} (ltb : W -> W -> bool) (n : nat) (w : nat -> nat -> W) (zero : W)
           (nd : @nodes W) (isproto : nat -> Prop) (lab0 : list nat) : Prop :=
  let cost q := nth q (n_cost nd) zero in
  let pred q := nth q (n_pred nd) None in
  let plabel q := nth q (n_plabel nd) 0 in
  Permutation (n_order nd) (seq 0 n) /\
  (forall i j, i < j -> j < n ->
     ltb (cost (nth j (n_order nd) 0)) (cost (nth i (n_order nd) 0)) = false) /\
  (forall q, q < n -> isproto q ->
     pred q = None /\ eqv ltb (cost q) zero /\ plabel q = nth q lab0 0) /\
  (forall q, q < n -> ~ isproto q ->
     exists p, pred q = Some p /\ p < n /\ p <> q /\
       eqv ltb (cost q) (wmax ltb (cost p) (w p q)) /\ plabel q = plabel p /\ before (n_order nd) p q) /\
  (forall q, q < n ->
     exists r k, r < n /\ isproto r /\ reaches pred q r k /\ pred r = None /\
       k < n /\ plabel q = nth r lab0 0) /\
  (forall q s pi, q < n -> s < n -> isproto s -> path_from_to n s q pi ->
     ltb (pathmaxW ltb w zero pi) (cost q) = false) /\
  (forall q, q < n -> exists s pi, s < n /\ isproto s /\ path_from_to n s q pi /\
     eqv ltb (pathmaxW ltb w zero pi) (cost q)).

(* on a strict total order [eqv] is equality, and the weak statement is the strong one *)
Lemma eqv_total {W} (ltb : W -> W -> bool) :
  strict_total_order ltb -> forall a b, eqv ltb a b <-> a = b.
Proof.
  intros O a b. split.
  - intros [H1 H2]. now apply (so_total ltb O).
  - intros ->. split; apply (so_irrefl ltb O).
Qed.

Section TransferW.
  Context {W : Type} (P : W -> Prop) (ltb : W -> W -> bool).
  Hypothesis O : strict_weak_order_on P ltb.
  Variable vals : list W.
  Hypothesis Hvals : Forall P vals.

  Local Notation inV := (fun a : W => In a vals).
  Local Notation r := (rk ltb vals).

  Lemma rk_lt_iff_w a b : inV a -> inV b -> ((r a < r b)%Z <-> ltb a b = true).
  Proof. intros Ha Hb. rewrite <- (rk_ltb_w P ltb O vals Hvals a b Ha Hb). symmetry. apply Z.ltb_lt. Qed.

  Lemma rk_le_iff_w a b : inV a -> inV b -> ((r a <= r b)%Z <-> ltb b a = false).
  Proof. intros Ha Hb. rewrite <- (rk_ltb_w P ltb O vals Hvals b a Hb Ha). symmetry. apply Z.ltb_ge. Qed.

  Lemma rk_eqv a b : inV a -> inV b -> r a = r b -> eqv ltb a b.
  Proof. intros Ha Hb E. now apply (rk_eq_w P ltb O vals Hvals a b Ha Hb). Qed.

  Lemma pathmax_transfer_w n (w : nat -> nat -> W) (wZ : nat -> nat -> Z) zero pi :
    inV zero -> (forall p q, p < n -> q < n -> inV (w p q)) ->
    (forall p q, p < n -> q < n -> wZ p q = r (w p q)) ->
    Forall (fun v => v < n) pi ->
    inV (pathmaxW ltb w zero pi) /\ pathmax wZ (r zero) pi = r (pathmaxW ltb w zero pi).
  Proof.
    intros Hz Hw HwZ H. induction H as [|a t Ha Ht IH]; [split; [exact Hz | reflexivity]|].
    destruct t as [|b t']; [split; [exact Hz | reflexivity]|].
    assert (Hb : b < n) by (inversion Ht; assumption).
    destruct IH as [IH1 IH2].
    change (pathmaxW ltb w zero (a :: b :: t'))
      with (omax ltb (w a b) (pathmaxW ltb w zero (b :: t'))).
    change (pathmax wZ (r zero) (a :: b :: t'))
      with (Z.max (wZ a b) (pathmax wZ (r zero) (b :: t'))).
    split.
    - apply omax_in; [apply Hw; assumption | exact IH1].
    - rewrite IH2, (HwZ a b Ha Hb). symmetry.
      apply (rk_omax_w P ltb O vals Hvals); [apply Hw; assumption | exact IH1].
  Qed.

  Lemma opf_transfer_w n (w : nat -> nat -> W) (wZ : nat -> nat -> Z) zero (nd : @nodes W) isproto lab0 :
    inV zero -> Forall inV (n_cost nd) ->
    (forall p q, p < n -> q < n -> inV (w p q)) ->
    (forall p q, p < n -> q < n -> wZ p q = r (w p q)) ->
    opf_spec_Z n wZ (r zero) (map_nodes r nd) isproto lab0 ->
    opf_spec_Ww ltb n w zero nd isproto lab0.
  Proof.
    intros Hz Hnd Hw HwZ.
    unfold opf_spec_Z, opf_spec_Ww, map_nodes.
    cbn [n_cost n_pred n_label n_plabel n_status n_relevant n_order]. cbv zeta.
    intros (A1 & A2 & A3 & A4 & A5 & A6 & A7).
    assert (Hc : forall q, nth q (map r (n_cost nd)) (r zero) = r (nth q (n_cost nd) zero))
      by (intros q; apply map_nth).
    assert (Hin : forall q, inV (nth q (n_cost nd) zero))
      by (intros q; apply (Forall_in_nth vals); assumption).
    assert (Hpm : forall s q pi, path_from_to n s q pi ->
              inV (pathmaxW ltb w zero pi) /\ pathmax wZ (r zero) pi = r (pathmaxW ltb w zero pi)).
    { intros s q pi ((_ & Hall) & _). now apply (pathmax_transfer_w n). }
    split; [exact A1|]. split; [|split; [|split; [|split; [exact A5|split]]]].
    - intros i j Hij Hj. specialize (A2 i j Hij Hj). rewrite !Hc in A2.
      exact (proj1 (rk_le_iff_w _ _ (Hin _) (Hin _)) A2).
    - intros q Hq Hp. destruct (A3 q Hq Hp) as (B1 & B2 & B3). rewrite Hc in B2.
      split; [exact B1|]. split; [|exact B3]. exact (rk_eqv _ _ (Hin q) Hz B2).
    - intros q Hq Hp. destruct (A4 q Hq Hp) as (p & B1 & B2 & B3 & B4 & B5 & B6).
      exists p. rewrite !Hc, (HwZ p q B2 Hq) in B4.
      rewrite <- (rk_omax_w P ltb O vals Hvals _ _ (Hin p) (Hw p q B2 Hq)) in B4.
      apply (rk_eqv _ _ (Hin q) (omax_in ltb vals _ _ (Hin p) (Hw p q B2 Hq))) in B4.
      rewrite wmax_omax. repeat split; try assumption; apply B4.
    - intros q s pi Hq Hs Hp Hpath. specialize (A6 q s pi Hq Hs Hp Hpath).
      destruct (Hpm s q pi Hpath) as [P1 P2]. rewrite Hc, P2 in A6.
      exact (proj1 (rk_le_iff_w _ _ (Hin _) P1) A6).
    - intros q Hq. destruct (A7 q Hq) as (s & pi & B1 & B2 & B3 & B4).
      destruct (Hpm s q pi B3) as [P1 P2]. rewrite Hc, P2 in B4.
      exists s, pi. split; [exact B1|]. split; [exact B2|]. split; [exact B3|].
      exact (rk_eqv _ _ P1 (Hin q) B4).
  Qed.
End TransferW.

Section LiftedW.
  Context {W : Type} (P : W -> Prop) (ltb : W -> W -> bool).
  Hypothesis O : strict_weak_order_on P ltb.

  Theorem sup_fit_weak_order (zero top : W) (labels : list nat) (w : nat -> nat -> W) :
    let n := length labels in
    let vals := zero :: top :: weight_vals n w in
    let fp := find_prototypes ltb top n w (nodes_init zero labels) in
    let isproto q := nth q (n_status fp) false = true in
    Forall P vals ->
    ltb zero top = true ->
    (forall p q, p < n -> q < n -> p <> q -> ltb (w p q) zero = false /\ ltb (w p q) top = true) ->
    (exists s, s < n /\ isproto s) ->
    let nd := sup_fit ltb zero top labels w in
    opf_spec_Ww ltb n w zero nd isproto labels /\
    n_status nd = n_status fp /\ n_label nd = labels.
  Proof.
    intros n vals fp isproto Hvals Hzt Hw Hproto nd.
    set (r := rk ltb vals).
    assert (Hz : In zero vals) by now left.
    assert (Ht : In top vals) by (right; now left).
    assert (Hwv : forall p q, p < n -> q < n -> In (w p q) vals).
    { intros p q Hp Hq. right; right. now apply weight_vals_in. }
    assert (Hmono : forall a b, In a vals -> In b vals -> Z.ltb (r a) (r b) = ltb a b)
      by exact (rk_ltb_w P ltb O vals Hvals).
    (* the two runs are related by the rank map *)
    pose proof (find_prototypes_embedding_related ltb Z.ltb r zero top labels w Hmono) as Rfp.
    pose proof (sup_fit_embedding_related ltb Z.ltb r zero top labels w Hmono) as Rnd.
    fold n vals fp in Rfp. fold n vals nd in Rnd.
    apply (nodes_rel_on_iff (fun a => In a vals) r) in Rnd. destruct Rnd as [Hcost End].
    destruct Rfp as (_ & _ & _ & _ & Sfp & _).
    (* the theorem at Z *)
    pose proof (sup_fit_opf (r zero) (r top) labels (fun p q => r (w p q))) as HZ. cbv zeta in HZ.
    fold n in HZ.
    assert (Hzt' : (r zero < r top)%Z) by (apply (rk_lt_iff_w P ltb O vals Hvals); assumption).
    assert (Hb : forall p q, p < n -> q < n -> p <> q -> (r zero <= r (w p q) < r top)%Z).
    { intros p q Hp Hq Hpq. destruct (Hw p q Hp Hq Hpq) as [B1 B2]. split.
      - apply (rk_le_iff_w P ltb O vals Hvals); auto.
      - apply (rk_lt_iff_w P ltb O vals Hvals); auto. }
    rewrite <- Sfp in HZ. specialize (HZ Hzt' Hb Hproto). rewrite End in HZ.
    destruct HZ as (A1 & A2 & A3 & A4 & A5 & A6 & A7 & S & L).
    split; [|split; [exact S | exact L]].
    apply (opf_transfer_w P ltb O vals Hvals n w (fun p q => r (w p q))); auto.
    exact (conj A1 (conj A2 (conj A3 (conj A4 (conj A5 (conj A6 A7)))))).
  Qed.
End LiftedW.
