(* C17: SupervisedOPF.learn conserves the samples and keeps the best classifier;
   SupervisedOPF.prune only discards.  (Model/Learn.v) *)
From Coq Require Import ZArith List Arith Bool Lia Permutation.
From OPF Require Import Base.Lists Model.Learn.
Import ListNotations.

(* ------------------------------------------------------------------------------------ *)
(* list facts                                                                           *)

Lemma combine_nil_r {A B} (l : list A) : combine l (@nil B) = [].
Proof. destruct l; reflexivity. Qed.

Lemma combine_app_eq {A B} : forall (X1 X2 : list A) (Y1 Y2 : list B),
  length X1 = length Y1 -> combine (X1 ++ X2) (Y1 ++ Y2) = combine X1 Y1 ++ combine X2 Y2.
Proof.
  induction X1 as [|x X1 IH]; intros X2 [|y Y1] Y2 H; cbn in *; try discriminate; auto.
  f_equal. apply IH. lia.
Qed.

Lemma combine_upd {A B} : forall (X : list A) (Y : list B) j x y,
  combine (upd X j x) (upd Y j y) = upd (combine X Y) j (x, y).
Proof.
  induction X as [|a X IH]; intros [|b Y] [|j] x y; cbn; auto.
  f_equal. apply IH.
Qed.

Lemma nth_error_combine {A B} : forall (X : list A) (Y : list B) j x y,
  nth_error X j = Some x -> nth_error Y j = Some y -> nth_error (combine X Y) j = Some (x, y).
Proof.
  induction X as [|a X IH]; intros [|b Y] [|j] x y Hx Hy; cbn in *; try discriminate.
  - congruence.
  - apply IH; auto.
Qed.

Lemma upd_split {A} : forall (l : list A) j a, nth_error l j = Some a ->
  exists l1 l2, l = l1 ++ a :: l2 /\ forall v, upd l j v = l1 ++ v :: l2.
Proof.
  induction l as [|x l IH]; intros [|j] a H; cbn in *; try discriminate.
  - inversion H; subst. exists [], l. split; auto.
  - destruct (IH j a H) as (l1 & l2 & -> & Hu). exists (x :: l1), l2. split; auto.
    intros v; cbn. now rewrite Hu.
Qed.

Lemma perm_exchange {A} (l1 l2 m1 m2 : list A) a b :
  Permutation ((l1 ++ b :: l2) ++ (m1 ++ a :: m2)) ((l1 ++ a :: l2) ++ (m1 ++ b :: m2)).
Proof.
  rewrite <- !app_assoc. apply Permutation_app_head. cbn [app].
  rewrite !app_assoc.
  transitivity (b :: a :: (l2 ++ m1) ++ m2).
  - apply perm_skip. symmetry. apply Permutation_middle.
  - transitivity (a :: b :: (l2 ++ m1) ++ m2); [apply perm_swap|].
    apply perm_skip. apply Permutation_middle.
Qed.

Lemma upd_exchange_perm {A} (T V : list A) j e a b :
  nth_error T j = Some a -> nth_error V e = Some b ->
  Permutation (upd T j b ++ upd V e a) (T ++ V).
Proof.
  intros HT HV.
  destruct (upd_split T j a HT) as (l1 & l2 & -> & Hu1).
  destruct (upd_split V e b HV) as (m1 & m2 & -> & Hu2).
  rewrite Hu1, Hu2. apply perm_exchange.
Qed.

Lemma nth_error_same_length {A B} (X : list A) (Y : list B) j :
  length X = length Y -> (nth_error X j = None <-> nth_error Y j = None).
Proof. intros H. rewrite !nth_error_None. lia. Qed.

(* ------------------------------------------------------------------------------------ *)
(* learn conserves                                                                      *)

Section Conserve.
  Context {R : Type}.

  Definition lpairs (st : lstate R) : list (R * nat) :=
    combine (l_Xt st ++ l_Xv st) (l_Yt st ++ l_Yv st).

  Definition lwf (st : lstate R) : Prop :=
    length (l_Xt st) = length (l_Yt st) /\ length (l_Xv st) = length (l_Yv st).

  (* what learn may do to the caller's arrays, relative to the arrays [st0] it was given *)
  Definition conserved (st0 st : lstate R) : Prop :=
    lwf st /\ Permutation (lpairs st) (lpairs st0) /\
    length (l_Xt st) = length (l_Xt st0) /\ length (l_Xv st) = length (l_Xv st0).

  Lemma swap_at_length {A} (a b : list A) j e :
    length (fst (swap_at a b j e)) = length a /\ length (snd (swap_at a b j e)) = length b.
  Proof.
    unfold swap_at. destruct (nth_error a j), (nth_error b e); cbn; rewrite ?upd_length; auto.
  Qed.

  Lemma swap_rows_conserved st0 st j e : conserved st0 st -> conserved st0 (swap_rows st j e).
  Proof.
    intros ((Hw1 & Hw2) & Hp & Hl1 & Hl2).
    destruct st as [Xt Yt Xv Yv]; cbn [l_Xt l_Yt l_Xv l_Yv] in *.
    unfold swap_rows; cbn [l_Xt l_Yt l_Xv l_Yv].
    unfold swap_at.
    destruct (nth_error Xt j) as [x|] eqn:EXt.
    2:{ apply (nth_error_same_length Xt Yt j Hw1) in EXt. rewrite EXt.
        repeat split; auto. }
    destruct (nth_error Yt j) as [y|] eqn:EYt.
    2:{ apply (nth_error_same_length Xt Yt j Hw1) in EYt. congruence. }
    destruct (nth_error Xv e) as [x'|] eqn:EXv.
    2:{ apply (nth_error_same_length Xv Yv e Hw2) in EXv. rewrite EXv.
        repeat split; auto. }
    destruct (nth_error Yv e) as [y'|] eqn:EYv.
    2:{ apply (nth_error_same_length Xv Yv e Hw2) in EYv. congruence. }
    unfold conserved, lwf, lpairs in *; cbn [l_Xt l_Yt l_Xv l_Yv] in *.
    rewrite !upd_length. repeat split; auto.
    rewrite <- Hp.
    rewrite !combine_app_eq by (rewrite ?upd_length; auto).
    rewrite !combine_upd.
    apply upd_exchange_perm; apply nth_error_combine; auto.
  Qed.

  Lemma retry_conserved st0 proto e : forall ctr draws st,
    conserved st0 st -> conserved st0 (snd (retry ctr proto draws st e)).
  Proof.
    induction ctr as [|c IH]; intros draws st H; cbn [retry]; auto.
    destruct draws as [|j ds]; auto.
    destruct (nth j proto true); [apply IH; auto|].
    cbn [snd]. apply swap_rows_conserved; auto.
  Qed.

  Lemma err_loop_conserved st0 proto : forall errs np draws st,
    conserved st0 st -> conserved st0 (snd (err_loop proto errs np draws st)).
  Proof.
    induction errs as [|e es IH]; intros np draws st H; cbn [err_loop]; auto.
    pose proof (retry_conserved st0 proto e np draws st H) as Hr.
    destruct (retry np proto draws st e) as [[sw ds] st1]. cbn [snd] in Hr.
    apply IH; auto.
  Qed.

  Lemma learn_loop_conserved st0 : forall its t n_it max_acc best snap draws st,
    conserved st0 st -> conserved st0 (r_state (learn_loop its t n_it max_acc best snap draws st)).
  Proof.
    induction its as [|it rest IH]; intros t n_it max_acc best snap draws st H; cbn [learn_loop]; auto.
    pose proof (err_loop_conserved st0 (it_proto it) (it_errs it)
                  (count_non_prototypes (it_proto it)) draws st H) as He.
    destruct (err_loop (it_proto it) (it_errs it) (count_non_prototypes (it_proto it)) draws st)
      as [draws1 st1]. cbn [snd] in He.
    destruct (it_small it || Nat.eqb (S t) n_it); cbn [r_state]; auto.
  Qed.

  Lemma conserved_refl st : lwf st -> conserved st st.
  Proof. intros H; repeat split; auto; apply H. Qed.
End Conserve.

(* Supervised learning only exchanges samples between the training and the validation set:
   the (row, label) pairs over both sets are a permutation of the initial ones; the sizes of
   both sets are unchanged; in both sets row i still sits next to label i (equal lengths). *)
Theorem learn_conserves : forall {R : Type} (its : list iter_in) (n_iterations : nat) (draws : list nat)
    (st : lstate R),
  length (l_Xt st) = length (l_Yt st) -> length (l_Xv st) = length (l_Yv st) ->
  let st' := r_state (learn its n_iterations draws st) in
  Permutation (combine (l_Xt st' ++ l_Xv st') (l_Yt st' ++ l_Yv st'))
              (combine (l_Xt st ++ l_Xv st) (l_Yt st ++ l_Yv st)) /\
  length (l_Xt st') = length (l_Xt st) /\ length (l_Yt st') = length (l_Yt st) /\
  length (l_Xv st') = length (l_Xv st) /\ length (l_Yv st') = length (l_Yv st).
Proof.
  intros R its n_it draws st H1 H2 st'.
  assert (Hc : conserved st st').
  { unfold st', learn. apply learn_loop_conserved. apply conserved_refl. split; auto. }
  destruct Hc as ((Hw1 & Hw2) & Hp & Hl1 & Hl2).
  repeat split; auto; lia.
Qed.

(* ------------------------------------------------------------------------------------ *)
(* learn keeps the best                                                                 *)

Section Best.
  Context {R : Type}.
  Variable all : list iter_in.
  Let acc (i : nat) : Z := nth i (map it_acc all) 0%Z.

  (* [b] is the first index attaining the maximum of acc over 0..T-1, and m that maximum *)
  Definition is_first_max (T b : nat) (m : Z) : Prop :=
    b < T /\ m = acc b /\ (forall i, i < T -> (acc i <= m)%Z) /\ (forall i, i < b -> (acc i < m)%Z).

  Lemma learn_loop_best : forall its pre t n_it max_acc best snap draws (st : lstate R),
    all = pre ++ its -> t = length pre ->
    (t = 0 \/ is_first_max t best max_acc) ->
    let res := learn_loop its t n_it max_acc best snap draws st in
    t <= r_iters res <= t + length its /\
    (its <> [] -> t < r_iters res) /\
    (r_iters res = 0 \/ is_first_max (r_iters res) (r_best res) (acc (r_best res))).
  Proof.
    induction its as [|it rest IH]; intros pre t n_it max_acc best snap draws st Hall Ht Hinv res.
    - unfold res; cbn [learn_loop r_iters r_best length]. repeat split; try lia; try congruence.
      destruct Hinv as [->|Hinv]; auto. right.
      destruct Hinv as (Hb & Hm & Hle & Hlt). subst max_acc. repeat split; auto.
    - assert (Hacc : acc t = it_acc it).
      { unfold acc. rewrite Hall, map_app, app_nth2 by (rewrite map_length; lia).
        rewrite map_length, Ht, Nat.sub_diag. reflexivity. }
      unfold res; cbn [learn_loop].
      destruct (err_loop (it_proto it) (it_errs it) (count_non_prototypes (it_proto it)) draws st)
        as [draws1 st1].
      set (ub := Nat.eqb t 0 || Z.ltb max_acc (it_acc it)).
      assert (Hnew : is_first_max (S t) (if ub then t else best) (if ub then it_acc it else max_acc)).
      { unfold ub. destruct (Nat.eqb_spec t 0) as [Ht0|Ht0]; cbn [orb].
        - split; [lia|]. split; [symmetry; exact Hacc|]. split.
          + intros i Hi. assert (Hi0 : i = t) by lia. rewrite Hi0, Hacc. lia.
          + intros i Hi. lia.
        - destruct Hinv as [Hinv|(Hb & Hm & Hle & Hlt)]; [contradiction|].
          destruct (Z.ltb_spec max_acc (it_acc it)) as [Hup|Hno].
          + split; [lia|]. split; [symmetry; exact Hacc|]. split.
            * intros i Hi. destruct (Nat.eq_dec i t) as [Hi0|Hne]; [rewrite Hi0, Hacc; lia|].
              specialize (Hle i ltac:(lia)). lia.
            * intros i Hi. specialize (Hle i Hi). lia.
          + split; [lia|]. split; [exact Hm|]. split.
            * intros i Hi. destruct (Nat.eq_dec i t) as [Hi0|Hne]; [rewrite Hi0, Hacc; lia|].
              apply Hle; lia.
            * exact Hlt. }
      destruct (it_small it || Nat.eqb (S t) n_it).
      + cbn [r_iters r_best length]. repeat split; try lia.
        right. destruct Hnew as (Hb & Hm & Hle & Hlt). rewrite <- Hm. repeat split; auto.
      + specialize (IH (pre ++ [it]) (S t) n_it (if ub then it_acc it else max_acc)
                       (if ub then t else best)
                       (if ub then (l_Xt st, l_Yt st) else snap) draws1 st1).
        cbn zeta in IH. destruct IH as (Hr1 & Hr2 & Hr3).
        * rewrite <- app_assoc. exact Hall.
        * rewrite app_length; cbn; lia.
        * right; exact Hnew.
        * cbn [length]. repeat split; try lia. exact Hr3.
  Qed.
End Best.

(* The classifier left in the object is that of iteration [r_best]: the smallest index whose
   validation accuracy is the maximum over the iterations that were run. *)
Theorem learn_keeps_best : forall {R : Type} (its : list iter_in) (n_iterations : nat) (draws : list nat)
    (st : lstate R),
  its <> [] ->
  let res := learn its n_iterations draws st in
  let acc i := nth i (map it_acc its) 0%Z in
  1 <= r_iters res <= length its /\
  r_best res < r_iters res /\
  (forall i, i < r_iters res -> (acc i <= acc (r_best res))%Z) /\
  (forall i, i < r_best res -> (acc i < acc (r_best res))%Z).
Proof.
  intros R its n_it draws st Hne res acc.
  destruct (learn_loop_best its its [] 0 n_it 0%Z 0 (l_Xt st, l_Yt st) draws st
              eq_refl eq_refl (or_introl eq_refl)) as (H1 & H2 & H3).
  fold (learn its n_it draws st) in H1, H2, H3. fold res in H1, H2, H3.
  specialize (H2 Hne).
  destruct H3 as [H3|(Hb & _ & Hle & Hlt)]; [lia|].
  repeat split; auto; lia.
Qed.

(* the caller's arrays (and the draw stream) as they stand when iteration i starts *)
Fixpoint state_at {R : Type} (its : list iter_in) (i : nat) (draws : list nat) (st : lstate R) : lstate R :=
  match i, its with
  | S k, it :: rest =>
    let '(draws1, st1) :=
      err_loop (it_proto it) (it_errs it) (count_non_prototypes (it_proto it)) draws st in
    state_at rest k draws1 st1
  | _, _ => st
  end.

Lemma learn_loop_snap : forall {R : Type} (its : list iter_in) t n_it max_acc best snap draws (st : lstate R),
  let res := learn_loop its t n_it max_acc best snap draws st in
  (r_best res = best /\ r_snap res = snap) \/
  (exists i, r_best res = t + i /\
             r_snap res = (l_Xt (state_at its i draws st), l_Yt (state_at its i draws st))).
Proof.
  induction its as [|it rest IH]; intros t n_it max_acc best snap draws st; cbn [learn_loop].
  - left; split; reflexivity.
  - destruct (err_loop (it_proto it) (it_errs it) (count_non_prototypes (it_proto it)) draws st)
      as [draws1 st1] eqn:Ee.
    set (ub := Nat.eqb t 0 || Z.ltb max_acc (it_acc it)).
    assert (Hnow : ((if ub then t else best) = best /\ (if ub then (l_Xt st, l_Yt st) else snap) = snap) \/
                   ((if ub then t else best) = t + 0 /\
                    (if ub then (l_Xt st, l_Yt st) else snap) = (l_Xt st, l_Yt st))).
    { destruct ub; [right | left]; split; auto. }
    destruct (it_small it || Nat.eqb (S t) n_it).
    + cbn [r_best r_snap]. destruct Hnow as [Hn|[Hb Hs]]; [left; exact Hn|].
      right. exists 0. split; auto.
    + cbn zeta.
      destruct (IH (S t) n_it (if ub then it_acc it else max_acc) (if ub then t else best)
                   (if ub then (l_Xt st, l_Yt st) else snap) draws1 st1) as [[Hb Hs]|(i & Hb & Hs)].
      * rewrite Hb, Hs. destruct Hnow as [Hn|[Hb' Hs']]; [left; exact Hn|].
        right. exists 0. split; auto.
      * right. exists (S i). split; [rewrite Hb; lia|].
        rewrite Hs. cbn [state_at]. rewrite Ee. reflexivity.
Qed.

(* the classifier kept in the object (deepcopy of self at the best iteration) was fitted on the
   training set exactly as it stood when iteration r_best started *)
Theorem learn_snapshot : forall {R : Type} (its : list iter_in) (n_iterations : nat) (draws : list nat)
    (st : lstate R),
  let res := learn its n_iterations draws st in
  let sb := state_at its (r_best res) draws st in
  r_snap res = (l_Xt sb, l_Yt sb).
Proof.
  intros R its n_it draws st res sb. unfold sb, res, learn.
  destruct (learn_loop_snap its 0 n_it 0%Z 0 (l_Xt st, l_Yt st) draws st) as [[Hb Hs]|(i & Hb & Hs)].
  - rewrite Hb, Hs. destruct its; reflexivity.
  - rewrite Hb, Hs. reflexivity.
Qed.

(* the loop runs to n_iterations unless the numeric stop test fires (or inputs run out) *)
Lemma learn_iters_bound : forall {R : Type} (its : list iter_in) n_it t max_acc best snap draws (st : lstate R),
  t < n_it -> r_iters (learn_loop its t n_it max_acc best snap draws st) <= n_it.
Proof.
  induction its as [|it rest IH]; intros n_it t max_acc best snap draws st Ht; cbn [learn_loop r_iters]; [lia|].
  destruct (err_loop _ _ _ _ _) as [draws1 st1].
  destruct (it_small it) ; cbn [orb r_iters]; [lia|].
  destruct (Nat.eqb_spec (S t) n_it) as [E|E]; cbn [r_iters]; [lia|].
  apply IH. lia.
Qed.

(* ------------------------------------------------------------------------------------ *)
(* prune only discards                                                                  *)

Inductive sublist {A} : list A -> list A -> Prop :=
| sl_nil : sublist [] []
| sl_skip x l1 l2 : sublist l1 l2 -> sublist l1 (x :: l2)
| sl_keep x l1 l2 : sublist l1 l2 -> sublist (x :: l1) (x :: l2).

Lemma sublist_nil_l {A} (l : list A) : sublist [] l.
Proof. induction l; constructor; auto. Qed.

Lemma sublist_refl {A} (l : list A) : sublist l l.
Proof. induction l; [apply sl_nil | apply sl_keep; auto]. Qed.

Lemma sublist_trans {A} (l1 l2 l3 : list A) : sublist l1 l2 -> sublist l2 l3 -> sublist l1 l3.
Proof.
  intros H12 H23. revert l1 H12.
  induction H23 as [|x l2 l3 H IH|x l2 l3 H IH]; intros l1 H12; auto.
  - apply sl_skip; auto.
  - inversion H12; subst; [apply sl_skip | apply sl_keep]; auto.
Qed.

Lemma sublist_length {A} (l1 l2 : list A) : sublist l1 l2 -> length l1 <= length l2.
Proof. induction 1; cbn; lia. Qed.

(* a sublist is a sub-multiset: the discarded elements complete it to a permutation *)
Lemma sublist_submultiset {A} (l1 l2 : list A) : sublist l1 l2 -> exists rest, Permutation (l1 ++ rest) l2.
Proof.
  induction 1 as [|x l1 l2 H (rest & IH)|x l1 l2 H (rest & IH)].
  - exists []; auto.
  - exists (x :: rest). rewrite <- Permutation_middle. auto.
  - exists rest. cbn. auto.
Qed.

Lemma sublist_In {A} (l1 l2 : list A) x : sublist l1 l2 -> In x l1 -> In x l2.
Proof. induction 1; cbn; intuition. Qed.

Lemma keep_sublist {A} : forall flags (l : list A), sublist (keep flags l) l.
Proof.
  induction flags as [|f fs IH]; intros [|x xs]; cbn [keep]; try apply sublist_nil_l.
  destruct f; [apply sl_keep | apply sl_skip]; apply IH.
Qed.

(* filtering rows and labels by the same flags keeps every surviving row next to its own label *)
Lemma keep_combine {A B} : forall flags (X : list A) (Y : list B),
  combine (keep flags X) (keep flags Y) = keep flags (combine X Y).
Proof.
  induction flags as [|f fs IH]; intros [|x X] [|y Y]; cbn [keep combine]; auto.
  - apply combine_nil_r.
  - destruct f; cbn [combine]; rewrite IH; reflexivity.
Qed.

Lemma keep_length_eq {A B} : forall flags (X : list A) (Y : list B),
  length X = length Y -> length (keep flags X) = length (keep flags Y).
Proof.
  induction flags as [|f fs IH]; intros [|x X] [|y Y] H; cbn in *; try discriminate; auto.
  destruct f; cbn; auto.
Qed.

Lemma prune_fold : forall {R : Type} (flagss : list (list bool)) (tr : list R * list nat),
  let r := fold_left prune_round flagss tr in
  sublist (combine (fst r) (snd r)) (combine (fst tr) (snd tr)) /\
  sublist (fst r) (fst tr) /\ sublist (snd r) (snd tr) /\
  (length (fst tr) = length (snd tr) -> length (fst r) = length (snd r)).
Proof.
  intros R flagss. induction flagss as [|fl fls IH]; intros tr; cbn [fold_left].
  - cbn zeta. repeat split; auto using sublist_refl.
  - change (prune_round tr fl) with (keep fl (fst tr), keep fl (snd tr)).
    pose proof (IH (keep fl (fst tr), keep fl (snd tr))) as H. cbn zeta in H. cbn [fst snd] in H.
    destruct H as (H1 & H2 & H3 & H4). rewrite keep_combine in H1.
    cbn zeta. repeat split.
    + eapply sublist_trans; [exact H1 | apply keep_sublist].
    + eapply sublist_trans; [exact H2 | apply keep_sublist].
    + eapply sublist_trans; [exact H3 | apply keep_sublist].
    + intros E. apply H4. apply keep_length_eq; auto.
Qed.

(* Pruning only discards: the final training set, rows paired with labels, is a sublist of the
   original pairing (so a sub-multiset: the discarded pairs complete it to a permutation), each
   surviving row keeps its own label, and sizes do not grow. *)
Theorem prune_sublist : forall {R : Type} (flagss : list (list bool)) (Xt : list R) (Yt : list nat),
  let X' := fst (prune flagss Xt Yt) in
  let Y' := snd (prune flagss Xt Yt) in
  sublist (combine X' Y') (combine Xt Yt) /\
  (exists discarded, Permutation (combine X' Y' ++ discarded) (combine Xt Yt)) /\
  sublist X' Xt /\ sublist Y' Yt /\
  length X' <= length Xt /\ length Y' <= length Yt /\
  (length Xt = length Yt -> length X' = length Y').
Proof.
  intros R flagss Xt Yt X' Y'.
  destruct (prune_fold flagss (Xt, Yt)) as (H1 & H2 & H3 & H4). cbn [fst snd] in *.
  fold (prune flagss Xt Yt) in H1, H2, H3, H4. fold X' in H1, H2, H4. fold Y' in H1, H3, H4.
  repeat split; auto.
  - apply sublist_submultiset; exact H1.
  - apply sublist_length; exact H2.
  - apply sublist_length; exact H3.
Qed.

(* every round on its own is non-increasing as well *)
Lemma prune_round_shrinks : forall {R : Type} (tr : list R * list nat) flags,
  length (fst (prune_round tr flags)) <= length (fst tr) /\
  length (snd (prune_round tr flags)) <= length (snd tr).
Proof.
  intros R tr flags. unfold prune_round; cbn [fst snd].
  split; apply sublist_length, keep_sublist.
Qed.
