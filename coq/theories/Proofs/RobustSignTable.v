(* The sign analysis run on the GENERATED metric terms (Gen/Metrics_gen.v, regenerated from
   opfython/math/distance.py on every build): one [robust_defined_<name>] per covered metric, by
   [vm_compute] of the checker, and its consequence [robust_sound_<name>] through the soundness
   theorem of Proofs/RobustSign.v.  An edit of a metric body re-runs the analysis.

   Input classes = the domain table of harness/axiom_table.py:
     real -> Any;  nonneg -> NonNeg (the three metrics of that domain are undecorated);  pos/prob -> Pos.
   The class describes the USER's vectors; for a decorated metric the checker pushes it through the
   generated decorator program: NonNeg + EPSILON (Pos) = Pos, because rnd (a + EPSILON) > 0 for a >= 0.
   Hence every decorated metric of the pos/prob domains is also accepted on NonNeg user vectors
   ([robust_table_user], [robust_sound_<name>] is stated on that larger domain).

   Not covered by the generic checker on the table's domain (see Proofs/RobustSignNeg.v):
     jaccard (Pos), mean_censored_euclidean (Any), hassanat (Any).
   File written by a script from harness/axiom_table.py; statements are about [ir_<name>]. *)
From Coq Require Import Reals QArith String List Bool.
From OPF Require Import Spec.MetricSpec Model.MetricIR Gen.Metrics_gen Model.MetricRnd Proofs.RobustSign.
Import ListNotations.
Open Scope string_scope.

(* the table of harness/axiom_table.py (all 47) *)
Definition robust_table : list (string * cls) :=
    [("additive_symmetric_distance", Pos);
     ("average_euclidean_distance", Any);
     ("bhattacharyya_distance", Pos);
     ("bray_curtis_distance", Pos);
     ("canberra_distance", Pos);
     ("chebyshev_distance", Any);
     ("chi_squared_distance", Pos);
     ("chord_distance", Pos);
     ("clark_distance", Pos);
     ("cosine_distance", Pos);
     ("dice_distance", Pos);
     ("divergence_distance", Pos);
     ("euclidean_distance", Any);
     ("gaussian_distance", Any);
     ("gower_distance", Any);
     ("hamming_distance", Any);
     ("hassanat_distance", Any);
     ("hellinger_distance", NonNeg);
     ("jaccard_distance", Pos);
     ("jeffreys_distance", Pos);
     ("jensen_distance", Pos);
     ("jensen_shannon_distance", Pos);
     ("k_divergence_distance", Pos);
     ("kulczynski_distance", Pos);
     ("kullback_leibler_distance", Pos);
     ("log_euclidean_distance", Any);
     ("log_squared_euclidean_distance", Any);
     ("lorentzian_distance", Any);
     ("manhattan_distance", Any);
     ("matusita_distance", NonNeg);
     ("max_symmetric_distance", Pos);
     ("mean_censored_euclidean_distance", Any);
     ("min_symmetric_distance", Pos);
     ("neyman_distance", Pos);
     ("non_intersection_distance", Any);
     ("pearson_distance", Pos);
     ("sangvi_distance", Pos);
     ("soergel_distance", Pos);
     ("squared_distance", Pos);
     ("squared_chord_distance", NonNeg);
     ("squared_euclidean_distance", Any);
     ("statistic_distance", Pos);
     ("topsoe_distance", Pos);
     ("vicis_symmetric1_distance", Pos);
     ("vicis_symmetric2_distance", Pos);
     ("vicis_symmetric3_distance", Pos);
     ("vicis_wave_hedges_distance", Pos)].

(* the 44 entries the generic checker accepts *)
Definition robust_covered : list (string * cls) :=
    [("additive_symmetric_distance", Pos);
     ("average_euclidean_distance", Any);
     ("bhattacharyya_distance", Pos);
     ("bray_curtis_distance", Pos);
     ("canberra_distance", Pos);
     ("chebyshev_distance", Any);
     ("chi_squared_distance", Pos);
     ("chord_distance", Pos);
     ("clark_distance", Pos);
     ("cosine_distance", Pos);
     ("dice_distance", Pos);
     ("divergence_distance", Pos);
     ("euclidean_distance", Any);
     ("gaussian_distance", Any);
     ("gower_distance", Any);
     ("hamming_distance", Any);
     ("hellinger_distance", NonNeg);
     ("jeffreys_distance", Pos);
     ("jensen_distance", Pos);
     ("jensen_shannon_distance", Pos);
     ("k_divergence_distance", Pos);
     ("kulczynski_distance", Pos);
     ("kullback_leibler_distance", Pos);
     ("log_euclidean_distance", Any);
     ("log_squared_euclidean_distance", Any);
     ("lorentzian_distance", Any);
     ("manhattan_distance", Any);
     ("matusita_distance", NonNeg);
     ("max_symmetric_distance", Pos);
     ("min_symmetric_distance", Pos);
     ("neyman_distance", Pos);
     ("non_intersection_distance", Any);
     ("pearson_distance", Pos);
     ("sangvi_distance", Pos);
     ("soergel_distance", Pos);
     ("squared_distance", Pos);
     ("squared_chord_distance", NonNeg);
     ("squared_euclidean_distance", Any);
     ("statistic_distance", Pos);
     ("topsoe_distance", Pos);
     ("vicis_symmetric1_distance", Pos);
     ("vicis_symmetric2_distance", Pos);
     ("vicis_symmetric3_distance", Pos);
     ("vicis_wave_hedges_distance", Pos)].

(* the same with the largest user class (decorated pos/prob metrics on non-negative user vectors) *)
Definition robust_table_user : list (string * cls) :=
    [("additive_symmetric_distance", NonNeg);
     ("average_euclidean_distance", Any);
     ("bhattacharyya_distance", NonNeg);
     ("bray_curtis_distance", NonNeg);
     ("canberra_distance", NonNeg);
     ("chebyshev_distance", Any);
     ("chi_squared_distance", NonNeg);
     ("chord_distance", NonNeg);
     ("clark_distance", NonNeg);
     ("cosine_distance", NonNeg);
     ("dice_distance", NonNeg);
     ("divergence_distance", NonNeg);
     ("euclidean_distance", Any);
     ("gaussian_distance", Any);
     ("gower_distance", Any);
     ("hamming_distance", Any);
     ("hellinger_distance", NonNeg);
     ("jeffreys_distance", NonNeg);
     ("jensen_distance", NonNeg);
     ("jensen_shannon_distance", NonNeg);
     ("k_divergence_distance", NonNeg);
     ("kulczynski_distance", NonNeg);
     ("kullback_leibler_distance", NonNeg);
     ("log_euclidean_distance", Any);
     ("log_squared_euclidean_distance", Any);
     ("lorentzian_distance", Any);
     ("manhattan_distance", Any);
     ("matusita_distance", NonNeg);
     ("max_symmetric_distance", NonNeg);
     ("min_symmetric_distance", NonNeg);
     ("neyman_distance", NonNeg);
     ("non_intersection_distance", Any);
     ("pearson_distance", NonNeg);
     ("sangvi_distance", NonNeg);
     ("soergel_distance", NonNeg);
     ("squared_distance", NonNeg);
     ("squared_chord_distance", NonNeg);
     ("squared_euclidean_distance", Any);
     ("statistic_distance", NonNeg);
     ("topsoe_distance", NonNeg);
     ("vicis_symmetric1_distance", NonNeg);
     ("vicis_symmetric2_distance", NonNeg);
     ("vicis_symmetric3_distance", NonNeg);
     ("vicis_wave_hedges_distance", NonNeg)].

(* the three entries of the table the generic checker rejects *)
Definition robust_uncovered : list (string * cls) :=
    [("hassanat_distance", Any);
     ("jaccard_distance", Pos);
     ("mean_censored_euclidean_distance", Any)].

Lemma robust_defined_all : forallb robust_check_name robust_covered = true.
Proof. vm_compute. reflexivity. Qed.

Lemma robust_defined_all_user : forallb robust_check_name robust_table_user = true.
Proof. vm_compute. reflexivity. Qed.

Lemma robust_rejected : map robust_check_name robust_uncovered = [false; false; false].
Proof. vm_compute. reflexivity. Qed.

Lemma robust_table_split :
  filter robust_check_name robust_table = robust_covered
  /\ filter (fun nc => negb (robust_check_name nc)) robust_table = robust_uncovered.
Proof. vm_compute. split; reflexivity. Qed.

Lemma all_any (x : list R) : Forall (in_cls Any) x.
Proof. induction x; constructor; cbn; auto. Qed.

Lemma robust_defined_additive_symmetric : robust_check NonNeg ir_additive_symmetric = true.
Proof. vm_compute. reflexivity. Qed.

Lemma robust_defined_tbl_additive_symmetric : robust_check Pos ir_additive_symmetric = true.
Proof. vm_compute. reflexivity. Qed.

Lemma robust_sound_additive_symmetric :
  forall rnd, rounding rnd -> forall x y, length x = length y -> (1 <= length x)%nat -> all_nonneg x -> all_nonneg y -> metric_rnd rnd ir_additive_symmetric x y <> None.
Proof.
  intros rnd RND x y HL H1 HX HY.
  apply (robust_check_sound NonNeg _ robust_defined_additive_symmetric rnd RND x y HL H1 HX HY).
Qed.

Lemma robust_defined_average_euclidean : robust_check Any ir_average_euclidean = true.
Proof. vm_compute. reflexivity. Qed.

Lemma robust_sound_average_euclidean :
  forall rnd, rounding rnd -> forall x y, length x = length y -> (1 <= length x)%nat -> metric_rnd rnd ir_average_euclidean x y <> None.
Proof.
  intros rnd RND x y HL H1.
  apply (robust_check_sound Any _ robust_defined_average_euclidean rnd RND x y HL H1 (all_any x) (all_any y)).
Qed.

Lemma robust_defined_bhattacharyya : robust_check NonNeg ir_bhattacharyya = true.
Proof. vm_compute. reflexivity. Qed.

Lemma robust_defined_tbl_bhattacharyya : robust_check Pos ir_bhattacharyya = true.
Proof. vm_compute. reflexivity. Qed.

Lemma robust_sound_bhattacharyya :
  forall rnd, rounding rnd -> forall x y, length x = length y -> (1 <= length x)%nat -> all_nonneg x -> all_nonneg y -> metric_rnd rnd ir_bhattacharyya x y <> None.
Proof.
  intros rnd RND x y HL H1 HX HY.
  apply (robust_check_sound NonNeg _ robust_defined_bhattacharyya rnd RND x y HL H1 HX HY).
Qed.

Lemma robust_defined_bray_curtis : robust_check NonNeg ir_bray_curtis = true.
Proof. vm_compute. reflexivity. Qed.

Lemma robust_defined_tbl_bray_curtis : robust_check Pos ir_bray_curtis = true.
Proof. vm_compute. reflexivity. Qed.

Lemma robust_sound_bray_curtis :
  forall rnd, rounding rnd -> forall x y, length x = length y -> (1 <= length x)%nat -> all_nonneg x -> all_nonneg y -> metric_rnd rnd ir_bray_curtis x y <> None.
Proof.
  intros rnd RND x y HL H1 HX HY.
  apply (robust_check_sound NonNeg _ robust_defined_bray_curtis rnd RND x y HL H1 HX HY).
Qed.

Lemma robust_defined_canberra : robust_check NonNeg ir_canberra = true.
Proof. vm_compute. reflexivity. Qed.

Lemma robust_defined_tbl_canberra : robust_check Pos ir_canberra = true.
Proof. vm_compute. reflexivity. Qed.

Lemma robust_sound_canberra :
  forall rnd, rounding rnd -> forall x y, length x = length y -> (1 <= length x)%nat -> all_nonneg x -> all_nonneg y -> metric_rnd rnd ir_canberra x y <> None.
Proof.
  intros rnd RND x y HL H1 HX HY.
  apply (robust_check_sound NonNeg _ robust_defined_canberra rnd RND x y HL H1 HX HY).
Qed.

Lemma robust_defined_chebyshev : robust_check Any ir_chebyshev = true.
Proof. vm_compute. reflexivity. Qed.

Lemma robust_sound_chebyshev :
  forall rnd, rounding rnd -> forall x y, length x = length y -> (1 <= length x)%nat -> metric_rnd rnd ir_chebyshev x y <> None.
Proof.
  intros rnd RND x y HL H1.
  apply (robust_check_sound Any _ robust_defined_chebyshev rnd RND x y HL H1 (all_any x) (all_any y)).
Qed.

Lemma robust_defined_chi_squared : robust_check NonNeg ir_chi_squared = true.
Proof. vm_compute. reflexivity. Qed.

Lemma robust_defined_tbl_chi_squared : robust_check Pos ir_chi_squared = true.
Proof. vm_compute. reflexivity. Qed.

Lemma robust_sound_chi_squared :
  forall rnd, rounding rnd -> forall x y, length x = length y -> (1 <= length x)%nat -> all_nonneg x -> all_nonneg y -> metric_rnd rnd ir_chi_squared x y <> None.
Proof.
  intros rnd RND x y HL H1 HX HY.
  apply (robust_check_sound NonNeg _ robust_defined_chi_squared rnd RND x y HL H1 HX HY).
Qed.

Lemma robust_defined_chord : robust_check NonNeg ir_chord = true.
Proof. vm_compute. reflexivity. Qed.

Lemma robust_defined_tbl_chord : robust_check Pos ir_chord = true.
Proof. vm_compute. reflexivity. Qed.

Lemma robust_sound_chord :
  forall rnd, rounding rnd -> forall x y, length x = length y -> (1 <= length x)%nat -> all_nonneg x -> all_nonneg y -> metric_rnd rnd ir_chord x y <> None.
Proof.
  intros rnd RND x y HL H1 HX HY.
  apply (robust_check_sound NonNeg _ robust_defined_chord rnd RND x y HL H1 HX HY).
Qed.

Lemma robust_defined_clark : robust_check NonNeg ir_clark = true.
Proof. vm_compute. reflexivity. Qed.

Lemma robust_defined_tbl_clark : robust_check Pos ir_clark = true.
Proof. vm_compute. reflexivity. Qed.

Lemma robust_sound_clark :
  forall rnd, rounding rnd -> forall x y, length x = length y -> (1 <= length x)%nat -> all_nonneg x -> all_nonneg y -> metric_rnd rnd ir_clark x y <> None.
Proof.
  intros rnd RND x y HL H1 HX HY.
  apply (robust_check_sound NonNeg _ robust_defined_clark rnd RND x y HL H1 HX HY).
Qed.

Lemma robust_defined_cosine : robust_check NonNeg ir_cosine = true.
Proof. vm_compute. reflexivity. Qed.

Lemma robust_defined_tbl_cosine : robust_check Pos ir_cosine = true.
Proof. vm_compute. reflexivity. Qed.

Lemma robust_sound_cosine :
  forall rnd, rounding rnd -> forall x y, length x = length y -> (1 <= length x)%nat -> all_nonneg x -> all_nonneg y -> metric_rnd rnd ir_cosine x y <> None.
Proof.
  intros rnd RND x y HL H1 HX HY.
  apply (robust_check_sound NonNeg _ robust_defined_cosine rnd RND x y HL H1 HX HY).
Qed.

Lemma robust_defined_dice : robust_check NonNeg ir_dice = true.
Proof. vm_compute. reflexivity. Qed.

Lemma robust_defined_tbl_dice : robust_check Pos ir_dice = true.
Proof. vm_compute. reflexivity. Qed.

Lemma robust_sound_dice :
  forall rnd, rounding rnd -> forall x y, length x = length y -> (1 <= length x)%nat -> all_nonneg x -> all_nonneg y -> metric_rnd rnd ir_dice x y <> None.
Proof.
  intros rnd RND x y HL H1 HX HY.
  apply (robust_check_sound NonNeg _ robust_defined_dice rnd RND x y HL H1 HX HY).
Qed.

Lemma robust_defined_divergence : robust_check NonNeg ir_divergence = true.
Proof. vm_compute. reflexivity. Qed.

Lemma robust_defined_tbl_divergence : robust_check Pos ir_divergence = true.
Proof. vm_compute. reflexivity. Qed.

Lemma robust_sound_divergence :
  forall rnd, rounding rnd -> forall x y, length x = length y -> (1 <= length x)%nat -> all_nonneg x -> all_nonneg y -> metric_rnd rnd ir_divergence x y <> None.
Proof.
  intros rnd RND x y HL H1 HX HY.
  apply (robust_check_sound NonNeg _ robust_defined_divergence rnd RND x y HL H1 HX HY).
Qed.

Lemma robust_defined_euclidean : robust_check Any ir_euclidean = true.
Proof. vm_compute. reflexivity. Qed.

Lemma robust_sound_euclidean :
  forall rnd, rounding rnd -> forall x y, length x = length y -> (1 <= length x)%nat -> metric_rnd rnd ir_euclidean x y <> None.
Proof.
  intros rnd RND x y HL H1.
  apply (robust_check_sound Any _ robust_defined_euclidean rnd RND x y HL H1 (all_any x) (all_any y)).
Qed.

Lemma robust_defined_gaussian : robust_check Any ir_gaussian = true.
Proof. vm_compute. reflexivity. Qed.

Lemma robust_sound_gaussian :
  forall rnd, rounding rnd -> forall x y, length x = length y -> (1 <= length x)%nat -> metric_rnd rnd ir_gaussian x y <> None.
Proof.
  intros rnd RND x y HL H1.
  apply (robust_check_sound Any _ robust_defined_gaussian rnd RND x y HL H1 (all_any x) (all_any y)).
Qed.

Lemma robust_defined_gower : robust_check Any ir_gower = true.
Proof. vm_compute. reflexivity. Qed.

Lemma robust_sound_gower :
  forall rnd, rounding rnd -> forall x y, length x = length y -> (1 <= length x)%nat -> metric_rnd rnd ir_gower x y <> None.
Proof.
  intros rnd RND x y HL H1.
  apply (robust_check_sound Any _ robust_defined_gower rnd RND x y HL H1 (all_any x) (all_any y)).
Qed.

Lemma robust_defined_hamming : robust_check Any ir_hamming = true.
Proof. vm_compute. reflexivity. Qed.

Lemma robust_sound_hamming :
  forall rnd, rounding rnd -> forall x y, length x = length y -> (1 <= length x)%nat -> metric_rnd rnd ir_hamming x y <> None.
Proof.
  intros rnd RND x y HL H1.
  apply (robust_check_sound Any _ robust_defined_hamming rnd RND x y HL H1 (all_any x) (all_any y)).
Qed.

Lemma robust_defined_hellinger : robust_check NonNeg ir_hellinger = true.
Proof. vm_compute. reflexivity. Qed.

Lemma robust_sound_hellinger :
  forall rnd, rounding rnd -> forall x y, length x = length y -> (1 <= length x)%nat -> all_nonneg x -> all_nonneg y -> metric_rnd rnd ir_hellinger x y <> None.
Proof.
  intros rnd RND x y HL H1 HX HY.
  apply (robust_check_sound NonNeg _ robust_defined_hellinger rnd RND x y HL H1 HX HY).
Qed.

Lemma robust_defined_jeffreys : robust_check NonNeg ir_jeffreys = true.
Proof. vm_compute. reflexivity. Qed.

Lemma robust_defined_tbl_jeffreys : robust_check Pos ir_jeffreys = true.
Proof. vm_compute. reflexivity. Qed.

Lemma robust_sound_jeffreys :
  forall rnd, rounding rnd -> forall x y, length x = length y -> (1 <= length x)%nat -> all_nonneg x -> all_nonneg y -> metric_rnd rnd ir_jeffreys x y <> None.
Proof.
  intros rnd RND x y HL H1 HX HY.
  apply (robust_check_sound NonNeg _ robust_defined_jeffreys rnd RND x y HL H1 HX HY).
Qed.

Lemma robust_defined_jensen : robust_check NonNeg ir_jensen = true.
Proof. vm_compute. reflexivity. Qed.

Lemma robust_defined_tbl_jensen : robust_check Pos ir_jensen = true.
Proof. vm_compute. reflexivity. Qed.

Lemma robust_sound_jensen :
  forall rnd, rounding rnd -> forall x y, length x = length y -> (1 <= length x)%nat -> all_nonneg x -> all_nonneg y -> metric_rnd rnd ir_jensen x y <> None.
Proof.
  intros rnd RND x y HL H1 HX HY.
  apply (robust_check_sound NonNeg _ robust_defined_jensen rnd RND x y HL H1 HX HY).
Qed.

Lemma robust_defined_jensen_shannon : robust_check NonNeg ir_jensen_shannon = true.
Proof. vm_compute. reflexivity. Qed.

Lemma robust_defined_tbl_jensen_shannon : robust_check Pos ir_jensen_shannon = true.
Proof. vm_compute. reflexivity. Qed.

Lemma robust_sound_jensen_shannon :
  forall rnd, rounding rnd -> forall x y, length x = length y -> (1 <= length x)%nat -> all_nonneg x -> all_nonneg y -> metric_rnd rnd ir_jensen_shannon x y <> None.
Proof.
  intros rnd RND x y HL H1 HX HY.
  apply (robust_check_sound NonNeg _ robust_defined_jensen_shannon rnd RND x y HL H1 HX HY).
Qed.

Lemma robust_defined_k_divergence : robust_check NonNeg ir_k_divergence = true.
Proof. vm_compute. reflexivity. Qed.

Lemma robust_defined_tbl_k_divergence : robust_check Pos ir_k_divergence = true.
Proof. vm_compute. reflexivity. Qed.

Lemma robust_sound_k_divergence :
  forall rnd, rounding rnd -> forall x y, length x = length y -> (1 <= length x)%nat -> all_nonneg x -> all_nonneg y -> metric_rnd rnd ir_k_divergence x y <> None.
Proof.
  intros rnd RND x y HL H1 HX HY.
  apply (robust_check_sound NonNeg _ robust_defined_k_divergence rnd RND x y HL H1 HX HY).
Qed.

Lemma robust_defined_kulczynski : robust_check NonNeg ir_kulczynski = true.
Proof. vm_compute. reflexivity. Qed.

Lemma robust_defined_tbl_kulczynski : robust_check Pos ir_kulczynski = true.
Proof. vm_compute. reflexivity. Qed.

Lemma robust_sound_kulczynski :
  forall rnd, rounding rnd -> forall x y, length x = length y -> (1 <= length x)%nat -> all_nonneg x -> all_nonneg y -> metric_rnd rnd ir_kulczynski x y <> None.
Proof.
  intros rnd RND x y HL H1 HX HY.
  apply (robust_check_sound NonNeg _ robust_defined_kulczynski rnd RND x y HL H1 HX HY).
Qed.

Lemma robust_defined_kullback_leibler : robust_check NonNeg ir_kullback_leibler = true.
Proof. vm_compute. reflexivity. Qed.

Lemma robust_defined_tbl_kullback_leibler : robust_check Pos ir_kullback_leibler = true.
Proof. vm_compute. reflexivity. Qed.

Lemma robust_sound_kullback_leibler :
  forall rnd, rounding rnd -> forall x y, length x = length y -> (1 <= length x)%nat -> all_nonneg x -> all_nonneg y -> metric_rnd rnd ir_kullback_leibler x y <> None.
Proof.
  intros rnd RND x y HL H1 HX HY.
  apply (robust_check_sound NonNeg _ robust_defined_kullback_leibler rnd RND x y HL H1 HX HY).
Qed.

Lemma robust_defined_log_euclidean : robust_check Any ir_log_euclidean = true.
Proof. vm_compute. reflexivity. Qed.

Lemma robust_sound_log_euclidean :
  forall rnd, rounding rnd -> forall x y, length x = length y -> (1 <= length x)%nat -> metric_rnd rnd ir_log_euclidean x y <> None.
Proof.
  intros rnd RND x y HL H1.
  apply (robust_check_sound Any _ robust_defined_log_euclidean rnd RND x y HL H1 (all_any x) (all_any y)).
Qed.

Lemma robust_defined_log_squared_euclidean : robust_check Any ir_log_squared_euclidean = true.
Proof. vm_compute. reflexivity. Qed.

Lemma robust_sound_log_squared_euclidean :
  forall rnd, rounding rnd -> forall x y, length x = length y -> (1 <= length x)%nat -> metric_rnd rnd ir_log_squared_euclidean x y <> None.
Proof.
  intros rnd RND x y HL H1.
  apply (robust_check_sound Any _ robust_defined_log_squared_euclidean rnd RND x y HL H1 (all_any x) (all_any y)).
Qed.

Lemma robust_defined_lorentzian : robust_check Any ir_lorentzian = true.
Proof. vm_compute. reflexivity. Qed.

Lemma robust_sound_lorentzian :
  forall rnd, rounding rnd -> forall x y, length x = length y -> (1 <= length x)%nat -> metric_rnd rnd ir_lorentzian x y <> None.
Proof.
  intros rnd RND x y HL H1.
  apply (robust_check_sound Any _ robust_defined_lorentzian rnd RND x y HL H1 (all_any x) (all_any y)).
Qed.

Lemma robust_defined_manhattan : robust_check Any ir_manhattan = true.
Proof. vm_compute. reflexivity. Qed.

Lemma robust_sound_manhattan :
  forall rnd, rounding rnd -> forall x y, length x = length y -> (1 <= length x)%nat -> metric_rnd rnd ir_manhattan x y <> None.
Proof.
  intros rnd RND x y HL H1.
  apply (robust_check_sound Any _ robust_defined_manhattan rnd RND x y HL H1 (all_any x) (all_any y)).
Qed.

Lemma robust_defined_matusita : robust_check NonNeg ir_matusita = true.
Proof. vm_compute. reflexivity. Qed.

Lemma robust_sound_matusita :
  forall rnd, rounding rnd -> forall x y, length x = length y -> (1 <= length x)%nat -> all_nonneg x -> all_nonneg y -> metric_rnd rnd ir_matusita x y <> None.
Proof.
  intros rnd RND x y HL H1 HX HY.
  apply (robust_check_sound NonNeg _ robust_defined_matusita rnd RND x y HL H1 HX HY).
Qed.

Lemma robust_defined_max_symmetric : robust_check NonNeg ir_max_symmetric = true.
Proof. vm_compute. reflexivity. Qed.

Lemma robust_defined_tbl_max_symmetric : robust_check Pos ir_max_symmetric = true.
Proof. vm_compute. reflexivity. Qed.

Lemma robust_sound_max_symmetric :
  forall rnd, rounding rnd -> forall x y, length x = length y -> (1 <= length x)%nat -> all_nonneg x -> all_nonneg y -> metric_rnd rnd ir_max_symmetric x y <> None.
Proof.
  intros rnd RND x y HL H1 HX HY.
  apply (robust_check_sound NonNeg _ robust_defined_max_symmetric rnd RND x y HL H1 HX HY).
Qed.

Lemma robust_defined_min_symmetric : robust_check NonNeg ir_min_symmetric = true.
Proof. vm_compute. reflexivity. Qed.

Lemma robust_defined_tbl_min_symmetric : robust_check Pos ir_min_symmetric = true.
Proof. vm_compute. reflexivity. Qed.

Lemma robust_sound_min_symmetric :
  forall rnd, rounding rnd -> forall x y, length x = length y -> (1 <= length x)%nat -> all_nonneg x -> all_nonneg y -> metric_rnd rnd ir_min_symmetric x y <> None.
Proof.
  intros rnd RND x y HL H1 HX HY.
  apply (robust_check_sound NonNeg _ robust_defined_min_symmetric rnd RND x y HL H1 HX HY).
Qed.

Lemma robust_defined_neyman : robust_check NonNeg ir_neyman = true.
Proof. vm_compute. reflexivity. Qed.

Lemma robust_defined_tbl_neyman : robust_check Pos ir_neyman = true.
Proof. vm_compute. reflexivity. Qed.

Lemma robust_sound_neyman :
  forall rnd, rounding rnd -> forall x y, length x = length y -> (1 <= length x)%nat -> all_nonneg x -> all_nonneg y -> metric_rnd rnd ir_neyman x y <> None.
Proof.
  intros rnd RND x y HL H1 HX HY.
  apply (robust_check_sound NonNeg _ robust_defined_neyman rnd RND x y HL H1 HX HY).
Qed.

Lemma robust_defined_non_intersection : robust_check Any ir_non_intersection = true.
Proof. vm_compute. reflexivity. Qed.

Lemma robust_sound_non_intersection :
  forall rnd, rounding rnd -> forall x y, length x = length y -> (1 <= length x)%nat -> metric_rnd rnd ir_non_intersection x y <> None.
Proof.
  intros rnd RND x y HL H1.
  apply (robust_check_sound Any _ robust_defined_non_intersection rnd RND x y HL H1 (all_any x) (all_any y)).
Qed.

Lemma robust_defined_pearson : robust_check NonNeg ir_pearson = true.
Proof. vm_compute. reflexivity. Qed.

Lemma robust_defined_tbl_pearson : robust_check Pos ir_pearson = true.
Proof. vm_compute. reflexivity. Qed.

Lemma robust_sound_pearson :
  forall rnd, rounding rnd -> forall x y, length x = length y -> (1 <= length x)%nat -> all_nonneg x -> all_nonneg y -> metric_rnd rnd ir_pearson x y <> None.
Proof.
  intros rnd RND x y HL H1 HX HY.
  apply (robust_check_sound NonNeg _ robust_defined_pearson rnd RND x y HL H1 HX HY).
Qed.

Lemma robust_defined_sangvi : robust_check NonNeg ir_sangvi = true.
Proof. vm_compute. reflexivity. Qed.

Lemma robust_defined_tbl_sangvi : robust_check Pos ir_sangvi = true.
Proof. vm_compute. reflexivity. Qed.

Lemma robust_sound_sangvi :
  forall rnd, rounding rnd -> forall x y, length x = length y -> (1 <= length x)%nat -> all_nonneg x -> all_nonneg y -> metric_rnd rnd ir_sangvi x y <> None.
Proof.
  intros rnd RND x y HL H1 HX HY.
  apply (robust_check_sound NonNeg _ robust_defined_sangvi rnd RND x y HL H1 HX HY).
Qed.

Lemma robust_defined_soergel : robust_check NonNeg ir_soergel = true.
Proof. vm_compute. reflexivity. Qed.

Lemma robust_defined_tbl_soergel : robust_check Pos ir_soergel = true.
Proof. vm_compute. reflexivity. Qed.

Lemma robust_sound_soergel :
  forall rnd, rounding rnd -> forall x y, length x = length y -> (1 <= length x)%nat -> all_nonneg x -> all_nonneg y -> metric_rnd rnd ir_soergel x y <> None.
Proof.
  intros rnd RND x y HL H1 HX HY.
  apply (robust_check_sound NonNeg _ robust_defined_soergel rnd RND x y HL H1 HX HY).
Qed.

Lemma robust_defined_squared : robust_check NonNeg ir_squared = true.
Proof. vm_compute. reflexivity. Qed.

Lemma robust_defined_tbl_squared : robust_check Pos ir_squared = true.
Proof. vm_compute. reflexivity. Qed.

Lemma robust_sound_squared :
  forall rnd, rounding rnd -> forall x y, length x = length y -> (1 <= length x)%nat -> all_nonneg x -> all_nonneg y -> metric_rnd rnd ir_squared x y <> None.
Proof.
  intros rnd RND x y HL H1 HX HY.
  apply (robust_check_sound NonNeg _ robust_defined_squared rnd RND x y HL H1 HX HY).
Qed.

Lemma robust_defined_squared_chord : robust_check NonNeg ir_squared_chord = true.
Proof. vm_compute. reflexivity. Qed.

Lemma robust_sound_squared_chord :
  forall rnd, rounding rnd -> forall x y, length x = length y -> (1 <= length x)%nat -> all_nonneg x -> all_nonneg y -> metric_rnd rnd ir_squared_chord x y <> None.
Proof.
  intros rnd RND x y HL H1 HX HY.
  apply (robust_check_sound NonNeg _ robust_defined_squared_chord rnd RND x y HL H1 HX HY).
Qed.

Lemma robust_defined_squared_euclidean : robust_check Any ir_squared_euclidean = true.
Proof. vm_compute. reflexivity. Qed.

Lemma robust_sound_squared_euclidean :
  forall rnd, rounding rnd -> forall x y, length x = length y -> (1 <= length x)%nat -> metric_rnd rnd ir_squared_euclidean x y <> None.
Proof.
  intros rnd RND x y HL H1.
  apply (robust_check_sound Any _ robust_defined_squared_euclidean rnd RND x y HL H1 (all_any x) (all_any y)).
Qed.

Lemma robust_defined_statistic : robust_check NonNeg ir_statistic = true.
Proof. vm_compute. reflexivity. Qed.

Lemma robust_defined_tbl_statistic : robust_check Pos ir_statistic = true.
Proof. vm_compute. reflexivity. Qed.

Lemma robust_sound_statistic :
  forall rnd, rounding rnd -> forall x y, length x = length y -> (1 <= length x)%nat -> all_nonneg x -> all_nonneg y -> metric_rnd rnd ir_statistic x y <> None.
Proof.
  intros rnd RND x y HL H1 HX HY.
  apply (robust_check_sound NonNeg _ robust_defined_statistic rnd RND x y HL H1 HX HY).
Qed.

Lemma robust_defined_topsoe : robust_check NonNeg ir_topsoe = true.
Proof. vm_compute. reflexivity. Qed.

Lemma robust_defined_tbl_topsoe : robust_check Pos ir_topsoe = true.
Proof. vm_compute. reflexivity. Qed.

Lemma robust_sound_topsoe :
  forall rnd, rounding rnd -> forall x y, length x = length y -> (1 <= length x)%nat -> all_nonneg x -> all_nonneg y -> metric_rnd rnd ir_topsoe x y <> None.
Proof.
  intros rnd RND x y HL H1 HX HY.
  apply (robust_check_sound NonNeg _ robust_defined_topsoe rnd RND x y HL H1 HX HY).
Qed.

Lemma robust_defined_vicis_symmetric1 : robust_check NonNeg ir_vicis_symmetric1 = true.
Proof. vm_compute. reflexivity. Qed.

Lemma robust_defined_tbl_vicis_symmetric1 : robust_check Pos ir_vicis_symmetric1 = true.
Proof. vm_compute. reflexivity. Qed.

Lemma robust_sound_vicis_symmetric1 :
  forall rnd, rounding rnd -> forall x y, length x = length y -> (1 <= length x)%nat -> all_nonneg x -> all_nonneg y -> metric_rnd rnd ir_vicis_symmetric1 x y <> None.
Proof.
  intros rnd RND x y HL H1 HX HY.
  apply (robust_check_sound NonNeg _ robust_defined_vicis_symmetric1 rnd RND x y HL H1 HX HY).
Qed.

Lemma robust_defined_vicis_symmetric2 : robust_check NonNeg ir_vicis_symmetric2 = true.
Proof. vm_compute. reflexivity. Qed.

Lemma robust_defined_tbl_vicis_symmetric2 : robust_check Pos ir_vicis_symmetric2 = true.
Proof. vm_compute. reflexivity. Qed.

Lemma robust_sound_vicis_symmetric2 :
  forall rnd, rounding rnd -> forall x y, length x = length y -> (1 <= length x)%nat -> all_nonneg x -> all_nonneg y -> metric_rnd rnd ir_vicis_symmetric2 x y <> None.
Proof.
  intros rnd RND x y HL H1 HX HY.
  apply (robust_check_sound NonNeg _ robust_defined_vicis_symmetric2 rnd RND x y HL H1 HX HY).
Qed.

Lemma robust_defined_vicis_symmetric3 : robust_check NonNeg ir_vicis_symmetric3 = true.
Proof. vm_compute. reflexivity. Qed.

Lemma robust_defined_tbl_vicis_symmetric3 : robust_check Pos ir_vicis_symmetric3 = true.
Proof. vm_compute. reflexivity. Qed.

Lemma robust_sound_vicis_symmetric3 :
  forall rnd, rounding rnd -> forall x y, length x = length y -> (1 <= length x)%nat -> all_nonneg x -> all_nonneg y -> metric_rnd rnd ir_vicis_symmetric3 x y <> None.
Proof.
  intros rnd RND x y HL H1 HX HY.
  apply (robust_check_sound NonNeg _ robust_defined_vicis_symmetric3 rnd RND x y HL H1 HX HY).
Qed.

Lemma robust_defined_vicis_wave_hedges : robust_check NonNeg ir_vicis_wave_hedges = true.
Proof. vm_compute. reflexivity. Qed.

Lemma robust_defined_tbl_vicis_wave_hedges : robust_check Pos ir_vicis_wave_hedges = true.
Proof. vm_compute. reflexivity. Qed.

Lemma robust_sound_vicis_wave_hedges :
  forall rnd, rounding rnd -> forall x y, length x = length y -> (1 <= length x)%nat -> all_nonneg x -> all_nonneg y -> metric_rnd rnd ir_vicis_wave_hedges x y <> None.
Proof.
  intros rnd RND x y HL H1 HX HY.
  apply (robust_check_sound NonNeg _ robust_defined_vicis_wave_hedges rnd RND x y HL H1 HX HY).
Qed.

Lemma robust_sound_all :
  (forall rnd, rounding rnd -> forall x y, length x = length y -> (1 <= length x)%nat -> all_nonneg x -> all_nonneg y -> metric_rnd rnd ir_additive_symmetric x y <> None)
  /\ (forall rnd, rounding rnd -> forall x y, length x = length y -> (1 <= length x)%nat -> metric_rnd rnd ir_average_euclidean x y <> None)
  /\ (forall rnd, rounding rnd -> forall x y, length x = length y -> (1 <= length x)%nat -> all_nonneg x -> all_nonneg y -> metric_rnd rnd ir_bhattacharyya x y <> None)
  /\ (forall rnd, rounding rnd -> forall x y, length x = length y -> (1 <= length x)%nat -> all_nonneg x -> all_nonneg y -> metric_rnd rnd ir_bray_curtis x y <> None)
  /\ (forall rnd, rounding rnd -> forall x y, length x = length y -> (1 <= length x)%nat -> all_nonneg x -> all_nonneg y -> metric_rnd rnd ir_canberra x y <> None)
  /\ (forall rnd, rounding rnd -> forall x y, length x = length y -> (1 <= length x)%nat -> metric_rnd rnd ir_chebyshev x y <> None)
  /\ (forall rnd, rounding rnd -> forall x y, length x = length y -> (1 <= length x)%nat -> all_nonneg x -> all_nonneg y -> metric_rnd rnd ir_chi_squared x y <> None)
  /\ (forall rnd, rounding rnd -> forall x y, length x = length y -> (1 <= length x)%nat -> all_nonneg x -> all_nonneg y -> metric_rnd rnd ir_chord x y <> None)
  /\ (forall rnd, rounding rnd -> forall x y, length x = length y -> (1 <= length x)%nat -> all_nonneg x -> all_nonneg y -> metric_rnd rnd ir_clark x y <> None)
  /\ (forall rnd, rounding rnd -> forall x y, length x = length y -> (1 <= length x)%nat -> all_nonneg x -> all_nonneg y -> metric_rnd rnd ir_cosine x y <> None)
  /\ (forall rnd, rounding rnd -> forall x y, length x = length y -> (1 <= length x)%nat -> all_nonneg x -> all_nonneg y -> metric_rnd rnd ir_dice x y <> None)
  /\ (forall rnd, rounding rnd -> forall x y, length x = length y -> (1 <= length x)%nat -> all_nonneg x -> all_nonneg y -> metric_rnd rnd ir_divergence x y <> None)
  /\ (forall rnd, rounding rnd -> forall x y, length x = length y -> (1 <= length x)%nat -> metric_rnd rnd ir_euclidean x y <> None)
  /\ (forall rnd, rounding rnd -> forall x y, length x = length y -> (1 <= length x)%nat -> metric_rnd rnd ir_gaussian x y <> None)
  /\ (forall rnd, rounding rnd -> forall x y, length x = length y -> (1 <= length x)%nat -> metric_rnd rnd ir_gower x y <> None)
  /\ (forall rnd, rounding rnd -> forall x y, length x = length y -> (1 <= length x)%nat -> metric_rnd rnd ir_hamming x y <> None)
  /\ (forall rnd, rounding rnd -> forall x y, length x = length y -> (1 <= length x)%nat -> all_nonneg x -> all_nonneg y -> metric_rnd rnd ir_hellinger x y <> None)
  /\ (forall rnd, rounding rnd -> forall x y, length x = length y -> (1 <= length x)%nat -> all_nonneg x -> all_nonneg y -> metric_rnd rnd ir_jeffreys x y <> None)
  /\ (forall rnd, rounding rnd -> forall x y, length x = length y -> (1 <= length x)%nat -> all_nonneg x -> all_nonneg y -> metric_rnd rnd ir_jensen x y <> None)
  /\ (forall rnd, rounding rnd -> forall x y, length x = length y -> (1 <= length x)%nat -> all_nonneg x -> all_nonneg y -> metric_rnd rnd ir_jensen_shannon x y <> None)
  /\ (forall rnd, rounding rnd -> forall x y, length x = length y -> (1 <= length x)%nat -> all_nonneg x -> all_nonneg y -> metric_rnd rnd ir_k_divergence x y <> None)
  /\ (forall rnd, rounding rnd -> forall x y, length x = length y -> (1 <= length x)%nat -> all_nonneg x -> all_nonneg y -> metric_rnd rnd ir_kulczynski x y <> None)
  /\ (forall rnd, rounding rnd -> forall x y, length x = length y -> (1 <= length x)%nat -> all_nonneg x -> all_nonneg y -> metric_rnd rnd ir_kullback_leibler x y <> None)
  /\ (forall rnd, rounding rnd -> forall x y, length x = length y -> (1 <= length x)%nat -> metric_rnd rnd ir_log_euclidean x y <> None)
  /\ (forall rnd, rounding rnd -> forall x y, length x = length y -> (1 <= length x)%nat -> metric_rnd rnd ir_log_squared_euclidean x y <> None)
  /\ (forall rnd, rounding rnd -> forall x y, length x = length y -> (1 <= length x)%nat -> metric_rnd rnd ir_lorentzian x y <> None)
  /\ (forall rnd, rounding rnd -> forall x y, length x = length y -> (1 <= length x)%nat -> metric_rnd rnd ir_manhattan x y <> None)
  /\ (forall rnd, rounding rnd -> forall x y, length x = length y -> (1 <= length x)%nat -> all_nonneg x -> all_nonneg y -> metric_rnd rnd ir_matusita x y <> None)
  /\ (forall rnd, rounding rnd -> forall x y, length x = length y -> (1 <= length x)%nat -> all_nonneg x -> all_nonneg y -> metric_rnd rnd ir_max_symmetric x y <> None)
  /\ (forall rnd, rounding rnd -> forall x y, length x = length y -> (1 <= length x)%nat -> all_nonneg x -> all_nonneg y -> metric_rnd rnd ir_min_symmetric x y <> None)
  /\ (forall rnd, rounding rnd -> forall x y, length x = length y -> (1 <= length x)%nat -> all_nonneg x -> all_nonneg y -> metric_rnd rnd ir_neyman x y <> None)
  /\ (forall rnd, rounding rnd -> forall x y, length x = length y -> (1 <= length x)%nat -> metric_rnd rnd ir_non_intersection x y <> None)
  /\ (forall rnd, rounding rnd -> forall x y, length x = length y -> (1 <= length x)%nat -> all_nonneg x -> all_nonneg y -> metric_rnd rnd ir_pearson x y <> None)
  /\ (forall rnd, rounding rnd -> forall x y, length x = length y -> (1 <= length x)%nat -> all_nonneg x -> all_nonneg y -> metric_rnd rnd ir_sangvi x y <> None)
  /\ (forall rnd, rounding rnd -> forall x y, length x = length y -> (1 <= length x)%nat -> all_nonneg x -> all_nonneg y -> metric_rnd rnd ir_soergel x y <> None)
  /\ (forall rnd, rounding rnd -> forall x y, length x = length y -> (1 <= length x)%nat -> all_nonneg x -> all_nonneg y -> metric_rnd rnd ir_squared x y <> None)
  /\ (forall rnd, rounding rnd -> forall x y, length x = length y -> (1 <= length x)%nat -> all_nonneg x -> all_nonneg y -> metric_rnd rnd ir_squared_chord x y <> None)
  /\ (forall rnd, rounding rnd -> forall x y, length x = length y -> (1 <= length x)%nat -> metric_rnd rnd ir_squared_euclidean x y <> None)
  /\ (forall rnd, rounding rnd -> forall x y, length x = length y -> (1 <= length x)%nat -> all_nonneg x -> all_nonneg y -> metric_rnd rnd ir_statistic x y <> None)
  /\ (forall rnd, rounding rnd -> forall x y, length x = length y -> (1 <= length x)%nat -> all_nonneg x -> all_nonneg y -> metric_rnd rnd ir_topsoe x y <> None)
  /\ (forall rnd, rounding rnd -> forall x y, length x = length y -> (1 <= length x)%nat -> all_nonneg x -> all_nonneg y -> metric_rnd rnd ir_vicis_symmetric1 x y <> None)
  /\ (forall rnd, rounding rnd -> forall x y, length x = length y -> (1 <= length x)%nat -> all_nonneg x -> all_nonneg y -> metric_rnd rnd ir_vicis_symmetric2 x y <> None)
  /\ (forall rnd, rounding rnd -> forall x y, length x = length y -> (1 <= length x)%nat -> all_nonneg x -> all_nonneg y -> metric_rnd rnd ir_vicis_symmetric3 x y <> None)
  /\ (forall rnd, rounding rnd -> forall x y, length x = length y -> (1 <= length x)%nat -> all_nonneg x -> all_nonneg y -> metric_rnd rnd ir_vicis_wave_hedges x y <> None).
Proof.
  exact (conj robust_sound_additive_symmetric (conj robust_sound_average_euclidean (conj robust_sound_bhattacharyya (conj robust_sound_bray_curtis (conj robust_sound_canberra (conj robust_sound_chebyshev (conj robust_sound_chi_squared (conj robust_sound_chord (conj robust_sound_clark (conj robust_sound_cosine (conj robust_sound_dice (conj robust_sound_divergence (conj robust_sound_euclidean (conj robust_sound_gaussian (conj robust_sound_gower (conj robust_sound_hamming (conj robust_sound_hellinger (conj robust_sound_jeffreys (conj robust_sound_jensen (conj robust_sound_jensen_shannon (conj robust_sound_k_divergence (conj robust_sound_kulczynski (conj robust_sound_kullback_leibler (conj robust_sound_log_euclidean (conj robust_sound_log_squared_euclidean (conj robust_sound_lorentzian (conj robust_sound_manhattan (conj robust_sound_matusita (conj robust_sound_max_symmetric (conj robust_sound_min_symmetric (conj robust_sound_neyman (conj robust_sound_non_intersection (conj robust_sound_pearson (conj robust_sound_sangvi (conj robust_sound_soergel (conj robust_sound_squared (conj robust_sound_squared_chord (conj robust_sound_squared_euclidean (conj robust_sound_statistic (conj robust_sound_topsoe (conj robust_sound_vicis_symmetric1 (conj robust_sound_vicis_symmetric2 (conj robust_sound_vicis_symmetric3 robust_sound_vicis_wave_hedges))))))))))))))))))))))))))))))))))))))))))).
Qed.
