(* C18: split / merge are a partition of the samples; parse_loader's acceptance test. *)
From Coq Require Import List Arith ZArith Permutation Lia.
From OPF Require Import Model.Stream.
Import ListNotations.

(* ------------------------------------------------------------------------------------ *)
(* gather *)

Lemma gather_length {T} (d : T) a idx : length (gather d a idx) = length idx.
Proof. unfold gather. apply map_length. Qed.

Lemma gather_firstn_skipn {T} (d : T) a h p :
  gather d a (firstn h p) ++ gather d a (skipn h p) = gather d a p.
Proof. unfold gather. now rewrite <- map_app, firstn_skipn. Qed.

Lemma combine_map_same {S T U} (f : S -> T) (g : S -> U) (l : list S) :
  combine (map f l) (map g l) = map (fun x => (f x, g x)) l.
Proof. induction l as [|x l IH]; simpl; [reflexivity|]. now rewrite IH. Qed.

Lemma combine3_gather {A B} (dX : A) (dY : B) X Y p :
  combine3 (gather dX X p) (gather dY Y p) p
  = map (fun i => (nth i X dX, (nth i Y dY, i))) p.
Proof.
  unfold combine3, gather.
  rewrite <- (map_id p) at 3. rewrite (combine_map_same (fun i => nth i Y dY) (fun i => i)).
  rewrite (combine_map_same (fun i => nth i X dX) (fun i => (nth i Y dY, i))). reflexivity.
Qed.

Lemma self_tabulate {T} (d : T) (l : list T) : l = map (fun i => nth i l d) (seq 0 (length l)).
Proof.
  apply nth_ext with (d := d) (d' := nth 0 l d).
  - now rewrite map_length, seq_length.
  - intros n Hn.
    rewrite (map_nth (fun i => nth i l d) (seq 0 (length l)) 0 n), seq_nth by assumption.
    reflexivity.
Qed.

Lemma combine3_seq {A B} (dX : A) (dY : B) X Y n : length X = n -> length Y = n ->
  combine3 X Y (seq 0 n) = map (fun i => (nth i X dX, (nth i Y dY, i))) (seq 0 n).
Proof.
  intros HX HY. rewrite <- combine3_gather. unfold gather.
  assert (EX : map (fun i => nth i X dX) (seq 0 n) = X) by (subst n; symmetry; apply self_tabulate).
  assert (EY : map (fun i => nth i Y dY) (seq 0 n) = Y) by (rewrite <- HY; symmetry; apply self_tabulate).
  now rewrite EX, EY.
Qed.

Lemma combine_gather {A B} (dX : A) (dY : B) X Y p :
  combine (gather dX X p) (gather dY Y p) = map (fun i => (nth i X dX, nth i Y dY)) p.
Proof. unfold gather. apply combine_map_same. Qed.

Lemma combine_seq {A B} (dX : A) (dY : B) X Y n : length X = n -> length Y = n ->
  combine X Y = map (fun i => (nth i X dX, nth i Y dY)) (seq 0 n).
Proof.
  intros HX HY. rewrite <- combine_gather. unfold gather.
  assert (EX : map (fun i => nth i X dX) (seq 0 n) = X) by (subst n; symmetry; apply self_tabulate).
  assert (EY : map (fun i => nth i Y dY) (seq 0 n) = Y) by (rewrite <- HY; symmetry; apply self_tabulate).
  now rewrite EX, EY.
Qed.

(* ------------------------------------------------------------------------------------ *)
(* split_partition, merge_split *)

Lemma split_partition {A B} (dX : A) (dY : B) (perm : list nat) (h n : nat) (X : list A) (Y : list B) :
  length X = n -> length Y = n -> Permutation perm (seq 0 n) -> h <= n ->
  let '(X1, X2, Y1, Y2, I1, I2) := split_with_index dX dY perm h X Y in
  Permutation (combine3 (X1 ++ X2) (Y1 ++ Y2) (I1 ++ I2)) (combine3 X Y (seq 0 n)) /\
  length X1 = h /\ length Y1 = h /\ length X2 = n - h /\ length Y2 = n - h /\
  I1 = firstn h perm /\ I2 = skipn h perm /\ NoDup (I1 ++ I2) /\
  split dX dY perm h X Y = (X1, X2, Y1, Y2).
Proof.
  intros HX HY Hperm Hh. unfold split_with_index, split.
  assert (Hlen : length perm = n) by (rewrite (Permutation_length Hperm); apply seq_length).
  rewrite !gather_firstn_skipn, firstn_skipn, !gather_length.
  rewrite firstn_length, skipn_length, Hlen.
  repeat split; try lia.
  - rewrite combine3_gather, (combine3_seq dX dY X Y n HX HY). now apply Permutation_map.
  - apply (Permutation_NoDup (Permutation_sym Hperm)), seq_NoDup.
Qed.

Lemma merge_split {A B} (dX : A) (dY : B) (perm : list nat) (h n : nat) (X : list A) (Y : list B) :
  length X = n -> length Y = n -> Permutation perm (seq 0 n) -> h <= n ->
  let '(X1, X2, Y1, Y2) := split dX dY perm h X Y in
  let '(Xm, Ym) := merge X1 X2 Y1 Y2 in
  Permutation (combine Xm Ym) (combine X Y) /\ length Xm = n /\ length Ym = n.
Proof.
  intros HX HY Hperm Hh. unfold split, merge.
  assert (Hlen : length perm = n) by (rewrite (Permutation_length Hperm); apply seq_length).
  rewrite !gather_firstn_skipn, !gather_length.
  repeat split; try lia.
  rewrite combine_gather, (combine_seq dX dY X Y n HX HY). now apply Permutation_map.
Qed.

(* ------------------------------------------------------------------------------------ *)
(* parse_loader *)

Local Open Scope Z_scope.

Lemma fold_max_ge_init a l : a <= fold_right Z.max a l.
Proof. induction l as [|x l IH]; simpl; lia. Qed.

Lemma fold_max_ge a l y : In y l -> y <= fold_right Z.max a l.
Proof. induction l as [|x l IH]; simpl; [tauto|]. intros [->|H]; [lia|]. specialize (IH H). lia. Qed.

Lemma zmax_ge Y y : In y Y -> y <= zmax Y.
Proof. unfold zmax. apply fold_max_ge. Qed.

Definition zrange (m : Z) : list Z := map Z.of_nat (seq 0 (Z.to_nat (m + 1))).

Lemma zrange_in m k : In k (zrange m) <-> 0 <= k <= m.
Proof.
  unfold zrange. rewrite in_map_iff. split.
  - intros [i [<- Hi]]. apply in_seq in Hi. lia.
  - intros H. exists (Z.to_nat k). split; [lia|]. apply in_seq. lia.
Qed.

Lemma zrange_NoDup m : NoDup (zrange m).
Proof.
  unfold zrange. apply FinFun.Injective_map_NoDup; [|apply seq_NoDup].
  intros a b. apply Nat2Z.inj.
Qed.

Lemma zrange_length m : length (zrange m) = Z.to_nat (m + 1).
Proof. unfold zrange. now rewrite map_length, seq_length. Qed.

Lemma accepts_iff_sequential (Y : list Z) :
  Forall (fun y => 0 <= y) Y ->
  (Z.of_nat (n_distinct Y) = zmax Y + 1 <-> sequential Y).
Proof.
  intros Hnn. rewrite Forall_forall in Hnn. unfold n_distinct, sequential.
  set (D := nodup Z.eq_dec Y). set (m := zmax Y).
  assert (HD : NoDup D) by apply NoDup_nodup.
  assert (Hincl : incl D (zrange m)).
  { intros y Hy. apply nodup_In in Hy. apply zrange_in. split; [now apply Hnn|now apply zmax_ge]. }
  assert (Hm : Y <> [] -> 0 <= m).
  { destruct Y as [|y0 t]; [congruence|]. intros _.
    assert (0 <= y0) by (apply Hnn; simpl; auto).
    assert (y0 <= m) by (apply zmax_ge; simpl; auto). lia. }
  split.
  - intros E k Hk.
    assert (Hlen : (length (zrange m) <= length D)%nat) by (rewrite zrange_length; lia).
    pose proof (NoDup_length_incl HD Hlen Hincl) as Hrev.
    apply (nodup_In Z.eq_dec). apply Hrev. now apply zrange_in.
  - intros Hseq.
    assert (Hne : Y <> []).
    { intros HY. specialize (Hseq 0). unfold m in Hseq. rewrite HY in Hseq.
      apply Hseq. unfold zmax. simpl. lia. }
    specialize (Hm Hne).
    assert (Hrev : incl (zrange m) D).
    { intros k Hk. apply nodup_In. apply Hseq. now apply zrange_in. }
    pose proof (NoDup_incl_length HD Hincl) as L1.
    pose proof (NoDup_incl_length (zrange_NoDup m) Hrev) as L2.
    rewrite zrange_length in L1, L2. lia.
Qed.

Lemma parse_accepts_iff_sequential (data : list (list Z)) :
  Forall (fun y => 0 <= y) (labels_of data) ->
  (parse_loader data <> None <-> sequential (labels_of data)).
Proof.
  intros Hnn. rewrite <- (accepts_iff_sequential _ Hnn). unfold parse_loader.
  destruct (Z.eqb_spec (Z.of_nat (n_distinct (labels_of data))) (zmax (labels_of data) + 1)) as [E|E].
  - split; [intros _; exact E|intros _; discriminate].
  - split; [intros H; now contradiction H|intros H; contradiction].
Qed.

Lemma parse_columns (data : list (list Z)) X Y :
  parse_loader data = Some (X, Y) -> X = features_of data /\ Y = labels_of data.
Proof.
  unfold parse_loader. destruct (Z.eqb _ _); [|discriminate]. intros H. inversion H. auto.
Qed.

Lemma parse_result (data : list (list Z)) :
  Forall (fun y => 0 <= y) (labels_of data) -> sequential (labels_of data) ->
  parse_loader data = Some (features_of data, labels_of data).
Proof.
  intros Hnn Hseq. apply (accepts_iff_sequential _ Hnn) in Hseq. unfold parse_loader.
  now rewrite Hseq, Z.eqb_refl.
Qed.

(* the acceptance test is NOT "sequential" when a label is negative: {-1, 1, 2} passes *)
Lemma parse_accepts_nonsequential_with_negative :
  exists data, parse_loader data <> None /\ ~ sequential (labels_of data).
Proof.
  exists [[0; -1; 7]; [1; 1; 8]; [2; 2; 9]]. split; [vm_compute; discriminate|].
  intros H. specialize (H 0). assert (Hk : 0 <= 0 <= zmax (labels_of [[0; -1; 7]; [1; 1; 8]; [2; 2; 9]])) by (vm_compute; split; discriminate).
  specialize (H Hk). vm_compute in H. intuition discriminate.
Qed.

(* non-vacuity *)
Example ex_split :
  split_with_index [] 0 [2; 0; 3; 1]%nat 2%nat [[10]; [11]; [12]; [13]] [0; 1; 0; 1]
  = ([[12]; [10]], [[13]; [11]], [0; 0], [1; 1], [2; 0]%nat, [3; 1]%nat).
Proof. reflexivity. Qed.

Example ex_perm : Permutation [2; 0; 3; 1]%nat (seq 0 4).
Proof.
  simpl. apply Permutation_sym.
  apply perm_trans with (l' := [0; 2; 1; 3]%nat); [repeat constructor|].
  apply perm_trans with (l' := [2; 0; 1; 3]%nat); [constructor|].
  constructor. constructor. constructor.
Qed.

Example ex_parse_accept :
  parse_loader [[5; 0; 100; 101]; [6; 1; 102; 103]; [7; 0; 104; 105]]
  = Some ([[100; 101]; [102; 103]; [104; 105]], [0; 1; 0]).
Proof. reflexivity. Qed.

Example ex_parse_reject : parse_loader [[5; 0; 100]; [6; 2; 102]] = None.
Proof. reflexivity. Qed.
