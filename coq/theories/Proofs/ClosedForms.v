(* C06: each generated metric term evaluates, over the reals, to its published closed form
   (Spec/MetricSpec.v), for vectors of every (equal) length.  The statements are about the terms of
   Gen/Metrics_gen.v, regenerated from opfython/math/distance.py on every run: an edit of the source
   that changes a formula's meaning makes the corresponding proof below fail to compile.

   Decorated metrics (`@d.avoid_zero_division`) see both arguments shifted by EPSILON, as computed by
   the generated decorator program (Gen/Decorator_gen.v, lemma [dec_ok]). *)
From Coq Require Import Reals QArith Qreals String List Lra.
From OPF Require Import Model.Consts Model.Effects Spec.MetricSpec Gen.Consts_gen Model.MetricIR
     Gen.Metrics_gen Gen.Decorator_gen Model.MetricEval Proofs.IRLemmas.
Import ListNotations.
Open Scope R_scope.

Lemma sqrt_Rmax_0 (a : R) : sqrt (Rmax a 0) = sqrt a.
Proof.
  unfold Rmax. destruct (Rle_dec a 0) as [Hle|Hgt]; [|reflexivity].
  rewrite sqrt_0. symmetry. apply sqrt_neg_0; exact Hle.
Qed.

Lemma sqrt_Rmax_0' (a : R) : sqrt (Rmax 0 a) = sqrt a.
Proof. rewrite Rmax_comm. apply sqrt_Rmax_0. Qed.

Ltac cf_open m :=
  unfold metric_value, metric_value_with, evalR_wrapped, evalR_wrapped_with, wrap, m;
  cbn [m_avoid_zero]; rewrite ?dec_ok; cbv beta iota; cf_eval.

(* closes the goals whose two sides differ at most by: sibling calls, the x/y projections of
   [map2], sum-of-squares vs dot product, a constant factor moved across the sum, or a pointwise
   ring identity *)
Ltac cf_close HXY :=
  cf_args HXY;
  rewrite ?(sum_sq_l _ _ HXY), ?(sum_sq_r _ _ HXY), ?sum_map2_scal;
  first [ reflexivity
        | solve [ repeat (first [ reflexivity | pointwise; fail | f_equal ]) ] ].

Ltac cf_plain m HXY := intros HXY; cf_open m; cf_close HXY.
Ltac cf_dec m H HXY :=
  intros H;
  match goal with |- _ = _ (shift ?x) (shift ?y) =>
    assert (HXY : length (shift x) = length (shift y)) by (rewrite !shift_length; exact H) end;
  cf_open m.

Lemma closed_form_additive_symmetric x y :
  length x = length y -> metric_value ir_additive_symmetric x y = sp_additive_symmetric (shift x) (shift y).
Proof.
  cf_dec ir_additive_symmetric H HXY. cf_close HXY.
Qed.

Lemma closed_form_average_euclidean x y :
  length x = length y -> metric_value ir_average_euclidean x y = sp_average_euclidean x y.
Proof. cf_plain ir_average_euclidean HXY. Qed.

Lemma closed_form_bhattacharyya x y :
  length x = length y -> metric_value ir_bhattacharyya x y = sp_bhattacharyya (shift x) (shift y).
Proof.
  cf_dec ir_bhattacharyya H HXY. cf_close HXY.
Qed.

Lemma closed_form_bray_curtis x y :
  length x = length y -> metric_value ir_bray_curtis x y = sp_bray_curtis (shift x) (shift y).
Proof.
  cf_dec ir_bray_curtis H HXY. cf_close HXY.
Qed.

Lemma closed_form_canberra x y :
  length x = length y -> metric_value ir_canberra x y = sp_canberra (shift x) (shift y).
Proof.
  cf_dec ir_canberra H HXY. cf_close HXY.
Qed.

Lemma closed_form_chebyshev x y :
  length x = length y -> metric_value ir_chebyshev x y = sp_chebyshev x y.
Proof. cf_plain ir_chebyshev HXY. Qed.

Lemma closed_form_chi_squared x y :
  length x = length y -> metric_value ir_chi_squared x y = sp_chi_squared (shift x) (shift y).
Proof.
  cf_dec ir_chi_squared H HXY. cf_close HXY.
Qed.

Lemma closed_form_chord x y :
  length x = length y -> metric_value ir_chord x y = sp_chord (shift x) (shift y).
Proof.
  cf_dec ir_chord H HXY.
  (* the code clamps the radicand at 0; over R, [sqrt] of a negative number is 0 anyway *)
  rewrite ?sqrt_Rmax_0, ?sqrt_Rmax_0'.
  cf_close HXY.
Qed.

Lemma closed_form_clark x y :
  length x = length y -> metric_value ir_clark x y = sp_clark (shift x) (shift y).
Proof.
  cf_dec ir_clark H HXY. cf_close HXY.
Qed.

Lemma closed_form_cosine x y :
  length x = length y -> metric_value ir_cosine x y = sp_cosine (shift x) (shift y).
Proof.
  cf_dec ir_cosine H HXY. cf_close HXY.
Qed.

Lemma closed_form_dice x y :
  length x = length y -> metric_value ir_dice x y = sp_dice (shift x) (shift y).
Proof.
  cf_dec ir_dice H HXY. cf_close HXY.
Qed.

Lemma closed_form_divergence x y :
  length x = length y -> metric_value ir_divergence x y = sp_divergence (shift x) (shift y).
Proof.
  cf_dec ir_divergence H HXY. cf_close HXY.
Qed.

Lemma closed_form_euclidean x y :
  length x = length y -> metric_value ir_euclidean x y = sp_euclidean x y.
Proof. cf_plain ir_euclidean HXY. Qed.

(* gaussian takes an extra parameter gamma (default 1; the models never pass it) *)
Lemma closed_form_gaussian_gamma (g : R) x y :
  length x = length y -> metric_value_with (fun _ => g) ir_gaussian x y = sp_gaussian g x y.
Proof. cf_plain ir_gaussian HXY. Qed.

Lemma closed_form_gaussian x y :
  length x = length y -> metric_value ir_gaussian x y = sp_gaussian 1 x y.
Proof.
  intros HXY. cf_open ir_gaussian. cbn [param_default String.eqb Ascii.eqb Bool.eqb]. cf_norm. cf_close HXY.
Qed.

Lemma closed_form_gower x y :
  length x = length y -> metric_value ir_gower x y = sp_gower x y.
Proof. cf_plain ir_gower HXY. Qed.

Lemma closed_form_hamming x y :
  length x = length y -> metric_value ir_hamming x y = sp_hamming x y.
Proof. cf_plain ir_hamming HXY. Qed.

Lemma closed_form_hassanat x y :
  length x = length y -> metric_value ir_hassanat x y = sp_hassanat (shift x) (shift y).
Proof.
  cf_dec ir_hassanat H HXY.
  apply sum_map2_ext; intros a b. unfold hassanat1.
  destruct (Rle_dec 0 (Rmin a b)) as [Hge|Hlt]; reflexivity.
Qed.

Lemma closed_form_hellinger x y :
  length x = length y -> metric_value ir_hellinger x y = sp_hellinger x y.
Proof. cf_plain ir_hellinger HXY. Qed.

Lemma closed_form_jaccard x y :
  length x = length y -> metric_value ir_jaccard x y = sp_jaccard (shift x) (shift y).
Proof.
  cf_dec ir_jaccard H HXY. cf_close HXY.
Qed.

Lemma closed_form_jeffreys x y :
  length x = length y -> metric_value ir_jeffreys x y = sp_jeffreys (shift x) (shift y).
Proof.
  cf_dec ir_jeffreys H HXY. cf_close HXY.
Qed.

Lemma closed_form_jensen x y :
  length x = length y -> metric_value ir_jensen x y = sp_jensen (shift x) (shift y).
Proof.
  cf_dec ir_jensen H HXY. cf_close HXY.
Qed.

Lemma closed_form_jensen_shannon x y :
  length x = length y -> metric_value ir_jensen_shannon x y = sp_jensen_shannon (shift x) (shift y).
Proof.
  cf_dec ir_jensen_shannon H HXY.
  unfold sp_jensen_shannon, sp_topsoe, sp_k_divergence, sum2. do 2 f_equal.
  rewrite <- (sum_map2_swap _ (shift x) (shift y)). apply sum_map2_ext; intros a b.
  now rewrite (Rplus_comm b a).
Qed.

Lemma closed_form_k_divergence x y :
  length x = length y -> metric_value ir_k_divergence x y = sp_k_divergence (shift x) (shift y).
Proof.
  cf_dec ir_k_divergence H HXY. cf_close HXY.
Qed.

Lemma closed_form_kulczynski x y :
  length x = length y -> metric_value ir_kulczynski x y = sp_kulczynski (shift x) (shift y).
Proof.
  cf_dec ir_kulczynski H HXY. cf_close HXY.
Qed.

Lemma closed_form_kullback_leibler x y :
  length x = length y -> metric_value ir_kullback_leibler x y = sp_kullback_leibler (shift x) (shift y).
Proof.
  cf_dec ir_kullback_leibler H HXY. cf_close HXY.
Qed.

Lemma closed_form_log_euclidean x y :
  length x = length y -> metric_value ir_log_euclidean x y = sp_log_euclidean x y.
Proof. cf_plain ir_log_euclidean HXY. Qed.

Lemma closed_form_log_squared_euclidean x y :
  length x = length y -> metric_value ir_log_squared_euclidean x y = sp_log_squared_euclidean x y.
Proof. cf_plain ir_log_squared_euclidean HXY. Qed.

Lemma closed_form_lorentzian x y :
  length x = length y -> metric_value ir_lorentzian x y = sp_lorentzian x y.
Proof. cf_plain ir_lorentzian HXY. Qed.

Lemma closed_form_manhattan x y :
  length x = length y -> metric_value ir_manhattan x y = sp_manhattan x y.
Proof. cf_plain ir_manhattan HXY. Qed.

Lemma closed_form_matusita x y :
  length x = length y -> metric_value ir_matusita x y = sp_matusita x y.
Proof. cf_plain ir_matusita HXY. Qed.

Lemma closed_form_max_symmetric x y :
  length x = length y -> metric_value ir_max_symmetric x y = sp_max_symmetric (shift x) (shift y).
Proof.
  cf_dec ir_max_symmetric H HXY. cf_close HXY.
Qed.

Lemma closed_form_mean_censored_euclidean x y :
  length x = length y -> metric_value ir_mean_censored_euclidean x y = sp_mean_censored_euclidean (shift x) (shift y).
Proof.
  cf_dec ir_mean_censored_euclidean H HXY. cf_close HXY.
Qed.

Lemma closed_form_min_symmetric x y :
  length x = length y -> metric_value ir_min_symmetric x y = sp_min_symmetric (shift x) (shift y).
Proof.
  cf_dec ir_min_symmetric H HXY. cf_close HXY.
Qed.

Lemma closed_form_neyman x y :
  length x = length y -> metric_value ir_neyman x y = sp_neyman (shift x) (shift y).
Proof.
  cf_dec ir_neyman H HXY. cf_close HXY.
Qed.

Lemma closed_form_non_intersection x y :
  length x = length y -> metric_value ir_non_intersection x y = sp_non_intersection x y.
Proof. cf_plain ir_non_intersection HXY. Qed.

Lemma closed_form_pearson x y :
  length x = length y -> metric_value ir_pearson x y = sp_pearson (shift x) (shift y).
Proof.
  cf_dec ir_pearson H HXY. cf_close HXY.
Qed.

Lemma closed_form_sangvi x y :
  length x = length y -> metric_value ir_sangvi x y = sp_sangvi (shift x) (shift y).
Proof.
  cf_dec ir_sangvi H HXY. cf_close HXY.
Qed.

Lemma closed_form_soergel x y :
  length x = length y -> metric_value ir_soergel x y = sp_soergel (shift x) (shift y).
Proof.
  cf_dec ir_soergel H HXY. cf_close HXY.
Qed.

Lemma closed_form_squared x y :
  length x = length y -> metric_value ir_squared x y = sp_squared (shift x) (shift y).
Proof.
  cf_dec ir_squared H HXY. cf_close HXY.
Qed.

Lemma closed_form_squared_chord x y :
  length x = length y -> metric_value ir_squared_chord x y = sp_squared_chord x y.
Proof. cf_plain ir_squared_chord HXY. Qed.

Lemma closed_form_squared_euclidean x y :
  length x = length y -> metric_value ir_squared_euclidean x y = sp_squared_euclidean x y.
Proof. cf_plain ir_squared_euclidean HXY. Qed.

Lemma closed_form_statistic x y :
  length x = length y -> metric_value ir_statistic x y = sp_statistic (shift x) (shift y).
Proof.
  cf_dec ir_statistic H HXY. cf_close HXY.
Qed.

Lemma closed_form_topsoe x y :
  length x = length y -> metric_value ir_topsoe x y = sp_topsoe (shift x) (shift y).
Proof.
  cf_dec ir_topsoe H HXY.
  unfold sp_topsoe, sp_k_divergence, sum2. f_equal.
  rewrite <- (sum_map2_swap _ (shift x) (shift y)). apply sum_map2_ext; intros a b.
  now rewrite (Rplus_comm b a).
Qed.

Lemma closed_form_vicis_symmetric1 x y :
  length x = length y -> metric_value ir_vicis_symmetric1 x y = sp_vicis_symmetric1 (shift x) (shift y).
Proof.
  cf_dec ir_vicis_symmetric1 H HXY. cf_close HXY.
Qed.

Lemma closed_form_vicis_symmetric2 x y :
  length x = length y -> metric_value ir_vicis_symmetric2 x y = sp_vicis_symmetric2 (shift x) (shift y).
Proof.
  cf_dec ir_vicis_symmetric2 H HXY. cf_close HXY.
Qed.

Lemma closed_form_vicis_symmetric3 x y :
  length x = length y -> metric_value ir_vicis_symmetric3 x y = sp_vicis_symmetric3 (shift x) (shift y).
Proof.
  cf_dec ir_vicis_symmetric3 H HXY. cf_close HXY.
Qed.

Lemma closed_form_vicis_wave_hedges x y :
  length x = length y -> metric_value ir_vicis_wave_hedges x y = sp_vicis_wave_hedges (shift x) (shift y).
Proof.
  cf_dec ir_vicis_wave_hedges H HXY. cf_close HXY.
Qed.
