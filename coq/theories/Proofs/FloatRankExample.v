(* Non-vacuity for Props/C01_float_order.v and Props/C17_float.v: concrete binary64 inputs.

   Five samples, two classes, a symmetric weight matrix with ties whose zero entries are written
   sometimes as +0 and sometimes as -0 (both occur in practice: a difference  x - x  is +0, a
   product  -1 * 0  is -0); sentinel  top = FLOAT_MAX = sys.float_info.max. *)
From Coq Require Import List Arith Bool ZArith Lia PrimFloat.
From OPF Require Import Base.Lists Base.TotalOrder Model.Heap Model.Sup Model.Learn Model.LearnFull
  Model.LearnFullFloat.
From OPF Require Import Proofs.ParamSup Proofs.OrderEmbed Proofs.LiftSup Proofs.WeakOrder Proofs.FloatOrder
  Proofs.FloatRank Proofs.FitExample Proofs.LearnFullExample.
Import ListNotations.

Definition fmax : float := 0x1.fffffffffffffp+1023%float.

Definition exfl_m : list (list float) :=
  [[ 0;   0.5;  1.25; 2.5; 2.5];
   [ 0.5; -0;   0.5;  2.5; 2.5];
   [ 1.25; 0.5; 0;    0.75; 1.25];
   [ 2.5; 2.5;  0.75; -0;  0.5];
   [ 2.5; 2.5;  1.25; 0.5; 0]]%float.

Definition exfl_w (p q : nat) : float := nth q (nth p exfl_m []) (-0)%float.

Definition exfl_vals : list float := 0%float :: fmax :: weight_vals 5 exfl_w.

Lemma forallb_fnn l : forallb (fun x => negb (is_nan x)) l = true -> Forall fnn l.
Proof.
  intros H. apply Forall_forall. intros x Hx. rewrite forallb_forall in H.
  specialize (H x Hx). unfold fnn. now apply negb_true_iff.
Qed.

Lemma exfl_vals_nn : Forall fnn exfl_vals.
Proof. apply forallb_fnn. vm_compute. reflexivity. Qed.

(* -0 and +0 both occur among the weights: Leibniz-distinct, [==]-equal, incomparable *)
Lemma exfl_both_zeros :
  In (-0)%float exfl_vals /\ In 0%float exfl_vals /\ (-0)%float <> 0%float /\
  PrimFloat.eqb (-0) 0 = true /\ PrimFloat.ltb (-0) 0 = false /\ PrimFloat.ltb 0 (-0) = false.
Proof.
  split; [|split; [now left|split; [|repeat split]]].
  - right; right. apply (weight_vals_in 5 exfl_w 1 1); lia.
  - intros E. assert (H : FloatOps.Prim2SF (-0)%float = FloatOps.Prim2SF 0%float) by now rewrite E. discriminate H.
Qed.

(* the forest computed on the floats through PrimFloat.ltb *)
Lemma exfl_sup_fit :
  sup_fit PrimFloat.ltb 0%float fmax ex_labels exfl_w =
  mkNodes [0.5; 0.5; 0; 0; 0.5]%float [Some 1; Some 2; None; None; Some 3]%nat [0; 0; 0; 1; 1]%nat
          [0; 0; 0; 1; 1]%nat [false; false; true; true; false]
          [false; false; false; false; false] [2; 3; 1; 4; 0]%nat.
Proof. vm_compute. reflexivity. Qed.

(* the dense ranks of the harness on this instance: 0 (both zeros), 0.5, 0.75, 1.25, 2.5, FLOAT_MAX *)
Lemma exfl_ranks :
  map (ranker exfl_vals) [(-0); 0; 0.5; 0.75; 1.25; 2.5; fmax]%float = [0; 0; 1; 2; 3; 4; 5]%Z.
Proof. vm_compute. reflexivity. Qed.

(* ... and the forest computed on those ranks: same predecessors, labels, flags and order *)
Lemma exfl_sup_fit_ranks :
  sup_fit Z.ltb (ranker exfl_vals 0) (ranker exfl_vals fmax) ex_labels
          (fun p q => ranker exfl_vals (exfl_w p q)) =
  mkNodes [1; 1; 0; 0; 1]%Z [Some 1; Some 2; None; None; Some 3]%nat [0; 0; 0; 1; 1]%nat
          [0; 0; 0; 1; 1]%nat [false; false; true; true; false]
          [false; false; false; false; false] [2; 3; 1; 4; 0]%nat.
Proof. vm_compute. reflexivity. Qed.

(* the hypotheses of the optimum-path-forest theorem hold on this instance *)
Definition fw_ok (zero top : float) (n : nat) (w : nat -> nat -> float) : bool :=
  forallb (fun p => forallb (fun q =>
    Nat.eqb p q || (negb (PrimFloat.ltb (w p q) zero) && PrimFloat.ltb (w p q) top)) (seq 0 n)) (seq 0 n).

Lemma fw_ok_sound zero top n w : fw_ok zero top n w = true ->
  forall p q, p < n -> q < n -> p <> q ->
    PrimFloat.ltb (w p q) zero = false /\ PrimFloat.ltb (w p q) top = true.
Proof.
  intros H p q Hp Hq Hne. unfold fw_ok in H. rewrite forallb_forall in H.
  specialize (H p ltac:(apply in_seq; lia)). rewrite forallb_forall in H.
  specialize (H q ltac:(apply in_seq; lia)).
  destruct (Nat.eqb_spec p q); [contradiction|]. cbn [orb] in H.
  apply andb_true_iff in H. destruct H as [H1 H2]. apply negb_true_iff in H1. now split.
Qed.

Lemma exfl_opf_premises :
  PrimFloat.ltb 0 fmax = true /\
  (forall p q, p < length ex_labels -> q < length ex_labels -> p <> q ->
     PrimFloat.ltb (exfl_w p q) 0 = false /\ PrimFloat.ltb (exfl_w p q) fmax = true) /\
  (exists s, s < length ex_labels /\
     nth s (n_status (find_prototypes PrimFloat.ltb fmax (length ex_labels) exfl_w
                        (nodes_init 0%float ex_labels))) false = true).
Proof.
  split; [reflexivity|]. split.
  - apply fw_ok_sound. vm_compute. reflexivity.
  - exists 2. split; [cbn; lia|]. vm_compute. reflexivity.
Qed.

(* ---------- C17: the closed loop of LearnFullExample.v with binary64 accuracies ---------- *)

Definition exfl_learn := learn_full Z.ltb 0%Z 1000%Z exf_w FAcc 3 exf_draws exf_st.

Lemma exfl_learn_def : exfl_learn = learn_full Z.ltb 0%Z 1000%Z exf_w FAcc 3 exf_draws exf_st.
Proof. unfold exfl_learn. reflexivity. Qed.

Lemma exfl_learn_accs :
  map (@fi_acc Z float) (fr_trace exfl_learn) = [0.25; 0.75; 0.75]%float /\
  fr_res exfl_learn = mkRes 1 3 ([0;5;2;3], [0;1;1;0])%nat [] (mkL [0;5;2;3] [0;1;1;0] [4;1;6] [0;1;0])%nat.
Proof. vm_compute. split; reflexivity. Qed.

Lemma exfl_learn_accs_nn : Forall fnn (map (@fi_acc Z float) (fr_trace exfl_learn)).
Proof. apply forallb_fnn. vm_compute. reflexivity. Qed.
