(* C11, rescaling half, KNN layer: a strictly increasing transform of the weights (and of the
   constants [zero], [top], [bot], [thr], [one] that the code compares them with) leaves the
   neighbour lists, adjacency, plateaus, clustering and the arg-max of the predicts unchanged and
   maps every stored weight by [f].  (The arithmetic kernels - pdf, density - are NOT order-only
   and are outside this statement.) *)
From Coq Require Import List Arith Bool ZArith Lia.
From OPF Require Import Base.Lists Model.Heap Model.Knn Proofs.ParamBase Proofs.ParamKnn.
Import ListNotations.

Definition map_knn {W1 W2} (f : W1 -> W2) (g : @knn W1) : @knn W2 :=
  mkKnn (k_label g) (k_adj g) (map f (k_radius g)) (k_nplat g) (map f (k_dens g)) (map f (k_cost g))
        (k_pred g) (k_root g) (k_plabel g) (k_clabel g) (k_order g) (f (k_gdens g)) (k_nclusters g).

(* all weights stored in the graph satisfy [P] *)
Definition knn_all {W} (P : W -> Prop) (g : @knn W) : Prop :=
  Forall P (k_radius g) /\ Forall P (k_dens g) /\ Forall P (k_cost g) /\ P (k_gdens g).

Lemma knn_rel_on_iff {W1 W2} (P : W1 -> Prop) (f : W1 -> W2) g g' :
  knn_rel (fun a b => P a /\ b = f a) g g' <-> (knn_all P g /\ g' = map_knn f g).
Proof.
  destruct g as [l1 a1 r1 n1 d1 c1 p1 ro1 pl1 cl1 o1 g1 nc1],
           g' as [l2 a2 r2 n2 d2 c2 p2 ro2 pl2 cl2 o2 g2 nc2].
  unfold knn_rel, knn_all, map_knn;
    cbn [k_label k_adj k_radius k_nplat k_dens k_cost k_pred k_root k_plabel
                 k_clabel k_order k_gdens k_nclusters].
  rewrite !Forall2_on_map. split.
  - intros (Hl & Ha & (HPr & Hr) & Hn & (HPd & Hd) & (HPc & Hc) & Hp & Hro & Hpl & Hcl & Ho & (HPg & Hg) & Hnc).
    subst. repeat split; assumption.
  - intros ((HPr & HPd & HPc & HPg) & Heq).
    injection Heq as -> -> -> -> -> -> -> -> -> -> -> -> ->. repeat split; assumption.
Qed.

Section RescaleOn.
  Context {W1 W2 : Type} (P : W1 -> Prop) (f : W1 -> W2).
  Variables (ltb1 : W1 -> W1 -> bool) (ltb2 : W2 -> W2 -> bool).
  Hypothesis Hmono : forall a b, P a -> P b -> ltb2 (f a) (f b) = ltb1 a b.

  Let R (a : W1) (b : W2) : Prop := P a /\ b = f a.

  Let Hltb : forall a b, R a b -> forall a' b', R a' b' -> ltb1 a a' = ltb2 b b'.
  Proof. intros a b [Ha ->] a' b' [Ha' ->]. symmetry. now apply Hmono. Qed.

  Theorem rescale_knn_scan_on top k n d skip ns :
    P top -> (forall j, P (d j)) ->
    Forall P (fst (knn_scan ltb1 top k n d skip ns)) /\
    knn_scan ltb2 (f top) k n (fun j => f (d j)) skip ns
    = (map f (fst (knn_scan ltb1 top k n d skip ns)), snd (knn_scan ltb1 top k n d skip ns)).
  Proof.
    intros Htop Hd.
    destruct (param_knn_scan R ltb1 ltb2 Hltb top (f top) (conj Htop eq_refl) k n d (fun j => f (d j))
                             skip ns) as [H1 H2].
    - intros j; now split.
    - apply Forall2_on_map in H1. destruct H1 as [H1 H1'].
      split; [exact H1|].
      rewrite (surjective_pairing (knn_scan ltb2 _ _ _ _ _ _)). now rewrite H1', H2.
  Qed.

  Theorem rescale_create_arcs_on zero top thr one k n w g :
    P zero -> P top -> P thr -> P one -> (forall p q, P (w p q)) -> knn_all P g ->
    (knn_all P (fst (create_arcs ltb1 zero top thr one k n w g)) /\
     Forall P (snd (create_arcs ltb1 zero top thr one k n w g))) /\
    create_arcs ltb2 (f zero) (f top) (f thr) (f one) k n (fun p q => f (w p q)) (map_knn f g)
    = (map_knn f (fst (create_arcs ltb1 zero top thr one k n w g)),
       map f (snd (create_arcs ltb1 zero top thr one k n w g))).
  Proof.
    intros Hzero Htop Hthr Hone Hw Hg.
    destruct (param_create_arcs R ltb1 ltb2 Hltb zero top (f zero) (f top)
                                (conj Hzero eq_refl) (conj Htop eq_refl)
                                thr (f thr) one (f one) k n w (fun p q => f (w p q)) g (map_knn f g))
      as [H1 H2].
    - now split.
    - now split.
    - intros p q; now split.
    - apply knn_rel_on_iff. now split.
    - apply knn_rel_on_iff in H1. destruct H1 as [H1 H1'].
      apply Forall2_on_map in H2. destruct H2 as [H2 H2'].
      split; [now split|].
      rewrite (surjective_pairing (create_arcs ltb2 _ _ _ _ _ _ _ _)). now rewrite H1', H2'.
  Qed.

  Theorem rescale_clustering_sup_on zero top bot force g :
    P zero -> P top -> P bot -> knn_all P g ->
    knn_all P (clustering_sup ltb1 zero top bot force g) /\
    clustering_sup ltb2 (f zero) (f top) (f bot) force (map_knn f g)
    = map_knn f (clustering_sup ltb1 zero top bot force g).
  Proof.
    intros Hzero Htop Hbot Hg. apply knn_rel_on_iff.
    apply (param_clustering_sup R ltb1 ltb2 Hltb).
    - now split.
    - now split.
    - now split.
    - apply knn_rel_on_iff. now split.
  Qed.

  Theorem rescale_clustering_unsup_on zero top bot k g :
    P zero -> P top -> P bot -> knn_all P g ->
    knn_all P (clustering_unsup ltb1 zero top bot k g) /\
    clustering_unsup ltb2 (f zero) (f top) (f bot) k (map_knn f g)
    = map_knn f (clustering_unsup ltb1 zero top bot k g).
  Proof.
    intros Hzero Htop Hbot Hg. apply knn_rel_on_iff.
    apply (param_clustering_unsup R ltb1 ltb2 Hltb).
    - now split.
    - now split.
    - now split.
    - apply knn_rel_on_iff. now split.
  Qed.

  Theorem rescale_knn_pick_on zero top bot g k x ds ns :
    P zero -> P top -> P bot -> knn_all P g -> P x -> Forall P ds ->
    knn_pick ltb2 (f zero) (f top) (f bot) (map_knn f g) k (f x) (map f ds) ns
    = knn_pick ltb1 zero top bot g k x ds ns.
  Proof.
    intros Hzero Htop Hbot Hg Hx Hds. symmetry.
    apply (param_knn_pick R ltb1 ltb2 Hltb).
    - now split.
    - now split.
    - now split.
    - apply knn_rel_on_iff. now split.
    - now split.
    - apply Forall2_on_map. now split.
  Qed.
End RescaleOn.

(* ---------- W = Z, [f] strictly increasing everywhere ---------- *)

Section RescaleZ.
  Variable f : Z -> Z.
  Hypothesis Hinc : forall a b, (a < b)%Z -> (f a < f b)%Z.

  Let P (a : Z) : Prop := True.
  Let HmonoP : forall a b, P a -> P b -> Z.ltb (f a) (f b) = Z.ltb a b.
  Proof.
    intros a b _ _.
    destruct (Z.ltb_spec a b) as [Hlt|Hge].
    - apply Z.ltb_lt. now apply Hinc.
    - apply Z.ltb_ge. destruct (Z.eq_dec a b) as [->|Hne]; [lia|].
      assert (Hlt : (b < a)%Z) by lia. specialize (Hinc b a Hlt). lia.
  Qed.
  Let allP (l : list Z) : Forall P l.
  Proof. apply Forall_forall. intros; exact I. Qed.
  Let allK (g : @knn Z) : knn_all P g.
  Proof. repeat split; try apply allP. Qed.

  Theorem rescale_knn_scan top k n d skip ns :
    knn_scan Z.ltb (f top) k n (fun j => f (d j)) skip ns
    = (map f (fst (knn_scan Z.ltb top k n d skip ns)), snd (knn_scan Z.ltb top k n d skip ns)).
  Proof. apply (rescale_knn_scan_on P f Z.ltb Z.ltb HmonoP); intros; exact I. Qed.

  Theorem rescale_create_arcs zero top thr one k n w g :
    create_arcs Z.ltb (f zero) (f top) (f thr) (f one) k n (fun p q => f (w p q)) (map_knn f g)
    = (map_knn f (fst (create_arcs Z.ltb zero top thr one k n w g)),
       map f (snd (create_arcs Z.ltb zero top thr one k n w g))).
  Proof. apply (rescale_create_arcs_on P f Z.ltb Z.ltb HmonoP); try (intros; exact I). apply allK. Qed.

  Theorem rescale_clustering_sup zero top bot force g :
    clustering_sup Z.ltb (f zero) (f top) (f bot) force (map_knn f g)
    = map_knn f (clustering_sup Z.ltb zero top bot force g).
  Proof. apply (rescale_clustering_sup_on P f Z.ltb Z.ltb HmonoP); try (intros; exact I). apply allK. Qed.

  Theorem rescale_clustering_unsup zero top bot k g :
    clustering_unsup Z.ltb (f zero) (f top) (f bot) k (map_knn f g)
    = map_knn f (clustering_unsup Z.ltb zero top bot k g).
  Proof. apply (rescale_clustering_unsup_on P f Z.ltb Z.ltb HmonoP); try (intros; exact I). apply allK. Qed.

  Theorem rescale_knn_pick zero top bot g k x ds ns :
    knn_pick Z.ltb (f zero) (f top) (f bot) (map_knn f g) k (f x) (map f ds) ns
    = knn_pick Z.ltb zero top bot g k x ds ns.
  Proof.
    apply (rescale_knn_pick_on P f Z.ltb Z.ltb HmonoP); try (intros; exact I);
      [apply allK | apply allP].
  Qed.
End RescaleZ.
