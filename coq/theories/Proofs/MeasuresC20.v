(* C20 packaged on the property's domain, plus non-vacuity examples. *)
From Coq Require Import List Arith Bool ZArith QArith Reals Lia Lra.
From OPF Require Import Base.Lists Model.Measures Proofs.MeasuresCount Proofs.MeasuresQ Proofs.MeasuresR.
Import ListNotations.
Local Open Scope nat_scope.

Lemma dom_confusion_counts labels preds : c20_domain labels preds ->
  let C := confusion_matrix labels preds in
  let K := n_class labels in
  length C = K /\
  (forall a, a < K -> length (nth a C []) = K) /\
  (forall a b, a < K -> b < K -> get2 C a b = pair_count a b labels preds) /\
  list_sum (map (@list_sum) C) = length labels.
Proof. intros [H1 [_ [_ H4]]]. now apply confusion_counts. Qed.

Lemma dom_accuracy_formula labels preds : c20_domain labels preds ->
  (opf_accuracy labels preds == accuracy_spec labels preds)%Q.
Proof. intros _. apply accuracy_formula. Qed.

Lemma dom_accuracy_bounds labels preds : c20_domain labels preds ->
  (0 <= opf_accuracy labels preds /\ opf_accuracy labels preds <= 1)%Q.
Proof. intros [H1 _]. now apply accuracy_bounds. Qed.

Lemma dom_accuracy_one_iff labels preds : c20_domain labels preds ->
  ((opf_accuracy labels preds == 1)%Q <->
   forall i, i < length labels -> nth i preds 0 = nth i labels 0).
Proof. intros [H1 _]. now apply accuracy_one_iff. Qed.

Lemma dom_per_label_is_recall labels preds : c20_domain labels preds ->
  exists r, opf_accuracy_per_label labels preds = Some r /\
            length r = n_class labels /\
            forall c, c < n_class labels ->
              (nth c r 0 == qn (TP c labels preds) / qn (count c labels))%Q.
Proof. intros [H1 [_ [H3 _]]]. now apply per_label_is_recall. Qed.

Lemma dom_purity_bounds labels preds : c20_domain labels preds ->
  (0 < purity labels preds /\ purity labels preds <= 1)%Q.
Proof. intros [H1 [H2 [_ H4]]]. apply purity_bounds; auto. Qed.

Lemma dom_purity_one_iff labels preds : c20_domain labels preds ->
  ((purity labels preds == 1)%Q <->
   forall i j, i < length labels -> j < length labels ->
               nth i preds 0 = nth j preds 0 -> nth i labels 0 = nth j labels 0).
Proof. intros [H1 [H2 [_ H4]]]. apply purity_one_iff; auto. Qed.

(* on the domain the denominators of the formula are the ones the property names: n_c > 0, and
   N - n_c > 0 unless K = 1 *)
Lemma dom_denominators labels preds c : c20_domain labels preds -> c < n_class labels ->
  0 < count c labels /\ (1 < n_class labels -> 0 < length labels - count c labels).
Proof.
  intros [H1 [H2 [H3 H4]]] Hc. split; [apply count_pos, H3, Hc|].
  intros HK.
  (* another class c' <> c is present, so not all labels are c *)
  set (c' := if Nat.eqb c 0 then 1 else 0).
  assert (Hc' : c' < n_class labels) by (unfold c'; destruct (Nat.eqb c 0); lia).
  assert (Hne : c' <> c) by (unfold c'; destruct (Nat.eqb_spec c 0); lia).
  assert (Hp' : 0 < count c' labels) by (apply count_pos, H3, Hc').
  pose proof (sum_counts labels) as Hs. unfold bincount in Hs.
  assert (Hle : count c labels + count c' labels <= length labels).
  { unfold count. clear -Hne. induction labels as [|x l IH]; simpl; [lia|].
    destruct (Nat.eqb_spec c x), (Nat.eqb_spec c' x); simpl; lia. }
  lia.
Qed.

(* ------------------------------------------------------------------------------------ *)
(* non-vacuity: a 3-class vector in the domain, with the values the theorems talk about *)

Definition ex_labels := [0; 1; 2; 1; 0; 2; 2].
Definition ex_preds  := [0; 2; 2; 1; 1; 2; 0].

Lemma ex_in_domain : c20_domain ex_labels ex_preds.
Proof.
  unfold c20_domain. repeat split.
  - simpl. lia.
  - intros c Hc. change (n_class ex_labels) with 3 in Hc. unfold ex_labels.
    destruct c as [|[|[|c]]]; simpl; auto; lia.
  - intros p Hp. change (n_class ex_labels) with 3. unfold ex_preds in Hp. simpl in Hp.
    repeat (destruct Hp as [<-|Hp]; [lia|]). contradiction.
Qed.

Example ex_confusion : confusion_matrix ex_labels ex_preds = [[1; 1; 0]; [0; 1; 1]; [1; 0; 2]].
Proof. vm_compute. reflexivity. Qed.

Example ex_accuracy : Qred (opf_accuracy ex_labels ex_preds) = (241 # 360)%Q.
Proof. vm_compute. reflexivity. Qed.

Example ex_accuracy_spec : Qred (accuracy_spec ex_labels ex_preds) = (241 # 360)%Q.
Proof. vm_compute. reflexivity. Qed.

Example ex_per_label :
  option_map (map Qred) (opf_accuracy_per_label ex_labels ex_preds) = Some [(1 # 2); (1 # 2); (2 # 3)]%Q.
Proof. vm_compute. reflexivity. Qed.

Example ex_purity : Qred (purity ex_labels ex_preds) = (4 # 7)%Q.
Proof. vm_compute. reflexivity. Qed.

Example ex_all_correct : Qred (opf_accuracy ex_labels ex_labels) = 1%Q /\ Qred (purity ex_labels ex_labels) = 1%Q.
Proof. split; vm_compute; reflexivity. Qed.

(* single class, K = 1: the denominator N - n_0 is 0 and its numerator is 0 *)
Example ex_single_class : c20_domain [0; 0; 0] [0; 0; 0] /\ Qred (opf_accuracy [0; 0; 0] [0; 0; 0]) = 1%Q.
Proof.
  split; [|vm_compute; reflexivity]. unfold c20_domain. repeat split; simpl; try lia.
  - intros c Hc. change (n_class [0; 0; 0]) with 1 in Hc. assert (c = 0) by lia. subst. simpl. auto.
  - intros p Hp. change (n_class [0; 0; 0]) with 1. simpl in Hp. intuition lia.
Qed.

Lemma c20_domain_inhabited :
  exists labels preds, c20_domain labels preds /\ n_class labels = 3 /\
    (opf_accuracy labels preds == 241 # 360)%Q /\ (purity labels preds == 4 # 7)%Q.
Proof.
  exists ex_labels, ex_preds. split; [apply ex_in_domain|]. split; [reflexivity|].
  split; vm_compute; reflexivity.
Qed.

(* normalize: a 3 x 2 matrix whose first column is non-constant and second constant *)
Open Scope R_scope.
Definition ex_matrix : list (list R) := [[1; 5]; [2; 5]; [6; 5]].

Lemma ex_matrix_rect : rect ex_matrix.
Proof. intros row Hr. unfold ex_matrix in Hr. simpl in Hr. intuition (subst; reflexivity). Qed.

Lemma ex_matrix_col0_nonconstant : nonconstant (col 0 ex_matrix 0%nat).
Proof. exists 1, 2. simpl. repeat split; auto. lra. Qed.

Lemma normalize_nonvacuous :
  exists A j, rect A /\ (j < ncols A)%nat /\ nonconstant (col 0 A j).
Proof.
  exists ex_matrix, 0%nat. split; [apply ex_matrix_rect|]. split; [unfold ncols, ex_matrix; cbn [hd length]; lia|apply ex_matrix_col0_nonconstant].
Qed.
