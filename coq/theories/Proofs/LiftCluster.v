(* C13 for an arbitrary strict total order: the KNN-supervised and unsupervised clusterings
   (Model/Knn.v) leave a forest with the link / root properties of Props/C13.v.  Lifted from
   W := Z along the rank map of
   [vals := zero :: top :: bot :: k_gdens g :: k_radius g ++ k_dens g ++ k_cost g]
   (all weights stored in the input graph) with the abstraction theorems of ParamKnn.v, in the
   form of RescaleKnn.v.  The two "density gap" theorems of C13 use [dens - 1] and are not
   order-only; they are not lifted. *)
From Coq Require Import List Arith Bool ZArith Lia Permutation.
From OPF Require Import Base.Lists Base.TotalOrder Model.Heap Model.Knn Spec.Paths Spec.Trees.
From OPF Require Import Proofs.ParamBase Proofs.ParamKnn Proofs.RescaleKnn Proofs.OrderEmbed Props.C13.
Import ListNotations.
Close Scope Z_scope.

(* [Model.Knn.wmin] is [omin] *)
Lemma wmin_omin {W} (ltb : W -> W -> bool) a b : wmin ltb a b = omin ltb a b.
Proof. reflexivity. Qed.

Lemma fold_left_ext_all {A B} (f g : A -> B -> A) l a :
  (forall st x, f st x = g st x) -> fold_left f l a = fold_left g l a.
Proof.
  intros H. revert a. induction l as [|x l IH]; intros a; cbn [fold_left]; [reflexivity|].
  now rewrite H, IH.
Qed.

Section Rank.
  Context {W : Type} (ltb : W -> W -> bool).
  Hypothesis O : strict_total_order ltb.
  Variable vals : list W.
  Local Notation r := (rk ltb vals).
  Local Notation inV := (fun a : W => In a vals).

  Lemma weqb_rank a b : In a vals -> In b vals -> weqb Z.ltb (r a) (r b) = weqb ltb a b.
  Proof. intros Ha Hb. unfold weqb. now rewrite !(rk_ltb ltb O vals) by assumption. Qed.

  Lemma map_rk_inj l l' : Forall inV l -> Forall inV l' -> map r l = map r l' -> l = l'.
  Proof.
    intros H. revert l'. induction H as [|a l Ha _ IH]; intros [|b l'] H' E; cbn [map] in E;
      try discriminate; [reflexivity|].
    inversion H' as [|? ? Hb Hl']; subst. injection E as E1 E2.
    f_equal; [now apply (rk_inj ltb O vals) | now apply IH].
  Qed.

  Variable zero : W.
  Hypothesis Hz : In zero vals.

  Lemma plateau_sup_rank n dens adj : Forall inV dens ->
    plateau_sup Z.ltb (r zero) n (map r dens) adj = plateau_sup ltb zero n dens adj.
  Proof.
    intros Hd. unfold plateau_sup. apply fold_left_ext_all. intros a i.
    apply fold_left_ext_all. intros a' j. unfold plateau_sup_inner.
    rewrite !map_nth. rewrite weqb_rank by (apply (Forall_in_nth vals); assumption). reflexivity.
  Qed.

  Lemma plateau_unsup_rank k n dens adj nps : Forall inV dens ->
    plateau_unsup Z.ltb (r zero) k n (map r dens) adj nps = plateau_unsup ltb zero k n dens adj nps.
  Proof.
    intros Hd. unfold plateau_unsup. apply fold_left_ext_all. intros st i.
    apply fold_left_ext_all. intros [a nps'] kk. unfold plateau_unsup_k.
    rewrite !map_nth. rewrite weqb_rank by (apply (Forall_in_nth vals); assumption). reflexivity.
  Qed.
End Rank.

Section LiftCluster.
  Context {W : Type} (ltb : W -> W -> bool).
  Hypothesis O : strict_total_order ltb.
  Variables (zero top bot : W) (g : @knn W) (n : nat).
  Hypothesis L1 : length (k_label g) = n.
  Hypothesis L2 : length (k_cost g) = n.
  Hypothesis L3 : length (k_pred g) = n.
  Hypothesis L4 : length (k_root g) = n.
  Hypothesis L5 : length (k_plabel g) = n.
  Hypothesis L6 : length (k_clabel g) = n.
  Hypothesis Hadj : forall p q, In q (nth p (k_adj g) []) -> q < n.
  Hypothesis Hcd : forall i, i < n -> ltb (nth i (k_cost g) zero) (nth i (k_dens g) zero) = true.

  Local Notation vals := (zero :: top :: bot :: k_gdens g :: k_radius g ++ k_dens g ++ k_cost g).
  Local Notation r := (rk ltb vals).
  Local Notation inV := (fun a : W => In a vals).

  Let Hz : In zero vals.
  Proof. now left. Qed.
  Let Ht : In top vals.
  Proof. right; now left. Qed.
  Let Hb : In bot vals.
  Proof. right; right; now left. Qed.

  Let Hg : knn_all inV g.
  Proof.
    unfold knn_all. repeat split; try (apply Forall_forall; intros a Ha).
    - do 4 right. apply in_or_app. now left.
    - do 4 right. apply in_or_app. right. apply in_or_app. now left.
    - do 4 right. apply in_or_app. right. apply in_or_app. now right.
    - do 3 right. now left.
  Qed.

  Let Hdens_in q : In (nth q (k_dens g) zero) vals.
  Proof. apply (Forall_in_nth vals); [apply Hg | exact Hz]. Qed.
  Let Hcost0_in q : In (nth q (k_cost g) zero) vals.
  Proof. apply (Forall_in_nth vals); [apply Hg | exact Hz]. Qed.

  Let L2' : length (k_cost (map_knn r g)) = n.
  Proof. unfold map_knn; cbn [k_cost]. now rewrite map_length. Qed.

  Let HcdZ : forall i, i < n ->
    (nth i (k_cost (map_knn r g)) (r zero) < nth i (k_dens (map_knn r g)) (r zero))%Z.
  Proof.
    intros i Hi. unfold map_knn; cbn [k_cost k_dens]. rewrite !map_nth.
    exact (proj2 (rk_lt_iff ltb O vals _ _ (Hcost0_in i) (Hdens_in i)) (Hcd i Hi)).
  Qed.

  Ltac simpl_knn H :=
    cbn [map_knn k_label k_adj k_radius k_nplat k_dens k_cost k_pred k_root k_plabel k_clabel
         k_order k_gdens k_nclusters] in H.

  (* ---------------- KNN-supervised ---------------- *)
  Section Sup.
    Variable force : bool.
    Hypothesis Hforce : force = true -> forall i, i < n -> ltb bot (nth i (k_cost g) zero) = true.

    Let g' := clustering_sup ltb zero top bot force g.

    Let HforceZ : force = true -> forall i, i < n -> (r bot < nth i (k_cost (map_knn r g)) (r zero))%Z.
    Proof.
      intros Hf i Hi. unfold map_knn; cbn [k_cost]. rewrite map_nth.
      exact (proj2 (rk_lt_iff ltb O vals _ _ Hb (Hcost0_in i)) (Hforce Hf i Hi)).
    Qed.

    Let Hg' : knn_all inV g'.
    Proof.
      exact (proj1 (rescale_clustering_sup_on inV r ltb Z.ltb (rk_ltb ltb O vals)
                      zero top bot force g Hz Ht Hb Hg)).
    Qed.

    Let E : clustering_sup Z.ltb (r zero) (r top) (r bot) force (map_knn r g) = map_knn r g'.
    Proof.
      exact (proj2 (rescale_clustering_sup_on inV r ltb Z.ltb (rk_ltb ltb O vals)
                      zero top bot force g Hz Ht Hb Hg)).
    Qed.

    Let Hcost_in q : In (nth q (k_cost g') zero) vals.
    Proof. apply (Forall_in_nth vals); [apply Hg' | exact Hz]. Qed.

    Theorem clustering_sup_order_anyorder :
      exists ord, k_order g' = k_order g ++ ord /\ Permutation ord (seq 0 n).
    Proof.
      pose proof (C13_sup_order (r zero) (r top) (r bot) force (map_knn r g) n
                                L1 L2' L3 L4 L5 L6 Hadj HcdZ HforceZ) as H.
      cbv zeta in H. rewrite E in H. exact H.
    Qed.

    Theorem clustering_sup_links_anyorder :
      let pred := fun q => nth q (k_pred g') None in
      let root := fun q => nth q (k_root g') 0 in
      let cost := fun q => nth q (k_cost g') zero in
      let plabel := fun q => nth q (k_plabel g') 0 in
      let dens := fun q => nth q (k_dens g) zero in
      let cost0 := fun q => nth q (k_cost g) zero in
      let label := fun q => nth q (k_label g) 0 in
      k_label g' = k_label g /\ k_dens g' = k_dens g /\
      k_adj g' = plateau_sup ltb zero n (k_dens g) (k_adj g) /\
      exists ord, k_order g' = k_order g ++ ord /\ Permutation ord (seq 0 n) /\
        forall q, q < n ->
          match pred q with
          | None => root q = q /\ cost q = dens q /\ plabel q = label q
          | Some p => p < n /\ before ord p q /\ In q (nth p (k_adj g') []) /\
                      root q = root p /\ cost q = wmin ltb (cost p) (dens q) /\
                      ltb (cost0 q) (cost q) = true /\ plabel q = plabel p /\
                      (force = true -> label p = label q)
          end.
    Proof.
      pose proof (C13_sup_links (r zero) (r top) (r bot) force (map_knn r g) n
                                L1 L2' L3 L4 L5 L6 Hadj HcdZ HforceZ) as H.
      cbv zeta in H. rewrite E in H. simpl_knn H.
      destruct H as (A1 & A2 & A3 & ord & A4 & A5 & A6).
      cbv zeta. split; [exact A1|]. split; [|split].
      - apply (map_rk_inj ltb O vals); [apply Hg' | apply Hg | exact A2].
      - rewrite A3. apply (plateau_sup_rank ltb O vals zero Hz). apply Hg.
      - exists ord. split; [exact A4|]. split; [exact A5|]. intros q Hq. specialize (A6 q Hq).
        destruct (nth q (k_pred g') None) as [p|].
        + rewrite !map_nth in A6. destruct A6 as (B1 & B2 & B3 & B4 & B5 & B6 & B7 & B8).
          split; [exact B1|]. split; [exact B2|]. split; [exact B3|]. split; [exact B4|].
          split; [|split; [|split; [exact B7|exact B8]]].
          * rewrite wmin_omin. rewrite <- (rk_omin ltb O vals _ _ (Hcost_in p) (Hdens_in q)) in B5.
            exact (rk_inj ltb O vals _ _ (Hcost_in q)
                          (omin_in ltb vals _ _ (Hcost_in p) (Hdens_in q)) B5).
          * exact (proj1 (rk_lt_iff ltb O vals _ _ (Hcost0_in q) (Hcost_in q)) B6).
        + rewrite !map_nth in A6. destruct A6 as (B1 & B2 & B3).
          split; [exact B1|]. split; [|exact B3].
          exact (rk_inj ltb O vals _ _ (Hcost_in q) (Hdens_in q) B2).
    Qed.

    Theorem clustering_sup_forest_anyorder :
      let pred := fun q => nth q (k_pred g') None in
      let root := fun q => nth q (k_root g') 0 in
      let cost := fun q => nth q (k_cost g') zero in
      let plabel := fun q => nth q (k_plabel g') 0 in
      let dens := fun q => nth q (k_dens g) zero in
      let cost0 := fun q => nth q (k_cost g) zero in
      let label := fun q => nth q (k_label g) 0 in
      forall q, q < n ->
        exists rt k, k < n /\ rt < n /\ reaches pred q rt k /\ pred rt = None /\
          (forall r', root_of pred q r' -> r' = rt) /\
          root q = rt /\ ltb (cost rt) (cost q) = false /\ cost rt = dens rt /\
          ltb (cost0 q) (dens rt) = true /\
          plabel q = plabel rt /\ plabel rt = label rt /\
          (force = true -> label q = label rt).
    Proof.
      pose proof (C13_sup_forest (r zero) (r top) (r bot) force (map_knn r g) n
                                 L1 L2' L3 L4 L5 L6 Hadj HcdZ HforceZ) as H.
      cbv zeta in H. rewrite E in H. simpl_knn H.
      cbv zeta. intros q Hq. destruct (H q Hq) as (rt & k & B1 & B2 & B3 & B4 & B5 & B6 & B7 & B8 & B9 & B10 & B11 & B12).
      rewrite !map_nth in B7, B8, B9.
      exists rt, k. split; [exact B1|]. split; [exact B2|]. split; [exact B3|]. split; [exact B4|].
      split; [exact B5|]. split; [exact B6|]. split; [|split; [|split; [|split; [exact B10|split; [exact B11|exact B12]]]]].
      - exact (proj1 (rk_le_iff ltb O vals _ _ (Hcost_in q) (Hcost_in rt)) B7).
      - exact (rk_inj ltb O vals _ _ (Hcost_in rt) (Hdens_in rt) B8).
      - exact (proj1 (rk_lt_iff ltb O vals _ _ (Hcost0_in q) (Hdens_in rt)) B9).
    Qed.
  End Sup.

  (* ---------------- unsupervised ---------------- *)
  Section Unsup.
    Variable k : nat.

    Let g' := clustering_unsup ltb zero top bot k g.

    Let Hg' : knn_all inV g'.
    Proof.
      exact (proj1 (rescale_clustering_unsup_on inV r ltb Z.ltb (rk_ltb ltb O vals)
                      zero top bot k g Hz Ht Hb Hg)).
    Qed.

    Let E : clustering_unsup Z.ltb (r zero) (r top) (r bot) k (map_knn r g) = map_knn r g'.
    Proof.
      exact (proj2 (rescale_clustering_unsup_on inV r ltb Z.ltb (rk_ltb ltb O vals)
                      zero top bot k g Hz Ht Hb Hg)).
    Qed.

    Let Hcost_in q : In (nth q (k_cost g') zero) vals.
    Proof. apply (Forall_in_nth vals); [apply Hg' | exact Hz]. Qed.

    Theorem clustering_unsup_order_anyorder :
      exists ord, k_order g' = k_order g ++ ord /\ Permutation ord (seq 0 n).
    Proof.
      pose proof (C13_unsup_order (r zero) (r top) (r bot) k (map_knn r g) n
                                  L1 L2' L3 L4 L5 L6 Hadj HcdZ) as H.
      cbv zeta in H. rewrite E in H. exact H.
    Qed.

    Theorem clustering_unsup_links_anyorder :
      let pred := fun q => nth q (k_pred g') None in
      let root := fun q => nth q (k_root g') 0 in
      let cost := fun q => nth q (k_cost g') zero in
      let clabel := fun q => nth q (k_clabel g') 0 in
      let dens := fun q => nth q (k_dens g) zero in
      let cost0 := fun q => nth q (k_cost g) zero in
      k_label g' = k_label g /\ k_dens g' = k_dens g /\
      (k_adj g', k_nplat g') = plateau_unsup ltb zero k n (k_dens g) (k_adj g) (k_nplat g) /\
      exists ord, k_order g' = k_order g ++ ord /\ Permutation ord (seq 0 n) /\
        forall q, q < n ->
          match pred q with
          | None => root q = q /\ cost q = dens q
          | Some p => p < n /\ before ord p q /\
                      In q (firstn (nth p (k_nplat g') 0 + k) (nth p (k_adj g') [])) /\
                      root q = root p /\ cost q = wmin ltb (cost p) (dens q) /\
                      ltb (cost0 q) (cost q) = true /\ clabel q = clabel p
          end.
    Proof.
      pose proof (C13_unsup_links (r zero) (r top) (r bot) k (map_knn r g) n
                                  L1 L2' L3 L4 L5 L6 Hadj HcdZ) as H.
      cbv zeta in H. rewrite E in H. simpl_knn H.
      destruct H as (A1 & A2 & A3 & ord & A4 & A5 & A6).
      cbv zeta. split; [exact A1|]. split; [|split].
      - apply (map_rk_inj ltb O vals); [apply Hg' | apply Hg | exact A2].
      - rewrite A3. apply (plateau_unsup_rank ltb O vals zero Hz). apply Hg.
      - exists ord. split; [exact A4|]. split; [exact A5|]. intros q Hq. specialize (A6 q Hq).
        destruct (nth q (k_pred g') None) as [p|].
        + rewrite !map_nth in A6. destruct A6 as (B1 & B2 & B3 & B4 & B5 & B6 & B7).
          split; [exact B1|]. split; [exact B2|]. split; [exact B3|]. split; [exact B4|].
          split; [|split; [|exact B7]].
          * rewrite wmin_omin. rewrite <- (rk_omin ltb O vals _ _ (Hcost_in p) (Hdens_in q)) in B5.
            exact (rk_inj ltb O vals _ _ (Hcost_in q)
                          (omin_in ltb vals _ _ (Hcost_in p) (Hdens_in q)) B5).
          * exact (proj1 (rk_lt_iff ltb O vals _ _ (Hcost0_in q) (Hcost_in q)) B6).
        + rewrite !map_nth in A6. destruct A6 as (B1 & B2).
          split; [exact B1|].
          exact (rk_inj ltb O vals _ _ (Hcost_in q) (Hdens_in q) B2).
    Qed.

    Theorem clustering_unsup_forest_anyorder :
      let pred := fun q => nth q (k_pred g') None in
      let root := fun q => nth q (k_root g') 0 in
      let cost := fun q => nth q (k_cost g') zero in
      let clabel := fun q => nth q (k_clabel g') 0 in
      let dens := fun q => nth q (k_dens g) zero in
      let cost0 := fun q => nth q (k_cost g) zero in
      forall q, q < n ->
        exists rt j, j < n /\ rt < n /\ reaches pred q rt j /\ pred rt = None /\
          (forall r', root_of pred q r' -> r' = rt) /\
          root q = rt /\ ltb (cost rt) (cost q) = false /\ cost rt = dens rt /\
          ltb (cost0 q) (dens rt) = true /\
          clabel q = clabel rt.
    Proof.
      pose proof (C13_unsup_forest (r zero) (r top) (r bot) k (map_knn r g) n
                                   L1 L2' L3 L4 L5 L6 Hadj HcdZ) as H.
      cbv zeta in H. rewrite E in H. simpl_knn H.
      cbv zeta. intros q Hq. destruct (H q Hq) as (rt & j & B1 & B2 & B3 & B4 & B5 & B6 & B7 & B8 & B9 & B10).
      rewrite !map_nth in B7, B8, B9.
      exists rt, j. split; [exact B1|]. split; [exact B2|]. split; [exact B3|]. split; [exact B4|].
      split; [exact B5|]. split; [exact B6|]. split; [|split; [|split; [|exact B10]]].
      - exact (proj1 (rk_le_iff ltb O vals _ _ (Hcost_in q) (Hcost_in rt)) B7).
      - exact (rk_inj ltb O vals _ _ (Hcost_in rt) (Hdens_in rt) B8).
      - exact (proj1 (rk_lt_iff ltb O vals _ _ (Hcost0_in q) (Hdens_in rt)) B9).
    Qed.

    Theorem clustering_unsup_ids_anyorder :
      let pred := fun q => nth q (k_pred g') None in
      let clabel := fun q => nth q (k_clabel g') 0 in
      let isroot := fun q => match pred q with None => true | Some _ => false end in
      k_nclusters g' = length (filter isroot (seq 0 n)) /\
      (exists ord, k_order g' = k_order g ++ ord /\ Permutation ord (seq 0 n) /\
         length (filter isroot ord) = k_nclusters g' /\
         forall i, i < k_nclusters g' -> clabel (nth i (filter isroot ord) 0) = i) /\
      (forall rt, rt < n -> pred rt = None -> clabel rt < k_nclusters g') /\
      (forall rt rt', rt < n -> rt' < n -> pred rt = None -> pred rt' = None ->
         clabel rt = clabel rt' -> rt = rt') /\
      (forall i, i < k_nclusters g' -> exists rt, rt < n /\ pred rt = None /\ clabel rt = i) /\
      (forall q, q < n -> clabel q < k_nclusters g').
    Proof.
      pose proof (C13_unsup_ids (r zero) (r top) (r bot) k (map_knn r g) n
                                L1 L2' L3 L4 L5 L6 Hadj HcdZ) as H.
      cbv zeta in H. rewrite E in H. exact H.
    Qed.

    Theorem propagate_labels_root_anyorder :
      let pred := fun q => nth q (k_pred g') None in
      forall q, q < n ->
        exists rt, rt < n /\ root_of pred q rt /\ (forall r', root_of pred q r' -> r' = rt) /\
          nth q (k_plabel (propagate_labels g')) 0 = nth rt (k_label g) 0.
    Proof.
      pose proof (C13_propagate_labels_root (r zero) (r top) (r bot) k (map_knn r g) n
                                            L1 L2' L3 L4 L5 L6 Hadj HcdZ) as H.
      cbv zeta in H. rewrite E in H. exact H.
    Qed.
  End Unsup.
End LiftCluster.
