(* Pure graph theory for C02: a parent map grown leaf by leaf along minimum-weight
   cut arcs ([prim_grown], the shape of Prim's algorithm) is a spanning tree all of whose
   tree paths are minimax paths of the complete graph. *)
From Coq Require Import List Arith Bool ZArith Lia Permutation.
From OPF Require Import Spec.Paths Spec.Trees Proofs.PrimLists.
Import ListNotations.
Open Scope nat_scope.

(* [grown pred bl]: [bl] lists (newest first) the nodes of a tree built by attaching one
   new leaf [q] to an already attached parent [pred q] at a time *)
Inductive grown (pred : nat -> option nat) : list nat -> Prop :=
| grown_root r : pred r = None -> grown pred [r]
| grown_step q p bl : grown pred bl -> ~ In q bl -> pred q = Some p -> In p bl ->
    grown pred (q :: bl).

(* the same, every new arc being a lightest arc leaving the current node set *)
Inductive prim_grown (n : nat) (w : nat -> nat -> Z) (pred : nat -> option nat) : list nat -> Prop :=
| pg_root r : r < n -> pred r = None -> prim_grown n w pred [r]
| pg_step q p bl : prim_grown n w pred bl -> q < n -> ~ In q bl -> pred q = Some p -> In p bl ->
    (forall x y, In x bl -> y < n -> ~ In y bl -> (w p q <= w x y)%Z) ->
    prim_grown n w pred (q :: bl).

Lemma prim_grown_grown n w pred bl : prim_grown n w pred bl -> grown pred bl.
Proof. induction 1; [apply grown_root|eapply grown_step]; eassumption. Qed.

Lemma prim_grown_lt n w pred bl : prim_grown n w pred bl -> forall q, In q bl -> q < n.
Proof.
  induction 1 as [r Hr _|q p bl _ IH Hq _ _ _ _]; intros x Hx.
  - destruct Hx as [<-|[]]; exact Hr.
  - destruct Hx as [<-|Hx]; [exact Hq|apply IH; exact Hx].
Qed.

Lemma prim_grown_ext n w pred pred' bl :
  (forall x, In x bl -> pred' x = pred x) -> prim_grown n w pred bl -> prim_grown n w pred' bl.
Proof.
  intros Hext H. induction H as [r Hr Hp|q p bl H IH Hq Hnin Hp Hin Hcut].
  - apply pg_root; [exact Hr|]. rewrite Hext; [exact Hp|left; reflexivity].
  - eapply pg_step; try eassumption.
    + apply IH. intros x Hx. apply Hext. right; exact Hx.
    + rewrite Hext; [exact Hp|left; reflexivity].
Qed.

Ltac split5 := split; [|split; [|split; [|split]]].

Section Grown.
  Variable pred : nat -> option nat.

  Lemma grown_NoDup bl : grown pred bl -> NoDup bl.
  Proof.
    induction 1 as [r _|q p bl _ IH Hnin _ _].
    - constructor; [intros []|constructor].
    - constructor; assumption.
  Qed.

  Lemma grown_nonempty bl : grown pred bl -> bl <> [].
  Proof. destruct 1; discriminate. Qed.

  Lemma grown_pred_in bl : grown pred bl -> forall x y, In x bl -> pred x = Some y -> In y bl.
  Proof.
    induction 1 as [r Hr|q p bl _ IH Hnin Hp Hin]; intros x y Hx Hy.
    - destruct Hx as [<-|[]]. congruence.
    - destruct Hx as [<-|Hx].
      + right. congruence.
      + right. eapply IH; eassumption.
  Qed.

  Lemma grown_before bl : grown pred bl ->
    forall x y, In x bl -> pred x = Some y -> before (rev bl) y x.
  Proof.
    induction 1 as [r Hr|q p bl _ IH Hnin Hp Hin]; intros x y Hx Hy.
    - destruct Hx as [<-|[]]. congruence.
    - cbn [rev]. destruct Hx as [<-|Hx].
      + assert (y = p) by congruence. subst y.
        apply in_rev in Hin. destruct (in_split _ _ Hin) as [l1 [l2 E]].
        exists l1, l2, []. rewrite E, <- app_assoc. reflexivity.
      + destruct (IH x y Hx Hy) as [l1 [l2 [l3 E]]].
        exists l1, l2, (l3 ++ [q]). rewrite E. rewrite <- !app_assoc. cbn [app].
        rewrite <- app_assoc. reflexivity.
  Qed.

  Lemma grown_irrefl bl : grown pred bl -> forall x, In x bl -> pred x <> Some x.
  Proof.
    induction 1 as [r Hr|q p bl _ IH Hnin Hp Hin]; intros x Hx E.
    - destruct Hx as [<-|[]]. congruence.
    - destruct Hx as [<-|Hx].
      + assert (p = q) by congruence. subst p. contradiction.
      + exact (IH x Hx E).
  Qed.

  Lemma grown_root_unique bl : grown pred bl ->
    forall a b, In a bl -> In b bl -> pred a = None -> pred b = None -> a = b.
  Proof.
    induction 1 as [r Hr|q p bl _ IH Hnin Hp Hin]; intros a b Ha Hb Pa Pb.
    - destruct Ha as [<-|[]]. destruct Hb as [<-|[]]. reflexivity.
    - destruct Ha as [<-|Ha]; [congruence|]. destruct Hb as [<-|Hb]; [congruence|].
      apply IH; assumption.
  Qed.

  Lemma grown_root_of bl : grown pred bl ->
    forall r, In r bl -> pred r = None -> forall q, In q bl -> root_of pred q r.
  Proof.
    induction 1 as [r0 Hr0|q0 p bl _ IH Hnin Hp Hin]; intros r Hr Pr q Hq.
    - destruct Hr as [<-|[]]. destruct Hq as [<-|[]].
      exists 0. split; [constructor|exact Pr].
    - destruct Hr as [<-|Hr]; [congruence|].
      destruct Hq as [<-|Hq].
      + destruct (IH r Hr Pr p Hin) as [k [Hk _]].
        exists (S k). split; [econstructor; eassumption|exact Pr].
      + apply IH; assumption.
  Qed.

  (* ---------------------------------------------------------------- *)
  (* tree paths restricted to the attached nodes                       *)

  Definition tp_in (bl : list nat) (u v : nat) (tp : list nat) : Prop :=
    hd_error tp = Some u /\ last tp u = v /\ NoDup tp /\ chain (tree_arc pred) tp /\
    Forall (fun x => In x bl) tp.

  Lemma tree_arc_sym a b : tree_arc pred a b -> tree_arc pred b a.
  Proof. unfold tree_arc; tauto. Qed.

  Lemma tp_in_rev bl u v tp : tp_in bl u v tp -> tp_in bl v u (rev tp).
  Proof.
    intros (Hhd & Hl & Hnd & Hch & Hall).
    assert (Hne : tp <> []) by (destruct tp; [discriminate|discriminate]).
    split5.
    - rewrite <- Hl. apply hd_error_rev; exact Hne.
    - apply last_rev; exact Hhd.
    - apply NoDup_rev; exact Hnd.
    - apply chain_rev; [apply tree_arc_sym|exact Hch].
    - apply Forall_rev; exact Hall.
  Qed.

  Lemma tp_in_weaken bl bl' u v tp : incl bl bl' -> tp_in bl u v tp -> tp_in bl' u v tp.
  Proof.
    intros Hincl (Hhd & Hl & Hnd & Hch & Hall). split5; try assumption.
    rewrite Forall_forall in *. intros x Hx. apply Hincl, Hall, Hx.
  Qed.

  Lemma tp_in_single bl u : In u bl -> tp_in bl u u [u].
  Proof.
    intros Hu. split5; try reflexivity.
    - constructor; [intros []|constructor].
    - constructor; [exact Hu|constructor].
  Qed.

  (* the only neighbour of a freshly attached leaf is its parent *)
  Lemma leaf_neighbour bl q p a :
    grown pred bl -> ~ In q bl -> pred q = Some p ->
    In a (q :: bl) -> a <> q -> tree_arc pred a q -> a = p.
  Proof.
    intros Hg Hnin Hp Ha Hne [H|H].
    - exfalso. destruct Ha as [Ha|Ha]; [congruence|].
      apply Hnin. eapply grown_pred_in; eassumption.
    - congruence.
  Qed.

  (* connectedness *)
  Lemma grown_connected bl : grown pred bl ->
    forall u v, In u bl -> In v bl -> exists tp, tp_in bl u v tp.
  Proof.
    induction 1 as [r Hr|q p bl Hg IH Hnin Hp Hin]; intros u v Hu Hv.
    - destruct Hu as [<-|[]]. destruct Hv as [<-|[]].
      exists [r]. apply tp_in_single. left; reflexivity.
    - assert (Hq : forall v, In v bl -> exists tp, tp_in (q :: bl) q v tp).
      { intros v' Hv'. destruct (IH p v' Hin Hv') as [t (Hhd & Hl & Hnd & Hch & Hall)].
        exists (q :: t).
        destruct t as [|b t']; [discriminate|]. cbn [hd_error] in Hhd. injection Hhd as ->.
        split5.
        - reflexivity.
        - rewrite (last_cons_ne q (p :: t') q p) by discriminate. exact Hl.
        - constructor; [|exact Hnd]. intros Hq. rewrite Forall_forall in Hall.
          apply Hnin, Hall, Hq.
        - split; [left; exact Hp|exact Hch].
        - constructor; [left; reflexivity|].
          rewrite Forall_forall in *. intros x Hx. right. apply Hall, Hx. }
      destruct Hu as [<-|Hu]; destruct Hv as [<-|Hv].
      + exists [q]. apply tp_in_single. left; reflexivity.
      + apply Hq; exact Hv.
      + destruct (Hq u Hu) as [t Ht]. exists (rev t). apply tp_in_rev; exact Ht.
      + destruct (IH u v Hu Hv) as [t Ht]. exists t.
        eapply tp_in_weaken; [|exact Ht]. intros x Hx; right; exact Hx.
  Qed.
End Grown.

(* ------------------------------------------------------------------ *)
(* Minimax property of the grown tree                                  *)

Section Minimax.
  Variable n : nat.
  Variable w : nat -> nat -> Z.
  Hypothesis w_sym : forall p q, p < n -> q < n -> w p q = w q p.
  Variable pred : nat -> option nat.

  Definition MM (bl : list nat) : Prop :=
    forall (m : Z) u v tp pi, tp_in pred bl u v tp -> path_from_to n u v pi ->
      (pathmax w m tp <= pathmax w m pi)%Z.

  Lemma prim_grown_minimax bl : prim_grown n w pred bl -> MM bl.
  Proof.
    induction 1 as [r Hr Hp|q p bl Hpg IH Hq Hnin Hp Hin Hcut].
    - (* single node *)
      intros m u v tp pi (Hhd & Hl & Hnd & Hch & Hall) Hpi.
      destruct tp as [|a t]; [discriminate|].
      destruct t as [|b t'].
      + cbn [pathmax]. apply pathmax_ge.
      + exfalso. rewrite Forall_forall in Hall.
        assert (Ha : a = r) by (destruct (Hall a (or_introl eq_refl)) as [E|[]]; auto).
        assert (Hb : b = r).
        { destruct (Hall b (or_intror (or_introl eq_refl))) as [E|[]]; auto. }
        subst. inversion Hnd as [|? ? Hnin _]. apply Hnin. left; reflexivity.
    - pose proof (prim_grown_grown _ _ _ _ Hpg) as Hg.
      pose proof (prim_grown_lt _ _ _ _ Hpg) as Hlt.
      assert (Hplt : p < n) by (apply Hlt; exact Hin).
      (* paths that start at the new leaf *)
      assert (Hstart : forall (m : Z) v tp pi, tp_in pred (q :: bl) q v tp ->
                path_from_to n q v pi -> (pathmax w m tp <= pathmax w m pi)%Z).
      { intros m v tp pi (Hhd & Hl & Hnd & Hch & Hall) Hpi.
        destruct tp as [|a t]; [discriminate|].
        cbn [hd_error] in Hhd. injection Hhd as ->.
        destruct t as [|b t']; [cbn [pathmax]; apply pathmax_ge|].
        rewrite Forall_forall in Hall.
        apply NoDup_cons_iff in Hnd. destruct Hnd as [Hqt Hndt].
        assert (Hbp : b = p).
        { eapply leaf_neighbour; try eassumption.
          - apply Hall. right; left; reflexivity.
          - intros ->. apply Hqt. left; reflexivity.
          - apply tree_arc_sym. destruct Hch as [Hch _]. exact Hch. }
        subst b.
        assert (Hallt : forall x, In x (p :: t') -> In x bl).
        { intros x Hx. destruct (Hall x (or_intror Hx)) as [<-|Hx']; [contradiction|exact Hx']. }
        assert (Htp' : tp_in pred bl p v (p :: t')).
        { split5.
          - reflexivity.
          - rewrite (last_cons_ne q (p :: t') q p) in Hl by discriminate. exact Hl.
          - exact Hndt.
          - destruct Hch as [_ Hch]; exact Hch.
          - rewrite Forall_forall. exact Hallt. }
        assert (Hvbl : In v bl).
        { destruct Htp' as (_ & Hl' & _). rewrite <- Hl'. apply Hallt.
          apply last_In. discriminate. }
        (* a crossing arc on pi *)
        destruct Hpi as [[Hne Hfa] [Hhd' Hl']].
        destruct (crossing (fun x => ~ In x bl)
                   (fun x => match in_dec Nat.eq_dec x bl with
                             | left H => or_intror (fun H' => H' H) | right H => or_introl H end)
                   pi q Hhd' Hnin) as [y [x [Hyx [Hy Hx]]]].
        { rewrite Hl'. intros H'; exact (H' Hvbl). }
        assert (Hx' : In x bl) by (destruct (in_dec Nat.eq_dec x bl); [assumption|contradiction]).
        rewrite Forall_forall in Hfa.
        destruct (arc_on_In _ _ _ Hyx) as [Hyin Hxin].
        assert (Hyn : y < n) by (apply Hfa; exact Hyin).
        assert (Hxn : x < n) by (apply Hlt; exact Hx').
        assert (Hpq : (w p q <= pathmax w m pi)%Z).
        { pose proof (Hcut x y Hx' Hyn Hy) as H1.
          pose proof (pathmax_arc w m pi y x Hyx) as H2.
          rewrite (w_sym y x Hyn Hxn) in H2. lia. }
        assert (Hpi' : path_from_to n p v (p :: pi)).
        { apply (path_from_to_cons n p q v pi Hplt). repeat split; try assumption.
          rewrite Forall_forall; exact Hfa. }
        pose proof (IH m p v (p :: t') (p :: pi) Htp' Hpi') as H3.
        destruct pi as [|q' pi']; [congruence|].
        cbn [hd_error] in Hhd'. injection Hhd' as ->.
        rewrite pathmax_cons2 in H3. rewrite pathmax_cons2.
        rewrite (w_sym q p Hq Hplt). lia. }
      intros m u v tp pi Htp Hpi.
      destruct (Nat.eq_dec u q) as [->|Huq]; [apply (Hstart m v tp pi); assumption|].
      destruct (Nat.eq_dec v q) as [->|Hvq].
      { (* ends at the new leaf: reverse *)
        pose proof (Hstart m u (rev tp) (rev pi) (tp_in_rev _ _ _ _ _ Htp)
                           (path_from_to_rev _ _ _ _ Hpi)) as H1.
        destruct Htp as (_ & _ & _ & _ & Hall). rewrite Forall_forall in Hall.
        destruct Hpi as [[_ Hfa] _]. rewrite Forall_forall in Hfa.
        rewrite !pathmax_rev in H1; [exact H1| |].
        - intros a b Ha Hb. apply w_sym; apply Hfa; assumption.
        - assert (Hlt' : forall x, In x tp -> x < n).
          { intros x Hx. destruct (Hall x Hx) as [<-|Hx']; [exact Hq|apply Hlt; exact Hx']. }
          intros a b Ha Hb. apply w_sym; apply Hlt'; assumption. }
      (* neither endpoint is the new leaf: the path avoids it *)
      destruct Htp as (Hhd & Hl & Hnd & Hch & Hall).
      destruct (in_dec Nat.eq_dec q tp) as [Hqin|Hqnin].
      + exfalso. destruct (in_split _ _ Hqin) as [l1 [l2 E]]. subst tp.
        rewrite Forall_forall in Hall.
        destruct l1 as [|u' l1'] using rev_ind.
        { cbn in Hhd. congruence. }
        clear IHl1'.
        destruct l2 as [|b l2'].
        { rewrite last_last in Hl. congruence. }
        rewrite <- app_assoc in Hch, Hnd, Hall. cbn [app] in Hch, Hnd, Hall.
        apply NoDup_app_r in Hnd.
        apply NoDup_cons_iff in Hnd. destruct Hnd as [Hn1 Hnd].
        apply NoDup_cons_iff in Hnd. destruct Hnd as [Hn2 _].
        assert (Ha : u' = p).
        { eapply leaf_neighbour; try eassumption.
          - apply Hall. apply in_or_app. right; left; reflexivity.
          - intros ->. apply Hn1. left; reflexivity.
          - eapply chain_arc; [exact Hch|]. exists l1', (b :: l2'). reflexivity. }
        assert (Hb : b = p).
        { eapply leaf_neighbour; try eassumption.
          - apply Hall. apply in_or_app. right; right; right; left; reflexivity.
          - intros ->. apply Hn2. left; reflexivity.
          - apply tree_arc_sym. eapply chain_arc; [exact Hch|].
            exists (l1' ++ [u']), l2'. rewrite <- app_assoc. reflexivity. }
        subst u' b. apply Hn1. right; left; reflexivity.
      + apply (IH m u v tp pi); [|exact Hpi]. split5; try assumption.
        rewrite Forall_forall in *. intros x Hx.
        destruct (Hall x Hx) as [<-|Hx']; [contradiction|exact Hx'].
  Qed.
End Minimax.

(* ------------------------------------------------------------------ *)
(* Uniqueness: with pairwise distinct weights, the arcs of ANY connected arc relation
   whose simple paths are all minimax paths are characterised without reference to the
   relation itself.                                                    *)

Section Unique.
  Variable n : nat.
  Variable w : nat -> nat -> Z.
  Hypothesis w_dist : distinct_weights n w.

  Lemma minimax_arc_is_sole (R : nat -> nat -> Prop) u v :
    minimax_paths n w R -> u < n -> v < n -> u <> v -> R u v -> sole_minimax_arc n w u v.
  Proof.
    intros Hmm Hu Hv Huv HR pi Hpi Hnd Hneq.
    assert (Htp : simple_path_in n R u v [u; v]).
    { split; [apply path_from_to_pair; assumption|]. split.
      - constructor; [intros [E|[]]; congruence|]. constructor; [intros []|constructor].
      - split; [exact HR|exact I]. }
    pose proof (Hmm (w u v - 1)%Z u v [u; v] pi Htp Hpi) as Hle.
    cbn [pathmax] in Hle.
    destruct (pathmax_witness w (w u v - 1)%Z pi ltac:(lia)) as [a [b [Hab E]]].
    exists a, b. split; [exact Hab|].
    destruct (Z_lt_le_dec (w u v) (w a b)) as [Hlt|Hge]; [exact Hlt|exfalso].
    assert (Eq : w a b = w u v) by lia.
    destruct Hpi as [[Hne Hfa] [Hhd Hl]]. rewrite Forall_forall in Hfa.
    destruct (arc_on_In _ _ _ Hab) as [Hain Hbin].
    destruct Hab as [l1 [l2 Epi]]. subst pi.
    assert (Hnd2 : NoDup (a :: b :: l2)) by (apply NoDup_app_r in Hnd; exact Hnd).
    assert (Hab' : a <> b).
    { intros ->. apply NoDup_cons_iff in Hnd2. apply Hnd2. left; reflexivity. }
    destruct (w_dist a b u v (Hfa a Hain) (Hfa b Hbin) Hu Hv Hab' Huv Eq) as [[-> ->]|[-> ->]].
    - (* the arc is (u, v) itself *)
      destruct l1 as [|x l1].
      + cbn [app] in *. destruct l2 as [|y l2]; [apply Hneq; reflexivity|].
        apply NoDup_cons_iff in Hnd2. destruct Hnd2 as [_ Hnd2].
        apply NoDup_cons_iff in Hnd2. destruct Hnd2 as [Hv2 _]. apply Hv2.
        rewrite <- Hl. rewrite (last_cons_ne u (v :: y :: l2) u u) by discriminate.
        rewrite (last_cons_ne v (y :: l2) u u) by discriminate. apply last_In. discriminate.
      + cbn in Hhd. injection Hhd as ->. cbn [app] in Hnd.
        apply NoDup_cons_iff in Hnd. apply Hnd. apply in_or_app. right; left; reflexivity.
    - (* the arc is (v, u) *)
      destruct l1 as [|x l1].
      + cbn in Hhd. congruence.
      + cbn in Hhd. injection Hhd as ->. cbn [app] in Hnd.
        apply NoDup_cons_iff in Hnd. apply Hnd. apply in_or_app. right; right; left; reflexivity.
  Qed.

  Lemma sole_is_arc (R : nat -> nat -> Prop) u v :
    connected_by n R -> minimax_paths n w R -> u < n -> v < n ->
    sole_minimax_arc n w u v -> R u v.
  Proof.
    intros Hconn Hmm Hu Hv Hsole.
    destruct (Hconn u v Hu Hv) as [tp Htp].
    destruct (list_eq_dec Nat.eq_dec tp [u; v]) as [->|Hne].
    - destruct Htp as (_ & _ & [HR _]). exact HR.
    - exfalso. pose proof Htp as (Hpath & Hnd & _).
      destruct (Hsole tp Hpath Hnd Hne) as [a [b [Hab Hlt]]].
      pose proof (Hmm (w u v) u v tp [u; v] Htp (path_from_to_pair n u v Hu Hv)) as Hle.
      cbn [pathmax] in Hle. pose proof (pathmax_arc w (w u v) tp a b Hab). lia.
  Qed.

  Theorem minimax_arcs_characterised (R : nat -> nat -> Prop) :
    connected_by n R -> minimax_paths n w R ->
    forall u v, u < n -> v < n -> u <> v -> (R u v <-> sole_minimax_arc n w u v).
  Proof.
    intros Hconn Hmm u v Hu Hv Huv. split.
    - apply minimax_arc_is_sole; assumption.
    - apply sole_is_arc; assumption.
  Qed.

  Theorem minimax_arcs_unique (R1 R2 : nat -> nat -> Prop) :
    connected_by n R1 -> minimax_paths n w R1 ->
    connected_by n R2 -> minimax_paths n w R2 ->
    forall u v, u < n -> v < n -> u <> v -> (R1 u v <-> R2 u v).
  Proof.
    intros C1 M1 C2 M2 u v Hu Hv Huv.
    rewrite (minimax_arcs_characterised R1 C1 M1 u v Hu Hv Huv).
    rewrite (minimax_arcs_characterised R2 C2 M2 u v Hu Hv Huv). tauto.
  Qed.
End Unique.

(* ------------------------------------------------------------------ *)
(* Rooted spanning trees given as parent maps are connected by simple tree paths. *)

Lemma last_app_cons {A} (l1 : list A) a l2 d : last (l1 ++ a :: l2) d = last (a :: l2) d.
Proof.
  induction l1 as [|x l1 IH]; [reflexivity|].
  change ((x :: l1) ++ a :: l2) with (x :: (l1 ++ a :: l2)).
  rewrite (last_cons_ne x (l1 ++ a :: l2) d d); [exact IH|].
  intros E. apply app_eq_nil in E. destruct E as [_ E]. discriminate.
Qed.

(* loop erasure: a walk contains a simple path with the same endpoints *)
Lemma loop_erase (R : nat -> nat -> Prop) : forall pi u,
  hd_error pi = Some u -> chain R pi ->
  exists pi', hd_error pi' = Some u /\ last pi' u = last pi u /\ NoDup pi' /\ chain R pi' /\
              incl pi' pi.
Proof.
  induction pi as [|a t IH]; intros u Hhd Hch; [discriminate|].
  cbn [hd_error] in Hhd. injection Hhd as ->.
  destruct t as [|b t'].
  - exists [u]. split; [reflexivity|]. split; [reflexivity|]. split.
    + constructor; [intros []|constructor].
    + split; [exact I|apply incl_refl].
  - destruct Hch as [Hab Hch].
    destruct (IH b eq_refl Hch) as (pi' & Hhd' & Hl' & Hnd' & Hch' & Hincl').
    rewrite (last_cons_ne u (b :: t') u b) by discriminate.
    destruct (in_dec Nat.eq_dec u pi') as [Hin|Hnin].
    + destruct (in_split _ _ Hin) as [l1 [l2 E]]. subst pi'.
      exists (u :: l2). split; [reflexivity|]. split.
      * rewrite <- Hl'. rewrite last_app_cons. apply last_indep. discriminate.
      * split; [apply NoDup_app_r in Hnd'; exact Hnd'|].
        split; [apply chain_app_r in Hch'; exact Hch'|].
        intros x Hx. right. apply Hincl'. apply in_or_app. right. exact Hx.
    + exists (u :: pi'). split; [reflexivity|].
      destruct pi' as [|c pi'']; [discriminate|]. cbn [hd_error] in Hhd'. injection Hhd' as ->.
      split; [rewrite (last_cons_ne u (b :: pi'') u b) by discriminate; exact Hl'|].
      split; [constructor; assumption|]. split; [split; assumption|].
      intros x [<-|Hx]; [left; reflexivity|right; apply Hincl'; exact Hx].
Qed.

Lemma chain_app (R : nat -> nat -> Prop) l1 a l2 :
  chain R (l1 ++ [a]) -> chain R (a :: l2) -> chain R (l1 ++ a :: l2).
Proof.
  induction l1 as [|x l1 IH]; intros H1 H2; [exact H2|].
  destruct l1 as [|y l1].
  - cbn in H1. cbn [app]. split; [apply H1|exact H2].
  - change ((x :: y :: l1) ++ [a]) with (x :: y :: (l1 ++ [a])) in H1.
    destruct H1 as [Hxy H1].
    change ((x :: y :: l1) ++ a :: l2) with (x :: y :: (l1 ++ a :: l2)).
    split; [exact Hxy|]. apply IH; assumption.
Qed.

Section SpanningConnected.
  Variable n : nat.
  Variable pred : nat -> option nat.
  Hypothesis closed : forall q p, q < n -> pred q = Some p -> p < n.

  (* the walk from q up to r *)
  Lemma up_walk r : forall k q, reaches pred q r k -> q < n ->
    exists pi, hd_error pi = Some q /\ last pi q = r /\ chain (tree_arc pred) pi /\
               Forall (fun x => x < n) pi.
  Proof.
    induction k as [|k IH]; intros q Hk Hq.
    - inversion Hk; subst. exists [r]. split; [reflexivity|]. split; [reflexivity|].
      split; [exact I|]. constructor; [exact Hq|constructor].
    - inversion Hk as [|? p ? ? Hp Hk']; subst.
      destruct (IH p Hk' (closed q p Hq Hp)) as (pi & Hhd & Hl & Hch & Hfa).
      exists (q :: pi). split; [reflexivity|].
      destruct pi as [|x pi']; [discriminate|]. cbn [hd_error] in Hhd. injection Hhd as ->.
      split; [rewrite (last_cons_ne q (p :: pi') q p) by discriminate; exact Hl|].
      split; [split; [left; exact Hp|exact Hch]|]. constructor; assumption.
  Qed.

  Lemma spanning_connected : spanning_parent_map n pred -> connected_by n (tree_arc pred).
  Proof.
    intros (r & Hr & Hpr & Hall) u v Hu Hv.
    destruct (Hall u Hu) as [[ku [Hku _]] _]. destruct (Hall v Hv) as [[kv [Hkv _]] _].
    destruct (up_walk r ku u Hku Hu) as (p1 & Hhd1 & Hl1 & Hch1 & Hfa1).
    destruct (up_walk r kv v Hkv Hv) as (p2 & Hhd2 & Hl2 & Hch2 & Hfa2).
    (* u ... r ... v *)
    assert (Hne1 : p1 <> []) by (destruct p1; discriminate).
    assert (Hne2 : p2 <> []) by (destruct p2; discriminate).
    destruct (exists_last Hne1) as [l1 [x1 E1]]. subst p1.
    rewrite last_last in Hl1. subst x1.
    assert (Hrev : exists l2, rev p2 = r :: l2 /\ last (r :: l2) r = v).
    { destruct p2 as [|y p2']; [congruence|]. cbn [hd_error] in Hhd2. injection Hhd2 as ->.
      pose proof (hd_error_rev (v :: p2') v Hne2) as H. rewrite Hl2 in H.
      destruct (rev (v :: p2')) as [|z l2] eqn:Er; [discriminate|].
      cbn [hd_error] in H. injection H as ->. exists l2. split; [reflexivity|].
      rewrite <- Er. rewrite (last_indep _ r v).
      - apply (last_rev (v :: p2') v v). reflexivity.
      - rewrite Er. discriminate. }
    destruct Hrev as (l2 & Erev & Hlv).
    assert (Hch2' : chain (tree_arc pred) (r :: l2)).
    { rewrite <- Erev. apply chain_rev; [|exact Hch2]. unfold tree_arc. tauto. }
    set (walk := l1 ++ r :: l2).
    assert (Hw_hd : hd_error walk = Some u).
    { unfold walk. destruct l1 as [|a l1']; [exact Hhd1|exact Hhd1]. }
    assert (Hw_ch : chain (tree_arc pred) walk) by (apply chain_app; assumption).
    assert (Hw_last : last walk u = v).
    { unfold walk. rewrite last_app_cons. rewrite (last_indep _ u r) by discriminate. exact Hlv. }
    assert (Hw_fa : forall x, In x walk -> x < n).
    { intros x Hx. unfold walk in Hx. apply in_app_or in Hx. rewrite Forall_forall in Hfa1, Hfa2.
      destruct Hx as [Hx|Hx].
      - apply Hfa1. apply in_or_app. left; exact Hx.
      - apply Hfa2. apply in_rev. rewrite Erev. exact Hx. }
    destruct (loop_erase (tree_arc pred) walk u Hw_hd Hw_ch) as (pi & Hhd & Hl & Hnd & Hch & Hincl).
    exists pi. split; [|split; assumption].
    split; [|split; [exact Hhd|rewrite Hl; exact Hw_last]].
    split; [destruct pi; discriminate|].
    rewrite Forall_forall. intros x Hx. apply Hw_fa, Hincl, Hx.
  Qed.
End SpanningConnected.
