(* C20, normalize over R: each entry is (v - column mean) / column std; a non-constant column
   has std > 0 and its normalised version has mean 0 and sum of squares = number of rows. *)
From Coq Require Import List Arith Reals Lra Lia.
From OPF Require Import Base.Lists Model.Measures Proofs.MeasuresCount.
Import ListNotations.
Local Open Scope R_scope.

Definition rect (A : list (list R)) : Prop := forall row, In row A -> length row = ncols A.

Definition nonconstant (l : list R) : Prop := exists v1 v2, In v1 l /\ In v2 l /\ v1 <> v2.

(* the model's reductions at ROps are the usual sum / mean / population std *)
Lemma fold_left_Rplus l a : fold_left Rplus l a = a + Rsum l.
Proof. revert a; induction l as [|x l IH]; intros a; simpl; [lra|]. rewrite IH. unfold Rsum. lra. Qed.

Lemma nsum_R l : nsum ROps l = Rsum l.
Proof. unfold nsum. simpl. rewrite fold_left_Rplus. lra. Qed.

Lemma nmean_R l : nmean ROps l = Rmean l.
Proof. unfold nmean, Rmean. rewrite nsum_R. reflexivity. Qed.

Lemma nstd_R l : nstd ROps l = Rstd l.
Proof. unfold nstd, Rstd. rewrite nsum_R, nmean_R. reflexivity. Qed.

(* ------------------------------------------------------------------------------------ *)
(* entries *)

Lemma normalize_row (A : list (list R)) row : length row = ncols A ->
  zipw Rdiv (zipw Rminus row (map (fun j => nmean ROps (col 0 A j)) (seq 0 (ncols A))))
       (map (fun j => nstd ROps (col 0 A j)) (seq 0 (ncols A)))
  = map (fun j => (nth j row 0 - Rmean (col 0 A j)) / Rstd (col 0 A j)) (seq 0 (ncols A)).
Proof.
  intros Hl. rewrite (list_self_tabulate 0 row) at 1. rewrite Hl.
  rewrite !zipw_map. apply map_ext. intros j. now rewrite nmean_R, nstd_R.
Qed.

Lemma normalize_formula (A : list (list R)) i j :
  rect A -> (i < length A)%nat -> (j < ncols A)%nat ->
  nth j (nth i (normalize ROps A) []) 0
  = (nth j (nth i A []) 0 - Rmean (col 0 A j)) / Rstd (col 0 A j).
Proof.
  intros Hrect Hi Hj. unfold normalize. cbn [nzero ROps nsub ndiv].
  set (f := fun row : list R => zipw Rdiv _ _).
  change (@nil R) with (f []) at 1.
  assert (Hf : f [] = []) by reflexivity.
  rewrite <- Hf at 1. rewrite map_nth. unfold f.
  rewrite normalize_row by (apply Hrect, nth_In; assumption).
  now rewrite nth_map_seq.
Qed.

Lemma normalize_length (A : list (list R)) : length (normalize ROps A) = length A.
Proof. unfold normalize. now rewrite map_length. Qed.

Lemma normalize_col (A : list (list R)) j : rect A -> (j < ncols A)%nat ->
  col 0 (normalize ROps A) j
  = map (fun v => (v - Rmean (col 0 A j)) / Rstd (col 0 A j)) (col 0 A j).
Proof.
  intros Hrect Hj. unfold col at 1 4. unfold normalize. cbn [nzero ROps nsub ndiv].
  rewrite !map_map. apply map_ext_in. intros row Hrow.
  rewrite normalize_row by (now apply Hrect). now rewrite nth_map_seq.
Qed.

(* ------------------------------------------------------------------------------------ *)
(* sums *)

Lemma Rsum_map_div (f : R -> R) k l : Rsum (map (fun v => f v / k) l) = Rsum (map f l) / k.
Proof. induction l as [|x l IH]; simpl; [unfold Rdiv; lra|]. unfold Rsum in *. simpl. rewrite IH. unfold Rdiv. lra. Qed.

Lemma Rsum_map_shift m l : Rsum (map (fun v => v - m) l) = Rsum l - INR (length l) * m.
Proof.
  induction l as [|x l IH]; [simpl; lra|].
  cbn [map length]. rewrite S_INR. unfold Rsum in *. simpl. rewrite IH. lra.
Qed.

Lemma Rsum_nonneg l : (forall x, In x l -> 0 <= x) -> 0 <= Rsum l.
Proof.
  induction l as [|x l IH]; intros H; unfold Rsum; simpl; [lra|].
  assert (0 <= x) by (apply H; simpl; auto).
  assert (0 <= Rsum l) by (apply IH; intros; apply H; simpl; auto). unfold Rsum in *. lra.
Qed.

Lemma Rsum_ge_term l x : (forall y, In y l -> 0 <= y) -> In x l -> x <= Rsum l.
Proof.
  induction l as [|y l IH]; intros H Hin; [contradiction|].
  unfold Rsum. simpl. fold (Rsum l).
  assert (0 <= y) by (apply H; simpl; auto).
  assert (0 <= Rsum l) by (apply Rsum_nonneg; intros; apply H; simpl; auto).
  destruct Hin as [->|Hin]; [lra|].
  assert (x <= Rsum l) by (apply IH; auto; intros; apply H; simpl; auto). lra.
Qed.

Definition sqdev (l : list R) : R := Rsum (map (fun v => (v - Rmean l) * (v - Rmean l)) l).

Lemma sqdev_pos l : nonconstant l -> 0 < sqdev l.
Proof.
  intros [v1 [v2 [H1 [H2 Hne]]]].
  assert (Hex : exists v, In v l /\ v <> Rmean l).
  { destruct (Req_dec v1 (Rmean l)) as [E|E]; [exists v2|exists v1]; split; auto. congruence. }
  destruct Hex as [v [Hin Hv]].
  assert (Hterm : (v - Rmean l) * (v - Rmean l) <= sqdev l).
  { unfold sqdev. apply Rsum_ge_term.
    - intros y Hy. apply in_map_iff in Hy. destruct Hy as [w [<- _]]. apply Rle_0_sqr.
    - apply in_map_iff. exists v. auto. }
  assert (0 < (v - Rmean l) * (v - Rmean l)) by (apply Rsqr_pos_lt; lra).
  lra.
Qed.

Lemma nonconstant_length l : nonconstant l -> (0 < length l)%nat.
Proof. intros [v1 [_ [H _]]]. destruct l; [contradiction|simpl; lia]. Qed.

Lemma Rstd_pos l : nonconstant l -> 0 < Rstd l.
Proof.
  intros H. unfold Rstd. fold (sqdev l). apply sqrt_lt_R0.
  pose proof (sqdev_pos l H). pose proof (nonconstant_length l H) as Hn.
  apply lt_0_INR in Hn. apply Rdiv_lt_0_compat; assumption.
Qed.

Lemma Rstd_sqr l : nonconstant l -> Rstd l * Rstd l = sqdev l / INR (length l).
Proof.
  intros H. unfold Rstd. fold (sqdev l). apply sqrt_sqrt.
  pose proof (sqdev_pos l H). pose proof (nonconstant_length l H) as Hn.
  apply lt_0_INR in Hn. apply Rlt_le, Rdiv_lt_0_compat; assumption.
Qed.

(* the standardised list *)
Definition standardise (l : list R) : list R := map (fun v => (v - Rmean l) / Rstd l) l.

Lemma standardise_mean l : nonconstant l -> Rmean (standardise l) = 0.
Proof.
  intros H. pose proof (nonconstant_length l H) as Hn. apply lt_0_INR in Hn.
  unfold Rmean at 1. unfold standardise at 1.
  rewrite (Rsum_map_div (fun v => v - Rmean l)), Rsum_map_shift.
  unfold standardise. rewrite map_length. pose proof (Rstd_pos l H).
  unfold Rmean. field. split; lra.
Qed.

Lemma standardise_sumsq l : nonconstant l ->
  Rsum (map (fun w => w * w) (standardise l)) = INR (length l).
Proof.
  intros H. pose proof (nonconstant_length l H) as Hn. apply lt_0_INR in Hn.
  pose proof (Rstd_pos l H) as Hs. pose proof (sqdev_pos l H) as Hd.
  unfold standardise. rewrite map_map.
  rewrite (map_ext _ (fun v => ((v - Rmean l) * (v - Rmean l)) / (Rstd l * Rstd l)))
    by (intros v; field; lra).
  rewrite (Rsum_map_div (fun v => (v - Rmean l) * (v - Rmean l))).
  fold (sqdev l). rewrite (Rstd_sqr l H). field. split; lra.
Qed.

(* ------------------------------------------------------------------------------------ *)
(* packaged for Props/C20 *)

Lemma normalize_column_facts (A : list (list R)) j :
  rect A -> (j < ncols A)%nat -> nonconstant (col 0 A j) ->
  0 < Rstd (col 0 A j) /\
  Rmean (col 0 (normalize ROps A) j) = 0 /\
  Rsum (map (fun w => w * w) (col 0 (normalize ROps A) j)) = INR (length A).
Proof.
  intros Hrect Hj Hnc. rewrite (normalize_col A j Hrect Hj).
  fold (standardise (col 0 A j)). split; [now apply Rstd_pos|]. split.
  - now apply standardise_mean.
  - rewrite standardise_sumsq by assumption. unfold col. now rewrite map_length.
Qed.
