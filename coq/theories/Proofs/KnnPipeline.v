(* The final training stage of KNNSupervisedOPF.fit / UnsupervisedOPF.fit (Model/KnnFit.v) at the reals.

   Part 1 of 2: [Rltb] is a strict total order, and what [arcs_and_pdf] (create_arcs followed by
   calculate_pdf) hands to the clustering routines when started from [fit_start]:

     - the k-nearest-neighbour adjacency of Lift2Knn.arcs_exact_anyorder (stated there for
       [knn_init]; transferred with KnnPipelineArcs.create_arcs_gdens_indep),
     - the untouched fields of [fit_start] (KnnPipelineArcs.create_arcs_kept),
     - densities in [1, 1000], cost = density - 1, and the affine formula (PdfReal.v).

   These are exactly the premises of the order-only clustering theorems of LiftCluster.v
   (Props/C13_anyorder.v); KnnPipelineMain.v composes them. *)
From Coq Require Import Reals List Arith Bool ZArith Lia Lra Permutation.
From OPF Require Import Base.Lists Base.NumOps Base.TotalOrder Model.Heap Model.Knn Model.Pdf Model.KnnFit
  Proofs.PdfBase Proofs.PdfReal Proofs.KnnScan Proofs.Lift2Knn Proofs.KnnPipelineArcs.
Import ListNotations.
Local Open Scope R_scope.

(* ---------- the comparison of [ROps] ---------- *)

Theorem Rltb_order : strict_total_order Rltb.
Proof.
  constructor.
  - intros a. apply Rltb_false_iff. lra.
  - intros a b c H1 H2. apply Rltb_true_iff in H1, H2. apply Rltb_true_iff. lra.
  - intros a b H1 H2. apply Rltb_false_iff in H1, H2. lra.
Qed.

Lemma wmin_Rmin a b : wmin Rltb a b = Rmin a b.
Proof. unfold wmin, Rmin, Rltb. destruct (Rlt_dec b a), (Rle_dec a b); try reflexivity; lra. Qed.

Lemma nth_map_fst (dc : list (R * R)) i : nth i (map fst dc) 0 = fst (nth i dc (0, 0)).
Proof. exact (map_nth fst dc (0, 0) i). Qed.

Lemma nth_map_snd (dc : list (R * R)) i : nth i (map snd dc) 0 = snd (nth i dc (0, 0)).
Proof. exact (map_nth snd dc (0, 0) i). Qed.

(* ---------- sums of terms in [0, 1] ---------- *)

Lemma Rsum_upto_01 k f : (forall l, (l < k)%nat -> 0 <= f l <= 1) -> 0 <= Rsum_upto k f <= INR k.
Proof.
  induction k as [|k IH]; intros H.
  - cbn [Rsum_upto INR]. lra.
  - cbn [Rsum_upto]. rewrite S_INR.
    specialize (IH (fun l Hl => H l (Nat.lt_lt_succ_r _ _ Hl))). specialize (H k (Nat.lt_succ_diag_r k)). lra.
Qed.

Lemma pdf_01 k f : (forall l, (l < k)%nat -> 0 <= f l <= 1) -> 0 <= Rsum_upto k f / INR (k + 1) < 1.
Proof.
  intros H. pose proof (Rsum_upto_01 k f H) as [H0 H1].
  assert (Hk : 0 < INR (k + 1)) by apply INR_k1_pos.
  assert (Hk1 : INR (k + 1) = INR k + 1) by (rewrite Nat.add_1_r; apply S_INR).
  assert (Hx : 0 < / INR (k + 1)) by now apply Rinv_0_lt_compat.
  assert (Hinv : INR (k + 1) * / INR (k + 1) = 1) by (apply Rinv_r; lra).
  unfold Rdiv. split; [apply Rmult_le_pos; lra|].
  assert (Rsum_upto k f * / INR (k + 1) <= INR k * / INR (k + 1)) by (apply Rmult_le_compat_r; lra).
  rewrite Hk1 in Hinv at 1. lra.
Qed.

(* ---------- what the clustering routines receive ---------- *)

Record fit_graph (fmax : R) (k : nat) (labels : list nat) (d e : nat -> nat -> R)
       (g2 : @knn R) (mn mx : R) : Prop := {
  fg_label : k_label g2 = labels;
  fg_dens_len : length (k_dens g2) = length labels;
  fg_cost_len : length (k_cost g2) = length labels;
  fg_pred_len : length (k_pred g2) = length labels;
  fg_root_len : length (k_root g2) = length labels;
  fg_plabel_len : length (k_plabel g2) = length labels;
  fg_clabel_len : length (k_clabel g2) = length labels;
  fg_order : k_order g2 = [];
  fg_nplat : k_nplat g2 = repeat 0%nat (length labels);
  fg_adj_len : length (k_adj g2) = length labels;
  fg_adj : forall i, (i < length labels)%nat ->
    let a := nth i (k_adj g2) [] in
    length a = Nat.min k (length labels - 1) /\ NoDup a /\ ~ In i a /\
    (forall j, In j a -> (j < length labels)%nat) /\
    (forall x y, (x <= y)%nat -> (y < length a)%nat -> d i (nth x a 0%nat) <= d i (nth y a 0%nat)) /\
    (forall j, (j < length labels)%nat -> j <> i -> ~ In j a -> forall x, In x a -> d i x <= d i j);
  fg_adj_lt : forall p q, In q (nth p (k_adj g2) []) -> (q < length labels)%nat;
  fg_dens : forall i, (i < length labels)%nat -> 1 <= nth i (k_dens g2) 0 <= 1000;
  fg_cost : forall i, (i < length labels)%nat -> nth i (k_cost g2) 0 = nth i (k_dens g2) 0 - 1;
  fg_pdf :
    let pdf i := Rsum_upto k (fun l => e i (nth l (nth i (k_adj g2) []) 0%nat)) / INR (k + 1) in
    (forall i, (i < length labels)%nat -> mn <= pdf i <= mx) /\
    (mn = mx -> forall i, (i < length labels)%nat -> nth i (k_dens g2) 0 = 1000) /\
    (mn < mx -> forall i, (i < length labels)%nat ->
       nth i (k_dens g2) 0 = 1 + 999 * (pdf i - mn) / (mx - mn)) /\
    ((1 <= length labels)%nat -> 1 <= fmax ->
     (forall i j, (i < length labels)%nat -> (j < length labels)%nat -> 0 <= e i j <= 1) ->
     (exists i, (i < length labels)%nat /\ mn = pdf i) /\
     (exists i, (i < length labels)%nat /\ mx = pdf i) /\ 0 <= mn /\ mn <= mx /\ mx < 1)
}.

Theorem fit_graph_holds (fmax thr one gdens0 : R) (k : nat) (labels : list nat) (d e : nat -> nat -> R)
        (g2 : @knn R) (c mn mx : R) :
  (forall i j, (i < length labels)%nat -> (j < length labels)%nat -> i <> j -> 0 <= d i j < fmax) ->
  arcs_and_pdf ROps fmax thr one 1000 k d e (fit_start ROps labels gdens0) = (g2, (c, mn, mx)) ->
  fit_graph fmax k labels d e g2 mn mx.
Proof.
  intros Hd Hfit. set (n := length labels) in *.
  unfold arcs_and_pdf in Hfit.
  change (length (k_label (fit_start ROps labels gdens0))) with n in Hfit.
  destruct (create_arcs (nltb ROps) (fzero ROps) fmax thr one k n d (fit_start ROps labels gdens0))
    as [g1 maxd] eqn:Hca.
  destruct (calculate_pdf ROps fmax 1000 n k (k_gdens g1)
              (fun i l => e i (nth l (nth i (k_adj g1) []) 0%nat))) as [[[c' mn'] mx'] dc] eqn:Hcalc.
  injection Hfit as Hg Hc Hmn Hmx. subst c' mn' mx'.
  (* the same arcs as from [knn_init] *)
  destruct (create_arcs Rltb 0 fmax thr one k n d (knn_init 0 labels)) as [g1' maxd'] eqn:Hca'.
  assert (Hcore : arcs_core g1 = arcs_core g1').
  { change g1 with (fst (g1, maxd)). change g1' with (fst (g1', maxd')). rewrite <- Hca, <- Hca'.
    apply (proj1 (create_arcs_gdens_indep Rltb 0 fmax thr one k n d
                    (fit_start ROps labels gdens0) (knn_init 0 labels) eq_refl)). }
  assert (Hadj : k_adj g1 = k_adj g1') by exact (f_equal (fun x => snd (fst (fst x))) Hcore).
  assert (Hk : arcs_kept (fit_start ROps labels gdens0) g1).
  { change g1 with (fst (g1, maxd)). rewrite <- Hca. apply create_arcs_kept. }
  destruct Hk as [Hf Hal Hnl Hnz].
  unfold arcs_frame, fit_start in Hf.
  cbn [k_label k_adj k_radius k_nplat k_dens k_cost k_pred k_root k_plabel k_clabel k_order k_gdens k_nclusters] in Hf.
  injection Hf as E1 E2 E3 E4 E5 E6 E7 E8 E9.
  unfold fit_start in Hal, Hnl, Hnz. cbn [k_adj k_nplat] in Hal, Hnl. rewrite repeat_length in Hal, Hnl.
  fold n in Hal, Hnl.
  assert (Hnp : k_nplat g1 = repeat 0%nat n).
  { apply all_zero_repeat; [exact Hnl|]. apply Hnz. intros i. unfold k_nplat. apply nth_repeat_same. }
  assert (Hd' : forall i j, (i < n)%nat -> (j < n)%nat -> i <> j ->
                 Rltb (d i j) 0 = false /\ Rltb (d i j) fmax = true).
  { intros i j Hi Hj Hij. destruct (Hd i j Hi Hj Hij). split; [apply Rltb_false_iff | apply Rltb_true_iff]; lra. }
  pose proof (arcs_exact_anyorder Rltb Rltb_order 0 fmax thr one k n d labels eq_refl Hd' g1' maxd' Hca') as HA.
  cbv zeta in HA. destruct HA as (HA & _). rewrite <- Hadj in HA.
  assert (Hlt : forall p q, In q (nth p (k_adj g1) []) -> (q < n)%nat).
  { intros p q Hq. destruct (Nat.lt_ge_cases p n) as [Hp|Hp].
    - now apply (HA p Hp).
    - rewrite nth_overflow in Hq by (rewrite Hal; exact Hp). destruct Hq. }
  assert (Hdl : length dc = n) by exact (dc_length _ _ _ _ _ _ _ _ _ Hcalc).
  rewrite <- Hg. clear Hg.
  constructor;
    cbn [k_label k_adj k_radius k_nplat k_dens k_cost k_pred k_root k_plabel k_clabel k_order k_gdens k_nclusters];
    fold n.
  - exact E1.
  - now rewrite map_length.
  - now rewrite map_length.
  - rewrite E4. apply repeat_length.
  - rewrite E5. apply repeat_length.
  - rewrite E6. apply repeat_length.
  - rewrite E7. apply repeat_length.
  - exact E8.
  - exact Hnp.
  - exact Hal.
  - intros i Hi. cbv zeta. destruct (HA i Hi) as (B1 & B2 & B3 & B4 & B5 & B6 & _).
    split; [exact B1|]. split; [exact B2|]. split; [exact B3|]. split; [exact B4|]. split.
    + intros x y Hxy Hy. apply Rltb_false_iff. now apply B5.
    + intros j Hj Hji Hnin x Hx. apply Rltb_false_iff. now apply (B6 j Hj Hji Hnin x Hx).
  - exact Hlt.
  - intros i Hi. rewrite nth_map_fst. exact (density_range _ _ _ _ _ _ _ _ _ Hcalc i Hi).
  - intros i Hi. rewrite nth_map_fst, nth_map_snd. exact (cost_density _ _ _ _ _ _ _ _ _ Hcalc i Hi).
  - cbv zeta. split; [|split; [|split]].
    + intros i Hi. split.
      * exact (pdf_min_lower _ _ _ _ _ _ _ _ _ Hcalc i Hi).
      * exact (pdf_max_upper _ _ _ _ _ _ _ _ _ Hcalc i Hi).
    + intros He i Hi. rewrite nth_map_fst. exact (proj1 (density_flat _ _ _ _ _ _ _ _ _ Hcalc i He Hi)).
    + intros Hlt' i Hi. rewrite nth_map_fst.
      rewrite (proj1 (density_affine _ _ _ _ _ _ _ _ _ Hcalc i Hlt' Hi)). unfold pdfR.
      replace (1000 - 1) with 999 by lra. reflexivity.
    + intros Hn Hfm He.
      assert (H01 : forall i, (i < n)%nat ->
                0 <= pdfR k (fun i l => e i (nth l (nth i (k_adj g1) []) 0%nat)) i < 1).
      { intros i Hi. unfold pdfR. apply pdf_01. intros l _. apply He; [exact Hi|].
        destruct (Nat.lt_ge_cases l (length (nth i (k_adj g1) []))) as [Hl|Hl].
        - apply (Hlt i). now apply nth_In.
        - rewrite nth_overflow by exact Hl. exact Hn. }
      assert (Hfmax : forall i, (i < n)%nat ->
                - fmax <= pdfR k (fun i l => e i (nth l (nth i (k_adj g1) []) 0%nat)) i <= fmax).
      { intros i Hi. specialize (H01 i Hi). lra. }
      destruct (pdf_minmax_spec _ _ _ _ _ _ _ _ _ Hn Hcalc Hfmax) as ((i1 & Hi1 & Emn) & _ & (i2 & Hi2 & Emx) & Hup).
      split; [exists i1; split; [exact Hi1 | exact Emn]|].
      split; [exists i2; split; [exact Hi2 | exact Emx]|].
      pose proof (H01 i1 Hi1) as H1. pose proof (H01 i2 Hi2) as H2. specialize (Hup i1 Hi1).
      unfold pdfR in *. rewrite <- Emn in H1, Hup. rewrite <- Emx in H2. lra.
Qed.
