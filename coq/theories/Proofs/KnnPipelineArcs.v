(* create_arcs (Model/Knn.v), any weight type, no assumption on the comparison:

     1. frame: arc creation leaves labels, densities, costs, predecessors, roots, predicted and
        cluster labels, the removal order and the cluster count untouched, keeps the number of
        adjacency lists, and leaves every plateau counter at 0 if it was 0;
     2. the running density bound [k_gdens] is write-only for everything else: two starting
        subgraphs that differ only in [k_gdens] produce results that differ only in [k_gdens].

   (2) transfers the adjacency clauses of Lift2Knn.arcs_exact_anyorder, stated for [knn_init]
   (density bound [zero]), to the subgraph [KnnFit.fit_start] whose bound is the value left behind
   by the k-search. *)
From Coq Require Import List Arith Bool Lia.
From OPF Require Import Base.Lists Model.Heap Model.Knn.
Import ListNotations.

Section ArcsPoly.
  Context {W : Type} (ltb : W -> W -> bool) (zero top : W).

  (* the fields create_arcs never writes *)
  Definition arcs_frame (g : @knn W) :=
    (k_label g, k_dens g, k_cost g, k_pred g, k_root g, k_plabel g, k_clabel g, k_order g, k_nclusters g).

  (* everything but the density bound *)
  Definition arcs_core (g : @knn W) := (arcs_frame g, k_adj g, k_radius g, k_nplat g).

  Definition drop_gd (st : W * W * list W * list nat) : W * list W * list nat :=
    let '(_, r, m, a) := st in (r, m, a).

  Lemma collect_step_indep ds ns st1 st2 l :
    drop_gd st1 = drop_gd st2 ->
    drop_gd (arcs_collect ltb zero top ds ns st1 l) = drop_gd (arcs_collect ltb zero top ds ns st2 l).
  Proof.
    destruct st1 as [[[g1 r1] m1] a1], st2 as [[[g2 r2] m2] a2]. cbn [drop_gd].
    intros H. injection H as -> -> ->. unfold arcs_collect.
    destruct (weqb ltb (nth l ds top) top); reflexivity.
  Qed.

  Lemma collect_indep ds ns L : forall st1 st2,
    drop_gd st1 = drop_gd st2 ->
    drop_gd (fold_left (arcs_collect ltb zero top ds ns) L st1)
    = drop_gd (fold_left (arcs_collect ltb zero top ds ns) L st2).
  Proof.
    induction L as [|l L IH]; intros st1 st2 H; cbn [fold_left]; [exact H|].
    apply IH. now apply collect_step_indep.
  Qed.

  Notation node k n w := (arcs_node ltb zero top k n w).

  Definition st_eq (s1 s2 : @knn W * list W * list nat) : Prop :=
    arcs_core (fst (fst s1)) = arcs_core (fst (fst s2)) /\ snd (fst s1) = snd (fst s2) /\ snd s1 = snd s2.

  Lemma arcs_node_indep k n w s1 s2 i : st_eq s1 s2 -> st_eq (node k n w s1 i) (node k n w s2 i).
  Proof.
    destruct s1 as [[g1 maxd1] ns1], s2 as [[g2 maxd2] ns2]. unfold st_eq. cbn [fst snd].
    intros (Hc & -> & ->).
    destruct g1 as [la aa ra na da ca pa oa qa ea sa ga ta], g2 as [lb ab rb nb db cb pb ob qb eb sb gb tb].
    unfold arcs_core, arcs_frame in Hc.
    cbn [k_label k_adj k_radius k_nplat k_dens k_cost k_pred k_root k_plabel k_clabel k_order k_gdens k_nclusters] in Hc.
    injection Hc as -> -> -> -> -> -> -> -> -> -> -> ->.
    unfold arcs_node.
    cbn [k_label k_adj k_radius k_nplat k_dens k_cost k_pred k_root k_plabel k_clabel k_order k_gdens k_nclusters].
    destruct (knn_scan ltb top k n (w i) (Some i) ns2) as [ds ns].
    pose proof (collect_indep ds ns (rev (seq 0 k))
                  (ga, zero, maxd2, nth i ab []) (gb, zero, maxd2, nth i ab []) eq_refl) as Hd.
    destruct (fold_left (arcs_collect ltb zero top ds ns) (rev (seq 0 k)) (ga, zero, maxd2, nth i ab []))
      as [[[gd1 r1] m1] a1].
    destruct (fold_left (arcs_collect ltb zero top ds ns) (rev (seq 0 k)) (gb, zero, maxd2, nth i ab []))
      as [[[gd2 r2] m2] a2].
    cbn [drop_gd] in Hd. injection Hd as -> -> ->.
    cbn [fst snd]. unfold arcs_core, arcs_frame.
    cbn [k_label k_adj k_radius k_nplat k_dens k_cost k_pred k_root k_plabel k_clabel k_order k_gdens k_nclusters].
    repeat split.
  Qed.

  Lemma arcs_fold_indep k n w L : forall s1 s2,
    st_eq s1 s2 -> st_eq (fold_left (node k n w) L s1) (fold_left (node k n w) L s2).
  Proof.
    induction L as [|i L IH]; intros s1 s2 H; cbn [fold_left]; [exact H|].
    apply IH. now apply arcs_node_indep.
  Qed.

  (* two starting subgraphs that agree on everything but [k_gdens]: same arcs, radii, plateau
     counters and per-rank maxima *)
  Theorem create_arcs_gdens_indep thr one k n w (g1 g2 : @knn W) :
    arcs_core g1 = arcs_core g2 ->
    arcs_core (fst (create_arcs ltb zero top thr one k n w g1))
    = arcs_core (fst (create_arcs ltb zero top thr one k n w g2)) /\
    snd (create_arcs ltb zero top thr one k n w g1) = snd (create_arcs ltb zero top thr one k n w g2).
  Proof.
    intros H. unfold create_arcs, create_arcs_acc.
    assert (H' : arcs_core (reset_gdens zero g1) = arcs_core (reset_gdens zero g2)) by exact H.
    pose proof (arcs_fold_indep k n w (seq 0 n) (reset_gdens zero g1, repeat zero k, repeat 0 (S k))
                  (reset_gdens zero g2, repeat zero k, repeat 0 (S k)) (conj H' (conj eq_refl eq_refl))) as He.
    destruct (fold_left (node k n w) (seq 0 n) (reset_gdens zero g1, repeat zero k, repeat 0 (S k))) as [[h1 m1] n1].
    destruct (fold_left (node k n w) (seq 0 n) (reset_gdens zero g2, repeat zero k, repeat 0 (S k))) as [[h2 m2] n2].
    destruct He as (Hc & Hm & _). cbn [fst snd] in Hc, Hm. cbn [fst snd]. split; [|exact Hm].
    unfold arcs_core, arcs_frame in *.
    cbn [k_label k_adj k_radius k_nplat k_dens k_cost k_pred k_root k_plabel k_clabel k_order k_gdens k_nclusters].
    exact Hc.
  Qed.

  (* ---------- frame ---------- *)

  Definition np_zero (g : @knn W) : Prop := forall i, nth i (k_nplat g) 0 = 0.

  Record arcs_kept (g0 g : @knn W) : Prop := {
    ak_frame : arcs_frame g = arcs_frame g0;
    ak_adj_len : length (k_adj g) = length (k_adj g0);
    ak_np_len : length (k_nplat g) = length (k_nplat g0);
    ak_np : np_zero g0 -> np_zero g }.

  Lemma arcs_kept_refl g : arcs_kept g g.
  Proof. constructor; auto. Qed.

  Lemma arcs_node_kept k n w g0 g maxd ns i :
    arcs_kept g0 g -> arcs_kept g0 (fst (fst (node k n w (g, maxd, ns) i))).
  Proof.
    intros [Hf Ha Hl Hz]. unfold arcs_node.
    destruct (knn_scan ltb top k n (w i) (Some i) ns) as [ds ns'].
    destruct (fold_left (arcs_collect ltb zero top ds ns') (rev (seq 0 k))
                (k_gdens g, zero, maxd, nth i (k_adj g) [])) as [[[gd r] m] a].
    cbn [fst]. constructor; unfold arcs_frame, np_zero in *;
      cbn [k_label k_adj k_radius k_nplat k_dens k_cost k_pred k_root k_plabel k_clabel k_order k_gdens k_nclusters].
    - exact Hf.
    - now rewrite upd_length.
    - now rewrite upd_length.
    - intros H0 j. rewrite nth_upd. specialize (Hz H0 j).
      destruct (Nat.eqb i j); [destruct (Nat.ltb i (length (k_nplat g)))|]; auto.
  Qed.

  Lemma arcs_fold_kept k n w g0 L : forall g maxd ns,
    arcs_kept g0 g -> arcs_kept g0 (fst (fst (fold_left (node k n w) L (g, maxd, ns)))).
  Proof.
    induction L as [|i L IH]; intros g maxd ns H; cbn [fold_left]; [exact H|].
    pose proof (arcs_node_kept k n w g0 g maxd ns i H) as H1.
    destruct (node k n w (g, maxd, ns) i) as [[g1 m1] n1]. cbn [fst] in H1. now apply IH.
  Qed.

  Theorem create_arcs_kept thr one k n w (g : @knn W) :
    arcs_kept g (fst (create_arcs ltb zero top thr one k n w g)).
  Proof.
    unfold create_arcs, create_arcs_acc.
    assert (Hr : arcs_kept g (reset_gdens zero g)).
    { constructor; unfold arcs_frame, np_zero;
        cbn [reset_gdens k_label k_adj k_radius k_nplat k_dens k_cost k_pred k_root k_plabel k_clabel k_order k_gdens k_nclusters];
        auto. }
    pose proof (arcs_fold_kept k n w g (seq 0 n) (reset_gdens zero g) (repeat zero k) (repeat 0 (S k)) Hr) as H.
    destruct (fold_left (node k n w) (seq 0 n) (reset_gdens zero g, repeat zero k, repeat 0 (S k))) as [[g1 m1] n1].
    cbn [fst] in *. destruct H as [Hf Ha Hl Hz].
    constructor; unfold arcs_frame, np_zero in *;
      cbn [k_label k_adj k_radius k_nplat k_dens k_cost k_pred k_root k_plabel k_clabel k_order k_gdens k_nclusters];
      assumption.
  Qed.
End ArcsPoly.

(* a list of [n] zeros, recognised entry by entry *)
Lemma all_zero_repeat (l : list nat) n : length l = n -> (forall i, nth i l 0 = 0) -> l = repeat 0 n.
Proof.
  revert n. induction l as [|x l IH]; intros n Hl H; cbn [length] in Hl; subst n; [reflexivity|].
  cbn [repeat]. f_equal; [exact (H 0) | apply IH; [reflexivity | intros i; exact (H (S i))]].
Qed.
