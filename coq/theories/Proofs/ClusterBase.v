(* List and forest vocabulary for C13 (density clustering produces a well-formed forest):
   - uniqueness of the split of a duplicate-free list, [before];
   - the abstract forest lemma: a parent map all of whose links point backwards in a
     duplicate-free removal order is a forest; facts that hold along every link propagate
     to the root. *)
From Coq Require Import List Arith Bool ZArith Lia Permutation.
From OPF Require Import Base.Lists Model.Knn Spec.Paths Spec.Trees.
Import ListNotations.
Close Scope Z_scope.

(* ---------------- lists ---------------- *)

Lemma nodup_split_unique {A} (x : A) : forall l1 l2 l1' l2',
  NoDup (l1 ++ x :: l2) -> l1 ++ x :: l2 = l1' ++ x :: l2' -> l1 = l1'.
Proof.
  induction l1 as [|a t IH]; intros l2 l1' l2' Hnd E.
  - destruct l1' as [|b t']; [reflexivity|]. cbn in E. injection E as E1 E2. subst b.
    cbn in Hnd. inversion Hnd as [|? ? Hx _]; subst. exfalso. apply Hx.
    apply in_or_app. right. left. reflexivity.
  - destruct l1' as [|b t'].
    + cbn in E. injection E as E1 E2. subst a. cbn in Hnd. inversion Hnd as [|? ? Hx _]; subst.
      exfalso. apply Hx. apply in_or_app. right. left. reflexivity.
    + cbn in E. injection E as E1 E2. subst b. f_equal.
      cbn in Hnd. inversion Hnd; subst. eapply IH; eauto.
Qed.

Lemma before_prefix l0 x l' p :
  NoDup (l0 ++ x :: l') -> before (l0 ++ x :: l') p x -> In p l0.
Proof.
  intros Hnd (a & b & c & E).
  assert (E' : l0 ++ x :: l' = (a ++ p :: b) ++ x :: c).
  { rewrite E. rewrite <- app_assoc. reflexivity. }
  apply nodup_split_unique in E'; [|exact Hnd]. subst l0.
  apply in_or_app. right. left. reflexivity.
Qed.

Lemma before_app_r l p q x : before l p q -> before (l ++ [x]) p q.
Proof.
  intros (a & b & c & E). exists a, b, (c ++ [x]). subst l.
  rewrite <- app_assoc. cbn. rewrite <- app_assoc. reflexivity.
Qed.

Lemma before_snoc l p q : In p l -> before (l ++ [q]) p q.
Proof.
  intros Hin. apply in_split in Hin. destruct Hin as (a & b & ->).
  exists a, b, []. rewrite <- app_assoc. reflexivity.
Qed.

Lemma before_In_l l p q : before l p q -> In p l.
Proof. intros (a & b & c & ->). apply in_or_app. right. left. reflexivity. Qed.

Lemma nodup_lt_perm (l : list nat) n :
  NoDup l -> (forall q, In q l -> q < n) -> length l = n -> Permutation l (seq 0 n).
Proof.
  intros Hnd Hlt Hlen. apply NoDup_Permutation_bis.
  - exact Hnd.
  - rewrite seq_length. lia.
  - intros q Hq. apply in_seq. specialize (Hlt q Hq). lia.
Qed.

Lemma filter_ext_in_local {A} (f g : A -> bool) l :
  (forall x, In x l -> f x = g x) -> filter f l = filter g l.
Proof.
  induction l as [|a t IH]; intros H; [reflexivity|]. cbn.
  rewrite (H a (or_introl eq_refl)). rewrite IH; [reflexivity|].
  intros x Hx. apply H. right. exact Hx.
Qed.

Lemma filter_snoc {A} (f : A -> bool) l x :
  filter f (l ++ [x]) = filter f l ++ (if f x then [x] else []).
Proof. rewrite filter_app. reflexivity. Qed.

Lemma filter_perm_length {A} (f : A -> bool) l l' :
  Permutation l l' -> length (filter f l) = length (filter f l').
Proof.
  induction 1 as [|x l l' _ IH|x y l|l l' l'' _ IH1 _ IH2]; cbn.
  - reflexivity.
  - destruct (f x); cbn; congruence.
  - destruct (f x), (f y); reflexivity.
  - congruence.
Qed.

Lemma In_firstn_In {A} (x : A) m l : In x (firstn m l) -> In x l.
Proof.
  intros H. rewrite <- (firstn_skipn m l). apply in_or_app. left. exact H.
Qed.

Lemma wmin_Z a b : wmin Z.ltb a b = Z.min a b.
Proof. unfold wmin. destruct (Z.ltb_spec b a); lia. Qed.

(* ---------------- reaching a root ---------------- *)

Lemma reaches_unique pred q : forall r k r' k',
  reaches pred q r k -> pred r = None -> reaches pred q r' k' -> pred r' = None ->
  r = r' /\ k = k'.
Proof.
  intros r k r' k' H. revert r' k'. induction H as [q|q p r k Hp _ IH]; intros r' k' Hr H' Hr'.
  - inversion H' as [|? ? ? ? Hp' _]; subst; [auto|congruence].
  - inversion H' as [|? p' ? k'' Hp' Hre]; subst; [congruence|].
    rewrite Hp in Hp'. injection Hp' as <-. destruct (IH r' k'' Hr Hre Hr') as [-> ->]. auto.
Qed.

Lemma root_of_unique pred q r r' : root_of pred q r -> root_of pred q r' -> r = r'.
Proof.
  intros (k & H & Hr) (k' & H' & Hr').
  destruct (reaches_unique pred q r k r' k' H Hr H' Hr') as [E _]. exact E.
Qed.

(* The abstract forest lemma.  [ord] is a duplicate-free order in which every link points
   backwards; [P q r] is any relation that holds at roots ([P r r]) and is transported by
   links ([P p r -> P q r] when [pred q = Some p]). *)
Section Forest.
  Variable pred : nat -> option nat.
  Variable ord : list nat.
  Hypothesis Hnd : NoDup ord.
  Hypothesis Hback : forall q p, In q ord -> pred q = Some p -> before ord p q.

  Variable P : nat -> nat -> Prop.
  Hypothesis Proot : forall r, In r ord -> pred r = None -> P r r.
  Hypothesis Plink : forall q p r, In q ord -> pred q = Some p -> In p ord -> P p r -> P q r.

  Lemma forest_prefix : forall l0 l', ord = l0 ++ l' ->
    forall q, In q l0 -> exists r k, k < length l0 /\ reaches pred q r k /\ pred r = None /\
                                      In r ord /\ P q r.
  Proof.
    induction l0 as [|x l0 IH] using rev_ind; intros l' E q Hq; [destruct Hq|].
    rewrite <- app_assoc in E. cbn in E.
    apply in_app_or in Hq. destruct Hq as [Hq|[<-|[]]].
    - destruct (IH (x :: l') E q Hq) as (r & k & Hk & Hre & Hr & Hin & HP).
      exists r, k. rewrite app_length. cbn. repeat split; auto. lia.
    - assert (Hxo : In x ord) by (rewrite E; apply in_or_app; right; left; reflexivity).
      destruct (pred x) as [p|] eqn:Hp.
      + pose proof (Hback x p Hxo Hp) as Hb.
        assert (Hpl : In p l0).
        { rewrite E in Hb. apply (before_prefix l0 x l' p); [rewrite <- E; exact Hnd|exact Hb]. }
        destruct (IH (x :: l') E p Hpl) as (r & k & Hk & Hre & Hr & Hin & HP).
        exists r, (S k). rewrite app_length. cbn. split; [lia|]. split.
        { econstructor; eauto. }
        split; [exact Hr|]. split; [exact Hin|].
        apply (Plink x p r Hxo Hp); [|exact HP]. rewrite E. apply in_or_app. left. exact Hpl.
      + exists x, 0. rewrite app_length. cbn. split; [lia|]. split; [constructor|].
        split; [exact Hp|]. split; [exact Hxo|]. apply Proot; assumption.
  Qed.

  Lemma forest_all : forall q, In q ord ->
    exists r k, k < length ord /\ reaches pred q r k /\ pred r = None /\ In r ord /\ P q r.
  Proof.
    intros q Hq. apply (forest_prefix ord []); [rewrite app_nil_r; reflexivity|exact Hq].
  Qed.
End Forest.
