(* One prediction function (Props/C14_link.v).  The three spellings of a KNN prediction

     (a) Model/KnnPredict.knn_query(_batch)            exp terms = a function E of the scanned distance
     (b) Model/RunKnn.run_knn_predict(_batch)          PrimFloat, exp terms = a table per training node
     (c) Model/KnnLearn.predict_step / predict_batch   any NumOps, a table per training node

   agree.  Everything here is structural: no property of the comparison [nltb O] is used, and nothing
   about PrimFloat beyond evaluation of closed terms, so the results hold at every [NumOps] and stay
   closed under the global context.

   Key fact ([knn_scan_slots]): after a scan that started from FLOAT_MAX-filled distances, every slot
   either still holds FLOAT_MAX itself or holds (dist j, j) for a training node j < n - whatever the
   comparison does.  Hence the table entry read by (b)/(c) in slot l, table[neighbours[l]], is the
   table entry OF THE DISTANCE in that slot, and "table = E o dist" turns it into E(distances[l]). *)
From Coq Require Import List Arith Bool ZArith Lia PrimFloat.
From OPF Require Import Base.Lists Base.NumOps Model.Heap Model.Knn Model.Pdf Model.KnnFit Model.KnnPredict
  Model.KnnLearn Model.Run Model.RunKnn Model.KnnLink Proofs.KnnSort Proofs.KnnScan Proofs.KnnBatch.
Import ListNotations.
Local Open Scope nat_scope.

(* ------------------------------------------------------------------ *)
(* 1. what a slot of the scan can hold (any weight type, any ltb)      *)
(* ------------------------------------------------------------------ *)

Section Slots.
  Context {W : Type} (ltb : W -> W -> bool) (top : W).
  Variables (n : nat) (dist : nat -> W).

  Definition slots_ok (m : nat) (ds : list W) (ns : list nat) : Prop :=
    length ds = m /\ length ns = m /\
    forall l, l < m -> nth l ds top = top \/ (nth l ns 0 < n /\ nth l ds top = dist (nth l ns 0)).

  Lemma bubble_slots m : forall cur ds ns, cur < m -> slots_ok m ds ns ->
    slots_ok m (fst (bubble ltb top cur ds ns)) (snd (bubble ltb top cur ds ns)).
  Proof.
    induction cur as [|c IH]; intros ds ns Hc H; cbn [bubble]; [exact H|].
    destruct (ltb (nth (S c) ds top) (nth c ds top)); [|exact H].
    apply IH; [lia|].
    destruct H as (Ld & Ln & Hs).
    split; [rewrite swapl_length; exact Ld|]. split; [rewrite swapl_length; exact Ln|].
    intros l Hl. rewrite !swapl_nth by lia.
    destruct (Nat.eqb l c); [apply Hs; lia|].
    destruct (Nat.eqb l (S c)); [apply Hs; lia | apply Hs; exact Hl].
  Qed.

  Lemma scan_step_slots k skip ds ns j : j < n -> slots_ok (S k) ds ns ->
    slots_ok (S k) (fst (scan_step ltb top k dist skip (ds, ns) j))
                   (snd (scan_step ltb top k dist skip (ds, ns) j)).
  Proof.
    intros Hj H. cbn [scan_step].
    destruct (match skip with Some i => Nat.eqb j i | None => false end); [exact H|].
    apply bubble_slots; [lia|].
    destruct H as (Ld & Ln & Hs).
    split; [rewrite upd_length; exact Ld|]. split; [rewrite upd_length; exact Ln|].
    intros l Hl. destruct (Nat.eq_dec l k) as [->|Hne].
    - right. rewrite !nth_upd_eq by lia. split; [exact Hj | reflexivity].
    - rewrite !nth_upd_neq by lia. apply Hs; exact Hl.
  Qed.

  Lemma scan_fold_slots k skip : forall C ds ns, (forall j, In j C -> j < n) -> slots_ok (S k) ds ns ->
    slots_ok (S k) (fst (fold_left (scan_step ltb top k dist skip) C (ds, ns)))
                   (snd (fold_left (scan_step ltb top k dist skip) C (ds, ns))).
  Proof.
    induction C as [|j C IH]; intros ds ns HC H; cbn [fold_left]; [exact H|].
    pose proof (scan_step_slots k skip ds ns j (HC j (or_introl eq_refl)) H) as H1.
    destruct (scan_step ltb top k dist skip (ds, ns) j) as [ds1 ns1]. cbn [fst snd] in H1.
    apply IH; [intros j' Hj'; apply HC; right; exact Hj' | exact H1].
  Qed.

  (* the scratch array [ns0] may hold anything (it is never reset by the code) *)
  Theorem knn_scan_slots k skip ns0 ds ns : length ns0 = S k ->
    knn_scan ltb top k n dist skip ns0 = (ds, ns) -> slots_ok (S k) ds ns.
  Proof.
    intros L H.
    pose proof (scan_fold_slots k skip (seq 0 n) (repeat top (S k)) ns0) as T.
    unfold knn_scan in H. rewrite H in T. cbn [fst snd] in T. apply T.
    - intros j Hj. apply in_seq in Hj. lia.
    - split; [apply repeat_length|]. split; [exact L|]. intros l _. left. apply nth_repeat_same.
  Qed.

  Lemma knn_scan_ns_length k skip ns0 : length ns0 = S k ->
    length (snd (knn_scan ltb top k n dist skip ns0)) = S k.
  Proof.
    intros L. destruct (knn_scan ltb top k n dist skip ns0) as [ds ns] eqn:H.
    exact (proj1 (proj2 (knn_scan_slots k skip ns0 ds ns L H))).
  Qed.
End Slots.

(* the arg-max loop reads the graph through its cost array only *)
Lemma knn_pick_cost_only {W : Type} (ltb : W -> W -> bool) (zero top bot : W) (g g' : @knn W) k densx ds ns :
  k_cost g = k_cost g' ->
  knn_pick ltb zero top bot g k densx ds ns = knn_pick ltb zero top bot g' k densx ds ns.
Proof.
  intros H. unfold knn_pick. f_equal. apply fold_left_ext_eq.
  intros [best who] l. cbn [pick_step]. rewrite H. reflexivity.
Qed.

(* ------------------------------------------------------------------ *)
(* 2. table form = function form, any NumOps                           *)
(* ------------------------------------------------------------------ *)

Section Link.
  Context {F : Type} (O : NumOps F).
  Variables fmax eps : F.
  Variable maxd : Z.

  Notation f0 := (fzero O).
  Notation fb := (fbot O fmax).

  Lemma query_density_ext mn mx k (e e' : nat -> F) : (forall l, l < k -> e l = e' l) ->
    query_density O maxd eps mn mx k e = query_density O maxd eps mn mx k e'.
  Proof.
    intros H. unfold query_density.
    rewrite (map_ext_in e e' (seq 0 k)); [reflexivity|].
    intros l Hl. apply in_seq in Hl. apply H. lia.
  Qed.

  (* for one query (distances, table): whatever the scratch array held, the term read from the table
     in each of the k slots the density sums over is E of the distance in that slot *)
  Definition terms_agree (E : F -> F) (k n : nat) (q : (nat -> F) * (nat -> F)) : Prop :=
    forall ns0 ds ns, length ns0 = S k ->
      knn_scan (nltb O) fmax k n (fst q) None ns0 = (ds, ns) ->
      forall l, l < k -> table_term O fmax ds ns (snd q) l = E (nth l ds fmax).

  (* sentinel-aware correspondence (the one the float run needs: k may exceed the number of candidates
     and a distance may EQUAL FLOAT_MAX; then the code's term is exp(-FLOAT_MAX/constant) = 0) *)
  Theorem terms_agree_sentinel E k n q :
    sentinel_to_zero O fmax E -> table_of O fmax E n q -> terms_agree E k n q.
  Proof.
    intros (H0 & H1) H2 ns0 ds ns L Hs l Hl.
    destruct (knn_scan_slots (nltb O) fmax n (fst q) k None ns0 ds ns L Hs) as (_ & _ & Hsl).
    unfold table_term. destruct (Hsl l ltac:(lia)) as [Et|(Hj & Ed)].
    - rewrite Et, H0. symmetry. apply H1. exact H0.
    - destruct (neqb O (nth l ds fmax) fmax) eqn:Hq.
      + symmetry. apply H1. exact Hq.
      + rewrite Ed in Hq. rewrite Ed. symmetry. apply H2; assumption.
  Qed.

  Lemma table_step_query E g k n mn mx ns0 out q :
    terms_agree E k n q -> length ns0 = S k ->
    exists ns1 out1,
      table_step O fmax eps maxd g k n mn mx (ns0, out) q = (ns1, out1) /\
      knn_predict_step (nltb O) f0 fmax fb g k n (query_densx O fmax eps maxd E mn mx k) (ns0, out) (fst q)
      = (ns1, out1) /\
      length ns1 = S k.
  Proof.
    intros HT L. destruct q as [dq eq]. cbn [fst snd] in *. cbn [table_step knn_predict_step].
    pose proof (knn_scan_ns_length (nltb O) fmax n dq k None ns0 L) as Ln.
    pose proof (HT ns0) as HT'. cbn [fst snd] in HT'.
    destruct (knn_scan (nltb O) fmax k n dq None ns0) as [ds ns]. cbn [snd] in Ln.
    specialize (HT' ds ns L eq_refl).
    eexists. eexists. split; [reflexivity|]. split; [|exact Ln].
    unfold query_densx.
    rewrite (query_density_ext mn mx k (table_term O fmax ds ns eq) (fun l => E (nth l ds fmax)) HT').
    reflexivity.
  Qed.

  Lemma table_fold_query E g k n mn mx : forall qs ns0 out,
    (forall q, In q qs -> terms_agree E k n q) -> length ns0 = S k ->
    fold_left (table_step O fmax eps maxd g k n mn mx) qs (ns0, out)
    = fold_left (knn_predict_step (nltb O) f0 fmax fb g k n (query_densx O fmax eps maxd E mn mx k))
                (map fst qs) (ns0, out).
  Proof.
    induction qs as [|q qs IH]; intros ns0 out HT L; cbn [fold_left map]; [reflexivity|].
    destruct (table_step_query E g k n mn mx ns0 out q (HT q (or_introl eq_refl)) L)
      as (ns1 & out1 & E1 & E2 & L1).
    rewrite E1, E2. apply IH; [intros q' Hq'; apply HT; right; exact Hq' | exact L1].
  Qed.

  (* (a) = table form, whole batch *)
  Theorem table_batch_query E (g : @knn F) (c mn mx : F) k qs :
    (forall q, In q qs -> terms_agree E k (length (k_label g)) q) ->
    table_batch O fmax eps maxd g k (length (k_label g)) mn mx qs
    = knn_query_batch O fmax eps maxd E (g, (c, mn, mx)) k (map fst qs).
  Proof.
    intros HT. unfold table_batch, knn_query_batch, knn_predict_batch.
    rewrite (table_fold_query E g k (length (k_label g)) mn mx qs (repeat 0 (S k)) [] HT
               (repeat_length 0 (S k))).
    reflexivity.
  Qed.

  (* a batch of one query is the single-query term *)
  Lemma knn_query_batch_one E (fit : @knn F * (F * F * F)) k dq :
    knn_query_batch O fmax eps maxd E fit k [dq] = [knn_query O fmax eps maxd E fit k dq].
  Proof.
    destruct fit as [g [[c mn] mx]]. unfold knn_query_batch, knn_query, knn_predict_batch, knn_predict_one.
    cbn [fold_left knn_predict_step].
    destruct (knn_scan (nltb O) fmax k (length (k_label g)) dq None (repeat 0 (S k))) as [ds ns].
    reflexivity.
  Qed.

  (* (c) = table form: predict_step keeps the predicted label of the selected node *)
  Lemma predict_fold_table g k n mn mx : forall qs ns0 out,
    fold_left (predict_step O fmax eps maxd g k n mn mx) qs (ns0, map (label_of g) out)
    = (fst (fold_left (table_step O fmax eps maxd g k n mn mx) qs (ns0, out)),
       map (label_of g) (snd (fold_left (table_step O fmax eps maxd g k n mn mx) qs (ns0, out)))).
  Proof.
    induction qs as [|q qs IH]; intros ns0 out; cbn [fold_left]; [reflexivity|].
    destruct q as [dq eq]. cbn [predict_step table_step].
    destruct (knn_scan (nltb O) fmax k n dq None ns0) as [ds ns].
    rewrite <- IH. f_equal. f_equal. rewrite map_app. reflexivity.
  Qed.

  Theorem predict_batch_table g k n mn mx qs :
    predict_batch O fmax eps maxd g k n mn mx qs
    = map (label_of g) (table_batch O fmax eps maxd g k n mn mx qs).
  Proof.
    unfold predict_batch, table_batch.
    exact (f_equal snd (predict_fold_table g k n mn mx qs (repeat 0 (S k)) [])).
  Qed.

  (* (c) = (a) *)
  Theorem predict_batch_query E (g : @knn F) (c mn mx : F) k qs :
    (forall q, In q qs -> terms_agree E k (length (k_label g)) q) ->
    predict_batch O fmax eps maxd g k (length (k_label g)) mn mx qs
    = map (label_of g) (knn_query_batch O fmax eps maxd E (g, (c, mn, mx)) k (map fst qs)).
  Proof.
    intros HT. rewrite predict_batch_table, (table_batch_query E g c mn mx k qs HT). reflexivity.
  Qed.

  (* one step of (c), started on any scratch array of the right length *)
  Theorem predict_step_query E (g : @knn F) k n mn mx ns0 out q :
    terms_agree E k n q -> length ns0 = S k ->
    predict_step O fmax eps maxd g k n mn mx (ns0, map (label_of g) out) q
    = (fst (knn_predict_step (nltb O) f0 fmax fb g k n (query_densx O fmax eps maxd E mn mx k) (ns0, out) (fst q)),
       map (label_of g)
           (snd (knn_predict_step (nltb O) f0 fmax fb g k n (query_densx O fmax eps maxd E mn mx k) (ns0, out) (fst q)))).
  Proof.
    intros HT L.
    pose proof (predict_fold_table g k n mn mx [q] ns0 out) as P. cbn [fold_left] in P. rewrite P.
    destruct (table_step_query E g k n mn mx ns0 out q HT L) as (ns1 & out1 & E1 & E2 & _).
    rewrite E1, E2. reflexivity.
  Qed.
End Link.

(* ------------------------------------------------------------------ *)
(* 3. PrimFloat: the harness entry points                              *)
(* ------------------------------------------------------------------ *)

(* the step function of run_knn_predict_batch, copied; [run_batch_unfold] checks the copy by conversion *)
Definition run_step (kk nn : nat) (eps mn mx : float) (g : @knn float)
           (st : list nat * list Z) (q : list float * list float) : list nat * list Z :=
  let '(ns0, out) := st in
  let '(d, e) := q in
  let '(ds, ns) := knn_scan PrimFloat.ltb fmaxF kk nn (fun j => nth j d 0%float) None ns0 in
  let ee := fun l => if PrimFloat.eqb (nth l ds fmaxF) fmaxF then 0%float else nth (nth l ns 0%nat) e 0%float in
  let densx := query_density FOps 1000 eps mn mx kk ee in
  (ns, out ++ [sel_code (knn_pick PrimFloat.ltb 0%float fmaxF (PrimFloat.opp fmaxF) g kk densx ds ns)]).

Lemma run_batch_unfold k n eps mn mx cost qs :
  run_knn_predict_batch k n eps mn mx cost qs
  = snd (fold_left (run_step (zn k) (zn n) eps mn mx (cost_graph cost)) qs (repeat 0%nat (S (zn k)), [])).
Proof. reflexivity. Qed.

Lemma run_step_table kk nn eps mn mx (g : @knn float) cost : k_cost g = cost -> forall q ns0 out,
  run_step kk nn eps mn mx (cost_graph cost) (ns0, map sel_code out) q
  = (fst (table_step FOps fmaxF eps 1000 g kk nn mn mx (ns0, out) (fq_fun q)),
     map sel_code (snd (table_step FOps fmaxF eps 1000 g kk nn mn mx (ns0, out) (fq_fun q)))).
Proof.
  intros Hc [d e] ns0 out. cbn [run_step]. unfold fq_fun. cbn [table_step].
  change (nltb FOps) with PrimFloat.ltb.
  change (fq_dist (d, e)) with (fun j => nth j d 0%float).
  destruct (knn_scan PrimFloat.ltb fmaxF kk nn (fun j => nth j d 0%float) None ns0) as [ds ns].
  cbn [fst snd]. rewrite map_app. cbn [map].
  change (fzero FOps) with 0%float.
  change (fbot FOps fmaxF) with (PrimFloat.opp fmaxF).
  rewrite (knn_pick_cost_only PrimFloat.ltb 0%float fmaxF (PrimFloat.opp fmaxF) (cost_graph cost) g)
    by (symmetry; exact Hc).
  reflexivity.
Qed.

Lemma run_fold_table kk nn eps mn mx (g : @knn float) cost : k_cost g = cost -> forall qs ns0 out,
  fold_left (run_step kk nn eps mn mx (cost_graph cost)) qs (ns0, map sel_code out)
  = (fst (fold_left (table_step FOps fmaxF eps 1000 g kk nn mn mx) (map fq_fun qs) (ns0, out)),
     map sel_code (snd (fold_left (table_step FOps fmaxF eps 1000 g kk nn mn mx) (map fq_fun qs) (ns0, out)))).
Proof.
  intros Hc. induction qs as [|q qs IH]; intros ns0 out; cbn [fold_left map]; [reflexivity|].
  rewrite (run_step_table kk nn eps mn mx g cost Hc q ns0 out).
  destruct (table_step FOps fmaxF eps 1000 g kk nn mn mx (ns0, out) (fq_fun q)) as [ns1 out1].
  cbn [fst snd]. apply IH.
Qed.

(* (b) = table form *)
Theorem run_batch_table k n eps mn mx (g : @knn float) qs :
  run_knn_predict_batch k n eps mn mx (k_cost g) qs
  = map sel_code (table_batch FOps fmaxF eps 1000 g (zn k) (zn n) mn mx (map fq_fun qs)).
Proof.
  rewrite run_batch_unfold. unfold table_batch.
  exact (f_equal snd (run_fold_table (zn k) (zn n) eps mn mx g (k_cost g) eq_refl qs (repeat 0%nat (S (zn k))) [])).
Qed.

Lemma sel_decode_code o : sel_decode (sel_code o) = o.
Proof.
  destruct o as [s|]; unfold sel_decode, sel_code; [|reflexivity].
  destruct (Z.ltb_spec (nz s) 0) as [H|H]; [unfold nz in H; lia|].
  unfold zn, nz. rewrite Nat2Z.id. reflexivity.
Qed.

(* (b) = (c), no hypothesis: the whole-fit model's prediction is the harness entry point followed by
   the label lookup *)
Theorem run_batch_predict_batch k n eps mn mx (g : @knn float) qs :
  predict_batch FOps fmaxF eps 1000 g (zn k) (zn n) mn mx (map fq_fun qs)
  = map (fun z => label_of g (sel_decode z)) (run_knn_predict_batch k n eps mn mx (k_cost g) qs).
Proof.
  rewrite predict_batch_table, run_batch_table, map_map.
  apply map_ext. intros o. rewrite sel_decode_code. reflexivity.
Qed.

(* (b) = (a): the float run IS knn_query_batch at FOps, the table being E applied to the distances *)
Theorem run_batch_query (E : float -> float) k n eps mn mx (g : @knn float) (c : float) qs :
  length (k_label g) = zn n ->
  (forall x, PrimFloat.eqb x fmaxF = true -> E x = 0%float) ->
  (forall q, In q qs -> forall j, (j < zn n)%nat ->
     PrimFloat.eqb (nth j (fst q) 0%float) fmaxF = false -> E (nth j (fst q) 0%float) = nth j (snd q) 0%float) ->
  run_knn_predict_batch k n eps mn mx (k_cost g) qs
  = map sel_code (knn_query_batch FOps fmaxF eps 1000 E (g, (c, mn, mx)) (zn k) (map fq_dist qs)).
Proof.
  intros Ln H1 H2. rewrite run_batch_table, <- Ln.
  rewrite (table_batch_query FOps fmaxF eps 1000 E g c mn mx (zn k) (map fq_fun qs)).
  - rewrite map_map. reflexivity.
  - intros q Hq. apply in_map_iff in Hq. destruct Hq as (q0 & <- & Hq0).
    apply terms_agree_sentinel.
    + split; [reflexivity | exact H1].
    + rewrite Ln. exact (H2 q0 Hq0).
Qed.

(* single query *)
Lemma run_one_batch k n eps mn mx d e cost skip : (skip < 0)%Z ->
  [run_knn_predict k n skip eps mn mx d e cost] = run_knn_predict_batch k n eps mn mx cost [(d, e)].
Proof.
  intros Hs. unfold run_knn_predict, run_knn_predict_batch. cbn [fold_left].
  apply Z.ltb_lt in Hs. rewrite Hs.
  destruct (knn_scan PrimFloat.ltb fmaxF (zn k) (zn n) (fun j => nth j d 0%float) None (repeat 0%nat (S (zn k))))
    as [ds ns].
  reflexivity.
Qed.

Theorem run_one_query (E : float -> float) k n skip eps mn mx (g : @knn float) (c : float) d e :
  (skip < 0)%Z -> length (k_label g) = zn n ->
  (forall x, PrimFloat.eqb x fmaxF = true -> E x = 0%float) ->
  (forall j, (j < zn n)%nat ->
     PrimFloat.eqb (nth j d 0%float) fmaxF = false -> E (nth j d 0%float) = nth j e 0%float) ->
  run_knn_predict k n skip eps mn mx d e (k_cost g)
  = sel_code (knn_query FOps fmaxF eps 1000 E (g, (c, mn, mx)) (zn k) (fun j => nth j d 0%float)).
Proof.
  intros Hs Ln H1 H2.
  pose proof (run_one_batch k n eps mn mx d e (k_cost g) skip Hs) as B.
  rewrite (run_batch_query E k n eps mn mx g c [(d, e)] Ln H1) in B.
  - cbn [map] in B. rewrite knn_query_batch_one in B. cbn [map] in B.
    injection B as B. exact B.
  - intros q [<-|[]]. exact H2.
Qed.

(* the table a batch denotes: [lookup_E] satisfies the sentinel clause by definition *)
Lemma lookup_E_sentinel tab x : PrimFloat.eqb x fmaxF = true -> lookup_E tab x = 0%float.
Proof. intros H. unfold lookup_E. rewrite H. reflexivity. Qed.

Theorem run_batch_query_lookup k n eps mn mx (g : @knn float) (c : float) qs :
  length (k_label g) = zn n ->
  (forall q, In q qs -> forall j, (j < zn n)%nat ->
     PrimFloat.eqb (nth j (fst q) 0%float) fmaxF = false ->
     lookup_E (batch_table qs) (nth j (fst q) 0%float) = nth j (snd q) 0%float) ->
  run_knn_predict_batch k n eps mn mx (k_cost g) qs
  = map sel_code (knn_query_batch FOps fmaxF eps 1000 (lookup_E (batch_table qs)) (g, (c, mn, mx)) (zn k)
                                  (map fq_dist qs)).
Proof.
  intros Ln H2. apply run_batch_query; [exact Ln | apply lookup_E_sentinel | exact H2].
Qed.
