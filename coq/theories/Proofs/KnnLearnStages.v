(* What each stage of the KNN training routines keeps (fields, list lengths), and the stage-level
   simulations built from Proofs/KnnLearnFrame.v:

     - [arcs_and_pdf] (create_arcs; calculate_pdf) on two subgraphs that agree on labels, adjacency,
       plateau counters and density bound gives the same arcs, radii, densities, costs, bound and
       (constant, min, max);
     - [clustering_sup] / [clustering_unsup] on two subgraphs that agree on what they read give results
       related by [csim].

   Any numeric carrier, any comparison: purely structural. *)
From Coq Require Import List Arith Bool ZArith Lia Permutation.
From OPF Require Import Base.Lists Base.NumOps Model.Heap Model.Knn Model.Pdf Model.KnnFit Model.KnnLearn
  Proofs.KnnPipelineArcs Proofs.KnnLearnFrame.
Import ListNotations.

(* ------------------------------------------------------------------------------------------------ *)
(* the competition: kept fields and lengths                                                           *)
(* ------------------------------------------------------------------------------------------------ *)

Section ClKept.
  Context {W : Type} (ltb : W -> W -> bool) (zero top bot : W).

  Record cl_kept (sup : bool) (g g' : @knn W) : Prop := mkClKept {
    ck_label : k_label g' = k_label g;
    ck_adj : k_adj g' = k_adj g;
    ck_radius : k_radius g' = k_radius g;
    ck_nplat : k_nplat g' = k_nplat g;
    ck_dens : k_dens g' = k_dens g;
    ck_gdens : k_gdens g' = k_gdens g;
    ck_ncl : k_nclusters g' = k_nclusters g;
    ck_ul : ul sup g' = ul sup g;
    ck_lcost : length (k_cost g') = length (k_cost g);
    ck_lpred : length (k_pred g') = length (k_pred g);
    ck_lroot : length (k_root g') = length (k_root g);
    ck_lwl : length (wl sup g') = length (wl sup g) }.

  Lemma cl_kept_refl sup g : cl_kept sup g g.
  Proof. constructor; reflexivity. Qed.

  Lemma cl_kept_trans sup g1 g2 g3 : cl_kept sup g1 g2 -> cl_kept sup g2 g3 -> cl_kept sup g1 g3.
  Proof. intros [] []. constructor; congruence. Qed.

  Lemma seed_kept sup h g i : cl_kept sup g (snd (cl_seed ltb zero top (h, g) i)).
  Proof.
    destruct g. unfold cl_seed. cbn [fst snd]. knn_cbn.
    constructor; unfold ul, wl; knn_cbn; rewrite ?upd_length; reflexivity.
  Qed.

  Lemma seed_fold_kept sup : forall l h g, cl_kept sup g (snd (fold_left (cl_seed ltb zero top) l (h, g))).
  Proof.
    induction l as [|i l IH]; intros h g; cbn [fold_left]; [apply cl_kept_refl|].
    pose proof (seed_kept sup h g i) as K.
    destruct (cl_seed ltb zero top (h, g) i) as [h1 g1]. cbn [snd] in K.
    exact (cl_kept_trans _ _ _ _ K (IH h1 g1)).
  Qed.

  Lemma relax_kept sup force p h g q : cl_kept sup g (snd (cl_relax ltb zero top bot sup force p (h, g) q)).
  Proof.
    destruct g. unfold cl_relax. knn_cbn.
    destruct (is_blackk h q); [apply cl_kept_refl|].
    match goal with |- context [if ?c then _ else _] => destruct c end; [|apply cl_kept_refl].
    cbn [snd]. destruct sup; constructor; unfold ul, wl; knn_cbn; rewrite ?upd_length; reflexivity.
  Qed.

  Lemma relax_fold_kept sup force p : forall l h g,
    cl_kept sup g (snd (fold_left (cl_relax ltb zero top bot sup force p) l (h, g))).
  Proof.
    induction l as [|q l IH]; intros h g; cbn [fold_left]; [apply cl_kept_refl|].
    pose proof (relax_kept sup force p h g q) as K.
    destruct (cl_relax ltb zero top bot sup force p (h, g) q) as [h1 g1]. cbn [snd] in K.
    exact (cl_kept_trans _ _ _ _ K (IH h1 g1)).
  Qed.

  Lemma loop_kept sup force nbrs : forall fuel h g lc,
    cl_kept sup g (snd (fst (cl_loop ltb zero top bot fuel sup force nbrs h g lc))) /\
    snd (cl_loop ltb zero top bot fuel sup force nbrs h g lc) <= lc + fuel.
  Proof.
    induction fuel as [|f IH]; intros h g lc; cbn [cl_loop].
    - cbn [fst snd]. split; [apply cl_kept_refl|lia].
    - destruct (remove ltb top h) as [h1 [p|]].
      2:{ cbn [fst snd]. split; [apply cl_kept_refl|lia]. }
      set (isr := match nth p (k_pred g) None with None => true | Some _ => false end).
      set (h2 := if isr then set_cost h1 p (nth p (k_dens g) zero) else h1).
      set (g1 := mkKnn (k_label g) (k_adj g) (k_radius g) (k_nplat g) (k_dens g) (upd (k_cost g) p (hcostk top h2 p))
                       (k_pred g) (k_root g) (if sup && isr then upd (k_plabel g) p (nth p (k_label g) 0) else k_plabel g)
                       (if negb sup && isr then upd (k_clabel g) p lc else k_clabel g) (k_order g ++ [p]) (k_gdens g)
                       (k_nclusters g)).
      assert (K1 : cl_kept sup g g1).
      { subst g1. destruct sup, isr; cbn [andb negb]; constructor; unfold ul, wl; knn_cbn;
          rewrite ?upd_length; reflexivity. }
      pose proof (relax_fold_kept sup force p (nbrs g1 p) h2 g1) as K2.
      destruct (fold_left (cl_relax ltb zero top bot sup force p) (nbrs g1 p) (h2, g1)) as [h3 g2].
      cbn [snd] in K2.
      destruct (IH h3 g2 (if negb sup && isr then S lc else lc)) as [K3 Hl].
      split; [exact (cl_kept_trans _ _ _ _ (cl_kept_trans _ _ _ _ K1 K2) K3)|].
      destruct (negb sup && isr); lia.
  Qed.

  Theorem cl_run_kept sup force nbrs n g :
    cl_kept sup g (fst (cl_run ltb zero top bot sup force nbrs n g)) /\
    snd (cl_run ltb zero top bot sup force nbrs n g) <= n.
  Proof.
    unfold cl_run.
    pose proof (seed_fold_kept sup (seq 0 n) (h_init top n PMax) g) as K1.
    destruct (fold_left (cl_seed ltb zero top) (seq 0 n) (h_init top n PMax, g)) as [h g1]. cbn [snd] in K1.
    destruct (loop_kept sup force nbrs n h g1 0) as [K2 Hl].
    destruct (cl_loop ltb zero top bot n sup force nbrs h g1 0) as [[h' g2] l]. cbn [fst snd] in *.
    split; [exact (cl_kept_trans _ _ _ _ K1 K2)|lia].
  Qed.

  (* ---------------- plateau steps keep the number of lists ---------------- *)

  Lemma plateau_sup_length n dens : forall adj, length (plateau_sup ltb zero n dens adj) = length adj.
  Proof.
    unfold plateau_sup.
    assert (Hin : forall i l a, length (fold_left (plateau_sup_inner ltb zero dens i) l a) = length a).
    { intros i l. induction l as [|j l IH]; intros a; cbn [fold_left]; [reflexivity|].
      rewrite IH. unfold plateau_sup_inner.
      destruct (weqb ltb (nth i dens zero) (nth j dens zero)); [|reflexivity].
      destruct (existsb (Nat.eqb i) (nth j a [])); [reflexivity|apply upd_length]. }
    generalize (seq 0 n). intros L. induction L as [|i L IH]; intros adj; cbn [fold_left]; [reflexivity|].
    rewrite IH. apply Hin.
  Qed.

  Lemma plateau_unsup_length k n dens : forall adj nps,
    length (fst (plateau_unsup ltb zero k n dens adj nps)) = length adj /\
    length (snd (plateau_unsup ltb zero k n dens adj nps)) = length nps.
  Proof.
    unfold plateau_unsup.
    assert (Hk : forall i kk st,
               length (fst (plateau_unsup_k ltb zero k dens i st kk)) = length (fst st) /\
               length (snd (plateau_unsup_k ltb zero k dens i st kk)) = length (snd st)).
    { intros i kk [adj nps]. unfold plateau_unsup_k. cbn [fst snd].
      destruct (weqb ltb (nth i dens zero) (nth (nth kk (nth i adj []) 0) dens zero)); [|split; reflexivity].
      destruct (fold_left (plateau_unsup_l i) (seq 0 k)
                  (nth (nth kk (nth i adj []) 0) adj [], nth (nth kk (nth i adj []) 0) nps 0, true)) as [[aj np] b].
      cbn [fst snd]. rewrite !upd_length. split; reflexivity. }
    assert (Hin : forall i l st,
               length (fst (fold_left (plateau_unsup_k ltb zero k dens i) l st)) = length (fst st) /\
               length (snd (fold_left (plateau_unsup_k ltb zero k dens i) l st)) = length (snd st)).
    { intros i l. induction l as [|kk l IH]; intros st; cbn [fold_left]; [split; reflexivity|].
      destruct (IH (plateau_unsup_k ltb zero k dens i st kk)) as [A B]. destruct (Hk i kk st) as [C D].
      split; congruence. }
    assert (Hout : forall L st,
               length (fst (fold_left (fun st i => fold_left (plateau_unsup_k ltb zero k dens i) (seq 0 k) st) L st))
               = length (fst st) /\
               length (snd (fold_left (fun st i => fold_left (plateau_unsup_k ltb zero k dens i) (seq 0 k) st) L st))
               = length (snd st)).
    { induction L as [|i L IH]; intros st; cbn [fold_left]; [split; reflexivity|].
      destruct (IH (fold_left (plateau_unsup_k ltb zero k dens i) (seq 0 k) st)) as [A B].
      destruct (Hin i (seq 0 k) st) as [C D]. split; congruence. }
    intros adj nps. exact (Hout (seq 0 n) (adj, nps)).
  Qed.
End ClKept.

(* ------------------------------------------------------------------------------------------------ *)
(* what every stage keeps                                                                             *)
(* ------------------------------------------------------------------------------------------------ *)

Section Keeps.
  Context {W : Type}.

  Record keeps (g g' : @knn W) : Prop := mkKeeps {
    kp_label : k_label g' = k_label g;
    kp_ladj : length (k_adj g') = length (k_adj g);
    kp_lnplat : length (k_nplat g') = length (k_nplat g);
    kp_lradius : length (k_radius g') = length (k_radius g);
    kp_lpred : length (k_pred g') = length (k_pred g);
    kp_lroot : length (k_root g') = length (k_root g);
    kp_lplabel : length (k_plabel g') = length (k_plabel g);
    kp_lclabel : length (k_clabel g') = length (k_clabel g) }.

  (* the KNN-supervised pipeline never touches cluster labels / the cluster count;
     the unsupervised one never touches predicted labels *)
  Definition keeps_sup (g g' : @knn W) : Prop :=
    keeps g g' /\ k_clabel g' = k_clabel g /\ k_nclusters g' = k_nclusters g.
  Definition keeps_unsup (g g' : @knn W) : Prop := keeps g g' /\ k_plabel g' = k_plabel g.

  Lemma keeps_refl g : keeps g g. Proof. constructor; reflexivity. Qed.
  Lemma keeps_trans g1 g2 g3 : keeps g1 g2 -> keeps g2 g3 -> keeps g1 g3.
  Proof. intros [] []. constructor; congruence. Qed.
  Lemma keeps_sup_refl g : keeps_sup g g. Proof. split; [apply keeps_refl|split; reflexivity]. Qed.
  Lemma keeps_sup_trans g1 g2 g3 : keeps_sup g1 g2 -> keeps_sup g2 g3 -> keeps_sup g1 g3.
  Proof. intros (A & B & C) (A' & B' & C'). split; [exact (keeps_trans _ _ _ A A')|split; congruence]. Qed.
  Lemma keeps_unsup_refl g : keeps_unsup g g. Proof. split; [apply keeps_refl|reflexivity]. Qed.
  Lemma keeps_unsup_trans g1 g2 g3 : keeps_unsup g1 g2 -> keeps_unsup g2 g3 -> keeps_unsup g1 g3.
  Proof. intros (A & B) (A' & B'). split; [exact (keeps_trans _ _ _ A A')|congruence]. Qed.

  Variables (ltb : W -> W -> bool) (zero top bot : W).

  Lemma create_arcs_keeps thr one k n w (g : @knn W) :
    let g' := fst (create_arcs ltb zero top thr one k n w g) in keeps_sup g g' /\ keeps_unsup g g'.
  Proof.
    cbv zeta. destruct (create_arcs_kept ltb zero top thr one k n w g) as [Hf Ha Hl _].
    pose proof (create_arcs_radius_len ltb zero top thr one k n w g) as Hr.
    unfold arcs_frame in Hf. injection Hf as E1 E2 E3 E4 E5 E6 E7 E8 E9.
    assert (K : keeps g (fst (create_arcs ltb zero top thr one k n w g))) by (constructor; congruence).
    split; [split; [exact K|split; assumption]|split; [exact K|assumption]].
  Qed.

  Lemma destroy_arcs_keeps (g : @knn W) :
    length (k_nplat g) = length (k_adj g) -> keeps_sup g (destroy_arcs g) /\ keeps_unsup g (destroy_arcs g).
  Proof.
    intros Hn.
    assert (K : keeps g (destroy_arcs g)).
    { unfold destroy_arcs, set_adj. constructor; knn_cbn; rewrite ?repeat_length; auto. }
    split; [split; [exact K|split; reflexivity]|split; [exact K|reflexivity]].
  Qed.

  Lemma clustering_sup_keeps force (g : @knn W) : keeps_sup g (clustering_sup ltb zero top bot force g).
  Proof.
    unfold clustering_sup.
    set (g1 := set_adj g (plateau_sup ltb zero (length (k_label g)) (k_dens g) (k_adj g)) (k_nplat g)).
    destruct (cl_run_kept ltb zero top bot true force (fun g p => nth p (k_adj g) []) (length (k_label g)) g1)
      as [[A1 A2 A3 A4 A5 A6 A7 A8 A9 A10 A11 A12] _].
    unfold ul, wl in *. subst g1. unfold set_adj in *.
    knn_cbn_in A1. knn_cbn_in A2. knn_cbn_in A3. knn_cbn_in A4. knn_cbn_in A5. knn_cbn_in A6. knn_cbn_in A7.
    knn_cbn_in A8. knn_cbn_in A9. knn_cbn_in A10. knn_cbn_in A11. knn_cbn_in A12.
    split; [constructor|split]; try congruence.
    rewrite A2. apply plateau_sup_length.
  Qed.

  Lemma clustering_unsup_keeps k (g : @knn W) : keeps_unsup g (clustering_unsup ltb zero top bot k g).
  Proof.
    unfold clustering_unsup.
    destruct (plateau_unsup_length ltb zero k (length (k_label g)) (k_dens g) (k_adj g) (k_nplat g)) as [La Ln].
    destruct (plateau_unsup ltb zero k (length (k_label g)) (k_dens g) (k_adj g) (k_nplat g)) as [adj nps].
    cbn [fst snd] in La, Ln.
    set (g1 := set_adj g adj nps).
    destruct (cl_run_kept ltb zero top bot false false
                (fun g p => firstn (nth p (k_nplat g) 0 + k) (nth p (k_adj g) [])) (length (k_label g)) g1)
      as [[A1 A2 A3 A4 A5 A6 A7 A8 A9 A10 A11 A12] _].
    destruct (cl_run ltb zero top bot false false
                (fun g p => firstn (nth p (k_nplat g) 0 + k) (nth p (k_adj g) [])) (length (k_label g)) g1) as [g2 l].
    cbn [fst] in *. unfold ul, wl in *. subst g1. unfold set_adj in *.
    knn_cbn_in A1. knn_cbn_in A2. knn_cbn_in A3. knn_cbn_in A4. knn_cbn_in A5. knn_cbn_in A6. knn_cbn_in A7.
    knn_cbn_in A8. knn_cbn_in A9. knn_cbn_in A10. knn_cbn_in A11. knn_cbn_in A12.
    split; [constructor|]; knn_cbn; congruence.
  Qed.
End Keeps.

(* ------------------------------------------------------------------------------------------------ *)
(* calculate_pdf on a graph                                                                           *)
(* ------------------------------------------------------------------------------------------------ *)

Section PdfStage.
  Context {F : Type} (O : NumOps F).
  Variables fmax thr one : F.
  Variable maxd : Z.
  Notation f0 := (fzero O).

  Lemma calculate_pdf_length n k gd e : length (snd (calculate_pdf O fmax maxd n k gd e)) = n.
  Proof.
    unfold calculate_pdf.
    destruct (pdf_minmax O fmax (map (fun i => pdf_value O k (e i)) (seq 0 n))) as [mn mx]. cbn [snd].
    unfold pdf_scale. destruct (neqb O mn mx); rewrite !map_length, seq_length; reflexivity.
  Qed.

  Lemma set_pdf_keeps k e (g : @knn F) :
    let g' := fst (set_pdf O fmax maxd k e g) in
    keeps_sup g g' /\ keeps_unsup g g' /\
    k_adj g' = k_adj g /\ k_radius g' = k_radius g /\ k_nplat g' = k_nplat g /\ k_gdens g' = k_gdens g /\
    k_pred g' = k_pred g /\ k_root g' = k_root g /\ k_order g' = k_order g /\
    length (k_dens g') = length (k_label g) /\ length (k_cost g') = length (k_label g).
  Proof.
    cbv zeta. unfold set_pdf.
    pose proof (calculate_pdf_length (length (k_label g)) k (k_gdens g)
                  (fun i l => e i (nth l (nth i (k_adj g) []) 0))) as Hl.
    destruct (calculate_pdf O fmax maxd (length (k_label g)) k (k_gdens g)
                (fun i l => e i (nth l (nth i (k_adj g) []) 0))) as [[[c mn] mx] dc].
    cbn [fst snd] in *. knn_cbn. rewrite !map_length.
    repeat split; try reflexivity; assumption.
  Qed.

  Lemma set_pdf_sim k e (g1 g2 : @knn F) :
    k_label g1 = k_label g2 -> k_adj g1 = k_adj g2 -> k_gdens g1 = k_gdens g2 ->
    snd (set_pdf O fmax maxd k e g1) = snd (set_pdf O fmax maxd k e g2) /\
    k_dens (fst (set_pdf O fmax maxd k e g1)) = k_dens (fst (set_pdf O fmax maxd k e g2)) /\
    k_cost (fst (set_pdf O fmax maxd k e g1)) = k_cost (fst (set_pdf O fmax maxd k e g2)).
  Proof.
    intros E1 E2 E3. unfold set_pdf. rewrite E1, E2, E3.
    destruct (calculate_pdf O fmax maxd (length (k_label g2)) k (k_gdens g2)
                (fun i l => e i (nth l (nth i (k_adj g2) []) 0))) as [[[c mn] mx] dc].
    cbn [fst snd]. knn_cbn. repeat split.
  Qed.

  Lemma arcs_and_pdf_eq k d e (g : @knn F) :
    arcs_and_pdf O fmax thr one maxd k d e g
    = set_pdf O fmax maxd k e (fst (create_arcs (nltb O) f0 fmax thr one k (length (k_label g)) d g)).
  Proof.
    unfold arcs_and_pdf, set_pdf.
    destruct (create_arcs_kept (nltb O) f0 fmax thr one k (length (k_label g)) d g) as [Hf _ _ _].
    unfold arcs_frame in Hf. injection Hf as E1 _ _ _ _ _ _ _ _.
    destruct (create_arcs (nltb O) f0 fmax thr one k (length (k_label g)) d g) as [g1 m].
    cbn [fst] in *. rewrite E1. reflexivity.
  Qed.

  (* create_arcs; calculate_pdf on two subgraphs that agree on what is read *)
  Theorem arcs_and_pdf_sim k d e (g1 g2 : @knn F) :
    k_label g1 = k_label g2 -> k_adj g1 = k_adj g2 -> k_nplat g1 = k_nplat g2 ->
    length (k_radius g1) = length (k_label g1) -> length (k_radius g2) = length (k_label g2) ->
    let r1 := arcs_and_pdf O fmax thr one maxd k d e g1 in
    let r2 := arcs_and_pdf O fmax thr one maxd k d e g2 in
    snd r1 = snd r2 /\ score (fst r1) = score (fst r2) /\
    keeps_sup g1 (fst r1) /\ keeps_unsup g1 (fst r1) /\ keeps_sup g2 (fst r2) /\ keeps_unsup g2 (fst r2) /\
    k_order (fst r1) = k_order g1 /\ k_order (fst r2) = k_order g2.
  Proof.
    intros El Ea En L1 L2. cbv zeta. rewrite !arcs_and_pdf_eq. rewrite El in *.
    set (n := length (k_label g2)) in *.
    destruct (create_arcs_sim (nltb O) f0 fmax thr one k n d g1 g2 Ea En L1 L2) as (A1 & A2 & A3 & A4 & _).
    destruct (create_arcs_keeps (nltb O) f0 fmax thr one k n d g1) as [K1 K1'].
    destruct (create_arcs_keeps (nltb O) f0 fmax thr one k n d g2) as [K2 K2'].
    destruct (create_arcs_kept (nltb O) f0 fmax thr one k n d g1) as [Hf1 _ _ _].
    destruct (create_arcs_kept (nltb O) f0 fmax thr one k n d g2) as [Hf2 _ _ _].
    unfold arcs_frame in Hf1, Hf2. injection Hf1 as F1 _ _ _ _ _ _ F8 F9. injection Hf2 as G1 _ _ _ _ _ _ G8 G9.
    set (c1 := fst (create_arcs (nltb O) f0 fmax thr one k n d g1)) in *.
    set (c2 := fst (create_arcs (nltb O) f0 fmax thr one k n d g2)) in *.
    assert (Ecl : k_label c1 = k_label c2) by congruence.
    destruct (set_pdf_sim k e c1 c2 Ecl A1 A3) as (S1 & S2 & S3).
    destruct (set_pdf_keeps k e c1) as (P1 & P1' & Q1 & Q2 & Q3 & Q4 & Q5 & Q6 & Q7 & _).
    destruct (set_pdf_keeps k e c2) as (P2 & P2' & R1 & R2 & R3 & R4 & R5 & R6 & R7 & _).
    split; [exact S1|]. split.
    { unfold score. destruct P1 as ([] & _ & Hn1), P2 as ([] & _ & Hn2). congruence. }
    split; [exact (keeps_sup_trans _ _ _ K1 P1)|]. split; [exact (keeps_unsup_trans _ _ _ K1' P1')|].
    split; [exact (keeps_sup_trans _ _ _ K2 P2)|]. split; [exact (keeps_unsup_trans _ _ _ K2' P2')|].
    split; congruence.
  Qed.
End PdfStage.

(* ------------------------------------------------------------------------------------------------ *)
(* the two clustering routines on subgraphs that agree on what is read                                *)
(* ------------------------------------------------------------------------------------------------ *)

Section ClusteringSim.
  Context {W : Type} (ltb : W -> W -> bool) (zero top bot : W).

  Theorem clustering_sup_sim force (g1 g2 : @knn W) :
    score g1 = score g2 ->
    length (k_pred g1) = length (k_label g1) -> length (k_pred g2) = length (k_label g1) ->
    length (k_root g1) = length (k_label g1) -> length (k_root g2) = length (k_label g1) ->
    k_clabel g1 = k_clabel g2 -> length (k_plabel g1) = length (k_plabel g2) ->
    exists rem, csim true (k_order g1) (k_order g2) rem
                     (clustering_sup ltb zero top bot force g1) (clustering_sup ltb zero top bot force g2).
  Proof.
    intros Hs L1 L2 L3 L4 Hc Hl. unfold clustering_sup.
    pose proof Hs as Hs'. unfold score in Hs'. injection Hs' as E1 E2 E3 E4 E5 E6 E7.
    rewrite <- E1, <- E2, <- E4, <- E5.
    set (n := length (k_label g1)) in *.
    set (P := plateau_sup ltb zero n (k_dens g1) (k_adj g1)).
    destruct (cl_run_sim ltb zero top bot (fun g p => nth p (k_adj g) [])
                (fun g g' p Ha _ => f_equal (fun a => nth p a []) Ha) true force n
                (set_adj g1 P (k_nplat g1)) (set_adj g2 P (k_nplat g1))) as [_ [rem C]];
      unfold set_adj, score, ul, wl; knn_cbn; try assumption; try congruence.
    exists rem. exact C.
  Qed.

  Theorem clustering_unsup_sim k (g1 g2 : @knn W) :
    score g1 = score g2 ->
    length (k_pred g1) = length (k_label g1) -> length (k_pred g2) = length (k_label g1) ->
    length (k_root g1) = length (k_label g1) -> length (k_root g2) = length (k_label g1) ->
    k_plabel g1 = k_plabel g2 -> length (k_clabel g1) = length (k_clabel g2) ->
    k_nclusters (clustering_unsup ltb zero top bot k g1) = k_nclusters (clustering_unsup ltb zero top bot k g2) /\
    exists rem, csim false (k_order g1) (k_order g2) rem
                     (clustering_unsup ltb zero top bot k g1) (clustering_unsup ltb zero top bot k g2).
  Proof.
    intros Hs L1 L2 L3 L4 Hc Hl. unfold clustering_unsup.
    pose proof Hs as Hs'. unfold score in Hs'. injection Hs' as E1 E2 E3 E4 E5 E6 E7.
    rewrite <- E1, <- E2, <- E4, <- E5.
    set (n := length (k_label g1)) in *.
    destruct (plateau_unsup ltb zero k n (k_dens g1) (k_adj g1) (k_nplat g1)) as [adj nps].
    destruct (cl_run_sim ltb zero top bot (fun g p => firstn (nth p (k_nplat g) 0 + k) (nth p (k_adj g) []))
                (fun g g' p Ha Hn => eq_trans (f_equal (fun a => firstn (nth p (k_nplat g) 0 + k) (nth p a [])) Ha)
                                              (f_equal (fun a => firstn (nth p a 0 + k) (nth p (k_adj g') [])) Hn))
                false false n (set_adj g1 adj nps) (set_adj g2 adj nps)) as [El [rem C]];
      unfold set_adj, score, ul, wl; knn_cbn; try assumption; try congruence.
    unfold set_adj in El, C.
    destruct (cl_run ltb zero top bot false false (fun g p => firstn (nth p (k_nplat g) 0 + k) (nth p (k_adj g) [])) n
                (mkKnn (k_label g1) adj (k_radius g1) nps (k_dens g1) (k_cost g1) (k_pred g1) (k_root g1) (k_plabel g1)
                       (k_clabel g1) (k_order g1) (k_gdens g1) (k_nclusters g1))) as [r1 l1].
    destruct (cl_run ltb zero top bot false false (fun g p => firstn (nth p (k_nplat g) 0 + k) (nth p (k_adj g) [])) n
                (mkKnn (k_label g2) adj (k_radius g2) nps (k_dens g2) (k_cost g2) (k_pred g2) (k_root g2) (k_plabel g2)
                       (k_clabel g2) (k_order g2) (k_gdens g2) (k_nclusters g2))) as [r2 l2].
    cbn [fst snd] in El, C. knn_cbn. split; [exact El|]. exists rem.
    destruct C as [Cc Cu Cl Co1 Co2 Clab]. knn_cbn_in Co1. knn_cbn_in Co2.
    constructor; unfold dcore, ul, wl in *; knn_cbn; assumption.
  Qed.
End ClusteringSim.
