(* Heap.dad in binary64.  /repo/opfython/core/heap.py:  def dad(self, i): return int((i - 1) / 2)
   Python's true division of the int [i - 1] by the int [2], then truncation toward zero.
   [fdad i] is that expression on Coq's primitive floats with both integers converted first ([float_ofZ],
   Base/NumOps.v).  For 0 <= i <= 2^53 both conversions are exact, the quotient (i-1)/2 is a dyadic number with
   a numerator of fewer than 54 bits and exponent -1, hence representable: the division does not round, and the
   truncation toward zero of the exact value is the natural-number division [Heap.dad] (with dad 0 = 0 as
   int(-0.5) = 0).  Uses the operation bridge of Proofs/Binary64Ops.v. *)
From Coq Require Import Reals ZArith Lia Lra Floats Arith.
From Flocq Require Import Core.
From OPF Require Import Base.NumOps Model.Heap Model.Binary64 Model.Binary64Dad Proofs.Binary64 Proofs.Binary64Ops.
Local Open Scope R_scope.

(* halves of integers below 2^53 in magnitude are binary64 numbers *)
Lemma half_format_FLT z : (Z.abs z < 2 ^ 53)%Z -> generic_format radix2 (FLT_exp (-1074) 53) (IZR z / 2).
Proof.
  intros H. apply generic_format_FLT. apply FLT_spec with (Float radix2 z (-1)).
  - unfold F2R. cbn [Fnum Fexp]. change (bpow radix2 (-1)) with (/ 2). reflexivity.
  - exact H.
  - cbn [Fexp]. lia.
Qed.

Lemma rnd64_half z : (Z.abs z < 2 ^ 53)%Z -> rnd64 (IZR z / 2) = IZR z / 2.
Proof. intros H. apply round_generic; [auto with typeclass_instances | now apply half_format_FLT]. Qed.

Lemma fits64_half z : (Z.abs z <= 2 ^ 53)%Z -> fits64 (IZR z / 2).
Proof.
  intros H. apply rnd64_lt_overflow.
  assert (A : Rabs (IZR z) <= bpow radix2 53).
  { rewrite <- abs_IZR. change (bpow radix2 53) with (IZR (2 ^ 53)). now apply IZR_le. }
  unfold Rdiv. rewrite Rabs_mult, (Rabs_pos_eq (/ 2)) by lra.
  pose proof (Rabs_pos (IZR z)). lra.
Qed.

(* the float quotient: finite and EXACT *)
Lemma fdad_exact i : (0 <= i <= 2 ^ 53)%Z ->
  ffin (fdad i) = true /\ f2r (fdad i) = (IZR i - 1) / 2.
Proof.
  intros Hi. unfold fdad.
  destruct (f2r_float_ofZ (i - 1)) as [F1 E1]; [lia|].
  destruct (f2r_float_ofZ 2) as [F2 E2]; [lia|].
  destruct (f2r_div (float_ofZ (i - 1)) (float_ofZ 2) F1 F2) as [F E].
  - rewrite E2. lra.
  - rewrite E1, E2. apply fits64_half. lia.
  - split; [exact F|]. rewrite E, E1, E2, rnd64_half by lia. rewrite minus_IZR. reflexivity.
Qed.

(* int(.) of the exact value is natural-number division *)
Lemma dad_Z i : (0 <= i)%Z -> Z.of_nat (dad (Z.to_nat i)) = Z.quot (i - 1) 2.
Proof.
  intros Hi. unfold dad. rewrite Nat2Z.inj_div.
  destruct (Z.eq_dec i 0) as [->|N]; [reflexivity|].
  rewrite Nat2Z.inj_sub by lia. rewrite Z2Nat.id by lia.
  change (Z.of_nat 1) with 1%Z. change (Z.of_nat 2) with 2%Z.
  symmetry. apply Z.quot_div_nonneg; lia.
Qed.

Lemma dad_trunc i : (0 <= i)%Z -> Ztrunc ((IZR i - 1) / 2) = Z.of_nat (dad (Z.to_nat i)).
Proof.
  intros Hi. rewrite dad_Z by exact Hi. rewrite <- (Ztrunc_div (i - 1) 2) by lia.
  rewrite minus_IZR. reflexivity.
Qed.

Lemma fdad_correct i : (0 <= i <= 2 ^ 53)%Z ->
  ffin (fdad i) = true /\ f2r (fdad i) = (IZR i - 1) / 2 /\
  Ztrunc (f2r (fdad i)) = Z.of_nat (dad (Z.to_nat i)).
Proof.
  intros Hi. destruct (fdad_exact i Hi) as [F E].
  split; [exact F|]. split; [exact E|]. rewrite E. apply dad_trunc. lia.
Qed.

Lemma fdad_correct_nat (n : nat) : (Z.of_nat n <= 2 ^ 53)%Z ->
  ffin (fdad (Z.of_nat n)) = true /\ f2r (fdad (Z.of_nat n)) = (INR n - 1) / 2 /\
  Ztrunc (f2r (fdad (Z.of_nat n))) = Z.of_nat (dad n).
Proof.
  intros Hn. destruct (fdad_correct (Z.of_nat n)) as [F [E T]]; [lia|].
  rewrite Nat2Z.id in T. rewrite INR_IZR_INZ. auto.
Qed.

(* ---- the boundary ---- *)
(* 2^53 + 1 is the first positive integer that is not a binary64 number: the conversion of i - 1 is inexact for
   the first time at i = 2^53 + 2 (it returns 2^53, ties to even). *)
Lemma float_ofZ_2p53_1 : float_ofZ (2 ^ 53 + 1) = float_ofZ (2 ^ 53).
Proof. vm_compute. reflexivity. Qed.

Lemma conv_limit : f2r (float_ofZ (2 ^ 53 + 1)) = IZR (2 ^ 53) /\ f2r (float_ofZ (2 ^ 53 + 1)) <> IZR (2 ^ 53 + 1).
Proof.
  rewrite float_ofZ_2p53_1. destruct (f2r_float_ofZ (2 ^ 53)) as [_ E]; [lia|].
  rewrite E. split; [reflexivity|]. intros H. apply eq_IZR in H. lia.
Qed.

(* At i = 2^53 + 2 the quotient is no longer the exact one, but its truncation is still dad i (2^52); the first
   index at which the float expression returns a wrong parent is i = 2^53 + 4: i - 1 = 2^53 + 3 converts to
   2^53 + 4, the float quotient is 2^52 + 2, while dad i = 2^52 + 1. *)
Lemma fdad_2p53_2 : fdad (2 ^ 53 + 2) = float_ofZ (2 ^ 52).
Proof. vm_compute. reflexivity. Qed.

Lemma fdad_2p53_4 : fdad (2 ^ 53 + 4) = float_ofZ (2 ^ 52 + 2).
Proof. vm_compute. reflexivity. Qed.

Lemma fdad_limit :
  f2r (float_ofZ ((2 ^ 53 + 2) - 1)) <> IZR ((2 ^ 53 + 2) - 1) /\
  f2r (fdad (2 ^ 53 + 2)) <> (IZR (2 ^ 53 + 2) - 1) / 2 /\
  Ztrunc (f2r (fdad (2 ^ 53 + 2))) = Z.of_nat (dad (Z.to_nat (2 ^ 53 + 2))) /\
  Ztrunc (f2r (fdad (2 ^ 53 + 4))) = (2 ^ 52 + 2)%Z /\
  Z.of_nat (dad (Z.to_nat (2 ^ 53 + 4))) = (2 ^ 52 + 1)%Z.
Proof.
  split; [exact (proj2 conv_limit)|].
  rewrite fdad_2p53_2, fdad_2p53_4.
  destruct (f2r_float_ofZ (2 ^ 52)) as [_ E2]; [lia|].
  destruct (f2r_float_ofZ (2 ^ 52 + 2)) as [_ E4]; [lia|].
  rewrite E2, E4, !Ztrunc_IZR, !dad_Z by lia.
  split.
  - intros H. rewrite <- minus_IZR in H.
    assert (H' : IZR (2 * 2 ^ 52) = IZR (2 ^ 53 + 2 - 1)) by (rewrite mult_IZR, H; field).
    apply eq_IZR in H'. lia.
  - split; [|split]; reflexivity.
Qed.

(* ---- non-vacuity ---- *)
Lemma fdad_examples :
  fdad 7 = float_ofZ 3 /\ Ztrunc (f2r (fdad 7)) = 3%Z /\ dad 7 = 3%nat /\
  fdad 0 = PrimFloat.opp (PrimFloat.div (float_ofZ 1) (float_ofZ 2)) /\ Ztrunc (f2r (fdad 0)) = 0%Z /\ dad 0 = 0%nat /\
  Ztrunc (f2r (fdad (2 ^ 53))) = (2 ^ 52 - 1)%Z.
Proof.
  split; [vm_compute; reflexivity|].
  destruct (fdad_correct 7) as [_ [_ T7]]; [lia|].
  destruct (fdad_correct 0) as [_ [_ T0]]; [lia|].
  destruct (fdad_correct (2 ^ 53)) as [_ [_ T53]]; [lia|].
  rewrite T7, T0, T53, !dad_Z by lia.
  repeat split; vm_compute; reflexivity.
Qed.
