(* The final training stage of KNNSupervisedOPF.fit / UnsupervisedOPF.fit (Model/KnnFit.v) at
   [RndOps rnd]: reals with a rounding after every arithmetic operation (Base/NumOpsRnd.v).

   Composition of
     - the arcs part of the exact pipeline (Proofs/KnnPipeline.v): create_arcs only compares, so the
       adjacency is THE SAME graph as at [ROps] (nltb (RndOps rnd) = Rltb);
     - the float-level facts about calculate_pdf (Proofs/PdfRnd.v);
     - the order-only clustering theorems for an arbitrary strict total order (Proofs/LiftCluster.v =
       Props/C13_anyorder.v) at W := R, ltb := Rltb.

   Hypotheses on the rounding function only: [rounding rnd], [rnd 1 = 1], [rnd_idem rnd], a relative
   bound [rnd x <= 2 x] on x >= 0 (it bounds every density by 7994) and
       [forall t, 1 <= t <= 7994 -> rnd t = t -> rnd (t - 1) < t]
   ("subtracting 1 from a representable t in [1, 7994] does not round back up to t"; it follows from
   "the integers 0..7993 are representable", [gap_of_integers]).  binary64 has all of them.

   Which clauses of the exact theorem (Props/C13_pipeline.v) survive:
     verbatim   every order-only clause (labels, order, links, roots, cluster ids), and
                cost q = Rmin (cost p) (dens q)   (min is exact),
                cost r = dens r at roots, cost q <= cost r,
                dens q - 1 < cost q   and   dens q < dens r + 1   (through monotonicity + idempotence);
     weakened   1 <= dens q <= 1000  becomes  1 <= dens q <= 7994 (MAX_DENSITY can be exceeded,
                PdfRndExample.cost_lt_density_model_limit),
                the affine formula becomes the rounded expression tree and weak monotonicity,
                initial cost = dens - 1  becomes  rnd (dens - 1), only used through the two clauses above. *)
From Coq Require Import Reals List Arith Bool ZArith Lia Lra Permutation.
From OPF Require Import Base.Lists Base.NumOps Base.NumOpsRnd Base.TotalOrder Model.Heap Model.Knn Model.Pdf
  Model.KnnFit Model.MetricRnd Spec.Paths Spec.Trees Proofs.PdfBase Proofs.LiftCluster Proofs.KnnPipeline
  Proofs.KnnPipelineMain Proofs.PdfRndBase Proofs.PdfRnd.
Import ListNotations.
Local Open Scope R_scope.

(* the unit-gap hypothesis from representable integers *)
Lemma gap_of_integers (rnd : R -> R) (M : Z) :
  rounding rnd -> (forall z, (0 <= z <= M)%Z -> rnd (IZR z) = IZR z) ->
  forall t, 1 <= t <= IZR M + 1 -> rnd t = t -> rnd (t - 1) < t.
Proof. intros RND HZ t Ht _. exact (cmap_lt_integers rnd RND M t HZ Ht). Qed.

(* ---------- arcs_and_pdf at RndOps = the arcs of the exact run + the rounded pdf ---------- *)

Lemma arcs_and_pdf_rnd_shape rnd fmax thr one k labels gdens0 d e g2 c mn mx :
  arcs_and_pdf (RndOps rnd) fmax thr one 1000 k d e (fit_start (RndOps rnd) labels gdens0) = (g2, (c, mn, mx)) ->
  exists g2R cR mnR mxR dc,
    arcs_and_pdf ROps fmax thr one 1000 k d e (fit_start ROps labels gdens0) = (g2R, (cR, mnR, mxR)) /\
    calculate_pdf (RndOps rnd) fmax 1000 (length labels) k (k_gdens g2R)
                  (fun i l => e i (nth l (nth i (k_adj g2R) []) 0%nat)) = (c, mn, mx, dc) /\
    k_label g2 = k_label g2R /\ k_adj g2 = k_adj g2R /\ k_nplat g2 = k_nplat g2R /\
    k_pred g2 = k_pred g2R /\ k_root g2 = k_root g2R /\ k_plabel g2 = k_plabel g2R /\
    k_clabel g2 = k_clabel g2R /\ k_order g2 = k_order g2R /\
    k_dens g2 = map fst dc /\ k_cost g2 = map snd dc.
Proof.
  intro Hfit. unfold arcs_and_pdf in *.
  change (fit_start (RndOps rnd) labels gdens0) with (fit_start ROps labels gdens0) in Hfit.
  change (nltb (RndOps rnd)) with (nltb ROps) in Hfit.
  change (fzero (RndOps rnd)) with (fzero ROps) in Hfit.
  change (length (k_label (fit_start ROps labels gdens0))) with (length labels) in *.
  destruct (create_arcs (nltb ROps) (fzero ROps) fmax thr one k (length labels) d (fit_start ROps labels gdens0))
    as [g1 mxd].
  destruct (calculate_pdf (RndOps rnd) fmax 1000 (length labels) k (k_gdens g1)
              (fun i l => e i (nth l (nth i (k_adj g1) []) 0%nat))) as [[[c' mn'] mx'] dc] eqn:Hc.
  destruct (calculate_pdf ROps fmax 1000 (length labels) k (k_gdens g1)
              (fun i l => e i (nth l (nth i (k_adj g1) []) 0%nat))) as [[[cR mnR] mxR] dcR].
  injection Hfit as Hg E1 E2 E3. subst c' mn' mx' g2.
  eexists _, cR, mnR, mxR, dc. split; [reflexivity|].
  cbn [k_label k_adj k_radius k_nplat k_dens k_cost k_pred k_root k_plabel k_clabel k_order k_gdens k_nclusters].
  split; [exact Hc|]. repeat (split; [reflexivity|]). reflexivity.
Qed.

(* ---------- what the clustering routines receive ---------- *)

Record fit_graph_rnd (rnd : R -> R) (fmax : R) (k : nat) (labels : list nat) (d e : nat -> nat -> R)
       (g2 : @knn R) (mn mx : R) : Prop := {
  fr_label : k_label g2 = labels;
  fr_dens_len : length (k_dens g2) = length labels;
  fr_cost_len : length (k_cost g2) = length labels;
  fr_pred_len : length (k_pred g2) = length labels;
  fr_root_len : length (k_root g2) = length labels;
  fr_plabel_len : length (k_plabel g2) = length labels;
  fr_clabel_len : length (k_clabel g2) = length labels;
  fr_order : k_order g2 = [];
  fr_nplat : k_nplat g2 = repeat 0%nat (length labels);
  fr_adj_len : length (k_adj g2) = length labels;
  fr_adj : forall i, (i < length labels)%nat ->
    let a := nth i (k_adj g2) [] in
    length a = Nat.min k (length labels - 1) /\ NoDup a /\ ~ In i a /\
    (forall j, In j a -> (j < length labels)%nat) /\
    (forall x y, (x <= y)%nat -> (y < length a)%nat -> d i (nth x a 0%nat) <= d i (nth y a 0%nat)) /\
    (forall j, (j < length labels)%nat -> j <> i -> ~ In j a -> forall x, In x a -> d i x <= d i j);
  fr_adj_lt : forall p q, In q (nth p (k_adj g2) []) -> (q < length labels)%nat;
  (* float-level density facts *)
  fr_dens : forall i, (i < length labels)%nat -> 1 <= nth i (k_dens g2) 0 <= 7994;
  fr_cost_nonneg : forall i, (i < length labels)%nat -> 0 <= nth i (k_cost g2) 0;
  fr_cost_lt : forall i, (i < length labels)%nat -> nth i (k_cost g2) 0 < nth i (k_dens g2) 0;
  fr_flat : mn = mx -> forall i, (i < length labels)%nat ->
    nth i (k_dens g2) 0 = 1000 /\ nth i (k_cost g2) 0 = 999;
  fr_tree : mn <> mx -> forall i, (i < length labels)%nat ->
    rnd (nth i (k_dens g2) 0) = nth i (k_dens g2) 0 /\
    nth i (k_cost g2) 0 = rnd (nth i (k_dens g2) 0 - 1);
  fr_pdf :
    let p i := pdf_value (RndOps rnd) k (fun l => e i (nth l (nth i (k_adj g2) []) 0%nat)) in
    (forall i, (i < length labels)%nat -> mn <= p i <= mx) /\
    (mn <> mx -> forall i, (i < length labels)%nat ->
       nth i (k_dens g2) 0 = rnd (rnd (rnd (999 * rnd (p i - mn)) / rnd (mx - mn)) + 1)) /\
    (forall i j, (i < length labels)%nat -> (j < length labels)%nat ->
       (p i <= p j -> nth i (k_dens g2) 0 <= nth j (k_dens g2) 0) /\
       (nth i (k_dens g2) 0 < nth j (k_dens g2) 0 -> p i < p j)) /\
    (mn <> mx -> forall i, (i < length labels)%nat -> p i = mn -> nth i (k_dens g2) 0 = 1) /\
    ((1 <= length labels)%nat -> 0 <= fmax ->
     (forall i j, (i < length labels)%nat -> (j < length labels)%nat -> 0 <= e i j) ->
     (forall i, (i < length labels)%nat -> p i <= fmax) ->
     (exists i, (i < length labels)%nat /\ mn = p i) /\
     (exists i, (i < length labels)%nat /\ mx = p i) /\ 0 <= mn /\ mn <= mx)
}.

Section Pipeline.
  Variable rnd : R -> R.
  Hypothesis RND : rounding rnd.
  Hypothesis ONE : rnd 1 = 1.
  Hypothesis IDEM : rnd_idem rnd.
  Hypothesis REL : forall x, 0 <= x -> rnd x <= 2 * x.
  Hypothesis GAP : forall t, 1 <= t <= 7994 -> rnd t = t -> rnd (t - 1) < t.

  Theorem fit_graph_rnd_holds (fmax thr one gdens0 : R) (k : nat) (labels : list nat) (d e : nat -> nat -> R)
          (g2 : @knn R) (c mn mx : R) :
    (forall i j, (i < length labels)%nat -> (j < length labels)%nat -> i <> j -> 0 <= d i j < fmax) ->
    arcs_and_pdf (RndOps rnd) fmax thr one 1000 k d e (fit_start (RndOps rnd) labels gdens0) = (g2, (c, mn, mx)) ->
    fit_graph_rnd rnd fmax k labels d e g2 mn mx.
  Proof.
    intros Hd Hfit. set (n := length labels) in *.
    destruct (arcs_and_pdf_rnd_shape _ _ _ _ _ _ _ _ _ _ _ _ _ Hfit)
      as (g2R & cR & mnR & mxR & dc & HfitR & Hcalc & E1 & E2 & E3 & E4 & E5 & E6 & E7 & E8 & E9 & E10).
    fold n in Hcalc.
    pose proof (fit_graph_holds fmax thr one gdens0 k labels d e g2R cR mnR mxR Hd HfitR) as FG.
    destruct FG as [Glab _ _ Gpl Grl Gql Gel Gord Gnp Gal Gadj Galt _ _ _]. fold n in Gpl, Grl, Gql, Gel, Gnp, Gal, Gadj, Galt.
    pose proof (rnd_dc_length rnd fmax n k _ _ c mn mx dc Hcalc) as Hdl.
    assert (Hde : forall i, nth i (k_dens g2) 0 = fst (nth i dc (0, 0))) by (intro i; rewrite E9; apply nth_map_fst).
    assert (Hco : forall i, nth i (k_cost g2) 0 = snd (nth i dc (0, 0))) by (intro i; rewrite E10; apply nth_map_snd).
    assert (Hup : forall i, (i < n)%nat -> fst (nth i dc (0, 0)) <= 7994)
      by (intros i Hi; exact (rnd_density_upper rnd RND fmax n k _ _ c mn mx dc Hcalc i REL Hi)).
    assert (Hlo : forall i, (i < n)%nat -> 1 <= fst (nth i dc (0, 0)))
      by (intros i Hi; exact (rnd_density_ge_1 rnd RND fmax n k _ _ c mn mx dc Hcalc i ONE Hi)).
    constructor; fold n.
    - now rewrite E1.
    - now rewrite E9, map_length.
    - now rewrite E10, map_length.
    - now rewrite E4.
    - now rewrite E5.
    - now rewrite E6.
    - now rewrite E7.
    - now rewrite E8.
    - now rewrite E3.
    - now rewrite E2.
    - rewrite E2. exact Gadj.
    - rewrite E2. exact Galt.
    - intros i Hi. rewrite Hde. split; [now apply Hlo|now apply Hup].
    - intros i Hi. rewrite Hco. exact (rnd_cost_nonneg rnd RND fmax n k _ _ c mn mx dc Hcalc i ONE Hi).
    - intros i Hi. rewrite Hco, Hde. destruct (Req_dec mn mx) as [He|Hne].
      + destruct (rnd_density_flat rnd fmax n k _ _ c mn mx dc Hcalc i He Hi) as [Ed Ec]. rewrite Ed, Ec. lra.
      + destruct (rnd_density_tree rnd fmax n k _ _ c mn mx dc Hcalc i Hne Hi) as [_ Ec]. rewrite Ec.
        apply GAP; [split; [now apply Hlo|now apply Hup]|].
        exact (rnd_density_fixed_ne rnd fmax n k _ _ c mn mx dc Hcalc i IDEM Hne Hi).
    - intros He i Hi. rewrite Hco, Hde. exact (rnd_density_flat rnd fmax n k _ _ c mn mx dc Hcalc i He Hi).
    - intros Hne i Hi. rewrite Hco, !Hde. split.
      + exact (rnd_density_fixed_ne rnd fmax n k _ _ c mn mx dc Hcalc i IDEM Hne Hi).
      + exact (proj2 (rnd_density_tree rnd fmax n k _ _ c mn mx dc Hcalc i Hne Hi)).
    - cbv zeta. rewrite E2.
      split; [intros i Hi; split;
              [exact (rnd_min_lower rnd fmax n k _ _ c mn mx dc Hcalc i Hi)
              |exact (rnd_max_upper rnd fmax n k _ _ c mn mx dc Hcalc i Hi)]|].
      split; [intros Hne i Hi; rewrite Hde;
              exact (proj1 (rnd_density_tree rnd fmax n k _ _ c mn mx dc Hcalc i Hne Hi))|].
      split.
      { intros i j Hi Hj. rewrite !Hde. split.
        - exact (rnd_density_mono rnd RND fmax n k _ _ c mn mx dc Hcalc i j Hi Hj).
        - exact (rnd_density_lt_inv rnd RND fmax n k _ _ c mn mx dc Hcalc i j Hi Hj). }
      split; [intros Hne i Hi Hp; rewrite Hde;
              exact (rnd_density_min_to_1 rnd RND fmax n k _ _ c mn mx dc Hcalc i ONE Hne Hi Hp)|].
      intros Hn Hf He Hp.
      assert (Hlt : forall p q, In q (nth p (k_adj g2R) []) -> (q < n)%nat) by exact Galt.
      assert (He' : forall i l, (i < n)%nat -> (l < k)%nat -> 0 <= e i (nth l (nth i (k_adj g2R) []) 0%nat)).
      { intros i l Hi _. apply He; [exact Hi|].
        destruct (Nat.lt_ge_cases l (length (nth i (k_adj g2R) []))) as [Hl|Hl].
        - apply (Hlt i). now apply nth_In.
        - rewrite nth_overflow by exact Hl. exact Hn. }
      pose proof (rnd_bounds_of_nonneg rnd RND fmax n k _ Hf He' Hp) as Hb.
      destruct (rnd_min_attained rnd fmax n k _ _ c mn mx dc Hcalc Hn Hb) as (i1 & Hi1 & Emn).
      destruct (rnd_max_attained rnd fmax n k _ _ c mn mx dc Hcalc Hn Hb) as (i2 & Hi2 & Emx).
      split; [exists i1; split; [exact Hi1|exact Emn]|].
      split; [exists i2; split; [exact Hi2|exact Emx]|].
      split.
      + rewrite Emn. apply pdfv_nonneg; [exact RND|]. intros l Hl. now apply He'.
      + exact (rnd_min_le_max rnd fmax n k _ _ c mn mx dc Hcalc Hn).
  Qed.

  (* ---------- consequences used below ---------- *)

  Lemma fr_cost_lt_dens fmax k labels d e g2 mn mx :
    fit_graph_rnd rnd fmax k labels d e g2 mn mx ->
    forall i, (i < length labels)%nat -> Rltb (nth i (k_cost g2) 0) (nth i (k_dens g2) 0) = true.
  Proof. intros FG i Hi. apply Rltb_true_iff. exact (fr_cost_lt _ _ _ _ _ _ _ _ _ FG i Hi). Qed.

  Lemma fr_bot_lt_cost fmax k labels d e g2 mn mx :
    0 < fmax -> fit_graph_rnd rnd fmax k labels d e g2 mn mx ->
    forall i, (i < length labels)%nat -> Rltb (fbot (RndOps rnd) fmax) (nth i (k_cost g2) 0) = true.
  Proof.
    intros Hf FG i Hi. apply Rltb_true_iff. pose proof (fr_cost_nonneg _ _ _ _ _ _ _ _ _ FG i Hi) as H0.
    change (fbot (RndOps rnd) fmax) with (rnd (0 - fmax)).
    assert (rnd (0 - fmax) < 0) by (apply (rnd_neg _ RND); lra). lra.
  Qed.

  (* "initial cost < x" gives "density - 1 < x" for every representable x: no inversion by rounding *)
  Lemma fr_gap fmax k labels d e g2 mn mx :
    fit_graph_rnd rnd fmax k labels d e g2 mn mx ->
    forall i x, (i < length labels)%nat -> (mn <> mx -> rnd x = x) ->
    nth i (k_cost g2) 0 < x -> nth i (k_dens g2) 0 - 1 < x.
  Proof.
    intros FG i x Hi Hx Hc. destruct (Req_dec mn mx) as [He|Hne].
    - destruct (fr_flat _ _ _ _ _ _ _ _ _ FG He i Hi) as [Ed Ec]. rewrite Ed. rewrite Ec in Hc. lra.
    - destruct (fr_tree _ _ _ _ _ _ _ _ _ FG Hne i Hi) as [_ Ec]. rewrite Ec in Hc.
      rewrite <- (Hx Hne) in Hc. exact (rnd_lt_inv rnd RND _ _ Hc).
  Qed.

  (* the final cost of every node is one of the densities on its root path, hence representable *)
  Lemma cost_fixed_along (pred : nat -> option nat) (cost' dens : nat -> R) (n : nat) :
    (forall q, (q < n)%nat -> rnd (dens q) = dens q) ->
    (forall q, (q < n)%nat ->
       match pred q with
       | None => cost' q = dens q
       | Some p => (p < n)%nat /\ cost' q = Rmin (cost' p) (dens q)
       end) ->
    forall q r j, reaches pred q r j -> (q < n)%nat -> pred r = None -> rnd (cost' q) = cost' q.
  Proof.
    intros Hd Hl q r j Hr. induction Hr as [q|q p r j Hp Hr IH]; intros Hq Hroot.
    - specialize (Hl q Hq). rewrite Hroot in Hl. rewrite Hl. now apply Hd.
    - specialize (Hl q Hq). rewrite Hp in Hl. destruct Hl as [Hpn Ec]. rewrite Ec.
      unfold Rmin. destruct (Rle_dec (cost' p) (dens q)); [now apply IH|now apply Hd].
  Qed.

  Definition knn_graph_rnd (fmax : R) (k n : nat) (d e : nat -> nat -> R) (dens : nat -> R) (mn mx : R)
             (adj0 : list (list nat)) : Prop :=
    length adj0 = n /\
    (forall i, (i < n)%nat ->
       let a := nth i adj0 [] in
       length a = Nat.min k (n - 1) /\ NoDup a /\ ~ In i a /\ (forall j, In j a -> (j < n)%nat) /\
       (forall x y, (x <= y)%nat -> (y < length a)%nat -> d i (nth x a 0%nat) <= d i (nth y a 0%nat)) /\
       (forall j, (j < n)%nat -> j <> i -> ~ In j a -> forall x, In x a -> d i x <= d i j)) /\
    let p := fun i => pdf_value (RndOps rnd) k (fun l => e i (nth l (nth i adj0 []) 0%nat)) in
    (forall i, (i < n)%nat -> mn <= p i <= mx) /\
    (mn = mx -> forall i, (i < n)%nat -> dens i = 1000) /\
    (mn <> mx -> forall i, (i < n)%nat ->
       dens i = rnd (rnd (rnd (999 * rnd (p i - mn)) / rnd (mx - mn)) + 1)) /\
    (forall i j, (i < n)%nat -> (j < n)%nat ->
       (p i <= p j -> dens i <= dens j) /\ (dens i < dens j -> p i < p j)) /\
    (mn <> mx -> forall i, (i < n)%nat -> p i = mn -> dens i = 1) /\
    ((1 <= n)%nat -> 0 <= fmax ->
     (forall i j, (i < n)%nat -> (j < n)%nat -> 0 <= e i j) ->
     (forall i, (i < n)%nat -> p i <= fmax) ->
     (exists i, (i < n)%nat /\ mn = p i) /\ (exists i, (i < n)%nat /\ mx = p i) /\ 0 <= mn /\ mn <= mx).

  Lemma fit_graph_rnd_knn_graph fmax k labels d e g2 mn mx :
    fit_graph_rnd rnd fmax k labels d e g2 mn mx ->
    knn_graph_rnd fmax k (length labels) d e (fun q => nth q (k_dens g2) 0) mn mx (k_adj g2).
  Proof.
    intros FG. pose proof (fr_pdf _ _ _ _ _ _ _ _ _ FG) as P. cbv zeta in P.
    destruct P as (P1 & P2 & P3 & P4 & P5).
    unfold knn_graph_rnd. split; [exact (fr_adj_len _ _ _ _ _ _ _ _ _ FG)|].
    split; [exact (fr_adj _ _ _ _ _ _ _ _ _ FG)|]. cbv zeta.
    split; [exact P1|].
    split; [intros He i Hi; exact (proj1 (fr_flat _ _ _ _ _ _ _ _ _ FG He i Hi))|].
    split; [exact P2|]. split; [exact P3|]. split; [exact P4|exact P5].
  Qed.

  (* ------------------------------------------------------------------ *)
  (* KNNSupervisedOPF                                                     *)
  (* ------------------------------------------------------------------ *)

  Theorem knn_sup_final_forest_rnd :
    forall (fmax thr one gdens0 : R) (k : nat) (labels : list nat) (d e : nat -> nat -> R),
      let n := length labels in
      0 < fmax ->
      (forall i j, (i < n)%nat -> (j < n)%nat -> i <> j -> 0 <= d i j < fmax) ->
      forall (g' : @knn R) (c mn mx : R),
      knn_sup_final (RndOps rnd) fmax thr one 1000 k labels gdens0 d e = (g', (c, mn, mx)) ->
      let pred := fun q => nth q (k_pred g') None in
      let root := fun q => nth q (k_root g') 0%nat in
      let cost := fun q => nth q (k_cost g') 0 in
      let dens := fun q => nth q (k_dens g') 0 in
      let plabel := fun q => nth q (k_plabel g') 0%nat in
      let label := fun q => nth q labels 0%nat in
      let adj := fun q => nth q (k_adj g') [] in
      k_label g' = labels /\
      Permutation (k_order g') (seq 0 n) /\
      (forall q, (q < n)%nat -> 1 <= dens q <= 7994) /\
      (exists adj0 : list (list nat),
         knn_graph_rnd fmax k n d e dens mn mx adj0 /\
         k_adj g' = plateau_sup Rltb 0 n (k_dens g') adj0) /\
      (forall q, (q < n)%nat ->
         match pred q with
         | None => root q = q /\ cost q = dens q /\ plabel q = label q
         | Some p => (p < n)%nat /\ before (k_order g') p q /\ In q (adj p) /\
                     root q = root p /\ cost q = Rmin (cost p) (dens q) /\
                     dens q - 1 < cost q /\ plabel q = plabel p /\ label p = label q
         end) /\
      (forall q, (q < n)%nat ->
         exists r j, (j < n)%nat /\ (r < n)%nat /\ reaches pred q r j /\ pred r = None /\
           (forall r', root_of pred q r' -> r' = r) /\
           root q = r /\ dens q - 1 < cost q /\ cost q <= cost r /\ cost r = dens r /\
           dens q < dens r + 1 /\
           plabel q = label r /\ label q = label r) /\
      (forall q, (q < n)%nat -> plabel q = label q).
  Proof.
    intros fmax thr one gdens0 k labels d e n Hfmax Hd g' c mn mx Hfin. subst n. cbv zeta.
    unfold knn_sup_final in Hfin.
    destruct (arcs_and_pdf (RndOps rnd) fmax thr one 1000 k d e (fit_start (RndOps rnd) labels gdens0))
      as [g2 [[c' mn'] mx']] eqn:Hfit.
    injection Hfin as Hg0 Hc Hmn Hmx. subst c' mn' mx'.
    assert (Hg : clustering_sup Rltb 0 fmax (fbot (RndOps rnd) fmax) true g2 = g') by exact Hg0. clear Hg0.
    pose proof (fit_graph_rnd_holds fmax thr one gdens0 k labels d e g2 c mn mx Hd Hfit) as FG.
    pose proof (fit_graph_rnd_knn_graph _ _ _ _ _ _ _ _ FG) as KG.
    pose proof (fr_cost_lt_dens _ _ _ _ _ _ _ _ FG) as Hcd.
    pose proof (fr_bot_lt_cost _ _ _ _ _ _ _ _ Hfmax FG) as Hbot.
    pose proof (fr_gap _ _ _ _ _ _ _ _ FG) as Hgap.
    pose proof (fr_tree _ _ _ _ _ _ _ _ _ FG) as Gtree.
    destruct FG as [Glab Gdl Gcl Gpl Grl Gql Gel Gord Gnp Gal Gadj Galt Gdens _ _ _ _ _].
    assert (Hlab : length (k_label g2) = length labels) by now rewrite Glab.
    pose proof (clustering_sup_links_anyorder Rltb Rltb_order 0 fmax (fbot (RndOps rnd) fmax) g2 (length labels)
                  Hlab Gcl Gpl Grl Gql Gel Galt Hcd true (fun _ => Hbot)) as HL.
    pose proof (clustering_sup_forest_anyorder Rltb Rltb_order 0 fmax (fbot (RndOps rnd) fmax) g2 (length labels)
                  Hlab Gcl Gpl Grl Gql Gel Galt Hcd true (fun _ => Hbot)) as HF.
    cbv zeta in HL, HF. rewrite Hg in HL, HF. rewrite Glab in HL, HF.
    destruct HL as (Elab & Edens & Eadj & ord & Eord & Hperm & Hlinks).
    rewrite Gord in Eord. cbn [app] in Eord. subst ord.
    rewrite Edens.
    (* every final cost is representable (non-flat case) *)
    assert (Hfix : mn <> mx -> forall q, (q < length labels)%nat -> rnd (nth q (k_cost g') 0) = nth q (k_cost g') 0).
    { intros Hne q Hq. destruct (HF q Hq) as (r & j & _ & _ & F3 & F4 & _).
      apply (cost_fixed_along (fun q => nth q (k_pred g') None) (fun q => nth q (k_cost g') 0)
               (fun q => nth q (k_dens g2) 0) (length labels)) with (r := r) (j := j); auto.
      - intros q' Hq'. exact (proj1 (Gtree Hne q' Hq')).
      - intros q' Hq'. specialize (Hlinks q' Hq'). destruct (nth q' (k_pred g') None) as [p|].
        + destruct Hlinks as (A1 & _ & _ & _ & A5 & _). rewrite wmin_Rmin in A5. split; assumption.
        + destruct Hlinks as (_ & A2 & _). exact A2. }
    assert (Hlow : forall q, (q < length labels)%nat -> nth q (k_dens g2) 0 - 1 < nth q (k_cost g') 0).
    { intros q Hq. pose proof (Hlinks q Hq) as Hl. destruct (nth q (k_pred g') None) as [p|].
      - destruct Hl as (_ & _ & _ & _ & _ & A6 & _). apply Rltb_true_iff in A6.
        apply Hgap; [exact Hq| |exact A6]. intro Hne. now apply Hfix.
      - destruct Hl as (_ & A2 & _). rewrite A2. lra. }
    assert (Hforest : forall q, (q < length labels)%nat ->
              exists r j, (j < length labels)%nat /\ (r < length labels)%nat /\
                reaches (fun q => nth q (k_pred g') None) q r j /\ nth r (k_pred g') None = None /\
                (forall r', root_of (fun q => nth q (k_pred g') None) q r' -> r' = r) /\
                nth q (k_root g') 0%nat = r /\ nth q (k_dens g2) 0 - 1 < nth q (k_cost g') 0 /\
                nth q (k_cost g') 0 <= nth r (k_cost g') 0 /\ nth r (k_cost g') 0 = nth r (k_dens g2) 0 /\
                nth q (k_dens g2) 0 < nth r (k_dens g2) 0 + 1 /\
                nth q (k_plabel g') 0%nat = nth r labels 0%nat /\ nth q labels 0%nat = nth r labels 0%nat).
    { intros q Hq. destruct (HF q Hq) as (r & j & F1 & F2 & F3 & F4 & F5 & F6 & F7 & F8 & F9 & F10 & F11 & F12).
      exists r, j. apply Rltb_false_iff in F7. apply Rltb_true_iff in F9.
      assert (G : nth q (k_dens g2) 0 - 1 < nth r (k_dens g2) 0).
      { apply Hgap; [exact Hq| |exact F9]. intro Hne. exact (proj1 (Gtree Hne r F2)). }
      split; [exact F1|]. split; [exact F2|]. split; [exact F3|]. split; [exact F4|]. split; [exact F5|].
      split; [exact F6|]. split; [now apply Hlow|]. split; [exact F7|]. split; [exact F8|].
      split; [lra|]. split; [congruence|exact (F12 eq_refl)]. }
    split; [now rewrite Elab|]. split; [exact Hperm|]. split; [exact Gdens|].
    split; [exists (k_adj g2); split; [exact KG | exact Eadj]|].
    split; [|split; [exact Hforest|]].
    - intros q Hq. pose proof (Hlow q Hq) as Hl. specialize (Hlinks q Hq).
      destruct (nth q (k_pred g') None) as [p|]; [|exact Hlinks].
      destruct Hlinks as (A1 & A2 & A3 & A4 & A5 & A6 & A7 & A8).
      rewrite wmin_Rmin in A5.
      split; [exact A1|]. split; [exact A2|]. split; [exact A3|]. split; [exact A4|]. split; [exact A5|].
      split; [exact Hl|]. split; [exact A7 | exact (A8 eq_refl)].
    - intros q Hq. destruct (Hforest q Hq) as (r & j & _ & _ & _ & _ & _ & _ & _ & _ & _ & _ & P1 & P2).
      congruence.
  Qed.

  (* ------------------------------------------------------------------ *)
  (* UnsupervisedOPF                                                      *)
  (* ------------------------------------------------------------------ *)

  Theorem unsup_final_forest_rnd :
    forall (fmax thr one gdens0 : R) (k : nat) (labels : list nat) (d e : nat -> nat -> R),
      let n := length labels in
      (k <= n - 1)%nat ->
      0 < fmax ->
      (forall i j, (i < n)%nat -> (j < n)%nat -> i <> j -> 0 <= d i j < fmax) ->
      forall (g' : @knn R) (c mn mx : R),
      unsup_final (RndOps rnd) fmax thr one 1000 k labels gdens0 d e = (g', (c, mn, mx)) ->
      let pred := fun q => nth q (k_pred g') None in
      let root := fun q => nth q (k_root g') 0%nat in
      let cost := fun q => nth q (k_cost g') 0 in
      let dens := fun q => nth q (k_dens g') 0 in
      let clabel := fun q => nth q (k_clabel g') 0%nat in
      let adj := fun q => nth q (k_adj g') [] in
      let nplat := fun q => nth q (k_nplat g') 0%nat in
      let isroot := fun q => match pred q with None => true | Some _ => false end in
      k_label g' = labels /\
      Permutation (k_order g') (seq 0 n) /\
      (forall q, (q < n)%nat -> 1 <= dens q <= 7994) /\
      (exists adj0 : list (list nat),
         knn_graph_rnd fmax k n d e dens mn mx adj0 /\
         (forall i, (i < n)%nat -> length (nth i adj0 []) = k) /\
         (k_adj g', k_nplat g') = plateau_unsup Rltb 0 k n (k_dens g') adj0 (repeat 0%nat n)) /\
      (forall q, (q < n)%nat ->
         match pred q with
         | None => root q = q /\ cost q = dens q
         | Some p => (p < n)%nat /\ before (k_order g') p q /\ In q (firstn (nplat p + k) (adj p)) /\
                     root q = root p /\ cost q = Rmin (cost p) (dens q) /\
                     dens q - 1 < cost q /\ clabel q = clabel p
         end) /\
      (forall q, (q < n)%nat ->
         exists r j, (j < n)%nat /\ (r < n)%nat /\ reaches pred q r j /\ pred r = None /\
           (forall r', root_of pred q r' -> r' = r) /\
           root q = r /\ dens q - 1 < cost q /\ cost q <= cost r /\ cost r = dens r /\
           dens q < dens r + 1 /\
           clabel q = clabel r) /\
      k_nclusters g' = length (filter isroot (seq 0 n)) /\
      length (filter isroot (k_order g')) = k_nclusters g' /\
      (forall i, (i < k_nclusters g')%nat -> clabel (nth i (filter isroot (k_order g')) 0%nat) = i) /\
      (forall r, (r < n)%nat -> pred r = None -> (clabel r < k_nclusters g')%nat) /\
      (forall r r', (r < n)%nat -> (r' < n)%nat -> pred r = None -> pred r' = None ->
         clabel r = clabel r' -> r = r') /\
      (forall i, (i < k_nclusters g')%nat -> exists r, (r < n)%nat /\ pred r = None /\ clabel r = i) /\
      (forall q, (q < n)%nat -> (clabel q < k_nclusters g')%nat).
  Proof.
    intros fmax thr one gdens0 k labels d e n Hk Hfmax Hd g' c mn mx Hfin. subst n. cbv zeta.
    unfold unsup_final in Hfin.
    destruct (arcs_and_pdf (RndOps rnd) fmax thr one 1000 k d e (fit_start (RndOps rnd) labels gdens0))
      as [g2 [[c' mn'] mx']] eqn:Hfit.
    injection Hfin as Hg0 Hc Hmn Hmx. subst c' mn' mx'.
    assert (Hg : clustering_unsup Rltb 0 fmax (fbot (RndOps rnd) fmax) k g2 = g') by exact Hg0. clear Hg0.
    pose proof (fit_graph_rnd_holds fmax thr one gdens0 k labels d e g2 c mn mx Hd Hfit) as FG.
    pose proof (fit_graph_rnd_knn_graph _ _ _ _ _ _ _ _ FG) as KG.
    pose proof (fr_cost_lt_dens _ _ _ _ _ _ _ _ FG) as Hcd.
    pose proof (fr_gap _ _ _ _ _ _ _ _ FG) as Hgap.
    pose proof (fr_tree _ _ _ _ _ _ _ _ _ FG) as Gtree.
    destruct FG as [Glab Gdl Gcl Gpl Grl Gql Gel Gord Gnp Gal Gadj Galt Gdens _ _ _ _ _].
    assert (Hlab : length (k_label g2) = length labels) by now rewrite Glab.
    pose proof (clustering_unsup_links_anyorder Rltb Rltb_order 0 fmax (fbot (RndOps rnd) fmax) g2 (length labels)
                  Hlab Gcl Gpl Grl Gql Gel Galt Hcd k) as HL.
    pose proof (clustering_unsup_forest_anyorder Rltb Rltb_order 0 fmax (fbot (RndOps rnd) fmax) g2 (length labels)
                  Hlab Gcl Gpl Grl Gql Gel Galt Hcd k) as HF.
    pose proof (clustering_unsup_ids_anyorder Rltb Rltb_order 0 fmax (fbot (RndOps rnd) fmax) g2 (length labels)
                  Hlab Gcl Gpl Grl Gql Gel Galt Hcd k) as HI.
    cbv zeta in HL, HF, HI. rewrite Hg in HL, HF, HI.
    destruct HL as (Elab & Edens & Eadj & ord & Eord & Hperm & Hlinks).
    rewrite Gord in Eord. cbn [app] in Eord. subst ord.
    destruct HI as (I1 & (ord & Eord & _ & I2 & I3) & I4 & I5 & I6 & I7).
    rewrite Gord in Eord. cbn [app] in Eord. subst ord.
    rewrite Edens.
    assert (Hfix : mn <> mx -> forall q, (q < length labels)%nat -> rnd (nth q (k_cost g') 0) = nth q (k_cost g') 0).
    { intros Hne q Hq. destruct (HF q Hq) as (r & j & _ & _ & F3 & F4 & _).
      apply (cost_fixed_along (fun q => nth q (k_pred g') None) (fun q => nth q (k_cost g') 0)
               (fun q => nth q (k_dens g2) 0) (length labels)) with (r := r) (j := j); auto.
      - intros q' Hq'. exact (proj1 (Gtree Hne q' Hq')).
      - intros q' Hq'. specialize (Hlinks q' Hq'). destruct (nth q' (k_pred g') None) as [p|].
        + destruct Hlinks as (A1 & _ & _ & _ & A5 & _). rewrite wmin_Rmin in A5. split; assumption.
        + destruct Hlinks as (_ & A2). exact A2. }
    assert (Hlow : forall q, (q < length labels)%nat -> nth q (k_dens g2) 0 - 1 < nth q (k_cost g') 0).
    { intros q Hq. pose proof (Hlinks q Hq) as Hl. destruct (nth q (k_pred g') None) as [p|].
      - destruct Hl as (_ & _ & _ & _ & _ & A6 & _). apply Rltb_true_iff in A6.
        apply Hgap; [exact Hq| |exact A6]. intro Hne. now apply Hfix.
      - destruct Hl as (_ & A2). rewrite A2. lra. }
    split; [now rewrite Elab|]. split; [exact Hperm|]. split; [exact Gdens|].
    split.
    { exists (k_adj g2). split; [exact KG|]. split.
      - intros i Hi. rewrite (proj1 (Gadj i Hi)). apply Nat.min_l. exact Hk.
      - rewrite Eadj, Gnp. reflexivity. }
    split; [|split].
    - intros q Hq. pose proof (Hlow q Hq) as Hl. specialize (Hlinks q Hq).
      destruct (nth q (k_pred g') None) as [p|]; [|exact Hlinks].
      destruct Hlinks as (A1 & A2 & A3 & A4 & A5 & A6 & A7).
      rewrite wmin_Rmin in A5.
      split; [exact A1|]. split; [exact A2|]. split; [exact A3|]. split; [exact A4|]. split; [exact A5|].
      split; [exact Hl | exact A7].
    - intros q Hq. destruct (HF q Hq) as (r & j & F1 & F2 & F3 & F4 & F5 & F6 & F7 & F8 & F9 & F10).
      exists r, j. apply Rltb_false_iff in F7. apply Rltb_true_iff in F9.
      assert (G : nth q (k_dens g2) 0 - 1 < nth r (k_dens g2) 0).
      { apply Hgap; [exact Hq| |exact F9]. intro Hne. exact (proj1 (Gtree Hne r F2)). }
      split; [exact F1|]. split; [exact F2|]. split; [exact F3|]. split; [exact F4|]. split; [exact F5|].
      split; [exact F6|]. split; [now apply Hlow|]. split; [exact F7|]. split; [exact F8|].
      split; [lra|exact F10].
    - repeat (split; [assumption|]). exact I7.
  Qed.
End Pipeline.
