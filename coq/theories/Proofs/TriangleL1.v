(* Triangle inequality: manhattan, gower, non_intersection, hamming, lorentzian, chebyshev. *)
From Coq Require Import Reals List Lra Lia.
From OPF Require Import Spec.MetricSpec Proofs.TriangleLemmas.
Import ListNotations.
Open Scope R_scope.

Lemma Rabs_sub_triang a b c : Rabs (a - c) <= Rabs (a - b) + Rabs (b - c).
Proof. replace (a - c) with ((a - b) + (b - c)) by ring. apply Rabs_triang. Qed.

Lemma triangle_manhattan : forall x y z,
  length x = length y -> length y = length z -> (1 <= length x)%nat ->
  sp_manhattan x z <= sp_manhattan x y + sp_manhattan y z.
Proof.
  intros x y z Hxy Hyz _. unfold sp_manhattan.
  apply sum2_triangle; auto. intros a b c. apply Rabs_sub_triang.
Qed.

Lemma triangle_gower : forall x y z,
  length x = length y -> length y = length z -> (1 <= length x)%nat ->
  sp_gower x z <= sp_gower x y + sp_gower y z.
Proof.
  intros x y z Hxy Hyz Hl. unfold sp_gower.
  rewrite <- (len_eq x y Hxy).
  pose proof (triangle_manhattan x y z Hxy Hyz Hl) as H.
  pose proof (len_pos x Hl) as Hn.
  unfold Rdiv. rewrite <- Rmult_plus_distr_r.
  apply Rmult_le_compat_r; [left; apply Rinv_0_lt_compat; exact Hn | exact H].
Qed.

Lemma triangle_non_intersection : forall x y z,
  length x = length y -> length y = length z -> (1 <= length x)%nat ->
  sp_non_intersection x z <= sp_non_intersection x y + sp_non_intersection y z.
Proof.
  intros x y z Hxy Hyz Hl. unfold sp_non_intersection.
  pose proof (triangle_manhattan x y z Hxy Hyz Hl) as H. lra.
Qed.

Lemma triangle_hamming : forall x y z,
  length x = length y -> length y = length z -> (1 <= length x)%nat ->
  sp_hamming x z <= sp_hamming x y + sp_hamming y z.
Proof.
  intros x y z Hxy Hyz _. unfold sp_hamming, count2.
  apply (sum2_triangle (fun a b => if Rneqb a b then 1 else 0)); auto.
  intros a b c. unfold Rneqb.
  destruct (Req_EM_T a c) as [Hac | Hac];
    destruct (Req_EM_T a b) as [Hab | Hab];
    destruct (Req_EM_T b c) as [Hbc | Hbc]; lra.
Qed.

Lemma triangle_lorentzian : forall x y z,
  length x = length y -> length y = length z -> (1 <= length x)%nat ->
  sp_lorentzian x z <= sp_lorentzian x y + sp_lorentzian y z.
Proof.
  intros x y z Hxy Hyz _. unfold sp_lorentzian.
  apply sum2_triangle; auto. intros a b c.
  apply ln1p_subadd; try apply Rabs_pos. apply Rabs_sub_triang.
Qed.

Lemma triangle_chebyshev : forall x y z,
  length x = length y -> length y = length z -> (1 <= length x)%nat ->
  sp_chebyshev x z <= sp_chebyshev x y + sp_chebyshev y z.
Proof.
  intros x y z Hxy Hyz Hl. unfold sp_chebyshev.
  apply lmax_triangle; auto. intros a b c. apply Rabs_sub_triang.
Qed.
