(* Frame theorem for the decorator's effect programs: a wrapper body without in-place
   additions leaves every caller-owned buffer untouched, and the value it returns is a
   function of the *contents* of its arguments only. *)
From Coq Require Import String List QArith Lia.
From OPF Require Import Model.Consts Model.Effects.
Import ListNotations.
Local Open Scope nat_scope.

Section Frame.
  Variable cval : cname -> Q.
  Variable callee : list buffer -> Q.

  Lemma firstn_app_exact {A} (l l' : list A) : firstn (length l) (l ++ l') = l.
  Proof. induction l; simpl; congruence. Qed.

  Lemma exec_frame prog : no_augadd prog = true ->
    forall e st st0, firstn (length st0) st = st0 ->
    firstn (length st0) (fst (exec cval callee prog e st)) = st0.
  Proof.
    induction prog as [|s rest IH]; intros Hn e st st0 Hst; simpl in *; auto.
    destruct s as [p c|p c|ps]; simpl in Hn; try discriminate.
    - destruct (lookup e p) as [r|]; simpl; auto.
      apply IH; auto.
      assert (Hle : length st0 <= length st).
      { rewrite <- Hst. rewrite firstn_length. lia. }
      rewrite firstn_app. replace (length st0 - length st) with 0 by lia.
      simpl. rewrite app_nil_r. exact Hst.
    - simpl. exact Hst.
  Qed.

  (* the caller's whole store is a prefix of the final store: nothing it owns was written *)
  Theorem call_pure params prog st args : no_augadd prog = true ->
    firstn (length st) (fst (call_metric cval callee params prog st args)) = st.
  Proof. intros H; unfold call_metric; apply exec_frame; auto. apply firstn_all. Qed.

  (* contents of the buffers an environment points to *)
  Definition contents (e : env) (st : store) (p : string) : buffer :=
    match lookup e p with Some r => nth r st nil | None => nil end.

  Lemma lookup_rebind_same e p r : lookup e p <> None -> lookup (rebind e p r) p = Some r.
  Proof. induction e as [|[k r0] t IH]; simpl; intros H; [congruence|].
    destruct (String.eqb p k) eqn:E; simpl; rewrite E; auto. Qed.

  Lemma lookup_rebind_other e p q r : String.eqb q p = false -> lookup (rebind e p r) q = lookup e q.
  Proof. induction e as [|[k r0] t IH]; simpl; intros H; auto.
    destruct (String.eqb p k) eqn:E; simpl.
    - apply String.eqb_eq in E; subst k. rewrite H. reflexivity.
    - destruct (String.eqb q k); auto. Qed.

  Lemma nth_app_new {A} (l : list A) (x d : A) : nth (length l) (l ++ [x]) d = x.
  Proof. induction l; simpl; auto. Qed.

  Lemma nth_app_old {A} (l : list A) (x d : A) r : r < length l -> nth r (l ++ [x]) d = nth r l d.
  Proof. intros; apply app_nth1; auto. Qed.

  Definition env_ok (e : env) (st : store) : Prop :=
    forall p r, lookup e p = Some r -> r < length st.

  (* the returned value depends only on the contents reachable through the environment, not on
     the store around them (hence not on any earlier calls) *)
  Lemma exec_value prog : no_augadd prog = true ->
    forall e1 st1 e2 st2, env_ok e1 st1 -> env_ok e2 st2 ->
    (forall p, lookup e1 p = None <-> lookup e2 p = None) ->
    (forall p, contents e1 st1 p = contents e2 st2 p) ->
    snd (exec cval callee prog e1 st1) = snd (exec cval callee prog e2 st2).
  Proof.
    induction prog as [|s rest IH]; intros Hn e1 st1 e2 st2 Hok1 Hok2 Hdom Hc; simpl in *; auto.
    destruct s as [p c|p c|ps]; simpl in Hn; try discriminate.
    - pose proof (Hc p) as Hcp. unfold contents in Hcp.
      destruct (lookup e1 p) as [r1|] eqn:L1; destruct (lookup e2 p) as [r2|] eqn:L2; simpl; auto.
      + apply IH; auto.
        * intros q r Hq. rewrite app_length; simpl.
          destruct (String.eqb q p) eqn:E.
          -- apply String.eqb_eq in E; subst q. rewrite lookup_rebind_same in Hq by congruence.
             inversion Hq; lia.
          -- rewrite lookup_rebind_other in Hq by auto. apply Hok1 in Hq. lia.
        * intros q r Hq. rewrite app_length; simpl.
          destruct (String.eqb q p) eqn:E.
          -- apply String.eqb_eq in E; subst q. rewrite lookup_rebind_same in Hq by congruence.
             inversion Hq; lia.
          -- rewrite lookup_rebind_other in Hq by auto. apply Hok2 in Hq. lia.
        * intros q. destruct (String.eqb q p) eqn:E.
          -- apply String.eqb_eq in E; subst q.
             rewrite !lookup_rebind_same by congruence. split; discriminate.
          -- rewrite !lookup_rebind_other by auto. apply Hdom.
        * intros q. unfold contents. destruct (String.eqb q p) eqn:E.
          -- apply String.eqb_eq in E; subst q.
             rewrite !lookup_rebind_same by congruence. rewrite !nth_app_new. now rewrite Hcp.
          -- rewrite !lookup_rebind_other by auto. specialize (Hc q). unfold contents in Hc.
             destruct (lookup e1 q) as [a|] eqn:A; destruct (lookup e2 q) as [b|] eqn:B.
             ++ rewrite !nth_app_old; eauto.
             ++ exfalso. apply (proj2 (Hdom q)) in B. congruence.
             ++ exfalso. apply (proj1 (Hdom q)) in A. congruence.
             ++ reflexivity.
      + exfalso. apply (proj2 (Hdom p)) in L2. congruence.
      + exfalso. apply (proj1 (Hdom p)) in L1. congruence.
    - simpl. f_equal. f_equal. apply map_ext. intros q. apply (Hc q).
  Qed.
End Frame.
