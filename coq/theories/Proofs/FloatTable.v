(* The two float-level analyses of Model/MetricSym.v run on the GENERATED metric terms
   (Gen/Metrics_gen.v, regenerated from opfython/math/distance.py on every build), by [vm_compute]:
   an edit of a metric body re-runs them.

   A. swap symmetry: 41 of the 42 symmetric identifiers are accepted ([float_sym_tbl]).
      Rejected: jeffreys, `sum((x - y) * log(x / y))`: the swapped body needs log(y / x) = - log(x / y),
      which holds for exact division and logarithm only: rnd (y / x) is not 1 / rnd (x / y).
      [jeffreys_model_limit] exhibits an admissible, odd rounding that fixes 1 and two positive
      vectors with different values; binary64/numpy is asymmetric in the last bits as well (harness).
      The 5 identifiers documented as not symmetric are rejected ([float_sym_rejected]).

   B. exact zero self-distance, on USER-level classes (Any = all reals for the undecorated metrics of the
      `real` domain, NonNeg otherwise: a decorated metric sees NonNeg + EPSILON = Pos):
        [float_zero_tbl]      31 identifiers, every [rounding rnd];
        [float_zero_one_tbl]  40 identifiers, every [rounding rnd] with [rnd 1 = 1]
                              (the 9 more use `e / e = 1`, `1 + 0 = 1`, `log 1 = 0`).
      Rejected dissimilarities (zero only "up to rounding" in this model), [float_zero_rejected]:
        bhattacharyya  -log(sum(sqrt(x*x))): the sum is 1 only up to rounding (and up to n*EPSILON)
        chord          sqrt(max(2 - 2*s/(sqrt(s)*sqrt(s)), 0)): rnd(sqrt s)^2 is s only up to rounding
        cosine         1 - s/(sqrt(s)*sqrt(s)): same
        jaccard        0 / (s + s - s): the divisor is a rounded subtraction, not provably non-zero
                       ([jaccard_zero_model_limit]: an admissible rounding makes it undefined)
        jensen         (x log x + x log x)/2 - ((x+x)/2) log((x+x)/2): needs rnd(2t)/2 = t (exact in
                       binary64 without overflow, not for an arbitrary rounding)
      Witness roundings for bhattacharyya, chord, cosine, jensen: Proofs/FloatZeroNeg.v.
      hassanat is accepted on NonNeg only (on the real domain it can be undefined:
      [hassanat_model_limit]); gaussian (1 at identity) and statistic (signed, needs rnd(2t)/2 = t)
      are not dissimilarities and are rejected. *)
From Coq Require Import Reals QArith Qreals String List Lra Lia Bool ZArith.
From OPF Require Import Model.Consts Model.Effects Spec.MetricSpec Gen.Consts_gen Model.MetricIR
     Gen.Metrics_gen Gen.Decorator_gen Model.MetricRnd Model.MetricSym Proofs.IRLemmas
     Proofs.RobustSign Proofs.RobustSignTable Proofs.RobustSignNeg Proofs.FloatSym Proofs.FloatZero.
Import ListNotations.
Open Scope string_scope.
Open Scope R_scope.

(* ====================================================================== *)
(* A. symmetry                                                             *)
(* ====================================================================== *)
Definition float_sym_accepted : list string :=
  ["additive_symmetric_distance"; "average_euclidean_distance"; "bhattacharyya_distance";
   "bray_curtis_distance"; "canberra_distance"; "chebyshev_distance"; "chi_squared_distance";
   "chord_distance"; "clark_distance"; "cosine_distance"; "dice_distance"; "divergence_distance";
   "euclidean_distance"; "gaussian_distance"; "gower_distance"; "hamming_distance";
   "hassanat_distance"; "hellinger_distance"; "jaccard_distance"; "jensen_distance";
   "jensen_shannon_distance"; "kulczynski_distance"; "log_euclidean_distance";
   "log_squared_euclidean_distance"; "lorentzian_distance"; "manhattan_distance";
   "matusita_distance"; "max_symmetric_distance"; "mean_censored_euclidean_distance";
   "min_symmetric_distance"; "non_intersection_distance"; "sangvi_distance"; "soergel_distance";
   "squared_distance"; "squared_chord_distance"; "squared_euclidean_distance"; "topsoe_distance";
   "vicis_symmetric1_distance"; "vicis_symmetric2_distance"; "vicis_symmetric3_distance";
   "vicis_wave_hedges_distance"].

Lemma float_sym_tbl : forallb swap_sym_name float_sym_accepted = true.
Proof. vm_compute. reflexivity. Qed.

Lemma float_sym_count : length float_sym_accepted = 41%nat.
Proof. reflexivity. Qed.

(* the symmetric one the checker does not accept, then the 5 documented as not symmetric *)
Lemma float_sym_rejected :
  map swap_sym_name
      ["jeffreys_distance"; "k_divergence_distance"; "kullback_leibler_distance"; "neyman_distance";
       "pearson_distance"; "statistic_distance"]
  = [false; false; false; false; false; false].
Proof. vm_compute. reflexivity. Qed.

(* every identifier of the table is one of the two lists *)
Lemma float_sym_partition :
  forallb (fun p => existsb (String.eqb (fst p))
                      (float_sym_accepted ++ ["jeffreys_distance"; "k_divergence_distance";
                                              "kullback_leibler_distance"; "neyman_distance";
                                              "pearson_distance"; "statistic_distance"]))
          all_metrics_ir = true
  /\ length all_metrics_ir = 47%nat.
Proof. vm_compute. split; reflexivity. Qed.

Lemma swap_sym_name_sound n :
  swap_sym_name n = true ->
  exists m, lookup_ir n all_metrics_ir = Some m
            /\ forall rnd, rnd_odd rnd -> forall x y, length x = length y ->
               metric_rnd rnd m x y = metric_rnd rnd m y x.
Proof.
  unfold swap_sym_name. destruct (lookup_ir n all_metrics_ir) as [m|]; [|discriminate].
  intros E. exists m. split; [reflexivity|]. now apply swap_sym_sound.
Qed.

Lemma float_sym_all n :
  In n float_sym_accepted ->
  exists m, lookup_ir n all_metrics_ir = Some m
            /\ forall rnd, rnd_odd rnd -> forall x y, length x = length y ->
               metric_rnd rnd m x y = metric_rnd rnd m y x.
Proof.
  intros HI. apply swap_sym_name_sound.
  exact (proj1 (forallb_forall _ _) float_sym_tbl n HI).
Qed.

(* ---- jeffreys: limit of the model ---- *)
(* odd plateau rounding: [1, 4] -> 1, [-4, -1] -> -1, identity elsewhere *)
Definition rndS (t : R) : R :=
  if Rlt_dec 4 t then t else if Rle_dec 1 t then 1
  else if Rlt_dec (-1) t then t else if Rle_dec (-4) t then -1 else t.

Lemma rndS_rounding : rounding rndS.
Proof.
  unfold rndS. constructor.
  - intros a b H.
    destruct (Rlt_dec 4 a), (Rle_dec 1 a), (Rlt_dec (-1) a), (Rle_dec (-4) a),
             (Rlt_dec 4 b), (Rle_dec 1 b), (Rlt_dec (-1) b), (Rle_dec (-4) b); lra.
  - destruct (Rlt_dec 4 0), (Rle_dec 1 0), (Rlt_dec (-1) 0), (Rle_dec (-4) 0); lra.
  - intros a H. destruct (Rlt_dec 4 a), (Rle_dec 1 a), (Rlt_dec (-1) a), (Rle_dec (-4) a); lra.
  - intros a H. destruct (Rlt_dec 4 a), (Rle_dec 1 a), (Rlt_dec (-1) a), (Rle_dec (-4) a); lra.
Qed.

Lemma rndS_odd : rnd_odd rndS.
Proof.
  intros t. unfold rndS.
  destruct (Rlt_dec 4 t), (Rle_dec 1 t), (Rlt_dec (-1) t), (Rle_dec (-4) t),
           (Rlt_dec 4 (- t)), (Rle_dec 1 (- t)), (Rlt_dec (-1) (- t)), (Rle_dec (-4) (- t)); lra.
Qed.

Lemma rndS_one : rndS 1 = 1.
Proof. unfold rndS. destruct (Rlt_dec 4 1), (Rle_dec 1 1); lra. Qed.

Lemma rndS_big t : 4 < t -> rndS t = t.
Proof. intros H. unfold rndS. destruct (Rlt_dec 4 t); lra. Qed.
Lemma rndS_nbig t : t < -4 -> rndS t = t.
Proof.
  intros H. unfold rndS.
  destruct (Rlt_dec 4 t), (Rle_dec 1 t), (Rlt_dec (-1) t), (Rle_dec (-4) t); lra.
Qed.
Lemma rndS_small t : -1 < t < 1 -> rndS t = t.
Proof.
  intros H. unfold rndS.
  destruct (Rlt_dec 4 t), (Rle_dec 1 t), (Rlt_dec (-1) t), (Rle_dec (-4) t); lra.
Qed.
Lemma rndS_mid t : 1 <= t <= 4 -> rndS t = 1.
Proof. intros H. unfold rndS. destruct (Rlt_dec 4 t), (Rle_dec 1 t); lra. Qed.

Lemma EPS_lt_1 : EPSILON < 1.
Proof.
  unfold EPSILON.
  assert (H10 : 1 < 10 ^ 20) by (simpl; lra).
  assert (H : / 10 ^ 20 < / 1) by (apply Rinv_lt_contravar; lra).
  rewrite Rinv_1 in H. exact H.
Qed.

Lemma jeffreys_swapped_zero : metric_rnd rndS ir_jeffreys [10] [5] = Some 0.
Proof.
  ev_open ir_jeffreys. pose proof EPS_pos as HE. pose proof EPS_lt_1 as HE1.
  rewrite (rndS_big (5 + EPSILON)), (rndS_big (10 + EPSILON)) by lra.
  ev_step.
  destruct (Req_EM_T (5 + EPSILON) 0) as [Hz|_]; [lra|].
  assert (Hq : 1 <= (10 + EPSILON) / (5 + EPSILON) <= 4).
  { split.
    - apply (Rmult_le_reg_r (5 + EPSILON)); [lra|]. unfold Rdiv. rewrite Rmult_assoc, Rinv_l by lra. lra.
    - apply (Rmult_le_reg_r (5 + EPSILON)); [lra|]. unfold Rdiv. rewrite Rmult_assoc, Rinv_l by lra. lra. }
  rewrite (rndS_mid _ Hq). cbn [obind unRnd].
  destruct (Rlt_dec 0 1) as [_|Hn]; [|lra].
  rewrite ln_1, (rndS_small 0) by lra. cbn [obind2 binRnd].
  rewrite Rmult_0_r, (rndS_small 0) by lra. reflexivity.
Qed.

Lemma jeffreys_direct_pos : exists r, metric_rnd rndS ir_jeffreys [5] [10] = Some r /\ 0 < r.
Proof.
  ev_open ir_jeffreys. pose proof EPS_pos as HE. pose proof EPS_lt_1 as HE1.
  rewrite (rndS_big (5 + EPSILON)), (rndS_big (10 + EPSILON)) by lra.
  ev_step.
  destruct (Req_EM_T (10 + EPSILON) 0) as [Hz|_]; [lra|].
  assert (Hq : 0 < (5 + EPSILON) / (10 + EPSILON) < 1).
  { split.
    - apply Rdiv_lt_0_compat; lra.
    - apply (Rmult_lt_reg_r (10 + EPSILON)); [lra|]. unfold Rdiv. rewrite Rmult_assoc, Rinv_l by lra. lra. }
  rewrite (rndS_small ((5 + EPSILON) / (10 + EPSILON))) by lra. cbn [obind unRnd].
  destruct (Rlt_dec 0 ((5 + EPSILON) / (10 + EPSILON))) as [_|Hn]; [|lra].
  cbn [obind2 binRnd].
  replace (5 + EPSILON - (10 + EPSILON)) with (-5) by ring. rewrite (rndS_nbig (-5)) by lra.
  assert (HL : ln ((5 + EPSILON) / (10 + EPSILON)) < 0).
  { rewrite <- ln_1. apply ln_increasing; lra. }
  pose proof (rnd_neg _ rndS_rounding _ HL) as HL'.
  eexists. split; [reflexivity|]. apply (rnd_pos _ rndS_rounding). nra.
Qed.

Lemma jeffreys_model_limit :
  exists rnd, rounding rnd /\ rnd_odd rnd /\ rnd 1 = 1 /\ all_pos [5] /\ all_pos [10]
              /\ metric_rnd rnd ir_jeffreys [5] [10] <> metric_rnd rnd ir_jeffreys [10] [5].
Proof.
  exists rndS. split; [exact rndS_rounding|]. split; [exact rndS_odd|]. split; [exact rndS_one|].
  split; [constructor; [lra | constructor]|]. split; [constructor; [lra | constructor]|].
  destruct jeffreys_direct_pos as [r [Er Pr]]. rewrite Er, jeffreys_swapped_zero.
  intros E. injection E as E. lra.
Qed.

(* ---- negative control: associativity is NOT used ---- *)
(* `sum((x + 1) + y)`: symmetric over the reals, not under rounding *)
Definition assoc_ir : metric_ir :=
  {| m_name := "assoc_control"; m_avoid_zero := false; m_njit := true;
     m_params := [("x", None); ("y", None)];
     m_body := SSum (VBin BAdd (VBin BAdd VX (VConstS (SConstQ (1 # 1)))) VY) |}.

Lemma assoc_rejected : swap_sym assoc_ir = false.
Proof. vm_compute. reflexivity. Qed.

Lemma assoc_values :
  metric_rnd rndS assoc_ir [/ 2] [5] = Some 6 /\ metric_rnd rndS assoc_ir [5] [/ 2] = Some (13 / 2).
Proof.
  split.
  - ev_open assoc_ir. ev_step. rewrite Q2R_Z.
    rewrite (rndS_mid (/ 2 + 1)) by lra. rewrite (rndS_big (1 + 5)) by lra. f_equal. lra.
  - ev_open assoc_ir. ev_step. rewrite Q2R_Z.
    rewrite (rndS_big (5 + 1)) by lra. rewrite (rndS_big (5 + 1 + / 2)) by lra. f_equal. lra.
Qed.

Lemma assoc_control :
  swap_sym assoc_ir = false
  /\ exists rnd, rounding rnd /\ rnd_odd rnd
       /\ metric_rnd rnd assoc_ir [/ 2] [5] <> metric_rnd rnd assoc_ir [5] [/ 2].
Proof.
  split; [exact assoc_rejected|]. exists rndS. split; [exact rndS_rounding|]. split; [exact rndS_odd|].
  destruct assoc_values as [E1 E2]. rewrite E1, E2. intros E. injection E as E. lra.
Qed.

(* ====================================================================== *)
(* B. exact zero self-distance                                             *)
(* ====================================================================== *)
(* every [rounding rnd] *)
Definition float_zero_accepted : list (string * cls) :=
  [("additive_symmetric_distance", NonNeg); ("average_euclidean_distance", Any);
   ("bray_curtis_distance", NonNeg); ("canberra_distance", NonNeg); ("chebyshev_distance", Any);
   ("chi_squared_distance", NonNeg); ("clark_distance", NonNeg); ("divergence_distance", NonNeg);
   ("euclidean_distance", Any); ("gower_distance", Any); ("hamming_distance", Any);
   ("hellinger_distance", NonNeg); ("jeffreys_distance", NonNeg); ("kulczynski_distance", NonNeg);
   ("manhattan_distance", Any); ("matusita_distance", NonNeg); ("max_symmetric_distance", NonNeg);
   ("mean_censored_euclidean_distance", NonNeg); ("min_symmetric_distance", NonNeg);
   ("neyman_distance", NonNeg); ("non_intersection_distance", Any); ("pearson_distance", NonNeg);
   ("sangvi_distance", NonNeg); ("soergel_distance", NonNeg); ("squared_distance", NonNeg);
   ("squared_chord_distance", NonNeg); ("squared_euclidean_distance", Any);
   ("vicis_symmetric1_distance", NonNeg); ("vicis_symmetric2_distance", NonNeg);
   ("vicis_symmetric3_distance", NonNeg); ("vicis_wave_hedges_distance", NonNeg)].

(* [rounding rnd] with [rnd 1 = 1]: the 9 more *)
Definition float_zero_one_more : list (string * cls) :=
  [("dice_distance", NonNeg); ("hassanat_distance", NonNeg); ("jensen_shannon_distance", NonNeg);
   ("k_divergence_distance", NonNeg); ("kullback_leibler_distance", NonNeg);
   ("log_euclidean_distance", Any); ("log_squared_euclidean_distance", Any);
   ("lorentzian_distance", Any); ("topsoe_distance", NonNeg)].

Definition float_zero_one_accepted : list (string * cls) := float_zero_accepted ++ float_zero_one_more.

Lemma float_zero_tbl : forallb zero_self_name float_zero_accepted = true.
Proof. vm_compute. reflexivity. Qed.

Lemma float_zero_one_tbl : forallb zero_self_one_name float_zero_one_accepted = true.
Proof. vm_compute. reflexivity. Qed.

Lemma float_zero_counts :
  length float_zero_accepted = 31%nat /\ length float_zero_one_accepted = 40%nat.
Proof. split; reflexivity. Qed.

(* the 9 more are rejected without [rnd 1 = 1] (on every class) *)
Lemma float_zero_one_needed :
  forallb (fun nc => negb (zero_self_name (fst nc, Pos)) && negb (zero_self_name (fst nc, NonNeg))
                     && negb (zero_self_name (fst nc, Any))) float_zero_one_more = true.
Proof. vm_compute. reflexivity. Qed.

(* rejected, even with [rnd 1 = 1], on every class: the 5 dissimilarities that are zero only up to
   rounding, then gaussian and statistic (not dissimilarities) *)
Definition float_zero_rejected_names : list string :=
  ["bhattacharyya_distance"; "chord_distance"; "cosine_distance"; "jaccard_distance"; "jensen_distance";
   "gaussian_distance"; "statistic_distance"].

Lemma float_zero_rejected :
  forallb (fun n => negb (zero_self_one_name (n, Pos)) && negb (zero_self_one_name (n, NonNeg))
                    && negb (zero_self_one_name (n, Any))) float_zero_rejected_names = true
  /\ zero_self_one Any ir_hassanat = false.
Proof. vm_compute. split; reflexivity. Qed.

Lemma float_zero_partition :
  forallb (fun p => existsb (String.eqb (fst p))
                      (map fst float_zero_one_accepted ++ float_zero_rejected_names))
          all_metrics_ir = true.
Proof. vm_compute. reflexivity. Qed.

Lemma zero_self_name_sound nc :
  zero_self_name nc = true ->
  exists m, lookup_ir (fst nc) all_metrics_ir = Some m
            /\ forall rnd, rounding rnd ->
               forall x, (1 <= length x)%nat -> Forall (in_cls (snd nc)) x ->
               metric_rnd rnd m x x = Some 0.
Proof.
  unfold zero_self_name. destruct (lookup_ir (fst nc) all_metrics_ir) as [m|]; [|discriminate].
  intros E. exists m. split; [reflexivity|]. now apply zero_self_sound.
Qed.

Lemma zero_self_one_name_sound nc :
  zero_self_one_name nc = true ->
  exists m, lookup_ir (fst nc) all_metrics_ir = Some m
            /\ forall rnd, rounding rnd -> rnd 1 = 1 ->
               forall x, (1 <= length x)%nat -> Forall (in_cls (snd nc)) x ->
               metric_rnd rnd m x x = Some 0.
Proof.
  unfold zero_self_one_name. destruct (lookup_ir (fst nc) all_metrics_ir) as [m|]; [|discriminate].
  intros E. exists m. split; [reflexivity|]. now apply zero_self_one_sound.
Qed.

Lemma float_zero_all nc :
  In nc float_zero_accepted ->
  exists m, lookup_ir (fst nc) all_metrics_ir = Some m
            /\ forall rnd, rounding rnd ->
               forall x, (1 <= length x)%nat -> Forall (in_cls (snd nc)) x ->
               metric_rnd rnd m x x = Some 0.
Proof.
  intros HI. apply zero_self_name_sound.
  exact (proj1 (forallb_forall _ _) float_zero_tbl nc HI).
Qed.

Lemma float_zero_one_all nc :
  In nc float_zero_one_accepted ->
  exists m, lookup_ir (fst nc) all_metrics_ir = Some m
            /\ forall rnd, rounding rnd -> rnd 1 = 1 ->
               forall x, (1 <= length x)%nat -> Forall (in_cls (snd nc)) x ->
               metric_rnd rnd m x x = Some 0.
Proof.
  intros HI. apply zero_self_one_name_sound.
  exact (proj1 (forallb_forall _ _) float_zero_one_tbl nc HI).
Qed.

(* jaccard(x, x) is not even defined for some admissible rounding *)
Lemma jaccard_zero_model_limit :
  exists rnd, rounding rnd /\ all_pos [1] /\ metric_rnd rnd ir_jaccard [1] [1] <> Some 0.
Proof.
  destruct jaccard_model_limit as [rnd [RND [HP E]]]. exists rnd. split; [assumption|].
  split; [assumption|]. rewrite E. discriminate.
Qed.

(* ====================================================================== *)
(* non-vacuity                                                             *)
(* ====================================================================== *)
Lemma rndI_odd : rnd_odd (fun a : R => a).
Proof. intros t. reflexivity. Qed.

(* a concrete symmetric pair, evaluated *)
Lemma manhattan_example :
  metric_rnd (fun a : R => a) ir_manhattan [1; 2] [3; 5] = Some 5
  /\ metric_rnd (fun a : R => a) ir_manhattan [3; 5] [1; 2] = Some 5.
Proof.
  split.
  - ev_open ir_manhattan. ev_step.
    replace (1 - 3) with (- 2) by ring. replace (2 - 5) with (- 3) by ring.
    rewrite (Rabs_left (- 2)), (Rabs_left (- 3)) by lra. f_equal. ring.
  - ev_open ir_manhattan. ev_step.
    replace (3 - 1) with 2 by ring. replace (5 - 2) with 3 by ring.
    rewrite (Rabs_right 2), (Rabs_right 3) by lra. f_equal. ring.
Qed.

Lemma float_sym_nonvacuous :
  swap_sym ir_manhattan = true /\ rnd_odd (fun a : R => a) /\ rounding (fun a : R => a)
  /\ length [1; 2] = length [3; 5]
  /\ metric_rnd (fun a : R => a) ir_manhattan [1; 2] [3; 5] = Some 5
  /\ swap_sym ir_hassanat = true /\ rnd_odd rndS /\ rounding rndS.
Proof.
  split; [vm_compute; reflexivity|]. split; [exact rndI_odd|]. split; [exact rndI_rounding|].
  split; [reflexivity|]. split; [exact (proj1 manhattan_example)|].
  split; [vm_compute; reflexivity|]. split; [exact rndS_odd | exact rndS_rounding].
Qed.

Lemma float_zero_nonvacuous :
  zero_self NonNeg ir_canberra = true /\ zero_self_one Any ir_lorentzian = true
  /\ rounding (fun a : R => a) /\ (fun a : R => a) 1 = 1
  /\ rounding rndS /\ rndS 1 = 1
  /\ (1 <= length [0; 2])%nat /\ Forall (in_cls NonNeg) [0; 2] /\ Forall (in_cls Any) [-3; 2]
  /\ metric_rnd rndS ir_canberra [0; 2] [0; 2] = Some 0
  /\ metric_rnd rndS ir_lorentzian [-3; 2] [-3; 2] = Some 0.
Proof.
  assert (H1 : zero_self NonNeg ir_canberra = true) by (vm_compute; reflexivity).
  assert (H2 : zero_self_one Any ir_lorentzian = true) by (vm_compute; reflexivity).
  assert (D1 : Forall (in_cls NonNeg) [0; 2]) by (repeat constructor; cbn; lra).
  assert (D2 : Forall (in_cls Any) [-3; 2]) by (repeat constructor).
  split; [exact H1|]. split; [exact H2|]. split; [exact rndI_rounding|]. split; [reflexivity|].
  split; [exact rndS_rounding|]. split; [exact rndS_one|]. split; [cbn; lia|].
  split; [exact D1|]. split; [exact D2|]. split.
  - apply (zero_self_sound NonNeg _ H1 rndS rndS_rounding); [cbn; lia | exact D1].
  - apply (zero_self_one_sound Any _ H2 rndS rndS_rounding rndS_one); [cbn; lia | exact D2].
Qed.
