(* C08 umbrella: symmetry / non-negativity / zero self-distance of the 47 closed forms.
     MetricSym      sym_<name>            (42 metrics)
     MetricNotSym   not_sym_<name>        (k_divergence, kullback_leibler, neyman, pearson, statistic)
     MetricNonneg   nonneg_/zero_self_    (pointwise proofs, 34 metrics) + gaussian_self/_pos/_le_1
     MetricAnalytic nonneg_/zero_self_    (cosine, chord, dice, jaccard, bhattacharyya, jeffreys,
                                           kullback_leibler, k_divergence, topsoe, jensen_shannon, jensen) *)
From OPF Require Export Proofs.MetricLemmas Proofs.MetricSym Proofs.MetricNotSym
  Proofs.MetricNonneg Proofs.MetricAnalytic.
