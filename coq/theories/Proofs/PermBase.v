(* Relabelling the nodes 0..n-1 by a bijection: paths, [pathmax], [sole_minimax_arc] and
   [tie_free] are transported.  Used by Proofs/Perm.v (C11, permutation half). *)
From Coq Require Import List Arith Bool ZArith Lia.
From OPF Require Import Spec.Paths Spec.Trees Proofs.PrimLists Proofs.ResubBase.
Import ListNotations.
Open Scope nat_scope.

(* [sigma] and [sigma_inv] are mutually inverse bijections of 0..n-1 *)
Definition perm_on (n : nat) (sigma sigma_inv : nat -> nat) : Prop :=
  (forall x, x < n -> sigma x < n) /\ (forall x, x < n -> sigma_inv x < n) /\
  (forall x, x < n -> sigma_inv (sigma x) = x) /\ (forall x, x < n -> sigma (sigma_inv x) = x).

Lemma perm_on_sym n s si : perm_on n s si -> perm_on n si s.
Proof. intros (A & B & C & D). repeat split; assumption. Qed.

Lemma perm_on_inj n s si : perm_on n s si -> forall x y, x < n -> y < n -> s x = s y -> x = y.
Proof.
  intros (_ & _ & C & _) x y Hx Hy E. rewrite <- (C x Hx), <- (C y Hy), E. reflexivity.
Qed.

Section MapPath.
  Variables (n : nat) (f : nat -> nat).
  Hypothesis f_lt : forall x, x < n -> f x < n.

  Lemma map_path u v pi : path_from_to n u v pi -> path_from_to n (f u) (f v) (map f pi).
  Proof.
    intros ((Hne & Hfa) & Hhd & Hlast). split; [split|split].
    - intros E. apply map_eq_nil in E. exact (Hne E).
    - rewrite Forall_forall in *. intros y Hy. apply in_map_iff in Hy.
      destruct Hy as (x & <- & Hx). apply f_lt, Hfa, Hx.
    - destruct pi as [|a t]; [discriminate|]. cbn in *. congruence.
    - rewrite <- Hlast. clear - Hne. induction pi as [|a t IH]; [congruence|].
      destruct t as [|b t']; [reflexivity|].
      change (map f (a :: b :: t')) with (f a :: map f (b :: t')).
      rewrite (last_cons_ne (f a) (map f (b :: t')) (f u) (f u)) by discriminate.
      rewrite (last_cons_ne a (b :: t') u u) by discriminate. apply IH. discriminate.
  Qed.

  Lemma map_NoDup_on pi :
    (forall x y, x < n -> y < n -> f x = f y -> x = y) ->
    Forall (fun x => x < n) pi -> NoDup pi -> NoDup (map f pi).
  Proof.
    intros Hinj Hfa Hnd. induction Hnd as [|a t Hnin Hnd IH]; [constructor|].
    apply Forall_cons_iff in Hfa. destruct Hfa as [Ha Hfa]. cbn [map]. constructor.
    - intros Hin. apply in_map_iff in Hin. destruct Hin as (x & E & Hx).
      rewrite Forall_forall in Hfa. apply Hinj in E; [|apply Hfa; exact Hx|exact Ha].
      subst x. contradiction.
    - apply IH; exact Hfa.
  Qed.

  Lemma map_arc_on pi a b : arc_on (map f pi) a b ->
    exists a' b', a = f a' /\ b = f b' /\ arc_on pi a' b'.
  Proof.
    intros (l1 & l2 & E). apply map_eq_app in E. destruct E as (m1 & m2 & -> & _ & E).
    destruct m2 as [|a' m2]; [discriminate|]. destruct m2 as [|b' m2]; [discriminate|].
    cbn [map] in E. injection E as Ea Eb _. exists a', b'. split; [auto|]. split; [auto|].
    exists m1, m2. reflexivity.
  Qed.

  Lemma pathmax_map w zero pi :
    pathmax (fun a b => w (f a) (f b)) zero pi = pathmax w zero (map f pi).
  Proof.
    induction pi as [|a t IH]; [reflexivity|]. destruct t as [|b t']; [reflexivity|].
    change (map f (a :: b :: t')) with (f a :: f b :: map f t').
    rewrite !pathmax_cons2. rewrite IH. reflexivity.
  Qed.
End MapPath.

Lemma map_inverse_on n (f g : nat -> nat) pi :
  (forall x, x < n -> f (g x) = x) -> Forall (fun x => x < n) pi -> map f (map g pi) = pi.
Proof.
  intros Hfg Hfa. rewrite map_map. rewrite <- (map_id pi) at 2. apply map_ext_in.
  rewrite Forall_forall in Hfa. intros x Hx. apply Hfg, Hfa, Hx.
Qed.

Lemma sole_ext n w1 w2 u v :
  (forall a b, a < n -> b < n -> w1 a b = w2 a b) ->
  sole_minimax_arc n w1 u v -> sole_minimax_arc n w2 u v.
Proof.
  intros Hext H pi Hpi Hnd Hne.
  destruct (H pi Hpi Hnd Hne) as (a & b & Hab & Hlt).
  exists a, b. split; [exact Hab|].
  destruct (path_from_to_In _ _ _ _ Hpi) as (_ & _ & Hu & Hv).
  destruct Hpi as ((_ & Hfa) & _). rewrite Forall_forall in Hfa.
  destruct (arc_on_In _ _ _ Hab) as [Ha Hb].
  rewrite <- (Hext u v Hu Hv), <- (Hext a b (Hfa a Ha) (Hfa b Hb)). exact Hlt.
Qed.

Section Relabel.
  Variables (n : nat) (sigma sigma_inv : nat -> nat).
  Hypothesis HP : perm_on n sigma sigma_inv.
  Variable w : nat -> nat -> Z.
  Let w' := fun p q => w (sigma p) (sigma q).

  Lemma sole_map_gen (f : nat -> nat) (wf : nat -> nat -> Z) u v :
    (forall x, x < n -> f x < n) -> (forall x y, x < n -> y < n -> f x = f y -> x = y) ->
    sole_minimax_arc n wf (f u) (f v) -> sole_minimax_arc n (fun a b => wf (f a) (f b)) u v.
  Proof.
    intros Hlt Hinj H pi Hpi Hnd Hne.
    pose proof Hpi as ((_ & Hfa) & Hhd & Hlast).
    destruct (H (map f pi) (map_path n f Hlt u v pi Hpi) (map_NoDup_on n f pi Hinj Hfa Hnd))
      as (a & b & Hab & Hw).
    { intros E. apply Hne. destruct pi as [|x [|y [|z t]]]; try discriminate.
      cbn in Hhd, Hlast. congruence. }
    destruct (map_arc_on f pi a b Hab) as (a' & b' & -> & -> & Hab').
    exists a', b'. split; assumption.
  Qed.

  Lemma sole_perm p q : p < n -> q < n ->
    (sole_minimax_arc n w' p q <-> sole_minimax_arc n w (sigma p) (sigma q)).
  Proof.
    intros Hp Hq. destruct HP as (A & B & C & D). split.
    - intros H.
      assert (H' : sole_minimax_arc n w' (sigma_inv (sigma p)) (sigma_inv (sigma q)))
        by (rewrite (C p Hp), (C q Hq); exact H).
      apply (sole_map_gen sigma_inv w' (sigma p) (sigma q) B
               (perm_on_inj n sigma_inv sigma (perm_on_sym _ _ _ HP))) in H'.
      eapply sole_ext; [|exact H']. intros a b Ha Hb. unfold w'. cbv beta.
      rewrite (D a Ha), (D b Hb). reflexivity.
    - intros H. exact (sole_map_gen sigma w p q A (perm_on_inj n sigma sigma_inv HP) H).
  Qed.

  Lemma tie_free_perm zero top : tie_free n w zero top -> tie_free n w' zero top.
  Proof.
    intros (Hsym & Hdist & Hr). destruct HP as (A & B & C & D).
    pose proof (perm_on_inj n sigma sigma_inv HP) as Hinj.
    split; [|split].
    - intros p q Hp Hq. apply Hsym; apply A; assumption.
    - intros a b c d Ha Hb Hc Hd Hab Hcd E. unfold w' in E.
      destruct (Hdist (sigma a) (sigma b) (sigma c) (sigma d)) as [[E1 E2]|[E1 E2]];
        try (apply A; assumption); try exact E.
      + intros E'. apply Hab. apply Hinj; assumption.
      + intros E'. apply Hcd. apply Hinj; assumption.
      + left. split; apply Hinj; assumption.
      + right. split; apply Hinj; assumption.
    - intros p q Hp Hq Hne. apply Hr; try (apply A; assumption).
      intros E. apply Hne. apply Hinj; assumption.
  Qed.

  (* the labels in the permuted presentation *)
  Definition perm_labels (labels : list nat) : list nat :=
    map (fun p => nth (sigma p) labels 0) (seq 0 n).

  Lemma perm_labels_length labels : length (perm_labels labels) = n.
  Proof. unfold perm_labels. rewrite map_length, seq_length. reflexivity. Qed.

  Lemma perm_labels_nth labels p : p < n -> nth p (perm_labels labels) 0 = nth (sigma p) labels 0.
  Proof.
    intros Hp. unfold perm_labels.
    rewrite (nth_indep _ 0 (nth (sigma 0) labels 0)) by (rewrite map_length, seq_length; exact Hp).
    rewrite (map_nth (fun p => nth (sigma p) labels 0)), seq_nth by exact Hp. reflexivity.
  Qed.

  Lemma two_classes_perm labels :
    two_classes n (fun q => nth q labels 0) -> two_classes n (fun q => nth q (perm_labels labels) 0).
  Proof.
    intros (a & b & Ha & Hb & Hab). destruct HP as (A & B & C & D).
    exists (sigma_inv a), (sigma_inv b). split; [apply B; exact Ha|]. split; [apply B; exact Hb|].
    rewrite !perm_labels_nth by (apply B; assumption). rewrite (D a Ha), (D b Hb). exact Hab.
  Qed.
End Relabel.
