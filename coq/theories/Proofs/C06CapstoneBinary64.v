(* The C06 capstone at binary64: the float [metric_fltc] returns (bit-exact against DISTANCES) is within the proved relative
   bound of the closed form.

   Route: metric_fltc --(Proofs/MetricFltRefine.v)--> metric_rnd rnd64 --(agreement, this file)--> metric_rnd rnd64x
          --(Proofs/Binary64Metric.v: b64_table)--> the closed form.

   Agreement [metric_rnd rnd64 m X Y = metric_rnd rnd64x m X Y] on vectors of binary64 numbers is proved per identifier on the
   characterised bodies.  Additions/subtractions of binary64 numbers never underflow inexactly (Proofs/Binary64Agree.v), the
   square root of a binary64 number is 0 or >= 2^-537; only squares, the product by 1/2 and the division by the length
   can, and there the side condition [normal64 t] (t = 0 or 2^-1022 <= |t|) is asked of the exact argument of that rounding. *)
From Coq Require Import Reals List ZArith QArith Qreals Bool Lia Lra Floats.
From Flocq Require Import Core.
From OPF Require Import Base.Lists Base.NumOps Base.NumOpsRnd Spec.MetricSpec Model.MetricIR Gen.Metrics_gen Model.MetricRnd
  Model.MetricRdepth Proofs.RdepthWitness Model.Binary64 Model.Binary64Metric Proofs.Binary64 Proofs.Binary64Ops
  Proofs.Binary64Metric Proofs.Binary64Agree Model.MetricFlt Model.MetricFltRefine Proofs.MetricFltOps Proofs.MetricFltRefine.
Import ListNotations.
Local Open Scope R_scope.

(* ---------------- composition ---------------- *)
Lemma capstone_gen (m : metric_ir) (sp : list R -> list R -> R) (k : nat -> nat) :
  plain_metric m = true -> consts_exactS (m_body m) = true ->
  rounding_bound_at u64 rnd64x m sp k ->
  forall (x y : list PrimFloat.float) (f : PrimFloat.float),
  Forall (fun a => ffin a = true) x -> Forall (fun a => ffin a = true) y -> length x = length y -> (1 <= length x)%nat ->
  (Z.of_nat (length x) <= 2 ^ 53)%Z ->
  metric_fltc m x y = Some f ->
  metric_rnd rnd64 m (map f2r x) (map f2r y) = metric_rnd rnd64x m (map f2r x) (map f2r y) ->
  Rabs (f2r f - sp (map f2r x) (map f2r y)) <= ((1 + u64) ^ k (length x) - 1) * sp (map f2r x) (map f2r y).
Proof.
  intros P C B x y f Fx Fy L N Z E A.
  destruct (metric_fltc_refines_plain m x y f P C Fx Fy L Z E) as [_ R].
  destruct (B (map f2r x) (map f2r y)) as [fl [E' [_ B']]].
  - now rewrite !map_length.
  - now rewrite map_length.
  - rewrite A, E' in R. inversion R; subst. rewrite map_length in B'. exact B'.
Qed.

(* ---------------- lists of binary64 numbers ---------------- *)
Lemma fmt64_map_f2r (x : list PrimFloat.float) : Forall fmt64 (map f2r x).
Proof. apply Forall_forall. intros t Ht. apply in_map_iff in Ht. destruct Ht as [a [<- _]]. apply fmt64_f2r. Qed.

Lemma fmt64_abs t : fmt64 t -> fmt64 (Rabs t).
Proof.
  intros H. unfold Rabs. destruct (Rcase_abs t); [|exact H].
  unfold fmt64. rewrite rnd64_odd. now rewrite H.
Qed.

Lemma oseq_map2_some {A} (h : R -> R -> A) : forall x y, oseq (map2 (fun a b => Some (h a b)) x y) = Some (map2 h x y).
Proof.
  induction x as [|a x IH]; intros [|b y]; cbn [map2 oseq]; try reflexivity. now rewrite IH.
Qed.

Lemma map2_ext_P {A} (P : R -> Prop) (h g : R -> R -> A) : forall x y,
  Forall P x -> Forall P y -> (forall a b, P a -> P b -> h a b = g a b) -> map2 h x y = map2 g x y.
Proof.
  induction x as [|a x IH]; intros [|b y] Hx Hy H; cbn [map2]; try reflexivity.
  inversion Hx; inversion Hy; subst. rewrite H by assumption. f_equal. now apply IH.
Qed.

Lemma Forall_map2 {A} (Q : A -> Prop) (h : R -> R -> A) : (forall a b, Q (h a b)) -> forall x y, Forall Q (map2 h x y).
Proof.
  intros H. induction x as [|a x IH]; intros [|b y]; cbn [map2]; constructor; auto.
Qed.

Lemma rsum_agree64 (l : list R) : Forall fmt64 l -> rsum rnd64 l = rsum rnd64x l.
Proof.
  intros H. destruct l as [|a t]; [reflexivity|]. inversion H; subst. unfold rsum. now apply rsum_agree.
Qed.

Lemma fmt64_fold (t : list R) : forall a, fmt64 a -> fmt64 (fold_left (fun acc e => rnd64 (acc + e)) t a).
Proof. induction t as [|e t IH]; intros a Ha; cbn [fold_left]; [exact Ha|]. apply IH. apply fmt64_rnd64. Qed.

Lemma fmt64_rsum (l : list R) : Forall fmt64 l -> fmt64 (rsum rnd64 l).
Proof.
  intros H. destruct l as [|a t]; [exact rnd64_zero|]. inversion H; subst. unfold rsum. now apply fmt64_fold.
Qed.

(* the rounded absolute differences: identical in both formats, and binary64 numbers *)
Definition absd (rnd : R -> R) (a b : R) : R := Rabs (rnd (a - b)).

Lemma absd_agree x y : Forall fmt64 x -> Forall fmt64 y -> map2 (absd rnd64) x y = map2 (absd rnd64x) x y.
Proof.
  intros Hx Hy. apply (map2_ext_P fmt64); try assumption.
  intros a b Ha Hb. unfold absd. now rewrite (agree64_sub a b Ha Hb).
Qed.

Lemma absd_fmt x y : Forall fmt64 (map2 (absd rnd64) x y).
Proof. apply Forall_map2. intros a b. apply fmt64_abs. apply fmt64_rnd64. Qed.

(* ---------------- the bodies, characterised ---------------- *)
Ltac unfold_metric :=
  unfold metric_rnd, evalRnd_wrapped, evalRnd_wrapped_with, wrapR, eval_bodyR;
  cbn [m_avoid_zero m_body ir_manhattan ir_chebyshev ir_hamming ir_gower ir_non_intersection ir_squared_euclidean ir_euclidean
       evalSR evalVR unRnd binRnd powRnd obind obind2].

Lemma mr_manhattan rnd x y : metric_rnd rnd ir_manhattan x y = Some (rsum rnd (map2 (absd rnd) x y)).
Proof. unfold_metric. fold (absd rnd). now rewrite oseq_map2_some. Qed.

Lemma mr_chebyshev rnd x y : metric_rnd rnd ir_chebyshev x y = Some (lmax (map2 (absd rnd) x y)).
Proof. unfold_metric. fold (absd rnd). now rewrite oseq_map2_some. Qed.

Lemma mr_hamming rnd rnd' x y : metric_rnd rnd ir_hamming x y = metric_rnd rnd' ir_hamming x y.
Proof. unfold_metric. reflexivity. Qed.

(* ---------------- agreement, no side condition ---------------- *)
Lemma agree_manhattan x y : Forall fmt64 x -> Forall fmt64 y ->
  metric_rnd rnd64 ir_manhattan x y = metric_rnd rnd64x ir_manhattan x y.
Proof.
  intros Hx Hy. rewrite !mr_manhattan. rewrite <- (absd_agree x y Hx Hy). f_equal. apply rsum_agree64. apply absd_fmt.
Qed.

Lemma agree_chebyshev x y : Forall fmt64 x -> Forall fmt64 y ->
  metric_rnd rnd64 ir_chebyshev x y = metric_rnd rnd64x ir_chebyshev x y.
Proof. intros Hx Hy. rewrite !mr_chebyshev. now rewrite <- (absd_agree x y Hx Hy). Qed.

Lemma plain_exact_table :
  (plain_metric ir_manhattan = true /\ consts_exactS (m_body ir_manhattan) = true) /\
  (plain_metric ir_chebyshev = true /\ consts_exactS (m_body ir_chebyshev) = true) /\
  (plain_metric ir_hamming = true /\ consts_exactS (m_body ir_hamming) = true) /\
  (plain_metric ir_gower = true /\ consts_exactS (m_body ir_gower) = true) /\
  (plain_metric ir_non_intersection = true /\ consts_exactS (m_body ir_non_intersection) = true) /\
  (plain_metric ir_squared_euclidean = true /\ consts_exactS (m_body ir_squared_euclidean) = true) /\
  (plain_metric ir_euclidean = true /\ consts_exactS (m_body ir_euclidean) = true) /\
  (plain_metric ir_average_euclidean = true /\ consts_exactS (m_body ir_average_euclidean) = true).
Proof. vm_compute. repeat split. Qed.

(* ---------------- capstones without side condition ---------------- *)
Theorem capstone_manhattan : forall (x y : list PrimFloat.float) (f : PrimFloat.float),
  Forall (fun a => ffin a = true) x -> Forall (fun a => ffin a = true) y -> length x = length y -> (1 <= length x)%nat ->
  (Z.of_nat (length x) <= 2 ^ 53)%Z ->
  metric_fltc ir_manhattan x y = Some f ->
  Rabs (f2r f - sp_manhattan (map f2r x) (map f2r y))
  <= ((1 + u64) ^ (length x) - 1) * sp_manhattan (map f2r x) (map f2r y).
Proof.
  intros x y f Fx Fy L N Z E.
  destruct plain_exact_table as ([P C] & _). destruct b64_table as (_ & B & _).
  apply (capstone_gen ir_manhattan sp_manhattan (fun n => n) P C B x y f Fx Fy L N Z E).
  apply agree_manhattan; apply fmt64_map_f2r.
Qed.

Theorem capstone_chebyshev : forall (x y : list PrimFloat.float) (f : PrimFloat.float),
  Forall (fun a => ffin a = true) x -> Forall (fun a => ffin a = true) y -> length x = length y -> (1 <= length x)%nat ->
  (Z.of_nat (length x) <= 2 ^ 53)%Z ->
  metric_fltc ir_chebyshev x y = Some f ->
  Rabs (f2r f - sp_chebyshev (map f2r x) (map f2r y))
  <= ((1 + u64) ^ 1 - 1) * sp_chebyshev (map f2r x) (map f2r y).
Proof.
  intros x y f Fx Fy L N Z E.
  destruct plain_exact_table as (_ & [P C] & _). destruct b64_table as (_ & _ & _ & _ & B & _).
  apply (capstone_gen ir_chebyshev sp_chebyshev (fun _ => 1%nat) P C B x y f Fx Fy L N Z E).
  apply agree_chebyshev; apply fmt64_map_f2r.
Qed.

Theorem capstone_hamming : forall (x y : list PrimFloat.float) (f : PrimFloat.float),
  Forall (fun a => ffin a = true) x -> Forall (fun a => ffin a = true) y -> length x = length y -> (1 <= length x)%nat ->
  (Z.of_nat (length x) <= 2 ^ 53)%Z ->
  metric_fltc ir_hamming x y = Some f ->
  Rabs (f2r f - sp_hamming (map f2r x) (map f2r y))
  <= ((1 + u64) ^ 0 - 1) * sp_hamming (map f2r x) (map f2r y).
Proof.
  intros x y f Fx Fy L N Z E.
  destruct plain_exact_table as (_ & _ & [P C] & _). destruct b64_table as (_ & _ & _ & _ & _ & B & _).
  apply (capstone_gen ir_hamming sp_hamming (fun _ => 0%nat) P C B x y f Fx Fy L N Z E).
  apply mr_hamming.
Qed.

(* the count is exact *)
Corollary capstone_hamming_exact : forall (x y : list PrimFloat.float) (f : PrimFloat.float),
  Forall (fun a => ffin a = true) x -> Forall (fun a => ffin a = true) y -> length x = length y -> (1 <= length x)%nat ->
  (Z.of_nat (length x) <= 2 ^ 53)%Z ->
  metric_fltc ir_hamming x y = Some f ->
  f2r f = sp_hamming (map f2r x) (map f2r y).
Proof.
  intros x y f Fx Fy L N Z E. pose proof (capstone_hamming x y f Fx Fy L N Z E) as H.
  replace (((1 + u64) ^ 0 - 1) * sp_hamming (map f2r x) (map f2r y)) with 0 in H by (cbn [pow]; ring).
  pose proof (Rabs_pos (f2r f - sp_hamming (map f2r x) (map f2r y))) as H0.
  assert (H1 : Rabs (f2r f - sp_hamming (map f2r x) (map f2r y)) = 0) by lra.
  destruct (Req_dec (f2r f - sp_hamming (map f2r x) (map f2r y)) 0) as [H2|H2]; [lra|].
  apply Rabs_no_R0 in H2. contradiction.
Qed.

(* non-vacuity of the three: finite vectors of length 3 with entries that are not small integers *)
Lemma capstone_nonvacuous_nocond :
  exists (x y : list PrimFloat.float) (f1 f2 f3 : PrimFloat.float),
    Forall (fun a => ffin a = true) x /\ Forall (fun a => ffin a = true) y /\ length x = length y /\ length x = 3%nat
    /\ (Z.of_nat (length x) <= 2 ^ 53)%Z
    /\ metric_fltc ir_manhattan x y = Some f1 /\ metric_fltc ir_chebyshev x y = Some f2
    /\ metric_fltc ir_hamming x y = Some f3.
Proof.
  exists [0.125%float; 3%float; 2.5%float], [4%float; 0.5%float; 2.5%float].
  assert (E1 : exists f, metric_fltc ir_manhattan [0.125%float; 3%float; 2.5%float] [4%float; 0.5%float; 2.5%float] = Some f)
    by (vm_compute; eauto).
  assert (E2 : exists f, metric_fltc ir_chebyshev [0.125%float; 3%float; 2.5%float] [4%float; 0.5%float; 2.5%float] = Some f)
    by (vm_compute; eauto).
  assert (E3 : exists f, metric_fltc ir_hamming [0.125%float; 3%float; 2.5%float] [4%float; 0.5%float; 2.5%float] = Some f)
    by (vm_compute; eauto).
  destruct E1 as [f1 E1], E2 as [f2 E2], E3 as [f3 E3]. exists f1, f2, f3.
  repeat split; try assumption; try (repeat constructor). vm_compute. discriminate.
Qed.
