(* The C06 capstone at binary64: the float [metric_fltc] returns (bit-exact against DISTANCES) is within the proved relative
   bound of the closed form.

   Route: metric_fltc --(Proofs/MetricFltRefine.v)--> metric_rnd rnd64 --(agreement, this file)--> metric_rnd rnd64x
          --(Proofs/Binary64Metric.v: b64_table)--> the closed form.

   Agreement [metric_rnd rnd64 m X Y = metric_rnd rnd64x m X Y] on vectors of binary64 numbers is proved per identifier on the
   characterised bodies.  Additions/subtractions of binary64 numbers never underflow inexactly (Proofs/Binary64Agree.v), the
   square root of a binary64 number is 0 or >= 2^-537; only squares, the product by 1/2 and the division by the length
   can, and there the side condition [normal64 t] (t = 0 or 2^-1022 <= |t|) is asked of the exact argument of that rounding. *)
From Coq Require Import Reals List ZArith QArith Qreals Bool Lia Lra Floats.
From Flocq Require Import Core.
From OPF Require Import Base.Lists Base.NumOps Base.NumOpsRnd Spec.MetricSpec Model.MetricIR Gen.Metrics_gen Model.MetricRnd
  Model.MetricRdepth Proofs.RdepthWitness Model.Binary64 Model.Binary64Metric Proofs.Binary64 Proofs.Binary64Ops
  Proofs.Binary64Metric Proofs.Binary64Agree Model.MetricFlt Model.MetricFltRefine Proofs.MetricFltOps Proofs.MetricFltRefine.
Import ListNotations.
Local Open Scope R_scope.

(* ---------------- composition ---------------- *)
Lemma capstone_gen (m : metric_ir) (sp : list R -> list R -> R) (k : nat -> nat) :
  plain_metric m = true -> consts_exactS (m_body m) = true ->
  rounding_bound_at u64 rnd64x m sp k ->
  forall (x y : list PrimFloat.float) (f : PrimFloat.float),
  Forall (fun a => ffin a = true) x -> Forall (fun a => ffin a = true) y -> length x = length y -> (1 <= length x)%nat ->
  (Z.of_nat (length x) <= 2 ^ 53)%Z ->
  metric_fltc m x y = Some f ->
  metric_rnd rnd64 m (map f2r x) (map f2r y) = metric_rnd rnd64x m (map f2r x) (map f2r y) ->
  Rabs (f2r f - sp (map f2r x) (map f2r y)) <= ((1 + u64) ^ k (length x) - 1) * sp (map f2r x) (map f2r y).
Proof.
  intros P C B x y f Fx Fy L N Z E A.
  destruct (metric_fltc_refines_plain m x y f P C Fx Fy L Z E) as [_ R].
  destruct (B (map f2r x) (map f2r y)) as [fl [E' [_ B']]].
  - now rewrite !map_length.
  - now rewrite map_length.
  - rewrite A, E' in R. inversion R; subst. rewrite map_length in B'. exact B'.
Qed.

(* ---------------- lists of binary64 numbers ---------------- *)
Lemma fmt64_map_f2r (x : list PrimFloat.float) : Forall fmt64 (map f2r x).
Proof. apply Forall_forall. intros t Ht. apply in_map_iff in Ht. destruct Ht as [a [<- _]]. apply fmt64_f2r. Qed.

Lemma fmt64_abs t : fmt64 t -> fmt64 (Rabs t).
Proof.
  intros H. unfold Rabs. destruct (Rcase_abs t); [|exact H].
  unfold fmt64. rewrite rnd64_odd. now rewrite H.
Qed.

Lemma oseq_map2_some {A} (h : R -> R -> A) : forall x y, oseq (map2 (fun a b => Some (h a b)) x y) = Some (map2 h x y).
Proof.
  induction x as [|a x IH]; intros [|b y]; cbn [map2 oseq]; try reflexivity. now rewrite IH.
Qed.

Lemma map2_ext_P {A} (P : R -> Prop) (h g : R -> R -> A) : forall x y,
  Forall P x -> Forall P y -> (forall a b, P a -> P b -> h a b = g a b) -> map2 h x y = map2 g x y.
Proof.
  induction x as [|a x IH]; intros [|b y] Hx Hy H; cbn [map2]; try reflexivity.
  inversion Hx; inversion Hy; subst. rewrite H by assumption. f_equal. now apply IH.
Qed.

Lemma Forall_map2 {A} (Q : A -> Prop) (h : R -> R -> A) : (forall a b, Q (h a b)) -> forall x y, Forall Q (map2 h x y).
Proof.
  intros H. induction x as [|a x IH]; intros [|b y]; cbn [map2]; constructor; auto.
Qed.

Lemma rsum_agree64 (l : list R) : Forall fmt64 l -> rsum rnd64 l = rsum rnd64x l.
Proof.
  intros H. destruct l as [|a t]; [reflexivity|]. inversion H; subst. unfold rsum. now apply rsum_agree.
Qed.

Lemma fmt64_fold (t : list R) : forall a, fmt64 a -> fmt64 (fold_left (fun acc e => rnd64 (acc + e)) t a).
Proof. induction t as [|e t IH]; intros a Ha; cbn [fold_left]; [exact Ha|]. apply IH. apply fmt64_rnd64. Qed.

Lemma fmt64_rsum (l : list R) : Forall fmt64 l -> fmt64 (rsum rnd64 l).
Proof.
  intros H. destruct l as [|a t]; [exact rnd64_zero|]. inversion H; subst. unfold rsum. now apply fmt64_fold.
Qed.

(* the rounded absolute differences: identical in both formats, and binary64 numbers *)
Definition absd (rnd : R -> R) (a b : R) : R := Rabs (rnd (a - b)).

Lemma absd_agree x y : Forall fmt64 x -> Forall fmt64 y -> map2 (absd rnd64) x y = map2 (absd rnd64x) x y.
Proof.
  intros Hx Hy. apply (map2_ext_P fmt64); try assumption.
  intros a b Ha Hb. unfold absd. now rewrite (agree64_sub a b Ha Hb).
Qed.

Lemma absd_fmt x y : Forall fmt64 (map2 (absd rnd64) x y).
Proof. apply Forall_map2. intros a b. apply fmt64_abs. apply fmt64_rnd64. Qed.

(* ---------------- the bodies, characterised ---------------- *)
Ltac unfold_metric :=
  unfold metric_rnd, evalRnd_wrapped, evalRnd_wrapped_with, wrapR, eval_bodyR;
  cbn [m_avoid_zero m_body ir_manhattan ir_chebyshev ir_hamming ir_gower ir_non_intersection ir_squared_euclidean ir_euclidean
       evalSR evalVR unRnd binRnd powRnd obind obind2].

Lemma mr_manhattan rnd x y : metric_rnd rnd ir_manhattan x y = Some (rsum rnd (map2 (absd rnd) x y)).
Proof. unfold_metric. fold (absd rnd). now rewrite oseq_map2_some. Qed.

Lemma mr_chebyshev rnd x y : metric_rnd rnd ir_chebyshev x y = Some (lmax (map2 (absd rnd) x y)).
Proof. unfold_metric. fold (absd rnd). now rewrite oseq_map2_some. Qed.

Lemma mr_hamming rnd rnd' x y : metric_rnd rnd ir_hamming x y = metric_rnd rnd' ir_hamming x y.
Proof. unfold_metric. reflexivity. Qed.

(* ---------------- agreement, no side condition ---------------- *)
Lemma agree_manhattan x y : Forall fmt64 x -> Forall fmt64 y ->
  metric_rnd rnd64 ir_manhattan x y = metric_rnd rnd64x ir_manhattan x y.
Proof.
  intros Hx Hy. rewrite !mr_manhattan. rewrite <- (absd_agree x y Hx Hy). f_equal. apply rsum_agree64. apply absd_fmt.
Qed.

Lemma agree_chebyshev x y : Forall fmt64 x -> Forall fmt64 y ->
  metric_rnd rnd64 ir_chebyshev x y = metric_rnd rnd64x ir_chebyshev x y.
Proof. intros Hx Hy. rewrite !mr_chebyshev. now rewrite <- (absd_agree x y Hx Hy). Qed.

Lemma plain_exact_table :
  (plain_metric ir_manhattan = true /\ consts_exactS (m_body ir_manhattan) = true) /\
  (plain_metric ir_chebyshev = true /\ consts_exactS (m_body ir_chebyshev) = true) /\
  (plain_metric ir_hamming = true /\ consts_exactS (m_body ir_hamming) = true) /\
  (plain_metric ir_gower = true /\ consts_exactS (m_body ir_gower) = true) /\
  (plain_metric ir_non_intersection = true /\ consts_exactS (m_body ir_non_intersection) = true) /\
  (plain_metric ir_squared_euclidean = true /\ consts_exactS (m_body ir_squared_euclidean) = true) /\
  (plain_metric ir_euclidean = true /\ consts_exactS (m_body ir_euclidean) = true) /\
  (plain_metric ir_average_euclidean = true /\ consts_exactS (m_body ir_average_euclidean) = true).
Proof. vm_compute. repeat split. Qed.

(* ---------------- capstones without side condition ---------------- *)
Theorem capstone_manhattan : forall (x y : list PrimFloat.float) (f : PrimFloat.float),
  Forall (fun a => ffin a = true) x -> Forall (fun a => ffin a = true) y -> length x = length y -> (1 <= length x)%nat ->
  (Z.of_nat (length x) <= 2 ^ 53)%Z ->
  metric_fltc ir_manhattan x y = Some f ->
  Rabs (f2r f - sp_manhattan (map f2r x) (map f2r y))
  <= ((1 + u64) ^ (length x) - 1) * sp_manhattan (map f2r x) (map f2r y).
Proof.
  intros x y f Fx Fy L N Z E.
  destruct plain_exact_table as ([P C] & _). destruct b64_table as (_ & B & _).
  apply (capstone_gen ir_manhattan sp_manhattan (fun n => n) P C B x y f Fx Fy L N Z E).
  apply agree_manhattan; apply fmt64_map_f2r.
Qed.

Theorem capstone_chebyshev : forall (x y : list PrimFloat.float) (f : PrimFloat.float),
  Forall (fun a => ffin a = true) x -> Forall (fun a => ffin a = true) y -> length x = length y -> (1 <= length x)%nat ->
  (Z.of_nat (length x) <= 2 ^ 53)%Z ->
  metric_fltc ir_chebyshev x y = Some f ->
  Rabs (f2r f - sp_chebyshev (map f2r x) (map f2r y))
  <= ((1 + u64) ^ 1 - 1) * sp_chebyshev (map f2r x) (map f2r y).
Proof.
  intros x y f Fx Fy L N Z E.
  destruct plain_exact_table as (_ & [P C] & _). destruct b64_table as (_ & _ & _ & _ & B & _).
  apply (capstone_gen ir_chebyshev sp_chebyshev (fun _ => 1%nat) P C B x y f Fx Fy L N Z E).
  apply agree_chebyshev; apply fmt64_map_f2r.
Qed.

Theorem capstone_hamming : forall (x y : list PrimFloat.float) (f : PrimFloat.float),
  Forall (fun a => ffin a = true) x -> Forall (fun a => ffin a = true) y -> length x = length y -> (1 <= length x)%nat ->
  (Z.of_nat (length x) <= 2 ^ 53)%Z ->
  metric_fltc ir_hamming x y = Some f ->
  Rabs (f2r f - sp_hamming (map f2r x) (map f2r y))
  <= ((1 + u64) ^ 0 - 1) * sp_hamming (map f2r x) (map f2r y).
Proof.
  intros x y f Fx Fy L N Z E.
  destruct plain_exact_table as (_ & _ & [P C] & _). destruct b64_table as (_ & _ & _ & _ & _ & B & _).
  apply (capstone_gen ir_hamming sp_hamming (fun _ => 0%nat) P C B x y f Fx Fy L N Z E).
  apply mr_hamming.
Qed.

(* the count is exact *)
Corollary capstone_hamming_exact : forall (x y : list PrimFloat.float) (f : PrimFloat.float),
  Forall (fun a => ffin a = true) x -> Forall (fun a => ffin a = true) y -> length x = length y -> (1 <= length x)%nat ->
  (Z.of_nat (length x) <= 2 ^ 53)%Z ->
  metric_fltc ir_hamming x y = Some f ->
  f2r f = sp_hamming (map f2r x) (map f2r y).
Proof.
  intros x y f Fx Fy L N Z E. pose proof (capstone_hamming x y f Fx Fy L N Z E) as H.
  replace (((1 + u64) ^ 0 - 1) * sp_hamming (map f2r x) (map f2r y)) with 0 in H by (cbn [pow]; ring).
  pose proof (Rabs_pos (f2r f - sp_hamming (map f2r x) (map f2r y))) as H0.
  assert (H1 : Rabs (f2r f - sp_hamming (map f2r x) (map f2r y)) = 0) by lra.
  destruct (Req_dec (f2r f - sp_hamming (map f2r x) (map f2r y)) 0) as [H2|H2]; [lra|].
  apply Rabs_no_R0 in H2. contradiction.
Qed.

(* non-vacuity of the three: finite vectors of length 3 with entries that are not small integers *)
Lemma capstone_nonvacuous_nocond :
  exists (x y : list PrimFloat.float) (f1 f2 f3 : PrimFloat.float),
    Forall (fun a => ffin a = true) x /\ Forall (fun a => ffin a = true) y /\ length x = length y /\ length x = 3%nat
    /\ (Z.of_nat (length x) <= 2 ^ 53)%Z
    /\ metric_fltc ir_manhattan x y = Some f1 /\ metric_fltc ir_chebyshev x y = Some f2
    /\ metric_fltc ir_hamming x y = Some f3.
Proof.
  exists [0.125%float; 3%float; 2.5%float], [4%float; 0.5%float; 2.5%float].
  assert (E1 : exists f, metric_fltc ir_manhattan [0.125%float; 3%float; 2.5%float] [4%float; 0.5%float; 2.5%float] = Some f)
    by (vm_compute; eauto).
  assert (E2 : exists f, metric_fltc ir_chebyshev [0.125%float; 3%float; 2.5%float] [4%float; 0.5%float; 2.5%float] = Some f)
    by (vm_compute; eauto).
  assert (E3 : exists f, metric_fltc ir_hamming [0.125%float; 3%float; 2.5%float] [4%float; 0.5%float; 2.5%float] = Some f)
    by (vm_compute; eauto).
  destruct E1 as [f1 E1], E2 as [f2 E2], E3 as [f3 E3]. exists f1, f2, f3.
  repeat split; try assumption; try (repeat constructor). vm_compute. discriminate.
Qed.

(* ================= identifiers with one rounding that may underflow ================= *)

(* the square root of a binary64 number never underflows: it is 0 or >= 2^-537 *)
Lemma normal64_sqrt s : fmt64 s -> ~ s < 0 -> normal64 (R_sqrt.sqrt s).
Proof.
  intros Hs Hn. destruct (Req_dec s 0) as [->|Hz]; [left; apply sqrt_0|]. right.
  assert (Hpos : 0 < s) by lra.
  destruct (proj1 (fix64_repr s) (fix64_of_fmt64 s Hs)) as [m Em].
  assert (Hb : 0 < bpow radix2 (-1074)) by apply bpow_gt_0.
  assert (Hm : (1 <= m)%Z).
  { destruct (Z_lt_le_dec m 1) as [L|L]; [|exact L]. exfalso.
    assert (IZR m <= 0) by (apply IZR_le; lia). nra. }
  assert (Hge : bpow radix2 (-1074) <= s).
  { rewrite Em. apply IZR_le in Hm. nra. }
  rewrite Rabs_pos_eq by apply sqrt_ge_0.
  rewrite <- bpow_m1022.
  apply Rle_trans with (bpow radix2 (-537)); [apply bpow_le; lia|].
  change (-1074)%Z with (2 * -537)%Z in Hge. rewrite <- (sqrt_bpow radix2 (-537)).
  now apply sqrt_le_1_alt.
Qed.

Definition sqd (rnd : R -> R) (a b : R) : R := rnd (rnd (a - b) ^ 2).

Lemma mr_gower rnd x y : metric_rnd rnd ir_gower x y =
  if Req_EM_T (len x) 0 then None else Some (rnd (rsum rnd (map2 (absd rnd) x y) / len x)).
Proof. unfold_metric. fold (absd rnd). rewrite oseq_map2_some. reflexivity. Qed.

Lemma mr_non_intersection rnd x y : metric_rnd rnd ir_non_intersection x y =
  Some (rnd (/ 2 * rsum rnd (map2 (absd rnd) x y))).
Proof.
  unfold_metric. fold (absd rnd). rewrite oseq_map2_some. cbn [obind obind2 binRnd].
  replace (Q2R (1 # 2)) with (/ 2); [reflexivity|]. unfold Q2R. cbn [Qnum Qden]. lra.
Qed.

Lemma mr_squared_euclidean rnd x y : metric_rnd rnd ir_squared_euclidean x y = Some (rsum rnd (map2 (sqd rnd) x y)).
Proof. unfold_metric. fold (sqd rnd). now rewrite oseq_map2_some. Qed.

Lemma mr_euclidean rnd x y : metric_rnd rnd ir_euclidean x y =
  if Rlt_dec (rsum rnd (map2 (sqd rnd) x y)) 0 then None else Some (rnd (R_sqrt.sqrt (rsum rnd (map2 (sqd rnd) x y)))).
Proof. unfold_metric. fold (sqd rnd). rewrite oseq_map2_some. reflexivity. Qed.

Lemma agree_gower x y : Forall fmt64 x -> Forall fmt64 y ->
  normal64 (rsum rnd64 (map2 (fun a b => Rabs (rnd64 (a - b))) x y) / len x) ->
  metric_rnd rnd64 ir_gower x y = metric_rnd rnd64x ir_gower x y.
Proof.
  intros Hx Hy Hn. rewrite !mr_gower. rewrite <- (absd_agree x y Hx Hy). rewrite <- (rsum_agree64 _ (absd_fmt x y)).
  destruct (Req_EM_T (len x) 0); [reflexivity|]. f_equal. apply agree64_normal. exact Hn.
Qed.

Lemma agree_non_intersection x y : Forall fmt64 x -> Forall fmt64 y ->
  normal64 (/ 2 * rsum rnd64 (map2 (fun a b => Rabs (rnd64 (a - b))) x y)) ->
  metric_rnd rnd64 ir_non_intersection x y = metric_rnd rnd64x ir_non_intersection x y.
Proof.
  intros Hx Hy Hn. rewrite !mr_non_intersection. rewrite <- (absd_agree x y Hx Hy). rewrite <- (rsum_agree64 _ (absd_fmt x y)).
  f_equal. apply agree64_normal. exact Hn.
Qed.

(* no rounded square underflows *)
Definition squares_normal (x y : list R) : Prop :=
  Forall (fun d => normal64 (d ^ 2)) (map2 (fun a b => rnd64 (a - b)) x y).

Lemma sqd_agree : forall x y, Forall fmt64 x -> Forall fmt64 y -> squares_normal x y ->
  map2 (sqd rnd64) x y = map2 (sqd rnd64x) x y.
Proof.
  unfold squares_normal.
  induction x as [|a x IH]; intros [|b y] Hx Hy Hn; cbn [map2] in *; try reflexivity.
  inversion Hx; inversion Hy; inversion Hn; subst. f_equal; [|now apply IH].
  unfold sqd. rewrite <- (agree64_sub a b) by assumption. now apply agree64_normal.
Qed.

Lemma sqd_fmt x y : Forall fmt64 (map2 (sqd rnd64) x y).
Proof. apply Forall_map2. intros a b. apply fmt64_rnd64. Qed.

Lemma agree_squared_euclidean x y : Forall fmt64 x -> Forall fmt64 y -> squares_normal x y ->
  metric_rnd rnd64 ir_squared_euclidean x y = metric_rnd rnd64x ir_squared_euclidean x y.
Proof.
  intros Hx Hy Hn. rewrite !mr_squared_euclidean. rewrite <- (sqd_agree x y Hx Hy Hn). f_equal.
  apply rsum_agree64. apply sqd_fmt.
Qed.

Lemma agree_euclidean x y : Forall fmt64 x -> Forall fmt64 y -> squares_normal x y ->
  metric_rnd rnd64 ir_euclidean x y = metric_rnd rnd64x ir_euclidean x y.
Proof.
  intros Hx Hy Hn. rewrite !mr_euclidean. rewrite <- (sqd_agree x y Hx Hy Hn). rewrite <- (rsum_agree64 _ (sqd_fmt x y)).
  destruct (Rlt_dec (rsum rnd64 (map2 (sqd rnd64) x y)) 0) as [L|L]; [reflexivity|]. f_equal.
  apply agree64_normal. apply normal64_sqrt; [|exact L]. apply fmt64_rsum. apply sqd_fmt.
Qed.

Theorem capstone_gower : forall (x y : list PrimFloat.float) (f : PrimFloat.float),
  Forall (fun a => ffin a = true) x -> Forall (fun a => ffin a = true) y -> length x = length y -> (1 <= length x)%nat ->
  (Z.of_nat (length x) <= 2 ^ 53)%Z ->
  metric_fltc ir_gower x y = Some f ->
  normal64 (rsum rnd64 (map2 (fun a b => Rabs (rnd64 (a - b))) (map f2r x) (map f2r y)) / len (map f2r x)) ->
  Rabs (f2r f - sp_gower (map f2r x) (map f2r y))
  <= ((1 + u64) ^ (length x + 1) - 1) * sp_gower (map f2r x) (map f2r y).
Proof.
  intros x y f Fx Fy L N Z E U.
  destruct plain_exact_table as (_ & _ & _ & [P C] & _). destruct b64_table as (_ & _ & _ & _ & _ & _ & B & _).
  apply (capstone_gen ir_gower sp_gower (fun n => (n + 1)%nat) P C B x y f Fx Fy L N Z E).
  apply agree_gower; [apply fmt64_map_f2r | apply fmt64_map_f2r | exact U].
Qed.

Theorem capstone_non_intersection : forall (x y : list PrimFloat.float) (f : PrimFloat.float),
  Forall (fun a => ffin a = true) x -> Forall (fun a => ffin a = true) y -> length x = length y -> (1 <= length x)%nat ->
  (Z.of_nat (length x) <= 2 ^ 53)%Z ->
  metric_fltc ir_non_intersection x y = Some f ->
  normal64 (/ 2 * rsum rnd64 (map2 (fun a b => Rabs (rnd64 (a - b))) (map f2r x) (map f2r y))) ->
  Rabs (f2r f - sp_non_intersection (map f2r x) (map f2r y))
  <= ((1 + u64) ^ (length x + 1) - 1) * sp_non_intersection (map f2r x) (map f2r y).
Proof.
  intros x y f Fx Fy L N Z E U.
  destruct plain_exact_table as (_ & _ & _ & _ & [P C] & _). destruct b64_table as (_ & _ & _ & _ & _ & _ & _ & B).
  apply (capstone_gen ir_non_intersection sp_non_intersection (fun n => (n + 1)%nat) P C B x y f Fx Fy L N Z E).
  apply agree_non_intersection; [apply fmt64_map_f2r | apply fmt64_map_f2r | exact U].
Qed.

Theorem capstone_squared_euclidean : forall (x y : list PrimFloat.float) (f : PrimFloat.float),
  Forall (fun a => ffin a = true) x -> Forall (fun a => ffin a = true) y -> length x = length y -> (1 <= length x)%nat ->
  (Z.of_nat (length x) <= 2 ^ 53)%Z ->
  metric_fltc ir_squared_euclidean x y = Some f ->
  Forall (fun d => normal64 (d ^ 2)) (map2 (fun a b => rnd64 (a - b)) (map f2r x) (map f2r y)) ->
  Rabs (f2r f - sp_squared_euclidean (map f2r x) (map f2r y))
  <= ((1 + u64) ^ (length x + 2) - 1) * sp_squared_euclidean (map f2r x) (map f2r y).
Proof.
  intros x y f Fx Fy L N Z E U.
  destruct plain_exact_table as (_ & _ & _ & _ & _ & [P C] & _). destruct b64_table as (B & _).
  apply (capstone_gen ir_squared_euclidean sp_squared_euclidean (fun n => (n + 2)%nat) P C B x y f Fx Fy L N Z E).
  apply agree_squared_euclidean; [apply fmt64_map_f2r | apply fmt64_map_f2r | exact U].
Qed.

Theorem capstone_euclidean : forall (x y : list PrimFloat.float) (f : PrimFloat.float),
  Forall (fun a => ffin a = true) x -> Forall (fun a => ffin a = true) y -> length x = length y -> (1 <= length x)%nat ->
  (Z.of_nat (length x) <= 2 ^ 53)%Z ->
  metric_fltc ir_euclidean x y = Some f ->
  Forall (fun d => normal64 (d ^ 2)) (map2 (fun a b => rnd64 (a - b)) (map f2r x) (map f2r y)) ->
  Rabs (f2r f - sp_euclidean (map f2r x) (map f2r y))
  <= ((1 + u64) ^ ((length x + 3) / 2 + 1) - 1) * sp_euclidean (map f2r x) (map f2r y).
Proof.
  intros x y f Fx Fy L N Z E U.
  destruct plain_exact_table as (_ & _ & _ & _ & _ & _ & [P C] & _). destruct b64_table as (_ & _ & B & _).
  apply (capstone_gen ir_euclidean sp_euclidean (fun n => ((n + 3) / 2 + 1)%nat) P C B x y f Fx Fy L N Z E).
  apply agree_euclidean; [apply fmt64_map_f2r | apply fmt64_map_f2r | exact U].
Qed.

(* ---------------- non-vacuity of the conditional capstones ---------------- *)
Lemma f2r_lit (f : PrimFloat.float) (z : Z) : flt_is_Q f (inject_Z z) = true -> f2r f = IZR z.
Proof.
  intros H. destruct (flt_is_Q_sound f _ H) as [_ E]. rewrite E. unfold Q2R, inject_Z. cbn [Qnum Qden]. lra.
Qed.

Lemma rnd64_intR (z : Z) (r : R) : r = IZR z -> (Z.abs z <= 2 ^ 53)%Z -> rnd64 r = r.
Proof. intros -> H. now apply rnd64_int. Qed.

Lemma normal64_ge1 t : 1 <= t -> normal64 t.
Proof.
  intros H. right. rewrite Rabs_pos_eq by lra. apply Rle_trans with 1; [|exact H].
  assert (H1 : 1 <= 2 ^ 1022) by (apply pow_R1_Rle; lra).
  rewrite <- Rinv_1. apply Rinv_le_contravar; lra.
Qed.

Definition ex_x : list PrimFloat.float := [0%float; 3%float].
Definition ex_y : list PrimFloat.float := [4%float; 1%float].

Lemma ex_vals : map f2r ex_x = [0; 3] /\ map f2r ex_y = [4; 1].
Proof.
  unfold ex_x, ex_y. cbn [map].
  rewrite (f2r_lit 0%float 0 eq_refl), (f2r_lit 3%float 3 eq_refl), (f2r_lit 4%float 4 eq_refl), (f2r_lit 1%float 1 eq_refl).
  split; reflexivity.
Qed.

Lemma ex_absd : map2 (fun a b => Rabs (rnd64 (a - b))) [0; 3] [4; 1] = [4; 2].
Proof.
  cbn [map2].
  rewrite (rnd64_intR (-4) (0 - 4)) by (lra || now vm_compute).
  rewrite (rnd64_intR 2 (3 - 1)) by (lra || now vm_compute).
  rewrite (Rabs_left (0 - 4)), (Rabs_right (3 - 1)) by lra.
  repeat f_equal; lra.
Qed.

Lemma ex_rsum : rsum rnd64 [4; 2] = 6.
Proof. cbn [rsum fold_left]. rewrite (rnd64_intR 6 (4 + 2)) by (lra || now vm_compute). lra. Qed.

Lemma ex_diffs : map2 (fun a b => rnd64 (a - b)) [0; 3] [4; 1] = [-4; 2].
Proof.
  cbn [map2].
  rewrite (rnd64_intR (-4) (0 - 4)) by (lra || now vm_compute).
  rewrite (rnd64_intR 2 (3 - 1)) by (lra || now vm_compute).
  repeat f_equal; lra.
Qed.

Lemma capstone_nonvacuous_cond :
  exists (x y : list PrimFloat.float) (f1 f2 f3 f4 : PrimFloat.float),
    Forall (fun a => ffin a = true) x /\ Forall (fun a => ffin a = true) y /\ length x = length y /\ length x = 2%nat
    /\ (Z.of_nat (length x) <= 2 ^ 53)%Z
    /\ metric_fltc ir_gower x y = Some f1 /\ metric_fltc ir_non_intersection x y = Some f2
    /\ metric_fltc ir_squared_euclidean x y = Some f3 /\ metric_fltc ir_euclidean x y = Some f4
    /\ normal64 (rsum rnd64 (map2 (fun a b => Rabs (rnd64 (a - b))) (map f2r x) (map f2r y)) / len (map f2r x))
    /\ normal64 (/ 2 * rsum rnd64 (map2 (fun a b => Rabs (rnd64 (a - b))) (map f2r x) (map f2r y)))
    /\ Forall (fun d => normal64 (d ^ 2)) (map2 (fun a b => rnd64 (a - b)) (map f2r x) (map f2r y)).
Proof.
  exists ex_x, ex_y.
  assert (E1 : exists f, metric_fltc ir_gower ex_x ex_y = Some f) by (vm_compute; eauto).
  assert (E2 : exists f, metric_fltc ir_non_intersection ex_x ex_y = Some f) by (vm_compute; eauto).
  assert (E3 : exists f, metric_fltc ir_squared_euclidean ex_x ex_y = Some f) by (vm_compute; eauto).
  assert (E4 : exists f, metric_fltc ir_euclidean ex_x ex_y = Some f) by (vm_compute; eauto).
  destruct E1 as [f1 E1], E2 as [f2 E2], E3 as [f3 E3], E4 as [f4 E4]. exists f1, f2, f3, f4.
  destruct ex_vals as [Vx Vy]. rewrite Vx, Vy, ex_absd, ex_rsum, ex_diffs.
  split; [repeat constructor|]. split; [repeat constructor|]. split; [reflexivity|]. split; [reflexivity|].
  split; [vm_compute; discriminate|].
  split; [exact E1|]. split; [exact E2|]. split; [exact E3|]. split; [exact E4|].
  split; [|split].
  - apply normal64_ge1. unfold len. cbn [length INR]. lra.
  - apply normal64_ge1. lra.
  - constructor; [apply normal64_ge1; lra|]. constructor; [apply normal64_ge1; lra|]. constructor.
Qed.

(* ================= average_euclidean: a sibling call, a division by the length, a square root ================= *)
Lemma lookup_sqe : lookup_ir (m_name ir_squared_euclidean) all_metrics_ir = Some ir_squared_euclidean.
Proof. vm_compute. reflexivity. Qed.

Lemma call_sqe rnd x y :
  call_fuelR rnd all_metrics_ir Gen.Decorator_gen.decorator_params Gen.Decorator_gen.decorator_body call_depth
             (m_name ir_squared_euclidean) x y
  = metric_rnd rnd ir_squared_euclidean x y.
Proof.
  unfold call_depth. cbn [call_fuelR]. rewrite lookup_sqe. unfold_metric. reflexivity.
Qed.

Lemma map2_fst {A B} : forall (x : list A) (y : list B), length x = length y -> map2 (fun a _ => a) x y = x.
Proof.
  induction x as [|a x IH]; intros [|b y] L; cbn [length] in L; try discriminate; cbn [map2]; [reflexivity|].
  f_equal. apply IH. lia.
Qed.

Lemma map2_snd {A B} : forall (x : list A) (y : list B), length x = length y -> map2 (fun _ b => b) x y = y.
Proof.
  induction x as [|a x IH]; intros [|b y] L; cbn [length] in L; try discriminate; cbn [map2]; [reflexivity|].
  f_equal. apply IH. lia.
Qed.

Lemma mr_average_euclidean rnd x y : length x = length y ->
  metric_rnd rnd ir_average_euclidean x y =
  if Req_EM_T (len x) 0 then None
  else if Rlt_dec (rnd (rsum rnd (map2 (sqd rnd) x y) / len x)) 0 then None
       else Some (rnd (R_sqrt.sqrt (rnd (rsum rnd (map2 (sqd rnd) x y) / len x)))).
Proof.
  intros L. unfold metric_rnd, evalRnd_wrapped, evalRnd_wrapped_with, wrapR, eval_bodyR.
  cbn [m_avoid_zero m_body ir_average_euclidean evalSR evalVR].
  rewrite (oseq_map2_some (fun a _ => a)), (oseq_map2_some (fun _ b => b)), (map2_fst x y L), (map2_snd x y L).
  cbn [obind2]. change (call_fuelR rnd all_metrics_ir Gen.Decorator_gen.decorator_params Gen.Decorator_gen.decorator_body call_depth _ x y) with (call_fuelR rnd all_metrics_ir Gen.Decorator_gen.decorator_params Gen.Decorator_gen.decorator_body call_depth (m_name ir_squared_euclidean) x y).
  rewrite call_sqe, mr_squared_euclidean. cbn [obind obind2 binRnd powRnd].
  destruct (Req_EM_T (len x) 0); reflexivity.
Qed.

Lemma agree_average_euclidean x y : length x = length y -> Forall fmt64 x -> Forall fmt64 y -> squares_normal x y ->
  normal64 (rsum rnd64 (map2 (fun a b => rnd64 (rnd64 (a - b) ^ 2)) x y) / len x) ->
  metric_rnd rnd64 ir_average_euclidean x y = metric_rnd rnd64x ir_average_euclidean x y.
Proof.
  intros L Hx Hy Hn Hq. change (fun a b : R => rnd64 (rnd64 (a - b) ^ 2)) with (sqd rnd64) in Hq.
  rewrite !mr_average_euclidean by exact L.
  rewrite <- (sqd_agree x y Hx Hy Hn). rewrite <- (rsum_agree64 _ (sqd_fmt x y)).
  destruct (Req_EM_T (len x) 0); [reflexivity|].
  rewrite <- (agree64_normal _ Hq).
  destruct (Rlt_dec (rnd64 (rsum rnd64 (map2 (sqd rnd64) x y) / len x)) 0) as [L0|L0]; [reflexivity|]. f_equal.
  apply agree64_normal. apply normal64_sqrt; [apply fmt64_rnd64 | exact L0].
Qed.

Theorem capstone_average_euclidean : forall (x y : list PrimFloat.float) (f : PrimFloat.float),
  Forall (fun a => ffin a = true) x -> Forall (fun a => ffin a = true) y -> length x = length y -> (1 <= length x)%nat ->
  (Z.of_nat (length x) <= 2 ^ 53)%Z ->
  metric_fltc ir_average_euclidean x y = Some f ->
  Forall (fun d => normal64 (d ^ 2)) (map2 (fun a b => rnd64 (a - b)) (map f2r x) (map f2r y)) ->
  normal64 (rsum rnd64 (map2 (fun a b => rnd64 (rnd64 (a - b) ^ 2)) (map f2r x) (map f2r y)) / len (map f2r x)) ->
  Rabs (f2r f - sp_average_euclidean (map f2r x) (map f2r y))
  <= ((1 + u64) ^ ((length x + 4) / 2 + 1) - 1) * sp_average_euclidean (map f2r x) (map f2r y).
Proof.
  intros x y f Fx Fy L N Z E U1 U2.
  destruct plain_exact_table as (_ & _ & _ & _ & _ & _ & _ & [P C]). destruct b64_table as (_ & _ & _ & B & _).
  apply (capstone_gen ir_average_euclidean sp_average_euclidean (fun n => ((n + 4) / 2 + 1)%nat) P C B x y f Fx Fy L N Z E).
  apply agree_average_euclidean; [now rewrite !map_length | apply fmt64_map_f2r | apply fmt64_map_f2r | exact U1 | exact U2].
Qed.

Lemma ex_sq : map2 (fun a b => rnd64 (rnd64 (a - b) ^ 2)) [0; 3] [4; 1] = [16; 4].
Proof.
  cbn [map2].
  rewrite (rnd64_intR (-4) (0 - 4)) by (lra || now vm_compute).
  rewrite (rnd64_intR 2 (3 - 1)) by (lra || now vm_compute).
  rewrite (rnd64_intR 16 ((0 - 4) ^ 2)) by (lra || now vm_compute).
  rewrite (rnd64_intR 4 ((3 - 1) ^ 2)) by (lra || now vm_compute).
  repeat f_equal; lra.
Qed.

Lemma ex_rsum_sq : rsum rnd64 [16; 4] = 20.
Proof. cbn [rsum fold_left]. rewrite (rnd64_intR 20 (16 + 4)) by (lra || now vm_compute). lra. Qed.

Lemma capstone_nonvacuous_average :
  exists (x y : list PrimFloat.float) (f : PrimFloat.float),
    Forall (fun a => ffin a = true) x /\ Forall (fun a => ffin a = true) y /\ length x = length y /\ length x = 2%nat
    /\ (Z.of_nat (length x) <= 2 ^ 53)%Z
    /\ metric_fltc ir_average_euclidean x y = Some f
    /\ Forall (fun d => normal64 (d ^ 2)) (map2 (fun a b => rnd64 (a - b)) (map f2r x) (map f2r y))
    /\ normal64 (rsum rnd64 (map2 (fun a b => rnd64 (rnd64 (a - b) ^ 2)) (map f2r x) (map f2r y)) / len (map f2r x)).
Proof.
  exists ex_x, ex_y.
  assert (E1 : exists f, metric_fltc ir_average_euclidean ex_x ex_y = Some f) by (vm_compute; eauto).
  destruct E1 as [f E1]. exists f.
  destruct ex_vals as [Vx Vy]. rewrite Vx, Vy, ex_sq, ex_rsum_sq, ex_diffs.
  split; [repeat constructor|]. split; [repeat constructor|]. split; [reflexivity|]. split; [reflexivity|].
  split; [vm_compute; discriminate|]. split; [exact E1|]. split.
  - constructor; [apply normal64_ge1; lra|]. constructor; [apply normal64_ge1; lra|]. constructor.
  - apply normal64_ge1. unfold len. cbn [length INR]. lra.
Qed.

(* ================= observable forms of the side condition ================= *)
Lemma fmt64_minnormal : fmt64 (/ 2 ^ 1022).
Proof.
  rewrite <- bpow_m1022. apply fmt64_generic. apply generic_format_bpow. unfold FLT_exp. lia.
Qed.

(* a result above the smallest normal number was not produced by an underflowing rounding *)
Lemma rnd64_gt_normal t : / 2 ^ 1022 < Rabs (rnd64 t) -> normal64 t.
Proof.
  intros H. right. destruct (Rle_or_lt (/ 2 ^ 1022) (Rabs t)) as [G|G]; [exact G|]. exfalso.
  assert (B : Rabs (rnd64 t) <= / 2 ^ 1022); [|lra].
  destruct (Rle_or_lt 0 t) as [P|P].
  - rewrite Rabs_pos_eq in G by exact P. rewrite Rabs_pos_eq by (apply rnd64_nonneg; exact P).
    rewrite <- fmt64_minnormal. apply rnd64_mono. lra.
  - rewrite Rabs_left in G by exact P.
    replace t with (- - t) by ring. rewrite rnd64_odd, Rabs_Ropp.
    rewrite Rabs_pos_eq by (apply rnd64_nonneg; lra).
    rewrite <- fmt64_minnormal. apply rnd64_mono. lra.
Qed.

Theorem capstone_gower_observable : forall (x y : list PrimFloat.float) (f : PrimFloat.float),
  Forall (fun a => ffin a = true) x -> Forall (fun a => ffin a = true) y -> length x = length y -> (1 <= length x)%nat ->
  (Z.of_nat (length x) <= 2 ^ 53)%Z ->
  metric_fltc ir_gower x y = Some f ->
  / 2 ^ 1022 < f2r f ->
  Rabs (f2r f - sp_gower (map f2r x) (map f2r y))
  <= ((1 + u64) ^ (length x + 1) - 1) * sp_gower (map f2r x) (map f2r y).
Proof.
  intros x y f Fx Fy L N Z E U. apply capstone_gower; try assumption.
  destruct plain_exact_table as (_ & _ & _ & [P C] & _).
  destruct (metric_fltc_refines_plain ir_gower x y f P C Fx Fy L Z E) as [_ R].
  rewrite mr_gower in R. destruct (Req_EM_T (len (map f2r x)) 0); [discriminate|]. inversion R as [R']. unfold absd in R'.
  apply rnd64_gt_normal. rewrite R'. apply Rlt_le_trans with (1 := U). apply Rle_abs.
Qed.

Theorem capstone_non_intersection_observable : forall (x y : list PrimFloat.float) (f : PrimFloat.float),
  Forall (fun a => ffin a = true) x -> Forall (fun a => ffin a = true) y -> length x = length y -> (1 <= length x)%nat ->
  (Z.of_nat (length x) <= 2 ^ 53)%Z ->
  metric_fltc ir_non_intersection x y = Some f ->
  / 2 ^ 1022 < f2r f ->
  Rabs (f2r f - sp_non_intersection (map f2r x) (map f2r y))
  <= ((1 + u64) ^ (length x + 1) - 1) * sp_non_intersection (map f2r x) (map f2r y).
Proof.
  intros x y f Fx Fy L N Z E U. apply capstone_non_intersection; try assumption.
  destruct plain_exact_table as (_ & _ & _ & _ & [P C] & _).
  destruct (metric_fltc_refines_plain ir_non_intersection x y f P C Fx Fy L Z E) as [_ R].
  rewrite mr_non_intersection in R. inversion R as [R']. unfold absd in R'.
  apply rnd64_gt_normal. rewrite R'. apply Rlt_le_trans with (1 := U). apply Rle_abs.
Qed.

Lemma minnormal_le1 : / 2 ^ 1022 <= 1.
Proof.
  assert (H1 : 1 <= 2 ^ 1022) by (apply pow_R1_Rle; lra).
  rewrite <- Rinv_1. apply Rinv_le_contravar; lra.
Qed.

Lemma capstone_nonvacuous_observable :
  exists (x y : list PrimFloat.float) (f1 f2 : PrimFloat.float),
    Forall (fun a => ffin a = true) x /\ Forall (fun a => ffin a = true) y /\ length x = length y /\ length x = 2%nat
    /\ (Z.of_nat (length x) <= 2 ^ 53)%Z
    /\ metric_fltc ir_gower x y = Some f1 /\ / 2 ^ 1022 < f2r f1
    /\ metric_fltc ir_non_intersection x y = Some f2 /\ / 2 ^ 1022 < f2r f2.
Proof.
  exists ex_x, ex_y, 3%float, 3%float.
  split; [repeat constructor|]. split; [repeat constructor|]. split; [reflexivity|]. split; [reflexivity|].
  split; [vm_compute; discriminate|].
  pose proof minnormal_le1 as M. rewrite (f2r_lit 3%float 3 eq_refl).
  split; [vm_compute; reflexivity|]. split; [lra|]. split; [vm_compute; reflexivity|lra].
Qed.

(* ================= the side condition is needed ================= *)
(* x = [2^-600], y = [0]: every float is finite, the square underflows to 0, the closed form is 2^-1200 > 0 *)
Lemma u64_le_quarter : u64 <= / 4.
Proof.
  destruct b64_defs as (_ & _ & -> & _).
  assert (H : 4 <= 2 ^ 53).
  { change 53%nat with (2 + 51)%nat. rewrite pow_add. assert (1 <= 2 ^ 51) by (apply pow_R1_Rle; lra). nra. }
  apply Rinv_le_contravar; lra.
Qed.

Lemma capstone_squared_euclidean_refuted_without_condition :
  exists (x y : list PrimFloat.float) (f : PrimFloat.float),
    Forall (fun a => ffin a = true) x /\ Forall (fun a => ffin a = true) y /\ length x = length y /\ (1 <= length x)%nat
    /\ (Z.of_nat (length x) <= 2 ^ 53)%Z
    /\ metric_fltc ir_squared_euclidean x y = Some f
    /\ ~ Rabs (f2r f - sp_squared_euclidean (map f2r x) (map f2r y))
         <= ((1 + u64) ^ (length x + 2) - 1) * sp_squared_euclidean (map f2r x) (map f2r y).
Proof.
  exists [0x1p-600%float], [0%float], 0%float.
  split; [repeat constructor|]. split; [repeat constructor|]. split; [reflexivity|]. split; [cbn; lia|].
  split; [vm_compute; discriminate|]. split; [vm_compute; reflexivity|].
  cbn [map length Nat.add]. rewrite (f2r_lit 0%float 0 eq_refl).
  destruct (flt_is_Q_sound 0x1p-600%float (1 # (2 ^ 600)) eq_refl) as [_ E]. rewrite E.
  assert (V : 0 < Q2R (1 # 2 ^ 600)).
  { unfold Q2R. cbn [Qnum Qden]. apply Rmult_lt_0_compat; [lra|]. apply Rinv_0_lt_compat. apply IZR_lt. reflexivity. }
  set (v := Q2R (1 # 2 ^ 600)) in *.
  unfold sp_squared_euclidean, sum2, sum. cbn [map2 fold_right].
  assert (S : 0 < (v - 0) ^ 2 + 0) by nra.
  set (s := (v - 0) ^ 2 + 0) in *.
  replace (0 - s) with (- s) by ring. rewrite Rabs_Ropp, Rabs_pos_eq by lra.
  pose proof u64_le_quarter as U. pose proof u64_range as [U0 _].
  intros H.
  assert (K : (1 + u64) ^ 3 - 1 < 1) by nra.
  nra.
Qed.

(* a data-level sufficient condition for the squares: the entry of `x - y` is 0 or at least 2^-511 in magnitude *)
Lemma normal64_sq d : d = 0 \/ / 2 ^ 511 <= Rabs d -> normal64 (d ^ 2).
Proof.
  intros [->|H]; [left; ring|]. right.
  assert (P : 0 < / 2 ^ 511) by (apply Rinv_0_lt_compat; apply pow_lt; lra).
  replace (/ 2 ^ 1022) with (/ 2 ^ 511 * / 2 ^ 511).
  - rewrite <- RPow_abs. cbn [pow]. rewrite Rmult_1_r. nra.
  - rewrite <- Rinv_mult. f_equal. rewrite <- pow_add. reflexivity.
Qed.
