(* Float-level reading of calculate_pdf, part 4: plateau roundings, a 3-sample instance computed under
   the identity and under three plateau roundings, and the limits of the rounding model:

   - [rM] merges two distinct unmapped values into one density (why "weakly" order preserving is the
     right float-level statement; the exact map is strictly order preserving),
   - [rU] makes the initial cost EQUAL to the density (cost < density is not a theorem for monotone
     idempotent roundings with rnd 1 = 1) and the largest density exceed MAX_DENSITY,
   - [rH] satisfies every hypothesis used anywhere in PdfRnd.v and is active on the instance. *)
From Coq Require Import Reals List ZArith Bool Lia Lra.
From OPF Require Import Base.Lists Base.NumOps Base.NumOpsRnd Model.Pdf Model.MetricRnd
  Proofs.PdfBase Proofs.PdfReal Proofs.PdfExample Proofs.PdfRndBase Proofs.PdfRnd Proofs.PdfRndQuery.
Import ListNotations.
Local Open Scope R_scope.

(* ---------- plateau roundings: [a, b] |-> c, identity elsewhere ---------- *)

Definition rplat (a b c t : R) : R :=
  if Rle_dec a t then (if Rle_dec t b then c else t) else t.

Lemma rplat_in a b c t : a <= t <= b -> rplat a b c t = c.
Proof. intro H. unfold rplat. destruct (Rle_dec a t), (Rle_dec t b); lra. Qed.

Lemma rplat_out a b c t : t < a \/ b < t -> rplat a b c t = t.
Proof. intro H. unfold rplat. destruct (Rle_dec a t), (Rle_dec t b); lra. Qed.

Lemma rplat_rounding a b c : 0 < a -> a <= c <= b -> rounding (rplat a b c).
Proof.
  intros Ha Hc. unfold rplat. constructor.
  - intros x y H. destruct (Rle_dec a x), (Rle_dec x b), (Rle_dec a y), (Rle_dec y b); lra.
  - destruct (Rle_dec a 0), (Rle_dec 0 b); lra.
  - intros x H. destruct (Rle_dec a x), (Rle_dec x b); lra.
  - intros x H. destruct (Rle_dec a x), (Rle_dec x b); lra.
Qed.

Lemma rplat_idem a b c : a <= c <= b -> rnd_idem (rplat a b c).
Proof.
  intros Hc t. destruct (Rle_dec a t) as [H1|H1]; [destruct (Rle_dec t b) as [H2|H2]|].
  - rewrite (rplat_in a b c t) by lra. apply rplat_in. lra.
  - rewrite (rplat_out a b c t) by lra. apply rplat_out. lra.
  - rewrite (rplat_out a b c t) by lra. apply rplat_out. lra.
Qed.

Lemma rplat_fix a b c t : t < a \/ b < t \/ t = c -> a <= c <= b -> rplat a b c t = t.
Proof. intros H Hc. unfold rplat. destruct (Rle_dec a t), (Rle_dec t b); lra. Qed.

(* rounding down by at most a factor ... and up by at most a factor 2 when b <= 2 a *)
Lemma rplat_le_twice a b c x : 0 < a -> a <= c <= b -> b <= 2 * a -> 0 <= x -> rplat a b c x <= 2 * x.
Proof. intros Ha Hc Hb Hx. unfold rplat. destruct (Rle_dec a x), (Rle_dec x b); lra. Qed.

(* rewrite the innermost [rplat] applied to a closed rational argument *)
Ltac rplat_step :=
  match goal with
  | |- context [rplat ?a ?b ?c ?t] =>
      first [ rewrite (rplat_out a b c t) by lra | rewrite (rplat_in a b c t) by lra ]
  end.

(* ---------- the three roundings ---------- *)

Definition rM : R -> R := rplat 1 4 1.                         (* [1, 4] |-> 1 *)
Definition rU : R -> R := rplat (1999 / 2) (2001 / 2) (2001 / 2).  (* [999.5, 1000.5] |-> 1000.5 *)
Definition rH : R -> R := rplat (3 / 2) (7 / 4) (3 / 2).       (* [1.5, 1.75] |-> 1.5 *)

Lemma rM_admissible : rounding rM /\ rM 1 = 1 /\ rnd_idem rM.
Proof.
  split; [apply rplat_rounding; lra|]. split; [apply rplat_in; lra|apply rplat_idem; lra].
Qed.

Lemma rU_admissible :
  rounding rU /\ rU 1 = 1 /\ rnd_idem rU /\ rU 1000 <> 1000 /\ (forall x, 0 <= x -> rU x <= 2 * x).
Proof.
  split; [apply rplat_rounding; lra|]. split; [apply rplat_out; lra|].
  split; [apply rplat_idem; lra|]. split.
  - unfold rU. rewrite rplat_in by lra. lra.
  - intros x Hx. apply rplat_le_twice; lra.
Qed.

Lemma rH_integers z : rH (IZR z) = IZR z.
Proof.
  apply rplat_out. destruct (Z_le_gt_dec z 1) as [H|H].
  - left. apply IZR_le in H. lra.
  - right. assert (H2 : (2 <= z)%Z) by lia. apply IZR_le in H2. lra.
Qed.

Lemma rH_admissible :
  rounding rH /\ rH 1 = 1 /\ rnd_idem rH /\ rH 1000 = 1000 /\
  (forall z, rH (IZR z) = IZR z) /\ (forall x, 0 <= x -> rH x <= 2 * x).
Proof.
  split; [apply rplat_rounding; lra|]. split; [apply rplat_out; lra|].
  split; [apply rplat_idem; lra|]. split; [apply rplat_out; lra|].
  split; [exact rH_integers|]. intros x Hx. apply rplat_le_twice; lra.
Qed.

(* ---------- the instance: n = 3, k = 1, FLOAT_MAX read as 10, density bound 45 ---------- *)

(* exp-term of sample i towards its nearest neighbour *)
Definition ex3_e (i l : nat) : R :=
  match i with 0%nat => 1 / 4 | 1%nat => 1001 / 4000 | _ => 406 / 625 end.

Lemma ex3_e_01 i l : 0 <= ex3_e i l <= 1.
Proof. unfold ex3_e. destruct i as [|[|i]]; lra. Qed.

(* exact unmapped values 1/8 < 1001/8000 < 203/625; exact densities 1, 13/8, 1000 *)
Ltac ex3_pdf :=
  cbn [seq map]; unfold pdfv, rsum; cbn [seq map fold_left ex3_e];
  change (IZR (Z.of_nat 2)) with 2.

Ltac pair_eq := apply f_equal2; [lra|lra].

Lemma ex3_calc (r : R -> R) (d1 c1 d2 c2 : R) :
  map (fun i => pdfv r 1 (ex3_e i)) (seq 0 3) = [1 / 8; 1001 / 8000; 203 / 625] ->
  r (0 - 10) = - 10 ->
  r (r (2 * 45) / 9) = 10 ->
  dmap r (1 / 8) (203 / 625) (1 / 8) = 1 -> cmap r 1 = 0 ->
  dmap r (1 / 8) (203 / 625) (1001 / 8000) = d1 -> cmap r d1 = c1 ->
  dmap r (1 / 8) (203 / 625) (203 / 625) = d2 -> cmap r d2 = c2 ->
  calculate_pdf (RndOps r) 10 1000 3 1 45 ex3_e =
  (10, 1 / 8, 203 / 625, [(1, 0); (d1, c1); (d2, c2)]).
Proof.
  intros Hp Hb Hc E0 C0 E1 C1 E2 C2.
  rewrite calculate_pdf_RndOps. cbv zeta. rewrite Hp, Hc.
  assert (M : pdf_minmax (RndOps r) 10 [1 / 8; 1001 / 8000; 203 / 625] = (1 / 8, 203 / 625)).
  { rewrite pdf_minmax_RndOps, Hb. cbn [fold_left]. decide_cmp. reflexivity. }
  rewrite M. cbn [fst snd]. rewrite pdf_scale_RndOps. decide_cmp. cbn [map].
  rewrite E0, C0, E1, C1, E2, C2. reflexivity.
Qed.

(* identity rounding = the exact interpretation *)
Example ex3_id :
  calculate_pdf ROps 10 1000 3 1 45 ex3_e =
  (10, 1 / 8, 203 / 625, [(1, 0); (13 / 8, 5 / 8); (1000, 999)]).
Proof.
  rewrite <- RndOps_id_ROps.
  apply ex3_calc; try (unfold dmap, amap, cmap; lra).
  ex3_pdf. repeat (apply f_equal2; [lra|]). reflexivity.
Qed.

(* rH: the middle density 13/8 is moved to 3/2; order kept, costs strictly below densities *)
Example ex3_rH :
  calculate_pdf (RndOps rH) 10 1000 3 1 45 ex3_e =
  (10, 1 / 8, 203 / 625, [(1, 0); (3 / 2, 1 / 2); (1000, 999)]).
Proof.
  apply ex3_calc; unfold dmap, amap, cmap, rH.
  - ex3_pdf. repeat rplat_step. repeat (apply f_equal2; [lra|]). reflexivity.
  - repeat rplat_step. lra.
  - repeat rplat_step. lra.
  - repeat rplat_step. lra.
  - repeat rplat_step. lra.
  - repeat rplat_step. lra.
  - repeat rplat_step. lra.
  - repeat rplat_step. lra.
  - repeat rplat_step. lra.
Qed.

(* rM: the two smallest unmapped values 1/8 < 1001/8000 are merged into density 1 *)
Example ex3_rM :
  calculate_pdf (RndOps rM) 10 1000 3 1 45 ex3_e =
  (10, 1 / 8, 203 / 625, [(1, 0); (1, 0); (1000, 999)]).
Proof.
  apply ex3_calc; unfold dmap, amap, cmap, rM.
  - ex3_pdf. repeat rplat_step. repeat (apply f_equal2; [lra|]). reflexivity.
  - repeat rplat_step. lra.
  - repeat rplat_step. lra.
  - repeat rplat_step. lra.
  - repeat rplat_step. lra.
  - repeat rplat_step. lra.
  - repeat rplat_step. lra.
  - repeat rplat_step. lra.
  - repeat rplat_step. lra.
Qed.

(* rU: the largest density is 1000.5 > MAX_DENSITY and its cost is 1000.5 as well *)
Example ex3_rU :
  calculate_pdf (RndOps rU) 10 1000 3 1 45 ex3_e =
  (10, 1 / 8, 203 / 625, [(1, 0); (13 / 8, 5 / 8); (2001 / 2, 2001 / 2)]).
Proof.
  apply ex3_calc; unfold dmap, amap, cmap, rU.
  - ex3_pdf. repeat rplat_step. repeat (apply f_equal2; [lra|]). reflexivity.
  - repeat rplat_step. lra.
  - repeat rplat_step. lra.
  - repeat rplat_step. lra.
  - repeat rplat_step. lra.
  - repeat rplat_step. lra.
  - repeat rplat_step. lra.
  - repeat rplat_step. lra.
  - repeat rplat_step. lra.
Qed.

Lemma ex3_pdf_values r :
  r = rH \/ r = rM \/ r = rU ->
  pdf_value (RndOps r) 1 (ex3_e 0) = 1 / 8 /\ pdf_value (RndOps r) 1 (ex3_e 1) = 1001 / 8000 /\
  pdf_value (RndOps r) 1 (ex3_e 2) = 203 / 625.
Proof.
  intros [E|[E|E]]; subst r; rewrite !pdf_value_RndOps; unfold pdfv, rsum; cbn [seq map fold_left ex3_e];
    change (IZR (Z.of_nat 2)) with 2; unfold rH, rM, rU; repeat rplat_step; repeat split; lra.
Qed.

(* ---------- limits of the model ---------- *)

(* STRICT order preservation of the exact map fails under an admissible rounding *)
Theorem density_strict_mono_model_limit :
  exists rnd, rounding rnd /\ rnd 1 = 1 /\ rnd_idem rnd /\
    exists c mn mx dc,
      calculate_pdf (RndOps rnd) 10 1000 3 1 45 ex3_e = (c, mn, mx, dc) /\ mn < mx /\
      pdf_value (RndOps rnd) 1 (ex3_e 0) < pdf_value (RndOps rnd) 1 (ex3_e 1) /\
      fst (nth 0 dc (0, 0)) = fst (nth 1 dc (0, 0)).
Proof.
  exists rM. destruct rM_admissible as (A1 & A2 & A3). repeat (split; [assumption|]).
  eexists _, _, _, _. split; [exact ex3_rM|]. split; [lra|].
  destruct (ex3_pdf_values rM (or_intror (or_introl eq_refl))) as (P0 & P1 & _).
  rewrite P0, P1. split; [lra|reflexivity].
Qed.

(* cost < density fails, and the largest density exceeds MAX_DENSITY, under a rounding that is monotone,
   sign preserving, idempotent, fixes 0 and 1 and has relative error below 1 *)
Theorem cost_lt_density_model_limit :
  exists rnd, rounding rnd /\ rnd 1 = 1 /\ rnd_idem rnd /\ (forall x, 0 <= x -> rnd x <= 2 * x) /\
    exists c mn mx dc,
      calculate_pdf (RndOps rnd) 10 1000 3 1 45 ex3_e = (c, mn, mx, dc) /\ mn < mx /\
      (forall i l, 0 <= ex3_e i l <= 1) /\
      pdf_value (RndOps rnd) 1 (ex3_e 2) = mx /\
      snd (nth 2 dc (0, 0)) = fst (nth 2 dc (0, 0)) /\
      1000 < fst (nth 2 dc (0, 0)).
Proof.
  exists rU. destruct rU_admissible as (A1 & A2 & A3 & _ & A5). repeat (split; [assumption|]).
  eexists _, _, _, _. split; [exact ex3_rU|]. split; [lra|]. split; [exact ex3_e_01|].
  destruct (ex3_pdf_values rU (or_intror (or_intror eq_refl))) as (_ & _ & P2).
  split; [exact P2|]. cbn [nth fst snd]. split; [reflexivity|lra].
Qed.

(* ---------- non-vacuity: the general theorems instantiated (not merely true by computation) ---------- *)

Example ex3_rH_summary :
  let dc := [(1, 0); (3 / 2, 1 / 2); (1000, 999)] in
  (forall i j, (i < 3)%nat -> (j < 3)%nat ->
     pdf_value (RndOps rH) 1 (ex3_e i) <= pdf_value (RndOps rH) 1 (ex3_e j) ->
     fst (nth i dc (0, 0)) <= fst (nth j dc (0, 0))) /\
  (forall i, (i < 3)%nat -> snd (nth i dc (0, 0)) < fst (nth i dc (0, 0))).
Proof.
  destruct rH_admissible as (A1 & A2 & A3 & A4 & A5 & A6). cbv zeta. split.
  - intros i j Hi Hj. apply (rnd_density_mono rH A1 10 3 1 45 ex3_e _ _ _ _ ex3_rH i j Hi Hj).
  - intros i Hi. apply (rnd_cost_lt_density rH A1 10 3 1 45 ex3_e _ _ _ _ ex3_rH i A2); auto.
Qed.

(* query against the rH fit: EPSILON := 1/1024 is not absorbed here, the query with the middle sample's
   term (mean 1001/4000 over k = 1) lands on a density between 1 and MAX_DENSITY *)
Example ex3_query_rH :
  1 <= query_density (RndOps rH) 1000 (1 / 1024) (1 / 8) (203 / 625) 1 (ex3_e 1).
Proof.
  destruct rH_admissible as (A1 & A2 & _).
  destruct (query_density_rnd_props rH A1 (1 / 1024) (1 / 8) (203 / 625) 1 (ex3_e 1) (ex3_e 1)
              ltac:(lra) ltac:(lra)) as (_ & _ & _ & _ & _ & _ & H).
  apply (H A2). unfold qmean, rsum. cbn [seq map fold_left ex3_e]. change (IZR (Z.of_nat 1)) with 1.
  unfold rH. repeat rplat_step. lra.
Qed.

(* the data-only form of the min/max clause, instantiated at the rH run *)
Example ex3_rH_minmax :
  (exists i, (i < 3)%nat /\ 1 / 8 = pdf_value (RndOps rH) 1 (ex3_e i)) /\
  (exists i, (i < 3)%nat /\ 203 / 625 = pdf_value (RndOps rH) 1 (ex3_e i)) /\
  0 <= 1 / 8 /\ 1 / 8 <= 203 / 625 /\ 203 / 625 <= 1.
Proof.
  destruct rH_admissible as (A1 & A2 & _ & _ & A5 & _).
  apply (rnd_minmax_unit_terms rH 10 3 1 45 ex3_e 10 (1 / 8) (203 / 625) [(1, 0); (3 / 2, 1 / 2); (1000, 999)]
           A1 A2 (fun z _ => A5 z)); [lia|lra| |exact ex3_rH].
  intros i l _ _. apply ex3_e_01.
Qed.

(* eliminate_maxima_height under rH, h = 3/8: 2 - 3/8 = 13/8 is rounded to 3/2 *)
Example ex3_eliminate_rH :
  eliminate_maxima (RndOps rH) (3 / 8) [1; 2; 1000] [0; 1; 999] = [5 / 8; 3 / 2; 7997 / 8].
Proof.
  rewrite (proj1 (eliminate_rnd_spec rH (3 / 8) _ _)) by lra. cbn [map]. unfold rH.
  repeat rplat_step.
  rewrite (Rmax_left (1 - 3 / 8) 0) by lra. rewrite (Rmax_left (3 / 2) 0) by lra.
  rewrite (Rmax_left (1000 - 3 / 8) 0) by lra.
  repeat (apply f_equal2; [lra|]). reflexivity.
Qed.
