(* C03 for an arbitrary strict total order: the prediction scan returns the first minimiser (in
   conquest order) of max(cost, distance).  Lifted from Predict.v (W := Z) along the rank map of
   [vals := zero :: costs ++ query distances below n] (see LiftSup.v for the method). *)
From Coq Require Import List Arith Bool ZArith Lia Permutation.
From OPF Require Import Base.Lists Base.TotalOrder Model.Heap Model.Sup.
From OPF Require Import Proofs.ParamBase Proofs.ParamSup Proofs.Rescale Proofs.WeightsExtBounded
  Proofs.OrderEmbed Proofs.Predict Proofs.LiftSup.
Import ListNotations.
Close Scope Z_scope.

Section LiftPredict.
  Context {W : Type} (ltb : W -> W -> bool).
  Hypothesis O : strict_total_order ltb.

  Theorem predict_is_argmin_anyorder (zero : W) (nd : @nodes W) (d : nat -> W) :
    let n := length (n_cost nd) in
    let cost q := nth q (n_cost nd) zero in
    let val q := wmax ltb (cost q) (d q) in
    let plabel q := nth q (n_plabel nd) 0 in
    1 <= n ->
    Permutation (n_order nd) (seq 0 n) ->
    (forall i j, i < j -> j < n ->
       ltb (cost (nth j (n_order nd) 0)) (cost (nth i (n_order nd) 0)) = false) ->
    exists t i,
      t < n /\
      predict_one ltb zero nd d = (plabel t, Some t) /\
      (forall s, s < n -> ltb (val s) (val t) = false) /\
      i < n /\ nth i (n_order nd) 0 = t /\
      (forall i', i' < i -> ltb (val t) (val (nth i' (n_order nd) 0)) = true).
  Proof.
    intros n cost val plabel Hn Hperm Hsorted.
    set (vals := zero :: n_cost nd ++ map d (seq 0 n)).
    set (dc := clip1 n zero d).
    assert (Hz : In zero vals) by now left.
    assert (Hdv : forall k, k < n -> In (d k) vals).
    { intros k Hk. right. apply in_or_app. right. apply in_map. apply in_seq. lia. }
    assert (Hdc : forall k, In (dc k) vals) by (intros k; now apply clip1_in).
    assert (Hnd : Forall (fun a => In a vals) (n_cost nd)).
    { apply Forall_forall. intros a Ha. right. apply in_or_app. now left. }
    assert (Hcin : forall q, In (cost q) vals)
      by (intros q; apply (Forall_in_nth vals); assumption).
    assert (Hord : forall i, i < n -> nth i (n_order nd) 0 < n).
    { intros i Hi.
      assert (Hlen : length (n_order nd) = n)
        by (rewrite (Permutation_length Hperm); apply seq_length).
      assert (Hin : In (nth i (n_order nd) 0) (seq 0 n))
        by (apply (Permutation_in _ Hperm); apply nth_In; lia).
      apply in_seq in Hin. lia. }
    (* the query distances are read at node numbers only *)
    assert (E1 : predict_one ltb zero nd d = predict_one ltb zero nd dc).
    { apply predict_one_b. intros k [->|Hk].
      - symmetry. apply clip1_below. lia.
      - apply (Permutation_in _ Hperm) in Hk. apply in_seq in Hk.
        symmetry. apply clip1_below. lia. }
    (* abstraction along the rank map *)
    pose proof (rescale_predict_one_on (fun a => In a vals) (rk ltb vals) ltb Z.ltb (rk_ltb ltb O vals)
                  zero nd dc Hz Hnd Hdc) as E2.
    (* the theorem at Z *)
    pose proof (predict_is_argmin (rk ltb vals zero) (map_nodes (rk ltb vals) nd)
                                  (fun k => rk ltb vals (dc k))) as HZ.
    cbv zeta in HZ.
    assert (En : length (n_cost (map_nodes (rk ltb vals) nd)) = n)
      by (unfold map_nodes; cbn [n_cost]; apply map_length).
    rewrite En in HZ.
    assert (Hpc : forall q, pcost (rk ltb vals zero) (map_nodes (rk ltb vals) nd) q
                            = rk ltb vals (cost q)).
    { intros q. unfold pcost, map_nodes; cbn [n_cost]. apply map_nth. }
    assert (Hpv : forall q, q < n ->
              pval (rk ltb vals zero) (map_nodes (rk ltb vals) nd) (fun k => rk ltb vals (dc k)) q
              = rk ltb vals (val q)).
    { intros q Hq. unfold pval. rewrite Hpc. unfold dc. rewrite clip1_below by exact Hq.
      unfold val. rewrite wmax_omax. symmetry. apply (rk_omax ltb O vals); auto. }
    assert (Hvin : forall q, q < n -> In (val q) vals).
    { intros q Hq. unfold val. rewrite wmax_omax. apply omax_in; auto. }
    specialize (HZ Hn Hperm).
    assert (Hs : forall i j, i < j -> j < n ->
              (pcost (rk ltb vals zero) (map_nodes (rk ltb vals) nd)
                     (nth i (n_order (map_nodes (rk ltb vals) nd)) 0%nat)
               <= pcost (rk ltb vals zero) (map_nodes (rk ltb vals) nd)
                        (nth j (n_order (map_nodes (rk ltb vals) nd)) 0%nat))%Z).
    { intros i j Hij Hj. rewrite !Hpc.
      exact (proj2 (rk_le_iff ltb O vals _ _ (Hcin _) (Hcin _)) (Hsorted i j Hij Hj)). }
    destruct (HZ Hs) as (t & i & Ht & E & Hmin & Hi & Hnth & Hbefore).
    exists t, i. split; [exact Ht|]. split; [|split; [|split; [exact Hi|split; [exact Hnth|]]]].
    - rewrite E1, <- E2. exact E.
    - intros s Hs'. specialize (Hmin s Hs'). rewrite (Hpv t Ht), (Hpv s Hs') in Hmin.
      exact (proj1 (rk_le_iff ltb O vals _ _ (Hvin t Ht) (Hvin s Hs')) Hmin).
    - intros i' Hi'. specialize (Hbefore i' Hi').
      assert (Hlt : nth i' (n_order nd) 0 < n) by (apply Hord; lia).
      change (n_order (map_nodes (rk ltb vals) nd)) with (n_order nd) in Hbefore.
      rewrite (Hpv t Ht), (Hpv _ Hlt) in Hbefore.
      exact (proj1 (rk_lt_iff ltb O vals _ _ (Hvin t Ht) (Hvin _ Hlt)) Hbefore).
  Qed.

  Corollary predict_label_is_argmin_anyorder (zero : W) (nd : @nodes W) (d : nat -> W) :
    let n := length (n_cost nd) in
    let cost q := nth q (n_cost nd) zero in
    let val q := wmax ltb (cost q) (d q) in
    1 <= n ->
    Permutation (n_order nd) (seq 0 n) ->
    (forall i j, i < j -> j < n ->
       ltb (cost (nth j (n_order nd) 0)) (cost (nth i (n_order nd) 0)) = false) ->
    exists t, t < n /\
      fst (predict_one ltb zero nd d) = nth t (n_plabel nd) 0 /\
      snd (predict_one ltb zero nd d) = Some t /\
      forall s, s < n -> ltb (val s) (val t) = false.
  Proof.
    intros n cost val Hn Hperm Hsorted.
    destruct (predict_is_argmin_anyorder zero nd d Hn Hperm Hsorted) as (t & i & Ht & E & Hmin & _).
    exists t. rewrite E. repeat split; auto.
  Qed.

  (* training followed by prediction: on the forest computed by [sup_fit] the premises on the
     conquest order hold (C01), so every query is classified by the exhaustive minimum *)
  Corollary sup_fit_predict_anyorder (zero top : W) (labels : list nat) (w : nat -> nat -> W)
            (d : nat -> W) :
    let n := length labels in
    let fp := find_prototypes ltb top n w (nodes_init zero labels) in
    let nd := sup_fit ltb zero top labels w in
    let val q := wmax ltb (nth q (n_cost nd) zero) (d q) in
    ltb zero top = true ->
    (forall p q, p < n -> q < n -> p <> q -> ltb (w p q) zero = false /\ ltb (w p q) top = true) ->
    (exists s, s < n /\ nth s (n_status fp) false = true) ->
    exists t, t < n /\
      predict_one ltb zero nd d = (nth t (n_plabel nd) 0, Some t) /\
      forall s, s < n -> ltb (val s) (val t) = false.
  Proof.
    intros n fp nd val Hzt Hw Hproto.
    destruct (sup_fit_lengths_anyorder ltb O zero top labels w Hzt Hw Hproto) as [Hlen _].
    fold n nd in Hlen.
    destruct (sup_fit_anyorder ltb O zero top labels w Hzt Hw Hproto) as [(A1 & A2 & _) _].
    fold n nd in A1, A2. cbv zeta in A2.
    assert (Hn : 1 <= n) by (destruct Hproto as (s & Hs & _); lia).
    pose proof (predict_is_argmin_anyorder zero nd d) as H. cbv zeta in H. rewrite Hlen in H.
    destruct (H Hn A1 A2) as (t & i & Ht & E & Hmin & _).
    exists t. auto.
  Qed.
End LiftPredict.
