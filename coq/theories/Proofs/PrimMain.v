(* C02: the theorems about [find_prototypes] (model of SupervisedOPF._find_prototypes):
   spanning tree, minimax (= minimum spanning tree, order-only form), exact prototype set,
   every class has a prototype, uniqueness under distinct weights. *)
From Coq Require Import List Arith Bool ZArith Lia Permutation.
From OPF Require Import Base.Lists Model.Heap Model.Sup Spec.Paths Spec.Trees
  Proofs.HeapBase Proofs.HeapInv Proofs.PrimLists Proofs.PrimGraph Proofs.PrimLoop Proofs.PrimWeight.
Import ListNotations.
Open Scope nat_scope.

Section Main.
  Variable top : Z.
  Variable n : nat.
  Variable w : nat -> nat -> Z.
  Variable nd0 : @nodes Z.

  Hypothesis n_pos : 1 <= n.
  Hypothesis w_top : forall p q, p < n -> q < n -> p <> q -> (w p q < top)%Z.
  Hypothesis nd0_lcost : length (n_cost nd0) = n.
  Hypothesis nd0_lpred : length (n_pred nd0) = n.
  Hypothesis nd0_lstat : length (n_status nd0) = n.
  Hypothesis nd0_status : forall q, q < n -> nth q (n_status nd0) false = false.

  Notation nd := (find_prototypes Z.ltb top n w nd0).
  Notation pred := (fun q => nth q (n_pred nd) None).
  Notation label := (fun q => nth q (n_label nd0) 0).
  Notation proto := (fun q => nth q (n_status nd) false).

  (* everything the invariant says once all nodes are Black *)
  Lemma prim_final :
    exists bl,
      Permutation bl (seq 0 n) /\ prim_grown n w pred bl /\ pred 0 = None /\
      (forall q, q < n -> (proto q = true <->
           exists r, r < n /\ tree_arc pred q r /\ label q <> label r)) /\
      length (n_cost nd) = n /\ length (n_pred nd) = n /\ length (n_status nd) = n /\
      n_label nd = n_label nd0 /\ n_plabel nd = n_plabel nd0 /\
      n_relevant nd = n_relevant nd0 /\ n_order nd = n_order nd0.
  Proof.
    destruct (find_prototypes_PI top n w (n_label nd0) n_pos
                ltac:(intros q Hq Hne; apply w_top; lia) nd0
                nd0_lcost nd0_lpred nd0_lstat eq_refl nd0_status) as (bl & h & P & Hlen).
    destruct P as [HI Hs Hpol Hlc Hlp Hlst Hlab Hpl Hrel Hord Hblack Hgray [H0in H0p] Hpg Hstat].
    pose proof (prim_grown_grown _ _ _ _ Hpg) as Hg.
    pose proof (full_perm n bl (grown_NoDup _ _ Hg) (prim_grown_lt _ _ _ _ Hpg) Hlen) as Hperm.
    assert (Hall : forall q, q < n -> In q bl).
    { intros q Hq. apply (Permutation_in _ (Permutation_sym Hperm)). apply in_seq. lia. }
    exists bl. split; [exact Hperm|]. split; [exact Hpg|]. split; [exact H0p|].
    split; [|repeat split; assumption].
    intros q Hq. rewrite (Hstat q Hq). split.
    - intros (r & _ & Hr & Ha & Hl). exists r. split; [|split; assumption].
      apply (prim_grown_lt _ _ _ _ Hpg); exact Hr.
    - intros (r & Hr & Ha & Hl). exists r. split; [apply Hall; exact Hq|].
      split; [apply Hall; exact Hr|]. split; assumption.
  Qed.

  (* ---------------------------------------------------------------- *)
  (* exported facts for the competition proof (C01)                    *)

  Theorem find_prototypes_lengths :
    length (n_cost nd) = n /\ length (n_pred nd) = n /\ length (n_status nd) = n /\
    n_label nd = n_label nd0 /\ n_plabel nd = n_plabel nd0 /\
    n_relevant nd = n_relevant nd0 /\ n_order nd = n_order nd0.
  Proof. destruct prim_final as (bl & _ & _ & _ & _ & H). exact H. Qed.

  (* ---------------------------------------------------------------- *)
  (* 1. spanning tree                                                  *)

  Theorem prim_spanning_tree :
    pred 0 = None /\
    (exists ord, Permutation ord (seq 0 n) /\
       forall q, 0 < q < n -> exists p, pred q = Some p /\ p < n /\ before ord p q) /\
    (forall q, q < n -> root_of pred q 0).
  Proof.
    destruct prim_final as (bl & Hperm & Hpg & H0 & _).
    pose proof (prim_grown_grown _ _ _ _ Hpg) as Hg.
    assert (Hall : forall q, q < n -> In q bl).
    { intros q Hq. apply (Permutation_in _ (Permutation_sym Hperm)). apply in_seq. lia. }
    split; [exact H0|]. split.
    - exists (rev bl). split.
      + etransitivity; [apply Permutation_sym, Permutation_rev|exact Hperm].
      + intros q Hq. destruct (nth q (n_pred nd) None) as [p|] eqn:Ep.
        * exists p. split; [reflexivity|]. split.
          { apply (prim_grown_lt _ _ _ _ Hpg).
            apply (grown_pred_in _ _ Hg q p); [apply Hall; lia|exact Ep]. }
          { apply (grown_before _ _ Hg q p); [apply Hall; lia|exact Ep]. }
        * exfalso.
          pose proof (grown_root_unique _ _ Hg q 0 (Hall q ltac:(lia)) (Hall 0 ltac:(lia)) Ep H0).
          lia.
    - intros q Hq. apply (grown_root_of _ _ Hg 0 (Hall 0 ltac:(lia)) H0 q (Hall q Hq)).
  Qed.

  Theorem prim_spanning_parent_map : spanning_parent_map n pred.
  Proof.
    destruct prim_spanning_tree as (H0 & (ord & _ & Hpar) & Hroot).
    exists 0. split; [lia|]. split; [exact H0|]. intros q Hq. split; [apply Hroot; exact Hq|].
    intros p Hp. destruct (Nat.eq_dec q 0) as [->|Hne]; [congruence|].
    destruct (Hpar q ltac:(lia)) as (p' & Hp' & Hlt & _). congruence.
  Qed.

  (* ---------------------------------------------------------------- *)
  (* 2. minimax tree                                                   *)

  Lemma tree_path_tp_in bl u v tp :
    (forall q, q < n -> In q bl) -> tree_path_rel n pred u v tp -> tp_in pred bl u v tp.
  Proof.
    intros Hall ([[Hne Hfa] [Hhd Hl]] & Hnd & Hch). split; [exact Hhd|].
    split; [exact Hl|]. split; [exact Hnd|]. split; [exact Hch|].
    rewrite Forall_forall in *. intros x Hx. apply Hall, Hfa, Hx.
  Qed.

  Lemma tp_in_tree_path bl u v tp :
    (forall q, In q bl -> q < n) -> tp_in pred bl u v tp -> tree_path_rel n pred u v tp.
  Proof.
    intros Hlt (Hhd & Hl & Hnd & Hch & Hfa). split; [|split; assumption].
    split; [|split; assumption]. split; [destruct tp; discriminate|].
    rewrite Forall_forall in *. intros x Hx. apply Hlt, Hfa, Hx.
  Qed.

  Theorem prim_tree_connected : connected_by n (tree_arc pred).
  Proof.
    destruct prim_final as (bl & Hperm & Hpg & _).
    assert (Hall : forall q, q < n -> In q bl).
    { intros q Hq. apply (Permutation_in _ (Permutation_sym Hperm)). apply in_seq. lia. }
    intros u v Hu Hv.
    destruct (grown_connected _ _ (prim_grown_grown _ _ _ _ Hpg) u v (Hall u Hu) (Hall v Hv))
      as [tp Htp].
    exists tp. apply (tp_in_tree_path bl); [apply (prim_grown_lt _ _ _ _ Hpg)|exact Htp].
  Qed.

  Section Sym.
    Hypothesis w_sym : forall p q, p < n -> q < n -> w p q = w q p.

    Theorem prim_minimax_tree : minimax_paths n w (tree_arc pred).
    Proof.
      destruct prim_final as (bl & Hperm & Hpg & _).
      assert (Hall : forall q, q < n -> In q bl).
      { intros q Hq. apply (Permutation_in _ (Permutation_sym Hperm)). apply in_seq. lia. }
      intros m u v tp pi Htp Hpi.
      apply (prim_grown_minimax n w w_sym _ bl Hpg m u v tp pi); [|exact Hpi].
      apply tree_path_tp_in; assumption.
    Qed.

    Theorem prim_cycle_optimal :
      forall u v tp, u < n -> v < n -> tree_path_rel n pred u v tp ->
      forall a b, arc_on tp a b -> (w a b <= w u v)%Z.
    Proof.
      intros u v tp Hu Hv Htp a b Hab.
      pose proof (prim_minimax_tree (w u v) u v tp [u; v] Htp (path_from_to_pair n u v Hu Hv)) as H.
      cbn [pathmax] in H. pose proof (pathmax_arc w (w u v) tp a b Hab). lia.
    Qed.

    (* 6. minimum total weight *)
    Theorem prim_minimum_weight :
      forall predS, spanning_parent_map n predS ->
        (tree_weight n w pred <= tree_weight n w predS)%Z.
    Proof.
      intros predS HS.
      exact (cycle_optimal_is_minimum n w _ predS w_sym prim_spanning_parent_map
               prim_minimax_tree HS).
    Qed.

    (* 5. uniqueness *)
    Theorem prim_tree_characterised : distinct_weights n w ->
      forall u v, u < n -> v < n -> u <> v ->
        (tree_arc pred u v <-> sole_minimax_arc n w u v).
    Proof.
      intros Hd. apply (minimax_arcs_characterised n w Hd).
      - exact prim_tree_connected.
      - exact prim_minimax_tree.
    Qed.
  End Sym.

  (* ---------------------------------------------------------------- *)
  (* 3. the prototypes                                                 *)

  Theorem prototypes_exact :
    forall q, q < n ->
      (proto q = true <-> exists r, (pred q = Some r \/ pred r = Some q) /\ r < n /\ label q <> label r).
  Proof.
    destruct prim_final as (bl & _ & _ & _ & Hst & _).
    intros q Hq. rewrite (Hst q Hq). unfold tree_arc.
    split; intros (r & H); exists r; tauto.
  Qed.

  Theorem prototypes_characterised :
    (forall p q, p < n -> q < n -> w p q = w q p) -> distinct_weights n w ->
    forall q, q < n ->
      (proto q = true <-> exists r, r < n /\ label q <> label r /\ sole_minimax_arc n w q r).
  Proof.
    intros Hsym Hd q Hq. rewrite (prototypes_exact q Hq). split.
    - intros (r & Ha & Hr & Hl). exists r. split; [exact Hr|]. split; [exact Hl|].
      apply (prim_tree_characterised Hsym Hd q r Hq Hr); [congruence|exact Ha].
    - intros (r & Hr & Hl & Hs). exists r. split; [|split; assumption].
      apply (prim_tree_characterised Hsym Hd q r Hq Hr); [congruence|exact Hs].
  Qed.

  (* 4. every class present has a prototype *)
  Theorem every_class_has_prototype :
    (exists a b, a < n /\ b < n /\ label a <> label b) ->
    forall q, q < n -> exists s, s < n /\ proto s = true /\ label s = label q.
  Proof.
    intros (a & b & Ha & Hb & Hab) q Hq.
    assert (Hv : exists v, v < n /\ label v <> label q).
    { destruct (Nat.eq_dec (label a) (label q)) as [E|E].
      - exists b. split; [exact Hb|congruence].
      - exists a. split; [exact Ha|exact E]. }
    destruct Hv as (v & Hv & Hvq).
    destruct (prim_tree_connected q v Hq Hv) as [tp ([[Hne Hfa] [Hhd Hl]] & Hnd & Hch)].
    destruct (crossing (fun x => label x = label q)
                (fun x => match Nat.eq_dec (label x) (label q) with
                          | left E => or_introl E | right E => or_intror E end)
                tp q Hhd eq_refl) as (x & y & Hxy & Hx & Hy).
    { rewrite Hl. exact Hvq. }
    rewrite Forall_forall in Hfa. destruct (arc_on_In _ _ _ Hxy) as [Hxin Hyin].
    exists x. split; [apply Hfa; exact Hxin|]. split; [|exact Hx].
    apply (prototypes_exact x (Hfa x Hxin)). exists y.
    split; [exact (chain_arc _ _ _ _ Hch Hxy)|]. split; [apply Hfa; exact Hyin|]. congruence.
  Qed.

  Theorem prototypes_nonempty :
    (exists a b, a < n /\ b < n /\ label a <> label b) ->
    exists s, s < n /\ proto s = true.
  Proof.
    intros H. destruct (every_class_has_prototype H 0 ltac:(lia)) as (s & Hs & Hp & _).
    exists s. split; assumption.
  Qed.
End Main.

(* ------------------------------------------------------------------ *)
(* The same theorems for the fresh subgraph [nodes_init zero labels], as called by
   [sup_fit] / [semi_fit].                                             *)

Section AtInit.
  Variables zero top : Z.
  Variable n : nat.
  Variable w : nat -> nat -> Z.
  Variable labels : list nat.

  Hypothesis n_pos : 1 <= n.
  Hypothesis labels_len : length labels = n.
  Hypothesis w_top : forall p q, p < n -> q < n -> p <> q -> (w p q < top)%Z.

  Lemma init_lcost : length (n_cost (nodes_init zero labels)) = n.
  Proof. cbn. rewrite repeat_length. exact labels_len. Qed.
  Lemma init_lpred : length (n_pred (nodes_init zero labels)) = n.
  Proof. cbn. rewrite repeat_length. exact labels_len. Qed.
  Lemma init_lstat : length (n_status (nodes_init zero labels)) = n.
  Proof. cbn. rewrite repeat_length. exact labels_len. Qed.
  Lemma init_status : forall q, q < n -> nth q (n_status (nodes_init zero labels)) false = false.
  Proof. intros q _. cbn. apply nth_repeat. Qed.

  Lemma init_find_prototypes_lengths :
    let nd := find_prototypes Z.ltb top n w (nodes_init zero labels) in
    length (n_cost nd) = n /\ length (n_pred nd) = n /\ length (n_status nd) = n /\
    n_label nd = labels /\ n_plabel nd = repeat 0 n /\
    n_relevant nd = repeat false n /\ n_order nd = [].
  Proof.
    destruct (find_prototypes_lengths top n w (nodes_init zero labels) n_pos w_top
                init_lcost init_lpred init_lstat init_status) as (A & B & C & D & E & F & G).
    cbn [nodes_init n_label n_plabel n_relevant n_order] in D, E, F, G.
    rewrite labels_len in E, F. cbv zeta. repeat split; assumption.
  Qed.
  Definition init_prim_spanning_tree :=
    prim_spanning_tree top n w (nodes_init zero labels) n_pos w_top
      init_lcost init_lpred init_lstat init_status.
  Definition init_prim_tree_connected :=
    prim_tree_connected top n w (nodes_init zero labels) n_pos w_top
      init_lcost init_lpred init_lstat init_status.
  Definition init_prim_minimax_tree :=
    prim_minimax_tree top n w (nodes_init zero labels) n_pos w_top
      init_lcost init_lpred init_lstat init_status.
  Definition init_prim_cycle_optimal :=
    prim_cycle_optimal top n w (nodes_init zero labels) n_pos w_top
      init_lcost init_lpred init_lstat init_status.
  Definition init_prim_spanning_parent_map :=
    prim_spanning_parent_map top n w (nodes_init zero labels) n_pos w_top
      init_lcost init_lpred init_lstat init_status.
  Definition init_prim_minimum_weight :=
    prim_minimum_weight top n w (nodes_init zero labels) n_pos w_top
      init_lcost init_lpred init_lstat init_status.
  Definition init_prim_tree_characterised :=
    prim_tree_characterised top n w (nodes_init zero labels) n_pos w_top
      init_lcost init_lpred init_lstat init_status.
  Definition init_prototypes_exact :=
    prototypes_exact top n w (nodes_init zero labels) n_pos w_top
      init_lcost init_lpred init_lstat init_status.
  Definition init_prototypes_characterised :=
    prototypes_characterised top n w (nodes_init zero labels) n_pos w_top
      init_lcost init_lpred init_lstat init_status.
  Definition init_every_class_has_prototype :=
    every_class_has_prototype top n w (nodes_init zero labels) n_pos w_top
      init_lcost init_lpred init_lstat init_status.
  Definition init_prototypes_nonempty :=
    prototypes_nonempty top n w (nodes_init zero labels) n_pos w_top
      init_lcost init_lpred init_lstat init_status.
End AtInit.
