(* C11, rescaling half: replacing the weights by a strictly increasing transform [f] of them
   leaves prototypes, predecessors, labels, conquest order and predictions unchanged and maps
   the costs by [f].

   Instance of the abstraction theorems of ParamSup.v with [R a b := P a /\ b = f a], where [P]
   is any predicate containing the values that occur ([zero], [top], every [w p q], every
   query distance): [f] has to be order-preserving on [P] only.  With [P := fun _ => True] and
   [W := Z] this is the statement of DESIGN.md C11 ("rescale_invariant"). *)
From Coq Require Import List Arith Bool ZArith Lia.
From OPF Require Import Base.Lists Model.Heap Model.Sup Proofs.ParamBase Proofs.ParamSup.
Import ListNotations.

(* the node table with its costs mapped by [f], everything else untouched *)
Definition map_nodes {W1 W2} (f : W1 -> W2) (nd : @nodes W1) : @nodes W2 :=
  mkNodes (map f (n_cost nd)) (n_pred nd) (n_label nd) (n_plabel nd) (n_status nd)
          (n_relevant nd) (n_order nd).

Lemma nodes_rel_on_iff {W1 W2} (P : W1 -> Prop) (f : W1 -> W2) nd nd' :
  nodes_rel (fun a b => P a /\ b = f a) nd nd' <-> (Forall P (n_cost nd) /\ nd' = map_nodes f nd).
Proof.
  destruct nd as [c1 p1 l1 pl1 s1 r1 o1], nd' as [c2 p2 l2 pl2 s2 r2 o2].
  unfold nodes_rel, map_nodes; cbn [n_cost n_pred n_label n_plabel n_status n_relevant n_order].
  rewrite Forall2_on_map. split.
  - intros ((HP & Hc) & Hp & Hl & Hpl & Hs & Hr & Ho). subst. now split.
  - intros (HP & Heq). injection Heq as -> -> -> -> -> -> ->. repeat split; auto.
Qed.

Lemma dists_rel_on_map {W1 W2} (P : W1 -> Prop) (f : W1 -> W2) (ds : list (nat -> W1)) :
  Forall (fun d => forall k, P (d k)) ds ->
  dists_rel (fun a b => P a /\ b = f a) ds (map (fun d k => f (d k)) ds).
Proof.
  intros H; induction H as [|d l Hd _ IH]; cbn [map]; constructor; [|exact IH].
  intros k; split; [apply Hd | reflexivity].
Qed.

Section RescaleOn.
  Context {W1 W2 : Type} (P : W1 -> Prop) (f : W1 -> W2).
  Variables (ltb1 : W1 -> W1 -> bool) (ltb2 : W2 -> W2 -> bool).
  (* [f] preserves (and reflects) the strict order on the values that occur *)
  Hypothesis Hmono : forall a b, P a -> P b -> ltb2 (f a) (f b) = ltb1 a b.

  Let R (a : W1) (b : W2) : Prop := P a /\ b = f a.

  Let Hltb : forall a b, R a b -> forall a' b', R a' b' -> ltb1 a a' = ltb2 b b'.
  Proof. intros a b [Ha ->] a' b' [Ha' ->]. symmetry. now apply Hmono. Qed.

  Theorem rescale_find_prototypes_on top n w nd :
    P top -> (forall p q, P (w p q)) -> Forall P (n_cost nd) ->
    Forall P (n_cost (find_prototypes ltb1 top n w nd)) /\
    find_prototypes ltb2 (f top) n (fun p q => f (w p q)) (map_nodes f nd)
    = map_nodes f (find_prototypes ltb1 top n w nd).
  Proof.
    intros Htop Hw Hnd. apply nodes_rel_on_iff.
    apply (param_find_prototypes R ltb1 ltb2 Hltb).
    - now split.
    - intros p q; now split.
    - apply nodes_rel_on_iff. now split.
  Qed.

  Theorem rescale_compete_on zero top semi nl n w nd :
    P zero -> P top -> (forall p q, P (w p q)) -> Forall P (n_cost nd) ->
    Forall P (n_cost (compete ltb1 zero top semi nl n w nd)) /\
    compete ltb2 (f zero) (f top) semi nl n (fun p q => f (w p q)) (map_nodes f nd)
    = map_nodes f (compete ltb1 zero top semi nl n w nd).
  Proof.
    intros Hzero Htop Hw Hnd. apply nodes_rel_on_iff.
    apply (param_compete R ltb1 ltb2 Hltb).
    - now split.
    - now split.
    - intros p q; now split.
    - apply nodes_rel_on_iff. now split.
  Qed.

  Theorem rescale_sup_fit_on zero top labels w :
    P zero -> P top -> (forall p q, P (w p q)) ->
    Forall P (n_cost (sup_fit ltb1 zero top labels w)) /\
    sup_fit ltb2 (f zero) (f top) labels (fun p q => f (w p q))
    = map_nodes f (sup_fit ltb1 zero top labels w).
  Proof.
    intros Hzero Htop Hw. apply nodes_rel_on_iff.
    apply (param_sup_fit R ltb1 ltb2 Hltb).
    - now split.
    - now split.
    - intros p q; now split.
  Qed.

  Theorem rescale_semi_fit_on zero top labels nu w :
    P zero -> P top -> (forall p q, P (w p q)) ->
    Forall P (n_cost (semi_fit ltb1 zero top labels nu w)) /\
    semi_fit ltb2 (f zero) (f top) labels nu (fun p q => f (w p q))
    = map_nodes f (semi_fit ltb1 zero top labels nu w).
  Proof.
    intros Hzero Htop Hw. apply nodes_rel_on_iff.
    apply (param_semi_fit R ltb1 ltb2 Hltb).
    - now split.
    - now split.
    - intros p q; now split.
  Qed.

  Theorem rescale_predict_one_on zero nd d :
    P zero -> Forall P (n_cost nd) -> (forall k, P (d k)) ->
    predict_one ltb2 (f zero) (map_nodes f nd) (fun k => f (d k)) = predict_one ltb1 zero nd d.
  Proof.
    intros Hzero Hnd Hd. symmetry. apply (param_predict_one R ltb1 ltb2 Hltb).
    - now split.
    - apply nodes_rel_on_iff. now split.
    - intros k; now split.
  Qed.

  (* same predicted labels, same relevance flags (all non-cost fields of the returned table) *)
  Theorem rescale_predict_on zero nd ds :
    P zero -> Forall P (n_cost nd) -> Forall (fun d => forall k, P (d k)) ds ->
    predict_batch ltb2 (f zero) (map_nodes f nd) (map (fun d k => f (d k)) ds)
    = (map_nodes f (fst (predict_batch ltb1 zero nd ds)), snd (predict_batch ltb1 zero nd ds)).
  Proof.
    intros Hzero Hnd Hds.
    destruct (param_predict_batch R ltb1 ltb2 Hltb zero (f zero) (conj Hzero eq_refl)
                                  nd (map_nodes f nd) ds (map (fun d k => f (d k)) ds)) as [H1 H2].
    - apply nodes_rel_on_iff. now split.
    - now apply dists_rel_on_map.
    - apply nodes_rel_on_iff in H1. destruct H1 as [_ H1].
      rewrite (surjective_pairing (predict_batch ltb2 _ _ _)). now rewrite H1, H2.
  Qed.
End RescaleOn.

(* ---------- [f] order-preserving everywhere ---------- *)

Section Rescale.
  Context {W1 W2 : Type} (f : W1 -> W2).
  Variables (ltb1 : W1 -> W1 -> bool) (ltb2 : W2 -> W2 -> bool).
  Hypothesis Hmono : forall a b, ltb2 (f a) (f b) = ltb1 a b.

  Let P (a : W1) : Prop := True.
  Let HmonoP : forall a b, P a -> P b -> ltb2 (f a) (f b) = ltb1 a b.
  Proof. intros a b _ _. apply Hmono. Qed.
  Let allP (l : list W1) : Forall P l.
  Proof. apply Forall_forall. intros; exact I. Qed.

  Theorem rescale_find_prototypes_gen top n w nd :
    find_prototypes ltb2 (f top) n (fun p q => f (w p q)) (map_nodes f nd)
    = map_nodes f (find_prototypes ltb1 top n w nd).
  Proof. apply (rescale_find_prototypes_on P f ltb1 ltb2 HmonoP); try (intros; exact I); apply allP. Qed.

  Theorem rescale_compete_gen zero top semi nl n w nd :
    compete ltb2 (f zero) (f top) semi nl n (fun p q => f (w p q)) (map_nodes f nd)
    = map_nodes f (compete ltb1 zero top semi nl n w nd).
  Proof. apply (rescale_compete_on P f ltb1 ltb2 HmonoP); try (intros; exact I); apply allP. Qed.

  Theorem rescale_sup_fit_gen zero top labels w :
    sup_fit ltb2 (f zero) (f top) labels (fun p q => f (w p q))
    = map_nodes f (sup_fit ltb1 zero top labels w).
  Proof. apply (rescale_sup_fit_on P f ltb1 ltb2 HmonoP); try (intros; exact I); apply allP. Qed.

  Theorem rescale_semi_fit_gen zero top labels nu w :
    semi_fit ltb2 (f zero) (f top) labels nu (fun p q => f (w p q))
    = map_nodes f (semi_fit ltb1 zero top labels nu w).
  Proof. apply (rescale_semi_fit_on P f ltb1 ltb2 HmonoP); try (intros; exact I); apply allP. Qed.

  Theorem rescale_predict_one_gen zero nd d :
    predict_one ltb2 (f zero) (map_nodes f nd) (fun k => f (d k)) = predict_one ltb1 zero nd d.
  Proof. apply (rescale_predict_one_on P f ltb1 ltb2 HmonoP); try (intros; exact I); apply allP. Qed.

  Theorem rescale_predict_gen zero nd ds :
    predict_batch ltb2 (f zero) (map_nodes f nd) (map (fun d k => f (d k)) ds)
    = (map_nodes f (fst (predict_batch ltb1 zero nd ds)), snd (predict_batch ltb1 zero nd ds)).
  Proof.
    apply (rescale_predict_on P f ltb1 ltb2 HmonoP); try (intros; exact I); try apply allP.
    apply Forall_forall. intros d _ k. exact I.
  Qed.

  (* the whole supervised pipeline: train on [f o w], classify with [f o d] *)
  Theorem rescale_pipeline_gen zero top labels w ds :
    predict_batch ltb2 (f zero) (sup_fit ltb2 (f zero) (f top) labels (fun p q => f (w p q)))
                  (map (fun d k => f (d k)) ds)
    = (map_nodes f (fst (predict_batch ltb1 zero (sup_fit ltb1 zero top labels w) ds)),
       snd (predict_batch ltb1 zero (sup_fit ltb1 zero top labels w) ds)).
  Proof. rewrite rescale_sup_fit_gen. apply rescale_predict_gen. Qed.
End Rescale.

(* ---------- W = Z, [f] strictly increasing ---------- *)

Lemma Zltb_mono_on (P : Z -> Prop) (f : Z -> Z) :
  (forall a b, P a -> P b -> (a < b)%Z -> (f a < f b)%Z) ->
  forall a b, P a -> P b -> Z.ltb (f a) (f b) = Z.ltb a b.
Proof.
  intros Hinc a b Ha Hb.
  destruct (Z.ltb_spec a b) as [Hlt|Hge].
  - apply Z.ltb_lt. now apply Hinc.
  - apply Z.ltb_ge. destruct (Z.eq_dec a b) as [->|Hne]; [lia|].
    assert (Hlt : (b < a)%Z) by lia. specialize (Hinc b a Hb Ha Hlt). lia.
Qed.

Lemma Zltb_mono (f : Z -> Z) :
  (forall a b, (a < b)%Z -> (f a < f b)%Z) -> forall a b, Z.ltb (f a) (f b) = Z.ltb a b.
Proof.
  intros Hinc a b. apply (Zltb_mono_on (fun _ => True) f); auto.
Qed.

Section RescaleZ.
  Variable f : Z -> Z.
  Hypothesis Hinc : forall a b, (a < b)%Z -> (f a < f b)%Z.

  Theorem rescale_find_prototypes top n w nd :
    find_prototypes Z.ltb (f top) n (fun p q => f (w p q)) (map_nodes f nd)
    = map_nodes f (find_prototypes Z.ltb top n w nd).
  Proof. apply rescale_find_prototypes_gen, Zltb_mono, Hinc. Qed.

  Theorem rescale_compete zero top semi nl n w nd :
    compete Z.ltb (f zero) (f top) semi nl n (fun p q => f (w p q)) (map_nodes f nd)
    = map_nodes f (compete Z.ltb zero top semi nl n w nd).
  Proof. apply rescale_compete_gen, Zltb_mono, Hinc. Qed.

  Theorem rescale_sup_fit zero top labels w :
    sup_fit Z.ltb (f zero) (f top) labels (fun p q => f (w p q))
    = map_nodes f (sup_fit Z.ltb zero top labels w).
  Proof. apply rescale_sup_fit_gen, Zltb_mono, Hinc. Qed.

  Theorem rescale_semi_fit zero top labels nu w :
    semi_fit Z.ltb (f zero) (f top) labels nu (fun p q => f (w p q))
    = map_nodes f (semi_fit Z.ltb zero top labels nu w).
  Proof. apply rescale_semi_fit_gen, Zltb_mono, Hinc. Qed.

  Theorem rescale_predict_one zero nd d :
    predict_one Z.ltb (f zero) (map_nodes f nd) (fun k => f (d k)) = predict_one Z.ltb zero nd d.
  Proof. apply rescale_predict_one_gen, Zltb_mono, Hinc. Qed.

  Theorem rescale_predict zero nd ds :
    predict_batch Z.ltb (f zero) (map_nodes f nd) (map (fun d k => f (d k)) ds)
    = (map_nodes f (fst (predict_batch Z.ltb zero nd ds)), snd (predict_batch Z.ltb zero nd ds)).
  Proof. apply rescale_predict_gen, Zltb_mono, Hinc. Qed.

  Theorem rescale_pipeline zero top labels w ds :
    predict_batch Z.ltb (f zero) (sup_fit Z.ltb (f zero) (f top) labels (fun p q => f (w p q)))
                  (map (fun d k => f (d k)) ds)
    = (map_nodes f (fst (predict_batch Z.ltb zero (sup_fit Z.ltb zero top labels w) ds)),
       snd (predict_batch Z.ltb zero (sup_fit Z.ltb zero top labels w) ds)).
  Proof. apply rescale_pipeline_gen, Zltb_mono, Hinc. Qed.
End RescaleZ.

(* ---------- two metrics, one a monotone transform of the other (Euclidean family) ----------

   [w2 = f o w1] pointwise, [f] order-preserving on a set [P] of values containing [zero], [top1]
   and every weight / query distance (for the Euclidean family: the non-negative numbers),
   [f zero = zero].  The two trainings differ only in their costs and the predictions agree. *)
Section TwoMetrics.
  Context {W : Type} (P : W -> Prop) (f : W -> W).
  Variable ltb : W -> W -> bool.
  Hypothesis Hmono : forall a b, P a -> P b -> ltb (f a) (f b) = ltb a b.
  Variables zero top1 top2 : W.
  Hypothesis Hzero : f zero = zero.
  Hypothesis Htop : top2 = f top1.
  Hypothesis HPzero : P zero.
  Hypothesis HPtop : P top1.

  Theorem monotone_transform_sup_fit labels w1 w2 :
    (forall p q, P (w1 p q)) -> (forall p q, w2 p q = f (w1 p q)) ->
    sup_fit ltb zero top2 labels w2 = map_nodes f (sup_fit ltb zero top1 labels w1).
  Proof.
    intros HP Hw.
    apply (nodes_rel_on_iff P f). apply (param_sup_fit (fun a b => P a /\ b = f a) ltb ltb).
    - intros a b [Ha ->] a' b' [Ha' ->]. symmetry. now apply Hmono.
    - split; [exact HPzero | now symmetry].
    - split; [exact HPtop | exact Htop].
    - intros p q; split; [apply HP | apply Hw].
  Qed.

  Theorem monotone_transform_fields labels w1 w2 :
    (forall p q, P (w1 p q)) -> (forall p q, w2 p q = f (w1 p q)) ->
    let a := sup_fit ltb zero top1 labels w1 in
    let b := sup_fit ltb zero top2 labels w2 in
    n_status b = n_status a /\ n_pred b = n_pred a /\ n_plabel b = n_plabel a /\
    n_label b = n_label a /\ n_order b = n_order a /\ n_relevant b = n_relevant a /\
    n_cost b = map f (n_cost a).
  Proof.
    intros HP Hw a b. unfold a, b. rewrite (monotone_transform_sup_fit labels w1 w2 HP Hw).
    unfold map_nodes; cbn [n_cost n_pred n_label n_plabel n_status n_relevant n_order].
    repeat split.
  Qed.

  Theorem monotone_transform_predict labels w1 w2 ds1 ds2 :
    (forall p q, P (w1 p q)) -> (forall p q, w2 p q = f (w1 p q)) ->
    Forall2 (fun d1 d2 => forall k, P (d1 k) /\ d2 k = f (d1 k)) ds1 ds2 ->
    snd (predict_batch ltb zero (sup_fit ltb zero top2 labels w2) ds2)
    = snd (predict_batch ltb zero (sup_fit ltb zero top1 labels w1) ds1) /\
    n_relevant (fst (predict_batch ltb zero (sup_fit ltb zero top2 labels w2) ds2))
    = n_relevant (fst (predict_batch ltb zero (sup_fit ltb zero top1 labels w1) ds1)).
  Proof.
    intros HP Hw Hds.
    rewrite (monotone_transform_sup_fit labels w1 w2 HP Hw).
    destruct (rescale_sup_fit_on P f ltb ltb Hmono zero top1 labels w1 HPzero HPtop HP) as [Hc _].
    set (R := fun a b => P a /\ b = f a).
    assert (Hltb : forall a b, R a b -> forall a' b', R a' b' -> ltb a a' = ltb b b').
    { intros a b [Ha ->] a' b' [Ha' ->]. symmetry. now apply Hmono. }
    destruct (param_predict_batch R ltb ltb Hltb zero zero (conj HPzero (eq_sym Hzero))
                (sup_fit ltb zero top1 labels w1) (map_nodes f (sup_fit ltb zero top1 labels w1))
                ds1 ds2) as [H1 H2].
    - apply nodes_rel_on_iff. now split.
    - exact Hds.
    - split; [now symmetry|]. destruct H1 as (_ & _ & _ & _ & _ & Hr & _). now symmetry.
  Qed.
End TwoMetrics.

(* ---------- the same statements field by field (the form used in Props/C11_rescale.v) ---------- *)

(* [b] is [a] with its costs mapped by [f] *)
Definition nodes_mapped {W1 W2} (f : W1 -> W2) (a : @nodes W1) (b : @nodes W2) : Prop :=
  n_cost b = map f (n_cost a) /\ n_pred b = n_pred a /\ n_label b = n_label a /\
  n_plabel b = n_plabel a /\ n_status b = n_status a /\ n_relevant b = n_relevant a /\
  n_order b = n_order a.

Lemma nodes_mapped_iff {W1 W2} (f : W1 -> W2) a b : nodes_mapped f a b <-> b = map_nodes f a.
Proof.
  destruct a as [c1 p1 l1 pl1 s1 r1 o1], b as [c2 p2 l2 pl2 s2 r2 o2].
  unfold nodes_mapped, map_nodes; cbn [n_cost n_pred n_label n_plabel n_status n_relevant n_order].
  split.
  - intros (Hc & Hp & Hl & Hpl & Hs & Hr & Ho). now subst.
  - intros H. injection H as -> -> -> -> -> -> ->. repeat split.
Qed.

Section RescaleFields.
  Context {W1 W2 : Type} (f : W1 -> W2).
  Variables (ltb1 : W1 -> W1 -> bool) (ltb2 : W2 -> W2 -> bool).
  Hypothesis Hmono : forall a b, ltb2 (f a) (f b) = ltb1 a b.

  Theorem rescale_find_prototypes_fields top n w nd nd' :
    nodes_mapped f nd nd' ->
    nodes_mapped f (find_prototypes ltb1 top n w nd)
                   (find_prototypes ltb2 (f top) n (fun p q => f (w p q)) nd').
  Proof.
    intros H. apply nodes_mapped_iff in H. subst nd'. apply nodes_mapped_iff.
    now apply rescale_find_prototypes_gen.
  Qed.

  Theorem rescale_compete_fields zero top semi nl n w nd nd' :
    nodes_mapped f nd nd' ->
    nodes_mapped f (compete ltb1 zero top semi nl n w nd)
                   (compete ltb2 (f zero) (f top) semi nl n (fun p q => f (w p q)) nd').
  Proof.
    intros H. apply nodes_mapped_iff in H. subst nd'. apply nodes_mapped_iff.
    now apply rescale_compete_gen.
  Qed.

  Theorem rescale_sup_fit_fields zero top labels w :
    nodes_mapped f (sup_fit ltb1 zero top labels w)
                   (sup_fit ltb2 (f zero) (f top) labels (fun p q => f (w p q))).
  Proof. apply nodes_mapped_iff. now apply rescale_sup_fit_gen. Qed.

  Theorem rescale_semi_fit_fields zero top labels nu w :
    nodes_mapped f (semi_fit ltb1 zero top labels nu w)
                   (semi_fit ltb2 (f zero) (f top) labels nu (fun p q => f (w p q))).
  Proof. apply nodes_mapped_iff. now apply rescale_semi_fit_gen. Qed.

  Theorem rescale_predict_fields zero nd nd' ds :
    nodes_mapped f nd nd' ->
    snd (predict_batch ltb2 (f zero) nd' (map (fun d k => f (d k)) ds))
    = snd (predict_batch ltb1 zero nd ds) /\
    nodes_mapped f (fst (predict_batch ltb1 zero nd ds))
                   (fst (predict_batch ltb2 (f zero) nd' (map (fun d k => f (d k)) ds))).
  Proof.
    intros H. apply nodes_mapped_iff in H. subst nd'.
    rewrite (rescale_predict_gen f ltb1 ltb2 Hmono). cbn [fst snd]. split; [reflexivity|].
    now apply nodes_mapped_iff.
  Qed.
End RescaleFields.

Section RescaleZFields.
  Variable f : Z -> Z.
  Hypothesis Hinc : forall a b, (a < b)%Z -> (f a < f b)%Z.

  Theorem rescale_find_prototypes_Z top n w nd nd' :
    nodes_mapped f nd nd' ->
    nodes_mapped f (find_prototypes Z.ltb top n w nd)
                   (find_prototypes Z.ltb (f top) n (fun p q => f (w p q)) nd').
  Proof. apply rescale_find_prototypes_fields, Zltb_mono, Hinc. Qed.

  Theorem rescale_compete_Z zero top semi nl n w nd nd' :
    nodes_mapped f nd nd' ->
    nodes_mapped f (compete Z.ltb zero top semi nl n w nd)
                   (compete Z.ltb (f zero) (f top) semi nl n (fun p q => f (w p q)) nd').
  Proof. apply rescale_compete_fields, Zltb_mono, Hinc. Qed.

  Theorem rescale_sup_fit_Z zero top labels w :
    nodes_mapped f (sup_fit Z.ltb zero top labels w)
                   (sup_fit Z.ltb (f zero) (f top) labels (fun p q => f (w p q))).
  Proof. apply rescale_sup_fit_fields, Zltb_mono, Hinc. Qed.

  Theorem rescale_semi_fit_Z zero top labels nu w :
    nodes_mapped f (semi_fit Z.ltb zero top labels nu w)
                   (semi_fit Z.ltb (f zero) (f top) labels nu (fun p q => f (w p q))).
  Proof. apply rescale_semi_fit_fields, Zltb_mono, Hinc. Qed.

  Theorem rescale_predict_Z zero nd nd' ds :
    nodes_mapped f nd nd' ->
    snd (predict_batch Z.ltb (f zero) nd' (map (fun d k => f (d k)) ds))
    = snd (predict_batch Z.ltb zero nd ds) /\
    nodes_mapped f (fst (predict_batch Z.ltb zero nd ds))
                   (fst (predict_batch Z.ltb (f zero) nd' (map (fun d k => f (d k)) ds))).
  Proof. apply rescale_predict_fields, Zltb_mono, Hinc. Qed.

  (* train and classify on the transformed weights *)
  Theorem rescale_pipeline_Z zero top labels w ds :
    snd (predict_batch Z.ltb (f zero) (sup_fit Z.ltb (f zero) (f top) labels (fun p q => f (w p q)))
                       (map (fun d k => f (d k)) ds))
    = snd (predict_batch Z.ltb zero (sup_fit Z.ltb zero top labels w) ds).
  Proof. apply rescale_predict_Z, rescale_sup_fit_Z. Qed.
End RescaleZFields.

(* ---------- same sentinel in both runs ----------

   The library uses one constant FLOAT_MAX as [top] whatever the metric, so for two metrics
   [w2 = f o w1] the second run has [top2 = top1], not [f top1].  It is enough that the sentinel
   compares with the transformed weights as it did with the original ones.  The relation is
   "[b = f a] on the values [P], or both are the sentinel"; costs are related by it
   (a cost is the sentinel only for a node never reached). *)
Section Sentinel.
  Context {W1 W2 : Type} (P : W1 -> Prop) (f : W1 -> W2).
  Variables (ltb1 : W1 -> W1 -> bool) (ltb2 : W2 -> W2 -> bool).
  Variables (zero1 top1 : W1) (zero2 top2 : W2).
  Hypothesis Hmono : forall a b, P a -> P b -> ltb2 (f a) (f b) = ltb1 a b.
  Hypothesis Htop_l : forall a, P a -> ltb2 (f a) top2 = ltb1 a top1.
  Hypothesis Htop_r : forall a, P a -> ltb2 top2 (f a) = ltb1 top1 a.
  Hypothesis Htop_t : ltb2 top2 top2 = ltb1 top1 top1.
  Hypothesis Hzero : zero2 = f zero1.
  Hypothesis HPzero : P zero1.

  Definition rel_sentinel (a : W1) (b : W2) : Prop := (P a /\ b = f a) \/ (a = top1 /\ b = top2).

  Let Hltb : forall a b, rel_sentinel a b -> forall a' b', rel_sentinel a' b' -> ltb1 a a' = ltb2 b b'.
  Proof.
    intros a b [[Ha ->]|[-> ->]] a' b' [[Ha' ->]|[-> ->]]; symmetry; auto.
  Qed.

  Theorem monotone_transform_sentinel labels w1 w2 :
    (forall p q, P (w1 p q)) -> (forall p q, w2 p q = f (w1 p q)) ->
    nodes_rel rel_sentinel (sup_fit ltb1 zero1 top1 labels w1) (sup_fit ltb2 zero2 top2 labels w2).
  Proof.
    intros HP Hw. apply (param_sup_fit rel_sentinel ltb1 ltb2 Hltb).
    - left. split; [exact HPzero | exact Hzero].
    - right. now split.
    - intros p q. left. split; [apply HP | apply Hw].
  Qed.

  Theorem monotone_transform_sentinel_predict labels w1 w2 ds1 ds2 :
    (forall p q, P (w1 p q)) -> (forall p q, w2 p q = f (w1 p q)) ->
    Forall2 (fun d1 d2 => forall k, P (d1 k) /\ d2 k = f (d1 k)) ds1 ds2 ->
    snd (predict_batch ltb1 zero1 (sup_fit ltb1 zero1 top1 labels w1) ds1)
    = snd (predict_batch ltb2 zero2 (sup_fit ltb2 zero2 top2 labels w2) ds2) /\
    n_relevant (fst (predict_batch ltb1 zero1 (sup_fit ltb1 zero1 top1 labels w1) ds1))
    = n_relevant (fst (predict_batch ltb2 zero2 (sup_fit ltb2 zero2 top2 labels w2) ds2)).
  Proof.
    intros HP Hw Hds.
    destruct (param_predict_batch rel_sentinel ltb1 ltb2 Hltb zero1 zero2
                (or_introl (conj HPzero Hzero))
                (sup_fit ltb1 zero1 top1 labels w1) (sup_fit ltb2 zero2 top2 labels w2) ds1 ds2)
      as [H1 H2].
    - now apply monotone_transform_sentinel.
    - unfold dists_rel. clear -Hds. induction Hds as [|d1 d2 l l' Hd _ IH]; constructor; [|exact IH].
      intros k. left. apply Hd.
    - split; [exact H2|]. now destruct H1 as (_ & _ & _ & _ & _ & Hr & _).
  Qed.
End Sentinel.
