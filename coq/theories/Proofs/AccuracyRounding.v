(* opf_accuracy in floating point: the float-level model [accuracy_F] (Model/KnnLearn.v) at [RndOps rnd] - the
   reals with [rnd] after every + - * / - for every rounding of the standard model [rnd_rel u rnd], 0 <= u < 1
   (Model/MetricRdepth.v), against the exact value [acc_exact] (Model/AccuracyRnd.v).

   The chain of roundings, K = n_class labels:
     every term  fp_c/(N - n_c), fn_c/n_c         one rounded division of exact integers          depth 1
     every row   term + term                      one rounded addition of non-negative values     depth 2
     np.sum of the K rows                         numpy's pairwise summation; at most K further
                                                  roundings on any path (K < 8: the plain loop from 0.,
                                                  exactly K; K >= 8: at most K - 1)                depth K + 2
     / (2K)                                       one rounded division by an exact integer        depth K + 3
     1 - .                                        one rounded subtraction: relative to the RESULT, hence the
                                                  error bound is absolute, not relative to 1 - x.
   Proofs/NpSumRel.v supplies the induction over numpy's summation order. *)
From Coq Require Import Reals List Arith ZArith Lia Lra.
From OPF Require Model.Measures Proofs.MeasuresCount Proofs.KnnLearnAccuracy.
From OPF Require Import Spec.MetricSpec Model.MetricRnd Model.MetricRdepth Model.KnnFit Model.KnnLearn
     Model.AccuracyRnd Proofs.RoundingBounds Proofs.NpSumRel Base.NumOpsRnd Base.NumOps.
Import ListNotations.
Local Open Scope R_scope.

Module MC := OPF.Proofs.MeasuresCount.
Module KA := OPF.Proofs.KnnLearnAccuracy.
Notation n_class := Measures.n_class.
Notation FP := Measures.FP.
Notation FN := Measures.FN.
Notation count := Measures.count.

(* ------------------------------------------------------------------ *)
(* the exact side                                                      *)
(* ------------------------------------------------------------------ *)
Lemma n_class_pos labels : (0 < n_class labels)%nat.
Proof. unfold Measures.n_class. lia. Qed.

Lemma INR_2K_pos labels : 0 < INR (2 * n_class labels).
Proof. apply lt_0_INR. pose proof (n_class_pos labels). lia. Qed.

Lemma acc_fp_01 labels preds c : length labels = length preds -> 0 <= acc_fp labels preds c <= 1.
Proof. intros H. apply KA.ratio_01. now apply MC.FP_le_rest. Qed.

Lemma acc_fn_01 labels preds c : length labels = length preds -> 0 <= acc_fn labels preds c <= 1.
Proof. intros H. apply KA.ratio_01. now apply MC.FN_le_n. Qed.

Lemma sum_map_bounds {A} (f : A -> R) lo hi L :
  (forall c, In c L -> lo <= f c <= hi) -> INR (length L) * lo <= sum (map f L) <= INR (length L) * hi.
Proof.
  induction L as [|c L IH]; intros H.
  - unfold sum. cbn [map fold_right length INR]. lra.
  - cbn [map length]. rewrite rb_sum_cons, S_INR.
    assert (Hc := H c (or_introl eq_refl)). assert (HL := IH (fun c' Hc' => H c' (or_intror Hc'))). lra.
Qed.

Lemma acc_rows_nonneg labels preds : length labels = length preds -> Forall (fun t => 0 <= t) (acc_rows labels preds).
Proof.
  intros H. unfold acc_rows. apply Forall_forall. intros t Ht. apply in_map_iff in Ht. destruct Ht as [c [<- _]].
  pose proof (acc_fp_01 labels preds c H). pose proof (acc_fn_01 labels preds c H). lra.
Qed.

Lemma acc_E_bounds labels preds : length labels = length preds ->
  0 <= acc_E labels preds <= INR (2 * n_class labels).
Proof.
  intros H. unfold acc_E, acc_rows.
  destruct (sum_map_bounds (fun c => acc_fp labels preds c + acc_fn labels preds c) 0 2 (seq 0 (n_class labels))) as [L U].
  { intros c _. pose proof (acc_fp_01 labels preds c H). pose proof (acc_fn_01 labels preds c H). lra. }
  rewrite seq_length in L, U. rewrite mult_INR. change (INR 2) with 2. lra.
Qed.

Lemma acc_x_01 labels preds : length labels = length preds -> 0 <= acc_x labels preds <= 1.
Proof.
  intros H. unfold acc_x. pose proof (acc_E_bounds labels preds H) as [L U].
  pose proof (INR_2K_pos labels) as P. split.
  - apply Rmult_le_pos; [exact L | left; now apply Rinv_0_lt_compat].
  - apply (Rmult_le_reg_r (INR (2 * n_class labels))); [exact P|].
    unfold Rdiv. rewrite Rmult_assoc, Rinv_l by lra. lra.
Qed.

Lemma acc_exact_01 labels preds : length labels = length preds -> 0 <= acc_exact labels preds <= 1.
Proof. intros H. unfold acc_exact. pose proof (acc_x_01 labels preds H). lra. Qed.

Lemma acc_exact_ranges labels preds : length labels = length preds ->
  0 <= acc_x labels preds <= 1 /\ 0 <= acc_exact labels preds <= 1.
Proof. intros H. split; [now apply acc_x_01 | now apply acc_exact_01]. Qed.

Lemma rsum_sum l : KA.rsum l = sum l.
Proof. induction l as [|a l IH]; [reflexivity|]. cbn [KA.rsum]. rewrite IH. reflexivity. Qed.

(* ------------------------------------------------------------------ *)
(* accuracy_F at a real-valued interpretation, unfolded                *)
(* ------------------------------------------------------------------ *)
Lemma ofnat_RndOps rnd x : ofnat (RndOps rnd) x = INR x.
Proof. unfold ofnat. cbn [nofZ RndOps]. symmetry. apply INR_IZR_INZ. Qed.

Lemma nan_to_zero_RndOps rnd x : nan_to_zero (RndOps rnd) x = x.
Proof. unfold nan_to_zero. cbn [neqb RndOps]. unfold Reqb. destruct (Req_EM_T x x); [reflexivity|contradiction]. Qed.

Lemma nth_bincount labels c : (c < n_class labels)%nat -> nth c (Measures.bincount labels) 0%nat = count c labels.
Proof. intros H. unfold Measures.bincount. rewrite KA.nth_map_seq. apply Nat.ltb_lt in H. now rewrite H. Qed.

Lemma accuracy_F_RndOps rnd labels preds :
  accuracy_F (RndOps rnd) labels preds
  = rnd (1 - rnd (np_sum (RndOps rnd) (acc_rows_rnd rnd labels preds) / INR (2 * n_class labels))).
Proof.
  unfold accuracy_F. rewrite MC.errors_FP_FN. cbn [fst snd]. rewrite MC.sum_counts, !ofnat_RndOps.
  cbn [nsub ndiv nofZ RndOps]. do 5 f_equal. unfold acc_rows_rnd. apply map_ext_in. intros c Hc.
  apply in_seq in Hc. assert (Hc' : (c < n_class labels)%nat) by lia.
  rewrite !nan_to_zero_RndOps, !ofnat_RndOps, !KA.nth_map_seq, nth_bincount by exact Hc'.
  apply Nat.ltb_lt in Hc'. rewrite Hc'. reflexivity.
Qed.

Lemma accuracy_F_ROps labels preds : accuracy_F ROps labels preds = acc_exact labels preds.
Proof.
  change ROps with (RndOps (fun t => t)). rewrite accuracy_F_RndOps.
  change (RndOps (fun t => t)) with ROps. rewrite KA.np_sum_R, rsum_sum. reflexivity.
Qed.

(* below 8 classes numpy's np.sum is the plain left-to-right loop: the model is the clean [accuracy_rnd] *)
Lemma np_sum_small {F} (O : NumOps F) (l : list F) : (length l < 8)%nat -> np_sum O l = fold_left (nadd O) l (fzero O).
Proof.
  intros H. unfold np_sum. apply Nat.ltb_lt in H.
  destruct (length l) as [|n] eqn:E; cbn [pairwise_sum]; rewrite E, H; reflexivity.
Qed.

Lemma accuracy_F_rnd_small rnd labels preds : (n_class labels < 8)%nat ->
  accuracy_F (RndOps rnd) labels preds = accuracy_rnd rnd labels preds.
Proof.
  intros HK. rewrite accuracy_F_RndOps. unfold accuracy_rnd. rewrite np_sum_small.
  - reflexivity.
  - unfold acc_rows_rnd. rewrite map_length, seq_length. exact HK.
Qed.

(* ------------------------------------------------------------------ *)
(* the standard model                                                  *)
(* ------------------------------------------------------------------ *)
Lemma bernoulli_minus u n : 0 <= u <= 1 -> 1 - INR n * u <= (1 - u) ^ n.
Proof.
  intros Hu. induction n as [|n IH]; [cbn [INR pow]; lra|].
  rewrite S_INR. cbn [pow]. pose proof (pos_INR n) as Pn.
  destruct (Rle_dec 0 (1 - INR n * u)) as [P|N].
  - nra.
  - assert (0 <= (1 - u) * (1 - u) ^ n) by (apply Rmult_le_pos; [lra | apply pow_le; lra]). nra.
Qed.

Section Std.
  Variables (u : R) (rnd : R -> R).
  Hypothesis U : 0 <= u < 1.
  Hypothesis REL : rnd_rel u rnd.
  Let U0 : 0 <= u := proj1 U.
  Let U1 : u < 1 := proj2 U.
  Local Notation W := (within u).
  Local Notation O := (RndOps rnd).

  (* (a) one rounded division of exact small integers *)
  Lemma term_rel t : exists d, Rabs d <= u /\ rnd t = t * (1 + d).
  Proof. apply REL. Qed.

  Lemma term_within t : W 1 t (rnd t).
  Proof. apply (within_rnd u U0 U1 rnd REL). apply within_refl. Qed.

  Lemma term_two_sided t : 0 <= t -> (1 - u) * t <= rnd t <= (1 + u) * t.
  Proof.
    intros Ht. pose proof (within_nonneg_elim u 1 t (rnd t) Ht (term_within t)) as H.
    cbn [pow] in H. lra.
  Qed.

  Lemma row_within labels preds c : length labels = length preds ->
    W 2 (acc_fp labels preds c + acc_fn labels preds c) (acc_row_rnd rnd labels preds c).
  Proof.
    intros H. unfold acc_row_rnd. apply (within_rnd u U0 U1 rnd REL).
    apply (within_add_nonneg u U0 U1 1 1).
    - apply (acc_fp_01 labels preds c H).
    - apply (acc_fn_01 labels preds c H).
    - apply term_within.
    - apply term_within.
  Qed.

  (* the relation threaded through numpy's summation: m leaves (the initial 0. counted as one), exact value
     non-negative, computed value within 2 + (m - 1) roundings *)
  Definition SRel (m : nat) (s v : R) : Prop := (1 <= m)%nat /\ 0 <= s /\ W (2 + Nat.pred m) s v.

  Lemma SRel_zero : SRel 1 (fzero ROps) (fzero O).
  Proof.
    split; [lia|]. split; [apply Rle_refl|]. cbn [Nat.pred].
    apply (within_weaken u U0 U1 0); [lia | apply within_refl].
  Qed.

  Lemma SRel_add a b x1 x2 y1 y2 : SRel a x1 x2 -> SRel b y1 y2 -> SRel (a + b) (nadd ROps x1 y1) (nadd O x2 y2).
  Proof.
    intros [A1 [A2 A3]] [B1 [B2 B3]]. split; [lia|]. cbn [nadd ROps RndOps]. split; [lra|].
    apply (within_weaken u U0 U1 (S (Nat.max (2 + Nat.pred a) (2 + Nat.pred b)))); [lia|].
    apply (within_rnd u U0 U1 rnd REL). now apply (within_add_nonneg u U0 U1).
  Qed.

  Lemma rows_SRel labels preds : length labels = length preds ->
    Forall2 (SRel 1) (acc_rows labels preds) (acc_rows_rnd rnd labels preds).
  Proof.
    intros H. unfold acc_rows, acc_rows_rnd. apply Forall2_map_same. intros c _.
    split; [lia|]. split.
    - pose proof (acc_fp_01 labels preds c H). pose proof (acc_fn_01 labels preds c H). lra.
    - cbn [Nat.pred]. now apply row_within.
  Qed.

  (* np.sum of the rows, any K: K + 2 roundings deep *)
  Lemma np_sum_within labels preds : length labels = length preds ->
    W (n_class labels + 2) (acc_E labels preds) (np_sum O (acc_rows_rnd rnd labels preds)).
  Proof.
    intros H. set (K := n_class labels).
    pose proof (np_sum_rel ROps O SRel 1 SRel_zero SRel_add _ _ (rows_SRel labels preds H)) as [Hs Hb].
    assert (EL : length (acc_rows labels preds) = K) by (unfold acc_rows; now rewrite map_length, seq_length).
    rewrite EL in Hs, Hb. rewrite KA.np_sum_R, rsum_sum in Hs, Hb. fold (acc_E labels preds) in Hs, Hb.
    destruct (Nat.lt_ge_cases K 8) as [L|L].
    - destruct (Hs L) as [_ [_ Hw]]. apply (within_weaken u U0 U1 (2 + Nat.pred (1 + K))); [lia | exact Hw].
    - destruct (Hb L) as [_ [_ Hw]]. apply (within_weaken u U0 U1 (2 + Nat.pred K)); [lia | exact Hw].
  Qed.

  (* the computed error rate [acc_q] = rnd (np.sum(errors) / (2K)) *)
  Local Notation acc_q := (acc_q rnd).

  Lemma accuracy_F_q labels preds : accuracy_F O labels preds = rnd (1 - acc_q labels preds).
  Proof. apply accuracy_F_RndOps. Qed.

  Lemma acc_q_within labels preds : length labels = length preds ->
    W (n_class labels + 3) (acc_x labels preds) (acc_q labels preds).
  Proof.
    intros H. unfold acc_q, acc_x. replace (n_class labels + 3)%nat with (S (n_class labels + 2)) by lia.
    apply (within_rnd u U0 U1 rnd REL). apply within_div_exact. now apply np_sum_within.
  Qed.

  Lemma acc_q_nonneg labels preds : length labels = length preds -> 0 <= acc_q labels preds.
  Proof.
    intros H. apply (within_nonneg_val u U1 _ _ _ (proj1 (acc_x_01 labels preds H)) (acc_q_within labels preds H)).
  Qed.

  (* (b) the error bound *)
  Theorem accuracy_error labels preds : length labels = length preds ->
    Rabs (accuracy_F O labels preds - acc_exact labels preds)
      <= ((1 + u) ^ (n_class labels + 4) - 1) * acc_x labels preds + u * acc_exact labels preds.
  Proof.
    intros H. rewrite accuracy_F_q. unfold acc_exact.
    pose proof (acc_x_01 labels preds H) as [X0 X1]. set (x := acc_x labels preds) in *.
    pose proof (within_abs_nonneg u U0 U1 _ _ _ X0 (acc_q_within labels preds H)) as E. fold x in E.
    set (q := acc_q labels preds) in *. set (p := (1 + u) ^ (n_class labels + 3)) in *.
    replace (n_class labels + 4)%nat with (S (n_class labels + 3)) by lia. cbn [pow]. fold p.
    assert (P1 : 1 <= p) by (apply pu_ge1; exact U0).
    destruct (REL (1 - q)) as [d [Hd Ed]]. rewrite Ed.
    apply Rabs_le_inv in E. apply Rabs_le_inv in Hd.
    set (e := (p - 1) * x) in *.
    assert (E0 : 0 <= e) by (apply Rmult_le_pos; lra).
    (* |d (1 - q)| <= u (1 - x + e) *)
    assert (Y : - (1 - x + e) <= 1 - q <= 1 - x + e) by lra.
    assert (DY : - (u * (1 - x + e)) <= d * (1 - q) <= u * (1 - x + e)).
    { assert (A : Rabs (d * (1 - q)) <= u * (1 - x + e)).
      { rewrite Rabs_mult. apply Rmult_le_compat; try apply Rabs_pos; apply Rabs_le; lra. }
      apply Rabs_le_inv in A. lra. }
    apply Rabs_le.
    replace ((1 - q) * (1 + d) - (1 - x)) with ((x - q) + d * (1 - q)) by ring.
    assert (B : e + u * (1 - x + e) <= ((1 + u) * p - 1) * x + u * (1 - x)).
    { unfold e. assert (0 <= u * x) by (apply Rmult_le_pos; lra). nra. }
    lra.
  Qed.

  Corollary accuracy_error_abs labels preds : length labels = length preds ->
    Rabs (accuracy_F O labels preds - acc_exact labels preds) <= (1 + u) ^ (n_class labels + 4) - 1.
  Proof.
    intros H. pose proof (accuracy_error labels preds H) as E.
    pose proof (acc_x_01 labels preds H) as [X0 X1]. unfold acc_exact in *.
    set (x := acc_x labels preds) in *. set (P := (1 + u) ^ (n_class labels + 4)) in *.
    assert (PU : 1 + u <= P).
    { unfold P. replace (n_class labels + 4)%nat with (S (n_class labels + 3)) by lia. cbn [pow].
      pose proof (pu_ge1 u (n_class labels + 3) U0). nra. }
    assert ((P - 1) * x + u * (1 - x) <= P - 1) by nra. lra.
  Qed.

  Theorem accuracy_error_rate labels preds : length labels = length preds ->
    accuracy_F O labels preds = rnd (1 - acc_q labels preds) /\
    W (n_class labels + 3) (acc_x labels preds) (acc_q labels preds).
  Proof. intros H. split; [apply accuracy_F_q | now apply acc_q_within]. Qed.

  (* (a) *)
  Theorem accuracy_terms labels preds c : length labels = length preds ->
    (exists d, Rabs d <= u /\ rnd (acc_fp labels preds c) = acc_fp labels preds c * (1 + d)) /\
    (exists d, Rabs d <= u /\ rnd (acc_fn labels preds c) = acc_fn labels preds c * (1 + d)) /\
    (1 - u) * acc_fp labels preds c <= rnd (acc_fp labels preds c) <= (1 + u) * acc_fp labels preds c /\
    (1 - u) * acc_fn labels preds c <= rnd (acc_fn labels preds c) <= (1 + u) * acc_fn labels preds c /\
    0 <= acc_fp labels preds c <= 1 /\ 0 <= acc_fn labels preds c <= 1.
  Proof.
    intros H. pose proof (acc_fp_01 labels preds c H) as A. pose proof (acc_fn_01 labels preds c H) as B.
    split; [apply term_rel|]. split; [apply term_rel|].
    split; [apply term_two_sided; lra|]. split; [apply term_two_sided; lra|]. split; assumption.
  Qed.

  (* (e) the range *)
  Theorem accuracy_range labels preds : length labels = length preds ->
    - ((1 + u) ^ (n_class labels + 4) - 1) <= accuracy_F O labels preds <= 1 + u.
  Proof.
    intros H. split.
    - pose proof (accuracy_error_abs labels preds H) as E. apply Rabs_le_inv in E.
      pose proof (acc_exact_01 labels preds H). lra.
    - rewrite accuracy_F_q. pose proof (acc_q_nonneg labels preds H) as Q.
      destruct (REL (1 - acc_q labels preds)) as [d [Hd Ed]]. rewrite Ed. apply Rabs_le_inv in Hd.
      destruct (Rle_dec 0 (1 - acc_q labels preds)) as [P|N]; nra.
  Qed.

  (* (c) all predictions correct *)
  Lemma acc_x_all_correct labels : acc_x labels labels = 0.
  Proof.
    unfold acc_x, acc_E, acc_rows.
    assert (Z : sum (map (fun c => acc_fp labels labels c + acc_fn labels labels c) (seq 0 (n_class labels))) = 0).
    { induction (seq 0 (n_class labels)) as [|c L IH]; [reflexivity|]. cbn [map]. rewrite rb_sum_cons, IH.
      unfold acc_fp, acc_fn. destruct (MC.all_correct_FN_FP labels c) as [-> ->]. cbn [INR]. unfold Rdiv. ring. }
    rewrite Z. unfold Rdiv. ring.
  Qed.

  Theorem accuracy_all_correct labels : accuracy_F O labels labels = rnd 1.
  Proof.
    rewrite accuracy_F_q. destruct (acc_q_within labels labels eq_refl) as [rho [E _]].
    rewrite acc_x_all_correct in E. rewrite E. f_equal. ring.
  Qed.

  Corollary accuracy_all_correct_both labels :
    accuracy_F O labels labels = rnd 1 /\ (rnd 1 = 1 -> accuracy_F O labels labels = 1).
  Proof. split; [apply accuracy_all_correct | intros R1; now rewrite accuracy_all_correct]. Qed.

  (* (d) some prediction wrong *)
  Lemma bounded_search (P : nat -> Prop) (dec : forall c, {P c} + {~ P c}) K :
    (forall c, (c < K)%nat -> P c) \/ exists c, (c < K)%nat /\ ~ P c.
  Proof.
    induction K as [|K [IH|[c [Hc Hn]]]].
    - left. intros c Hc. lia.
    - destruct (dec K) as [HK|HK].
      + left. intros c Hc. destruct (Nat.eq_dec c K) as [->|N]; [exact HK | apply IH; lia].
      + right. exists K. split; [lia | exact HK].
    - right. exists c. split; [lia | exact Hn].
  Qed.

  Lemma sum_ge_term (f : nat -> R) L c : (forall c', 0 <= f c') -> In c L -> f c <= sum (map f L).
  Proof.
    intros Hf. induction L as [|a L IH]; intros Hin; [destruct Hin|]. cbn [map]. rewrite rb_sum_cons.
    assert (0 <= sum (map f L)).
    { apply sum_nonneg. apply Forall_forall. intros t Ht. apply in_map_iff in Ht. destruct Ht as [c' [<- _]]. apply Hf. }
    destruct Hin as [->|Hin]; [lra|]. specialize (IH Hin). specialize (Hf a). lra.
  Qed.

  Lemma count_le_length c labels : (count c labels <= length labels)%nat.
  Proof. unfold Measures.count. apply MC.filter_len_le_length. Qed.

  Lemma acc_x_wrong labels preds : length labels = length preds -> preds <> labels ->
    / INR (2 * n_class labels * length labels) <= acc_x labels preds.
  Proof.
    intros H Hne.
    destruct (bounded_search (fun c => FN c labels preds = 0%nat) (fun c => Nat.eq_dec _ _) (n_class labels)) as [A|[c [Hc Hn]]].
    { exfalso. apply Hne. now apply MC.FN_zero_all_correct. }
    pose proof (MC.FN_le_n labels preds c H) as Hle. pose proof (count_le_length c labels) as HN.
    set (fn := FN c labels preds) in *. set (nc := count c labels) in *. set (N := length labels) in *.
    assert (F1 : 1 <= INR fn) by (change 1 with (INR 1); apply le_INR; lia).
    assert (Pnc : 0 < INR nc) by (apply lt_0_INR; lia).
    assert (PN : 0 < INR N) by (apply lt_0_INR; lia).
    assert (LN : INR nc <= INR N) by (now apply le_INR).
    assert (T : / INR N <= acc_fn labels preds c).
    { unfold acc_fn. fold fn nc. apply Rle_trans with (/ INR nc).
      - apply Rinv_le_contravar; assumption.
      - unfold Rdiv. rewrite <- (Rmult_1_l (/ INR nc)) at 1. apply Rmult_le_compat_r; [left; now apply Rinv_0_lt_compat | exact F1]. }
    assert (Erow : acc_fn labels preds c <= acc_E labels preds).
    { unfold acc_E, acc_rows.
      apply Rle_trans with ((fun c => acc_fp labels preds c + acc_fn labels preds c) c).
      - pose proof (acc_fp_01 labels preds c H). cbv beta. lra.
      - apply (sum_ge_term (fun c => acc_fp labels preds c + acc_fn labels preds c) (seq 0 (n_class labels)) c); [|apply in_seq; lia].
        intros c'. pose proof (acc_fp_01 labels preds c' H). pose proof (acc_fn_01 labels preds c' H). lra. }
    unfold acc_x. pose proof (INR_2K_pos labels) as P2K.
    rewrite mult_INR. fold N. rewrite Rinv_mult. unfold Rdiv. rewrite (Rmult_comm (/ INR (2 * n_class labels))).
    apply Rmult_le_compat_r; [left; now apply Rinv_0_lt_compat | lra].
  Qed.

  Theorem accuracy_wrong_lt_one labels preds : length labels = length preds -> preds <> labels ->
    INR (2 * n_class labels * length labels + n_class labels + 3) * u < 1 ->
    accuracy_F O labels preds < 1.
  Proof.
    intros H Hne Hsmall. rewrite accuracy_F_q.
    pose proof (acc_x_wrong labels preds H Hne) as X. pose proof (acc_x_01 labels preds H) as [X0 X1].
    pose proof (within_nonneg_elim u _ _ _ X0 (acc_q_within labels preds H)) as [QL _].
    set (q := acc_q labels preds) in *. set (x := acc_x labels preds) in *.
    set (M := INR (2 * n_class labels * length labels)) in *.
    assert (PM : 0 < M).
    { unfold M. apply lt_0_INR. pose proof (n_class_pos labels).
      assert (0 < length labels)%nat; [|nia]. destruct labels; [|cbn [length]; lia].
      destruct preds; [exfalso; now apply Hne | discriminate H]. }
    assert (I3 : INR 3 = 3) by (cbn [INR]; lra).
    rewrite !plus_INR, I3 in Hsmall. fold M in Hsmall.
    pose proof (bernoulli_minus u (n_class labels + 3) ltac:(lra)) as B. rewrite plus_INR, I3 in B.
    set (K := INR (n_class labels)) in *. set (m := (1 - u) ^ (n_class labels + 3)) in *.
    (* q >= m / M, and m > M u, hence q > u *)
    assert (Qu : u < q).
    { assert (A : M * u < m) by lra.
      assert (Xm : m * / M <= m * x).
      { apply Rmult_le_compat_l; [unfold m; apply pow_le; lra | exact X]. }
      assert (C : u < m * / M).
      { apply (Rmult_lt_reg_r M); [exact PM|]. rewrite Rmult_assoc, Rinv_l by lra. lra. }
      lra. }
    destruct (REL (1 - q)) as [d [Hd Ed]]. rewrite Ed. apply Rabs_le_inv in Hd.
    destruct (Rle_dec 0 (1 - q)) as [P|N]; nra.
  Qed.
End Std.

(* ------------------------------------------------------------------ *)
(* witnesses: a non-identity rounding of the standard model            *)
(* ------------------------------------------------------------------ *)
From OPF Require Import Proofs.RdepthWitness.

Definition ex_labels := [0; 0; 1; 1]%nat.
Definition ex_preds := [0; 1; 1; 1]%nat.

Lemma ex_domain : Measures.c20_domain ex_labels ex_preds.
Proof.
  unfold Measures.c20_domain. split; [reflexivity|]. split; [cbn [length ex_labels]; lia|]. split.
  - intros c Hc. change (n_class ex_labels) with 2%nat in Hc.
    destruct c as [|[|c]]; [cbn; tauto | cbn; tauto | lia].
  - intros p Hp. change (n_class ex_labels) with 2%nat. cbn in Hp. lia.
Qed.

Lemma ex_counts :
  n_class ex_labels = 2%nat /\ length ex_labels = 4%nat /\ count 0 ex_labels = 2%nat /\ count 1 ex_labels = 2%nat /\
  FP 0 ex_labels ex_preds = 0%nat /\ FN 0 ex_labels ex_preds = 1%nat /\
  FP 1 ex_labels ex_preds = 1%nat /\ FN 1 ex_labels ex_preds = 0%nat.
Proof. repeat split; reflexivity. Qed.

Lemma ex_exact : acc_exact ex_labels ex_preds = 3 / 4.
Proof.
  unfold acc_exact, acc_x, acc_E, acc_rows, acc_fp, acc_fn.
  destruct ex_counts as [E1 [E2 [E3 [E4 [E5 [E6 [E7 E8]]]]]]].
  rewrite E1. cbn [seq map]. rewrite E2, E3, E4, E5, E6, E7, E8. cbn [Nat.sub Nat.mul Nat.add]. unfold sum. cbn [fold_right INR]. field.
Qed.

Lemma ex_up u : 
  accuracy_F (RndOps (rnd_up u)) ex_labels ex_preds
  = (1 - ((1 + u) ^ 3 / 2 + (1 + u) ^ 2 / 2) * (1 + u) / 4 * (1 + u)) * (1 + u).
Proof.
  rewrite accuracy_F_rnd_small by (change (n_class ex_labels) with 2%nat; lia).
  unfold accuracy_rnd, acc_rows_rnd, acc_row_rnd, acc_fp, acc_fn.
  destruct ex_counts as [E1 [E2 [E3 [E4 [E5 [E6 [E7 E8]]]]]]].
  rewrite E1. cbn [seq map]. rewrite E2, E3, E4, E5, E6, E7, E8. cbn [fold_left Nat.sub Nat.mul Nat.add INR]. unfold rnd_up. field.
Qed.

Lemma ex_up_lt u : 0 < u < 1 -> accuracy_F (RndOps (rnd_up u)) ex_labels ex_preds < acc_exact ex_labels ex_preds.
Proof.
  intros [U0 U1]. rewrite ex_up, ex_exact. set (s := 1 + u).
  assert (S1 : 1 < s) by (unfold s; lra).
  assert (S2 : 1 + 2 * u <= s ^ 2) by (unfold s; nra).
  assert (S4 : 1 + 4 * u <= s ^ 4) by (replace (s ^ 4) with (s ^ 2 * s ^ 2) by ring; nra).
  assert (Q : (1 + 4 * u) / 4 <= (s ^ 3 / 2 + s ^ 2 / 2) * s / 4 * s).
  { replace ((s ^ 3 / 2 + s ^ 2 / 2) * s / 4 * s) with (s ^ 4 * ((s + 1) / 2) / 4) by field.
    assert (1 <= (s + 1) / 2) by lra. assert (0 < s ^ 4) by lra. nra. }
  unfold s in *. nra.
Qed.

(* all predictions wrong, two classes: the computed error rate exceeds 1 and the computed accuracy is NEGATIVE *)
Definition neg_labels := [0; 1]%nat.
Definition neg_preds := [1; 0]%nat.

Lemma neg_domain : Measures.c20_domain neg_labels neg_preds.
Proof.
  unfold Measures.c20_domain. split; [reflexivity|]. split; [cbn [length neg_labels]; lia|]. split.
  - intros c Hc. change (n_class neg_labels) with 2%nat in Hc.
    destruct c as [|[|c]]; [cbn; tauto | cbn; tauto | lia].
  - intros p Hp. change (n_class neg_labels) with 2%nat. cbn in Hp. lia.
Qed.

Lemma neg_counts :
  n_class neg_labels = 2%nat /\ length neg_labels = 2%nat /\ count 0 neg_labels = 1%nat /\ count 1 neg_labels = 1%nat /\
  FP 0 neg_labels neg_preds = 1%nat /\ FN 0 neg_labels neg_preds = 1%nat /\
  FP 1 neg_labels neg_preds = 1%nat /\ FN 1 neg_labels neg_preds = 1%nat.
Proof. repeat split; reflexivity. Qed.

Lemma neg_exact : acc_exact neg_labels neg_preds = 0.
Proof.
  unfold acc_exact, acc_x, acc_E, acc_rows, acc_fp, acc_fn.
  destruct neg_counts as [E1 [E2 [E3 [E4 [E5 [E6 [E7 E8]]]]]]].
  rewrite E1. cbn [seq map]. rewrite E2, E3, E4, E5, E6, E7, E8. cbn [Nat.sub Nat.mul Nat.add]. unfold sum. cbn [fold_right INR]. field.
Qed.

Lemma neg_up u :
  accuracy_F (RndOps (rnd_up u)) neg_labels neg_preds
  = (1 - (1 + u) ^ 4 * ((1 + u) + 1) / 2) * (1 + u).
Proof.
  rewrite accuracy_F_rnd_small by (change (n_class neg_labels) with 2%nat; lia).
  unfold accuracy_rnd, acc_rows_rnd, acc_row_rnd, acc_fp, acc_fn.
  destruct neg_counts as [E1 [E2 [E3 [E4 [E5 [E6 [E7 E8]]]]]]].
  rewrite E1. cbn [seq map]. rewrite E2, E3, E4, E5, E6, E7, E8. cbn [fold_left Nat.sub Nat.mul Nat.add INR]. unfold rnd_up. field.
Qed.

Theorem accuracy_nonneg_refuted u : 0 < u < 1 ->
  exists rnd labels preds, rnd_rel u rnd /\ Measures.c20_domain labels preds /\
    acc_exact labels preds = 0 /\ accuracy_F (RndOps rnd) labels preds < 0.
Proof.
  intros [U0 U1]. exists (rnd_up u), neg_labels, neg_preds.
  split; [apply rnd_up_rel; lra|]. split; [exact neg_domain|]. split; [exact neg_exact|].
  rewrite neg_up. set (s := 1 + u). assert (S1 : 1 < s) by (unfold s; lra).
  assert (S2 : 1 < s * s) by nra.
  assert (S4 : 1 < s ^ 4). { replace (s ^ 4) with (s * s * (s * s)) by ring. nra. }
  assert (Q : 1 < s ^ 4 * (s + 1) / 2).
  { assert (1 < (s + 1) / 2) by lra.
    replace (s ^ 4 * (s + 1) / 2) with (s ^ 4 * ((s + 1) / 2)) by field.
    generalize dependent (s ^ 4). intros a Ha. nra. }
  generalize dependent (s ^ 4 * (s + 1) / 2). intros q Hq. nra.
Qed.

(* ------------------------------------------------------------------ *)
(* the order model: a monotone rounding that fixes the integers 0..2K  *)
(* ------------------------------------------------------------------ *)
Section Mono.
  Variable rnd : R -> R.
  Variables (labels preds : list nat).
  Hypothesis LEN : length labels = length preds.
  Hypothesis MONO : forall a b, a <= b -> rnd a <= rnd b.
  Hypothesis INTS : forall m, (m <= 2 * n_class labels)%nat -> rnd (INR m) = INR m.
  Local Notation O := (RndOps rnd).
  Local Notation K := (n_class labels).

  Lemma mono_between lo hi t : (lo <= 2 * K)%nat -> (hi <= 2 * K)%nat -> INR lo <= t <= INR hi -> INR lo <= rnd t <= INR hi.
  Proof. intros Hl Hh [A B]. rewrite <- (INTS lo Hl), <- (INTS hi Hh). split; now apply MONO. Qed.

  Lemma mono_row c : 0 <= acc_row_rnd rnd labels preds c <= 2.
  Proof.
    pose proof (n_class_pos labels) as PK. unfold acc_row_rnd.
    pose proof (mono_between 0 1 _ ltac:(lia) ltac:(lia) (acc_fp_01 labels preds c LEN)) as A.
    pose proof (mono_between 0 1 _ ltac:(lia) ltac:(lia) (acc_fn_01 labels preds c LEN)) as B.
    cbn [INR] in A, B.
    apply (mono_between 0 2); [lia | lia |]. cbn [INR]. lra.
  Qed.

  Definition MRel (m : nat) (_ v : R) : Prop := (m <= K)%nat -> 0 <= v <= INR (2 * m).

  Lemma MRel_zero : MRel 0 (fzero O) (fzero O).
  Proof. intros _. change (2 * 0)%nat with 0%nat. cbn [INR]. change (fzero O) with 0. lra. Qed.

  Lemma MRel_add a b x1 x2 y1 y2 : MRel a x1 x2 -> MRel b y1 y2 -> MRel (a + b) (nadd O x1 y1) (nadd O x2 y2).
  Proof.
    intros A B Hab. specialize (A ltac:(lia)). specialize (B ltac:(lia)). cbn [nadd RndOps].
    apply (mono_between 0 (2 * (a + b))); [lia | lia |]. rewrite mult_INR in A, B. rewrite mult_INR, plus_INR.
    change (INR 2) with 2 in *. change (INR 0) with 0. pose proof (pos_INR a). pose proof (pos_INR b). lra.
  Qed.

  Lemma mono_sum : 0 <= np_sum O (acc_rows_rnd rnd labels preds) <= INR (2 * K).
  Proof.
    assert (F : Forall2 (MRel 1) (acc_rows_rnd rnd labels preds) (acc_rows_rnd rnd labels preds)).
    { unfold acc_rows_rnd. apply Forall2_map_same. intros c _ _. change (2 * 1)%nat with 2%nat. cbn [INR]. pose proof (mono_row c). lra. }
    pose proof (np_sum_rel O O MRel 0 MRel_zero MRel_add _ _ F) as [Hs Hb].
    assert (EL : length (acc_rows_rnd rnd labels preds) = K) by (unfold acc_rows_rnd; now rewrite map_length, seq_length).
    rewrite EL in Hs, Hb. destruct (Nat.lt_ge_cases K 8) as [L|L]; [apply (Hs L) | apply (Hb L)]; lia.
  Qed.

  Theorem accuracy_range_mono : 0 <= accuracy_F O labels preds <= 1.
  Proof.
    rewrite accuracy_F_RndOps. pose proof mono_sum as [S0 S1]. pose proof (INR_2K_pos labels) as P.
    pose proof (n_class_pos labels) as PK.
    set (S := np_sum O (acc_rows_rnd rnd labels preds)) in *.
    assert (Q : 0 <= S / INR (2 * K) <= 1).
    { split.
      - apply Rmult_le_pos; [exact S0 | left; now apply Rinv_0_lt_compat].
      - apply (Rmult_le_reg_r (INR (2 * K))); [exact P|]. unfold Rdiv. rewrite Rmult_assoc, Rinv_l by lra. lra. }
    pose proof (mono_between 0 1 _ ltac:(lia) ltac:(lia) Q) as Q'. cbn [INR] in Q'.
    apply (mono_between 0 1); [lia | lia |]. cbn [INR]. lra.
  Qed.
End Mono.

(* (c) + (d): the computed accuracy is 1 exactly when every prediction is correct *)
Theorem accuracy_one_iff_std u rnd : 0 <= u < 1 -> rnd_rel u rnd -> rnd 1 = 1 ->
  forall labels preds, length labels = length preds ->
  INR (2 * n_class labels * length labels + n_class labels + 3) * u < 1 ->
  (accuracy_F (RndOps rnd) labels preds = 1 <-> preds = labels).
Proof.
  intros U REL R1 labels preds H Hs. split.
  - intros E. destruct (list_eq_dec Nat.eq_dec preds labels) as [Y|N]; [exact Y|].
    pose proof (accuracy_wrong_lt_one u rnd U REL labels preds H N Hs). lra.
  - intros ->. rewrite (accuracy_all_correct u rnd U REL). exact R1.
Qed.

(* non-vacuity of the whole layer at u = 2^-53 with the non-identity rounding rnd_up *)
Theorem accuracy_rounding_nonvacuous :
  0 <= u64 < 1 /\ rnd_rel u64 (rnd_up u64) /\ rnd_up u64 1 <> 1 /\
  Measures.c20_domain ex_labels ex_preds /\ n_class ex_labels = 2%nat /\ ex_preds <> ex_labels /\
  INR (2 * n_class ex_labels * length ex_labels + n_class ex_labels + 3) * u64 < 1 /\
  acc_exact ex_labels ex_preds = 3 / 4 /\
  accuracy_F (RndOps (rnd_up u64)) ex_labels ex_preds
    = (1 - ((1 + u64) ^ 3 / 2 + (1 + u64) ^ 2 / 2) * (1 + u64) / 4 * (1 + u64)) * (1 + u64) /\
  accuracy_F (RndOps (rnd_up u64)) ex_labels ex_preds < acc_exact ex_labels ex_preds.
Proof.
  pose proof u64_range as [U0 U1].
  split; [lra|]. split; [apply rnd_up_rel; lra|]. split; [now apply rnd_up_not_id|].
  split; [exact ex_domain|]. split; [reflexivity|]. split; [discriminate|]. split.
  - change (2 * n_class ex_labels * length ex_labels + n_class ex_labels + 3)%nat with 21%nat.
    unfold u64. assert (P : 32 <= 2 ^ 53).
    { change 53%nat with (5 + 48)%nat. rewrite pow_add. assert (1 <= 2 ^ 48) by (apply pow_R1_Rle; lra). lra. }
    assert (P0 : 0 < 2 ^ 53) by lra.
    apply (Rmult_lt_reg_r (2 ^ 53)); [exact P0|]. rewrite Rmult_assoc, Rinv_l by lra.
    replace (INR 21) with 21 by (cbn [INR]; lra). lra.
  - split; [exact ex_exact|]. split; [apply ex_up | apply ex_up_lt; lra].
Qed.
