(* Non-vacuity for C04 / C11 (permutation half): boolean checkers for the hypotheses and a
   concrete tie-free instance - five points 0, 2, 6, 14, 30 on a line (all ten gaps
   distinct), classes 0 0 0 1 1 - on which hypotheses and conclusions are evaluated. *)
From Coq Require Import List Arith Bool ZArith Lia.
From OPF Require Import Base.Lists Model.Heap Model.Sup Spec.Paths Spec.Trees
  Proofs.ResubBase Proofs.Resub Proofs.PermBase Proofs.Perm Proofs.FitExample.
Import ListNotations.
Open Scope nat_scope.

Definition allb (n : nat) (f : nat -> bool) : bool := forallb f (seq 0 n).

Lemma allb_spec n f : allb n f = true -> forall p, p < n -> f p = true.
Proof.
  unfold allb. rewrite forallb_forall. intros H p Hp. apply H. apply in_seq. lia.
Qed.

Definition tie_free_b (n : nat) (w : nat -> nat -> Z) (zero top : Z) : bool :=
  allb n (fun p => allb n (fun q => Z.eqb (w p q) (w q p))) &&
  allb n (fun a => allb n (fun b => allb n (fun c => allb n (fun d =>
    Nat.eqb a b || Nat.eqb c d || negb (Z.eqb (w a b) (w c d)) ||
    (Nat.eqb a c && Nat.eqb b d) || (Nat.eqb a d && Nat.eqb b c))))) &&
  allb n (fun p => allb n (fun q => Nat.eqb p q || (Z.ltb zero (w p q) && Z.ltb (w p q) top))).

Lemma tie_free_b_sound n w zero top : tie_free_b n w zero top = true -> tie_free n w zero top.
Proof.
  unfold tie_free_b. rewrite !andb_true_iff. intros [[H1 H2] H3]. split; [|split].
  - intros p q Hp Hq. apply Z.eqb_eq. exact (allb_spec _ _ (allb_spec _ _ H1 p Hp) q Hq).
  - intros a b c d Ha Hb Hc Hd Hab Hcd E.
    pose proof (allb_spec _ _ (allb_spec _ _ (allb_spec _ _ (allb_spec _ _ H2 a Ha) b Hb) c Hc) d Hd) as H.
    cbv beta in H. rewrite !orb_true_iff, !andb_true_iff, negb_true_iff, !Nat.eqb_eq, Z.eqb_neq in H.
    tauto.
  - intros p q Hp Hq Hne.
    pose proof (allb_spec _ _ (allb_spec _ _ H3 p Hp) q Hq) as H. cbv beta in H.
    rewrite orb_true_iff, andb_true_iff, Nat.eqb_eq, !Z.ltb_lt in H. tauto.
Qed.

Definition perm_on_b (n : nat) (s si : nat -> nat) : bool :=
  allb n (fun x => Nat.ltb (s x) n && Nat.ltb (si x) n && Nat.eqb (si (s x)) x && Nat.eqb (s (si x)) x).

Lemma perm_on_b_sound n s si : perm_on_b n s si = true -> perm_on n s si.
Proof.
  intros H.
  assert (G : forall x, x < n -> s x < n /\ si x < n /\ si (s x) = x /\ s (si x) = x).
  { intros x Hx. pose proof (allb_spec _ _ H x Hx) as E. cbv beta in E.
    rewrite !andb_true_iff, !Nat.ltb_lt, !Nat.eqb_eq in E. tauto. }
  repeat split; intros x Hx; apply (G x Hx).
Qed.

Definition generic_query_b (n : nat) (w : nat -> nat -> Z) (zero : Z) (d : nat -> Z) : bool :=
  allb n (fun s => Z.leb zero (d s)) &&
  allb n (fun s => allb n (fun s' => Nat.eqb s s' || negb (Z.eqb (d s) (d s')))) &&
  allb n (fun s => allb n (fun a => allb n (fun b => Nat.eqb a b || negb (Z.eqb (d s) (w a b))))).

Lemma generic_query_b_sound n w zero d :
  generic_query_b n w zero d = true -> generic_query n w zero d.
Proof.
  unfold generic_query_b. rewrite !andb_true_iff. intros [[H1 H2] H3]. split; [|split].
  - intros s Hs. apply Z.leb_le. exact (allb_spec _ _ H1 s Hs).
  - intros s s' Hs Hs' Hne.
    pose proof (allb_spec _ _ (allb_spec _ _ H2 s Hs) s' Hs') as H. cbv beta in H.
    rewrite orb_true_iff, negb_true_iff, Nat.eqb_eq, Z.eqb_neq in H. tauto.
  - intros s a b Hs Ha Hb Hne.
    pose proof (allb_spec _ _ (allb_spec _ _ (allb_spec _ _ H3 s Hs) a Ha) b Hb) as H. cbv beta in H.
    rewrite orb_true_iff, negb_true_iff, Nat.eqb_eq, Z.eqb_neq in H. tauto.
Qed.

(* ------------------------------------------------------------------ *)
(* the instance *)

Definition rx_pos : list Z := [0; 2; 6; 14; 30]%Z.
Definition rx_w (p q : nat) : Z := Z.abs (nth p rx_pos 0 - nth q rx_pos 0)%Z.
Definition rx_labels : list nat := [0; 0; 0; 1; 1].
Definition rx_top : Z := 1000%Z.
Definition rx_nd : @nodes Z := sup_fit Z.ltb 0%Z rx_top rx_labels rx_w.

Lemma rx_tie_free : tie_free 5 rx_w 0%Z rx_top.
Proof. apply tie_free_b_sound. vm_compute. reflexivity. Qed.

Lemma rx_two_classes : exists a b, a < 5 /\ b < 5 /\ nth a rx_labels 0 <> nth b rx_labels 0.
Proof. exists 0, 3. repeat split; [lia|lia|cbn; discriminate]. Qed.

(* the trained forest: prototypes 2 and 3 (the ends of the only class-crossing tree arc),
   costs are bottleneck values 4, 4, 0, 0, 16, every sample keeps its own label *)
Lemma rx_fit :
  rx_nd = mkNodes [4; 4; 0; 0; 16]%Z [Some 1; Some 2; None; None; Some 3] [0; 0; 0; 1; 1]
            [0; 0; 0; 1; 1] [false; false; true; true; false]
            [false; false; false; false; false] [2; 3; 1; 0; 4].
Proof. vm_compute. reflexivity. Qed.

Lemma rx_labels_own : n_plabel rx_nd = rx_labels.
Proof. vm_compute. reflexivity. Qed.

Lemma rx_resubstitution :
  snd (predict_batch Z.ltb 0%Z rx_nd (map (train_row 0%Z rx_w) (seq 0 5))) = rx_labels.
Proof. vm_compute. reflexivity. Qed.

(* a non-trivial permutation: position p of the permuted run holds sample [rx_sigma p] *)
Definition rx_sigma (p : nat) : nat := nth p [3; 0; 4; 1; 2] 0.
Definition rx_sigma_inv (p : nat) : nat := nth p [1; 3; 4; 0; 2] 0.
Definition rx_w' (p q : nat) : Z := rx_w (rx_sigma p) (rx_sigma q).
Definition rx_labels' : list nat := map (fun p => nth (rx_sigma p) rx_labels 0) (seq 0 5).
Definition rx_nd' : @nodes Z := sup_fit Z.ltb 0%Z rx_top rx_labels' rx_w'.

Lemma rx_perm_on : perm_on 5 rx_sigma rx_sigma_inv.
Proof. apply perm_on_b_sound. vm_compute. reflexivity. Qed.

Lemma rx_fit_perm :
  rx_labels' = [1; 0; 1; 0; 0] /\
  rx_nd' = mkNodes [0; 4; 16; 4; 0]%Z [None; Some 3; Some 0; Some 4; None] [1; 0; 1; 0; 0]
             [1; 0; 1; 0; 0] [true; false; false; false; true]
             [false; false; false; false; false] [0; 4; 3; 1; 2].
Proof. split; vm_compute; reflexivity. Qed.

Lemma rx_perm_conclusions :
  map (fun p => nth (rx_sigma p) (n_status rx_nd) false) (seq 0 5) = n_status rx_nd' /\
  map (fun p => nth (rx_sigma p) (n_cost rx_nd) 0%Z) (seq 0 5) = n_cost rx_nd' /\
  map (fun p => nth (rx_sigma p) (n_plabel rx_nd) 0) (seq 0 5) = n_plabel rx_nd'.
Proof. repeat split; vm_compute; reflexivity. Qed.

(* a query at position 9: distances 9, 7, 3, 5, 21 - pairwise distinct, and odd while all
   training weights are even *)
Definition rx_d (s : nat) : Z := Z.abs (nth s rx_pos 0 - 9)%Z.

Lemma rx_generic_query : generic_query 5 rx_w 0%Z rx_d.
Proof. apply generic_query_b_sound. vm_compute. reflexivity. Qed.

(* same label, conquered by the same sample (position 4 of the permuted run holds sample 2) *)
Lemma rx_predictions :
  predict_one Z.ltb 0%Z rx_nd rx_d = (0, Some 2) /\
  predict_one Z.ltb 0%Z rx_nd' (fun p => rx_d (rx_sigma p)) = (0, Some 4) /\
  rx_sigma 4 = 2.
Proof. repeat split; vm_compute; reflexivity. Qed.

(* a single class: no prototype, the competition conquers nothing (empty conquest order),
   costs and predecessors are those left behind by the prototype search, and no sample
   receives its label *)
Lemma rx_single_class :
  sup_fit Z.ltb 0%Z rx_top [1; 1; 1; 1; 1] rx_w =
  mkNodes [1000; 2; 4; 8; 16]%Z [None; Some 0; Some 1; Some 2; Some 3] [1; 1; 1; 1; 1]
    [0; 0; 0; 0; 0] [false; false; false; false; false] [false; false; false; false; false] [].
Proof. vm_compute. reflexivity. Qed.

(* the tie-freeness hypothesis cannot be dropped: on the four points (2,1) (2,0) (0,1) (0,0)
   with classes 0 1 0 0 and squared Euclidean distances ([ex3_w] of Proofs/FitExample.v;
   symmetric, positive off the diagonal, but w 0 1 = w 2 3 and w 0 2 = w 1 3) sample 3 is
   conquered by the class-1 prototype and resubstitution errs on it *)
Lemma rx_tie_counterexample :
  tie_free_b 4 ex3_w 0%Z 1000%Z = false /\
  (forall p q, p < 4 -> q < 4 -> ex3_w p q = ex3_w q p) /\
  (forall p q, p < 4 -> q < 4 -> p <> q -> (0 < ex3_w p q < 1000)%Z) /\
  ex3_labels = [0; 1; 0; 0] /\
  n_plabel (sup_fit Z.ltb 0%Z 1000%Z ex3_labels ex3_w) = [0; 1; 0; 1] /\
  snd (predict_batch Z.ltb 0%Z (sup_fit Z.ltb 0%Z 1000%Z ex3_labels ex3_w)
         (map (train_row 0%Z ex3_w) (seq 0 4))) = [0; 1; 0; 1].
Proof.
  split; [vm_compute; reflexivity|]. split.
  - intros p q Hp Hq. apply Z.eqb_eq.
    apply (allb_spec 4 (fun q => Z.eqb (ex3_w p q) (ex3_w q p))); [|exact Hq].
    apply (allb_spec 4 (fun p => allb 4 (fun q => Z.eqb (ex3_w p q) (ex3_w q p)))); [|exact Hp].
    vm_compute. reflexivity.
  - split.
    + intros p q Hp Hq Hne.
      assert (H : allb 4 (fun p => allb 4 (fun q => Nat.eqb p q ||
                   (Z.ltb 0 (ex3_w p q) && Z.ltb (ex3_w p q) 1000))) = true)
        by (vm_compute; reflexivity).
      pose proof (allb_spec _ _ (allb_spec _ _ H p Hp) q Hq) as E. cbv beta in E.
      rewrite orb_true_iff, andb_true_iff, Nat.eqb_eq, !Z.ltb_lt in E. tauto.
    + repeat split; vm_compute; reflexivity.
Qed.

(* unfolding lemmas (stated so that Props files need no conversion on computations) *)
Lemma rx_defs :
  rx_top = 1000%Z /\
  rx_nd = sup_fit Z.ltb 0%Z rx_top rx_labels rx_w /\
  rx_nd' = sup_fit Z.ltb 0%Z rx_top rx_labels' rx_w' /\
  rx_w' = (fun p q => rx_w (rx_sigma p) (rx_sigma q)) /\
  rx_labels' = map (fun p => nth (rx_sigma p) rx_labels 0) (seq 0 5).
Proof.
  unfold rx_top, rx_nd, rx_nd', rx_w', rx_labels'. repeat split; reflexivity.
Qed.

(* packaged statements for Props/C04.v and Props/C11_perm.v *)
Lemma rx_example_premises :
  tie_free 5 rx_w 0%Z rx_top /\ length rx_labels = 5 /\
  (exists a b, a < 5 /\ b < 5 /\ nth a rx_labels 0 <> nth b rx_labels 0).
Proof. exact (conj rx_tie_free (conj eq_refl rx_two_classes)). Qed.

Lemma rx_example_result :
  rx_top = 1000%Z /\ rx_nd = sup_fit Z.ltb 0%Z rx_top rx_labels rx_w /\
  rx_nd = mkNodes [4; 4; 0; 0; 16]%Z [Some 1; Some 2; None; None; Some 3] [0; 0; 0; 1; 1]
            [0; 0; 0; 1; 1] [false; false; true; true; false]
            [false; false; false; false; false] [2; 3; 1; 0; 4] /\
  n_plabel rx_nd = rx_labels /\
  snd (predict_batch Z.ltb 0%Z rx_nd (map (train_row 0%Z rx_w) (seq 0 5))) = rx_labels.
Proof.
  exact (conj (proj1 rx_defs) (conj (proj1 (proj2 rx_defs))
          (conj rx_fit (conj rx_labels_own rx_resubstitution)))).
Qed.

Lemma rx_perm_example_premises :
  tie_free 5 rx_w 0%Z rx_top /\ length rx_labels = 5 /\
  (exists a b, a < 5 /\ b < 5 /\ nth a rx_labels 0 <> nth b rx_labels 0) /\
  map rx_sigma (seq 0 5) = [3; 0; 4; 1; 2] /\
  ((forall x, x < 5 -> rx_sigma x < 5) /\ (forall x, x < 5 -> rx_sigma_inv x < 5) /\
   (forall x, x < 5 -> rx_sigma_inv (rx_sigma x) = x) /\
   (forall x, x < 5 -> rx_sigma (rx_sigma_inv x) = x)) /\
  map rx_d (seq 0 5) = [9; 7; 3; 5; 21]%Z /\
  ((forall s, s < 5 -> (0 <= rx_d s)%Z) /\
   (forall s s', s < 5 -> s' < 5 -> s <> s' -> rx_d s <> rx_d s') /\
   (forall s a b, s < 5 -> a < 5 -> b < 5 -> a <> b -> rx_d s <> rx_w a b)).
Proof.
  exact (conj rx_tie_free (conj eq_refl (conj rx_two_classes (conj eq_refl
           (conj rx_perm_on (conj eq_refl rx_generic_query)))))).
Qed.

Lemma rx_perm_example_result :
  (rx_top = 1000%Z /\
   rx_nd = sup_fit Z.ltb 0%Z rx_top rx_labels rx_w /\
   rx_nd' = sup_fit Z.ltb 0%Z rx_top rx_labels' rx_w' /\
   rx_w' = (fun p q => rx_w (rx_sigma p) (rx_sigma q)) /\
   rx_labels' = map (fun p => nth (rx_sigma p) rx_labels 0) (seq 0 5)) /\
  (rx_labels' = [1; 0; 1; 0; 0] /\
   rx_nd' = mkNodes [0; 4; 16; 4; 0]%Z [None; Some 3; Some 0; Some 4; None] [1; 0; 1; 0; 0]
              [1; 0; 1; 0; 0] [true; false; false; false; true]
              [false; false; false; false; false] [0; 4; 3; 1; 2]) /\
  (map (fun p => nth (rx_sigma p) (n_status rx_nd) false) (seq 0 5) = n_status rx_nd' /\
   map (fun p => nth (rx_sigma p) (n_cost rx_nd) 0%Z) (seq 0 5) = n_cost rx_nd' /\
   map (fun p => nth (rx_sigma p) (n_plabel rx_nd) 0) (seq 0 5) = n_plabel rx_nd') /\
  (predict_one Z.ltb 0%Z rx_nd rx_d = (0, Some 2) /\
   predict_one Z.ltb 0%Z rx_nd' (fun p => rx_d (rx_sigma p)) = (0, Some 4) /\
   rx_sigma 4 = 2).
Proof.
  exact (conj rx_defs (conj rx_fit_perm (conj rx_perm_conclusions rx_predictions))).
Qed.
