(* The two k-search loops of Model/KnnLearn.v, any numeric carrier:

     - the graph state after any number of candidates still has the shape the final training stage relies on
       (labels, list lengths; KNN-supervised: no arcs, zero plateau counters, untouched cluster labels / count;
       unsupervised: untouched predicted labels);
     - the (criterion, best_k) pair threaded by the loop is the fold [Knn.knn_select] / [Knn.cut_select] of
       Model/Knn.v applied to the list of criteria the loop itself produced;
     - the final stage started from the state left by the search equals the final stage started from
       [KnnFit.fit_start] - up to the accumulated removal order, and with predicted / cluster labels known
       to agree on every node the final competition removed. *)
From Coq Require Import List Arith Bool ZArith Lia Permutation.
From OPF Require Import Base.Lists Base.NumOps Model.Heap Model.Knn Model.Pdf Model.KnnFit Model.KnnLearn
  Proofs.KnnPipelineArcs Proofs.KnnLearnFrame Proofs.KnnLearnStages.
Import ListNotations.

(* the graph with another removal order *)
Definition with_order {W} (g : @knn W) (o : list nat) : @knn W :=
  mkKnn (k_label g) (k_adj g) (k_radius g) (k_nplat g) (k_dens g) (k_cost g) (k_pred g) (k_root g)
        (k_plabel g) (k_clabel g) o (k_gdens g) (k_nclusters g).

(* two related final graphs whose competition removed every node are equal up to the order prefix *)
Lemma csim_all_eq {W} sup o1 rem n (g1 g2 : @knn W) :
  csim sup o1 [] rem g1 g2 -> k_nclusters g1 = k_nclusters g2 ->
  (forall q, q < n -> In q rem) -> length (wl sup g2) = n ->
  g1 = with_order g2 (o1 ++ k_order g2).
Proof.
  intros [Hc Hu Hl Ho1 Ho2 Hlab] Hn Hall Hlen.
  assert (Hw : wl sup g1 = wl sup g2).
  { apply (list_eq_nth _ _ 0); [exact Hl|]. intros j Hj. apply Hlab. left. apply Hall. lia. }
  destruct g1 as [la aa ra na da ca pa oa PL1 CL1 O1 ga ta], g2 as [lb ab rb nb db cb pb ob PL2 CL2 O2 gb tb].
  unfold dcore in Hc. knn_cbn_in Hc. injection Hc as <- <- <- <- <- <- <- <- <-.
  knn_cbn_in Ho1. knn_cbn_in Ho2. knn_cbn_in Hn. cbn [app] in Ho2. subst O1 O2 tb.
  unfold with_order. knn_cbn.
  destruct sup; unfold wl, ul in *; knn_cbn_in Hw; knn_cbn_in Hu; subst; reflexivity.
Qed.

Section Loops.
  Context {F : Type} (O : NumOps F).
  Variables fmax thr one eps : F.
  Variable maxd : Z.
  Notation f0 := (fzero O).
  Notation fb := (fbot O fmax).

  (* ---------------- shape of the searched graph ---------------- *)

  Record shaped (labels : list nat) (g : @knn F) : Prop := mkShaped {
    sh_label : k_label g = labels;
    sh_ladj : length (k_adj g) = length labels;
    sh_lnplat : length (k_nplat g) = length labels;
    sh_lradius : length (k_radius g) = length labels;
    sh_lpred : length (k_pred g) = length labels;
    sh_lroot : length (k_root g) = length labels;
    sh_lplabel : length (k_plabel g) = length labels;
    sh_lclabel : length (k_clabel g) = length labels }.

  Lemma shaped_init labels : shaped labels (knn_init f0 labels).
  Proof. unfold knn_init. constructor; knn_cbn; rewrite ?repeat_length; reflexivity. Qed.

  Lemma shaped_keeps labels g g' : shaped labels g -> keeps g g' -> shaped labels g'.
  Proof. intros [] []. constructor; congruence. Qed.

  Lemma arcs_and_pdf_keeps k d e (g : @knn F) :
    let g' := fst (arcs_and_pdf O fmax thr one maxd k d e g) in
    keeps_sup g g' /\ keeps_unsup g g' /\ k_order g' = k_order g.
  Proof.
    cbv zeta. rewrite arcs_and_pdf_eq.
    destruct (create_arcs_keeps (nltb O) f0 fmax thr one k (length (k_label g)) d g) as [K1 K1'].
    destruct (create_arcs_kept (nltb O) f0 fmax thr one k (length (k_label g)) d g) as [Hf _ _ _].
    unfold arcs_frame in Hf. injection Hf as _ _ _ _ _ _ _ F8 _.
    set (c := fst (create_arcs (nltb O) f0 fmax thr one k (length (k_label g)) d g)) in *.
    destruct (set_pdf_keeps O fmax maxd k e c) as (P1 & P1' & _ & _ & _ & _ & _ & _ & Q7 & _).
    split; [exact (keeps_sup_trans _ _ _ K1 P1)|]. split; [exact (keeps_unsup_trans _ _ _ K1' P1')|congruence].
  Qed.

  (* ---------------- KNNSupervisedOPF._learn ---------------- *)

  Section Sup.
    Variable d : nat -> nat -> F.
    Variable dq : list (nat -> F).
    Variable vlabels : list nat.
    Variable ep : nat -> nat -> nat -> F.
    Variable eq : nat -> nat -> nat -> F.
    Variable labels : list nat.
    Notation n := (length labels).
    Notation cand := (sup_candidate O fmax thr one eps maxd d dq vlabels ep eq).
    Notation lstep := (learn_step O fmax thr one eps maxd d dq vlabels ep eq).

    (* what the final stage needs from the state left by the search *)
    Record sup_state (g : @knn F) : Prop := mkSupState {
      ss_shaped : shaped labels g;
      ss_adj : k_adj g = repeat [] n;
      ss_nplat : k_nplat g = repeat 0 n;
      ss_clabel : k_clabel g = repeat 0 n;
      ss_ncl : k_nclusters g = 0 }.

    Lemma sup_state_init : sup_state (knn_init f0 labels).
    Proof. constructor; [apply shaped_init| | | |]; reflexivity. Qed.

    Lemma sup_candidate_state k g : sup_state g -> sup_state (snd (cand k g)).
    Proof.
      intros [Hsh Ha Hn Hc Hl]. unfold sup_candidate.
      destruct (arcs_and_pdf_keeps k d (ep (k - 1)) g) as (K1 & _ & _).
      destruct (arcs_and_pdf O fmax thr one maxd k d (ep (k - 1)) g) as [g1 [[c mn] mx]]. cbn [fst] in K1.
      pose proof (clustering_sup_keeps (nltb O) f0 fmax fb false g1) as K2.
      set (g2 := clustering_sup (nltb O) f0 fmax fb false g1) in *. cbn [snd].
      pose proof (keeps_sup_trans _ _ _ K1 K2) as (K & Kc & Kn).
      pose proof (shaped_keeps _ _ _ Hsh K) as Hsh2.
      destruct (destroy_arcs_keeps g2) as [(K3 & Kc3 & Kn3) _].
      { destruct Hsh2; congruence. }
      constructor.
      - exact (shaped_keeps _ _ _ Hsh2 K3).
      - unfold destroy_arcs, set_adj. knn_cbn. now rewrite (sh_ladj _ _ Hsh2).
      - unfold destroy_arcs, set_adj. knn_cbn. now rewrite (sh_ladj _ _ Hsh2).
      - congruence.
      - congruence.
    Qed.

    (* the step function of [Knn.knn_select] *)
    Definition ksel_step (st : F * option nat) (ka : nat * F) : F * option nat :=
      let '(mx, best) := st in if nltb O mx (snd ka) then (snd ka, Some (fst ka)) else st.

    Lemma knn_select_fold accs :
      knn_select (nltb O) f0 accs = snd (fold_left ksel_step (combine (seq 1 (length accs)) accs) (f0, Some 1)).
    Proof. reflexivity. Qed.

    (* [Pa]: any property of the criterion of a candidate *)
    Variable Pa : F -> Prop.
    Hypothesis HPa : forall k g, Pa (fst (cand k g)).

    Lemma learn_fold : forall m s g accs0 mx b,
      sup_state g ->
      exists g' new mx' b',
        fold_left lstep (seq s m) (g, accs0, mx, b) = (g', accs0 ++ new, mx', b') /\
        sup_state g' /\ length new = m /\ (forall a, In a new -> Pa a) /\
        fold_left ksel_step (combine (seq s m) new) (mx, Some b) = (mx', Some b') /\
        (b' = b \/ s <= b' < s + m).
    Proof.
      induction m as [|m IH]; intros s g accs0 mx b Hg; cbn [seq fold_left].
      - exists g, [], mx, b. rewrite app_nil_r.
        split; [reflexivity|]. split; [exact Hg|]. split; [reflexivity|]. split; [intros a []|].
        split; [reflexivity|now left].
      - unfold learn_step at 2.
        pose proof (sup_candidate_state s g Hg) as Hg1. pose proof (HPa s g) as Hpa.
        destruct (cand s g) as [acc g1]. cbn [fst snd] in Hg1, Hpa.
        destruct (nltb O mx acc) eqn:E.
        + destruct (IH (S s) g1 (accs0 ++ [acc]) acc s Hg1) as (g' & new & mx' & b' & E1 & E2 & E3 & EP & E4 & E5).
          exists g', (acc :: new), mx', b'. rewrite E1, <- app_assoc. cbn [app length combine fold_left ksel_step snd fst].
          rewrite E. split; [reflexivity|]. split; [exact E2|]. split; [now rewrite E3|].
          split; [intros a [<-|Ha]; [exact Hpa|now apply EP]|]. split; [exact E4|].
          destruct E5 as [->|H]; right; lia.
        + destruct (IH (S s) g1 (accs0 ++ [acc]) mx b Hg1) as (g' & new & mx' & b' & E1 & E2 & E3 & EP & E4 & E5).
          exists g', (acc :: new), mx', b'. rewrite E1, <- app_assoc. cbn [app length combine fold_left ksel_step snd fst].
          rewrite E. split; [reflexivity|]. split; [exact E2|]. split; [now rewrite E3|].
          split; [intros a [<-|Ha]; [exact Hpa|now apply EP]|]. split; [exact E4|].
          destruct E5 as [->|H]; [now left|right; lia].
    Qed.

    Theorem knn_sup_learn_spec max_k g accs mx best :
      knn_sup_learn O fmax thr one eps maxd d dq vlabels ep eq labels max_k = (g, accs, mx, best) ->
      sup_state g /\ length accs = max_k /\ (forall a, In a accs -> Pa a) /\
      knn_select (nltb O) f0 accs = Some best /\ (best = 1 \/ 1 <= best <= max_k).
    Proof.
      unfold knn_sup_learn. intros H.
      destruct (learn_fold max_k 1 (knn_init f0 labels) [] f0 1 sup_state_init)
        as (g' & new & mx' & b' & E1 & E2 & E3 & EP & E4 & E5).
      rewrite E1 in H. cbn [app] in H. injection H as <- <- <- <-.
      split; [exact E2|]. split; [exact E3|]. split; [exact EP|]. split.
      - rewrite knn_select_fold, E3, E4. reflexivity.
      - destruct E5 as [->|H]; [now left|right; lia].
    Qed.

    (* the final stage on the searched graph = the final stage on [fit_start], related by [csim] *)
    Theorem sup_final_sim g k efin gdens0 :
      sup_state g ->
      let r1 := arcs_and_pdf O fmax thr one maxd k d efin g in
      let r2 := arcs_and_pdf O fmax thr one maxd k d efin (fit_start O labels gdens0) in
      snd r1 = snd r2 /\
      k_nclusters (clustering_sup (nltb O) f0 fmax fb true (fst r1)) = k_nclusters (clustering_sup (nltb O) f0 fmax fb true (fst r2)) /\
      length (k_plabel (clustering_sup (nltb O) f0 fmax fb true (fst r2))) = n /\
      exists rem, csim true (k_order g) [] rem
                       (clustering_sup (nltb O) f0 fmax fb true (fst r1)) (clustering_sup (nltb O) f0 fmax fb true (fst r2)).
    Proof.
      intros [Hsh Ha Hn Hc Hl]. cbv zeta. destruct Hsh as [S1 S2 S3 S4 S5 S6 S7 S8].
      set (g0 := fit_start O labels gdens0).
      assert (Sh0 : shaped labels g0).
      { unfold g0, fit_start. constructor; knn_cbn; rewrite ?repeat_length; reflexivity. }
      destruct (arcs_and_pdf_sim O fmax thr one maxd k d efin g g0) as (E & Hs & K1 & _ & K2 & _ & O1 & O2);
        try (unfold g0, fit_start; knn_cbn; rewrite ?repeat_length; congruence).
      set (a1 := fst (arcs_and_pdf O fmax thr one maxd k d efin g)) in *.
      set (a2 := fst (arcs_and_pdf O fmax thr one maxd k d efin g0)) in *.
      destruct K1 as (K1 & K1c & K1n), K2 as (K2 & K2c & K2n).
      pose proof (shaped_keeps _ _ _ (mkShaped _ _ S1 S2 S3 S4 S5 S6 S7 S8) K1) as Sh1.
      pose proof (shaped_keeps _ _ _ Sh0 K2) as Sh2.
      split; [exact E|].
      pose proof (clustering_sup_keeps (nltb O) f0 fmax fb true a1) as (_ & _ & N1).
      pose proof (clustering_sup_keeps (nltb O) f0 fmax fb true a2) as (K3 & _ & N2).
      split; [unfold g0, fit_start in K2n; knn_cbn_in K2n; congruence|].
      split; [rewrite (kp_lplabel _ _ K3); apply (sh_lplabel _ _ Sh2)|].
      assert (El : length (k_label a1) = n) by (rewrite (sh_label _ _ Sh1); reflexivity).
      destruct (clustering_sup_sim (nltb O) f0 fmax fb true a1 a2) as [rem C]; try rewrite El.
      - exact Hs.
      - apply (sh_lpred _ _ Sh1).
      - apply (sh_lpred _ _ Sh2).
      - apply (sh_lroot _ _ Sh1).
      - apply (sh_lroot _ _ Sh2).
      - rewrite K1c, K2c, Hc. reflexivity.
      - rewrite (sh_lplabel _ _ Sh1), (sh_lplabel _ _ Sh2). reflexivity.
      - exists rem. rewrite O1, O2 in C. exact C.
    Qed.
  End Sup.

  (* ---------------- UnsupervisedOPF._best_minimum_cut ---------------- *)

  Lemma clustering_unsup_ncl k (g : @knn F) :
    k_nclusters (clustering_unsup (nltb O) f0 fmax fb k g) <= length (k_label g).
  Proof.
    unfold clustering_unsup.
    destruct (plateau_unsup (nltb O) f0 k (length (k_label g)) (k_dens g) (k_adj g) (k_nplat g)) as [adj nps].
    destruct (cl_run_kept (nltb O) f0 fmax fb false false
                (fun g p => firstn (nth p (k_nplat g) 0 + k) (nth p (k_adj g) [])) (length (k_label g))
                (set_adj g adj nps)) as [_ Hl].
    destruct (cl_run (nltb O) f0 fmax fb false false
                (fun g p => firstn (nth p (k_nplat g) 0 + k) (nth p (k_adj g) [])) (length (k_label g))
                (set_adj g adj nps)) as [g2 l].
    cbn [snd] in Hl. knn_cbn. exact Hl.
  Qed.

  Section Unsup.
    Variable d : nat -> nat -> F.
    Variable ep : nat -> nat -> nat -> F.
    Variable min_k : nat.
    Variable maxdists : list F.
    Variable labels : list nat.
    Notation n := (length labels).
    Notation ucand := (unsup_candidate O fmax maxd d ep min_k maxdists).
    Notation ustep := (cut_search_step O fmax maxd d ep min_k maxdists).

    (* the exact-zero test of the loop read through the comparison, as [Knn.cut_select] has it *)
    Hypothesis Heq : forall a b, neqb O a b = weqb (nltb O) a b.

    Record unsup_state (g : @knn F) : Prop := mkUnsupState {
      us_shaped : shaped labels g;
      us_plabel : k_plabel g = repeat 0 n }.

    Lemma unsup_candidate_state k g :
      unsup_state g ->
      unsup_state (snd (ucand k g)) /\
      exists gc, fst (ucand k g) = normalized_cut O k d gc /\ k_nclusters gc <= n.
    Proof.
      intros [Hsh Hp]. unfold unsup_candidate.
      set (ga := set_gdens g (nth (k - 1) maxdists f0)).
      assert (Ka : keeps_unsup g ga).
      { unfold ga, set_gdens. split; [constructor|]; knn_cbn; reflexivity. }
      destruct (set_pdf_keeps O fmax maxd k (ep (k - min_k)) ga) as (_ & Kb & _).
      destruct (set_pdf O fmax maxd k (ep (k - min_k)) ga) as [gb cmm]. cbn [fst] in Kb.
      pose proof (clustering_unsup_keeps (nltb O) f0 fmax fb k gb) as Kc.
      pose proof (clustering_unsup_ncl k gb) as Hn.
      set (gc := clustering_unsup (nltb O) f0 fmax fb k gb) in *. cbn [fst snd].
      destruct (keeps_unsup_trans _ _ _ (keeps_unsup_trans _ _ _ Ka Kb) Kc) as [K Kp].
      destruct (keeps_unsup_trans _ _ _ Ka Kb) as [Kab _].
      split.
      - constructor; [exact (shaped_keeps _ _ _ Hsh K)|congruence].
      - exists gc. split; [reflexivity|]. rewrite (kp_label _ _ Kab), (sh_label _ _ Hsh) in Hn. exact Hn.
    Qed.

    (* the step function of [Knn.cut_select] *)
    Definition csel_step (st : F * option nat * nat) (kc : nat * F) : F * option nat * nat :=
      let '(mn, best, ev) := st in
      if weqb (nltb O) mn f0 then st
      else if nltb O (snd kc) mn then (snd kc, Some (fst kc), S ev) else (mn, best, S ev).

    Lemma cut_select_fold cuts :
      cut_select (nltb O) f0 fmax min_k cuts
      = let '(_, best, ev) := fold_left csel_step (combine (seq min_k (length cuts)) cuts) (fmax, None, 0) in (best, ev).
    Proof. reflexivity. Qed.

    Lemma search_stopped : forall l g cuts mn b,
      neqb O mn f0 = true -> fold_left ustep l (g, cuts, mn, b) = (g, cuts, mn, b).
    Proof.
      induction l as [|k l IH]; intros g cuts mn b H; cbn [fold_left]; [reflexivity|].
      unfold cut_search_step at 2. rewrite H. now apply IH.
    Qed.

    (* [P]: any property of the cut of a candidate evaluated on a well-shaped graph *)
    Variable P : F -> Prop.
    Hypothesis HP : forall k gc, k_nclusters gc <= n -> P (normalized_cut O k d gc).

    Lemma search_fold : forall m s g cuts0 mn b ev,
      unsup_state g ->
      exists g' new mn' b',
        fold_left ustep (seq s m) (g, cuts0, mn, b) = (g', cuts0 ++ new, mn', b') /\
        unsup_state g' /\ length new <= m /\
        fold_left csel_step (combine (seq s (length new)) new) (mn, b, ev) = (mn', b', ev + length new) /\
        (length new = m \/ neqb O mn' f0 = true) /\
        (forall c, In c new -> P c) /\
        (b' = b \/ exists k, b' = Some k /\ s <= k < s + m) /\
        (neqb O mn' f0 = true -> neqb O mn f0 = true \/ exists pre, new = pre ++ [mn']).
    Proof.
      induction m as [|m IH]; intros s g cuts0 mn b ev Hg; cbn [seq].
      - exists g, [], mn, b. rewrite app_nil_r. cbn [fold_left length combine seq].
        split; [reflexivity|]. split; [exact Hg|]. split; [lia|]. split; [now rewrite Nat.add_0_r|].
        split; [now left|]. split; [intros c []|]. split; [now left|]. intros Hz; now left.
      - destruct (neqb O mn f0) eqn:E.
        + exists g, [], mn, b. rewrite app_nil_r, search_stopped by exact E. cbn [fold_left length combine seq].
          split; [reflexivity|]. split; [exact Hg|]. split; [lia|]. split; [now rewrite Nat.add_0_r|].
          split; [now right|]. split; [intros c []|]. split; [now left|]. intros _; now left.
        + cbn [fold_left]. unfold cut_search_step at 2. rewrite E.
          destruct (unsup_candidate_state s g Hg) as (Hg1 & gc & Ec & Hn).
          destruct (ucand s g) as [cut g1]. cbn [fst snd] in Hg1, Ec.
          assert (Pc : P cut) by (rewrite Ec; now apply HP).
          destruct (nltb O cut mn) eqn:E2.
          * destruct (IH (S s) g1 (cuts0 ++ [cut]) cut (Some s) (S ev) Hg1)
              as (g' & new & mn' & b' & E1 & S1 & L1 & C1 & D1 & P1 & B1 & Z1).
            exists g', (cut :: new), mn', b'. pose proof E1 as E1'. rewrite E1, <- app_assoc.
            cbn [app length seq combine fold_left csel_step fst snd]. rewrite <- Heq, E, E2.
            split; [reflexivity|]. split; [exact S1|]. split; [lia|].
            split; [rewrite C1; f_equal; lia|].
            split; [destruct D1 as [D1|D1]; [left; lia|now right]|].
            split; [intros c [<-|Hc]; [exact Pc|now apply P1]|].
            split; [right; destruct B1 as [->|(k & -> & Hk)]; [exists s; split; [reflexivity|lia]|exists k; split; [reflexivity|lia]]|].
            intros Hz. right. destruct (Z1 Hz) as [Hc|[pre ->]]; [|exists (cut :: pre); reflexivity].
            rewrite search_stopped in E1' by exact Hc. injection E1' as _ Hnw Hm _.
            rewrite <- (app_nil_r (cuts0 ++ [cut])) in Hnw at 1. apply app_inv_head in Hnw. subst new mn'.
            exists []. reflexivity.
          * destruct (IH (S s) g1 (cuts0 ++ [cut]) mn b (S ev) Hg1)
              as (g' & new & mn' & b' & E1 & S1 & L1 & C1 & D1 & P1 & B1 & Z1).
            exists g', (cut :: new), mn', b'. rewrite E1, <- app_assoc.
            cbn [app length seq combine fold_left csel_step fst snd]. rewrite <- Heq, E, E2.
            split; [reflexivity|]. split; [exact S1|]. split; [lia|].
            split; [rewrite C1; f_equal; lia|].
            split; [destruct D1 as [D1|D1]; [left; lia|now right]|].
            split; [intros c [<-|Hc]; [exact Pc|now apply P1]|].
            split; [destruct B1 as [->|(k & -> & Hk)]; [now left|right; exists k; split; [reflexivity|lia]]|].
            intros Hz. right. destruct (Z1 Hz) as [Hc|[pre ->]]; [congruence|exists (cut :: pre); reflexivity].
    Qed.
  End Unsup.

  (* the whole search *)
  Theorem unsup_search_spec (Heq : forall a b, neqb O a b = weqb (nltb O) a b)
          d ep labels min_k max_k (P : F -> Prop) g cuts mn best :
    (forall k gc, k_nclusters gc <= length labels -> P (normalized_cut O k d gc)) ->
    unsup_search O fmax thr one maxd d ep labels min_k max_k = (g, cuts, mn, best) ->
    unsup_state labels g /\
    length cuts <= S max_k - min_k /\
    cut_select (nltb O) f0 fmax min_k cuts = (best, length cuts) /\
    (length cuts = S max_k - min_k \/ neqb O mn f0 = true) /\
    (forall c, In c cuts -> P c) /\
    (best = None \/ exists k, best = Some k /\ min_k <= k < min_k + (S max_k - min_k)) /\
    (neqb O mn f0 = true -> neqb O fmax f0 = true \/ exists pre, cuts = pre ++ [mn]).
  Proof.
    intros HP. unfold unsup_search.
    destruct (create_arcs_keeps (nltb O) f0 fmax thr one max_k (length labels) d (knn_init f0 labels)) as [_ [K Kp]].
    destruct (create_arcs (nltb O) f0 fmax thr one max_k (length labels) d (knn_init f0 labels)) as [g0 maxdists].
    cbn [fst] in K, Kp. intros H.
    assert (S0 : unsup_state labels g0).
    { constructor; [exact (shaped_keeps _ _ _ (shaped_init labels) K)|exact Kp]. }
    destruct (search_fold d ep min_k maxdists labels Heq P HP (S max_k - min_k) min_k g0 [] fmax None 0 S0)
      as (g' & new & mn' & b' & E1 & S1 & L1 & C1 & D1 & P1 & B1 & Z1).
    rewrite E1 in H. cbn [app] in H. injection H as <- <- <- <-.
    split; [exact S1|]. split; [exact L1|]. split; [rewrite cut_select_fold, C1; reflexivity|].
    split; [exact D1|]. split; [exact P1|]. split; [exact B1|exact Z1].
  Qed.

  (* the final stage on the searched graph = the final stage on [fit_start], related by [csim] *)
  Theorem unsup_final_sim labels g k d efin gdens0 :
    unsup_state labels g ->
    let r1 := arcs_and_pdf O fmax thr one maxd k d efin (destroy_arcs g) in
    let r2 := arcs_and_pdf O fmax thr one maxd k d efin (fit_start O labels gdens0) in
    snd r1 = snd r2 /\
    k_nclusters (clustering_unsup (nltb O) f0 fmax fb k (fst r1)) = k_nclusters (clustering_unsup (nltb O) f0 fmax fb k (fst r2)) /\
    length (k_clabel (clustering_unsup (nltb O) f0 fmax fb k (fst r2))) = length labels /\
    exists rem, csim false (k_order g) [] rem
                     (clustering_unsup (nltb O) f0 fmax fb k (fst r1)) (clustering_unsup (nltb O) f0 fmax fb k (fst r2)).
  Proof.
    intros [Hsh Hp]. cbv zeta.
    set (g0 := fit_start O labels gdens0).
    assert (Sh0 : shaped labels g0).
    { unfold g0, fit_start. constructor; knn_cbn; rewrite ?repeat_length; reflexivity. }
    destruct (destroy_arcs_keeps g) as [_ [Kd Kdp]]; [destruct Hsh; congruence|].
    pose proof (shaped_keeps _ _ _ Hsh Kd) as Shd.
    assert (Ead : k_adj (destroy_arcs g) = k_adj g0).
    { unfold destroy_arcs, set_adj, g0, fit_start. knn_cbn. now rewrite (sh_ladj _ _ Hsh). }
    assert (Enp : k_nplat (destroy_arcs g) = k_nplat g0).
    { unfold destroy_arcs, set_adj, g0, fit_start. knn_cbn. now rewrite (sh_ladj _ _ Hsh). }
    destruct (arcs_and_pdf_sim O fmax thr one maxd k d efin (destroy_arcs g) g0) as (E & Hs & _ & K1 & _ & K2 & O1 & O2);
      try assumption.
    { rewrite (sh_label _ _ Shd). reflexivity. }
    { rewrite (sh_lradius _ _ Shd), (sh_label _ _ Shd). reflexivity. }
    { rewrite (sh_lradius _ _ Sh0), (sh_label _ _ Sh0). reflexivity. }
    set (a1 := fst (arcs_and_pdf O fmax thr one maxd k d efin (destroy_arcs g))) in *.
    set (a2 := fst (arcs_and_pdf O fmax thr one maxd k d efin g0)) in *.
    destruct K1 as (K1 & K1p), K2 as (K2 & K2p).
    pose proof (shaped_keeps _ _ _ Shd K1) as Sh1.
    pose proof (shaped_keeps _ _ _ Sh0 K2) as Sh2.
    split; [exact E|].
    pose proof (clustering_unsup_keeps (nltb O) f0 fmax fb k a2) as (K3 & _).
    assert (El : length (k_label a1) = length labels) by (rewrite (sh_label _ _ Sh1); reflexivity).
    destruct (clustering_unsup_sim (nltb O) f0 fmax fb k a1 a2) as [En [rem C]]; try rewrite El.
    - exact Hs.
    - apply (sh_lpred _ _ Sh1).
    - apply (sh_lpred _ _ Sh2).
    - apply (sh_lroot _ _ Sh1).
    - apply (sh_lroot _ _ Sh2).
    - rewrite K1p, K2p, Kdp, Hp. reflexivity.
    - rewrite (sh_lclabel _ _ Sh1), (sh_lclabel _ _ Sh2). reflexivity.
    - split; [exact En|]. split; [rewrite (kp_lclabel _ _ K3); apply (sh_lclabel _ _ Sh2)|].
      exists rem. rewrite O1, O2 in C. exact C.
  Qed.
End Loops.
