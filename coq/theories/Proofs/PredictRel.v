(* C17, relevance marking: after a prediction pass exactly the training samples on the
   predecessor path from a conqueror to its root are flagged relevant.
   (Model/Sup.v: mark_nodes with fuel [S n], predict_step, predict_batch.) *)
From Coq Require Import ZArith List Arith Bool Lia Permutation.
From OPF Require Import Base.Lists Model.Sup Spec.Paths Proofs.Predict.
Import ListNotations.
Local Close Scope Z_scope.

Lemma reaches_none_inv (P : nat -> option nat) i t k : P i = None -> reaches P i t k -> t = i.
Proof. intros Hn Hr; inversion Hr; subst; auto; congruence. Qed.

Lemma reaches_some_inv (P : nat -> option nat) i j t k :
  P i = Some j -> reaches P i t k -> (t = i /\ k = 0) \/ exists k', k = S k' /\ reaches P j t k'.
Proof.
  intros Hs Hr; inversion Hr; subst; auto.
  right. exists k0. split; auto. congruence.
Qed.

Lemma reaches_in_range (P : nat -> option nat) n c t k :
  (forall q p, q < n -> P q = Some p -> p < n) -> reaches P c t k -> c < n -> t < n.
Proof.
  intros Hin Hk. induction Hk as [q|q p r k Hp Hk IH]; intros Hq; auto.
  apply IH. eapply Hin; eauto.
Qed.

Lemma nth_upd_true (rel : list bool) i t :
  nth t (upd rel i true) false = true <-> (t = i /\ i < length rel) \/ nth t rel false = true.
Proof.
  rewrite nth_upd. destruct (Nat.eqb_spec i t) as [->|Hne].
  - destruct (Nat.ltb_spec t (length rel)) as [Hlt|Hge].
    + split; auto.
    + split; auto. intros [[_ H]|H]; auto; lia.
  - split; auto. intros [[H _]|H]; auto; congruence.
Qed.

Lemma nth_repeat_false : forall n t, nth t (repeat false n) false = false.
Proof. induction n as [|m IH]; intros [|t]; cbn; auto. Qed.

Lemma mark_nodes_length : forall fuel pred rel i, length (mark_nodes fuel pred rel i) = length rel.
Proof.
  induction fuel as [|f IH]; intros pred rel i; cbn [mark_nodes]; auto.
  destruct (nth i pred None); [rewrite IH|]; apply upd_length.
Qed.

(* enough fuel to reach the root: exactly the nodes of the path are switched on *)
Lemma mark_nodes_spec : forall fuel pred rel i r k,
  let P q := nth q pred None in
  reaches P i r k -> P r = None -> k < fuel ->
  forall t, nth t (mark_nodes fuel pred rel i) false = true <->
            nth t rel false = true \/ (t < length rel /\ exists k', reaches P i t k').
Proof.
  induction fuel as [|f IH]; intros pred rel i r k P Hr Hroot Hk t; [lia|].
  cbn [mark_nodes]. destruct (nth i pred None) as [j|] eqn:Ei.
  - destruct (reaches_some_inv P i j r k Ei Hr) as [[-> _]|(k0 & -> & Hr0)].
    { unfold P in Hroot; congruence. }
    rewrite (IH pred (upd rel i true) j r k0 Hr0 Hroot ltac:(lia) t).
    rewrite nth_upd_true, upd_length. fold P. split.
    + intros [[[-> Hl]|Ht]|[Hl (k' & Hk')]]; auto.
      * right; split; auto. exists 0; constructor.
      * right; split; auto. exists (S k'). econstructor; eauto.
    + intros [Ht|[Hl (k' & Hk')]]; auto.
      destruct (reaches_some_inv P i j t k' Ei Hk') as [[-> _]|(k1 & -> & Hr1)].
      * left; left; auto.
      * right; split; auto. exists k1; auto.
  - rewrite nth_upd_true. split.
    + intros [[-> Hl]|Ht]; auto. right; split; auto. exists 0; constructor.
    + intros [Ht|[Hl (k' & Hk')]]; auto.
      apply (reaches_none_inv P i t k' Ei) in Hk'. subst; auto.
Qed.

Section Conq.
  Context {W : Type}.
  Variable ltb : W -> W -> bool.
  Variable zero : W.
  Variable nd : @nodes W.
  Let n := length (n_cost nd).

  (* the conqueror is always a member of the conquest order *)
  Lemma scan_conq_in : forall fuel d m j mc lab conq lab' c,
    scan ltb zero fuel nd d m j mc lab conq = (lab', Some c) ->
    conq = Some c \/ exists i, i < m /\ c = nth i (n_order nd) 0.
  Proof.
    induction fuel as [|f IH]; intros d m j mc lab conq lab' c E; cbn [scan] in E.
    - inversion E; auto.
    - destruct (Nat.ltb_spec j (m - 1)) as [Hlt|Hge]; cbn [andb] in E.
      + destruct (ltb (nth (nth (j + 1) (n_order nd) 0) (n_cost nd) zero) mc).
        * destruct (ltb (wmax ltb (nth (nth (j + 1) (n_order nd) 0) (n_cost nd) zero)
                              (d (nth (j + 1) (n_order nd) 0))) mc).
          -- apply IH in E. destruct E as [E|E]; auto.
             inversion E; subst. right. exists (j + 1). split; auto. lia.
          -- apply IH in E; auto.
        * inversion E; auto.
      + inversion E; auto.
  Qed.

  Lemma predict_conq_in : forall d c, 1 <= n ->
    snd (predict_one ltb zero nd d) = Some c -> exists i, i < n /\ c = nth i (n_order nd) 0.
  Proof.
    intros d c Hn E. unfold predict_one in E. fold n in E.
    destruct (scan ltb zero n nd d n 0 _ _ _) as [lab' conq'] eqn:Es. cbn [snd] in E. subst conq'.
    apply scan_conq_in in Es. destruct Es as [Es|Es]; auto.
    inversion Es. exists 0. split; auto.
  Qed.
End Conq.

Section Rel.
  Context {W : Type}.
  Variable ltb : W -> W -> bool.
  Variable zero : W.
  Variable nd : @nodes W.

  Let n := length (n_cost nd).
  Let P q := nth q (n_pred nd) None.

  Hypothesis Hlen_pred : length (n_pred nd) = n.
  (* every node reaches a root in fewer than n steps (C01: fit yields such a forest) *)
  Hypothesis Hforest : forall q, q < n -> exists r k, reaches P q r k /\ P r = None /\ k < n.

  Lemma rel_step_length rel d : length (rel_step ltb zero nd rel d) = length rel.
  Proof. unfold rel_step. destruct (snd (predict_one ltb zero nd d)); auto. apply mark_nodes_length. Qed.

  Lemma rel_fold_length : forall ds rel, length (fold_left (rel_step ltb zero nd) ds rel) = length rel.
  Proof. induction ds as [|d ds IH]; intros rel; cbn [fold_left]; auto. rewrite IH; apply rel_step_length. Qed.

  Lemma rel_step_spec rel d t :
    nth t (rel_step ltb zero nd rel d) false = true <->
    nth t rel false = true \/
    (t < length rel /\ exists c, snd (predict_one ltb zero nd d) = Some c /\ exists k, reaches P c t k).
  Proof.
    unfold rel_step. destruct (snd (predict_one ltb zero nd d)) as [c|].
    - assert (Hroot : exists r k, reaches P c r k /\ P r = None /\ k < S n).
      { destruct (Nat.lt_ge_cases c n) as [Hc|Hc].
        - destruct (Hforest c Hc) as (r & k & H1 & H2 & H3). exists r, k; repeat split; auto.
        - exists c, 0. repeat split; try lia; [constructor|].
          unfold P; apply nth_overflow; lia. }
      destruct Hroot as (r & k & H1 & H2 & H3).
      fold n. rewrite (mark_nodes_spec (S n) (n_pred nd) rel c r k H1 H2 H3 t). fold P.
      split.
      + intros [H|[Hl Hk]]; auto. right; split; auto. exists c; auto.
      + intros [H|[Hl (c' & Hc' & Hk)]]; auto. inversion Hc'; subst. right; auto.
    - split; auto. intros [H|[_ (c & Hc & _)]]; auto. discriminate.
  Qed.

  Lemma rel_fold_spec : forall ds rel t,
    nth t (fold_left (rel_step ltb zero nd) ds rel) false = true <->
    nth t rel false = true \/
    (t < length rel /\ exists d, In d ds /\ exists c, snd (predict_one ltb zero nd d) = Some c /\
                                  exists k, reaches P c t k).
  Proof.
    induction ds as [|d ds IH]; intros rel t; cbn [fold_left].
    - split; auto. intros [H|[_ (d & [] & _)]]; auto.
    - rewrite IH, rel_step_spec, rel_step_length. split.
      + intros [[H|[Hl Hc]]|[Hl (d' & Hin & Hc)]]; auto.
        * right; split; auto. exists d; split; [left; auto | auto].
        * right; split; auto. exists d'; split; [right; auto | auto].
      + intros [H|[Hl (d' & [<-|Hin] & Hc)]]; auto.
        right; split; auto. exists d'; auto.
  Qed.

End Rel.

(* ------------------------------------------------------------------------------------ *)

(* flags of the training samples (positions < n); no other flag exists (the list keeps length n) *)
Theorem relevant_exact_in_range : forall {W : Type} (ltb : W -> W -> bool) (zero : W)
    (nd : @nodes W) (ds : list (nat -> W)),
  let n := length (n_cost nd) in
  let pred q := nth q (n_pred nd) None in
  length (n_pred nd) = n ->
  n_relevant nd = repeat false n ->
  (forall q, q < n -> exists r k, reaches pred q r k /\ pred r = None /\ k < n) ->
  let nd' := fst (predict_batch ltb zero nd ds) in
  length (n_relevant nd') = n /\
  forall t, t < n ->
    (nth t (n_relevant nd') false = true <->
     exists d, In d ds /\ exists c, snd (predict_one ltb zero nd d) = Some c /\
                                    exists k, reaches pred c t k).
Proof.
  intros W ltb zero nd ds n pred Hlp Hrel Hforest nd'.
  unfold nd'. rewrite predict_batch_shape. cbn [fst set_rel n_relevant].
  split.
  - rewrite rel_fold_length, Hrel, repeat_length; reflexivity.
  - intros t Ht. rewrite (rel_fold_spec ltb zero nd Hlp Hforest).
    rewrite Hrel, repeat_length. split.
    + intros [H|[_ H]]; auto.
      rewrite nth_repeat_false in H. discriminate.
    + intros H; right; split; auto.
Qed.

(* the unguarded equivalence, when predecessors stay inside the training set and the
   conquest order lists training samples *)
Theorem relevant_exact : forall {W : Type} (ltb : W -> W -> bool) (zero : W)
    (nd : @nodes W) (ds : list (nat -> W)),
  let n := length (n_cost nd) in
  let pred q := nth q (n_pred nd) None in
  1 <= n ->
  length (n_pred nd) = n ->
  n_relevant nd = repeat false n ->
  Permutation (n_order nd) (seq 0 n) ->
  (forall q p, q < n -> pred q = Some p -> p < n) ->
  (forall q, q < n -> exists r k, reaches pred q r k /\ pred r = None /\ k < n) ->
  let nd' := fst (predict_batch ltb zero nd ds) in
  forall t,
    nth t (n_relevant nd') false = true <->
    exists d, In d ds /\ exists c, snd (predict_one ltb zero nd d) = Some c /\
                                   exists k, reaches pred c t k.
Proof.
  intros W ltb zero nd ds n pred Hn Hlp Hrel Hperm Hin Hforest nd' t.
  destruct (relevant_exact_in_range ltb zero nd ds Hlp Hrel Hforest) as [Hlen Hiff].
  fold nd' in Hlen, Hiff.
  destruct (Nat.lt_ge_cases t n) as [Ht|Ht]; [apply Hiff; auto|].
  split.
  - intros H. rewrite nth_overflow in H by lia. discriminate.
  - intros (d & _ & c & Hc & k & Hk). exfalso.
    destruct (predict_conq_in ltb zero nd d c Hn Hc) as (i & Hi & ->).
    assert (Hc0 : nth i (n_order nd) 0 < n).
    { assert (Hl : length (n_order nd) = n) by (rewrite (Permutation_length Hperm), seq_length; auto).
      assert (Hm : In (nth i (n_order nd) 0) (n_order nd)) by (apply nth_In; lia).
      apply (Permutation_in _ Hperm) in Hm. apply in_seq in Hm. lia. }
    pose proof (reaches_in_range pred n _ _ _ Hin Hk Hc0). lia.
Qed.

(* non-vacuity / illustration on the forest of Proofs/FitExample.v: the equidistant query of
   Proofs/Predict.v is won by prototype 2 (a root): exactly sample 2 is flagged; a query close
   to sample 0 (path 0 -> 1 -> 2) flags the three samples of that path. *)
Lemma ex_relevant :
  n_relevant (fst (predict_batch Z.ltb 0%Z ex_nd [ex_d])) = [false; false; true; false; false] /\
  n_relevant (fst (predict_batch Z.ltb 0%Z ex_nd [ex_d; fun k => nth k [0; 9; 9; 9; 9]%Z 0%Z]))
    = [true; true; true; false; false].
Proof. vm_compute. split; reflexivity. Qed.
