(* C10, logic part: "pre-computed distances are equivalent to computing the metric on the fly".

   1. [weights_agree*]: what the index arrays must satisfy for the two branches of
      [if self.pre_computed_distance] to read the same number, in both argument orders.
   2. [*_ext]: every algorithm depends on its weight function only through its values
      (no functional-extensionality axiom: instance [R := eq] of the abstraction theorems).
   3. [C10_*]: the composition. *)
From Coq Require Import List Arith Bool.
From OPF Require Import Base.Lists Model.Heap Model.Sup Model.Knn
     Proofs.ParamBase Proofs.ParamSup Proofs.ParamKnn.
Import ListNotations.

(* ---------- 1. the two branches as weight functions ---------- *)

(* pre_distances[nodes[p].idx][nodes[q].idx] *)
Definition w_pre {W} (D : nat -> nat -> W) (idx : nat -> nat) (p q : nat) : W := D (idx p) (idx q).
(* distance_fn(nodes[p].features, nodes[q].features) *)
Definition w_dir {F W} (dist : F -> F -> W) (feat : nat -> F) (p q : nat) : W := dist (feat p) (feat q).
(* opfython.utils.general.pre_compute_distance: D[i][j] = distance(data[i], data[j]) *)
Definition pre_compute {F W} (dist : F -> F -> W) (data : nat -> F) (i j : nat) : W :=
  dist (data i) (data j).

(* query [x] against training node [t].
   SupervisedOPF.predict reads [train][query] / distance_fn(train, query) *)
Definition d_pre_tq {W} (D : nat -> nat -> W) (idx idxq : nat -> nat) (x t : nat) : W := D (idx t) (idxq x).
Definition d_dir_tq {F W} (dist : F -> F -> W) (feat featq : nat -> F) (x t : nat) : W :=
  dist (feat t) (featq x).
(* KNNSupervisedOPF.predict / UnsupervisedOPF.predict read [query][train] / distance_fn(query, train) *)
Definition d_pre_qt {W} (D : nat -> nat -> W) (idx idxq : nat -> nat) (x t : nat) : W := D (idxq x) (idx t).
Definition d_dir_qt {F W} (dist : F -> F -> W) (feat featq : nat -> F) (x t : nat) : W :=
  dist (featq x) (feat t).

Section Agree.
  Context {F W : Type} (dist : F -> F -> W) (data : nat -> F).
  Variables (idx : nat -> nat) (feat : nat -> F).
  Hypothesis Hfeat : forall a, feat a = data (idx a).

  Lemma weights_agree p q : w_pre (pre_compute dist data) idx p q = w_dir dist feat p q.
  Proof. unfold w_pre, pre_compute, w_dir. now rewrite !Hfeat. Qed.

  Variables (idxq : nat -> nat) (featq : nat -> F).
  Hypothesis Hfeatq : forall x, featq x = data (idxq x).

  Lemma weights_agree_tq x t :
    d_pre_tq (pre_compute dist data) idx idxq x t = d_dir_tq dist feat featq x t.
  Proof. unfold d_pre_tq, pre_compute, d_dir_tq. now rewrite Hfeat, Hfeatq. Qed.

  Lemma weights_agree_qt x t :
    d_pre_qt (pre_compute dist data) idx idxq x t = d_dir_qt dist feat featq x t.
  Proof. unfold d_pre_qt, pre_compute, d_dir_qt. now rewrite Hfeat, Hfeatq. Qed.
End Agree.

(* ---------- 2. extensionality ---------- *)

Lemma nodes_rel_eq {W} (a b : @nodes W) : nodes_rel eq a b <-> a = b.
Proof.
  destruct a as [c1 p1 l1 pl1 s1 r1 o1], b as [c2 p2 l2 pl2 s2 r2 o2].
  unfold nodes_rel; cbn [n_cost n_pred n_label n_plabel n_status n_relevant n_order].
  rewrite Forall2_eq_iff. split.
  - intros (Hc & Hp & Hl & Hpl & Hs & Hr & Ho). now subst.
  - intros H. injection H as -> -> -> -> -> -> ->. repeat split.
Qed.

Lemma knn_rel_eq {W} (a b : @knn W) : knn_rel eq a b <-> a = b.
Proof.
  destruct a as [l1 a1 r1 n1 d1 c1 p1 ro1 pl1 cl1 o1 g1 nc1],
           b as [l2 a2 r2 n2 d2 c2 p2 ro2 pl2 cl2 o2 g2 nc2].
  unfold knn_rel; cbn [k_label k_adj k_radius k_nplat k_dens k_cost k_pred k_root k_plabel
                                k_clabel k_order k_gdens k_nclusters].
  rewrite !Forall2_eq_iff. split.
  - intros (Hl & Ha & Hr & Hn & Hd & Hc & Hp & Hro & Hpl & Hcl & Ho & Hg & Hnc). now subst.
  - intros H. injection H as -> -> -> -> -> -> -> -> -> -> -> -> ->. repeat split.
Qed.

Section Ext.
  Context {W : Type} (ltb : W -> W -> bool).

  Let Hltb : forall a b : W, a = b -> forall a' b' : W, a' = b' -> ltb a a' = ltb b b'.
  Proof. intros a b -> a' b' ->. reflexivity. Qed.

  Theorem find_prototypes_ext top n w w' nd :
    (forall p q, w p q = w' p q) ->
    find_prototypes ltb top n w nd = find_prototypes ltb top n w' nd.
  Proof.
    intros Hw. apply nodes_rel_eq.
    apply (param_find_prototypes eq ltb ltb Hltb top top eq_refl n w w' nd nd Hw).
    now apply nodes_rel_eq.
  Qed.

  Theorem compete_ext zero top semi nl n w w' nd :
    (forall p q, w p q = w' p q) ->
    compete ltb zero top semi nl n w nd = compete ltb zero top semi nl n w' nd.
  Proof.
    intros Hw. apply nodes_rel_eq.
    apply (param_compete eq ltb ltb Hltb zero top zero top eq_refl eq_refl semi nl n w w' nd nd Hw).
    now apply nodes_rel_eq.
  Qed.

  Theorem sup_fit_ext zero top labels w w' :
    (forall p q, w p q = w' p q) ->
    sup_fit ltb zero top labels w = sup_fit ltb zero top labels w'.
  Proof.
    intros Hw. apply nodes_rel_eq.
    apply (param_sup_fit eq ltb ltb Hltb zero top zero top eq_refl eq_refl labels w w' Hw).
  Qed.

  Theorem semi_fit_ext zero top labels nu w w' :
    (forall p q, w p q = w' p q) ->
    semi_fit ltb zero top labels nu w = semi_fit ltb zero top labels nu w'.
  Proof.
    intros Hw. apply nodes_rel_eq.
    apply (param_semi_fit eq ltb ltb Hltb zero top zero top eq_refl eq_refl labels nu w w' Hw).
  Qed.

  Theorem predict_one_ext zero nd d d' :
    (forall k, d k = d' k) -> predict_one ltb zero nd d = predict_one ltb zero nd d'.
  Proof.
    intros Hd.
    apply (param_predict_one eq ltb ltb Hltb zero zero eq_refl nd nd d d'); [|exact Hd].
    now apply nodes_rel_eq.
  Qed.

  Theorem predict_batch_ext zero nd ds ds' :
    Forall2 (fun d d' => forall k, d k = d' k) ds ds' ->
    predict_batch ltb zero nd ds = predict_batch ltb zero nd ds'.
  Proof.
    intros Hds.
    destruct (param_predict_batch eq ltb ltb Hltb zero zero eq_refl nd nd ds ds') as [H1 H2].
    - now apply nodes_rel_eq.
    - exact Hds.
    - apply nodes_rel_eq in H1.
      rewrite (surjective_pairing (predict_batch ltb zero nd ds)),
              (surjective_pairing (predict_batch ltb zero nd ds')). now rewrite H1, H2.
  Qed.

  (* the batch of queries [0..m-1] given by a two-argument distance function *)
  Corollary predict_batch_ext_rows zero nd (dq dq' : nat -> nat -> W) m :
    (forall x t, dq x t = dq' x t) ->
    predict_batch ltb zero nd (map dq (seq 0 m)) = predict_batch ltb zero nd (map dq' (seq 0 m)).
  Proof.
    intros H. apply predict_batch_ext.
    induction (seq 0 m) as [|x l IH]; cbn [map]; constructor; [apply H | exact IH].
  Qed.

  Theorem knn_scan_ext top k n d d' skip ns :
    (forall j, d j = d' j) -> knn_scan ltb top k n d skip ns = knn_scan ltb top k n d' skip ns.
  Proof.
    intros Hd.
    destruct (param_knn_scan eq ltb ltb Hltb top top eq_refl k n d d' skip ns Hd) as [H1 H2].
    apply Forall2_eq_iff in H1.
    rewrite (surjective_pairing (knn_scan ltb top k n d skip ns)),
            (surjective_pairing (knn_scan ltb top k n d' skip ns)). now rewrite H1, H2.
  Qed.

  Theorem create_arcs_ext zero top thr one k n w w' g :
    (forall p q, w p q = w' p q) ->
    create_arcs ltb zero top thr one k n w g = create_arcs ltb zero top thr one k n w' g.
  Proof.
    intros Hw.
    destruct (param_create_arcs eq ltb ltb Hltb zero top zero top eq_refl eq_refl
                                thr thr one one k n w w' g g eq_refl eq_refl Hw) as [H1 H2].
    - now apply knn_rel_eq.
    - apply knn_rel_eq in H1. apply Forall2_eq_iff in H2.
      rewrite (surjective_pairing (create_arcs ltb zero top thr one k n w g)),
              (surjective_pairing (create_arcs ltb zero top thr one k n w' g)). now rewrite H1, H2.
  Qed.
End Ext.

(* ---------- 3. composition: the pre-computed branch equals the direct branch ---------- *)

Section C10.
  Context {F W : Type} (ltb : W -> W -> bool) (zero top : W).
  Variables (dist : F -> F -> W) (data : nat -> F).
  (* training subgraph: node [a] has features [feat a] and row index [idx a] *)
  Variables (idx : nat -> nat) (feat : nat -> F).
  Hypothesis Hfeat : forall a, feat a = data (idx a).
  (* prediction subgraph *)
  Variables (idxq : nat -> nat) (featq : nat -> F).
  Hypothesis Hfeatq : forall x, featq x = data (idxq x).

  Let D := pre_compute dist data.

  Theorem C10_find_prototypes n nd :
    find_prototypes ltb top n (w_pre D idx) nd = find_prototypes ltb top n (w_dir dist feat) nd.
  Proof. apply find_prototypes_ext. intros p q. now apply weights_agree. Qed.

  Theorem C10_supervised_fit labels :
    sup_fit ltb zero top labels (w_pre D idx) = sup_fit ltb zero top labels (w_dir dist feat).
  Proof. apply sup_fit_ext. intros p q. now apply weights_agree. Qed.

  (* [m] queries; row [x] of the batch is the distance function of query [x] *)
  Theorem C10_supervised labels m :
    predict_batch ltb zero (sup_fit ltb zero top labels (w_pre D idx))
                  (map (d_pre_tq D idx idxq) (seq 0 m))
    = predict_batch ltb zero (sup_fit ltb zero top labels (w_dir dist feat))
                    (map (d_dir_tq dist feat featq) (seq 0 m)).
  Proof.
    rewrite C10_supervised_fit. apply predict_batch_ext_rows.
    intros x t. now apply weights_agree_tq.
  Qed.

  (* Semi-supervised: [feat]/[idx] describe the labeled nodes [0..nl-1] followed by the
     unlabeled ones; [Hfeat] on the unlabeled range is the layout hypothesis of finding F8
     (the code gives unlabeled node [i] the index [nl + i] and has no index array for it). *)
  Theorem C10_semi_fit labels nu :
    semi_fit ltb zero top labels nu (w_pre D idx) = semi_fit ltb zero top labels nu (w_dir dist feat).
  Proof. apply semi_fit_ext. intros p q. now apply weights_agree. Qed.

  Theorem C10_semi labels nu m :
    predict_batch ltb zero (semi_fit ltb zero top labels nu (w_pre D idx))
                  (map (d_pre_tq D idx idxq) (seq 0 m))
    = predict_batch ltb zero (semi_fit ltb zero top labels nu (w_dir dist feat))
                    (map (d_dir_tq dist feat featq) (seq 0 m)).
  Proof.
    rewrite C10_semi_fit. apply predict_batch_ext_rows.
    intros x t. now apply weights_agree_tq.
  Qed.

  Theorem C10_supervised_full labels m :
    sup_fit ltb zero top labels (w_pre D idx) = sup_fit ltb zero top labels (w_dir dist feat) /\
    predict_batch ltb zero (sup_fit ltb zero top labels (w_pre D idx))
                  (map (d_pre_tq D idx idxq) (seq 0 m))
    = predict_batch ltb zero (sup_fit ltb zero top labels (w_dir dist feat))
                    (map (d_dir_tq dist feat featq) (seq 0 m)).
  Proof. split; [apply C10_supervised_fit | apply C10_supervised]. Qed.

  Theorem C10_semi_full labels nu m :
    semi_fit ltb zero top labels nu (w_pre D idx) = semi_fit ltb zero top labels nu (w_dir dist feat) /\
    predict_batch ltb zero (semi_fit ltb zero top labels nu (w_pre D idx))
                  (map (d_pre_tq D idx idxq) (seq 0 m))
    = predict_batch ltb zero (semi_fit ltb zero top labels nu (w_dir dist feat))
                    (map (d_dir_tq dist feat featq) (seq 0 m)).
  Proof. split; [apply C10_semi_fit | apply C10_semi]. Qed.

  (* KNN subgraph: create_arcs, and the neighbour scan of both KNN predicts ([query][train]) *)
  Theorem C10_knn_arcs thr one k n g :
    create_arcs ltb zero top thr one k n (w_pre D idx) g
    = create_arcs ltb zero top thr one k n (w_dir dist feat) g.
  Proof. apply create_arcs_ext. intros p q. now apply weights_agree. Qed.

  (* [skip]: the batch position the predicts compare [j] against (finding F3), any value *)
  Theorem C10_knn_scan k n x skip ns :
    knn_scan ltb top k n (d_pre_qt D idx idxq x) skip ns
    = knn_scan ltb top k n (d_dir_qt dist feat featq x) skip ns.
  Proof. apply knn_scan_ext. intros t. now apply weights_agree_qt. Qed.
End C10.

(* The argument order of each call site matters as soon as the metric is not symmetric
   (mutation "precomputed_index_transposed"): reading [query][train] where the direct branch
   computes distance_fn(train, query) gives a different number. *)
Example weights_order_matters :
  exists (dist : nat -> nat -> nat) (data : nat -> nat) (idx idxq : nat -> nat) (feat featq : nat -> nat),
    (forall a, feat a = data (idx a)) /\ (forall x, featq x = data (idxq x)) /\
    d_pre_qt (pre_compute dist data) idx idxq 1 0 <> d_dir_tq dist feat featq 1 0.
Proof.
  exists Nat.sub, (fun i => i), (fun i => i), (fun i => i), (fun i => i), (fun i => i).
  repeat split. cbv. discriminate.
Qed.
