(* C10, logic part, sharpened: the algorithms read their weight function only at node numbers
   below [n] (the subgraph size), so two weight functions that agree on [0,n) x [0,n) give equal
   outputs.  This is what makes the hypothesis of C10 a statement about the index ARRAYS
   ([feat a = data (idx a)] for [a < n] only).

   Parametricity cannot give this (node numbers are plain [nat]s): it needs the invariant that
   every entry of the heap array [p] is a node number, proved here by hand for an arbitrary
   carrier and comparison.  The unrestricted versions are in WeightsExt.v. *)
From Coq Require Import List Arith Bool Lia.
From OPF Require Import Base.Lists Model.Heap Model.Sup Model.Knn Proofs.WeightsExt.
Import ListNotations.

Lemma Forall_upd {A} (P : A -> Prop) l i v : Forall P l -> P v -> Forall P (upd l i v).
Proof.
  revert i; induction l as [|x l IH]; intros [|i] H Hv; cbn [upd]; auto;
    inversion H; subst; constructor; auto.
Qed.

Lemma Forall_nth_d {A} (P : A -> Prop) l i d : Forall P l -> P d -> P (nth i l d).
Proof.
  revert i; induction l as [|x l IH]; intros [|i] H Hd; cbn [nth]; auto; inversion H; subst; auto.
Qed.

Lemma fold_left_ext_inv {A B} (I : A -> Prop) (f g : A -> B -> A) l a :
  (forall st x, I st -> In x l -> f st x = g st x /\ I (f st x)) -> I a ->
  fold_left f l a = fold_left g l a /\ I (fold_left f l a).
Proof.
  revert a; induction l as [|x l IH]; intros a H Ha; cbn [fold_left]; [auto|].
  destruct (H a x Ha (or_introl eq_refl)) as [E Hi]. rewrite <- E. apply IH; auto.
  intros st y Hst Hy. apply H; auto. now right.
Qed.

(* ---------- the heap array only holds node numbers ---------- *)
Section HeapBound.
  Context {W : Type} (ltb : W -> W -> bool) (top : W).
  Variable n : nat.
  Hypothesis Hn : 0 < n.

  Definition hp_lt (h : heap W) : Prop := Forall (fun x => x < n) (hp h).

  Lemma swap_lt h i j : hp_lt h -> hp_lt (swap h i j).
  Proof.
    intros H. unfold hp_lt, swap; cbn [hp].
    apply Forall_upd; [apply Forall_upd; auto|]; apply Forall_nth_d; auto.
  Qed.

  Lemma go_up_lt fuel : forall h i, hp_lt h -> hp_lt (go_up ltb top fuel h i).
  Proof.
    induction fuel as [|f IH]; intros h i H; cbn [go_up]; auto.
    match goal with |- hp_lt (if ?c then _ else _) => destruct c end; auto.
    apply IH, swap_lt; auto.
  Qed.

  Lemma go_down_lt fuel : forall h i, hp_lt h -> hp_lt (go_down ltb top fuel h i).
  Proof.
    induction fuel as [|f IH]; intros h i H; cbn [go_down]; auto. cbv zeta.
    match goal with |- hp_lt (if ?c then _ else _) => destruct c end; auto.
    apply IH, swap_lt; auto.
  Qed.

  Lemma insert_lt h p : p < n -> hp_lt h -> hp_lt (fst (insert ltb top h p)).
  Proof.
    intros Hp H. unfold insert. destruct (is_full h); cbn [fst]; auto.
    apply go_up_lt. unfold hp_lt; cbn [hp]. apply Forall_upd; auto.
  Qed.

  Lemma remove_lt h :
    hp_lt h -> hp_lt (fst (remove ltb top h)) /\ (forall p, snd (remove ltb top h) = Some p -> p < n).
  Proof.
    intros H. unfold remove. destruct (is_empty h); cbn [fst snd].
    - split; [auto | discriminate].
    - split.
      + apply go_down_lt. unfold hp_lt; cbn [hp]. apply Forall_upd; auto.
        apply Forall_nth_d; auto.
      + intros p [= <-]. apply Forall_nth_d; auto.
  Qed.

  Lemma update_lt h p c : p < n -> hp_lt h -> hp_lt (update ltb top h p c).
  Proof.
    intros Hp H. unfold update.
    assert (H1 : hp_lt (set_cost h p c)) by exact H.
    destruct (nth p (hcolor (set_cost h p c)) White).
    - apply insert_lt; auto.
    - destruct (nth p (hpos (set_cost h p c)) None); auto. apply go_up_lt; auto.
    - destruct (nth p (hpos (set_cost h p c)) None); auto. apply go_up_lt; auto.
  Qed.

  Lemma h_init_lt pol : hp_lt (h_init top n pol).
  Proof.
    unfold hp_lt, h_init; cbn [hp]. apply Forall_forall. intros x Hx.
    apply repeat_spec in Hx. subst. exact Hn.
  Qed.
End HeapBound.

(* ---------- supervised / semi-supervised training ---------- *)

Lemma find_prototypes_zero {W} (ltb : W -> W -> bool) top n w nd :
  n = 0 -> find_prototypes ltb top n w nd = nd.
Proof. intros ->. reflexivity. Qed.

Lemma find_prototypes_pos {W} (ltb : W -> W -> bool) top n w nd :
  0 < n ->
  find_prototypes ltb top n w nd
  = snd (prim_loop ltb top n n w (fst (insert ltb top (h_init top n PMin) 0))
                   (mkNodes (n_cost nd) (upd (n_pred nd) 0 None) (n_label nd) (n_plabel nd)
                            (n_status nd) (n_relevant nd) (n_order nd))).
Proof.
  intros Hn. destruct n as [|m]; [lia|]. unfold find_prototypes.
  destruct (insert ltb top (h_init top (S m) PMin) 0) as [h1 b]. reflexivity.
Qed.

Lemma compete_zero {W} (ltb : W -> W -> bool) zero top semi nl n w nd :
  n = 0 -> compete ltb zero top semi nl n w nd = nd.
Proof. intros ->. reflexivity. Qed.

Section SupBounded.
  Context {W : Type} (ltb : W -> W -> bool) (zero top : W).
  Variable n : nat.
  Variables w w' : nat -> nat -> W.
  Hypothesis Hw : forall p q, p < n -> q < n -> w p q = w' p q.

  Definition ord_ok (l : list nat) : Prop := Forall (fun k => k < n) l.

  Lemma prim_relax_b p st q :
    p < n -> q < n -> hp_lt n (fst st) ->
    prim_relax ltb top w p st q = prim_relax ltb top w' p st q /\
    hp_lt n (fst (prim_relax ltb top w p st q)).
  Proof.
    intros Hp Hq H. destruct st as [h pred]. cbn [fst] in H.
    unfold prim_relax. cbv beta iota zeta. rewrite (Hw p q Hp Hq). split; [reflexivity|].
    destruct (negb (is_black h q) && negb (Nat.eqb p q)); cbn [fst]; auto.
    destruct (ltb (w' p q) (hcost_at top h q)); cbn [fst]; auto.
    apply update_lt; auto; lia.
  Qed.

  Lemma prim_loop_b fuel : forall h nd,
    0 < n -> hp_lt n h -> prim_loop ltb top fuel n w h nd = prim_loop ltb top fuel n w' h nd.
  Proof.
    induction fuel as [|f IH]; intros h nd Hn H; cbn [prim_loop]; [reflexivity|].
    destruct (remove_lt ltb top n Hn h H) as [H1 Hp].
    destruct (remove ltb top h) as [h1 [p|]]; [|reflexivity].
    cbn [fst snd] in H1, Hp. specialize (Hp p eq_refl).
    destruct (fold_left_ext_inv (fun st => hp_lt n (fst st))
                (prim_relax ltb top w p) (prim_relax ltb top w' p) (seq 0 n) (h1, n_pred nd)) as [E2 I2].
    - intros st q Hst Hq. apply in_seq in Hq. apply prim_relax_b; auto; lia.
    - exact H1.
    - rewrite <- E2. destruct (fold_left (prim_relax ltb top w p) (seq 0 n) (h1, n_pred nd)) as [h2 pred].
      apply IH; auto.
  Qed.

  Theorem find_prototypes_ext_bounded nd :
    find_prototypes ltb top n w nd = find_prototypes ltb top n w' nd.
  Proof.
    destruct (Nat.eq_dec n 0) as [Hz|Hz].
    - now rewrite !find_prototypes_zero.
    - assert (Hn : 0 < n) by lia.
      assert (Hi : hp_lt n (fst (insert ltb top (h_init top n PMin) 0)))
        by (apply insert_lt; auto; apply h_init_lt; auto).
      rewrite !find_prototypes_pos by exact Hn. now rewrite prim_loop_b.
  Qed.

  (* the conquest order only receives node numbers: needed for predict (below);
     [G] is an arbitrary side condition under which the initial order is fine *)
  Variable G : Prop.
  Let J (st : heap W * @nodes W) : Prop := hp_lt n (fst st) /\ (G -> ord_ok (n_order (snd st))).

  Lemma fit_relax_b semi nl p st q :
    p < n -> q < n -> J st ->
    fit_relax ltb top semi nl w p st q = fit_relax ltb top semi nl w' p st q /\
    J (fit_relax ltb top semi nl w p st q).
  Proof.
    intros Hp Hq [H HO]. destruct st as [h nd]. cbn [fst snd] in H, HO.
    unfold fit_relax. cbv beta iota zeta. rewrite (Hw p q Hp Hq). split; [reflexivity|].
    destruct (negb (Nat.eqb p q) && ltb (hcost_at top h p) (hcost_at top h q)); [|now split].
    destruct (ltb (wmax ltb (hcost_at top h p) (w' p q)) (hcost_at top h q)); [|now split].
    split; cbn [fst snd n_order]; auto. apply update_lt; auto; lia.
  Qed.

  Lemma fit_loop_b semi nl fuel : forall h nd,
    0 < n -> J (h, nd) ->
    fit_loop ltb top fuel n semi nl w h nd = fit_loop ltb top fuel n semi nl w' h nd /\
    (G -> ord_ok (n_order (snd (fit_loop ltb top fuel n semi nl w h nd)))).
  Proof.
    induction fuel as [|f IH]; intros h nd Hn [H HO]; cbn [fst snd] in H, HO; cbn [fit_loop];
      [split; auto|].
    destruct (remove_lt ltb top n Hn h H) as [H1 Hp].
    destruct (remove ltb top h) as [h1 [p|]]; [|split; auto].
    cbn [fst snd] in H1, Hp. specialize (Hp p eq_refl).
    match goal with |- context [fold_left _ _ (h1, ?x)] => set (nd1 := x) end.
    destruct (fold_left_ext_inv J (fit_relax ltb top semi nl w p) (fit_relax ltb top semi nl w' p)
                                (seq 0 n) (h1, nd1)) as [E2 I2].
    - intros st q Hst Hq. apply in_seq in Hq. apply fit_relax_b; auto; lia.
    - split; [exact H1|]. intros g. unfold nd1, ord_ok; cbn [snd n_order]. apply Forall_app.
      split; [apply HO; exact g | constructor; [exact Hp | constructor]].
    - rewrite <- E2. destruct (fold_left (fit_relax ltb top semi nl w p) (seq 0 n) (h1, nd1)) as [h2 nd2].
      apply IH; auto.
  Qed.

  Lemma seed_step_J st i : i < n -> J st -> J (seed_step ltb zero top st i).
  Proof.
    intros Hi [H HO]. destruct st as [h nd]. cbn [fst snd] in H, HO.
    unfold seed_step. destruct (nth i (n_status nd) false); split; cbn [fst snd n_order]; auto.
    apply insert_lt; auto. lia.
  Qed.

  Lemma compete_b semi nl nd :
    (G -> ord_ok (n_order nd)) ->
    compete ltb zero top semi nl n w nd = compete ltb zero top semi nl n w' nd /\
    (G -> ord_ok (n_order (compete ltb zero top semi nl n w nd))).
  Proof.
    intros HO. destruct (Nat.eq_dec n 0) as [Hz|Hz].
    - rewrite !compete_zero by exact Hz. auto.
    - unfold compete. assert (Hn : 0 < n) by lia.
      destruct (fold_left_ext_inv J (seed_step ltb zero top) (seed_step ltb zero top) (seq 0 n)
                                  (h_init top n PMin, nd)) as [_ I2].
      + intros st i Hst Hi. apply in_seq in Hi. split; [reflexivity|]. apply seed_step_J; auto; lia.
      + split; cbn [fst snd]; auto. apply h_init_lt; auto.
      + destruct (fold_left (seed_step ltb zero top) (seq 0 n) (h_init top n PMin, nd)) as [h nd1].
        destruct (fit_loop_b semi nl n h nd1 Hn I2) as [E HO']. rewrite E. split; auto.
        now rewrite <- E.
  Qed.
End SupBounded.

(* Prim does not touch the conquest order *)
Lemma prim_loop_order {W} (ltb : W -> W -> bool) top n w fuel : forall h nd,
  n_order (snd (prim_loop ltb top fuel n w h nd)) = n_order nd.
Proof.
  induction fuel as [|f IH]; intros h nd; cbn [prim_loop]; [reflexivity|].
  destruct (remove ltb top h) as [h1 [p|]]; [|reflexivity].
  destruct (fold_left (prim_relax ltb top w p) (seq 0 n) (h1, n_pred nd)) as [h2 pred].
  now rewrite IH.
Qed.

Lemma find_prototypes_order {W} (ltb : W -> W -> bool) top n w nd :
  n_order (find_prototypes ltb top n w nd) = n_order nd.
Proof.
  destruct (Nat.eq_dec n 0) as [Hz|Hz].
  - now rewrite find_prototypes_zero.
  - rewrite find_prototypes_pos by lia. now rewrite prim_loop_order.
Qed.

Section FitBounded.
  Context {W : Type} (ltb : W -> W -> bool) (zero top : W).

  Theorem compete_ext_bounded semi nl n w w' nd :
    (forall p q, p < n -> q < n -> w p q = w' p q) ->
    compete ltb zero top semi nl n w nd = compete ltb zero top semi nl n w' nd.
  Proof.
    intros Hw. apply (compete_b ltb zero top n w w' Hw False semi nl nd). intros [].
  Qed.

  (* equal trainings; and the conquest order of the result only lists node numbers *)
  Theorem sup_fit_ext_bounded labels w w' :
    (forall p q, p < length labels -> q < length labels -> w p q = w' p q) ->
    sup_fit ltb zero top labels w = sup_fit ltb zero top labels w' /\
    Forall (fun k => k < length labels) (n_order (sup_fit ltb zero top labels w)).
  Proof.
    intros Hw. unfold sup_fit.
    rewrite <- (find_prototypes_ext_bounded ltb top (length labels) w w' Hw).
    destruct (compete_b ltb zero top (length labels) w w' Hw True false (length labels)
                        (find_prototypes ltb top (length labels) w (nodes_init zero labels))) as [E HO].
    - intros _. rewrite find_prototypes_order. constructor.
    - split; [exact E | exact (HO I)].
  Qed.

  Theorem semi_fit_ext_bounded labels nu w w' :
    (forall p q, p < length labels + nu -> q < length labels + nu -> w p q = w' p q) ->
    semi_fit ltb zero top labels nu w = semi_fit ltb zero top labels nu w' /\
    Forall (fun k => k < length labels + nu) (n_order (semi_fit ltb zero top labels nu w)).
  Proof.
    intros Hw. unfold semi_fit.
    rewrite <- (find_prototypes_ext_bounded ltb top (length labels) w w')
      by (intros p q Hp Hq; apply Hw; lia).
    destruct (compete_b ltb zero top (length labels + nu) w w' Hw True true (length labels)
                (append_unlabeled zero (find_prototypes ltb top (length labels) w (nodes_init zero labels)) nu))
      as [E HO].
    - intros _. unfold append_unlabeled; cbn [n_order]. rewrite find_prototypes_order. constructor.
    - split; [exact E | exact (HO I)].
  Qed.
End FitBounded.

(* ---------- prediction: the query distances are read only at the nodes of the conquest order ---------- *)
Section PredictBounded.
  Context {W : Type} (ltb : W -> W -> bool) (zero : W).

  (* [nth _ order 0] is an element of the order, or the default 0 *)
  Definition reads (order : list nat) (k : nat) : Prop := k = 0 \/ In k order.

  Lemma reads_nth order i : reads order (nth i order 0).
  Proof. unfold reads. destruct (nth_in_or_default i order 0) as [H|H]; auto. Qed.

  Lemma scan_b nd d d' :
    (forall k, reads (n_order nd) k -> d k = d' k) ->
    forall fuel n j mc lab conq,
      scan ltb zero fuel nd d n j mc lab conq = scan ltb zero fuel nd d' n j mc lab conq.
  Proof.
    intros Hd. induction fuel as [|f IH]; intros n j mc lab conq; cbn [scan]; [reflexivity|].
    match goal with |- (if ?c then _ else _) = _ => destruct c end; [|reflexivity].
    cbv zeta. rewrite (Hd _ (reads_nth (n_order nd) (j + 1))).
    match goal with |- (if ?c then _ else _) = _ => destruct c end; apply IH.
  Qed.

  Lemma predict_one_b nd d d' :
    (forall k, reads (n_order nd) k -> d k = d' k) ->
    predict_one ltb zero nd d = predict_one ltb zero nd d'.
  Proof.
    intros Hd. unfold predict_one. cbv zeta.
    rewrite (Hd _ (reads_nth (n_order nd) 0)). now apply scan_b.
  Qed.

  Lemma predict_step_order st d : n_order (fst (predict_step ltb zero st d)) = n_order (fst st).
  Proof.
    destruct st as [nd out]. unfold predict_step.
    destruct (predict_one ltb zero nd d) as [lab conq]. reflexivity.
  Qed.

  Lemma predict_step_b st d d' :
    (forall k, reads (n_order (fst st)) k -> d k = d' k) ->
    predict_step ltb zero st d = predict_step ltb zero st d'.
  Proof.
    intros Hd. destruct st as [nd out]. unfold predict_step. cbn [fst] in Hd.
    now rewrite (predict_one_b nd d d' Hd).
  Qed.

  Theorem predict_batch_ext_reads nd ds ds' :
    Forall2 (fun d d' => forall k, reads (n_order nd) k -> d k = d' k) ds ds' ->
    predict_batch ltb zero nd ds = predict_batch ltb zero nd ds'.
  Proof.
    intros H. unfold predict_batch.
    assert (Hgen : forall st, n_order (fst st) = n_order nd ->
                              fold_left (predict_step ltb zero) ds st = fold_left (predict_step ltb zero) ds' st).
    { induction H as [|d d' l l' Hd _ IH]; intros st Hst; cbn [fold_left]; [reflexivity|].
      rewrite (predict_step_b st d d') by (now rewrite Hst).
      apply IH. now rewrite predict_step_order. }
    now apply Hgen.
  Qed.

  Theorem predict_batch_ext_bounded n nd ds ds' :
    0 < n -> Forall (fun k => k < n) (n_order nd) ->
    Forall2 (fun d d' => forall k, k < n -> d k = d' k) ds ds' ->
    predict_batch ltb zero nd ds = predict_batch ltb zero nd ds'.
  Proof.
    intros Hn HO H. apply predict_batch_ext_reads.
    induction H as [|d d' l l' Hd _ IH]; constructor; [|exact IH].
    intros k [->|Hk]; apply Hd; [exact Hn|].
    rewrite Forall_forall in HO. now apply HO.
  Qed.
End PredictBounded.

(* ---------- KNN: neighbour scan and create_arcs ---------- *)
Section KnnBounded.
  Context {W : Type} (ltb : W -> W -> bool) (zero top : W).

  Lemma fold_left_ext_in {A B} (f g : A -> B -> A) l a :
    (forall st x, In x l -> f st x = g st x) -> fold_left f l a = fold_left g l a.
  Proof.
    intros H. apply (fold_left_ext_inv (fun _ => True) f g l a); auto.
  Qed.

  Theorem knn_scan_ext_bounded k n d d' skip ns :
    (forall j, j < n -> d j = d' j) ->
    knn_scan ltb top k n d skip ns = knn_scan ltb top k n d' skip ns.
  Proof.
    intros Hd. unfold knn_scan. apply fold_left_ext_in. intros [ds ns'] j Hj.
    apply in_seq in Hj. unfold scan_step. rewrite (Hd j) by lia. reflexivity.
  Qed.

  Theorem create_arcs_ext_bounded thr one k n w w' g :
    (forall p q, p < n -> q < n -> w p q = w' p q) ->
    create_arcs ltb zero top thr one k n w g = create_arcs ltb zero top thr one k n w' g.
  Proof.
    intros Hw. unfold create_arcs, create_arcs_acc.
    rewrite (fold_left_ext_in (arcs_node ltb zero top k n w) (arcs_node ltb zero top k n w')); [reflexivity|].
    intros [[g0 maxd] ns0] i Hi. apply in_seq in Hi. unfold arcs_node.
    rewrite (knn_scan_ext_bounded k n (w i) (w' i) (Some i) ns0); [reflexivity|].
    intros j Hj. apply Hw; lia.
  Qed.
End KnnBounded.

(* ---------- composition: C10 with hypotheses on the index arrays only ---------- *)

Lemma Forall2_map_seq {A B} (R : A -> B -> Prop) (f : nat -> A) (g : nat -> B) m :
  (forall x, x < m -> R (f x) (g x)) -> Forall2 R (map f (seq 0 m)) (map g (seq 0 m)).
Proof.
  intros H. assert (Hin : forall x, In x (seq 0 m) -> R (f x) (g x))
    by (intros x Hx; apply in_seq in Hx; apply H; lia).
  induction (seq 0 m) as [|x l IH]; cbn [map]; constructor.
  - apply Hin. now left.
  - apply IH. intros y Hy. apply Hin. now right.
Qed.

Section C10Bounded.
  Context {F W : Type} (ltb : W -> W -> bool) (zero top : W).
  Variables (dist : F -> F -> W) (data : nat -> F).
  (* [n] training nodes with index array [idx] / features [feat]; [m] queries *)
  Variables (n m : nat) (idx idxq : nat -> nat) (feat featq : nat -> F).
  Hypothesis Hfeat : forall a, a < n -> feat a = data (idx a).
  Hypothesis Hfeatq : forall x, x < m -> featq x = data (idxq x).

  Let D := pre_compute dist data.

  Lemma weights_agree_bounded p q : p < n -> q < n -> w_pre D idx p q = w_dir dist feat p q.
  Proof. intros Hp Hq. unfold w_pre, D, pre_compute, w_dir. now rewrite !Hfeat. Qed.

  Lemma weights_agree_tq_bounded x t :
    x < m -> t < n -> d_pre_tq D idx idxq x t = d_dir_tq dist feat featq x t.
  Proof. intros Hx Ht. unfold d_pre_tq, D, pre_compute, d_dir_tq. now rewrite Hfeat, Hfeatq. Qed.

  Lemma weights_agree_qt_bounded x t :
    x < m -> t < n -> d_pre_qt D idx idxq x t = d_dir_qt dist feat featq x t.
  Proof. intros Hx Ht. unfold d_pre_qt, D, pre_compute, d_dir_qt. now rewrite Hfeat, Hfeatq. Qed.

  Theorem C10_supervised_bounded labels :
    length labels = n -> 0 < n ->
    sup_fit ltb zero top labels (w_pre D idx) = sup_fit ltb zero top labels (w_dir dist feat) /\
    predict_batch ltb zero (sup_fit ltb zero top labels (w_pre D idx))
                  (map (d_pre_tq D idx idxq) (seq 0 m))
    = predict_batch ltb zero (sup_fit ltb zero top labels (w_dir dist feat))
                    (map (d_dir_tq dist feat featq) (seq 0 m)).
  Proof.
    intros Hl Hn.
    destruct (sup_fit_ext_bounded ltb zero top labels (w_pre D idx) (w_dir dist feat)) as [E HO].
    - rewrite Hl. apply weights_agree_bounded.
    - split; [exact E|]. rewrite <- E.
      apply (predict_batch_ext_bounded ltb zero n); [exact Hn | now rewrite <- Hl |].
      apply Forall2_map_seq. intros x Hx k Hk. now apply weights_agree_tq_bounded.
  Qed.

  (* labeled nodes [0..nl-1], unlabeled nodes [nl..nl+nu-1] (finding F8: the code has no index
     array for the unlabeled part, so there [idx a = a] is forced: a layout condition on the file) *)
  Theorem C10_semi_bounded labels nu :
    length labels + nu = n -> 0 < n ->
    semi_fit ltb zero top labels nu (w_pre D idx) = semi_fit ltb zero top labels nu (w_dir dist feat) /\
    predict_batch ltb zero (semi_fit ltb zero top labels nu (w_pre D idx))
                  (map (d_pre_tq D idx idxq) (seq 0 m))
    = predict_batch ltb zero (semi_fit ltb zero top labels nu (w_dir dist feat))
                    (map (d_dir_tq dist feat featq) (seq 0 m)).
  Proof.
    intros Hl Hn.
    destruct (semi_fit_ext_bounded ltb zero top labels nu (w_pre D idx) (w_dir dist feat)) as [E HO].
    - rewrite Hl. apply weights_agree_bounded.
    - split; [exact E|]. rewrite <- E.
      apply (predict_batch_ext_bounded ltb zero n); [exact Hn | now rewrite <- Hl |].
      apply Forall2_map_seq. intros x Hx k Hk. now apply weights_agree_tq_bounded.
  Qed.

  Theorem C10_knn_arcs_bounded thr one k g :
    create_arcs ltb zero top thr one k n (w_pre D idx) g
    = create_arcs ltb zero top thr one k n (w_dir dist feat) g.
  Proof. apply create_arcs_ext_bounded. apply weights_agree_bounded. Qed.

  Theorem C10_knn_scan_bounded k x skip ns :
    x < m ->
    knn_scan ltb top k n (d_pre_qt D idx idxq x) skip ns
    = knn_scan ltb top k n (d_dir_qt dist feat featq x) skip ns.
  Proof. intros Hx. apply knn_scan_ext_bounded. intros t Ht. now apply weights_agree_qt_bounded. Qed.
End C10Bounded.
