(* C20: the rational-valued measures equal their definitions and stay within bounds. *)
From Coq Require Import List Arith Bool ZArith QArith Lia Lqa.
From OPF Require Import Base.Lists Model.Measures Proofs.MeasuresCount.
Import ListNotations.
Local Open Scope nat_scope.

(* ------------------------------------------------------------------------------------ *)
(* Q helpers *)

Lemma qn_nonneg n : (0 <= qn n)%Q.
Proof. unfold qn, Qle. simpl. lia. Qed.

Lemma qn_pos n : 0 < n -> (0 < qn n)%Q.
Proof. intros H. unfold qn, Qlt. simpl. lia. Qed.

Lemma qn_le a b : a <= b -> (qn a <= qn b)%Q.
Proof. intros H. unfold qn, Qle. simpl. lia. Qed.

Lemma qn_eq0 a : (qn a == 0)%Q -> a = 0.
Proof. unfold qn, Qeq. simpl. lia. Qed.

Lemma qfrac_bounds a b : a <= b -> (0 <= qn a / qn b /\ qn a / qn b <= 1)%Q.
Proof.
  intros H. destruct (Nat.eq_dec b 0) as [->|Hb].
  - assert (a = 0) by lia. subst. unfold Qdiv, Qmult, Qle. simpl. lia.
  - pose proof (qn_pos b ltac:(lia)) as Hp. split.
    + apply Qle_shift_div_l; [assumption|]. rewrite Qmult_0_l. apply qn_nonneg.
    + apply Qle_shift_div_r; [assumption|]. rewrite Qmult_1_l. now apply qn_le.
Qed.

Lemma qfrac_zero a b : a <= b -> (qn a / qn b == 0)%Q -> a = 0.
Proof.
  intros H E. destruct (Nat.eq_dec b 0) as [->|Hb]; [lia|].
  pose proof (qn_pos b ltac:(lia)) as Hp.
  apply qn_eq0.
  assert (E2 : (qn a == (qn a / qn b) * qn b)%Q) by (field; intros C; rewrite C in Hp; now apply Qlt_irrefl in Hp).
  rewrite E2, E. ring.
Qed.

Lemma qfrac_one a b : 0 < b -> (qn a / qn b == 1)%Q -> a = b.
Proof.
  intros Hb E. pose proof (qn_pos b Hb) as Hp.
  assert (E2 : (qn a == (qn a / qn b) * qn b)%Q) by (field; intros C; rewrite C in Hp; now apply Qlt_irrefl in Hp).
  rewrite E, Qmult_1_l in E2. unfold qn, Qeq in E2. simpl in E2. lia.
Qed.

Lemma qsum_cons x l : qsum (x :: l) = (x + qsum l)%Q.
Proof. reflexivity. Qed.

Lemma qsum_nonneg l : (forall x, In x l -> (0 <= x)%Q) -> (0 <= qsum l)%Q.
Proof.
  induction l as [|x l IH]; intros H; [apply Qle_refl|rewrite qsum_cons].
  assert (0 <= x)%Q by (apply H; simpl; auto).
  assert (0 <= qsum l)%Q by (apply IH; intros; apply H; simpl; auto). lra.
Qed.

Lemma qsum_upper l (hi : Q) : (forall x, In x l -> (x <= hi)%Q) -> (qsum l <= qn (length l) * hi)%Q.
Proof.
  induction l as [|x l IH]; intros H.
  - change (0 <= 0 * hi)%Q. lra.
  - assert (x <= hi)%Q by (apply H; simpl; auto).
    assert (qsum l <= qn (length l) * hi)%Q by (apply IH; intros; apply H; simpl; auto).
    rewrite qsum_cons. cbn [length].
    assert (E : (qn (S (length l)) == qn (length l) + 1)%Q).
    { unfold qn. rewrite Nat2Z.inj_succ. unfold Z.succ. rewrite inject_Z_plus. reflexivity. }
    rewrite E. lra.
Qed.

Lemma qsum_zero_all l : (forall x, In x l -> (0 <= x)%Q) -> (qsum l == 0)%Q ->
  forall x, In x l -> (x == 0)%Q.
Proof.
  induction l as [|y l IH]; intros Hn Hz x Hin; [contradiction|].
  rewrite qsum_cons in Hz.
  assert (Hy : (0 <= y)%Q) by (apply Hn; simpl; auto).
  assert (Hl : (0 <= qsum l)%Q) by (apply qsum_nonneg; intros; apply Hn; simpl; auto).
  destruct Hin as [->|Hin].
  - lra.
  - apply IH; auto; [intros; apply Hn; simpl; auto | lra].
Qed.

Lemma qsum_all_zero l : (forall x, In x l -> (x == 0)%Q) -> (qsum l == 0)%Q.
Proof.
  induction l as [|y l IH]; intros H; [reflexivity|rewrite qsum_cons].
  rewrite (H y) by (simpl; auto). rewrite IH by (intros; apply H; simpl; auto). ring.
Qed.

Lemma qn_mult a b : (qn (a * b) == qn a * qn b)%Q.
Proof. unfold qn. rewrite Nat2Z.inj_mul, inject_Z_mult. reflexivity. Qed.

(* ------------------------------------------------------------------------------------ *)
(* opf_accuracy *)

Definition acc_term (labels preds : list nat) (c : nat) : Q :=
  (qn (FP c labels preds) / qn (length labels - count c labels)
   + qn (FN c labels preds) / qn (count c labels))%Q.

Lemma opf_accuracy_unfold labels preds :
  opf_accuracy labels preds
  = (1 - qsum (map (acc_term labels preds) (seq 0 (n_class labels))) / qn (2 * n_class labels))%Q.
Proof.
  unfold opf_accuracy. rewrite errors_FP_FN. cbn [fst snd].
  rewrite sum_counts. unfold bincount. rewrite !zipw_map. reflexivity.
Qed.

Lemma accuracy_formula labels preds :
  (opf_accuracy labels preds == accuracy_spec labels preds)%Q.
Proof.
  rewrite opf_accuracy_unfold. unfold accuracy_spec, acc_term. 
  set (S := qsum _). set (q := qn (2 * _)). unfold Qdiv. ring.
Qed.

Lemma acc_term_bounds labels preds c : length labels = length preds ->
  (0 <= acc_term labels preds c /\ acc_term labels preds c <= 2)%Q.
Proof.
  intros H. unfold acc_term.
  destruct (qfrac_bounds _ _ (FP_le_rest labels preds c H)) as [A1 A2].
  destruct (qfrac_bounds _ _ (FN_le_n labels preds c H)) as [B1 B2].
  split; lra.
Qed.

Lemma n_class_pos labels : 0 < n_class labels.
Proof. unfold n_class. lia. Qed.

Lemma accuracy_bounds labels preds : length labels = length preds ->
  (0 <= opf_accuracy labels preds /\ opf_accuracy labels preds <= 1)%Q.
Proof.
  intros H. rewrite opf_accuracy_unfold.
  set (K := n_class labels). set (S := qsum _).
  assert (HK : (0 < qn (2 * K))%Q) by (apply qn_pos; pose proof (n_class_pos labels); unfold K; lia).
  assert (H0 : (0 <= S)%Q).
  { apply qsum_nonneg. intros x Hx. apply in_map_iff in Hx. destruct Hx as [c [<- _]].
    apply acc_term_bounds; assumption. }
  assert (H1 : (S <= qn (2 * K))%Q).
  { unfold S. eapply Qle_trans; [apply (qsum_upper _ 2)|].
    - intros x Hx. apply in_map_iff in Hx. destruct Hx as [c [<- _]].
      apply acc_term_bounds; assumption.
    - rewrite map_length, seq_length. fold K. rewrite qn_mult.
      assert (E : (qn 2 == 2)%Q) by reflexivity. rewrite E. lra. }
  assert (D0 : (0 <= S / qn (2 * K))%Q).
  { apply Qle_shift_div_l; [assumption|]. lra. }
  assert (D1 : (S / qn (2 * K) <= 1)%Q).
  { apply Qle_shift_div_r; [assumption|]. lra. }
  split; lra.
Qed.

Lemma accuracy_one_iff_eq labels preds : length labels = length preds ->
  ((opf_accuracy labels preds == 1)%Q <-> preds = labels).
Proof.
  intros H. rewrite opf_accuracy_unfold.
  set (K := n_class labels). set (S := qsum _).
  assert (HK : (0 < qn (2 * K))%Q) by (apply qn_pos; pose proof (n_class_pos labels); unfold K; lia).
  assert (Hnn : forall x, In x (map (acc_term labels preds) (seq 0 K)) -> (0 <= x)%Q).
  { intros x Hx. apply in_map_iff in Hx. destruct Hx as [c [<- _]]. apply acc_term_bounds; assumption. }
  split.
  - intros E.
    assert (ES : (S == 0)%Q).
    { assert (E2 : (S == (S / qn (2 * K)) * qn (2 * K))%Q)
        by (field; intros C; rewrite C in HK; now apply Qlt_irrefl in HK).
      assert (E3 : (S / qn (2 * K) == 0)%Q) by lra.
      rewrite E2, E3. ring. }
    apply FN_zero_all_correct; [assumption|]. intros c Hc.
    pose proof (qsum_zero_all _ Hnn ES (acc_term labels preds c)) as Hz.
    assert (Hin : In (acc_term labels preds c) (map (acc_term labels preds) (seq 0 K))).
    { apply in_map. apply in_seq. unfold K. lia. }
    specialize (Hz Hin). unfold acc_term in Hz.
    destruct (qfrac_bounds _ _ (FP_le_rest labels preds c H)) as [A1 A2].
    destruct (qfrac_bounds _ _ (FN_le_n labels preds c H)) as [B1 B2].
    apply (qfrac_zero _ _ (FN_le_n labels preds c H)). lra.
  - intros ->.
    assert (ES : (S == 0)%Q).
    { apply qsum_all_zero. intros x Hx. apply in_map_iff in Hx. destruct Hx as [c [<- _]].
      unfold acc_term. destruct (all_correct_FN_FP labels c) as [-> ->].
      unfold Qdiv. change (qn 0) with 0%Q. ring. }
    rewrite ES. unfold Qdiv. ring.
Qed.

Lemma pointwise_eq (l1 l2 : list nat) : length l1 = length l2 ->
  (l2 = l1 <-> forall i, i < length l1 -> nth i l2 0 = nth i l1 0).
Proof.
  intros H. split; [intros ->; reflexivity|].
  intros Hp. apply nth_ext with (d := 0) (d' := 0); [lia|]. intros n Hn. apply Hp. lia.
Qed.

Lemma accuracy_one_iff labels preds : length labels = length preds ->
  ((opf_accuracy labels preds == 1)%Q <->
   forall i, i < length labels -> nth i preds 0 = nth i labels 0).
Proof.
  intros H. rewrite (accuracy_one_iff_eq labels preds H). now apply pointwise_eq.
Qed.

(* ------------------------------------------------------------------------------------ *)
(* opf_accuracy_per_label *)

Lemma unique_counts_all_present labels : all_present labels ->
  unique_counts labels = bincount labels.
Proof.
  intros Hp. unfold unique_counts.
  assert (E : forall (l : list nat), (forall x, In x l -> 0 < x) ->
                                filter (fun c => Nat.ltb 0 c) l = l).
  { induction l as [|x l IH]; intros Hx; simpl; [reflexivity|].
    destruct (Nat.ltb_spec 0 x) as [_|Hc]; [|specialize (Hx x (or_introl eq_refl)); lia].
    f_equal. apply IH. intros; apply Hx; simpl; auto. }
  apply E. intros x Hx. unfold bincount in Hx. apply in_map_iff in Hx.
  destruct Hx as [c [<- Hc]]. apply in_seq in Hc. apply count_pos. apply Hp. lia.
Qed.

Lemma per_label_is_recall labels preds :
  length labels = length preds -> all_present labels ->
  exists r, opf_accuracy_per_label labels preds = Some r /\
            length r = n_class labels /\
            forall c, c < n_class labels ->
              (nth c r 0 == qn (TP c labels preds) / qn (count c labels))%Q.
Proof.
  intros Hlen Hp. unfold opf_accuracy_per_label.
  rewrite (unique_counts_all_present labels Hp), pl_errors_FN, bincount_length, map_length, seq_length.
  rewrite Nat.eqb_refl. unfold bincount. rewrite zipw_map.
  eexists. split; [reflexivity|]. split; [now rewrite map_length, seq_length|].
  intros c Hc. rewrite nth_map_seq by assumption.
  assert (Hpos : 0 < count c labels) by (apply count_pos, Hp, Hc).
  pose proof (TP_FN_count labels preds c Hlen) as Hsum.
  pose proof (qn_pos _ Hpos) as Hq.
  assert (E : (qn (count c labels) == qn (TP c labels preds) + qn (FN c labels preds))%Q).
  { rewrite <- Hsum. unfold qn. rewrite Nat2Z.inj_add, inject_Z_plus. reflexivity. }
  field_simplify_eq; [|intros C; rewrite C in Hq; now apply Qlt_irrefl in Hq].
  rewrite E. ring.
Qed.

(* ------------------------------------------------------------------------------------ *)
(* purity *)

Definition pcol (labels preds : list nat) (b : nat) : list nat :=
  map (fun a => pair_count a b labels preds) (seq 0 (n_class labels)).

Lemma purity_unfold labels preds :
  purity labels preds
  = (qn (list_sum (map (fun b => list_max (pcol labels preds b)) (seq 0 (n_class labels))))
     / qn (length labels))%Q.
Proof.
  unfold purity. cbv zeta. f_equal. f_equal. f_equal.
  apply map_ext_in. intros b Hb. apply in_seq in Hb.
  rewrite confusion_col by lia. reflexivity.
Qed.

Lemma purity_num_le labels preds : length labels = length preds -> in_range labels preds ->
  list_sum (map (fun b => list_max (pcol labels preds b)) (seq 0 (n_class labels))) <= length labels.
Proof.
  intros Hlen Hr. rewrite <- (cols_total labels preds Hlen Hr).
  apply list_sum_map_le. intros b _. apply list_max_le_sum.
Qed.

Lemma purity_num_pos labels preds : length labels = length preds -> in_range labels preds ->
  0 < length labels ->
  0 < list_sum (map (fun b => list_max (pcol labels preds b)) (seq 0 (n_class labels))).
Proof.
  intros Hlen Hr HN.
  set (a := nth 0 labels 0). set (b := nth 0 preds 0).
  assert (Ha : a < n_class labels) by (apply label_lt_n_class, nth_In; lia).
  assert (Hb : b < n_class labels) by (apply Hr, nth_In; lia).
  assert (Hpc : 0 < pair_count a b labels preds).
  { apply pair_count_pos; [assumption|]. exists 0. auto. }
  assert (Hm : 0 < list_max (pcol labels preds b)).
  { pose proof (list_max_ge_nth (pcol labels preds b) a) as Hge.
    unfold pcol in Hge at 1. rewrite nth_map_seq in Hge by assumption. lia. }
  assert (Hin : In b (seq 0 (n_class labels))) by (apply in_seq; lia).
  apply in_split in Hin. destruct Hin as [l1 [l2 ->]].
  rewrite map_app, list_sum_app. cbn [map list_sum fold_right]. lia.
Qed.

Lemma purity_bounds labels preds :
  length labels = length preds -> in_range labels preds -> 0 < length labels ->
  (0 < purity labels preds /\ purity labels preds <= 1)%Q.
Proof.
  intros Hlen Hr HN. rewrite purity_unfold.
  pose proof (purity_num_le labels preds Hlen Hr) as Hle.
  pose proof (purity_num_pos labels preds Hlen Hr HN) as Hpos.
  pose proof (qn_pos _ HN) as HqN. split.
  - apply Qlt_shift_div_l; [assumption|]. rewrite Qmult_0_l. now apply qn_pos.
  - apply Qle_shift_div_r; [assumption|]. rewrite Qmult_1_l. now apply qn_le.
Qed.

Lemma purity_one_iff labels preds :
  length labels = length preds -> in_range labels preds -> 0 < length labels ->
  ((purity labels preds == 1)%Q <->
   forall i j, i < length labels -> j < length labels ->
               nth i preds 0 = nth j preds 0 -> nth i labels 0 = nth j labels 0).
Proof.
  intros Hlen Hr HN. rewrite purity_unfold.
  pose proof (purity_num_le labels preds Hlen Hr) as Hle.
  set (K := n_class labels) in *.
  set (S := list_sum _) in *.
  assert (Hone : (qn S / qn (length labels) == 1)%Q <-> S = length labels).
  { split; [apply qfrac_one; assumption|].
    intros ->. field. intros C. apply qn_eq0 in C. lia. }
  rewrite Hone.
  (* S = N  <->  max = sum in every column *)
  assert (Hcols : S = length labels <->
                  forall b, b < K -> list_max (pcol labels preds b) = list_sum (pcol labels preds b)).
  { rewrite <- (cols_total labels preds Hlen Hr). fold K. split.
    - intros E b Hb.
      apply (list_sum_map_eq_pointwise (fun b => list_max (pcol labels preds b))
                                      (fun b => list_sum (pcol labels preds b)) (seq 0 K)).
      + intros x _. apply list_max_le_sum.
      + exact E.
      + apply in_seq. lia.
    - intros E. apply list_sum_map_ext. intros b Hb. apply in_seq in Hb. apply E. lia. }
  rewrite Hcols. split.
  - intros E i j Hi Hj Hpij.
    set (b := nth i preds 0).
    assert (Hb : b < K) by (apply Hr, nth_In; lia).
    specialize (E b Hb). rewrite max_eq_sum_iff in E.
    assert (Hai : nth i labels 0 < K) by (apply label_lt_n_class, nth_In; lia).
    assert (Haj : nth j labels 0 < K) by (apply label_lt_n_class, nth_In; lia).
    apply E; unfold pcol; rewrite nth_map_seq by assumption; apply pair_count_pos; try assumption.
    + exists i. auto.
    + exists j. unfold b. auto.
  - intros E b Hb. apply max_eq_sum_iff. intros a1 a2 H1 H2.
    assert (L1 : a1 < K).
    { destruct (Nat.lt_ge_cases a1 K) as [|Hge]; [assumption|].
      rewrite nth_overflow in H1 by (unfold pcol; rewrite map_length, seq_length; assumption). lia. }
    assert (L2 : a2 < K).
    { destruct (Nat.lt_ge_cases a2 K) as [|Hge]; [assumption|].
      rewrite nth_overflow in H2 by (unfold pcol; rewrite map_length, seq_length; assumption). lia. }
    unfold pcol in H1, H2. rewrite nth_map_seq in H1, H2 by assumption.
    apply pair_count_pos in H1, H2; try assumption.
    destruct H1 as [i [Hi [Hli Hpi]]]. destruct H2 as [j [Hj [Hlj Hpj]]].
    rewrite <- Hli, <- Hlj. apply E; auto. congruence.
Qed.

(* ------------------------------------------------------------------------------------ *)
(* confusion matrix, packaged *)

Lemma confusion_counts labels preds :
  length labels = length preds -> in_range labels preds ->
  length (confusion_matrix labels preds) = n_class labels /\
  (forall a, a < n_class labels -> length (nth a (confusion_matrix labels preds) []) = n_class labels) /\
  (forall a b, a < n_class labels -> b < n_class labels ->
     get2 (confusion_matrix labels preds) a b = pair_count a b labels preds) /\
  list_sum (map (@list_sum) (confusion_matrix labels preds)) = length labels.
Proof.
  intros Hlen Hr. destruct (confusion_shape labels preds) as [S1 S2].
  repeat split; auto.
  - intros a b. apply confusion_entry.
  - apply (confusion_total labels preds Hlen Hr).
Qed.
