(* Float-level (rounded-arithmetic) reading of the density kernels of Model/Pdf.v: the record
   [RndOps rnd] of Base/NumOpsRnd.v rounds after every `+ - * /`.

   Part 1: what the rounded expression trees ARE (closed forms with one [rnd] per arithmetic node), and
   the monotonicity facts that hold for every [rounding rnd] (Model/MetricRnd.v: monotone, rnd 0 = 0,
   strict sign kept).  Which extra hypothesis a lemma needs is in its statement:
     [rnd 1 = 1]            the literal 1 is representable,
     [rnd_idem rnd]         computed values are fixed points of rnd (rnd (rnd t) = rnd t).
   Round-to-nearest-even binary64 satisfies all of them where it neither overflows nor underflows. *)
From Coq Require Import Reals List ZArith Bool Lia Lra.
From OPF Require Import Base.Lists Base.NumOps Base.NumOpsRnd Model.Pdf Model.MetricRnd Proofs.PdfBase.
Import ListNotations.
Local Open Scope R_scope.

(* ---------- the record projections of [RndOps] compute ---------- *)

Lemma RndOps_add rnd a b : nadd (RndOps rnd) a b = rnd (a + b).  Proof. reflexivity. Qed.
Lemma RndOps_sub rnd a b : nsub (RndOps rnd) a b = rnd (a - b).  Proof. reflexivity. Qed.
Lemma RndOps_mul rnd a b : nmul (RndOps rnd) a b = rnd (a * b).  Proof. reflexivity. Qed.
Lemma RndOps_div rnd a b : ndiv (RndOps rnd) a b = rnd (a / b).  Proof. reflexivity. Qed.
Lemma RndOps_ltb rnd a b : nltb (RndOps rnd) a b = Rltb a b. Proof. reflexivity. Qed.
Lemma RndOps_eqb rnd a b : neqb (RndOps rnd) a b = Reqb a b. Proof. reflexivity. Qed.
Lemma RndOps_ofZ rnd z : nofZ (RndOps rnd) z = IZR z. Proof. reflexivity. Qed.

(* the identity rounding gives back the exact interpretation *)
Lemma RndOps_id_ROps : RndOps (fun t => t) = ROps.
Proof. reflexivity. Qed.

Lemma id_rounding : rounding (fun t => t).
Proof. constructor; intros; lra. Qed.

Lemma id_idem : rnd_idem (fun t => t).
Proof. intro t. reflexivity. Qed.

(* ---------- the closed forms ---------- *)

Section Forms.
  Variable rnd : R -> R.

  (* the running sum `pdf[i] += term`, one rounding per addition, started at the literal 0 *)
  Definition rsum (l : list R) : R := fold_left (fun a b => rnd (a + b)) l 0.

  (* pdf[i] = (sum_{l<k} e l) / (k + 1), the division rounded *)
  Definition pdfv (k : nat) (e : nat -> R) : R :=
    rnd (rsum (map e (seq 0 k)) / IZR (Z.of_nat (S k))).

  (* the query's mean: the same sum divided by k *)
  Definition qmean (k : nat) (e : nat -> R) : R :=
    rnd (rsum (map e (seq 0 k)) / IZR (Z.of_nat k)).

  (* ((MAX_DENSITY - 1) * (v - mn) / D) + 1 with a rounding after each of the four operations *)
  Definition amap (D mn v : R) : R := rnd (rnd (rnd (999 * rnd (v - mn)) / D) + 1).

  (* training: D = max - min (rounded) *)
  Definition dmap (mn mx v : R) : R := amap (rnd (mx - mn)) mn v.

  (* prediction: D = (max - min) + EPSILON, two roundings *)
  Definition qmap (eps mn mx s : R) : R := amap (rnd (rnd (mx - mn) + eps)) mn s.

  (* cost = density - 1 *)
  Definition cmap (d : R) : R := rnd (d - 1).

  Lemma fsum_RndOps l : fsum (RndOps rnd) l = rsum l.
  Proof. reflexivity. Qed.

  Lemma pdf_value_RndOps k e : pdf_value (RndOps rnd) k e = pdfv k e.
  Proof. reflexivity. Qed.

  Lemma pdf_constant_RndOps gdens : pdf_constant (RndOps rnd) gdens = rnd (rnd (2 * gdens) / 9).
  Proof. reflexivity. Qed.

  Lemma query_density_RndOps eps mn mx k e :
    query_density (RndOps rnd) 1000 eps mn mx k e = qmap eps mn mx (qmean k e).
  Proof. reflexivity. Qed.

  Lemma pdf_scale_RndOps mn mx pdf :
    pdf_scale (RndOps rnd) 1000 mn mx pdf =
    if Reqb mn mx then map (fun _ => (1000, 999)) pdf
    else map (fun v => (dmap mn mx v, cmap (dmap mn mx v))) pdf.
  Proof. reflexivity. Qed.

  Lemma pdf_minmax_RndOps fmax pdf :
    pdf_minmax (RndOps rnd) fmax pdf =
    fold_left (fun st v => let '(mn, mx) := st in
                           (if Rltb v mn then v else mn, if Rltb mx v then v else mx))
              pdf (fmax, rnd (0 - fmax)).
  Proof. reflexivity. Qed.

  Lemma calculate_pdf_RndOps fmax n k gdens e :
    calculate_pdf (RndOps rnd) fmax 1000 n k gdens e =
    let pdf := map (fun i => pdfv k (e i)) (seq 0 n) in
    let mm := pdf_minmax (RndOps rnd) fmax pdf in
    (rnd (rnd (2 * gdens) / 9), fst mm, snd mm, pdf_scale (RndOps rnd) 1000 (fst mm) (snd mm) pdf).
  Proof.
    unfold calculate_pdf. cbv zeta.
    change (map (fun i => pdf_value (RndOps rnd) k (e i)) (seq 0 n))
      with (map (fun i => pdfv k (e i)) (seq 0 n)).
    destruct (pdf_minmax (RndOps rnd) fmax (map (fun i => pdfv k (e i)) (seq 0 n))) as [mn mx].
    reflexivity.
  Qed.
End Forms.

(* with the identity rounding the closed forms are the exact ones *)
Lemma rsum_id l : rsum (fun t => t) l = fsum ROps l.
Proof. reflexivity. Qed.

Lemma dmap_id mn mx v : dmap (fun t => t) mn mx v = 999 * (v - mn) / (mx - mn) + 1.
Proof. reflexivity. Qed.

(* ---------- monotonicity, for every [rounding] ---------- *)

Section Mono.
  Variable rnd : R -> R.
  Hypothesis RND : rounding rnd.

  Lemma rnd_le a b : a <= b -> rnd a <= rnd b.
  Proof. apply (rnd_mono _ RND). Qed.

  Lemma rnd_nonneg a : 0 <= a -> 0 <= rnd a.
  Proof. intro H. rewrite <- (rnd_zero _ RND). now apply rnd_le. Qed.

  Lemma rnd_nonpos a : a <= 0 -> rnd a <= 0.
  Proof. intro H. rewrite <- (rnd_zero _ RND). now apply rnd_le. Qed.

  (* no inversion: a strict inequality between results comes from a strict one between arguments *)
  Lemma rnd_lt_inv a b : rnd a < rnd b -> a < b.
  Proof.
    intro H. destruct (Rlt_le_dec a b) as [L|L]; [exact L|].
    pose proof (rnd_le b a L). lra.
  Qed.

  (* ----- sums ----- *)

  Lemma fold_rsum_nonneg l a :
    0 <= a -> (forall v, In v l -> 0 <= v) -> 0 <= fold_left (fun a b => rnd (a + b)) l a.
  Proof.
    revert a. induction l as [|x l IH]; intros a Ha Hl; cbn [fold_left]; [exact Ha|].
    apply IH.
    - apply rnd_nonneg. pose proof (Hl x (or_introl eq_refl)). lra.
    - intros v Hv. apply Hl. now right.
  Qed.

  Lemma rsum_nonneg l : (forall v, In v l -> 0 <= v) -> 0 <= rsum rnd l.
  Proof. apply fold_rsum_nonneg. lra. Qed.

  Lemma fold_rsum_mono l l' a a' :
    a <= a' -> Forall2 Rle l l' ->
    fold_left (fun a b => rnd (a + b)) l a <= fold_left (fun a b => rnd (a + b)) l' a'.
  Proof.
    intros Ha HF. revert a a' Ha. induction HF as [|x y l l' Hxy HF IH]; intros a a' Ha; cbn [fold_left].
    - exact Ha.
    - apply IH. apply rnd_le. lra.
  Qed.

  Lemma rsum_mono l l' : Forall2 Rle l l' -> rsum rnd l <= rsum rnd l'.
  Proof. apply fold_rsum_mono. lra. Qed.

  Lemma Forall2_map_seq (e e' : nat -> R) a k :
    (forall l, (a <= l < a + k)%nat -> e l <= e' l) -> Forall2 Rle (map e (seq a k)) (map e' (seq a k)).
  Proof.
    revert a. induction k as [|k IH]; intros a H; cbn [seq map]; constructor.
    - apply H. lia.
    - apply IH. intros l Hl. apply H. lia.
  Qed.

  Lemma IZR_S_pos k : 0 < IZR (Z.of_nat (S k)).
  Proof. apply IZR_lt. lia. Qed.

  (* terms >= 0 give a pdf value >= 0 *)
  Lemma pdfv_nonneg k e : (forall l, (l < k)%nat -> 0 <= e l) -> 0 <= pdfv rnd k e.
  Proof.
    intro He. unfold pdfv. apply rnd_nonneg.
    apply Rmult_le_pos; [|left; apply Rinv_0_lt_compat; apply IZR_S_pos].
    apply rsum_nonneg. intros v Hv. apply in_map_iff in Hv. destruct Hv as (l & <- & Hl).
    apply in_seq in Hl. apply He. lia.
  Qed.

  (* the pdf value is weakly monotone in every term *)
  Lemma pdfv_mono k e e' : (forall l, (l < k)%nat -> e l <= e' l) -> pdfv rnd k e <= pdfv rnd k e'.
  Proof.
    intro He. unfold pdfv. apply rnd_le. apply Rmult_le_compat_r.
    - left. apply Rinv_0_lt_compat. apply IZR_S_pos.
    - apply rsum_mono. apply Forall2_map_seq. intros l Hl. apply He. lia.
  Qed.

  (* terms <= 1 give a pdf value <= 1 when 1 and the counts 0..k are representable *)
  Lemma fold_rsum_le_count (K : Z) l a (j : Z) :
    (forall z, (0 <= z <= K)%Z -> rnd (IZR z) = IZR z) ->
    (0 <= j)%Z -> (j + Z.of_nat (length l) <= K)%Z -> a <= IZR j -> (forall v, In v l -> v <= 1) ->
    fold_left (fun a b => rnd (a + b)) l a <= IZR (j + Z.of_nat (length l)).
  Proof.
    intro HZ. revert a j. induction l as [|x l IH]; intros a j Hj HK Ha Hl.
    - cbn [fold_left length]. rewrite Z.add_0_r. exact Ha.
    - cbn [fold_left]. cbn [length] in *. rewrite Nat2Z.inj_succ in *.
      replace (j + Z.succ (Z.of_nat (length l)))%Z with ((j + 1) + Z.of_nat (length l))%Z by lia.
      apply IH; [lia|lia| |intros v Hv; apply Hl; now right].
      rewrite <- (HZ (j + 1)%Z) by lia. apply rnd_le. rewrite plus_IZR.
      pose proof (Hl x (or_introl eq_refl)). lra.
  Qed.

  Lemma pdfv_le_1 k e :
    rnd 1 = 1 -> (forall z, (0 <= z <= Z.of_nat k)%Z -> rnd (IZR z) = IZR z) ->
    (forall l, (l < k)%nat -> e l <= 1) -> pdfv rnd k e <= 1.
  Proof.
    intros H1 HZ He. unfold pdfv. rewrite <- H1. apply rnd_le.
    assert (HS : rsum rnd (map e (seq 0 k)) <= IZR (Z.of_nat k)).
    { pose proof (fold_rsum_le_count (Z.of_nat k) (map e (seq 0 k)) 0 0%Z HZ) as H.
      rewrite map_length, seq_length, Z.add_0_l in H. apply H; [lia|lia|lra|].
      intros v Hv. apply in_map_iff in Hv. destruct Hv as (l & <- & Hl).
      apply in_seq in Hl. apply He. lia. }
    pose proof (IZR_S_pos k) as Hp. rewrite Nat2Z.inj_succ, succ_IZR in *.
    apply Rmult_le_reg_r with (IZR (Z.of_nat k) + 1); [exact Hp|].
    unfold Rdiv. rewrite Rmult_assoc, Rinv_l by lra. lra.
  Qed.

  Lemma qmean_nonneg k e : (1 <= k)%nat -> (forall l, (l < k)%nat -> 0 <= e l) -> 0 <= qmean rnd k e.
  Proof.
    intros Hk He. unfold qmean. apply rnd_nonneg.
    apply Rmult_le_pos; [|left; apply Rinv_0_lt_compat; apply IZR_lt; lia].
    apply rsum_nonneg. intros v Hv. apply in_map_iff in Hv. destruct Hv as (l & <- & Hl).
    apply in_seq in Hl. apply He. lia.
  Qed.

  Lemma qmean_mono k e e' :
    (1 <= k)%nat -> (forall l, (l < k)%nat -> e l <= e' l) -> qmean rnd k e <= qmean rnd k e'.
  Proof.
    intros Hk He. unfold qmean. apply rnd_le. apply Rmult_le_compat_r.
    - left. apply Rinv_0_lt_compat. apply IZR_lt. lia.
    - apply rsum_mono. apply Forall2_map_seq. intros l Hl. apply He. lia.
  Qed.

  (* ----- the scaled map, for a positive divisor D ----- *)

  (* the rounded numerator 999 * (v - mn) *)
  Definition anum (mn v : R) : R := rnd (999 * rnd (v - mn)).

  Lemma anum_mono mn v w : v <= w -> anum mn v <= anum mn w.
  Proof.
    intro H. unfold anum. apply rnd_le.
    assert (rnd (v - mn) <= rnd (w - mn)) by (apply rnd_le; lra). lra.
  Qed.

  Lemma anum_nonneg mn v : mn <= v -> 0 <= anum mn v.
  Proof.
    intro H. unfold anum. apply rnd_nonneg.
    assert (0 <= rnd (v - mn)) by (apply rnd_nonneg; lra). lra.
  Qed.

  Lemma anum_nonpos mn v : v <= mn -> anum mn v <= 0.
  Proof.
    intro H. unfold anum. apply rnd_nonpos.
    assert (rnd (v - mn) <= 0) by (apply rnd_nonpos; lra). lra.
  Qed.

  Lemma anum_min mn : anum mn mn = 0.
  Proof.
    unfold anum. replace (mn - mn) with 0 by lra. rewrite (rnd_zero _ RND).
    replace (999 * 0) with 0 by lra. apply (rnd_zero _ RND).
  Qed.

  Lemma amap_anum D mn v : amap rnd D mn v = rnd (rnd (anum mn v / D) + 1).
  Proof. reflexivity. Qed.

  (* weakly order preserving in the unmapped value *)
  Lemma amap_mono D mn v w : 0 < D -> v <= w -> amap rnd D mn v <= amap rnd D mn w.
  Proof.
    intros HD H. rewrite !amap_anum. apply rnd_le.
    assert (rnd (anum mn v / D) <= rnd (anum mn w / D)); [|lra].
    apply rnd_le. apply Rmult_le_compat_r; [left; now apply Rinv_0_lt_compat|now apply anum_mono].
  Qed.

  (* the minimum is sent to rnd 1 *)
  Lemma amap_min_gen D mn : amap rnd D mn mn = rnd 1.
  Proof.
    rewrite amap_anum, anum_min. unfold Rdiv. rewrite Rmult_0_l, (rnd_zero _ RND).
    f_equal. lra.
  Qed.

  Lemma amap_min D mn : rnd 1 = 1 -> amap rnd D mn mn = 1.
  Proof. intro H1. now rewrite amap_min_gen. Qed.

  Lemma amap_ge_1 D mn v : rnd 1 = 1 -> 0 < D -> mn <= v -> 1 <= amap rnd D mn v.
  Proof. intros H1 HD H. rewrite <- (amap_min D mn H1). now apply amap_mono. Qed.

  Lemma amap_le_1 D mn v : rnd 1 = 1 -> 0 < D -> v <= mn -> amap rnd D mn v <= 1.
  Proof. intros H1 HD H. rewrite <- (amap_min D mn H1). now apply amap_mono. Qed.

  (* a larger divisor pulls the value towards 1 (from above when v >= mn, from below when v <= mn) *)
  Lemma amap_antitone_D D D' mn v :
    0 < D -> D <= D' -> mn <= v -> amap rnd D' mn v <= amap rnd D mn v.
  Proof.
    intros HD HDD H. rewrite !amap_anum. apply rnd_le.
    assert (rnd (anum mn v / D') <= rnd (anum mn v / D)); [|lra].
    apply rnd_le. unfold Rdiv. apply Rmult_le_compat_l; [now apply anum_nonneg|].
    apply Rinv_le_contravar; assumption.
  Qed.

  Lemma amap_monotone_D D D' mn v :
    0 < D -> D <= D' -> v <= mn -> amap rnd D mn v <= amap rnd D' mn v.
  Proof.
    intros HD HDD H. rewrite !amap_anum. apply rnd_le.
    assert (rnd (anum mn v / D) <= rnd (anum mn v / D')); [|lra].
    apply rnd_le. unfold Rdiv.
    assert (HI : / D' <= / D) by (apply Rinv_le_contravar; assumption).
    pose proof (anum_nonpos mn v H) as HN.
    replace (anum mn v * / D) with (- (- anum mn v * / D)) by ring.
    replace (anum mn v * / D') with (- (- anum mn v * / D')) by ring.
    apply Ropp_le_contravar. apply Rmult_le_compat_l; lra.
  Qed.

  (* every value of the map is a computed value, hence a fixed point under idempotence *)
  Lemma amap_fixed D mn v : rnd_idem rnd -> rnd (amap rnd D mn v) = amap rnd D mn v.
  Proof. intro HI. unfold amap. apply HI. Qed.

  (* ----- the training map ----- *)

  Lemma dmap_den_pos mn mx : mn < mx -> 0 < rnd (mx - mn).
  Proof. intro H. apply (rnd_pos _ RND). lra. Qed.

  Lemma dmap_mono mn mx v w : mn < mx -> v <= w -> dmap rnd mn mx v <= dmap rnd mn mx w.
  Proof. intros Hm H. unfold dmap. apply amap_mono; [now apply dmap_den_pos|exact H]. Qed.

  Lemma dmap_lt_inv mn mx v w : mn < mx -> dmap rnd mn mx v < dmap rnd mn mx w -> v < w.
  Proof.
    intros Hm H. destruct (Rlt_le_dec v w) as [L|L]; [exact L|].
    pose proof (dmap_mono mn mx w v Hm L). lra.
  Qed.

  Lemma dmap_min mn mx : rnd 1 = 1 -> dmap rnd mn mx mn = 1.
  Proof. intro H1. unfold dmap. now apply amap_min. Qed.

  Lemma dmap_ge_1 mn mx v : rnd 1 = 1 -> mn < mx -> mn <= v -> 1 <= dmap rnd mn mx v.
  Proof. intros H1 Hm H. unfold dmap. apply amap_ge_1; [exact H1|now apply dmap_den_pos|exact H]. Qed.

  (* ----- the prediction map ----- *)

  Lemma qmap_den_pos eps mn mx : 0 < eps -> mn <= mx -> 0 < rnd (rnd (mx - mn) + eps).
  Proof.
    intros He Hm. apply (rnd_pos _ RND).
    assert (0 <= rnd (mx - mn)) by (apply rnd_nonneg; lra). lra.
  Qed.

  Lemma qmap_mono eps mn mx s t :
    0 < eps -> mn <= mx -> s <= t -> qmap rnd eps mn mx s <= qmap rnd eps mn mx t.
  Proof. intros He Hm H. unfold qmap. apply amap_mono; [now apply qmap_den_pos|exact H]. Qed.

  Lemma qmap_lt_inv eps mn mx s t :
    0 < eps -> mn <= mx -> qmap rnd eps mn mx s < qmap rnd eps mn mx t -> s < t.
  Proof.
    intros He Hm H. destruct (Rlt_le_dec s t) as [L|L]; [exact L|].
    pose proof (qmap_mono eps mn mx t s He Hm L). lra.
  Qed.

  Lemma qmap_min eps mn mx : rnd 1 = 1 -> qmap rnd eps mn mx mn = 1.
  Proof. intro H1. unfold qmap. now apply amap_min. Qed.

  Lemma qmap_ge_1 eps mn mx s :
    rnd 1 = 1 -> 0 < eps -> mn <= mx -> mn <= s -> 1 <= qmap rnd eps mn mx s.
  Proof. intros H1 He Hm H. unfold qmap. apply amap_ge_1; [exact H1|now apply qmap_den_pos|exact H]. Qed.

  Lemma qmap_le_1 eps mn mx s :
    rnd 1 = 1 -> 0 < eps -> mn <= mx -> s <= mn -> qmap rnd eps mn mx s <= 1.
  Proof. intros H1 He Hm H. unfold qmap. apply amap_le_1; [exact H1|now apply qmap_den_pos|exact H]. Qed.

  (* the divisor of the prediction map is at least that of the training map (idempotence: the
     stored difference max - min is a fixed point) *)
  Lemma qmap_den_ge eps mn mx : rnd_idem rnd -> 0 <= eps -> rnd (mx - mn) <= rnd (rnd (mx - mn) + eps).
  Proof. intros HI He. rewrite <- (HI (mx - mn)) at 1. apply rnd_le. lra. Qed.

  (* documented differences between training and prediction, part "+ EPSILON": on the same unmapped
     value the prediction map lies between 1 and the training map *)
  Lemma qmap_le_dmap eps mn mx v :
    rnd_idem rnd -> 0 <= eps -> mn < mx -> mn <= v -> qmap rnd eps mn mx v <= dmap rnd mn mx v.
  Proof.
    intros HI He Hm H. unfold qmap, dmap.
    apply amap_antitone_D; [now apply dmap_den_pos|now apply qmap_den_ge|exact H].
  Qed.

  Lemma qmap_ge_dmap eps mn mx v :
    rnd_idem rnd -> 0 <= eps -> mn < mx -> v <= mn -> dmap rnd mn mx v <= qmap rnd eps mn mx v.
  Proof.
    intros HI He Hm H. unfold qmap, dmap.
    apply amap_monotone_D; [now apply dmap_den_pos|now apply qmap_den_ge|exact H].
  Qed.

  (* when EPSILON is absorbed by the rounded addition (binary64: whenever max - min >= 2^-13, as
     EPSILON = 1e-20 < 2^-66) the two maps are the same function *)
  Lemma qmap_eq_dmap eps mn mx v :
    rnd (rnd (mx - mn) + eps) = rnd (mx - mn) -> qmap rnd eps mn mx v = dmap rnd mn mx v.
  Proof. intro HA. unfold qmap, dmap. now rewrite HA. Qed.

  (* ----- cost = density - 1 ----- *)

  Lemma cmap_nonneg d : 1 <= d -> 0 <= cmap rnd d.
  Proof. intro H. unfold cmap. apply rnd_nonneg. lra. Qed.

  Lemma cmap_le d : rnd d = d -> cmap rnd d <= d.
  Proof. intro HF. unfold cmap. rewrite <- HF at 2. apply rnd_le. lra. Qed.

  (* strictness is exactly "d - 1 is not rounded up to d" *)
  Lemma cmap_lt_iff d : rnd d = d -> (cmap rnd d < d <-> rnd (d - 1) <> d).
  Proof.
    intro HF. pose proof (cmap_le d HF) as HL. unfold cmap in *. split; intro H; lra.
  Qed.

  (* sufficient: some representable value lies in [d - 1, d) *)
  Lemma cmap_lt_grid d f : rnd f = f -> d - 1 <= f < d -> cmap rnd d < d.
  Proof.
    intros Hf [H1 H2]. unfold cmap. pose proof (rnd_le (d - 1) f H1) as H. rewrite Hf in H. lra.
  Qed.

  (* ... for instance an integer: if the integers 0..M are representable, every d in [1, M + 1] has one *)
  Lemma cmap_lt_integers (M : Z) d :
    (forall z, (0 <= z <= M)%Z -> rnd (IZR z) = IZR z) -> 1 <= d <= IZR M + 1 -> cmap rnd d < d.
  Proof.
    intros HZ [H1 H2].
    (* m := ceil(d) - 1 = - floor(-d) - 1, the largest integer below d *)
    set (m := (- up (- d))%Z).
    destruct (archimed (- d)) as [A1 A2].
    assert (Hm : IZR m = - IZR (up (- d))) by (unfold m; apply opp_IZR).
    assert (Hlo : d - 1 <= IZR m) by lra.
    assert (Hhi : IZR m < d) by lra.
    apply (cmap_lt_grid d (IZR m)); [|lra].
    apply HZ. split.
    - apply le_IZR. lra.
    - apply Zlt_succ_le. apply lt_IZR. rewrite succ_IZR. lra.
  Qed.
End Mono.
