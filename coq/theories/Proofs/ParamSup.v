(* The abstraction ("free") theorems of the supervised / semi-supervised pipeline.

   Model/Heap.v and Model/Sup.v are polymorphic in the weight type [W] and touch weights only
   through [ltb].  Paramcoq turns each definition [c] into a proof [c_R] of its binary
   parametricity statement.  Here these are repackaged for an arbitrary relation
   [R : W1 -> W2 -> Prop] respected by the two comparisons:

     param_find_prototypes, param_compete, param_sup_fit, param_semi_fit,
     param_predict_one, param_predict_batch

   Everything in WeightsExt.v (R := eq) and Rescale.v (R a b := P a /\ b = f a) is an instance. *)
From Coq Require Import List Arith Bool.
From OPF Require Import Base.Lists Model.Heap Model.Sup Proofs.ParamBase.
From Param Require Import Param.
Import ListNotations.

Global Parametricity Tactic := ((param_destruct_reflexivity; fail) || auto).

Parametricity Recursive find_prototypes.
Parametricity Recursive compete.
Parametricity Recursive sup_fit.
Parametricity Recursive semi_fit.
Parametricity Recursive predict_one.
Parametricity Recursive predict_batch.

(* ---------- the relation on node tables, as a plain proposition ---------- *)

Definition nodes_rel {W1 W2} (R : W1 -> W2 -> Prop) (a : @nodes W1) (b : @nodes W2) : Prop :=
  Forall2 R (n_cost a) (n_cost b) /\
  n_pred a = n_pred b /\ n_label a = n_label b /\ n_plabel a = n_plabel b /\
  n_status a = n_status b /\ n_relevant a = n_relevant b /\ n_order a = n_order b.

Lemma nodes_R_rel {W1 W2} (R : W1 -> W2 -> Prop) a b : nodes_R W1 W2 R a b -> nodes_rel R a b.
Proof.
  intros H. destruct H as [c1 c2 Hc p1 p2 Hp l1 l2 Hl pl1 pl2 Hpl s1 s2 Hs r1 r2 Hr o1 o2 Ho].
  unfold nodes_rel; cbn [n_cost n_pred n_label n_plabel n_status n_relevant n_order].
  repeat split.
  - now apply list_R_Forall2.
  - now apply list_optnat_R_eq.
  - now apply list_nat_R_eq.
  - now apply list_nat_R_eq.
  - now apply list_bool_R_eq.
  - now apply list_bool_R_eq.
  - now apply list_nat_R_eq.
Qed.

Lemma nodes_rel_R {W1 W2} (R : W1 -> W2 -> Prop) a b :
  nodes_rel R a b -> inhabited (nodes_R W1 W2 R a b).
Proof.
  destruct a as [c1 p1 l1 pl1 s1 r1 o1], b as [c2 p2 l2 pl2 s2 r2 o2].
  unfold nodes_rel; cbn [n_cost n_pred n_label n_plabel n_status n_relevant n_order].
  intros (Hc & Hp & Hl & Hpl & Hs & Hr & Ho). subst.
  destruct (Forall2_list_R R _ _ Hc) as [Hc'].
  constructor. constructor.
  - exact Hc'.
  - apply list_optnat_R_refl.
  - apply list_nat_R_refl.
  - apply list_nat_R_refl.
  - apply list_bool_R_refl.
  - apply list_bool_R_refl.
  - apply list_nat_R_refl.
Qed.

(* related lists of per-query distance functions *)
Definition dists_rel {W1 W2} (R : W1 -> W2 -> Prop) (ds1 : list (nat -> W1)) (ds2 : list (nat -> W2)) : Prop :=
  Forall2 (fun d1 d2 => forall k, R (d1 k) (d2 k)) ds1 ds2.

Lemma dists_rel_R {W1 W2} (R : W1 -> W2 -> Prop) ds1 ds2 :
  dists_rel R ds1 ds2 ->
  inhabited (list_R (nat -> W1) (nat -> W2)
                    (fun d1 d2 => forall k k', nat_R k k' -> R (d1 k) (d2 k')) ds1 ds2).
Proof.
  intros H; induction H as [|d1 d2 l l' Hd _ [IH]]; constructor; constructor.
  - now apply fun1_R.
  - exact IH.
Qed.

Section Abstraction.
  Context {W1 W2 : Type} (R : W1 -> W2 -> Prop).
  Variables (ltb1 : W1 -> W1 -> bool) (ltb2 : W2 -> W2 -> bool).
  Hypothesis Hltb : forall a b, R a b -> forall a' b', R a' b' -> ltb1 a a' = ltb2 b b'.
  Variables (zero1 top1 : W1) (zero2 top2 : W2).
  Hypothesis Hzero : R zero1 zero2.
  Hypothesis Htop : R top1 top2.

  Let ltb_R : forall a b, R a b -> forall a' b', R a' b' -> bool_R (ltb1 a a') (ltb2 b b').
  Proof. intros a b Hab a' b' Hab'. apply bool_R_of_eq. now apply Hltb. Defined.

  Theorem param_find_prototypes n w1 w2 nd1 nd2 :
    (forall p q, R (w1 p q) (w2 p q)) -> nodes_rel R nd1 nd2 ->
    nodes_rel R (find_prototypes ltb1 top1 n w1 nd1) (find_prototypes ltb2 top2 n w2 nd2).
  Proof.
    intros Hw Hnd. destruct (nodes_rel_R R _ _ Hnd) as [HR]. apply nodes_R_rel.
    apply (find_prototypes_R W1 W2 R ltb1 ltb2 ltb_R top1 top2 Htop n n (nat_R_refl n)
                             w1 w2 (fun2_R R w1 w2 Hw) nd1 nd2 HR).
  Qed.

  Theorem param_compete semi nl n w1 w2 nd1 nd2 :
    (forall p q, R (w1 p q) (w2 p q)) -> nodes_rel R nd1 nd2 ->
    nodes_rel R (compete ltb1 zero1 top1 semi nl n w1 nd1) (compete ltb2 zero2 top2 semi nl n w2 nd2).
  Proof.
    intros Hw Hnd. destruct (nodes_rel_R R _ _ Hnd) as [HR]. apply nodes_R_rel.
    apply (compete_R W1 W2 R ltb1 ltb2 ltb_R zero1 zero2 Hzero top1 top2 Htop
                     semi semi (bool_R_refl semi) nl nl (nat_R_refl nl) n n (nat_R_refl n)
                     w1 w2 (fun2_R R w1 w2 Hw) nd1 nd2 HR).
  Qed.

  Theorem param_sup_fit labels w1 w2 :
    (forall p q, R (w1 p q) (w2 p q)) ->
    nodes_rel R (sup_fit ltb1 zero1 top1 labels w1) (sup_fit ltb2 zero2 top2 labels w2).
  Proof.
    intros Hw. apply nodes_R_rel.
    apply (sup_fit_R W1 W2 R ltb1 ltb2 ltb_R zero1 zero2 Hzero top1 top2 Htop
                     labels labels (list_nat_R_refl labels) w1 w2 (fun2_R R w1 w2 Hw)).
  Qed.

  Theorem param_semi_fit labels nu w1 w2 :
    (forall p q, R (w1 p q) (w2 p q)) ->
    nodes_rel R (semi_fit ltb1 zero1 top1 labels nu w1) (semi_fit ltb2 zero2 top2 labels nu w2).
  Proof.
    intros Hw. apply nodes_R_rel.
    apply (semi_fit_R W1 W2 R ltb1 ltb2 ltb_R zero1 zero2 Hzero top1 top2 Htop
                      labels labels (list_nat_R_refl labels) nu nu (nat_R_refl nu)
                      w1 w2 (fun2_R R w1 w2 Hw)).
  Qed.

  (* [top] is not used by predict: only [ltb] and [zero] *)
  Theorem param_predict_one nd1 nd2 d1 d2 :
    nodes_rel R nd1 nd2 -> (forall k, R (d1 k) (d2 k)) ->
    predict_one ltb1 zero1 nd1 d1 = predict_one ltb2 zero2 nd2 d2.
  Proof.
    intros Hnd Hd. destruct (nodes_rel_R R _ _ Hnd) as [HR].
    apply (prod_R_eq nat_R (option_R nat nat nat_R) nat_R_eq optnat_R_eq).
    apply (predict_one_R W1 W2 R ltb1 ltb2 ltb_R zero1 zero2 Hzero nd1 nd2 HR
                         d1 d2 (fun1_R R d1 d2 Hd)).
  Qed.

  Theorem param_predict_batch nd1 nd2 ds1 ds2 :
    nodes_rel R nd1 nd2 -> dists_rel R ds1 ds2 ->
    nodes_rel R (fst (predict_batch ltb1 zero1 nd1 ds1)) (fst (predict_batch ltb2 zero2 nd2 ds2)) /\
    snd (predict_batch ltb1 zero1 nd1 ds1) = snd (predict_batch ltb2 zero2 nd2 ds2).
  Proof.
    intros Hnd Hds. destruct (nodes_rel_R R _ _ Hnd) as [HR]. destruct (dists_rel_R R _ _ Hds) as [HD].
    pose proof (predict_batch_R W1 W2 R ltb1 ltb2 ltb_R zero1 zero2 Hzero nd1 nd2 HR ds1 ds2 HD) as H.
    destruct H as [a a' Ha b b' Hb]. cbn [fst snd]. split.
    - now apply nodes_R_rel.
    - now apply list_nat_R_eq.
  Qed.
End Abstraction.
