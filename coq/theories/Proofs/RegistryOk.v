(* C06, registry half: the identifiers accepted by the models (the literal whitelist in
   OPF.distance's setter) and the keys of DISTANCES are the same set; every key is bound to the
   function `<key>_distance`, which is defined in distance.py; and the constructor plumbing facts
   extracted by the translator hold.  Everything is decided by computation on the generated
   tables (Gen/Registry_gen.v, Gen/Metrics_gen.v) and lifted to the readable statement. *)
From Coq Require Import String List Bool Arith Permutation Lia.
From OPF Require Import Model.MetricIR Gen.Metrics_gen Gen.Registry_gen Model.MetricEval.
Import ListNotations.
Open Scope string_scope.

Definition str_mem (s : string) (l : list string) : bool := existsb (String.eqb s) l.

Fixpoint nodupb (l : list string) : bool :=
  match l with
  | [] => true
  | a :: r => negb (str_mem a r) && nodupb r
  end.

Lemma str_mem_In s l : str_mem s l = true <-> In s l.
Proof.
  unfold str_mem. rewrite existsb_exists. split.
  - intros [z [Hin Heq]]. apply String.eqb_eq in Heq. now subst.
  - intros Hin. exists s. split; auto. apply String.eqb_refl.
Qed.

Lemma nodupb_NoDup l : nodupb l = true -> NoDup l.
Proof.
  induction l as [|a r IH]; cbn [nodupb]; intros H; constructor.
  - apply andb_prop in H. destruct H as [H _]. intros Hin. apply str_mem_In in Hin.
    rewrite Hin in H. discriminate.
  - apply IH. apply andb_prop in H. tauto.
Qed.

Definition keys : list string := map fst registry.

Definition entry_ok (kf : string * string) : bool :=
  String.eqb (snd kf) (fst kf ++ "_distance")
  && match lookup_ir (snd kf) all_metrics_ir with
     | Some m => String.eqb (m_name m) (snd kf)
     | None => false
     end.

Definition registry_check : bool :=
  Nat.eqb (length registry) 47 && nodupb keys && nodupb whitelist
  && forallb (fun k => str_mem k whitelist) keys
  && forallb (fun k => str_mem k keys) whitelist
  && forallb entry_ok registry.

Lemma registry_check_true : registry_check = true.
Proof. vm_compute. reflexivity. Qed.

Theorem registry_eq_whitelist :
  Permutation (map fst registry) whitelist
  /\ NoDup whitelist
  /\ length registry = 47%nat
  /\ (forall k f, In (k, f) registry ->
        f = k ++ "_distance"
        /\ exists m, lookup_ir f all_metrics_ir = Some m /\ m_name m = f).
Proof.
  pose proof registry_check_true as H. unfold registry_check in H.
  apply andb_prop in H; destruct H as [H Hent].
  apply andb_prop in H; destruct H as [H Hwk].
  apply andb_prop in H; destruct H as [H Hkw].
  apply andb_prop in H; destruct H as [H Hnw].
  apply andb_prop in H; destruct H as [Hlen Hnk].
  apply nodupb_NoDup in Hnk. apply nodupb_NoDup in Hnw.
  rewrite forallb_forall in Hkw, Hwk, Hent.
  split; [|split; [exact Hnw|split; [now apply Nat.eqb_eq|]]].
  - apply NoDup_Permutation; auto. intros s; split; intros Hin.
    + apply str_mem_In. now apply Hkw.
    + apply str_mem_In. now apply Hwk.
  - intros k f Hin. specialize (Hent _ Hin). unfold entry_ok in Hent. cbn [fst snd] in Hent.
    apply andb_prop in Hent. destruct Hent as [Hname Hlook]. apply String.eqb_eq in Hname.
    split; [exact Hname|].
    destruct (lookup_ir f all_metrics_ir) as [m|]; [|discriminate].
    exists m. split; [reflexivity|]. now apply String.eqb_eq.
Qed.

(* an identifier passes the setter's membership test exactly when DISTANCES has it *)
Theorem accepted_iff_registered k : In k whitelist <-> In k (map fst registry).
Proof.
  destruct registry_eq_whitelist as [P _]. split; intros H.
  - eapply Permutation_in; [apply Permutation_sym; exact P|exact H].
  - eapply Permutation_in; [exact P|exact H].
Qed.

Theorem lookup_plumbing :
  init_lookup_ok = true
  /\ map fst ctor_forwards = ["KNNSupervisedOPF"; "SemiSupervisedOPF"; "SupervisedOPF"; "UnsupervisedOPF"]
  /\ Forall (fun cb => snd cb = true) ctor_forwards.
Proof.
  split; [vm_compute; reflexivity|]. split; [vm_compute; reflexivity|].
  apply Forall_forall. intros cb Hin.
  assert (E : forallb (fun cb : string * bool => snd cb) ctor_forwards = true) by (vm_compute; reflexivity).
  rewrite forallb_forall in E. now apply E.
Qed.
