(* Assumption audit of the end-to-end KNN pipeline theorems.  The polymorphic ingredients must print
   "Closed under the global context"; the theorems over R may depend only on the axioms of the
   standard-library real numbers (ClassicalDedekindReals.sig_forall_dec,
   FunctionalExtensionality.functional_extensionality_dep). *)
From OPF Require Import Proofs.KnnPipelineArcs Proofs.KnnPipeline Proofs.KnnPipelineMain
  Proofs.KnnPipelineExample Props.C13_pipeline.

Print Assumptions create_arcs_gdens_indep.
Print Assumptions create_arcs_kept.
Print Assumptions C13_Rltb_strict_total_order.
Print Assumptions C13_knn_sup_final_forest.
Print Assumptions C13_unsup_final_forest.
Print Assumptions C13_pipeline_example_premises.
Print Assumptions C13_pipeline_example_sup.
Print Assumptions C13_pipeline_example_unsup.
