(* C10, glue part: the hypothesis [feat a = data (idx a)] of the C10 theorems (WeightsExt*.v)
   holds for subgraphs built from the outputs of [split_with_index] together with their index
   arrays, for every node of the training AND of the test/query subgraph; without an index
   array it is a condition on the layout of the pre-computed file. *)
From Coq Require Import List Arith Lia Permutation.
From OPF Require Import Base.Lists Model.Stream Model.Build Model.Heap Model.Sup Model.Knn
     Proofs.WeightsExt Proofs.WeightsExtBounded.
Import ListNotations.

(* ---------- combine against an index column ---------- *)

Lemma combine_gather_in {Row} (d : Row) (data : list Row) (I : list nat) k r :
  In (k, r) (combine I (gather d data I)) <-> In k I /\ r = nth k data d.
Proof.
  unfold gather. induction I as [|i I IH]; cbn [map combine In].
  - tauto.
  - rewrite IH. split.
    + intros [E | [Hk Hr]]; [injection E as <- <-; auto | auto].
    + intros [[<- | Hk] Hr]; [left; now subst r | right; auto].
Qed.

Lemma combine_seq_in {Row} (d : Row) (X : list Row) : forall s k r,
  In (k, r) (combine (seq s (length X)) X) <-> exists i, i < length X /\ k = s + i /\ r = nth i X d.
Proof.
  induction X as [|x X IH]; intros s k r; cbn [length seq combine In nth].
  - split; [tauto | intros (i & Hi & _); lia].
  - rewrite IH. split.
    + intros [E | (i & Hi & Hk & Hr)].
      * injection E as <- <-. exists 0. repeat split; [lia | lia].
      * exists (S i). repeat split; [lia | lia | exact Hr].
    + intros (i & Hi & Hk & Hr). destruct i as [|i].
      * left. subst k r. now rewrite Nat.add_0_r.
      * right. exists i. repeat split; [lia | lia | exact Hr].
Qed.

(* ---------- Subgraph._build ---------- *)

Lemma build_some_length {Row} (X : list Row) I : length I = length X -> length (build X (Some I)) = length X.
Proof. intros H. unfold build, index_column. rewrite combine_length, H. apply Nat.min_id. Qed.

Lemma build_none_length {Row} (X : list Row) : length (build X None) = length X.
Proof. unfold build, index_column. rewrite combine_length, seq_length. apply Nat.min_id. Qed.

Lemma build_gather_length {Row} (d : Row) data I : length (build (gather d data I) (Some I)) = length I.
Proof. rewrite build_some_length; unfold gather; now rewrite map_length. Qed.

(* with an index array: every node carries the row of [data] its [idx] names, and [idx] is a
   valid row of the distance file.  (The equation alone needs no bound on [I].) *)
Theorem build_agrees_with_data {Row} (d : Row) (data X : list Row) (I : list nat) :
  X = gather d data I -> Forall (fun i => i < length data) I ->
  forall a, In a (build X (Some I)) -> fst a < length data /\ snd a = nth (fst a) data d.
Proof.
  intros -> HI [k r] Ha. unfold build, index_column in Ha.
  apply combine_gather_in in Ha. destruct Ha as [Hk Hr]. cbn [fst snd]. split; [|exact Hr].
  rewrite Forall_forall in HI. now apply HI.
Qed.

Corollary build_gather_agrees {Row} (d : Row) (data : list Row) (I : list nat) :
  forall a, In a (build (gather d data I) (Some I)) -> snd a = nth (fst a) data d.
Proof.
  intros [k r] Ha. unfold build, index_column in Ha. apply combine_gather_in in Ha. now cbn.
Qed.

(* without an index array node [i] gets [idx = i]: the file must be laid out as [X] itself *)
Theorem build_no_index_agrees {Row} (d : Row) (X : list Row) :
  forall a, In a (build X None) -> fst a < length X /\ snd a = nth (fst a) X d.
Proof.
  intros [k r] Ha. unfold build, index_column in Ha.
  apply (combine_seq_in d) in Ha. destruct Ha as (i & Hi & Hk & Hr). cbn [fst snd].
  cbn in Hk. subst k. auto.
Qed.

(* the whole node list, positionally *)
Lemma build_some_nodes {Row} (d : Row) data I :
  build (gather d data I) (Some I) = map (fun i => (i, nth i data d)) I.
Proof.
  unfold build, index_column, gather. induction I as [|i I IH]; cbn [map combine]; [reflexivity|].
  now rewrite IH.
Qed.

(* ---------- split_with_index ---------- *)

Lemma split_rows_is_split {Row B} (d : Row) (dY : B) perm h X Y :
  split_with_index_rows d perm h X =
  (let '(X1, X2, _, _, I1, I2) := split_with_index d dY perm h X Y in (X1, X2, I1, I2)).
Proof. reflexivity. Qed.

Lemma perm_entries_lt perm n : Permutation perm (seq 0 n) -> Forall (fun i => i < n) perm.
Proof.
  intros HP. apply Forall_forall. intros i Hi.
  apply (Permutation_in _ HP), in_seq in Hi. lia.
Qed.

Lemma Forall_firstn {A} (P : A -> Prop) h l : Forall P l -> Forall P (firstn h l).
Proof.
  intros H. apply Forall_forall. intros x Hx. rewrite Forall_forall in H. apply H.
  rewrite <- (firstn_skipn h l). apply in_or_app. now left.
Qed.

Lemma Forall_skipn {A} (P : A -> Prop) h l : Forall P l -> Forall P (skipn h l).
Proof.
  intros H. apply Forall_forall. intros x Hx. rewrite Forall_forall in H. apply H.
  rewrite <- (firstn_skipn h l). apply in_or_app. now right.
Qed.

(* both subgraphs built from the outputs of split_with_index satisfy the C10 hypothesis *)
Theorem split_build_agrees {Row} (d : Row) (data : list Row) (perm : list nat) (h : nat) :
  Permutation perm (seq 0 (length data)) ->
  let '(X1, X2, I1, I2) := split_with_index_rows d perm h data in
  (forall a, In a (build X1 (Some I1)) -> fst a < length data /\ snd a = nth (fst a) data d) /\
  (forall a, In a (build X2 (Some I2)) -> fst a < length data /\ snd a = nth (fst a) data d).
Proof.
  intros HP. unfold split_with_index_rows. pose proof (perm_entries_lt _ _ HP) as HF. split.
  - apply (build_agrees_with_data d data); [reflexivity | now apply Forall_firstn].
  - apply (build_agrees_with_data d data); [reflexivity | now apply Forall_skipn].
Qed.

(* ---------- SemiSupervisedOPF.fit ---------- *)

Theorem semi_build_agrees {Row} (d : Row) (data Xl Xu : list Row) (Il Iu : list nat) :
  Xl = gather d data Il -> Xu = gather d data Iu ->
  forall a, In a (semi_build Xl (Some Il) Xu (Some Iu)) -> snd a = nth (fst a) data d.
Proof.
  intros -> -> a Ha. unfold semi_build in Ha. apply in_app_or in Ha. destruct Ha as [Ha | Ha].
  - now apply build_gather_agrees in Ha.
  - unfold unlabeled_nodes, index_column in Ha. destruct a as [k r].
    apply combine_gather_in in Ha. now cbn.
Qed.

(* no index array for the unlabeled samples (finding F8): unlabeled node [i] gets
   [idx = length Xl + i], and the C10 hypothesis on the unlabeled nodes is exactly the layout
   condition "row [length Xl + i] of the file's dataset is unlabeled sample [i]" *)
Theorem unlabeled_default_layout_iff {Row} (d : Row) (data Xu : list Row) (nl : nat) :
  (forall a, In a (unlabeled_nodes nl Xu None) -> snd a = nth (fst a) data d) <->
  (forall i, i < length Xu -> nth (nl + i) data d = nth i Xu d).
Proof.
  unfold unlabeled_nodes, index_column. split.
  - intros H i Hi. specialize (H (nl + i, nth i Xu d)). cbn [fst snd] in H. symmetry. apply H.
    apply (combine_seq_in d). exists i. auto.
  - intros H [k r] Ha. apply (combine_seq_in d) in Ha. destruct Ha as (i & Hi & -> & ->).
    cbn [fst snd]. symmetry. now apply H.
Qed.

(* the labeled part may come with or without an index array: its own hypothesis is [Hl] *)
Theorem semi_build_default_layout {Row} (d : Row) (data Xl Xu : list Row) (Il : option (list nat)) :
  (forall a, In a (build Xl Il) -> snd a = nth (fst a) data d) ->
  (forall i, i < length Xu -> nth (length Xl + i) data d = nth i Xu d) ->
  forall a, In a (semi_build Xl Il Xu None) -> snd a = nth (fst a) data d.
Proof.
  intros Hl Hu a Ha. unfold semi_build in Ha. apply in_app_or in Ha. destruct Ha as [Ha | Ha].
  - now apply Hl.
  - revert a Ha. now apply unlabeled_default_layout_iff.
Qed.

Corollary semi_build_default_layout_indexed {Row} (d : Row) (data Xl Xu : list Row) (Il : list nat) :
  Xl = gather d data Il ->
  (forall i, i < length Xu -> nth (length Xl + i) data d = nth i Xu d) ->
  forall a, In a (semi_build Xl (Some Il) Xu None) -> snd a = nth (fst a) data d.
Proof.
  intros -> Hu. apply semi_build_default_layout; [|exact Hu]. apply build_gather_agrees.
Qed.

(* neither index array: the file must have been computed from [Xl ++ Xu] *)
Corollary semi_build_no_index {Row} (d : Row) (Xl Xu : list Row) :
  forall a, In a (semi_build Xl None Xu None) -> snd a = nth (fst a) (Xl ++ Xu) d.
Proof.
  apply semi_build_default_layout.
  - intros a Ha. apply (build_no_index_agrees d) in Ha. destruct Ha as [Hlt ->].
    now rewrite app_nth1.
  - intros i Hi. rewrite app_nth2 by lia. f_equal. lia.
Qed.

(* ---------- adapters: node lists -> the functions [idx], [feat] of the C10 theorems ---------- *)

Lemma node_idx_nth {Row} (d : Row) nodes a : node_idx nodes a = fst (nth a nodes (0, d)).
Proof. unfold node_idx. change 0 with (fst (0, d)) at 1. apply map_nth. Qed.

Lemma node_feat_nth {Row} (d : Row) nodes a : node_feat d nodes a = snd (nth a nodes (0, d)).
Proof. unfold node_feat. change d with (snd (0, d)) at 1. apply map_nth. Qed.

Lemma nodes_agree_nth {Row} (d : Row) (dataf : nat -> Row) (nodes : list (nat * Row)) :
  (forall a, In a nodes -> snd a = dataf (fst a)) ->
  forall a, a < length nodes -> node_feat d nodes a = dataf (node_idx nodes a).
Proof.
  intros H a Ha. rewrite (node_idx_nth d), node_feat_nth. apply H. now apply nth_In.
Qed.

(* ---------- composition with C10 ---------- *)

Section Compose.
  Context {F W : Type} (ltb : W -> W -> bool) (zero top : W) (dist : F -> F -> W) (dF : F).

  (* Any training / query node lists satisfying the membership form of the hypothesis. *)
  Theorem C10_supervised_nodes (data : list F) (train test : list (nat * F)) (labels : list nat) :
    (forall a, In a train -> snd a = nth (fst a) data dF) ->
    (forall a, In a test -> snd a = nth (fst a) data dF) ->
    length labels = length train -> 0 < length train ->
    let D := pre_compute dist (fun i => nth i data dF) in
    let idx := node_idx train in let feat := node_feat dF train in
    let idxq := node_idx test in let featq := node_feat dF test in
    sup_fit ltb zero top labels (w_pre D idx) = sup_fit ltb zero top labels (w_dir dist feat) /\
    predict_batch ltb zero (sup_fit ltb zero top labels (w_pre D idx))
                  (map (d_pre_tq D idx idxq) (seq 0 (length test)))
    = predict_batch ltb zero (sup_fit ltb zero top labels (w_dir dist feat))
                    (map (d_dir_tq dist feat featq) (seq 0 (length test))).
  Proof.
    intros Htr Hte Hl Hn. cbv zeta.
    apply (C10_supervised_bounded ltb zero top dist (fun i => nth i data dF)
                                  (length train) (length test)); auto.
    - now apply (nodes_agree_nth dF (fun i => nth i data dF)).
    - now apply (nodes_agree_nth dF (fun i => nth i data dF)).
  Qed.

  (* semi-supervised: [nodes] = labeled nodes followed by [nu] unlabeled ones ([semi_build]) *)
  Theorem C10_semi_nodes (data : list F) (nodes test : list (nat * F)) (labels : list nat) (nu : nat) :
    (forall a, In a nodes -> snd a = nth (fst a) data dF) ->
    (forall a, In a test -> snd a = nth (fst a) data dF) ->
    length labels + nu = length nodes -> 0 < length nodes ->
    let D := pre_compute dist (fun i => nth i data dF) in
    let idx := node_idx nodes in let feat := node_feat dF nodes in
    let idxq := node_idx test in let featq := node_feat dF test in
    semi_fit ltb zero top labels nu (w_pre D idx) = semi_fit ltb zero top labels nu (w_dir dist feat) /\
    predict_batch ltb zero (semi_fit ltb zero top labels nu (w_pre D idx))
                  (map (d_pre_tq D idx idxq) (seq 0 (length test)))
    = predict_batch ltb zero (semi_fit ltb zero top labels nu (w_dir dist feat))
                    (map (d_dir_tq dist feat featq) (seq 0 (length test))).
  Proof.
    intros Htr Hte Hl Hn. cbv zeta.
    apply (C10_semi_bounded ltb zero top dist (fun i => nth i data dF)
                            (length nodes) (length test)); auto.
    - now apply (nodes_agree_nth dF (fun i => nth i data dF)).
    - now apply (nodes_agree_nth dF (fun i => nth i data dF)).
  Qed.

  (* KNN subgraph (unsupervised / KNN-supervised fit): create_arcs over the built nodes *)
  Theorem C10_knn_arcs_nodes (data : list F) (nodes : list (nat * F)) thr one k (g : @knn W) :
    (forall a, In a nodes -> snd a = nth (fst a) data dF) ->
    let D := pre_compute dist (fun i => nth i data dF) in
    create_arcs ltb zero top thr one k (length nodes) (w_pre D (node_idx nodes)) g
    = create_arcs ltb zero top thr one k (length nodes) (w_dir dist (node_feat dF nodes)) g.
  Proof.
    intros H. cbv zeta.
    apply (C10_knn_arcs_bounded ltb zero top dist (fun i => nth i data dF) (length nodes)).
    now apply (nodes_agree_nth dF (fun i => nth i data dF)).
  Qed.

  (* Train on the first part, predict the second part of split_with_index, through the file
     pre-computed on the whole [data].  Only [0 < h] and [perm <> []] are used, not that [perm]
     is a permutation. *)
  Theorem C10_supervised_split_gen (data : list F) (Y : list nat) (perm : list nat) (h : nat) :
    0 < h -> 0 < length perm ->
    let '(X1, X2, Y1, Y2, I1, I2) := split_with_index dF 0 perm h data Y in
    let train := build X1 (Some I1) in
    let test := build X2 (Some I2) in
    let D := pre_compute dist (fun i => nth i data dF) in
    let idx := node_idx train in let feat := node_feat dF train in
    let idxq := node_idx test in let featq := node_feat dF test in
    sup_fit ltb zero top Y1 (w_pre D idx) = sup_fit ltb zero top Y1 (w_dir dist feat) /\
    predict_batch ltb zero (sup_fit ltb zero top Y1 (w_pre D idx))
                  (map (d_pre_tq D idx idxq) (seq 0 (length test)))
    = predict_batch ltb zero (sup_fit ltb zero top Y1 (w_dir dist feat))
                    (map (d_dir_tq dist feat featq) (seq 0 (length test))).
  Proof.
    intros Hh Hp. unfold split_with_index.
    apply C10_supervised_nodes.
    - apply build_gather_agrees.
    - apply build_gather_agrees.
    - rewrite build_gather_length. unfold gather. now rewrite map_length.
    - rewrite build_gather_length, firstn_length. lia.
  Qed.

  Theorem C10_supervised_split (data : list F) (Y : list nat) (perm : list nat) (h : nat) :
    Permutation perm (seq 0 (length data)) -> length Y = length data -> 0 < h <= length data ->
    let '(X1, X2, Y1, Y2, I1, I2) := split_with_index dF 0 perm h data Y in
    let train := build X1 (Some I1) in
    let test := build X2 (Some I2) in
    let D := pre_compute dist (fun i => nth i data dF) in
    let idx := node_idx train in let feat := node_feat dF train in
    let idxq := node_idx test in let featq := node_feat dF test in
    (length train = h /\ length test = length data - h) /\
    sup_fit ltb zero top Y1 (w_pre D idx) = sup_fit ltb zero top Y1 (w_dir dist feat) /\
    predict_batch ltb zero (sup_fit ltb zero top Y1 (w_pre D idx))
                  (map (d_pre_tq D idx idxq) (seq 0 (length test)))
    = predict_batch ltb zero (sup_fit ltb zero top Y1 (w_dir dist feat))
                    (map (d_dir_tq dist feat featq) (seq 0 (length test))).
  Proof.
    intros HP HY [Hh Hle].
    assert (Hlen : length perm = length data)
      by (rewrite (Permutation_length HP); apply seq_length).
    pose proof (C10_supervised_split_gen data Y perm h Hh ltac:(lia)) as G.
    unfold split_with_index in *. split; [|exact G].
    rewrite !build_gather_length, firstn_length, skipn_length. lia.
  Qed.
End Compose.
