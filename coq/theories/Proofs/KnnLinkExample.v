(* Non-vacuity for Props/C14_link.v and for the [_exp_closed] corollaries of Props/C14_pipeline.v.

   1. PrimFloat: a batch of two queries against three training nodes in the harness's case format,
      with a repeated distance, a distance EQUAL to FLOAT_MAX and (second instance) k larger than the
      number of training nodes, so that sentinel slots survive the scan.  The table hypotheses hold for
      E := the function the batch's own table denotes ([lookup_E]), both sides are evaluated.
   2. Reals: the three rational training samples of KnnPipelineExample.v / KnnPredictPipelineExample.v:
      - the constant recorded by training is positive and the [_exp_closed] theorems apply with the
        real E x = exp(-x/c);
      - the validation predictions of the whole-fit model (KnnLearn.predict_batch at ROps) on the fitted
        graph are the labels of knn_query's answers. *)
From Coq Require Import Reals List Arith Bool ZArith Lia Lra Permutation PrimFloat.
From OPF Require Import Base.Lists Base.NumOps Base.TotalOrder Model.Heap Model.Knn Model.Pdf Model.KnnFit
  Model.KnnPredict Model.KnnLearn Model.Run Model.RunKnn Model.KnnLink
  Proofs.PdfBase Proofs.KnnPipeline Proofs.KnnPipelineMain Proofs.KnnPipelineExample
  Proofs.KnnPredictPipeline Proofs.KnnPredictPipelineMain Proofs.KnnPredictPipelineExample
  Proofs.KnnPipelineConstant Proofs.KnnLink Proofs.KnnLinkReal.
Import ListNotations.
Local Open Scope nat_scope.

(* ------------------------------------------------------------------ *)
(* 1. PrimFloat                                                        *)
(* ------------------------------------------------------------------ *)

Definition fl_cost : list float := [3.5; 2.5; 7.5]%float.
Definition fl_eps : float := 0x1p-60%float.
Definition fl_mn : float := 0.125%float.
Definition fl_mx : float := 0.75%float.
(* (distances, exp terms) per query; 0.5 |-> 0.5, 0.25 |-> 0.75, 1.5 |-> 0.125; the second query is at
   distance FLOAT_MAX from node 1 *)
Definition fl_qs : list (list float * list float) :=
  [([0.5; 0.25; 1.5], [0.5; 0.75; 0.125]); ([1.5; fmaxF; 0.25], [0.125; 0; 0.75])]%float.
Definition fl_g : @knn float :=
  mkKnn [0; 1; 0] [] [] [] [] fl_cost [] [] [0; 1; 0] [] [] 0%float 0.

Lemma fl_table_ok :
  forall q, In q fl_qs -> forall j, j < 3 ->
    PrimFloat.eqb (nth j (fst q) 0%float) fmaxF = false ->
    lookup_E (batch_table fl_qs) (nth j (fst q) 0%float) = nth j (snd q) 0%float.
Proof.
  intros q [<-|[<-|[]]] j Hj; destruct j as [|[|[|j]]]; try lia; intros H;
    try (vm_compute; reflexivity); vm_compute in H; discriminate H.
Qed.

Example fl_premises :
  length (k_label fl_g) = zn 3 /\ k_cost fl_g = fl_cost /\
  (forall x, PrimFloat.eqb x fmaxF = true -> lookup_E (batch_table fl_qs) x = 0%float) /\
  (forall q, In q fl_qs -> forall j, j < zn 3 ->
     PrimFloat.eqb (nth j (fst q) 0%float) fmaxF = false ->
     lookup_E (batch_table fl_qs) (nth j (fst q) 0%float) = nth j (snd q) 0%float).
Proof.
  split; [reflexivity|]. split; [reflexivity|]. split; [apply lookup_E_sentinel | exact fl_table_ok].
Qed.

(* k = 2 <= n = 3 *)
Example fl_link_k2 :
  run_knn_predict_batch 2 3 fl_eps fl_mn fl_mx fl_cost fl_qs
  = map sel_code (knn_query_batch FOps fmaxF fl_eps 1000 (lookup_E (batch_table fl_qs))
                                  (fl_g, (0%float, fl_mn, fl_mx)) 2 (map fq_dist fl_qs)) /\
  run_knn_predict_batch 2 3 fl_eps fl_mn fl_mx fl_cost fl_qs = [0; 2]%Z /\
  predict_batch FOps fmaxF fl_eps 1000 fl_g 2 3 fl_mn fl_mx (map fq_fun fl_qs) = [0; 0].
Proof.
  split; [|split; vm_compute; reflexivity].
  exact (run_batch_query_lookup 2 3 fl_eps fl_mn fl_mx fl_g 0%float fl_qs eq_refl fl_table_ok).
Qed.

(* k = 4 > n = 3: slot 3 still holds FLOAT_MAX after every scan (and the slot of node 1 in the second
   query holds a distance equal to it) *)
Example fl_link_k4 :
  run_knn_predict_batch 4 3 fl_eps fl_mn fl_mx fl_cost fl_qs
  = map sel_code (knn_query_batch FOps fmaxF fl_eps 1000 (lookup_E (batch_table fl_qs))
                                  (fl_g, (0%float, fl_mn, fl_mx)) 4 (map fq_dist fl_qs)) /\
  run_knn_predict_batch 4 3 fl_eps fl_mn fl_mx fl_cost fl_qs = [2; 2]%Z.
Proof.
  split; [|vm_compute; reflexivity].
  exact (run_batch_query_lookup 4 3 fl_eps fl_mn fl_mx fl_g 0%float fl_qs eq_refl fl_table_ok).
Qed.

(* single query entry point *)
Example fl_link_one :
  run_knn_predict 2 3 (-1) fl_eps fl_mn fl_mx [0.5; 0.25; 1.5]%float [0.5; 0.75; 0.125]%float fl_cost
  = sel_code (knn_query FOps fmaxF fl_eps 1000 (lookup_E (batch_table fl_qs)) (fl_g, (0%float, fl_mn, fl_mx)) 2
                        (fun j => nth j [0.5; 0.25; 1.5]%float 0%float)) /\
  run_knn_predict 2 3 (-1) fl_eps fl_mn fl_mx [0.5; 0.25; 1.5]%float [0.5; 0.75; 0.125]%float fl_cost = 0%Z.
Proof.
  split; [|vm_compute; reflexivity].
  apply (run_one_query (lookup_E (batch_table fl_qs)) 2 3 (-1) fl_eps fl_mn fl_mx fl_g 0%float);
    [reflexivity | reflexivity | apply lookup_E_sentinel |].
  exact (fl_table_ok _ (or_introl eq_refl)).
Qed.

(* ------------------------------------------------------------------ *)
(* 2. Reals                                                            *)
(* ------------------------------------------------------------------ *)

Local Open Scope R_scope.

Lemma exl_thr_one : 0 < 1 / 100000 /\ 0 < 1.
Proof. split; lra. Qed.

(* KNNSupervisedOPF: the constant is positive, E x = exp(-x/c) is admissible, the closed theorem applies *)
Example exl_sup_exp_closed :
  exists (g' : @knn R) (c mn mx : R),
    knn_sup_final ROps exq_fmax (1/100000) 1 1000 1 exr_labels 0 exr_d exr_e = (g', (c, mn, mx)) /\
    let E := fun x => exp (- x / c) in
    let answer := knn_query ROps exq_fmax exq_eps 1000 E (g', (c, mn, mx)) 1 exq_dq in
    0 < c /\ (exists gd, c = 2 * gd / 9 /\ (gd = 1 \/ 1 / 100000 <= gd)) /\
    query_rule_R exq_fmax exq_eps 1 3 E mn mx g' exq_dq answer /\
    answer = Some 0%nat /\ label_of g' answer = 0%nat.
Proof.
  destruct exq_premises as (Q1 & Q2 & Q3 & Q4 & Q5 & Q6 & Q7 & Q8 & Q9 & Q10 & _).
  destruct exl_thr_one as [Ht Ho].
  destruct (knn_sup_final ROps exq_fmax (1/100000) 1 1000 1 exr_labels 0 exr_d exr_e)
    as [g' [[c mn] mx]] eqn:H.
  exists g', c, mn, mx. split; [reflexivity|]. cbv zeta.
  destruct (knn_sup_query_rule_exp_closed exq_fmax (1/100000) 1 0 exq_eps 1 exr_labels exr_d exr_e
              Q1 ltac:(cbn; lia) Q4 Ht Ho Q5 Q6 Q7 Q8 g' c mn mx H exq_dq Q10)
    as (Hc & _ & R1 & s & Es & Hs & Ls).
  change (length exr_labels) with 3%nat in R1, Hs.
  split; [exact Hc|].
  split; [exact (knn_sup_final_constant_value exq_fmax (1/100000) 1 0 1000 1 exr_labels exr_d exr_e g' c mn mx H)|].
  assert (Ea : knn_query ROps exq_fmax exq_eps 1000 (fun x => exp (- x / c)) (g', (c, mn, mx)) 1 exq_dq
               = Some 0%nat).
  { pose proof R1 as R1'. unfold query_rule_R in R1'. cbv zeta in R1'.
    destruct R1' as (KN & _ & _ & r & Hr & Ea & _).
    rewrite (k_nearest_unique _ _ _ _ _ KN exq_nearest) in Ea.
    assert (r = 0%nat) by lia. subst r. exact Ea. }
  split; [exact R1|]. split; [exact Ea|].
  rewrite Es in Ea. injection Ea as ->. rewrite Ls. reflexivity.
Qed.

Example exl_unsup_exp_closed :
  exists (g' : @knn R) (c mn mx : R),
    unsup_final ROps exq_fmax (1/100000) 1 1000 1 exr_labels 0 exr_d exr_e = (g', (c, mn, mx)) /\
    let E := fun x => exp (- x / c) in
    let answer := knn_query ROps exq_fmax exq_eps 1000 E (g', (c, mn, mx)) 1 exq_dq in
    0 < c /\ (exists gd, c = 2 * gd / 9 /\ (gd = 1 \/ 1 / 100000 <= gd)) /\
    query_rule_R exq_fmax exq_eps 1 3 E mn mx g' exq_dq answer /\
    answer = Some 0%nat /\
    knn_query ROps exq_fmax exq_eps 1000 E (with_propagated_labels (g', (c, mn, mx))) 1 exq_dq = answer.
Proof.
  destruct exq_premises as (Q1 & Q2 & Q3 & Q4 & Q5 & Q6 & Q7 & Q8 & Q9 & Q10 & _).
  destruct exl_thr_one as [Ht Ho].
  destruct (unsup_final ROps exq_fmax (1/100000) 1 1000 1 exr_labels 0 exr_d exr_e)
    as [g' [[c mn] mx]] eqn:H.
  exists g', c, mn, mx. split; [reflexivity|]. cbv zeta.
  destruct (unsup_query_rule_exp_closed exq_fmax (1/100000) 1 0 exq_eps 1 exr_labels exr_d exr_e
              Q1 ltac:(cbn; lia) Q4 Ht Ho Q5 Q6 Q7 Q8 g' c mn mx Q3 H exq_dq Q10)
    as (Hc & _ & R1 & R2 & _).
  change (length exr_labels) with 3%nat in R1.
  split; [exact Hc|].
  split; [exact (unsup_final_constant_value exq_fmax (1/100000) 1 0 1000 1 exr_labels exr_d exr_e g' c mn mx H)|].
  assert (Ea : knn_query ROps exq_fmax exq_eps 1000 (fun x => exp (- x / c)) (g', (c, mn, mx)) 1 exq_dq
               = Some 0%nat).
  { pose proof R1 as R1'. unfold query_rule_R in R1'. cbv zeta in R1'.
    destruct R1' as (KN & _ & _ & r & Hr & Ea & _).
    rewrite (k_nearest_unique _ _ _ _ _ KN exq_nearest) in Ea.
    assert (r = 0%nat) by lia. subst r. exact Ea. }
  split; [exact R1|]. split; [exact Ea | exact R2].
Qed.

(* the validation prediction of the whole-fit model on the fitted graph: two validation rows (the query
   of KnnPredictPipelineExample.v and training row 1), tables = exq_E of the distances *)
Definition exl_dqs : list (nat -> R) := [exq_dq; exq_dq].
Definition exl_eqt (v j : nat) : R := exq_E (nth v exl_dqs exq_dq j).

Example exl_validation :
  exists (g' : @knn R) (c mn mx : R),
    knn_sup_final ROps exq_fmax (1/100000) 1 1000 1 exr_labels 0 exr_d exr_e = (g', (c, mn, mx)) /\
    (1 <= length (k_label g'))%nat /\
    (forall v j, (v < length exl_dqs)%nat -> (j < length (k_label g'))%nat ->
       nth v exl_dqs exq_dq j < exq_fmax /\ exl_eqt v j = exq_E (nth v exl_dqs exq_dq j)) /\
    predict_batch ROps exq_fmax exq_eps 1000 g' 1 (length (k_label g')) mn mx
                  (combine exl_dqs (map exl_eqt (seq 0 (length exl_dqs))))
    = [0%nat; 0%nat].
Proof.
  destruct exq_sup as (g' & c & mn & mx & H & T). cbv zeta in T. destruct T as (_ & Ea & La & _).
  destruct exq_premises as (_ & _ & _ & Q4 & Q5 & _ & _ & _ & _ & Q10 & _).
  exists g', c, mn, mx. split; [exact H|].
  assert (T1 : k_label g' = exr_labels).
  { exact (proj1 (knn_sup_final_forest exq_fmax (1/100000) 1 0 1 exr_labels exr_d exr_e
                    ltac:(lra) Q5 g' c mn mx H)). }
  rewrite T1. change (length exr_labels) with 3%nat.
  assert (P : forall v j, (v < length exl_dqs)%nat -> (j < 3)%nat ->
            nth v exl_dqs exq_dq j < exq_fmax /\ exl_eqt v j = exq_E (nth v exl_dqs exq_dq j)).
  { intros v j Hv Hj. split; [|reflexivity].
    destruct v as [|[|v]]; cbn [exl_dqs nth length] in *; try lia; exact (proj2 (Q10 j Hj)). }
  split; [lia|]. split; [exact P|].
  pose proof (validation_predictions_R exq_fmax exq_eps exq_E g' c mn mx 1 exl_dqs exl_eqt exq_dq) as V.
  cbv zeta in V. rewrite T1 in V. change (length exr_labels) with 3%nat in V.
  rewrite (V ltac:(lia) P). cbn [exl_dqs map]. rewrite La. reflexivity.
Qed.
