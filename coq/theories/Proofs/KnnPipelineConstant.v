(* The constant recorded by training is positive.

   create_arcs ends with

       if self.density < 0.00001: self.density = 1

   so whatever the arcs are, the density bound it leaves is either [one] or a value >= [thr]
   ([create_arcs_gdens_floor], no assumption on the weights); calculate_pdf sets
   constant = 2 * density / 9 (Model/Pdf.v), hence 0 < constant as soon as 0 < thr and 0 < one.
   This discharges the hypothesis [0 < c] of KnnPredictPipelineMain.knn_sup_query_rule_exp /
   unsup_query_rule_exp: the function x |-> exp(-x / c) is then a legitimate [E] (values in (0, 1]
   on x >= 0) without any assumption about a training output. *)
From Coq Require Import Reals List Arith Bool ZArith Lia Lra Permutation.
From OPF Require Import Base.Lists Base.NumOps Base.TotalOrder Model.Heap Model.Knn Model.Pdf Model.KnnFit
  Model.KnnPredict Proofs.PdfBase Proofs.KnnPipeline Proofs.KnnPipelineMain
  Proofs.KnnPredictPipeline Proofs.KnnPredictPipelineMain.
Import ListNotations.
Local Open Scope R_scope.

(* ---------- any weight type: the bound left by create_arcs is [one] or not below [thr] ---------- *)

Lemma create_arcs_acc_gdens_cases {W : Type} (ltb : W -> W -> bool) (zero top thr one : W)
      (k n : nat) (w : nat -> nat -> W) (g : @knn W) :
  let g1 := fst (create_arcs_acc ltb zero top thr one k n w g) in
  k_gdens g1 = one \/ ltb (k_gdens g1) thr = false.
Proof.
  cbv zeta. unfold create_arcs_acc.
  destruct (fold_left (arcs_node ltb zero top k n w) (seq 0 n) (g, repeat zero k, repeat 0%nat (S k)))
    as [[g1 maxd] ns].
  cbn [fst k_gdens].
  destruct (ltb (k_gdens g1) thr) eqn:Hlt; [left; reflexivity | right; exact Hlt].
Qed.

Lemma create_arcs_gdens_cases {W : Type} (ltb : W -> W -> bool) (zero top thr one : W)
      (k n : nat) (w : nat -> nat -> W) (g : @knn W) :
  let g1 := fst (create_arcs ltb zero top thr one k n w g) in
  k_gdens g1 = one \/ ltb (k_gdens g1) thr = false.
Proof. exact (create_arcs_acc_gdens_cases ltb zero top thr one k n w (reset_gdens zero g)). Qed.

(* ---------- over the reals ---------- *)

Theorem create_arcs_gdens_floor (zero fmax thr one : R) (k n : nat) (w : nat -> nat -> R) (g : @knn R) :
  let g1 := fst (create_arcs Rltb zero fmax thr one k n w g) in
  k_gdens g1 = one \/ thr <= k_gdens g1.
Proof.
  cbv zeta. destruct (create_arcs_gdens_cases Rltb zero fmax thr one k n w g) as [H|H].
  - left. exact H.
  - right. apply Rltb_false_iff in H. lra.
Qed.

Theorem create_arcs_gdens_pos (zero fmax thr one : R) (k n : nat) (w : nat -> nat -> R) (g : @knn R) :
  0 < thr -> 0 < one -> 0 < k_gdens (fst (create_arcs Rltb zero fmax thr one k n w g)).
Proof.
  intros Ht Ho. destruct (create_arcs_gdens_floor zero fmax thr one k n w g) as [H|H].
  - rewrite H. exact Ho.
  - lra.
Qed.

Lemma pdf_constant_R (gd : R) : pdf_constant ROps gd = 2 * gd / 9.
Proof. reflexivity. Qed.

(* the constant returned by create_arcs; calculate_pdf from ANY starting subgraph *)
Theorem arcs_and_pdf_constant (fmax thr one : R) (maxd : Z) (k : nat) (d e : nat -> nat -> R)
        (g0 g2 : @knn R) (c mn mx : R) :
  arcs_and_pdf ROps fmax thr one maxd k d e g0 = (g2, (c, mn, mx)) ->
  c = 2 * k_gdens g2 / 9 /\ (k_gdens g2 = one \/ thr <= k_gdens g2).
Proof.
  unfold arcs_and_pdf. intros H.
  pose proof (create_arcs_gdens_floor (fzero ROps) fmax thr one k (length (k_label g0)) d g0) as Hfl.
  cbv zeta in Hfl.
  change (nltb ROps) with Rltb in H.
  destruct (create_arcs Rltb (fzero ROps) fmax thr one k (length (k_label g0)) d g0) as [g1 maxd'].
  cbn [fst] in Hfl.
  unfold calculate_pdf in H.
  destruct (pdf_minmax ROps fmax _) as [mn' mx'].
  injection H as Hg Hc Hmn Hmx. subst g2. cbn [k_gdens].
  split; [symmetry; exact Hc | exact Hfl].
Qed.

Theorem arcs_and_pdf_constant_pos (fmax thr one : R) (maxd : Z) (k : nat) (d e : nat -> nat -> R)
        (g0 g2 : @knn R) (c mn mx : R) :
  0 < thr -> 0 < one ->
  arcs_and_pdf ROps fmax thr one maxd k d e g0 = (g2, (c, mn, mx)) ->
  0 < c.
Proof.
  intros Ht Ho H. destruct (arcs_and_pdf_constant fmax thr one maxd k d e g0 g2 c mn mx H) as (-> & [E|E]).
  - rewrite E. lra.
  - lra.
Qed.

(* the two final training stages *)
Theorem knn_sup_final_constant_pos (fmax thr one gdens0 : R) (maxd : Z) (k : nat) (labels : list nat)
        (d e : nat -> nat -> R) (g' : @knn R) (c mn mx : R) :
  0 < thr -> 0 < one ->
  knn_sup_final ROps fmax thr one maxd k labels gdens0 d e = (g', (c, mn, mx)) ->
  0 < c.
Proof.
  intros Ht Ho. unfold knn_sup_final.
  destruct (arcs_and_pdf ROps fmax thr one maxd k d e (fit_start ROps labels gdens0)) as [g2 [[c' mn'] mx']] eqn:H.
  intros Hf. injection Hf as _ Hc _ _. subst c'.
  exact (arcs_and_pdf_constant_pos fmax thr one maxd k d e _ g2 c mn' mx' Ht Ho H).
Qed.

Theorem unsup_final_constant_pos (fmax thr one gdens0 : R) (maxd : Z) (k : nat) (labels : list nat)
        (d e : nat -> nat -> R) (g' : @knn R) (c mn mx : R) :
  0 < thr -> 0 < one ->
  unsup_final ROps fmax thr one maxd k labels gdens0 d e = (g', (c, mn, mx)) ->
  0 < c.
Proof.
  intros Ht Ho. unfold unsup_final.
  destruct (arcs_and_pdf ROps fmax thr one maxd k d e (fit_start ROps labels gdens0)) as [g2 [[c' mn'] mx']] eqn:H.
  intros Hf. injection Hf as _ Hc _ _. subst c'.
  exact (arcs_and_pdf_constant_pos fmax thr one maxd k d e _ g2 c mn' mx' Ht Ho H).
Qed.

(* the value: 2/9 of a density bound that is [one] or at least [thr] (and, being a radius, it is
   one of the distances unless it was replaced - not needed here) *)
Theorem knn_sup_final_constant_value (fmax thr one gdens0 : R) (maxd : Z) (k : nat) (labels : list nat)
        (d e : nat -> nat -> R) (g' : @knn R) (c mn mx : R) :
  knn_sup_final ROps fmax thr one maxd k labels gdens0 d e = (g', (c, mn, mx)) ->
  exists gd, c = 2 * gd / 9 /\ (gd = one \/ thr <= gd).
Proof.
  unfold knn_sup_final.
  destruct (arcs_and_pdf ROps fmax thr one maxd k d e (fit_start ROps labels gdens0)) as [g2 [[c' mn'] mx']] eqn:H.
  intros Hf. injection Hf as _ Hc _ _. subst c'.
  exists (k_gdens g2). exact (arcs_and_pdf_constant fmax thr one maxd k d e _ g2 c mn' mx' H).
Qed.

Theorem unsup_final_constant_value (fmax thr one gdens0 : R) (maxd : Z) (k : nat) (labels : list nat)
        (d e : nat -> nat -> R) (g' : @knn R) (c mn mx : R) :
  unsup_final ROps fmax thr one maxd k labels gdens0 d e = (g', (c, mn, mx)) ->
  exists gd, c = 2 * gd / 9 /\ (gd = one \/ thr <= gd).
Proof.
  unfold unsup_final.
  destruct (arcs_and_pdf ROps fmax thr one maxd k d e (fit_start ROps labels gdens0)) as [g2 [[c' mn'] mx']] eqn:H.
  intros Hf. injection Hf as _ Hc _ _. subst c'.
  exists (k_gdens g2). exact (arcs_and_pdf_constant fmax thr one maxd k d e _ g2 c mn' mx' H).
Qed.

(* ---------- the [_exp] corollaries without the hypothesis 0 < c ---------- *)

Theorem knn_sup_query_rule_exp_closed (fmax thr one gdens0 eps : R) (k : nat) (labels : list nat)
        (d e : nat -> nat -> R) :
  let n := length labels in
  (1 <= k)%nat -> (k <= n)%nat -> 1 <= fmax -> 0 < thr -> 0 < one ->
  (forall i j, (i < n)%nat -> (j < n)%nat -> i <> j -> 0 <= d i j < fmax) ->
  (forall i j, (i < n)%nat -> (j < n)%nat -> 0 <= e i j <= 1) ->
  0 < eps -> 999 <= eps * fmax ->
  forall (g' : @knn R) (c mn mx : R),
  knn_sup_final ROps fmax thr one 1000 k labels gdens0 d e = (g', (c, mn, mx)) ->
  forall dq : nat -> R, (forall j, (j < n)%nat -> 0 <= dq j < fmax) ->
  let E := fun x => exp (- x / c) in
  let answer := knn_query ROps fmax eps 1000 E (g', (c, mn, mx)) k dq in
  0 < c /\
  (forall x, 0 <= x -> 0 < E x <= 1) /\
  query_rule_R fmax eps k n E mn mx g' dq answer /\
  exists s, answer = Some s /\ (s < n)%nat /\ label_of g' answer = nth s labels 0%nat.
Proof.
  intros n Hk1 Hkn Hf1 Ht Ho Hd He Heps Hbig g' c mn mx Hfin dq Hdq.
  pose proof (knn_sup_final_constant_pos fmax thr one gdens0 1000 k labels d e g' c mn mx Ht Ho Hfin) as Hc.
  cbv zeta. split; [exact Hc|]. split.
  { intros x Hx. split; [apply exp_pos | exact (proj2 (exp_term_01 c Hc x Hx))]. }
  exact (knn_sup_query_rule_exp fmax thr one gdens0 eps k labels d e
           Hk1 Hkn Hf1 Hd He Heps Hbig g' c mn mx Hfin Hc dq Hdq).
Qed.

Theorem unsup_query_rule_exp_closed (fmax thr one gdens0 eps : R) (k : nat) (labels : list nat)
        (d e : nat -> nat -> R) :
  let n := length labels in
  (1 <= k)%nat -> (k <= n)%nat -> 1 <= fmax -> 0 < thr -> 0 < one ->
  (forall i j, (i < n)%nat -> (j < n)%nat -> i <> j -> 0 <= d i j < fmax) ->
  (forall i j, (i < n)%nat -> (j < n)%nat -> 0 <= e i j <= 1) ->
  0 < eps -> 999 <= eps * fmax ->
  forall (g' : @knn R) (c mn mx : R),
  (k <= n - 1)%nat ->
  unsup_final ROps fmax thr one 1000 k labels gdens0 d e = (g', (c, mn, mx)) ->
  forall dq : nat -> R, (forall j, (j < n)%nat -> 0 <= dq j < fmax) ->
  let E := fun x => exp (- x / c) in
  let answer := knn_query ROps fmax eps 1000 E (g', (c, mn, mx)) k dq in
  let g'' := propagate_labels g' in
  0 < c /\
  (forall x, 0 <= x -> 0 < E x <= 1) /\
  query_rule_R fmax eps k n E mn mx g' dq answer /\
  knn_query ROps fmax eps 1000 E (with_propagated_labels (g', (c, mn, mx))) k dq = answer /\
  exists s, answer = Some s /\ (s < n)%nat /\
    let r := nth s (k_root g') 0%nat in
    (r < n)%nat /\ nth r (k_pred g') None = None /\
    label_of g'' answer = nth r labels 0%nat /\
    cluster_of g'' answer = nth s (k_clabel g') 0%nat /\
    nth s (k_clabel g') 0%nat = nth r (k_clabel g') 0%nat /\
    (nth s (k_clabel g') 0%nat < k_nclusters g')%nat.
Proof.
  intros n Hk1 Hkn Hf1 Ht Ho Hd He Heps Hbig g' c mn mx Hk Hfin dq Hdq.
  pose proof (unsup_final_constant_pos fmax thr one gdens0 1000 k labels d e g' c mn mx Ht Ho Hfin) as Hc.
  cbv zeta. split; [exact Hc|]. split.
  { intros x Hx. split; [apply exp_pos | exact (proj2 (exp_term_01 c Hc x Hx))]. }
  exact (unsup_query_rule_exp fmax thr one gdens0 eps k labels d e
           Hk1 Hkn Hf1 Hd He Heps Hbig g' c mn mx Hk Hfin Hc dq Hdq).
Qed.
