(* C02, total-weight form: a rooted spanning tree all of whose tree paths are minimax paths
   has minimum total weight among all rooted spanning trees (integer weights).
   Proof by threshold counting: for every threshold t, the tree has no more arcs heavier
   than t than any other spanning tree (its light arcs already connect everything that
   light arcs can connect); summing over the thresholds gives the total weight. *)
From Coq Require Import List Arith Bool ZArith Lia Permutation.
From OPF Require Import Spec.Paths Spec.Trees Proofs.PrimLists Proofs.PrimGraph.
Import ListNotations.
Open Scope nat_scope.

(* ------------------------------------------------------------------ *)
(* finite sums                                                         *)

Lemma zsum_ext f g n : (forall q, q < n -> f q = g q) -> zsum f n = zsum g n.
Proof.
  induction n as [|n IH]; intros H; [reflexivity|]. cbn [zsum].
  rewrite IH by (intros q Hq; apply H; lia). rewrite (H n) by lia. reflexivity.
Qed.

Lemma zsum_le f g n : (forall q, q < n -> (f q <= g q)%Z) -> (zsum f n <= zsum g n)%Z.
Proof.
  induction n as [|n IH]; intros H; [cbn; lia|]. cbn [zsum].
  pose proof (IH ltac:(intros q Hq; apply H; lia)). pose proof (H n ltac:(lia)). lia.
Qed.

Lemma zsum_add f g n : zsum (fun q => (f q + g q)%Z) n = (zsum f n + zsum g n)%Z.
Proof. induction n as [|n IH]; [reflexivity|]. cbn [zsum]. rewrite IH. lia. Qed.

Lemma zsum_const c n : zsum (fun _ => c) n = (Z.of_nat n * c)%Z.
Proof. induction n as [|n IH]; [reflexivity|]. cbn [zsum]. rewrite IH. lia. Qed.

Lemma zsum_zero f n : (forall q, q < n -> f q = 0%Z) -> zsum f n = 0%Z.
Proof.
  intros H. rewrite (zsum_ext f (fun _ => 0%Z) n H), zsum_const. lia.
Qed.

Lemma zsum_single c r n : r < n -> zsum (fun q => if Nat.eqb q r then c else 0%Z) n = c.
Proof.
  induction n as [|n IH]; intros Hr; [lia|]. cbn [zsum].
  destruct (Nat.eq_dec r n) as [->|Hne].
  - rewrite Nat.eqb_refl. rewrite zsum_zero; [lia|].
    intros q Hq. destruct (Nat.eqb_spec q n); [lia|reflexivity].
  - rewrite IH by lia. destruct (Nat.eqb_spec n r); [congruence|lia].
Qed.

Definition zcount (b : nat -> bool) (n : nat) : Z := zsum (fun q => if b q then 1%Z else 0%Z) n.

Lemma zcount_filter b n : zcount b n = Z.of_nat (length (filter b (seq 0 n))).
Proof.
  unfold zcount. induction n as [|n IH]; [reflexivity|].
  cbn [zsum]. rewrite IH, seq_S, filter_app, app_length. cbn [filter plus].
  destruct (b n); cbn [length]; lia.
Qed.

(* relational pigeonhole *)
Lemma injection_length (F : nat -> nat -> Prop) : forall A B : list nat,
  NoDup A ->
  (forall a, In a A -> exists b, In b B /\ F a b) ->
  (forall a1 a2 b, In a1 A -> In a2 A -> F a1 b -> F a2 b -> a1 = a2) ->
  length A <= length B.
Proof.
  induction A as [|a A IH]; intros B Hnd Hex Hinj; [cbn; lia|].
  apply NoDup_cons_iff in Hnd. destruct Hnd as [Ha Hnd].
  destruct (Hex a (or_introl eq_refl)) as [b [Hb Fab]].
  destruct (in_split _ _ Hb) as [B1 [B2 ->]].
  rewrite app_length. cbn [length].
  assert (H : length A <= length (B1 ++ B2)).
  { apply IH; [exact Hnd| |].
    - intros a' Ha'. destruct (Hex a' (or_intror Ha')) as [b' [Hb' Fab']].
      exists b'. split; [|exact Fab'].
      apply in_app_or in Hb'. apply in_or_app.
      destruct Hb' as [H|[H|H]]; [left; exact H| |right; exact H].
      subst b'. exfalso. apply Ha.
      rewrite (Hinj a a' b (or_introl eq_refl) (or_intror Ha') Fab Fab'). exact Ha'.
    - intros a1 a2 b' H1 H2. apply Hinj; right; assumption. }
  rewrite app_length in H. lia.
Qed.

(* ------------------------------------------------------------------ *)
(* clipping: x - lo = number of thresholds lo, lo+1, ... below x       *)

Definition clip (lo : Z) (k : nat) (x : Z) : Z := Z.max 0 (Z.min (x - lo) (Z.of_nat k)).

Lemma clip_0 lo x : clip lo 0 x = 0%Z.
Proof. unfold clip. lia. Qed.

Lemma clip_S lo k x :
  clip lo (S k) x = (clip lo k x + (if Z.ltb (lo + Z.of_nat k) x then 1 else 0))%Z.
Proof. unfold clip. destruct (Z.ltb_spec (lo + Z.of_nat k) x); lia. Qed.

Lemma clip_full lo k x : (lo <= x <= lo + Z.of_nat k)%Z -> clip lo k x = (x - lo)%Z.
Proof. unfold clip. lia. Qed.

Lemma bounded (f : nat -> Z) n : exists lo hi, forall q, q < n -> (lo <= f q <= hi)%Z.
Proof.
  induction n as [|n [lo [hi IH]]].
  - exists 0%Z, 0%Z. intros q Hq; lia.
  - exists (Z.min lo (f n)), (Z.max hi (f n)). intros q Hq.
    destruct (Nat.eq_dec q n) as [->|Hne]; [lia|]. specialize (IH q ltac:(lia)). lia.
Qed.

(* ------------------------------------------------------------------ *)
(* parent maps                                                         *)

Section ParentMaps.
  Variable n : nat.
  Variable w : nat -> nat -> Z.
  Hypothesis w_sym : forall p q, p < n -> q < n -> w p q = w q p.

  Definition isroot (pred : nat -> option nat) (q : nat) : bool :=
    match pred q with None => true | Some _ => false end.
  (* the parent arc of q is heavier than t *)
  Definition heavy (pred : nat -> option nat) (t : Z) (q : nat) : bool :=
    match pred q with Some p => Z.ltb t (w p q) | None => false end.
  (* q has no light parent arc: it is the top of its component in the forest of arcs <= t *)
  Definition troot (pred : nat -> option nat) (t : Z) (q : nat) : bool :=
    match pred q with Some p => Z.ltb t (w p q) | None => true end.

  Lemma spanning_root_unique pred r :
    pred r = None -> (forall q, q < n -> root_of pred q r) ->
    forall q, q < n -> (pred q = None <-> q = r).
  Proof.
    intros Hr Hall q Hq. split; [|intros ->; exact Hr].
    intros Hn. destruct (Hall q Hq) as [k [Hk _]].
    inversion Hk as [|? p ? ? Hp _]; subst; [reflexivity|congruence].
  Qed.

  Lemma zcount_isroot pred : spanning_parent_map n pred -> zcount (isroot pred) n = 1%Z.
  Proof.
    intros (r & Hr & Hpr & Hall).
    pose proof (spanning_root_unique pred r Hpr (fun q Hq => proj1 (Hall q Hq))) as Hu.
    unfold zcount. etransitivity; [|apply (zsum_single 1%Z r n Hr)]. apply zsum_ext.
    intros q Hq. unfold isroot. specialize (Hu q Hq).
    destruct (Nat.eqb_spec q r) as [E|E]; destruct (pred q); try reflexivity.
    - exfalso. apply Hu in E. discriminate.
    - exfalso. apply E, Hu. reflexivity.
  Qed.

  Lemma zcount_troot pred t : zcount (troot pred t) n = (zcount (heavy pred t) n + zcount (isroot pred) n)%Z.
  Proof.
    unfold zcount. rewrite <- zsum_add. apply zsum_ext. intros q _.
    unfold troot, heavy, isroot. destruct (pred q); [destruct (Z.ltb _ _)|]; reflexivity.
  Qed.

  (* following light parent arcs *)
  Inductive lreach (pred : nat -> option nat) (t : Z) : nat -> nat -> Prop :=
  | lr_here q : lreach pred t q q
  | lr_step q p r : pred q = Some p -> (w p q <= t)%Z -> lreach pred t p r -> lreach pred t q r.

  Lemma lreach_top pred t r :
    pred r = None -> (forall q p, q < n -> pred q = Some p -> p < n) ->
    forall k q, reaches pred q r k -> q < n ->
    exists s, lreach pred t q s /\ s < n /\ troot pred t s = true.
  Proof.
    intros Hr Hcl. induction k as [|k IH]; intros q Hk Hq.
    - inversion Hk; subst. exists r. split; [constructor|]. split; [exact Hq|].
      unfold troot. rewrite Hr. reflexivity.
    - inversion Hk as [|? p ? ? Hp Hk']; subst.
      destruct (Z_le_gt_dec (w p q) t) as [Hle|Hgt].
      + destruct (IH p Hk' (Hcl q p Hq Hp)) as (s & Hs & Hsn & Hst).
        exists s. split; [econstructor; eassumption|]. split; assumption.
      + exists q. split; [constructor|]. split; [exact Hq|].
        unfold troot. rewrite Hp. apply Z.ltb_lt. lia.
  Qed.

  Lemma lreach_lt pred t :
    (forall q p, q < n -> pred q = Some p -> p < n) ->
    forall q s, lreach pred t q s -> q < n -> s < n.
  Proof.
    intros Hcl q s H. induction H as [q|q p r Hp _ _ IH]; intros Hq; [exact Hq|].
    apply IH. eapply Hcl; eassumption.
  Qed.

  (* a light walk up the tree, prolonged by a light path, is a light path *)
  Lemma light_extend pred t c :
    (forall q p, q < n -> pred q = Some p -> p < n) ->
    forall q s, lreach pred t q s -> q < n ->
    forall pi0, path_from_to n s c pi0 -> (pathmax w t pi0 <= t)%Z ->
    exists pi, path_from_to n q c pi /\ (pathmax w t pi <= t)%Z.
  Proof.
    intros Hcl q s H. induction H as [q|q p r Hp Hle _ IH]; intros Hq pi0 Hpi0 Hmax.
    - exists pi0. split; assumption.
    - assert (Hpn : p < n) by (eapply Hcl; eassumption).
      destruct (IH Hpn pi0 Hpi0 Hmax) as (pi & Hpi & Hm).
      exists (q :: pi). split; [eapply path_from_to_cons; eassumption|].
      destruct Hpi as [[Hne _] [Hhd _]]. destruct pi as [|x pi']; [congruence|].
      cbn [hd_error] in Hhd. injection Hhd as ->.
      rewrite pathmax_cons2. rewrite (w_sym q p Hq Hpn). lia.
  Qed.

  (* a simple tree path between distinct nodes starts or ends with a parent arc *)
  Lemma down_chain pred : forall tp a b,
    NoDup (a :: b :: tp) -> chain (tree_arc pred) (a :: b :: tp) -> pred b = Some a ->
    exists x, pred (last (b :: tp) b) = Some x /\ arc_on (a :: b :: tp) x (last (b :: tp) b).
  Proof.
    induction tp as [|c tp IH]; intros a b Hnd Hch Hp.
    - exists a. split; [exact Hp|]. apply arc_on_head.
    - destruct Hch as [_ Hch]. pose proof Hch as [Hbc _].
      assert (Hcb : pred c = Some b).
      { destruct Hbc as [H|H]; [|exact H]. exfalso.
        assert (c = a) by congruence. subst c.
        apply NoDup_cons_iff in Hnd. apply Hnd. right; left; reflexivity. }
      apply NoDup_cons_iff in Hnd. destruct Hnd as [_ Hnd].
      destruct (IH b c Hnd Hch Hcb) as (x & Hx & Harc).
      rewrite (last_cons_ne b (c :: tp) b c) by discriminate.
      exists x. split; [exact Hx|]. apply arc_on_cons. exact Harc.
  Qed.

  Lemma path_end_parent pred u v tp :
    hd_error tp = Some u -> last tp u = v -> NoDup tp -> chain (tree_arc pred) tp -> u <> v ->
    (exists p, pred u = Some p /\ arc_on tp u p) \/ (exists p, pred v = Some p /\ arc_on tp p v).
  Proof.
    intros Hhd Hl Hnd Hch Huv.
    destruct tp as [|a tp]; [discriminate|]. cbn [hd_error] in Hhd. injection Hhd as ->.
    destruct tp as [|b tp]; [cbn in Hl; congruence|].
    pose proof Hch as [[H|H] _].
    - left. exists b. split; [exact H|apply arc_on_head].
    - right. destruct (down_chain pred tp u b Hnd Hch H) as (x & Hx & Harc).
      rewrite (last_cons_ne u (b :: tp) u b) in Hl by discriminate. rewrite Hl in *.
      exists x. split; assumption.
  Qed.

  (* ---------------------------------------------------------------- *)
  (* threshold counting                                                *)

  Variables predT predS : nat -> option nat.
  Hypothesis T_span : spanning_parent_map n predT.
  Hypothesis T_conn : connected_by n (tree_arc predT).
  Hypothesis T_mm : minimax_paths n w (tree_arc predT).
  Hypothesis S_span : spanning_parent_map n predS.

  Lemma troot_count_le t : (zcount (troot predT t) n <= zcount (troot predS t) n)%Z.
  Proof.
    rewrite !zcount_filter. apply inj_le.
    destruct S_span as (rS & HrS & HprS & HallS).
    assert (HclS : forall q p, q < n -> predS q = Some p -> p < n).
    { intros q p Hq Hp. apply (proj2 (HallS q Hq)). exact Hp. }
    apply (injection_length (lreach predS t)).
    - apply NoDup_filter, seq_NoDup.
    - intros a Ha. apply filter_In in Ha. destruct Ha as [Ha _]. apply in_seq in Ha.
      destruct (HallS a ltac:(lia)) as [[k [Hk _]] _].
      destruct (lreach_top predS t rS HprS HclS k a Hk ltac:(lia)) as (s & Hs & Hsn & Hst).
      exists s. split; [|exact Hs]. apply filter_In. split; [apply in_seq; lia|exact Hst].
    - intros a1 a2 s Ha1 Ha2 H1 H2.
      apply filter_In in Ha1. destruct Ha1 as [Ha1 Ht1]. apply in_seq in Ha1.
      apply filter_In in Ha2. destruct Ha2 as [Ha2 Ht2]. apply in_seq in Ha2.
      destruct (Nat.eq_dec a1 a2) as [E|Hne]; [exact E|exfalso].
      assert (Hs : s < n).
      { apply (lreach_lt predS t HclS a1 s H1). lia. }
      (* a light path a1 -> s -> a2 *)
      destruct (light_extend predS t s HclS a2 s H2 ltac:(lia) [s] (path_from_to_single n s Hs))
        as (pi2 & Hpi2 & Hm2); [cbn; lia|].
      assert (Hm2' : (pathmax w t (rev pi2) <= t)%Z).
      { rewrite pathmax_rev; [exact Hm2|].
        destruct Hpi2 as [[_ Hfa] _]. rewrite Forall_forall in Hfa.
        intros x y Hx Hy. apply w_sym; apply Hfa; assumption. }
      destruct (light_extend predS t a2 HclS a1 s H1 ltac:(lia) (rev pi2)
                  (path_from_to_rev _ _ _ _ Hpi2) Hm2') as (pi & Hpi & Hm).
      (* the tree path between a1 and a2 is light as well *)
      destruct (T_conn a1 a2 ltac:(lia) ltac:(lia)) as [tp Htp].
      pose proof (T_mm t a1 a2 tp pi Htp Hpi) as Hle.
      destruct Htp as ([[_ Hfa] [Hhd Hl]] & Hnd & Hch). rewrite Forall_forall in Hfa.
      destruct (path_end_parent predT a1 a2 tp Hhd Hl Hnd Hch Hne) as [(p & Hp & Harc)|(p & Hp & Harc)].
      + pose proof (pathmax_arc w t tp a1 p Harc) as Hw.
        destruct (arc_on_In _ _ _ Harc) as [_ Hpin].
        rewrite (w_sym a1 p ltac:(lia) (Hfa p Hpin)) in Hw.
        unfold troot in Ht1. rewrite Hp in Ht1. apply Z.ltb_lt in Ht1. lia.
      + pose proof (pathmax_arc w t tp p a2 Harc) as Hw.
        unfold troot in Ht2. rewrite Hp in Ht2. apply Z.ltb_lt in Ht2. lia.
  Qed.

  Lemma heavy_count_le t : (zcount (heavy predT t) n <= zcount (heavy predS t) n)%Z.
  Proof.
    pose proof (troot_count_le t) as H. rewrite !zcount_troot in H.
    rewrite (zcount_isroot predT T_span), (zcount_isroot predS S_span) in H. lia.
  Qed.

  (* ---------------------------------------------------------------- *)
  (* summation over the thresholds                                     *)

  Definition val (lo : Z) (pred : nat -> option nat) (q : nat) : Z :=
    match pred q with Some p => w p q | None => lo end.

  Lemma val_heavy lo pred t q : (lo <= t)%Z -> Z.ltb t (val lo pred q) = heavy pred t q.
  Proof.
    intros H. unfold val, heavy. destruct (pred q); [reflexivity|]. apply Z.ltb_ge. exact H.
  Qed.

  Lemma zsum_val lo pred : spanning_parent_map n pred ->
    zsum (val lo pred) n = (tree_weight n w pred + lo)%Z.
  Proof.
    intros Hsp. unfold tree_weight.
    rewrite (zsum_ext (val lo pred)
               (fun q => (arc_weight w pred q + (if isroot pred q then lo else 0))%Z) n).
    - rewrite zsum_add. f_equal.
      pose proof (zcount_isroot pred Hsp) as Hc. unfold zcount in Hc.
      destruct Hsp as (r & Hr & Hpr & Hall).
      pose proof (spanning_root_unique pred r Hpr (fun q Hq => proj1 (Hall q Hq))) as Hu.
      etransitivity; [|apply (zsum_single lo r n Hr)]. apply zsum_ext. intros q Hq.
      unfold isroot. specialize (Hu q Hq).
      destruct (Nat.eqb_spec q r) as [E|E]; destruct (pred q); try reflexivity.
      + exfalso. apply Hu in E. discriminate.
      + exfalso. apply E, Hu. reflexivity.
    - intros q _. unfold val, arc_weight, isroot. destruct (pred q); lia.
  Qed.

  Lemma clip_sum_le lo k :
    (zsum (fun q => clip lo k (val lo predT q)) n <= zsum (fun q => clip lo k (val lo predS q)) n)%Z.
  Proof.
    induction k as [|k IH].
    - rewrite !zsum_zero; [lia| |]; intros q _; apply clip_0.
    - assert (E : forall pred,
                zsum (fun q => clip lo (S k) (val lo pred q)) n =
                (zsum (fun q => clip lo k (val lo pred q)) n +
                 zcount (heavy pred (lo + Z.of_nat k)) n)%Z).
      { intros pred. unfold zcount. rewrite <- zsum_add. apply zsum_ext. intros q _.
        rewrite clip_S. rewrite val_heavy by lia. reflexivity. }
      rewrite !E. pose proof (heavy_count_le (lo + Z.of_nat k)). lia.
  Qed.

  Theorem minimax_tree_minimum : (tree_weight n w predT <= tree_weight n w predS)%Z.
  Proof.
    destruct (bounded (arc_weight w predT) n) as (lo1 & hi1 & B1).
    destruct (bounded (arc_weight w predS) n) as (lo2 & hi2 & B2).
    set (lo := Z.min lo1 lo2). set (hi := Z.max (Z.max hi1 hi2) lo).
    set (k := Z.to_nat (hi - lo)).
    assert (Hk : Z.of_nat k = (hi - lo)%Z) by (unfold k; lia).
    assert (Hv : forall pred, (forall q, q < n -> (lo <= arc_weight w pred q <= hi)%Z) ->
               forall q, q < n -> clip lo k (val lo pred q) = (val lo pred q - lo)%Z).
    { intros pred HB q Hq. apply clip_full. specialize (HB q Hq).
      unfold val, arc_weight in *. destruct (pred q); lia. }
    pose proof (clip_sum_le lo k) as H.
    rewrite (zsum_ext _ (fun q => (val lo predT q + (- lo))%Z) n) in H.
    2:{ intros q Hq. rewrite (Hv predT); [lia| |exact Hq].
        intros x Hx. specialize (B1 x Hx). lia. }
    rewrite (zsum_ext (fun q => clip lo k (val lo predS q)) (fun q => (val lo predS q + (- lo))%Z) n) in H.
    2:{ intros q Hq. rewrite (Hv predS); [lia| |exact Hq].
        intros x Hx. specialize (B2 x Hx). lia. }
    rewrite !zsum_add, !zsum_const in H.
    rewrite (zsum_val lo predT T_span), (zsum_val lo predS S_span) in H. lia.
  Qed.
End ParentMaps.

(* ------------------------------------------------------------------ *)
(* Statements over rooted spanning trees (parent maps rooted anywhere). *)

Lemma spanning_tree_connected n pred :
  spanning_parent_map n pred -> connected_by n (tree_arc pred).
Proof.
  intros Hsp. apply spanning_connected; [|exact Hsp].
  destruct Hsp as (r & _ & _ & Hall). intros q p Hq Hp. apply (proj2 (Hall q Hq)). exact Hp.
Qed.

(* a spanning tree whose tree paths are minimax paths has minimum total weight *)
Theorem cycle_optimal_is_minimum n w predT predS :
  (forall p q, p < n -> q < n -> w p q = w q p) ->
  spanning_parent_map n predT -> minimax_paths n w (tree_arc predT) ->
  spanning_parent_map n predS ->
  (tree_weight n w predT <= tree_weight n w predS)%Z.
Proof.
  intros Hsym HT Hmm HS.
  apply (minimax_tree_minimum n w Hsym predT predS HT (spanning_tree_connected n predT HT) Hmm HS).
Qed.

(* with pairwise distinct weights, two such spanning trees have the same arcs *)
Theorem cycle_optimal_unique n w pred1 pred2 :
  distinct_weights n w ->
  spanning_parent_map n pred1 -> minimax_paths n w (tree_arc pred1) ->
  spanning_parent_map n pred2 -> minimax_paths n w (tree_arc pred2) ->
  forall u v, u < n -> v < n -> u <> v -> (tree_arc pred1 u v <-> tree_arc pred2 u v).
Proof.
  intros Hd H1 M1 H2 M2.
  apply (minimax_arcs_unique n w Hd); try assumption; apply spanning_tree_connected; assumption.
Qed.
