(* Triangle inequality: euclidean, average_euclidean, matusita, hellinger, log_euclidean.
   All are consequences of Minkowski's inequality for p = 2 ([minkowski2]). *)
From Coq Require Import Reals List Lra Lia.
From OPF Require Import Spec.MetricSpec Proofs.TriangleLemmas.
Import ListNotations.
Open Scope R_scope.

Lemma sp_squared_euclidean_sqg x y : sp_squared_euclidean x y = sqg (fun t => t) x y.
Proof. reflexivity. Qed.

Lemma sp_squared_chord_sqg x y : sp_squared_chord x y = sqg sqrt x y.
Proof. reflexivity. Qed.

Lemma triangle_euclidean : forall x y z,
  length x = length y -> length y = length z -> (1 <= length x)%nat ->
  sp_euclidean x z <= sp_euclidean x y + sp_euclidean y z.
Proof.
  intros x y z Hxy Hyz _. unfold sp_euclidean. rewrite !sp_squared_euclidean_sqg.
  apply minkowski2; assumption.
Qed.

Lemma triangle_average_euclidean : forall x y z,
  length x = length y -> length y = length z -> (1 <= length x)%nat ->
  sp_average_euclidean x z <= sp_average_euclidean x y + sp_average_euclidean y z.
Proof.
  intros x y z Hxy Hyz Hl. unfold sp_average_euclidean.
  rewrite <- (len_eq x y Hxy).
  pose proof (len_pos x Hl) as Hn.
  rewrite !sqrt_div_alt by exact Hn.
  pose proof (triangle_euclidean x y z Hxy Hyz Hl) as H. unfold sp_euclidean in H.
  unfold Rdiv. rewrite <- Rmult_plus_distr_r.
  apply Rmult_le_compat_r; [| exact H].
  left. apply Rinv_0_lt_compat. apply sqrt_lt_R0. exact Hn.
Qed.

(* matusita and hellinger hold for arbitrary real vectors of the closed form (Coq's [sqrt] is
   total); the [all_nonneg] hypotheses of the deliverable are not used. *)
Lemma triangle_matusita_total : forall x y z,
  length x = length y -> length y = length z ->
  sp_matusita x z <= sp_matusita x y + sp_matusita y z.
Proof.
  intros x y z Hxy Hyz. unfold sp_matusita. rewrite !sp_squared_chord_sqg.
  apply minkowski2; assumption.
Qed.

Lemma triangle_matusita : forall x y z,
  length x = length y -> length y = length z -> (1 <= length x)%nat ->
  all_nonneg x -> all_nonneg y -> all_nonneg z ->
  sp_matusita x z <= sp_matusita x y + sp_matusita y z.
Proof. intros x y z Hxy Hyz _ _ _ _. apply triangle_matusita_total; assumption. Qed.

Lemma sp_hellinger_matusita x y : sp_hellinger x y = sqrt 2 * sp_matusita x y.
Proof. unfold sp_hellinger, sp_matusita. apply sqrt_mult_alt. lra. Qed.

Lemma triangle_hellinger : forall x y z,
  length x = length y -> length y = length z -> (1 <= length x)%nat ->
  all_nonneg x -> all_nonneg y -> all_nonneg z ->
  sp_hellinger x z <= sp_hellinger x y + sp_hellinger y z.
Proof.
  intros x y z Hxy Hyz _ _ _ _. rewrite !sp_hellinger_matusita.
  rewrite <- Rmult_plus_distr_l.
  apply Rmult_le_compat_l; [apply sqrt_pos | apply triangle_matusita_total; assumption].
Qed.

Lemma triangle_log_euclidean : forall x y z,
  length x = length y -> length y = length z -> (1 <= length x)%nat ->
  sp_log_euclidean x z <= sp_log_euclidean x y + sp_log_euclidean y z.
Proof.
  intros x y z Hxy Hyz Hl. unfold sp_log_euclidean, MAX_ARC_WEIGHT.
  pose proof (triangle_euclidean x y z Hxy Hyz Hl) as H.
  assert (forall u v, 0 <= sp_euclidean u v) as Hpos by (intros u v; apply sqrt_pos).
  rewrite !(Rplus_comm _ 1).
  pose proof (ln1p_subadd _ _ _ (Hpos x z) (Hpos x y) (Hpos y z) H) as Hln.
  lra.
Qed.
