(* Semi-supervised training (Model/Sup.v, [semi_fit]): the competition with [semi = true] is the
   supervised competition plus a write to [n_label] of the unlabeled nodes; with no unlabeled
   samples the two models coincide; the optimum-path-forest theorems of Fit.v hold over all
   labeled and unlabeled nodes. *)
From Coq Require Import List Arith Bool ZArith Lia ZifyBool Permutation.
From OPF Require Import Base.Lists Model.Heap Model.Sup Proofs.HeapBase Proofs.HeapInv
  Spec.Paths Proofs.FitBase Proofs.Fit Proofs.FitSup.
Import ListNotations.
Close Scope Z_scope.

(* ---------------- [compete true] = [compete false] when every node is labeled ---------------- *)

Section Sim.
  Context {W : Type}.
  Variables (ltb : W -> W -> bool) (zero top : W).
  Notation nodes := (@nodes W).

  (* relaxing a labeled node [q < nl] does not touch [n_label], whatever the flag *)
  Lemma fit_relax_labeled nl nl' w p st q : q < nl ->
    fit_relax ltb top true nl w p st q = fit_relax ltb top false nl' w p st q.
  Proof.
    intros Hq. destruct st as [h nd]. unfold fit_relax.
    rewrite (proj2 (Nat.leb_gt nl q) Hq). reflexivity.
  Qed.

  Lemma fit_fold_labeled nl nl' w p l : (forall q, In q l -> q < nl) -> forall st,
    fold_left (fit_relax ltb top true nl w p) l st = fold_left (fit_relax ltb top false nl' w p) l st.
  Proof.
    induction l as [|q l IH]; intros Hl st; [reflexivity|].
    cbn [fold_left]. rewrite (fit_relax_labeled nl nl') by (apply Hl; left; reflexivity).
    apply IH. intros x Hx. apply Hl. right. exact Hx.
  Qed.

  Lemma fit_loop_labeled nl nl' n w : n <= nl -> forall fuel h nd,
    fit_loop ltb top fuel n true nl w h nd = fit_loop ltb top fuel n false nl' w h nd.
  Proof.
    intros Hn. induction fuel as [|f IH]; intros h nd; [reflexivity|].
    cbn [fit_loop]. destruct (remove ltb top h) as [h1 [p|]]; [|reflexivity].
    rewrite (fit_fold_labeled nl nl') by (intros q Hq; apply in_seq in Hq; lia).
    match goal with |- context [fold_left ?f ?l ?a] => destruct (fold_left f l a) as [h2 nd2] end.
    apply IH.
  Qed.

  Lemma compete_labeled nl nl' n w nd : n <= nl ->
    compete ltb zero top true nl n w nd = compete ltb zero top false nl' n w nd.
  Proof.
    intros Hn. unfold compete.
    destruct (fold_left (seed_step ltb zero top) (seq 0 n) (h_init top n PMin, nd)) as [h nd1].
    rewrite (fit_loop_labeled nl nl') by exact Hn. reflexivity.
  Qed.

  Lemma append_unlabeled_0 (nd : nodes) : append_unlabeled zero nd 0 = nd.
  Proof. destruct nd. unfold append_unlabeled. cbn. rewrite !app_nil_r. reflexivity. Qed.

  (* with an empty unlabeled set, semi-supervised training IS supervised training
     (every field of the node table, for any cost type and comparison) *)
  Theorem semi_empty_is_supervised labels w :
    semi_fit ltb zero top labels 0 w = sup_fit ltb zero top labels w.
  Proof.
    unfold semi_fit, sup_fit. rewrite append_unlabeled_0, Nat.add_0_r.
    apply compete_labeled. lia.
  Qed.
End Sim.

(* ---------------- the forest over labeled and unlabeled nodes ---------------- *)

Lemma nth_repeat_false i m : nth i (repeat false m) false = false.
Proof. revert i; induction m as [|m IH]; intros [|i]; cbn; auto. Qed.

Lemma nth_app_repeat_false (l : list bool) m q :
  nth q (l ++ repeat false m) false = true <-> q < length l /\ nth q l false = true.
Proof.
  destruct (Nat.lt_ge_cases q (length l)) as [H|H].
  - rewrite app_nth1 by exact H. tauto.
  - rewrite app_nth2 by exact H. rewrite nth_repeat_false. split; [discriminate|lia].
Qed.

Lemma semi_fit_opf :
  forall (zero top : Z) (labels : list nat) (nu : nat) (w : nat -> nat -> Z),
    let nl := length labels in
    let n := nl + nu in
    let fp := find_prototypes Z.ltb top nl w (nodes_init zero labels) in
    let isproto q := q < nl /\ nth q (n_status fp) false = true in
    (zero < top)%Z ->
    (forall p q, p < n -> q < n -> p <> q -> (zero <= w p q < top)%Z) ->
    (exists s, isproto s) ->
    let nd := semi_fit Z.ltb zero top labels nu w in
    let cost q := nth q (n_cost nd) zero in
    let pred q := nth q (n_pred nd) None in
    let plabel q := nth q (n_plabel nd) 0 in
    let label q := nth q (n_label nd) 0 in
    (* every labeled and unlabeled sample is conquered, in non-decreasing cost *)
    Permutation (n_order nd) (seq 0 n) /\
    (forall i j, i < j -> j < n ->
       (cost (nth i (n_order nd) 0%nat) <= cost (nth j (n_order nd) 0%nat))%Z) /\
    (* prototypes keep cost zero and their own (original) label *)
    (forall q, isproto q ->
       pred q = None /\ cost q = zero /\ plabel q = nth q labels 0 /\ label q = nth q labels 0) /\
    (forall q, q < n -> ~ isproto q ->
       exists p, pred q = Some p /\ p < n /\ p <> q /\ cost q = Z.max (cost p) (w p q) /\
         plabel q = plabel p /\ before (n_order nd) p q) /\
    (* every node carries the original label of the prototype at the root of its path *)
    (forall q, q < n ->
       exists r k, isproto r /\ reaches pred q r k /\ pred r = None /\ k < n /\
         plabel q = nth r labels 0 /\ (nl <= q -> label q = nth r labels 0)) /\
    (* optimality over the graph of all samples *)
    (forall q s pi, q < n -> isproto s -> path_from_to n s q pi ->
       (cost q <= pathmax w zero pi)%Z) /\
    (forall q, q < n -> exists s pi, isproto s /\ path_from_to n s q pi /\
       pathmax w zero pi = cost q) /\
    (* labeled samples keep their true label *)
    (forall q, q < nl -> label q = nth q labels 0) /\
    n_status nd = n_status fp ++ repeat false nu.
Proof.
  intros zero top labels nu w nl n fp isproto Hzt Hw Hproto nd cost pred plabel label.
  destruct (find_prototypes_shaped Z.ltb top zero labels w) as (A & B & C & D & E & F).
  fold nl fp in A, B, C, D, E, F.
  set (nd0 := append_unlabeled zero fp nu).
  assert (Hnd : nd = compete Z.ltb zero top true nl n w nd0) by reflexivity.
  assert (L1 : length (n_cost nd0) = n)
    by (unfold nd0, append_unlabeled; cbn [n_cost]; rewrite app_length, repeat_length; lia).
  assert (L2 : length (n_pred nd0) = n)
    by (unfold nd0, append_unlabeled; cbn [n_pred]; rewrite app_length, repeat_length; lia).
  assert (L3 : length (n_label nd0) = n).
  { unfold nd0, append_unlabeled; cbn [n_label]. rewrite app_length, repeat_length, C. reflexivity. }
  assert (L4 : length (n_plabel nd0) = n)
    by (unfold nd0, append_unlabeled; cbn [n_plabel]; rewrite app_length, repeat_length; lia).
  assert (L5 : n_order nd0 = []) by exact F.
  assert (Hst : forall q, nth q (n_status nd0) false = true <-> isproto q).
  { intros q. unfold nd0, append_unlabeled, isproto; cbn [n_status].
    rewrite nth_app_repeat_false, E. tauto. }
  assert (Hlab : forall q, q < nl -> nth q (n_label nd0) 0 = nth q labels 0).
  { intros q Hq. unfold nd0, append_unlabeled; cbn [n_label]. rewrite C.
    apply app_nth1. exact Hq. }
  assert (Hproto' : exists s, s < n /\ nth s (n_status nd0) false = true).
  { destruct Hproto as (s & Hs). exists s. split; [destruct Hs; lia|apply Hst; exact Hs]. }
  pose proof (compete_order zero top n w true nl nd0 Hzt Hw L1 L2 L3 L4 L5 Hproto') as (O1 & O2).
  pose proof (compete_forest zero top n w true nl nd0 Hzt Hw L1 L2 L3 L4 L5 Hproto') as (F1 & F2 & F3).
  pose proof (compete_optimal zero top n w true nl nd0 Hzt Hw L1 L2 L3 L4 L5 Hproto') as (P1 & P2).
  pose proof (compete_status_label zero top n w true nl nd0 Hzt Hw L1 L2 L3 L4 L5 Hproto')
    as (S1 & _ & S2 & S3).
  specialize (S3 eq_refl). rewrite <- Hnd in *.
  assert (Hkeep : forall q, q < nl -> label q = nth q labels 0).
  { intros q Hq. unfold label. rewrite (S2 q ltac:(lia) Hq). apply Hlab. exact Hq. }
  split; [exact O1|]. split; [exact O2|]. split; [|split; [|split; [|split; [|split; [|split]]]]].
  - intros q Hq. assert (Hqn : q < n) by (destruct Hq; lia).
    destruct (F1 q Hqn (proj2 (Hst q) Hq)) as (X1 & X2 & X3).
    rewrite Hlab in X3 by (destruct Hq; assumption).
    split; [exact X1|]. split; [exact X2|]. split; [exact X3|].
    apply Hkeep. destruct Hq; assumption.
  - intros q Hq Hnp. apply F2; [exact Hq|]. intros Hx. apply Hnp. apply Hst. exact Hx.
  - intros q Hq. destruct (F3 q Hq) as (r & k & R1 & R2 & R3 & R4 & R5 & R6).
    apply Hst in R2. rewrite Hlab in R6 by (destruct R2; assumption).
    exists r, k. split; [exact R2|]. split; [exact R3|]. split; [exact R4|]. split; [exact R5|].
    split; [exact R6|]. intros Hlq. unfold label. rewrite (S3 q Hq Hlq). exact R6.
  - intros q s pi Hq Hs Hpath. apply (P1 q s pi Hq); [destruct Hs; lia|apply Hst; exact Hs|exact Hpath].
  - intros q Hq. destruct (P2 q Hq) as (s & pi & Q1 & Q2 & Q3 & Q4).
    exists s, pi. split; [apply Hst; exact Q2|]. split; [exact Q3|exact Q4].
  - exact Hkeep.
  - exact S1.
Qed.

Definition semi_optimal := semi_fit_opf.
