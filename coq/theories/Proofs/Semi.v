(* Semi-supervised training (Model/Sup.v, [semi_fit]): the competition with [semi = true] is the
   supervised competition plus a write to [n_label]; with no unlabeled samples the two models
   agree on every field except [n_label]; the optimum-path-forest theorems of Fit.v hold over all
   labeled and unlabeled nodes. *)
From Coq Require Import List Arith Bool ZArith Lia ZifyBool Permutation.
From OPF Require Import Base.Lists Model.Heap Model.Sup Proofs.HeapBase Proofs.HeapInv
  Spec.Paths Proofs.FitBase Proofs.Fit Proofs.FitSup.
Import ListNotations.
Close Scope Z_scope.

(* ---------------- simulation between [compete true] and [compete false] ---------------- *)

Section Sim.
  Context {W : Type}.
  Variables (ltb : W -> W -> bool) (zero top : W).
  Notation nodes := (@nodes W).

  (* equal on every field except [n_label] *)
  Definition eq_but_label (a b : nodes) : Prop :=
    n_cost a = n_cost b /\ n_pred a = n_pred b /\ n_plabel a = n_plabel b /\
    n_status a = n_status b /\ n_relevant a = n_relevant b /\ n_order a = n_order b.

  Lemma eq_but_label_refl a : eq_but_label a a.
  Proof. unfold eq_but_label; repeat split. Qed.

  Definition sim (sa sb : heap W * nodes) : Prop := fst sa = fst sb /\ eq_but_label (snd sa) (snd sb).

  Lemma fit_relax_sim w p sa sb q : sim sa sb ->
    sim (fit_relax ltb top true w p sa q) (fit_relax ltb top false w p sb q).
  Proof.
    destruct sa as [h a], sb as [h' b]. intros [Hh (A & B & C & D & E & F)]. cbn [fst snd] in *.
    subst h'. unfold fit_relax.
    destruct (negb (Nat.eqb p q) && ltb (hcost_at top h p) (hcost_at top h q));
      [|split; [reflexivity|unfold eq_but_label; cbn [snd]; repeat split; assumption]].
    destruct (ltb (wmax ltb (hcost_at top h p) (w p q)) (hcost_at top h q));
      [|split; [reflexivity|unfold eq_but_label; cbn [snd]; repeat split; assumption]].
    split; cbn [fst snd]; [reflexivity|].
    unfold eq_but_label; cbn [n_cost n_pred n_plabel n_status n_relevant n_order].
    rewrite A, B, C, D, E, F. repeat split.
  Qed.

  Lemma fit_fold_sim w p l : forall sa sb, sim sa sb ->
    sim (fold_left (fit_relax ltb top true w p) l sa) (fold_left (fit_relax ltb top false w p) l sb).
  Proof.
    induction l as [|q l IH]; intros sa sb Hs; [exact Hs|].
    cbn [fold_left]. apply IH. apply fit_relax_sim; exact Hs.
  Qed.

  Lemma fit_loop_sim n w fuel : forall h a b, eq_but_label a b ->
    sim (fit_loop ltb top fuel n true w h a) (fit_loop ltb top fuel n false w h b).
  Proof.
    induction fuel as [|f IH]; intros h a b Hab; [split; [reflexivity|exact Hab]|].
    cbn [fit_loop]. destruct (remove ltb top h) as [h1 [p|]]; [|split; [reflexivity|exact Hab]].
    destruct Hab as (A & B & C & D & E & F).
    match goal with |- sim (let '(_, _) := fold_left ?f ?l ?sa in _)
                           (let '(_, _) := fold_left ?g ?l ?sb in _) =>
      pose proof (fit_fold_sim w p l sa sb) as X end.
    match type of X with ?P -> _ => assert (HP : P) end.
    { split; [reflexivity|]. unfold eq_but_label; cbn [fst snd n_cost n_pred n_plabel n_status n_relevant n_order].
      rewrite A, B, C, D, E, F. repeat split. }
    specialize (X HP). clear HP.
    match type of X with sim ?ra ?rb => destruct ra as [h2 a2], rb as [h2' b2] end.
    destruct X as [X1 X2]. cbn [fst snd] in X1, X2. subst h2'. apply IH. exact X2.
  Qed.

  Lemma compete_sim n w nd :
    eq_but_label (compete ltb zero top true n w nd) (compete ltb zero top false n w nd).
  Proof.
    unfold compete.
    destruct (fold_left (seed_step ltb zero top) (seq 0 n) (h_init top n PMin, nd)) as [h nd1].
    apply (fit_loop_sim n w n h nd1 nd1). apply eq_but_label_refl.
  Qed.

  Lemma append_unlabeled_0 (nd : nodes) : append_unlabeled zero nd 0 = nd.
  Proof. destruct nd. unfold append_unlabeled. cbn. rewrite !app_nil_r. reflexivity. Qed.

  (* with an empty unlabeled set, semi-supervised and supervised training agree on
     cost, pred, predicted label, status, relevance and conquest order *)
  Theorem semi_empty_is_supervised labels w :
    eq_but_label (semi_fit ltb zero top labels 0 w) (sup_fit ltb zero top labels w).
  Proof.
    unfold semi_fit, sup_fit. rewrite append_unlabeled_0, Nat.add_0_r. apply compete_sim.
  Qed.
End Sim.

(* ---------------- the forest over labeled and unlabeled nodes ---------------- *)

Lemma nth_repeat_false i m : nth i (repeat false m) false = false.
Proof. revert i; induction m as [|m IH]; intros [|i]; cbn; auto. Qed.

Lemma nth_app_repeat_false (l : list bool) m q :
  nth q (l ++ repeat false m) false = true <-> q < length l /\ nth q l false = true.
Proof.
  destruct (Nat.lt_ge_cases q (length l)) as [H|H].
  - rewrite app_nth1 by exact H. tauto.
  - rewrite app_nth2 by exact H. rewrite nth_repeat_false. split; [discriminate|lia].
Qed.

Lemma semi_fit_opf :
  forall (zero top : Z) (labels : list nat) (nu : nat) (w : nat -> nat -> Z),
    let nl := length labels in
    let n := nl + nu in
    let fp := find_prototypes Z.ltb top nl w (nodes_init zero labels) in
    let isproto q := q < nl /\ nth q (n_status fp) false = true in
    (zero < top)%Z ->
    (forall p q, p < n -> q < n -> p <> q -> (zero <= w p q < top)%Z) ->
    (exists s, isproto s) ->
    let nd := semi_fit Z.ltb zero top labels nu w in
    let cost q := nth q (n_cost nd) zero in
    let pred q := nth q (n_pred nd) None in
    let plabel q := nth q (n_plabel nd) 0 in
    let label q := nth q (n_label nd) 0 in
    (* every labeled and unlabeled sample is conquered, in non-decreasing cost *)
    Permutation (n_order nd) (seq 0 n) /\
    (forall i j, i < j -> j < n ->
       (cost (nth i (n_order nd) 0%nat) <= cost (nth j (n_order nd) 0%nat))%Z) /\
    (* prototypes keep cost zero and their own (original) label *)
    (forall q, isproto q ->
       pred q = None /\ cost q = zero /\ plabel q = nth q labels 0 /\ label q = nth q labels 0) /\
    (forall q, q < n -> ~ isproto q ->
       exists p, pred q = Some p /\ p < n /\ p <> q /\ cost q = Z.max (cost p) (w p q) /\
         plabel q = plabel p /\ before (n_order nd) p q) /\
    (* every node carries the original label of the prototype at the root of its path *)
    (forall q, q < n ->
       exists r k, isproto r /\ reaches pred q r k /\ pred r = None /\ k < n /\
         plabel q = nth r labels 0 /\ label q = nth r labels 0) /\
    (* optimality over the graph of all samples *)
    (forall q s pi, q < n -> isproto s -> path_from_to n s q pi ->
       (cost q <= pathmax w zero pi)%Z) /\
    (forall q, q < n -> exists s pi, isproto s /\ path_from_to n s q pi /\
       pathmax w zero pi = cost q) /\
    n_status nd = n_status fp ++ repeat false nu.
Proof.
  intros zero top labels nu w nl n fp isproto Hzt Hw Hproto nd cost pred plabel label.
  destruct (find_prototypes_shaped Z.ltb top zero labels w) as (A & B & C & D & E & F).
  fold nl fp in A, B, C, D, E, F.
  set (nd0 := append_unlabeled zero fp nu).
  assert (Hnd : nd = compete Z.ltb zero top true n w nd0) by reflexivity.
  assert (L1 : length (n_cost nd0) = n)
    by (unfold nd0, append_unlabeled; cbn [n_cost]; rewrite app_length, repeat_length; lia).
  assert (L2 : length (n_pred nd0) = n)
    by (unfold nd0, append_unlabeled; cbn [n_pred]; rewrite app_length, repeat_length; lia).
  assert (L3 : length (n_label nd0) = n).
  { unfold nd0, append_unlabeled; cbn [n_label]. rewrite app_length, repeat_length, C. reflexivity. }
  assert (L4 : length (n_plabel nd0) = n)
    by (unfold nd0, append_unlabeled; cbn [n_plabel]; rewrite app_length, repeat_length; lia).
  assert (L5 : n_order nd0 = []) by exact F.
  assert (Hst : forall q, nth q (n_status nd0) false = true <-> isproto q).
  { intros q. unfold nd0, append_unlabeled, isproto; cbn [n_status].
    rewrite nth_app_repeat_false, E. tauto. }
  assert (Hlab : forall q, q < nl -> nth q (n_label nd0) 0 = nth q labels 0).
  { intros q Hq. unfold nd0, append_unlabeled; cbn [n_label]. rewrite C.
    apply app_nth1. exact Hq. }
  assert (Hproto' : exists s, s < n /\ nth s (n_status nd0) false = true).
  { destruct Hproto as (s & Hs). exists s. split; [destruct Hs; lia|apply Hst; exact Hs]. }
  pose proof (compete_order zero top n w true nd0 Hzt Hw L1 L2 L3 L4 L5 Hproto') as (O1 & O2).
  pose proof (compete_forest zero top n w true nd0 Hzt Hw L1 L2 L3 L4 L5 Hproto') as (F1 & F2 & F3).
  pose proof (compete_optimal zero top n w true nd0 Hzt Hw L1 L2 L3 L4 L5 Hproto') as (P1 & P2).
  pose proof (compete_status_label zero top n w true nd0 Hzt Hw L1 L2 L3 L4 L5 Hproto')
    as (S1 & _ & S3).
  specialize (S3 eq_refl). rewrite <- Hnd in *.
  split; [exact O1|]. split; [exact O2|]. split; [|split; [|split; [|split; [|split]]]].
  - intros q Hq. assert (Hqn : q < n) by (destruct Hq; lia).
    destruct (F1 q Hqn (proj2 (Hst q) Hq)) as (X1 & X2 & X3).
    destruct (S3 q Hqn) as (Y1 & Y2).
    rewrite Hlab in X3 by (destruct Hq; assumption).
    split; [exact X1|]. split; [exact X2|]. split; [exact X3|].
    unfold label. rewrite Y1. exact X3.
  - intros q Hq Hnp. apply F2; [exact Hq|]. intros Hx. apply Hnp. apply Hst. exact Hx.
  - intros q Hq. destruct (F3 q Hq) as (r & k & R1 & R2 & R3 & R4 & R5 & R6).
    apply Hst in R2. rewrite Hlab in R6 by (destruct R2; assumption).
    exists r, k. split; [exact R2|]. split; [exact R3|]. split; [exact R4|]. split; [exact R5|].
    split; [exact R6|]. unfold label. rewrite (proj1 (S3 q Hq)). exact R6.
  - intros q s pi Hq Hs Hpath. apply (P1 q s pi Hq); [destruct Hs; lia|apply Hst; exact Hs|exact Hpath].
  - intros q Hq. destruct (P2 q Hq) as (s & pi & Q1 & Q2 & Q3 & Q4).
    exists s, pi. split; [apply Hst; exact Q2|]. split; [exact Q3|exact Q4].
  - exact S1.
Qed.

Definition semi_optimal := semi_fit_opf.
