(* C12 (arc creation): [create_arcs] of Model/Knn.v at W := Z. *)
From Coq Require Import List Arith Bool ZArith Lia Sorted Permutation.
From OPF Require Import Base.Lists Model.Knn Proofs.Select Proofs.KnnSort Proofs.KnnScan.
Import ListNotations.

Lemma zmaxl_init_ge z a l : (z <= a)%Z -> zmaxl a l = Z.max a (zmaxl z l).
Proof. intros H. unfold zmaxl. induction l as [|x l IH]; cbn [fold_right]; [lia|]. rewrite IH. lia. Qed.

(* ------------------------------------------------------------------ *)
(* the collecting loop  for l in range(k-1, -1, -1)                    *)
(* ------------------------------------------------------------------ *)

Section Collect.
  Variables zero top : Z.
  Variable ds : list Z.
  Variable ns : list nat.

  Notation collect := (arcs_collect Z.ltb zero top ds ns).

  Lemma collect_empty st l : nth l ds top = top -> collect st l = st.
  Proof.
    intros H. unfold arcs_collect. destruct st as [[[gd rad] maxd] adj].
    rewrite H, weqb_Z, Z.eqb_refl. reflexivity.
  Qed.

  Lemma collect_empty_run : forall e m st,
    (forall l, m <= l -> l < m + e -> nth l ds top = top) ->
    fold_left collect (rev (seq m e)) st = st.
  Proof.
    induction e as [|e IH]; intros m st H; [reflexivity|].
    rewrite seq_S, rev_app_distr. cbn [rev app fold_left].
    rewrite collect_empty by (apply H; lia). apply IH. intros l Hl1 Hl2. apply H; lia.
  Qed.

  Lemma collect_filled_run : forall m gd rad maxd adj,
    m <= length ns -> m <= length maxd -> m <= length ds ->
    (forall l, l < m -> nth l ds top <> top) ->
    exists maxd',
      fold_left collect (rev (seq 0 m)) (gd, rad, maxd, adj)
      = (zmaxl gd (firstn m ds), zmaxl rad (firstn m ds), maxd', firstn m ns ++ adj) /\
      length maxd' = length maxd /\
      (forall l, nth l maxd' zero
                 = if l <? m then Z.max (nth l maxd zero) (nth l ds top) else nth l maxd zero).
  Proof.
    induction m as [|m IH]; intros gd rad maxd adj Hns Hmaxd Hds Hfill.
    - exists maxd. cbn [seq rev fold_left firstn app]. repeat split; auto.
    - rewrite seq_S, rev_app_distr. cbn [rev app fold_left plus].
      unfold arcs_collect at 2. rewrite weqb_Z.
      destruct (Z.eqb_spec (nth m ds top) top) as [E|_]; [exfalso; apply (Hfill m); [lia|exact E]|].
      set (d := nth m ds top).
      set (maxd1 := if Z.ltb (nth m maxd zero) d then upd maxd m d else maxd).
      assert (Hlen1 : length maxd1 = length maxd) by (unfold maxd1; destruct (Z.ltb _ _); [apply upd_length|reflexivity]).
      assert (Hnth1 : forall l, nth l maxd1 zero = if l =? m then Z.max (nth m maxd zero) d else nth l maxd zero).
      { intros l. unfold maxd1. destruct (Z.ltb_spec (nth m maxd zero) d) as [Hlt|Hge].
        - rewrite nth_upd. rewrite (Nat.eqb_sym l m).
          destruct (Nat.eqb_spec m l) as [<-|Hne]; [|reflexivity].
          destruct (Nat.ltb_spec m (length maxd)); [lia|lia].
        - destruct (Nat.eqb_spec l m) as [->|Hne]; [lia|reflexivity]. }
      destruct (IH (if Z.ltb gd d then d else gd) (if Z.ltb rad d then d else rad) maxd1 (nth m ns 0 :: adj))
        as (maxd' & Hfold & Hlen' & Hnth'); try lia.
      { intros l Hl. apply Hfill. lia. }
      exists maxd'. rewrite Hfold. split; [|split; [lia|]].
      + rewrite (firstn_snoc top m ds) by lia. rewrite (firstn_snoc 0 m ns) by lia.
        rewrite !zmaxl_snoc. fold d. rewrite <- app_assoc. cbn [app].
        replace (if Z.ltb gd d then d else gd) with (Z.max gd d) by (destruct (Z.ltb_spec gd d); lia).
        replace (if Z.ltb rad d then d else rad) with (Z.max rad d) by (destruct (Z.ltb_spec rad d); lia).
        rewrite !zmaxl_max_init. reflexivity.
      + intros l. rewrite Hnth', !Hnth1.
        destruct (Nat.ltb_spec l m), (Nat.ltb_spec l (S m)), (Nat.eqb_spec l m); try lia; subst; reflexivity.
  Qed.

  Lemma collect_run k m gd rad maxd adj :
    m <= k -> m <= length ns -> m <= length maxd -> m <= length ds ->
    (forall l, l < m -> nth l ds top <> top) ->
    (forall l, m <= l -> l < k -> nth l ds top = top) ->
    exists maxd',
      fold_left collect (rev (seq 0 k)) (gd, rad, maxd, adj)
      = (zmaxl gd (firstn m ds), zmaxl rad (firstn m ds), maxd', firstn m ns ++ adj) /\
      length maxd' = length maxd /\
      (forall l, nth l maxd' zero
                 = if l <? m then Z.max (nth l maxd zero) (nth l ds top) else nth l maxd zero).
  Proof.
    intros Hmk Hns Hmaxd Hds Hfill Hempty.
    replace k with (m + (k - m)) by lia. rewrite seq_app, rev_app_distr, fold_left_app. cbn [plus].
    rewrite (collect_empty_run (k - m) m) by (intros l Hl1 Hl2; apply Hempty; lia).
    apply collect_filled_run; assumption.
  Qed.
End Collect.

(* ------------------------------------------------------------------ *)
(* one node                                                            *)
(* ------------------------------------------------------------------ *)

Section Arcs.
  Variables zero top : Z.
  Variables k n : nat.
  Variable w : nat -> nat -> Z.

  (* the neighbour list the loop builds for node i *)
  Definition nbrs (i : nat) : list nat := knearest (w i) k (cands (Some i) n).
  Definition nbr_dists (i : nat) : list Z := map (w i) (nbrs i).

  Hypothesis Hw : forall i j, i < n -> j < n -> i <> j -> (zero <= w i j < top)%Z.

  Lemma nbrs_length i : i < n -> length (nbrs i) = Nat.min k (n - 1).
  Proof.
    intros Hi. unfold nbrs. rewrite knearest_length, cands_length_some.
    destruct (Nat.ltb_spec i n); [reflexivity|lia].
  Qed.

  Lemma nbrs_In i j : In j (nbrs i) -> j < n /\ j <> i.
  Proof.
    intros H. apply knearest_In, cands_In in H. destruct H as [H1 H2]. split; [exact H1|congruence].
  Qed.

  Lemma nbrs_NoDup i : NoDup (nbrs i).
  Proof. apply knearest_NoDup, cands_sorted. Qed.

  Lemma nbrs_sorted i : StronglySorted (lexlt (w i)) (nbrs i).
  Proof. apply knearest_sorted, cands_sorted. Qed.

  Lemma nbrs_minimal i j a : j < n -> j <> i -> ~ In j (nbrs i) -> In a (nbrs i) -> lexlt (w i) a j.
  Proof.
    intros Hj Hji Hnin Ha. apply (knearest_minimal (w i) k (cands (Some i) n)); auto using cands_sorted.
    apply cands_In. split; [exact Hj|congruence].
  Qed.

  Lemma nbr_dists_sorted i : StronglySorted Z.le (nbr_dists i).
  Proof.
    unfold nbr_dists. pose proof (nbrs_sorted i) as Hs.
    induction Hs as [|x l Hs IH Hall]; cbn [map]; constructor; [exact IH|].
    rewrite Forall_forall in *. intros d Hd. apply in_map_iff in Hd. destruct Hd as (y & <- & Hy).
    apply lexlt_dle, Hall, Hy.
  Qed.

  Lemma nbr_dists_ge i : i < n -> forall d, In d (nbr_dists i) -> (zero <= d)%Z.
  Proof.
    intros Hi d Hd. apply in_map_iff in Hd. destruct Hd as (y & <- & Hy).
    apply nbrs_In in Hy. apply Hw; lia.
  Qed.

  Lemma radius_last i : i < n -> zmaxl zero (nbr_dists i) = last (nbr_dists i) zero.
  Proof. intros Hi. apply zmaxl_sorted_last; [apply nbr_dists_ge, Hi|apply nbr_dists_sorted]. Qed.

  Lemma nth_nbr_dists_ge i l : i < n -> (zero <= nth l (nbr_dists i) zero)%Z.
  Proof.
    intros Hi. destruct (Nat.lt_ge_cases l (length (nbr_dists i))) as [Hl|Hl].
    - apply (nbr_dists_ge i Hi), nth_In, Hl.
    - rewrite nth_overflow by exact Hl. lia.
  Qed.

  Notation node := (arcs_node Z.ltb zero top k n w).

  Lemma arcs_node_spec (g : @knn Z) maxd ns0 i :
    k < length ns0 -> length maxd = k -> i < n ->
    exists maxd' ns',
      node (g, maxd, ns0) i
      = (mkKnn (k_label g) (upd (k_adj g) i (nbrs i ++ nth i (k_adj g) []))
               (upd (k_radius g) i (zmaxl zero (nbr_dists i))) (upd (k_nplat g) i 0)
               (k_dens g) (k_cost g) (k_pred g) (k_root g) (k_plabel g) (k_clabel g) (k_order g)
               (zmaxl (k_gdens g) (nbr_dists i)) (k_nclusters g),
         maxd', ns') /\
      length ns' = length ns0 /\ length maxd' = k /\
      (forall l, nth l maxd' zero
                 = if l <? length (nbrs i) then Z.max (nth l maxd zero) (nth l (nbr_dists i) zero)
                   else nth l maxd zero).
  Proof.
    intros Hk Hmaxd Hi. unfold arcs_node.
    destruct (knn_scan Z.ltb top k n (w i) (Some i) ns0) as [ds ns] eqn:Hscan.
    assert (Htop : forall j, In j (cands (Some i) n) -> (w i j < top)%Z).
    { intros j Hj. apply cands_In in Hj. destruct Hj as [Hj1 Hj2]. apply Hw; try lia. congruence. }
    pose proof (knn_scan_rep top k n (w i) (Some i) ns0 Hk Htop) as Hrep.
    rewrite Hscan in Hrep. cbn [fst snd] in Hrep. fold (nbrs i) in Hrep.
    pose proof (rep_firstn _ _ _ _ _ _ _ Hrep) as [Hfn Hfd].
    destruct Hrep as (Hld & Hln & HkN & HL & Hfill & Hempty).
    set (m := length (nbrs i)) in *.
    destruct (collect_run zero top ds ns k m (k_gdens g) zero maxd (nth i (k_adj g) []))
      as (maxd' & Hfold & Hlen' & Hnth'); try lia.
    { intros l Hl. destruct (Hfill l Hl) as [E _]. rewrite E.
      assert (In (nth l (nbrs i) 0) (cands (Some i) n)) by (apply (knearest_In (w i) k), nth_In, Hl).
      specialize (Htop _ H). lia. }
    { intros l Hl1 Hl2. apply Hempty; lia. }
    rewrite Hfold, Hfn, Hfd. fold (nbr_dists i).
    exists maxd', ns. split; [reflexivity|]. split; [exact Hln|]. split; [lia|].
    intros l. rewrite Hnth'. destruct (Nat.ltb_spec l m) as [Hl|Hl]; [|reflexivity].
    destruct (Hfill l Hl) as [E _]. rewrite E. unfold nbr_dists.
    rewrite (nth_indep (map (w i) (nbrs i)) zero (w i 0)) by (rewrite map_length; exact Hl). now rewrite map_nth.
  Qed.

  (* ---------------------------------------------------------------- *)
  (* all nodes                                                          *)
  (* ---------------------------------------------------------------- *)

  Definition radius_of (i : nat) : Z := zmaxl zero (nbr_dists i).

  Record arcs_inv (g0 : @knn Z) (t : nat) (g : @knn Z) (maxd : list Z) (ns : list nat) : Prop := {
    ai_label : k_label g = k_label g0;
    ai_dens : k_dens g = k_dens g0;
    ai_cost : k_cost g = k_cost g0;
    ai_pred : k_pred g = k_pred g0;
    ai_root : k_root g = k_root g0;
    ai_plabel : k_plabel g = k_plabel g0;
    ai_clabel : k_clabel g = k_clabel g0;
    ai_order : k_order g = k_order g0;
    ai_ncl : k_nclusters g = k_nclusters g0;
    ai_adj_len : length (k_adj g) = length (k_adj g0);
    ai_rad_len : length (k_radius g) = length (k_radius g0);
    ai_np_len : length (k_nplat g) = length (k_nplat g0);
    ai_adj : forall i, nth i (k_adj g) [] = if i <? t then nbrs i ++ nth i (k_adj g0) [] else nth i (k_adj g0) [];
    ai_rad : forall i, nth i (k_radius g) zero = if i <? t then radius_of i else nth i (k_radius g0) zero;
    ai_np : forall i, nth i (k_nplat g) 0 = if i <? t then 0 else nth i (k_nplat g0) 0;
    ai_gdens : k_gdens g = Z.max (k_gdens g0) (zmaxl zero (map radius_of (seq 0 t)));
    ai_ns : k < length ns;
    ai_maxd_len : length maxd = k;
    ai_maxd : forall l, nth l maxd zero = zmaxl zero (map (fun i => nth l (nbr_dists i) zero) (seq 0 t))
  }.

  Lemma arcs_fold_inv (g0 : @knn Z) :
    length (k_adj g0) = n -> length (k_radius g0) = n -> (zero <= k_gdens g0)%Z ->
    forall t, t <= n ->
      let '(g, maxd, ns) := fold_left node (seq 0 t) (g0, repeat zero k, repeat 0 (S k)) in
      arcs_inv g0 t g maxd ns.
  Proof.
    intros Hadj Hrad Hgd. induction t as [|t IH]; intros Ht.
    - cbn [seq fold_left]. constructor; auto; try (rewrite repeat_length; lia).
      + cbn [seq map zmaxl fold_right]. lia.
      + intros l. cbn [seq map zmaxl fold_right]. apply nth_repeat_same.
    - rewrite seq_S, fold_left_app. cbn [plus fold_left].
      specialize (IH ltac:(lia)).
      destruct (fold_left node (seq 0 t) (g0, repeat zero k, repeat 0 (S k))) as [[g maxd] ns].
      destruct IH.
      destruct (arcs_node_spec g maxd ns t ai_ns0 ai_maxd_len0 ltac:(lia)) as (maxd' & ns' & Hnode & Hlns & Hlmaxd & Hmaxd').
      rewrite Hnode.
      constructor; cbn [k_label k_adj k_radius k_nplat k_dens k_cost k_pred k_root k_plabel k_clabel k_order k_gdens k_nclusters];
        auto; try (rewrite upd_length; assumption); try lia.
      + intros i. rewrite nth_upd, !ai_adj0, ai_adj_len0, Hadj.
        destruct (Nat.eqb_spec t i) as [<-|Hne].
        * rewrite Nat.ltb_irrefl. destruct (Nat.ltb_spec t n), (Nat.ltb_spec t (S t)); try lia. reflexivity.
        * destruct (Nat.ltb_spec i t), (Nat.ltb_spec i (S t)); try lia; reflexivity.
      + intros i. rewrite nth_upd, !ai_rad0, ai_rad_len0, Hrad.
        destruct (Nat.eqb_spec t i) as [<-|Hne].
        * destruct (Nat.ltb_spec t n), (Nat.ltb_spec t (S t)); try lia. reflexivity.
        * destruct (Nat.ltb_spec i t), (Nat.ltb_spec i (S t)); try lia; reflexivity.
      + intros i. rewrite nth_upd, !ai_np0.
        destruct (Nat.eqb_spec t i) as [<-|Hne].
        * rewrite Nat.ltb_irrefl. destruct (Nat.ltb_spec t (S t)); [|lia].
          destruct (Nat.ltb_spec t (length (k_nplat g))) as [|Hge]; [reflexivity|].
          apply nth_overflow. rewrite <- ai_np_len0. exact Hge.
        * destruct (Nat.ltb_spec i t), (Nat.ltb_spec i (S t)); try lia; reflexivity.
      + rewrite ai_gdens0, seq_S, map_app. cbn [map plus]. rewrite zmaxl_snoc.
        rewrite (zmaxl_init_ge zero) by (pose proof (zmaxl_ge_init zero (map radius_of (seq 0 t))); lia).
        unfold radius_of at 3. lia.
      + intros l. rewrite Hmaxd', ai_maxd0, seq_S, map_app. cbn [map plus]. rewrite zmaxl_snoc.
        destruct (Nat.ltb_spec l (length (nbrs t))) as [Hl|Hl]; [reflexivity|].
        rewrite (nth_overflow (nbr_dists t)) by (unfold nbr_dists; rewrite map_length; exact Hl).
        pose proof (zmaxl_ge_init zero (map (fun i => nth l (nbr_dists i) zero) (seq 0 t))). lia.
  Qed.
End Arcs.

(* ------------------------------------------------------------------ *)
(* create_arcs, any starting subgraph                                   *)
(* ------------------------------------------------------------------ *)

Theorem arcs_acc_general : forall (zero top thr one : Z) (k n : nat) (w : nat -> nat -> Z) (g : @knn Z),
  length (k_adj g) = n -> length (k_radius g) = n -> (zero <= k_gdens g)%Z ->
  (forall i j, i < n -> j < n -> i <> j -> (zero <= w i j < top)%Z) ->
  forall g' maxd, create_arcs_acc Z.ltb zero top thr one k n w g = (g', maxd) ->
  let N := nbrs k n w in
  let rad i := last (map (w i) (N i)) zero in
  let M := Z.max (k_gdens g) (fold_right Z.max zero (map rad (seq 0 n))) in
  length (k_adj g') = n /\ length (k_radius g') = n /\
  (forall i, i < n -> nth i (k_adj g') [] = N i ++ nth i (k_adj g) []) /\
  (forall i, i < n -> nth i (k_radius g') zero = rad i) /\
  (forall i, i < n -> nth i (k_nplat g') 0 = 0) /\
  k_gdens g' = (if Z.ltb M thr then one else M) /\
  length maxd = k /\
  (forall l, nth l maxd zero = fold_right Z.max zero (map (fun i => nth l (map (w i) (N i)) zero) (seq 0 n))) /\
  k_label g' = k_label g /\ k_dens g' = k_dens g /\ k_cost g' = k_cost g /\ k_pred g' = k_pred g /\
  k_root g' = k_root g /\ k_plabel g' = k_plabel g /\ k_clabel g' = k_clabel g /\ k_order g' = k_order g /\
  k_nclusters g' = k_nclusters g.
Proof.
  intros zero top thr one k n w g Hadj Hrad Hgd Hw g' maxd Hca N rad M.
  unfold create_arcs_acc in Hca.
  pose proof (arcs_fold_inv zero top k n w Hw g Hadj Hrad Hgd n (le_n n)) as Hinv.
  destruct (fold_left (arcs_node Z.ltb zero top k n w) (seq 0 n) (g, repeat zero k, repeat 0 (S k)))
    as [[g1 md] ns1].
  injection Hca as <- <-. destruct Hinv.
  cbn [k_label k_adj k_radius k_nplat k_dens k_cost k_pred k_root k_plabel k_clabel k_order k_gdens k_nclusters].
  assert (Hradeq : map (radius_of zero k n w) (seq 0 n) = map rad (seq 0 n)).
  { apply map_ext_in. intros i Hi. apply in_seq in Hi. unfold radius_of, rad, N.
    apply (radius_last zero top k n w Hw). lia. }
  split; [lia|]. split; [lia|]. split; [|split; [|split; [|split; [|split; [|split]]]]].
  - intros i Hi. rewrite ai_adj0. destruct (Nat.ltb_spec i n); [reflexivity|lia].
  - intros i Hi. rewrite ai_rad0. destruct (Nat.ltb_spec i n); [|lia].
    apply (radius_last zero top k n w Hw). exact Hi.
  - intros i Hi. rewrite ai_np0. destruct (Nat.ltb_spec i n); [reflexivity|lia].
  - rewrite ai_gdens0, Hradeq. reflexivity.
  - exact ai_maxd_len0.
  - exact ai_maxd0.
  - repeat split; assumption.
Qed.

(* KNNSubgraph.create_arcs itself: the bound is reset first, so it is the largest radius whatever the graph held *)
Lemma zmaxl_ge_zero (zero : Z) (l : list Z) : (zero <= fold_right Z.max zero l)%Z.
Proof. induction l as [|a l IH]; cbn [fold_right]; lia. Qed.

Theorem arcs_general : forall (zero top thr one : Z) (k n : nat) (w : nat -> nat -> Z) (g : @knn Z),
  length (k_adj g) = n -> length (k_radius g) = n ->
  (forall i j, i < n -> j < n -> i <> j -> (zero <= w i j < top)%Z) ->
  forall g' maxd, create_arcs Z.ltb zero top thr one k n w g = (g', maxd) ->
  let N := nbrs k n w in
  let rad i := last (map (w i) (N i)) zero in
  let M := fold_right Z.max zero (map rad (seq 0 n)) in
  length (k_adj g') = n /\ length (k_radius g') = n /\
  (forall i, i < n -> nth i (k_adj g') [] = N i ++ nth i (k_adj g) []) /\
  (forall i, i < n -> nth i (k_radius g') zero = rad i) /\
  (forall i, i < n -> nth i (k_nplat g') 0 = 0) /\
  k_gdens g' = (if Z.ltb M thr then one else M) /\
  length maxd = k /\
  (forall l, nth l maxd zero = fold_right Z.max zero (map (fun i => nth l (map (w i) (N i)) zero) (seq 0 n))) /\
  k_label g' = k_label g /\ k_dens g' = k_dens g /\ k_cost g' = k_cost g /\ k_pred g' = k_pred g /\
  k_root g' = k_root g /\ k_plabel g' = k_plabel g /\ k_clabel g' = k_clabel g /\ k_order g' = k_order g /\
  k_nclusters g' = k_nclusters g.
Proof.
  intros zero top thr one k n w g Hadj Hrad Hw g' maxd Hca N rad M.
  unfold create_arcs in Hca.
  pose proof (arcs_acc_general zero top thr one k n w (reset_gdens zero g) Hadj Hrad (Z.le_refl zero) Hw g' maxd Hca) as H.
  cbn [reset_gdens k_label k_adj k_radius k_nplat k_dens k_cost k_pred k_root k_plabel k_clabel k_order k_gdens k_nclusters] in H.
  fold N in H. fold rad in H.
  replace (Z.max zero (fold_right Z.max zero (map rad (seq 0 n)))) with M in H
    by (unfold M; pose proof (zmaxl_ge_zero zero (map rad (seq 0 n))); lia).
  exact H.
Qed.

Lemma reset_gdens_init (zero : Z) labels : reset_gdens zero (knn_init zero labels) = knn_init zero labels.
Proof. reflexivity. Qed.

(* what the prepended list is: the min k (n-1) nearest other samples in stable order *)
Theorem nbrs_props : forall (k n : nat) (w : nat -> nat -> Z) (i : nat), i < n ->
  let N := nbrs k n w i in
  length N = Nat.min k (n - 1) /\ NoDup N /\ ~ In i N /\ (forall j, In j N -> j < n) /\
  (forall a b, a < b -> b < length N -> lexlt (w i) (nth a N 0) (nth b N 0)) /\
  (forall j, j < n -> j <> i -> ~ In j N -> forall a, In a N -> lexlt (w i) a j).
Proof.
  intros k n w i Hi N. split; [apply nbrs_length, Hi|]. split; [apply nbrs_NoDup|].
  split; [intros H; apply nbrs_In in H; lia|]. split; [intros j H; apply nbrs_In in H; lia|]. split.
  - intros a b Hab Hb. apply (StronglySorted_nth (lexlt (w i)) 0 N (nbrs_sorted k n w i)); assumption.
  - intros j Hj Hji Hnin a Ha. apply (nbrs_minimal k n w i j a); assumption.
Qed.

(* ------------------------------------------------------------------ *)
(* create_arcs on a fresh subgraph                                      *)
(* ------------------------------------------------------------------ *)

Lemma knn_init_fresh (zero : Z) labels :
  length (k_adj (knn_init zero labels)) = length labels /\
  length (k_radius (knn_init zero labels)) = length labels /\
  k_gdens (knn_init zero labels) = zero /\
  (forall i, nth i (k_adj (knn_init zero labels)) [] = []).
Proof.
  unfold knn_init. cbn [k_adj k_radius k_gdens]. rewrite !repeat_length.
  repeat split. intros i. apply nth_repeat_same.
Qed.

Theorem arcs_exact : forall (zero top thr one : Z) (k n : nat) (w : nat -> nat -> Z) (labels : list nat),
  length labels = n ->
  (forall i j, i < n -> j < n -> i <> j -> (zero <= w i j < top)%Z) ->
  forall g' maxd, create_arcs Z.ltb zero top thr one k n w (knn_init zero labels) = (g', maxd) ->
  let adj i := nth i (k_adj g') [] in
  let dl i l := nth l (map (w i) (adj i)) zero in
  let rad i := nth i (k_radius g') zero in
  let M := fold_right Z.max zero (map rad (seq 0 n)) in
  (forall i, i < n ->
     length (adj i) = Nat.min k (n - 1) /\ NoDup (adj i) /\ ~ In i (adj i) /\ (forall j, In j (adj i) -> j < n) /\
     (forall a b, a <= b -> b < length (adj i) -> (w i (nth a (adj i) 0%nat) <= w i (nth b (adj i) 0%nat))%Z) /\
     (forall j, j < n -> j <> i -> ~ In j (adj i) -> forall a, In a (adj i) -> (w i a <= w i j)%Z) /\
     (forall j, j < n -> j <> i -> ~ In j (adj i) -> (rad i <= w i j)%Z) /\
     rad i = last (map (w i) (adj i)) zero /\ (n = 1 -> rad i = zero)) /\
  length maxd = k /\
  (forall l, nth l maxd zero = fold_right Z.max zero (map (fun i => dl i l) (seq 0 n))) /\
  k_gdens g' = (if Z.ltb M thr then one else M).
Proof.
  intros zero top thr one k n w labels Hlen Hw g' maxd Hca adj dl rad M.
  destruct (knn_init_fresh zero labels) as (Hal & Hrl & Hgd0 & Hadj0).
  destruct (arcs_general zero top thr one k n w (knn_init zero labels)
              ltac:(lia) ltac:(lia) Hw g' maxd Hca)
    as (_ & _ & Hadj & Hrad & _ & Hgd & Hml & Hmaxd & _).
  assert (Hadj' : forall i, i < n -> adj i = nbrs k n w i).
  { intros i Hi. unfold adj. rewrite (Hadj i Hi), Hadj0. apply app_nil_r. }
  split; [|split; [exact Hml|split]].
  - intros i Hi. rewrite (Hadj' i Hi).
    destruct (nbrs_props k n w i Hi) as (HNlen & HNnd & HNi & HNlt & HNsort & HNmin).
    assert (Hradi : rad i = last (map (w i) (nbrs k n w i)) zero) by (apply Hrad, Hi).
    assert (Hle : forall j, j < n -> j <> i -> ~ In j (nbrs k n w i) ->
                  forall a, In a (nbrs k n w i) -> (w i a <= w i j)%Z).
    { intros j Hj Hji Hnin a Ha. apply (lexlt_dle (w i)), HNmin; assumption. }
    split; [exact HNlen|]. split; [exact HNnd|]. split; [exact HNi|]. split; [exact HNlt|].
    split; [|split; [exact Hle|split; [|split; [exact Hradi|]]]].
    + intros a b Hab Hb. destruct (Nat.eq_dec a b) as [->|Hne]; [lia|].
      apply (lexlt_dle (w i)), HNsort; lia.
    + intros j Hj Hji Hnin. rewrite Hradi.
      change (map (w i) (nbrs k n w i)) with (nbr_dists k n w i).
      rewrite <- (radius_last zero top k n w Hw i Hi).
      destruct (zmaxl_attained zero (nbr_dists k n w i)) as [->|Hin]; [apply Hw; lia|].
      apply in_map_iff in Hin. destruct Hin as (a & <- & Ha). apply Hle; assumption.
    + intros ->. rewrite Hradi. cbn [Nat.sub Nat.min] in HNlen. rewrite Nat.min_0_r in HNlen.
      destruct (nbrs k 1 w i); [reflexivity|discriminate].
  - intros l. rewrite Hmaxd. f_equal. apply map_ext_in. intros i Hi. apply in_seq in Hi.
    unfold dl. rewrite Hadj' by lia. reflexivity.
  - rewrite Hgd.
    assert (HM : M = fold_right Z.max zero
                       (map (fun i => last (map (w i) (nbrs k n w i)) zero) (seq 0 n))).
    { unfold M. f_equal. apply map_ext_in. intros i Hi. apply in_seq in Hi. apply Hrad. lia. }
    rewrite <- HM. reflexivity.
Qed.

(* the stable tie order of the adjacency lists (earlier index wins among equal distances) *)
Theorem arcs_tie_order : forall (zero top thr one : Z) (k n : nat) (w : nat -> nat -> Z) (labels : list nat),
  length labels = n ->
  (forall i j, i < n -> j < n -> i <> j -> (zero <= w i j < top)%Z) ->
  forall g' maxd, create_arcs Z.ltb zero top thr one k n w (knn_init zero labels) = (g', maxd) ->
  forall i, i < n ->
  let adj := nth i (k_adj g') [] in
  adj = firstn k (isort (w i) (filter (fun j => negb (j =? i)) (seq 0 n))) /\
  (forall a b, a < b -> b < length adj ->
     (w i (nth a adj 0%nat) < w i (nth b adj 0%nat))%Z \/
     (w i (nth a adj 0) = w i (nth b adj 0) /\ nth a adj 0 < nth b adj 0)) /\
  (forall j, j < n -> j <> i -> ~ In j adj -> forall a, In a adj ->
     (w i a < w i j)%Z \/ (w i a = w i j /\ a < j)).
Proof.
  intros zero top thr one k n w labels Hlen Hw g' maxd Hca i Hi adj.
  destruct (knn_init_fresh zero labels) as (Hal & Hrl & Hgd0 & Hadj0).
  destruct (arcs_general zero top thr one k n w (knn_init zero labels)
              ltac:(lia) ltac:(lia) Hw g' maxd Hca)
    as (_ & _ & Hadj & _).
  assert (Hadj' : adj = nbrs k n w i).
  { unfold adj. rewrite (Hadj i Hi), Hadj0. apply app_nil_r. }
  rewrite Hadj'. destruct (nbrs_props k n w i Hi) as (_ & _ & _ & _ & HNsort & HNmin).
  split; [reflexivity|]. split; [exact HNsort|exact HNmin].
Qed.

(* per-rank maxima and density bound as suprema *)
Theorem arcs_maxima : forall (zero top thr one : Z) (k n : nat) (w : nat -> nat -> Z) (labels : list nat),
  length labels = n ->
  (forall i j, i < n -> j < n -> i <> j -> (zero <= w i j < top)%Z) ->
  forall g' maxd, create_arcs Z.ltb zero top thr one k n w (knn_init zero labels) = (g', maxd) ->
  let dl i l := nth l (map (w i) (nth i (k_adj g') [])) zero in
  let rad i := nth i (k_radius g') zero in
  (forall l, l < Nat.min k (n - 1) ->
     (forall i, i < n -> (dl i l <= nth l maxd zero)%Z) /\ (exists i, i < n /\ nth l maxd zero = dl i l)) /\
  (forall l, Nat.min k (n - 1) <= l -> nth l maxd zero = zero) /\
  (exists M, (forall i, i < n -> (rad i <= M)%Z) /\ ((exists i, i < n /\ M = rad i) \/ (n = 0 /\ M = zero)) /\
             k_gdens g' = if Z.ltb M thr then one else M).
Proof.
  intros zero top thr one k n w labels Hlen Hw g' maxd Hca dl rad.
  destruct (arcs_exact zero top thr one k n w labels Hlen Hw g' maxd Hca) as (Hnode & Hml & Hmaxd & Hgd).
  fold dl in Hmaxd. fold rad in Hgd.
  assert (Hdl0 : forall i l, i < n -> (zero <= dl i l)%Z).
  { intros i l Hi. unfold dl.
    destruct (Nat.lt_ge_cases l (length (map (w i) (nth i (k_adj g') [])))) as [Hl|Hl].
    - assert (Hin : In (nth l (map (w i) (nth i (k_adj g') [])) zero) (map (w i) (nth i (k_adj g') [])))
        by (apply nth_In, Hl).
      apply in_map_iff in Hin. destruct Hin as (a & <- & Ha).
      destruct (Hnode i Hi) as (_ & _ & Hni & Hlt & _). apply Hw; auto. intros ->. contradiction.
    - rewrite nth_overflow by exact Hl. lia. }
  assert (Hsup : forall (f : nat -> Z), (forall i, i < n -> (zero <= f i)%Z) ->
            let Sp := fold_right Z.max zero (map f (seq 0 n)) in
            (forall i, i < n -> (f i <= Sp)%Z) /\ ((exists i, i < n /\ Sp = f i) \/ (n = 0 /\ Sp = zero))).
  { intros f Hf Sp. split.
    - intros i Hi. apply (zmaxl_ge zero). apply in_map_iff. exists i. split; [reflexivity|apply in_seq; lia].
    - destruct (zmaxl_attained zero (map f (seq 0 n))) as [Hz|Hin].
      + destruct n as [|n']; [right; split; [reflexivity|exact Hz]|].
        left. exists 0. split; [lia|]. fold (zmaxl zero (map f (seq 0 (S n')))) in Sp.
        assert (f 0%nat <= Sp)%Z by (apply (zmaxl_ge zero), in_map_iff; exists 0; split; [reflexivity|apply in_seq; lia]).
        specialize (Hf 0 ltac:(lia)). unfold Sp in *. lia.
      + apply in_map_iff in Hin. destruct Hin as (i & Hi1 & Hi2). apply in_seq in Hi2.
        left. exists i. split; [lia|]. symmetry. exact Hi1. }
  split; [|split].
  - intros l Hl. rewrite Hmaxd.
    destruct (Hsup (fun i => dl i l) ltac:(intros; apply Hdl0; assumption)) as [H1 H2].
    split; [exact H1|]. destruct H2 as [H2|[Hn0 _]]; [exact H2|lia].
  - intros l Hl. rewrite Hmaxd. apply zmaxl_all_le. intros x Hx.
    apply in_map_iff in Hx. destruct Hx as (i & <- & Hi). apply in_seq in Hi. unfold dl.
    rewrite nth_overflow; [lia|]. rewrite map_length.
    destruct (Hnode i ltac:(lia)) as (Hlen' & _). rewrite Hlen'. exact Hl.
  - exists (fold_right Z.max zero (map rad (seq 0 n))).
    assert (Hrad0 : forall i, i < n -> (zero <= rad i)%Z).
    { intros i Hi. destruct (Hnode i Hi) as (_ & _ & _ & _ & _ & _ & _ & Hr & _). unfold rad. rewrite Hr.
      destruct (map (w i) (nth i (k_adj g') [])) as [|d0 D] eqn:HD; [cbn; lia|].
      assert (Hin : In (last (d0 :: D) zero) (map (w i) (nth i (k_adj g') []))).
      { rewrite HD. destruct (exists_last (l := d0 :: D) ltac:(discriminate)) as (D' & x & ->).
        rewrite last_last. apply in_or_app. right; left; reflexivity. }
      apply in_map_iff in Hin. destruct Hin as (a & <- & Ha).
      destruct (Hnode i Hi) as (_ & _ & Hni & Hlt & _). apply Hw; auto. intros ->. contradiction. }
    destruct (Hsup rad Hrad0) as [H1 H2]. split; [exact H1|]. split; [exact H2|exact Hgd].
Qed.
