(* C11: the five Euclidean-family identifiers (squared_euclidean, euclidean, average_euclidean,
   log_euclidean, log_squared_euclidean) are strictly increasing transforms of the squared Euclidean
   distance, hence induce the same order on pairs of vectors. *)
From Coq Require Import Reals List Lra Lia.
From OPF Require Import Spec.MetricSpec Proofs.MetricLemmas.
Import ListNotations.
Open Scope R_scope.

Lemma sq_euclid_nonneg x y : 0 <= sp_squared_euclidean x y.
Proof. unfold sp_squared_euclidean. apply sum2_nonneg. intros a b. apply pow2_ge_0. Qed.

(* ---------------- closed forms in terms of sq ---------------- *)

Lemma euclid_family_forms : forall x y : list R,
  let sq := sp_squared_euclidean x y in
  0 <= sq /\
  sp_euclidean x y = sqrt sq /\
  sp_average_euclidean x y = sqrt (sq / len x) /\
  sp_log_euclidean x y = MAX_ARC_WEIGHT * ln (sqrt sq + 1) /\
  sp_log_squared_euclidean x y = MAX_ARC_WEIGHT * ln (sq + 1).
Proof.
  intros x y sq. split; [apply sq_euclid_nonneg|]. repeat split; reflexivity.
Qed.

(* ---------------- the four transforms ---------------- *)

Lemma t_sqrt_mono a b : 0 <= a < b -> sqrt a < sqrt b.
Proof. intros H. apply sqrt_lt_1_alt. exact H. Qed.

Lemma t_avg_mono N a b : 0 < N -> 0 <= a < b -> sqrt (a / N) < sqrt (b / N).
Proof.
  intros HN [Ha Hab]. pose proof (Rinv_0_lt_compat N HN) as Hi.
  apply sqrt_lt_1_alt. unfold Rdiv. split.
  - apply Rmult_le_pos; lra.
  - apply Rmult_lt_compat_r; assumption.
Qed.

Lemma t_log_mono C a b : 0 < C -> 0 <= a < b -> C * ln (a + 1) < C * ln (b + 1).
Proof.
  intros HC [Ha Hab]. apply Rmult_lt_compat_l; [exact HC|]. apply ln_increasing; lra.
Qed.

Lemma t_logsqrt_mono C a b : 0 < C -> 0 <= a < b -> C * ln (sqrt a + 1) < C * ln (sqrt b + 1).
Proof.
  intros HC H. apply t_log_mono; [exact HC|]. split; [apply sqrt_pos|apply t_sqrt_mono, H].
Qed.

Lemma MAX_ARC_WEIGHT_pos : 0 < MAX_ARC_WEIGHT.
Proof. unfold MAX_ARC_WEIGHT. lra. Qed.

Lemma euclid_family_monotone :
  MAX_ARC_WEIGHT = 100000 /\
  ((forall a b, 0 <= a < b -> sqrt a < sqrt b) /\ sqrt 0 = 0) /\
  (forall N, 0 < N -> (forall a b, 0 <= a < b -> sqrt (a / N) < sqrt (b / N)) /\ sqrt (0 / N) = 0) /\
  ((forall a b, 0 <= a < b -> MAX_ARC_WEIGHT * ln (sqrt a + 1) < MAX_ARC_WEIGHT * ln (sqrt b + 1)) /\
   MAX_ARC_WEIGHT * ln (sqrt 0 + 1) = 0) /\
  ((forall a b, 0 <= a < b -> MAX_ARC_WEIGHT * ln (a + 1) < MAX_ARC_WEIGHT * ln (b + 1)) /\
   MAX_ARC_WEIGHT * ln (0 + 1) = 0).
Proof.
  split; [reflexivity|]. split; [|split; [|split]].
  - split; [exact t_sqrt_mono|exact sqrt_0].
  - intros N HN. split; [intros a b; apply t_avg_mono, HN|].
    unfold Rdiv. rewrite Rmult_0_l. exact sqrt_0.
  - split; [intros a b; apply t_logsqrt_mono, MAX_ARC_WEIGHT_pos|].
    rewrite sqrt_0, Rplus_0_l, ln_1. ring.
  - split; [intros a b; apply t_log_mono, MAX_ARC_WEIGHT_pos|].
    rewrite Rplus_0_l, ln_1. ring.
Qed.

(* ---------------- order transfer ---------------- *)

(* a map that is strictly increasing on [0, oo) reflects and preserves < and = there *)
Lemma strict_mono_iff (f : R -> R) :
  (forall a b, 0 <= a < b -> f a < f b) ->
  forall a b, 0 <= a -> 0 <= b -> (a < b <-> f a < f b) /\ (a = b <-> f a = f b).
Proof.
  intros Hf a b Ha Hb. split; split.
  - intros Hab. apply Hf. lra.
  - intros Hfab. destruct (Rtotal_order a b) as [H|[H|H]]; [exact H|subst; lra|].
    pose proof (Hf b a ltac:(lra)). lra.
  - intros ->. reflexivity.
  - intros Hfab. destruct (Rtotal_order a b) as [H|[H|H]]; [|exact H|].
    + pose proof (Hf a b ltac:(lra)). lra.
    + pose proof (Hf b a ltac:(lra)). lra.
Qed.

Lemma len_pos (x : list R) : (1 <= length x)%nat -> 0 < len x.
Proof. intros H. unfold len. apply lt_0_INR. lia. Qed.

Lemma euclid_family_order : forall x y x' y' : list R,
  let s := sp_squared_euclidean x y in
  let s' := sp_squared_euclidean x' y' in
  ((s < s' <-> sp_euclidean x y < sp_euclidean x' y') /\
   (s = s' <-> sp_euclidean x y = sp_euclidean x' y')) /\
  (length x = length x' -> (1 <= length x)%nat ->
   (s < s' <-> sp_average_euclidean x y < sp_average_euclidean x' y') /\
   (s = s' <-> sp_average_euclidean x y = sp_average_euclidean x' y')) /\
  ((s < s' <-> sp_log_euclidean x y < sp_log_euclidean x' y') /\
   (s = s' <-> sp_log_euclidean x y = sp_log_euclidean x' y')) /\
  ((s < s' <-> sp_log_squared_euclidean x y < sp_log_squared_euclidean x' y') /\
   (s = s' <-> sp_log_squared_euclidean x y = sp_log_squared_euclidean x' y')).
Proof.
  intros x y x' y' s s'.
  pose proof (sq_euclid_nonneg x y) as Hs. pose proof (sq_euclid_nonneg x' y') as Hs'.
  fold s in Hs. fold s' in Hs'.
  split; [|split; [|split]].
  - exact (strict_mono_iff sqrt t_sqrt_mono s s' Hs Hs').
  - intros Hlen H1. unfold sp_average_euclidean. fold s s'.
    replace (len x') with (len x) by (unfold len; rewrite Hlen; reflexivity).
    exact (strict_mono_iff (fun t => sqrt (t / len x)) (fun a b => t_avg_mono (len x) a b (len_pos x H1)) s s' Hs Hs').
  - unfold sp_log_euclidean, sp_euclidean. fold s s'.
    exact (strict_mono_iff (fun t => MAX_ARC_WEIGHT * ln (sqrt t + 1))
             (fun a b => t_logsqrt_mono MAX_ARC_WEIGHT a b MAX_ARC_WEIGHT_pos) s s' Hs Hs').
  - unfold sp_log_squared_euclidean. fold s s'.
    exact (strict_mono_iff (fun t => MAX_ARC_WEIGHT * ln (t + 1))
             (fun a b => t_log_mono MAX_ARC_WEIGHT a b MAX_ARC_WEIGHT_pos) s s' Hs Hs').
Qed.
