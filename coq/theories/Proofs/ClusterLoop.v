(* C13: the competition loop of the two density-clustering routines (Model/Knn.v: [cl_seed],
   [cl_relax], [cl_loop], [cl_run]) over the proved max-heap specification (HeapInv.v).
   One proof for both flavours: [sup]/[force] are parameters and the visited neighbour list
   [nbrs] is abstract (it may only depend on fields the loop never writes).

   Loop invariant [CInv rem h g lc] ([rem] = nodes removed so far, in order).  The forest
   properties do not depend on which queued element [remove] returns, only on the heap
   bookkeeping (colours, costs, emptiness) - no monotone removal order is claimed (a root's
   cost is raised after its removal). *)
From Coq Require Import List Arith Bool ZArith Lia ZifyBool Permutation.
From OPF Require Import Base.Lists Model.Heap Model.Knn Proofs.HeapBase Proofs.HeapInv
  Spec.Paths Spec.Trees Proofs.ClusterBase.
Import ListNotations.
Close Scope Z_scope.

Lemma nth_if_upd {A} (b : bool) (l : list A) q v x d :
  x <> q -> nth x (if b then upd l q v else l) d = nth x l d.
Proof. intros H. destruct b; [apply nth_upd_neq; congruence|reflexivity]. Qed.

Lemma length_if_upd {A} (b : bool) (l : list A) q v :
  length (if b then upd l q v else l) = length l.
Proof. destruct b; [apply upd_length|reflexivity]. Qed.

Section Cluster.
  Variables (zero top bot : Z) (n : nat) (sup force : bool).
  Notation knn := (@knn Z).
  Variable nbrs : knn -> nat -> list nat.
  Variable g0 : knn.

  Definition dens (q : nat) : Z := nth q (k_dens g0) zero.
  Definition cost0 (q : nat) : Z := nth q (k_cost g0) zero.
  Definition lab (q : nat) : nat := nth q (k_label g0) 0.

  (* [nbrs] reads only the adjacency lists and the plateau counters *)
  Hypothesis Hnb_frame : forall (g g' : knn) p,
    k_adj g' = k_adj g -> k_nplat g' = k_nplat g -> nbrs g' p = nbrs g p.
  Hypothesis Hnb_lt : forall p q, p < n -> In q (nbrs g0 p) -> q < n.
  Hypothesis Hl_cost : length (k_cost g0) = n.
  Hypothesis Hl_pred : length (k_pred g0) = n.
  Hypothesis Hl_root : length (k_root g0) = n.
  Hypothesis Hl_plabel : length (k_plabel g0) = n.
  Hypothesis Hl_clabel : length (k_clabel g0) = n.
  Hypothesis Hc0 : forall i, i < n -> (cost0 i < dens i)%Z.
  (* only the [force] flavour ever produces the offer [bot] *)
  Hypothesis Hbot : force = true -> forall i, i < n -> (bot < cost0 i)%Z.

  Definition predf (g : knn) (q : nat) : option nat := nth q (k_pred g) None.
  Definition rootf (g : knn) (q : nat) : nat := nth q (k_root g) 0.
  Definition plab (g : knn) (q : nat) : nat := nth q (k_plabel g) 0.
  Definition clab (g : knn) (q : nat) : nat := nth q (k_clabel g) 0.
  Definition costf (g : knn) (q : nat) : Z := nth q (k_cost g) zero.
  Definition isroot (g : knn) (q : nat) : bool :=
    match predf g q with None => true | Some _ => false end.
  Definition hc (h : heap Z) (q : nat) : Z := nth q (hcost h) top.
  Definition col (h : heap Z) (q : nat) : color := nth q (hcolor h) White.

  (* the fields the competition never writes ([k_nclusters] is left out: the unsupervised
     routine assigns it afterwards) *)
  Definition Frame (g : knn) : Prop :=
    k_label g = k_label g0 /\ k_adj g = k_adj g0 /\ k_radius g = k_radius g0 /\
    k_nplat g = k_nplat g0 /\ k_dens g = k_dens g0 /\ k_gdens g = k_gdens g0.

  Record CInv (rem : list nat) (h : heap Z) (g : knn) (lc : nat) : Prop := mkCInv {
    ci_inv : Inv h; ci_size : hsize h = n; ci_pol : hpol h = PMax;
    ci_hn : hn h + length rem = n;
    ci_frame : Frame g;
    ci_lcost : length (k_cost g) = n; ci_lpred : length (k_pred g) = n;
    ci_lroot : length (k_root g) = n; ci_lplabel : length (k_plabel g) = n;
    ci_lclabel : length (k_clabel g) = n;
    ci_order : k_order g = k_order g0 ++ rem;
    ci_nodup : NoDup rem;
    ci_rem_lt : forall q, In q rem -> q < n;
    ci_black : forall q, In q rem -> col h q = Black;
    ci_gray : forall q, q < n -> ~ In q rem -> col h q = Gray;
    ci_cost : forall q, In q rem -> costf g q = hc h q;
    ci_root : forall q, q < n -> predf g q = None ->
        rootf g q = q /\
        (In q rem -> hc h q = dens q /\ (sup = true -> plab g q = lab q)) /\
        (~ In q rem -> hc h q = cost0 q);
    ci_link : forall q p, q < n -> predf g q = Some p ->
        In p rem /\ p <> q /\ In q (nbrs g0 p) /\ rootf g q = rootf g p /\
        hc h q = Z.min (hc h p) (dens q) /\ (cost0 q < hc h q)%Z /\
        (sup = true -> plab g q = plab g p) /\ (sup = false -> clab g q = clab g p) /\
        (force = true -> lab p = lab q) /\ (In q rem -> before rem p q);
    ci_ids : sup = false ->
        lc = length (filter (isroot g) rem) /\
        forall i, i < lc -> clab g (nth i (filter (isroot g) rem) 0) = i }.

  (* ---------------- heap facts ---------------- *)

  Lemma hc_upd h h' q c : hcost h' = upd (hcost h) q c -> q < length (hcost h) ->
    forall x, hc h' x = if Nat.eqb q x then c else hc h x.
  Proof.
    intros E Hq x. unfold hc. rewrite E, nth_upd.
    destruct (Nat.eqb_spec q x); [|reflexivity].
    destruct (Nat.ltb_spec q (length (hcost h))); [reflexivity|lia].
  Qed.

  Lemma upd_gray_ok h q c :
    Inv h -> hsize h = n -> hpol h = PMax -> q < n -> col h q = Gray -> (hc h q <= c)%Z ->
    let h' := update Z.ltb top h q c in
    Inv h' /\ hsize h' = n /\ hpol h' = PMax /\ hn h' = hn h /\
    hcost h' = upd (hcost h) q c /\ hcolor h' = hcolor h.
  Proof.
    intros HI Hs Hp Hq Hg Hc. cbv zeta.
    assert (Hqs : q < hsize h) by lia.
    assert (Hin : In q (queued h)) by (apply (inv_color h HI q Hqs); exact Hg).
    assert (Hb : better Z.ltb (hpol h) (cost top h q) c = false).
    { rewrite Hp. cbn [better]. unfold cost. unfold hc in Hc. lia. }
    pose proof (update_gray_spec top h q c HI Hin Hb) as X. cbv zeta in X.
    destruct X as (A & B & C & D & E & F).
    split; [exact A|]. split; [congruence|]. split; [congruence|].
    split; [|split; assumption].
    rewrite <- (queued_length _ (Inv_WF _ A)), <- (queued_length _ (Inv_WF _ HI)).
    apply Permutation_length. exact B.
  Qed.

  Lemma remove_ok h :
    Inv h -> hsize h = n -> hpol h = PMax -> 0 < hn h ->
    exists p h', remove Z.ltb top h = (h', Some p) /\ p < n /\ col h p = Gray /\
      Inv h' /\ hsize h' = n /\ hpol h' = PMax /\ S (hn h') = hn h /\
      hcost h' = hcost h /\ hcolor h' = upd (hcolor h) p Black /\ ~ In p (queued h').
  Proof.
    intros HI Hs Hp Hpos.
    destruct (remove_spec top h HI Hpos) as (p & h' & E & Hin & _ & Hperm & HI' & A & B & C & D).
    exists p, h'. split; [exact E|].
    pose proof (inv_range h HI p Hin) as Hpn.
    split; [lia|]. split; [apply (inv_color h HI p Hpn); exact Hin|].
    split; [exact HI'|]. split; [congruence|]. split; [congruence|]. split.
    { pose proof (Permutation_length Hperm) as L. cbn [length] in L.
      rewrite (queued_length _ (Inv_WF _ HI')), (queued_length _ (Inv_WF _ HI)) in L. lia. }
    split; [exact A|]. split; [exact B|].
    pose proof (Permutation_NoDup Hperm (inv_nodup h HI)) as Hnd.
    inversion Hnd; assumption.
  Qed.

  (* ---------------- seeding ---------------- *)

  Record SInv (i : nat) (h : heap Z) (g : knn) : Prop := mkSInv {
    si_inv : Inv h; si_size : hsize h = n; si_pol : hpol h = PMax;
    si_hn : hn h = i; si_le : i <= n;
    si_frame : Frame g;
    si_cost : k_cost g = k_cost g0; si_plabel : k_plabel g = k_plabel g0;
    si_clabel : k_clabel g = k_clabel g0; si_order : k_order g = k_order g0;
    si_lpred : length (k_pred g) = n; si_lroot : length (k_root g) = n;
    si_done : forall q, q < i ->
        col h q = Gray /\ hc h q = cost0 q /\ predf g q = None /\ rootf g q = q;
    si_white : forall q, i <= q -> q < n -> col h q = White }.

  Lemma seed_init : SInv 0 (h_init top n PMax) g0.
  Proof.
    constructor; try reflexivity; try assumption.
    - apply inv_init.
    - lia.
    - unfold Frame. repeat split; reflexivity.
    - intros q Hq. lia.
    - intros q _ Hq. unfold col, h_init; cbn [hcolor]. apply nth_repeat_any. exact Hq.
  Qed.

  Lemma seed_step i h g :
    SInv i h g -> i < n ->
    SInv (S i) (fst (cl_seed Z.ltb zero top (h, g) i)) (snd (cl_seed Z.ltb zero top (h, g) i)).
  Proof.
    intros HS Hi. destruct HS as [HI Hs Hp Hn Hle Hfr Hco Hpl Hcl Hor Hlp Hlr Hdone Hwh].
    unfold cl_seed. cbn [fst snd].
    assert (His : i < hsize h) by lia.
    assert (Hnq : ~ In i (queued h)).
    { intros Hin. apply (inv_color h HI i His) in Hin.
      pose proof (Hwh i ltac:(lia) Hi) as Hw. unfold col in Hw. congruence. }
    set (c := nth i (k_cost g) zero).
    pose proof (set_cost_nonqueued_inv top h i c HI Hnq) as HI1.
    pose proof (insert_spec top (set_cost h i c) i HI1 His Hnq ltac:(cbn [set_cost hn hsize]; lia)) as X.
    destruct (insert Z.ltb top (set_cost h i c) i) as [h' b]. cbn [fst].
    destruct X as (_ & HI' & Hperm & A & B & C & D).
    cbn [set_cost hcost hcolor hsize hpol] in A, B, C, D.
    assert (Hlc : i < length (hcost h)) by (rewrite (inv_lcost h HI); exact His).
    assert (Hlcol : i < length (hcolor h)) by (rewrite (inv_lcolor h HI); exact His).
    constructor; cbn [k_label k_adj k_radius k_nplat k_dens k_cost k_pred k_root k_plabel
                      k_clabel k_order k_gdens k_nclusters]; try assumption.
    - congruence.
    - congruence.
    - pose proof (Permutation_length Hperm) as L. cbn [length] in L.
      rewrite (queued_length _ (Inv_WF _ HI')) in L.
      change (queued (set_cost h i c)) with (queued h) in L.
      rewrite (queued_length _ (Inv_WF _ HI)) in L. lia.
    - rewrite upd_length. exact Hlp.
    - rewrite upd_length. exact Hlr.
    - intros q Hq. unfold col, hc, predf, rootf; cbn [k_pred k_root]. rewrite A, B.
      destruct (Nat.eq_dec q i) as [->|Hne].
      + rewrite !nth_upd_eq by lia. unfold c, cost0. rewrite Hco. auto.
      + rewrite !nth_upd_neq by congruence. apply Hdone. lia.
    - intros q Hq Hqn. unfold col. rewrite B. rewrite nth_upd_neq by lia. apply Hwh; lia.
  Qed.

  Lemma seed_fold i : i <= n ->
    SInv i (fst (fold_left (cl_seed Z.ltb zero top) (seq 0 i) (h_init top n PMax, g0)))
           (snd (fold_left (cl_seed Z.ltb zero top) (seq 0 i) (h_init top n PMax, g0))).
  Proof.
    induction i as [|i IH]; intros Hi.
    - cbn. apply seed_init.
    - rewrite seq_S, fold_left_app. cbn [fold_left plus].
      specialize (IH ltac:(lia)).
      destruct (fold_left (cl_seed Z.ltb zero top) (seq 0 i) (h_init top n PMax, g0)) as [h g].
      cbn [fst snd] in IH. apply seed_step; [exact IH|lia].
  Qed.

  Lemma seed_CInv h g : SInv n h g -> CInv [] h g 0.
  Proof.
    intros [HI Hs Hp Hn Hle Hfr Hco Hpl Hcl Hor Hlp Hlr Hdone Hwh].
    constructor; try assumption; try congruence.
    - cbn. lia.
    - rewrite app_nil_r. exact Hor.
    - constructor.
    - intros q [].
    - intros q [].
    - intros q Hq _. apply Hdone; exact Hq.
    - intros q [].
    - intros q Hq _. destruct (Hdone q Hq) as (_ & A & _ & B).
      split; [exact B|]. split; [intros []|]. intros _. exact A.
    - intros q p Hq Hpr. destruct (Hdone q Hq) as (_ & _ & A & _). congruence.
    - intros _. cbn. split; [reflexivity|]. intros i Hi. lia.
  Qed.

  (* ---------------- one relaxation ---------------- *)

  Definition CI (rem : list nat) (st : heap Z * knn) (lc : nat) : Prop :=
    CInv rem (fst st) (snd st) lc.

  Lemma cost0_le_hc rem h g lc q : CInv rem h g lc -> q < n -> (cost0 q <= hc h q)%Z.
  Proof.
    intros HC Hq. destruct (predf g q) as [p|] eqn:Hp.
    - destruct (ci_link _ _ _ _ HC q p Hq Hp) as (_ & _ & _ & _ & _ & A & _). lia.
    - destruct (ci_root _ _ _ _ HC q Hq Hp) as (_ & A & B).
      destruct (in_dec Nat.eq_dec q rem) as [Hin|Hnin].
      + destruct (A Hin) as [E _]. rewrite E. specialize (Hc0 q Hq). lia.
      + rewrite (B Hnin). lia.
  Qed.

  Lemma relax_step rem st lc p q :
    CI rem st lc -> In p rem -> q < n -> In q (nbrs g0 p) ->
    CI rem (cl_relax Z.ltb zero top bot sup force p st q) lc.
  Proof.
    destruct st as [h g]. unfold CI. cbn [fst snd]. intros HC Hp Hq Hnb.
    unfold cl_relax.
    destruct (is_blackk h q) eqn:Hblk; [exact HC|].
    assert (Hqr : ~ In q rem).
    { intros Hin. pose proof (ci_black _ _ _ _ HC q Hin) as Hb.
      unfold is_blackk in Hblk. unfold col in Hb. rewrite Hb in Hblk. discriminate. }
    assert (Hpq : p <> q) by (intros ->; contradiction).
    pose proof (ci_gray _ _ _ _ HC q Hq Hqr) as Hgray.
    pose proof (ci_frame _ _ _ _ HC) as Hfr.
    destruct Hfr as (Flab & Fadj & Frad & Fnp & Fdens & Fgd).
    change (hcostk top h p) with (hc h p). change (hcostk top h q) with (hc h q).
    assert (Ed : nth q (k_dens g) zero = dens q) by (rewrite Fdens; reflexivity).
    assert (Elp : nth p (k_label g) 0 = lab p) by (rewrite Flab; reflexivity).
    assert (Elq : nth q (k_label g) 0 = lab q) by (rewrite Flab; reflexivity).
    rewrite Ed, Elp, Elq, wmin_Z.
    set (cur := if force && negb (Nat.eqb (lab p) (lab q)) then bot else Z.min (hc h p) (dens q)).
    destruct (Z.ltb (hc h q) cur) eqn:Hlt; [|exact HC].
    cbn [fst snd].
    pose proof (cost0_le_hc _ _ _ _ q HC Hq) as Hle0.
    assert (Hcur : cur = Z.min (hc h p) (dens q) /\ (force = true -> lab p = lab q)).
    { unfold cur in *. destruct (force && negb (Nat.eqb (lab p) (lab q))) eqn:Hf.
      - exfalso. apply andb_true_iff in Hf. destruct Hf as [Hf _].
        specialize (Hbot Hf q Hq). lia.
      - split; [reflexivity|]. intros Hfo. rewrite Hfo in Hf. cbn in Hf.
        apply negb_false_iff in Hf. apply Nat.eqb_eq in Hf. exact Hf. }
    destruct Hcur as [Ecur Hforce]. clearbody cur.
    destruct (upd_gray_ok h q cur (ci_inv _ _ _ _ HC) (ci_size _ _ _ _ HC) (ci_pol _ _ _ _ HC)
                Hq Hgray ltac:(lia)) as (HI' & Hs' & Hp' & Hn' & Hcost' & Hcol').
    set (h' := update Z.ltb top h q cur) in *.
    assert (Hhc : forall x, hc h' x = if Nat.eqb q x then cur else hc h x).
    { apply hc_upd; [exact Hcost'|].
      rewrite (inv_lcost h (ci_inv _ _ _ _ HC)), (ci_size _ _ _ _ HC). exact Hq. }
    assert (Hhcq : hc h' q = cur) by (rewrite Hhc, Nat.eqb_refl; reflexivity).
    assert (Hhco : forall x, x <> q -> hc h' x = hc h x).
    { intros x Hx. rewrite Hhc. destruct (Nat.eqb_spec q x); [congruence|reflexivity]. }
    assert (Hhcr : forall x, In x rem -> hc h' x = hc h x).
    { intros x Hx. apply Hhco. intros ->. contradiction. }
    assert (Hcolx : forall x, col h' x = col h x) by (intros x; unfold col; rewrite Hcol'; reflexivity).
    assert (Hlq1 : q < length (k_pred g)) by (rewrite (ci_lpred _ _ _ _ HC); exact Hq).
    assert (Hlq2 : q < length (k_root g)) by (rewrite (ci_lroot _ _ _ _ HC); exact Hq).
    assert (Hlq3 : q < length (k_plabel g)) by (rewrite (ci_lplabel _ _ _ _ HC); exact Hq).
    assert (Hlq4 : q < length (k_clabel g)) by (rewrite (ci_lclabel _ _ _ _ HC); exact Hq).
    set (g' := mkKnn (k_label g) (k_adj g) (k_radius g) (k_nplat g) (k_dens g) (k_cost g)
                 (upd (k_pred g) q (Some p)) (upd (k_root g) q (nth p (k_root g) 0))
                 (if sup then upd (k_plabel g) q (nth p (k_plabel g) 0) else k_plabel g)
                 (if sup then k_clabel g else upd (k_clabel g) q (nth p (k_clabel g) 0))
                 (k_order g) (k_gdens g) (k_nclusters g)).
    assert (Hpredo : forall x, x <> q -> predf g' x = predf g x).
    { intros x Hx. unfold predf, g'; cbn [k_pred]. apply nth_upd_neq. congruence. }
    assert (Hpredq : predf g' q = Some p).
    { unfold predf, g'; cbn [k_pred]. apply nth_upd_eq. exact Hlq1. }
    assert (Hrooto : forall x, x <> q -> rootf g' x = rootf g x).
    { intros x Hx. unfold rootf, g'; cbn [k_root]. apply nth_upd_neq. congruence. }
    assert (Hrootq : rootf g' q = rootf g p).
    { unfold rootf, g'; cbn [k_root]. apply nth_upd_eq. exact Hlq2. }
    assert (Hplabo : forall x, x <> q -> plab g' x = plab g x).
    { intros x Hx. unfold plab, g'; cbn [k_plabel]. apply nth_if_upd. exact Hx. }
    assert (Hclabo : forall x, x <> q -> clab g' x = clab g x).
    { intros x Hx. unfold clab, g'; cbn [k_clabel]. destruct sup; [reflexivity|].
      apply nth_upd_neq. congruence. }
    assert (Hisr : forall x, x <> q -> isroot g' x = isroot g x).
    { intros x Hx. unfold isroot. rewrite Hpredo by exact Hx. reflexivity. }
    assert (Hfil : filter (isroot g') rem = filter (isroot g) rem).
    { apply filter_ext_in_local. intros x Hx. apply Hisr. intros ->. contradiction. }
    constructor.
    - exact HI'.
    - exact Hs'.
    - exact Hp'.
    - rewrite Hn'. apply HC.
    - unfold Frame, g'; cbn [k_label k_adj k_radius k_nplat k_dens k_gdens k_nclusters].
      repeat split; assumption.
    - apply (ci_lcost _ _ _ _ HC).
    - unfold g'; cbn [k_pred]. rewrite upd_length. apply HC.
    - unfold g'; cbn [k_root]. rewrite upd_length. apply HC.
    - unfold g'; cbn [k_plabel]. rewrite length_if_upd. apply HC.
    - unfold g'; cbn [k_clabel]. destruct sup; rewrite ?upd_length; apply HC.
    - apply (ci_order _ _ _ _ HC).
    - apply HC.
    - apply HC.
    - intros x Hx. rewrite Hcolx. apply (ci_black _ _ _ _ HC); exact Hx.
    - intros x Hx Hxr. rewrite Hcolx. apply (ci_gray _ _ _ _ HC); assumption.
    - intros x Hx. rewrite Hhcr by exact Hx. apply (ci_cost _ _ _ _ HC x Hx).
    - intros x Hx Hpr. assert (Hxq : x <> q) by (intros ->; congruence).
      rewrite Hpredo in Hpr by exact Hxq. rewrite Hrooto, Hplabo, Hhco by exact Hxq.
      apply (ci_root _ _ _ _ HC); assumption.
    - intros x p' Hx Hpr. destruct (Nat.eq_dec x q) as [->|Hxq].
      + rewrite Hpredq in Hpr. injection Hpr as <-.
        rewrite Hrootq, Hhcq, (Hhco p) by exact Hpq.
        rewrite (Hrooto p) by exact Hpq.
        split; [exact Hp|]. split; [exact Hpq|]. split; [exact Hnb|].
        split; [reflexivity|]. split; [exact Ecur|]. split; [lia|]. split.
        { intros Hsup. rewrite (Hplabo p) by exact Hpq.
          unfold plab, g'; cbn [k_plabel]. rewrite Hsup. apply nth_upd_eq. exact Hlq3. }
        split.
        { intros Hsup. rewrite (Hclabo p) by exact Hpq.
          unfold clab, g'; cbn [k_clabel]. rewrite Hsup. apply nth_upd_eq. exact Hlq4. }
        split; [exact Hforce|]. intros Hin. contradiction.
      + rewrite Hpredo in Hpr by exact Hxq.
        destruct (ci_link _ _ _ _ HC x p' Hx Hpr) as (A & B & C & D & E & F & G & H & I & J).
        assert (Hp'q : p' <> q) by (intros ->; contradiction).
        rewrite (Hrooto x), (Hrooto p'), (Hhco x), (Hhco p'), (Hplabo x), (Hplabo p'),
          (Hclabo x), (Hclabo p') by assumption.
        repeat split; assumption.
    - intros Hsup. rewrite Hfil. destruct (ci_ids _ _ _ _ HC Hsup) as [A B].
      split; [exact A|]. intros i Hi. rewrite Hclabo; [apply B; exact Hi|].
      intros E. apply Hqr. rewrite <- E.
      assert (Hin : In (nth i (filter (isroot g) rem) 0) (filter (isroot g) rem))
        by (apply nth_In; lia).
      apply filter_In in Hin. apply Hin.
  Qed.

  (* every [update] the loop issues hits a queued (Gray) element and does not worsen its key
     in the max direction: exactly the precondition of [update_gray_spec] (C05) *)
  Lemma heap_use_valid rem h g lc q c :
    CInv rem h g lc -> q < n -> is_blackk h q = false -> Z.ltb (hcostk top h q) c = true ->
    In q (queued h) /\ better Z.ltb (hpol h) (cost top h q) c = false.
  Proof.
    intros HC Hq Hblk Hlt.
    assert (Hqr : ~ In q rem).
    { intros Hin. pose proof (ci_black _ _ _ _ HC q Hin) as Hb.
      unfold is_blackk in Hblk. unfold col in Hb. rewrite Hb in Hblk. discriminate. }
    split.
    - apply (inv_color h (ci_inv _ _ _ _ HC) q); [rewrite (ci_size _ _ _ _ HC); exact Hq|].
      apply (ci_gray _ _ _ _ HC q Hq Hqr).
    - rewrite (ci_pol _ _ _ _ HC). cbn [better]. unfold cost. unfold hcostk in Hlt. lia.
  Qed.

  Lemma relax_fold rem lc p : In p rem -> forall l st,
    (forall q, In q l -> q < n /\ In q (nbrs g0 p)) ->
    CI rem st lc -> CI rem (fold_left (cl_relax Z.ltb zero top bot sup force p) l st) lc.
  Proof.
    intros Hp. induction l as [|q l IH]; intros st Hl HC; [exact HC|].
    cbn [fold_left]. apply IH.
    - intros x Hx. apply Hl. right. exact Hx.
    - destruct (Hl q (or_introl eq_refl)) as [A B]. apply relax_step; assumption.
  Qed.

  (* ---------------- one removal ---------------- *)

  Definition rm_h (h1 : heap Z) (g : knn) (p : nat) : heap Z :=
    if isroot g p then set_cost h1 p (nth p (k_dens g) zero) else h1.

  Definition rm_g (h2 : heap Z) (g : knn) (p lc : nat) : knn :=
    mkKnn (k_label g) (k_adj g) (k_radius g) (k_nplat g) (k_dens g)
          (upd (k_cost g) p (hcostk top h2 p)) (k_pred g) (k_root g)
          (if sup && isroot g p then upd (k_plabel g) p (nth p (k_label g) 0) else k_plabel g)
          (if negb sup && isroot g p then upd (k_clabel g) p lc else k_clabel g)
          (k_order g ++ [p]) (k_gdens g) (k_nclusters g).

  Definition rm_lc (g : knn) (p lc : nat) : nat :=
    if negb sup && isroot g p then S lc else lc.

  Lemma cl_loop_S f h g lc :
    cl_loop Z.ltb zero top bot (S f) sup force nbrs h g lc =
    match remove Z.ltb top h with
    | (_, None) => (h, g, lc)
    | (h1, Some p) =>
      let h2 := rm_h h1 g p in
      let g1 := rm_g h2 g p lc in
      let '(h3, g2) := fold_left (cl_relax Z.ltb zero top bot sup force p) (nbrs g1 p) (h2, g1) in
      cl_loop Z.ltb zero top bot f sup force nbrs h3 g2 (rm_lc g p lc)
    end.
  Proof. reflexivity. Qed.

  Lemma remove_step rem h g lc :
    CInv rem h g lc -> 0 < hn h ->
    exists p h1, remove Z.ltb top h = (h1, Some p) /\ p < n /\
      CInv (rem ++ [p]) (rm_h h1 g p) (rm_g (rm_h h1 g p) g p lc) (rm_lc g p lc).
  Proof.
    intros HC Hpos.
    destruct (remove_ok h (ci_inv _ _ _ _ HC) (ci_size _ _ _ _ HC) (ci_pol _ _ _ _ HC) Hpos)
      as (p & h1 & E & Hpn & Hgray & HI1 & Hs1 & Hp1 & Hn1 & Hcost1 & Hcol1 & Hnq1).
    exists p, h1. split; [exact E|]. split; [exact Hpn|].
    assert (Hpr : ~ In p rem).
    { intros Hin. pose proof (ci_black _ _ _ _ HC p Hin). congruence. }
    destruct (ci_frame _ _ _ _ HC) as (Flab & Fadj & Frad & Fnp & Fdens & Fgd).
    set (isr := isroot g p).
    set (h2 := rm_h h1 g p).
    assert (HI2 : Inv h2).
    { unfold h2, rm_h. destruct (isroot g p); [|exact HI1].
      apply set_cost_nonqueued_inv; assumption. }
    assert (Hs2 : hsize h2 = n) by (unfold h2, rm_h; destruct (isroot g p); exact Hs1).
    assert (Hp2 : hpol h2 = PMax) by (unfold h2, rm_h; destruct (isroot g p); exact Hp1).
    assert (Hn2 : hn h2 = hn h1) by (unfold h2, rm_h; destruct (isroot g p); reflexivity).
    assert (Hcol2 : forall x, col h2 x = if Nat.eqb p x then Black else col h x).
    { intros x. unfold col. replace (hcolor h2) with (hcolor h1)
        by (unfold h2, rm_h; destruct (isroot g p); reflexivity).
      rewrite Hcol1, nth_upd. rewrite (inv_lcolor h (ci_inv _ _ _ _ HC)), (ci_size _ _ _ _ HC).
      destruct (Nat.eqb_spec p x); [|reflexivity].
      destruct (Nat.ltb_spec p n); [reflexivity|lia]. }
    assert (Hlc : p < length (hcost h))
      by (rewrite (inv_lcost h (ci_inv _ _ _ _ HC)), (ci_size _ _ _ _ HC); exact Hpn).
    assert (Hhc2 : forall x, hc h2 x = if isr && Nat.eqb p x then dens p else hc h x).
    { intros x. unfold h2, rm_h. fold isr. destruct isr; cbn [andb].
      - unfold hc, set_cost; cbn [hcost]. rewrite Hcost1, nth_upd, Fdens. fold (dens p).
        destruct (Nat.eqb_spec p x); [|reflexivity].
        destruct (Nat.ltb_spec p (length (hcost h))); [reflexivity|lia].
      - unfold hc. rewrite Hcost1. reflexivity. }
    assert (Hhco : forall x, x <> p -> hc h2 x = hc h x).
    { intros x Hx. rewrite Hhc2. destruct (Nat.eqb_spec p x); [congruence|].
      rewrite andb_false_r. reflexivity. }
    assert (Hhcr : forall x, In x rem -> hc h2 x = hc h x).
    { intros x Hx. apply Hhco. intros ->. contradiction. }
    assert (Hinsnoc : forall x, In x (rem ++ [p]) <-> In x rem \/ x = p).
    { intros x. rewrite in_app_iff. cbn [In]. intuition. }
    set (g1 := rm_g h2 g p lc).
    assert (Hpred1 : forall x, predf g1 x = predf g x) by reflexivity.
    assert (Hroot1 : forall x, rootf g1 x = rootf g x) by reflexivity.
    assert (Hisr1 : forall x, isroot g1 x = isroot g x) by reflexivity.
    assert (Hl3 : p < length (k_plabel g)) by (rewrite (ci_lplabel _ _ _ _ HC); exact Hpn).
    assert (Hl4 : p < length (k_clabel g)) by (rewrite (ci_lclabel _ _ _ _ HC); exact Hpn).
    assert (Hl5 : p < length (k_cost g)) by (rewrite (ci_lcost _ _ _ _ HC); exact Hpn).
    assert (Hplabo : forall x, x <> p \/ isr = false -> plab g1 x = plab g x).
    { intros x Hx. unfold plab, g1, rm_g; cbn [k_plabel]. fold isr.
      destruct Hx as [Hx| ->]; [apply nth_if_upd; exact Hx|rewrite andb_false_r; reflexivity]. }
    assert (Hclabo : forall x, x <> p \/ isr = false -> clab g1 x = clab g x).
    { intros x Hx. unfold clab, g1, rm_g; cbn [k_clabel]. fold isr.
      destruct Hx as [Hx| ->]; [apply nth_if_upd; exact Hx|rewrite andb_false_r; reflexivity]. }
    constructor.
    - exact HI2.
    - exact Hs2.
    - exact Hp2.
    - rewrite app_length. cbn [length]. pose proof (ci_hn _ _ _ _ HC). lia.
    - unfold Frame, g1, rm_g; cbn [k_label k_adj k_radius k_nplat k_dens k_gdens k_nclusters].
      repeat split; assumption.
    - unfold g1, rm_g; cbn [k_cost]. rewrite upd_length. apply HC.
    - apply HC.
    - apply HC.
    - unfold g1, rm_g; cbn [k_plabel]. rewrite length_if_upd. apply HC.
    - unfold g1, rm_g; cbn [k_clabel]. rewrite length_if_upd. apply HC.
    - unfold g1, rm_g; cbn [k_order]. rewrite (ci_order _ _ _ _ HC), app_assoc. reflexivity.
    - apply (Permutation_NoDup (Permutation_cons_append rem p)).
      constructor; [exact Hpr|apply (ci_nodup _ _ _ _ HC)].
    - intros x Hx. apply Hinsnoc in Hx. destruct Hx as [Hx| ->]; [apply (ci_rem_lt _ _ _ _ HC); exact Hx|exact Hpn].
    - intros x Hx. rewrite Hcol2. destruct (Nat.eqb_spec p x); [reflexivity|].
      apply Hinsnoc in Hx. destruct Hx as [Hx|Hx]; [apply (ci_black _ _ _ _ HC); exact Hx|congruence].
    - intros x Hx Hxr. rewrite Hinsnoc in Hxr. rewrite Hcol2.
      destruct (Nat.eqb_spec p x) as [->|_]; [exfalso; apply Hxr; right; reflexivity|].
      apply (ci_gray _ _ _ _ HC); [exact Hx|]. intros Hin. apply Hxr. left. exact Hin.
    - intros x Hx. apply Hinsnoc in Hx. unfold costf, g1, rm_g; cbn [k_cost].
      destruct Hx as [Hx| ->].
      + rewrite nth_upd_neq by (intros ->; contradiction). rewrite Hhcr by exact Hx.
        apply (ci_cost _ _ _ _ HC x Hx).
      + rewrite nth_upd_eq by exact Hl5. reflexivity.
    - intros x Hx Hprx. rewrite Hpred1 in Hprx. rewrite Hroot1.
      destruct (ci_root _ _ _ _ HC x Hx Hprx) as (A & B & C). split; [exact A|].
      destruct (Nat.eq_dec x p) as [->|Hxp].
      + assert (Eisr : isr = true) by (unfold isr, isroot; rewrite Hprx; reflexivity).
        split.
        * intros _. split.
          { rewrite Hhc2, Eisr, Nat.eqb_refl. reflexivity. }
          intros Hsup. unfold plab, g1, rm_g; cbn [k_plabel]. fold isr.
          rewrite Hsup, Eisr. cbn [andb]. rewrite nth_upd_eq by exact Hl3.
          rewrite Flab. reflexivity.
        * intros Hnin. exfalso. apply Hnin. apply Hinsnoc. right. reflexivity.
      + rewrite Hhco by exact Hxp. rewrite Hplabo by (left; exact Hxp). split.
        * intros Hin. apply Hinsnoc in Hin. destruct Hin as [Hin|Hin]; [|contradiction].
          apply B; exact Hin.
        * intros Hnin. apply C. intros Hin. apply Hnin. apply Hinsnoc. left. exact Hin.
    - intros x p' Hx Hprx. rewrite Hpred1 in Hprx. rewrite !Hroot1.
      destruct (ci_link _ _ _ _ HC x p' Hx Hprx) as (A & B & C & D & E1 & F & G & H & I & J).
      assert (Hp'p : p' <> p) by (intros ->; contradiction).
      assert (Hxor : x <> p \/ isr = false).
      { destruct (Nat.eq_dec x p) as [->|Hxp]; [right|left; exact Hxp].
        unfold isr, isroot. rewrite Hprx. reflexivity. }
      assert (Hhcx : hc h2 x = hc h x).
      { rewrite Hhc2. destruct Hxor as [Hxp| ->]; [|reflexivity].
        destruct (Nat.eqb_spec p x); [congruence|]. rewrite andb_false_r. reflexivity. }
      rewrite Hhcx, (Hhco p') by exact Hp'p.
      rewrite (Hplabo x), (Hclabo x) by exact Hxor.
      rewrite (Hplabo p'), (Hclabo p') by (left; exact Hp'p).
      split; [apply Hinsnoc; left; exact A|].
      repeat (split; [assumption|]).
      intros Hin. apply Hinsnoc in Hin. destruct Hin as [Hin| ->].
      + apply before_app_r. apply J. exact Hin.
      + apply before_snoc. exact A.
    - intros Hsup. destruct (ci_ids _ _ _ _ HC Hsup) as [A B].
      rewrite filter_snoc.
      rewrite (filter_ext_in_local (isroot g1) (isroot g) rem) by (intros; apply Hisr1).
      rewrite Hisr1. fold isr. unfold rm_lc. fold isr. rewrite Hsup. cbn [negb andb].
      assert (Hfin : forall i, i < lc -> In (nth i (filter (isroot g) rem) 0) rem).
      { intros i Hi.
        assert (Hin : In (nth i (filter (isroot g) rem) 0) (filter (isroot g) rem))
          by (apply nth_In; lia).
        apply filter_In in Hin. apply Hin. }
      destruct isr eqn:Eisr.
      + split; [rewrite app_length; cbn [length]; lia|].
        intros i Hi. destruct (Nat.eq_dec i lc) as [->|Hne].
        * rewrite app_nth2 by lia. rewrite <- A, Nat.sub_diag. cbn [nth].
          unfold clab, g1, rm_g; cbn [k_clabel]. fold isr. rewrite Hsup, Eisr. cbn [negb andb].
          apply nth_upd_eq. exact Hl4.
        * rewrite app_nth1 by lia. rewrite Hclabo; [apply B; lia|].
          left. intros Ep. apply Hpr. rewrite <- Ep. apply Hfin. lia.
      + rewrite app_nil_r. split; [exact A|]. intros i Hi.
        rewrite Hclabo by (right; reflexivity). apply B; exact Hi.
  Qed.

  (* ---------------- the loop ---------------- *)

  Lemma loop_correct f : forall rem h g lc,
    CInv rem h g lc -> length rem + f = n ->
    exists rem' h' g' lc',
      cl_loop Z.ltb zero top bot f sup force nbrs h g lc = (h', g', lc') /\
      CInv rem' h' g' lc' /\ length rem' = n.
  Proof.
    induction f as [|f IH]; intros rem h g lc HC Hlen.
    - exists rem, h, g, lc. split; [reflexivity|]. split; [exact HC|lia].
    - assert (Hpos : 0 < hn h) by (pose proof (ci_hn _ _ _ _ HC); lia).
      destruct (remove_step rem h g lc HC Hpos) as (p & h1 & E & Hpn & HC1).
      rewrite cl_loop_S, E. cbv zeta.
      set (h2 := rm_h h1 g p) in *. set (g1 := rm_g h2 g p lc) in *.
      assert (Hnb1 : nbrs g1 p = nbrs g0 p).
      { destruct (ci_frame _ _ _ _ HC1) as (_ & Fadj & _ & Fnp & _). apply Hnb_frame; assumption. }
      rewrite Hnb1.
      assert (Hp1 : In p (rem ++ [p])) by (apply in_or_app; right; left; reflexivity).
      pose proof (relax_fold (rem ++ [p]) (rm_lc g p lc) p Hp1 (nbrs g0 p) (h2, g1)) as HF.
      destruct (fold_left (cl_relax Z.ltb zero top bot sup force p) (nbrs g0 p) (h2, g1))
        as [h3 g2].
      apply (IH (rem ++ [p])).
      + apply HF; [|exact HC1]. intros q Hq. split; [apply (Hnb_lt p q Hpn Hq)|exact Hq].
      + rewrite app_length. cbn [length]. lia.
  Qed.

  (* the loop stops because the heap is empty, not because the fuel [n] ran out *)
  Corollary loop_heap_empty rem h g lc : CInv rem h g lc -> length rem = n -> hn h = 0.
  Proof. intros HC Hl. pose proof (ci_hn _ _ _ _ HC). lia. Qed.

  (* ---------------- the result of [cl_run] ---------------- *)

  Definition result : knn * nat := cl_run Z.ltb zero top bot sup force nbrs n g0.

  Theorem run_inv : exists rem h, CInv rem h (fst result) (snd result) /\ length rem = n.
  Proof.
    unfold result, cl_run.
    pose proof (seed_fold n (le_n n)) as HS.
    destruct (fold_left (cl_seed Z.ltb zero top) (seq 0 n) (h_init top n PMax, g0)) as [h g].
    cbn [fst snd] in HS. apply seed_CInv in HS.
    destruct (loop_correct n [] h g 0 HS ltac:(cbn; lia)) as (rem & h' & g' & lc' & E & HC & Hl).
    rewrite E. cbn [fst snd]. exists rem, h'. split; assumption.
  Qed.

  (* The heap-free summary of the final state. *)
  Record Final (ord : list nat) (g : knn) (lc : nat) : Prop := mkFinal {
    fi_order : k_order g = k_order g0 ++ ord;
    fi_perm : Permutation ord (seq 0 n);
    fi_nodup : NoDup ord;
    fi_frame : Frame g;
    fi_root : forall q, q < n -> predf g q = None ->
        rootf g q = q /\ costf g q = dens q /\ (sup = true -> plab g q = lab q);
    fi_link : forall q p, q < n -> predf g q = Some p ->
        p < n /\ before ord p q /\ In q (nbrs g0 p) /\ rootf g q = rootf g p /\
        costf g q = Z.min (costf g p) (dens q) /\ (cost0 q < costf g q)%Z /\
        (sup = true -> plab g q = plab g p) /\ (sup = false -> clab g q = clab g p) /\
        (force = true -> lab p = lab q);
    fi_ids : sup = false ->
        lc = length (filter (isroot g) ord) /\
        forall i, i < lc -> clab g (nth i (filter (isroot g) ord) 0) = i }.

  Theorem run_final : exists ord, Final ord (fst result) (snd result).
  Proof.
    destruct run_inv as (rem & h & HC & Hlen). exists rem.
    set (g := fst result) in *. set (lc := snd result) in *.
    assert (Hperm : Permutation rem (seq 0 n)).
    { apply nodup_lt_perm; [apply HC|apply HC|exact Hlen]. }
    assert (Hall : forall q, q < n -> In q rem).
    { intros q Hq. apply (Permutation_in _ (Permutation_sym Hperm)). apply in_seq. lia. }
    constructor.
    - apply HC.
    - exact Hperm.
    - apply HC.
    - apply HC.
    - intros q Hq Hpr. destruct (ci_root _ _ _ _ HC q Hq Hpr) as (A & B & _).
      destruct (B (Hall q Hq)) as [C D]. split; [exact A|]. split; [|exact D].
      rewrite (ci_cost _ _ _ _ HC q (Hall q Hq)). exact C.
    - intros q p Hq Hpr.
      destruct (ci_link _ _ _ _ HC q p Hq Hpr) as (A & B & C & D & E & F & G & H & I & J).
      pose proof (ci_rem_lt _ _ _ _ HC p A) as Hpn.
      rewrite (ci_cost _ _ _ _ HC q (Hall q Hq)), (ci_cost _ _ _ _ HC p A).
      split; [exact Hpn|]. split; [apply J, Hall, Hq|]. repeat (split; [assumption|]). exact I.
    - apply HC.
  Qed.

End Cluster.

  (* ---------------- consequences of [Final] ---------------- *)

Section Consequences.
  Variables (zero : Z) (n : nat) (sup force : bool).
  Variable nbrs : @knn Z -> nat -> list nat.
  Variables (g0 : @knn Z) (ord : list nat) (g : @knn Z) (lc : nat).
  Hypothesis HF : Final zero n sup force nbrs g0 ord g lc.
  Hypothesis Hc0 : forall i, i < n -> (cost0 zero g0 i < dens zero g0 i)%Z.
  Notation dens := (dens zero g0).
  Notation cost0 := (cost0 zero g0).
  Notation lab := (lab g0).
  Notation costf := (costf zero).

    Lemma fin_in q : q < n <-> In q ord.
    Proof.
      split; intros H.
      - apply (Permutation_in _ (Permutation_sym (fi_perm _ _ _ _ _ _ _ _ _ HF))). apply in_seq. lia.
      - apply (Permutation_in _ (fi_perm _ _ _ _ _ _ _ _ _ HF)) in H. apply in_seq in H. lia.
    Qed.

    Lemma fin_length : length ord = n.
    Proof. rewrite (Permutation_length (fi_perm _ _ _ _ _ _ _ _ _ HF)). apply seq_length. Qed.

    (* every sample reaches exactly one root, in fewer than n steps; its recorded root is
       that root; costs do not increase towards the samples; labels are the root's *)
    Theorem final_forest : forall q, q < n ->
      exists r k, k < n /\ r < n /\ reaches (predf g) q r k /\ predf g r = None /\
        (forall r', root_of (predf g) q r' -> r' = r) /\
        rootf g q = r /\ (costf g q <= costf g r)%Z /\ costf g r = dens r /\
        (cost0 q < dens r)%Z /\
        (sup = true -> plab g q = plab g r /\ plab g r = lab r) /\
        (sup = false -> clab g q = clab g r) /\
        (force = true -> lab q = lab r).
    Proof.
      intros q Hq.
      pose (P := fun q r => rootf g q = r /\ (costf g q <= costf g r)%Z /\
                   (sup = true -> plab g q = plab g r) /\
                   (sup = false -> clab g q = clab g r) /\
                   (force = true -> lab q = lab r)).
      destruct (forest_all (predf g) ord (fi_nodup _ _ _ _ _ _ _ _ _ HF)) with (P := P) (q := q)
        as (r & k & Hk & Hre & Hr & Hrin & HP).
      - intros x p Hx Hp. apply fin_in in Hx.
        destruct (fi_link _ _ _ _ _ _ _ _ _ HF x p Hx Hp) as (_ & A & _). exact A.
      - intros r Hr Hpr. apply fin_in in Hr.
        destruct (fi_root _ _ _ _ _ _ _ _ _ HF r Hr Hpr) as (A & _). unfold P.
        split; [exact A|]. split; [lia|]. auto.
      - intros x p r Hx Hp Hpin (P1 & P2 & P3 & P4 & P5). apply fin_in in Hx.
        destruct (fi_link _ _ _ _ _ _ _ _ _ HF x p Hx Hp) as (_ & _ & _ & A & B & _ & C & D & E).
        unfold P. split; [congruence|]. split; [lia|].
        split; [intros Hs; rewrite (C Hs); apply P3; exact Hs|].
        split; [intros Hs; rewrite (D Hs); apply P4; exact Hs|].
        intros Hf. rewrite <- (E Hf). apply P5; exact Hf.
      - apply fin_in. exact Hq.
      - destruct HP as (P1 & P2 & P3 & P4 & P5).
        apply fin_in in Hrin. rewrite fin_length in Hk.
        destruct (fi_root _ _ _ _ _ _ _ _ _ HF r Hrin Hr) as (A & B & C).
        exists r, k. split; [exact Hk|]. split; [exact Hrin|]. split; [exact Hre|].
        split; [exact Hr|]. split.
        { intros r' Hr'. apply (root_of_unique (predf g) q); [exact Hr'|].
          exists k. split; assumption. }
        split; [exact P1|]. split; [exact P2|]. split; [exact B|]. split.
        { destruct (predf g q) as [p|] eqn:Hp.
          - destruct (fi_link _ _ _ _ _ _ _ _ _ HF q p Hq Hp) as (_ & _ & _ & _ & _ & F & _). lia.
          - destruct (fi_root _ _ _ _ _ _ _ _ _ HF q Hq Hp) as (_ & F & _). specialize (Hc0 q Hq). lia. }
        split; [intros Hs; split; [apply P3; exact Hs|apply C; exact Hs]|].
        split; assumption.
    Qed.

    (* over the arithmetic relation cost0 = dens - 1: no sample's density exceeds its
       root's by 1 or more *)
    Corollary final_density_gap :
      (forall q, q < n -> cost0 q = (dens q - 1)%Z) ->
      forall q, q < n -> (dens q < dens (rootf g q) + 1)%Z.
    Proof.
      intros Hrel q Hq. destruct (final_forest q Hq) as (r & k & _ & _ & _ & _ & _ & E & _ & _ & A & _).
      rewrite E. rewrite (Hrel q Hq) in A. lia.
    Qed.

    (* KNN-supervised labels *)
    Corollary final_plabel_root : sup = true ->
      forall q, q < n -> plab g q = lab (rootf g q).
    Proof.
      intros Hs q Hq.
      destruct (final_forest q Hq) as (r & k & _ & _ & _ & _ & _ & E & _ & _ & _ & A & _).
      destruct (A Hs) as [B C]. rewrite E. congruence.
    Qed.

    Corollary final_plabel_own : sup = true -> force = true ->
      forall q, q < n -> plab g q = lab q.
    Proof.
      intros Hs Hf q Hq.
      destruct (final_forest q Hq) as (r & k & _ & _ & _ & _ & _ & E & _ & _ & _ & A & _ & B).
      destruct (A Hs) as [C D]. rewrite (B Hf). congruence.
    Qed.

    (* cluster identifiers *)
    Definition roots_in_order : list nat := filter (isroot g) ord.

    Corollary final_ids : sup = false ->
      lc = length roots_in_order /\
      lc = length (filter (isroot g) (seq 0 n)) /\
      (forall i, i < lc -> clab g (nth i roots_in_order 0) = i) /\
      (forall r, r < n -> predf g r = None ->
         clab g r < lc /\ nth (clab g r) roots_in_order 0 = r) /\
      (forall q, q < n -> clab g q < lc).
    Proof.
      intros Hs. destruct (fi_ids _ _ _ _ _ _ _ _ _ HF Hs) as [A B]. fold roots_in_order in A, B.
      assert (Hroots : forall r, r < n -> predf g r = None ->
                clab g r < lc /\ nth (clab g r) roots_in_order 0 = r).
      { intros r Hr Hpr.
        assert (Hin : In r roots_in_order).
        { apply filter_In. split; [apply fin_in; exact Hr|]. unfold isroot. rewrite Hpr. reflexivity. }
        destruct (In_nth _ _ 0 Hin) as (i & Hi & Ei). rewrite <- A in Hi.
        rewrite <- Ei. rewrite (B i Hi). split; [exact Hi|reflexivity]. }
      split; [exact A|]. split.
      { rewrite A. apply filter_perm_length. apply (fi_perm _ _ _ _ _ _ _ _ _ HF). }
      split; [exact B|]. split; [exact Hroots|].
      intros q Hq.
      destruct (final_forest q Hq) as (r & k & _ & Hr & _ & Hpr & _ & _ & _ & _ & _ & _ & C & _).
      rewrite (C Hs). apply (Hroots r Hr Hpr).
    Qed.
End Consequences.

(* ---------------- the generic statements, for any [nbrs] ---------------- *)

Section Generic.
  Variables (zero top bot : Z) (n : nat) (sup force : bool).
  Variable nbrs : @knn Z -> nat -> list nat.
  Variable g0 : @knn Z.
  Hypothesis Hnb_frame : forall (g g' : @knn Z) p,
    k_adj g' = k_adj g -> k_nplat g' = k_nplat g -> nbrs g' p = nbrs g p.
  Hypothesis Hnb_lt : forall p q, p < n -> In q (nbrs g0 p) -> q < n.
  Hypothesis Hl_cost : length (k_cost g0) = n.
  Hypothesis Hl_pred : length (k_pred g0) = n.
  Hypothesis Hl_root : length (k_root g0) = n.
  Hypothesis Hl_plabel : length (k_plabel g0) = n.
  Hypothesis Hl_clabel : length (k_clabel g0) = n.
  Hypothesis Hc0 : forall i, i < n -> (cost0 zero g0 i < dens zero g0 i)%Z.
  Hypothesis Hbot : force = true -> forall i, i < n -> (bot < cost0 zero g0 i)%Z.

  Let g' := fst (cl_run Z.ltb zero top bot sup force nbrs n g0).
  Let l := snd (cl_run Z.ltb zero top bot sup force nbrs n g0).

  Lemma generic_final : exists ord, Final zero n sup force nbrs g0 ord g' l.
  Proof. apply (run_final zero top bot n sup force nbrs g0); assumption. Qed.

  Theorem cluster_order : exists ord, k_order g' = k_order g0 ++ ord /\ Permutation ord (seq 0 n).
  Proof.
    destruct generic_final as [ord HF]. exists ord.
    split; [apply (fi_order _ _ _ _ _ _ _ _ _ HF)|apply (fi_perm _ _ _ _ _ _ _ _ _ HF)].
  Qed.

  Theorem cluster_links : exists ord, Permutation ord (seq 0 n) /\
    forall q, q < n ->
      match predf g' q with
      | None => rootf g' q = q /\ costf zero g' q = dens zero g0 q /\
                (sup = true -> plab g' q = lab g0 q)
      | Some p => p < n /\ before ord p q /\ In q (nbrs g0 p) /\ rootf g' q = rootf g' p /\
                  costf zero g' q = Z.min (costf zero g' p) (dens zero g0 q) /\
                  (cost0 zero g0 q < costf zero g' q)%Z /\
                  (sup = true -> plab g' q = plab g' p) /\
                  (sup = false -> clab g' q = clab g' p) /\
                  (force = true -> lab g0 p = lab g0 q)
      end.
  Proof.
    destruct generic_final as [ord HF]. exists ord.
    split; [apply (fi_perm _ _ _ _ _ _ _ _ _ HF)|].
    intros q Hq. destruct (predf g' q) as [p|] eqn:Hp.
    - apply (fi_link _ _ _ _ _ _ _ _ _ HF q p Hq Hp).
    - apply (fi_root _ _ _ _ _ _ _ _ _ HF q Hq Hp).
  Qed.

  Theorem cluster_forest : forall q, q < n ->
    exists r k, k < n /\ r < n /\ reaches (predf g') q r k /\ predf g' r = None /\
      (forall r', root_of (predf g') q r' -> r' = r) /\
      rootf g' q = r /\ (costf zero g' q <= costf zero g' r)%Z /\
      costf zero g' r = dens zero g0 r /\ (cost0 zero g0 q < dens zero g0 r)%Z /\
      (sup = true -> plab g' q = plab g' r /\ plab g' r = lab g0 r) /\
      (sup = false -> clab g' q = clab g' r) /\
      (force = true -> lab g0 q = lab g0 r).
  Proof.
    destruct generic_final as [ord HF].
    apply (final_forest zero n sup force nbrs g0 ord g' l HF Hc0).
  Qed.

  Theorem cluster_density_gap :
    (forall q, q < n -> cost0 zero g0 q = (dens zero g0 q - 1)%Z) ->
    forall q, q < n -> (dens zero g0 q < dens zero g0 (rootf g' q) + 1)%Z.
  Proof.
    destruct generic_final as [ord HF].
    apply (final_density_gap zero n sup force nbrs g0 ord g' l HF Hc0).
  Qed.

  Theorem cluster_ids : sup = false ->
    l = length (filter (isroot g') (seq 0 n)) /\
    exists ord, k_order g' = k_order g0 ++ ord /\ Permutation ord (seq 0 n) /\
      l = length (filter (isroot g') ord) /\
      (forall i, i < l -> clab g' (nth i (filter (isroot g') ord) 0) = i) /\
      (forall r, r < n -> predf g' r = None ->
         clab g' r < l /\ nth (clab g' r) (filter (isroot g') ord) 0 = r) /\
      (forall q, q < n -> clab g' q < l).
  Proof.
    intros Hs. destruct generic_final as [ord HF].
    destruct (final_ids zero n sup force nbrs g0 ord g' l HF Hc0 Hs) as (A & B & C & D & E).
    split; [exact B|]. exists ord.
    split; [apply (fi_order _ _ _ _ _ _ _ _ _ HF)|].
    split; [apply (fi_perm _ _ _ _ _ _ _ _ _ HF)|].
    split; [exact A|]. split; [exact C|]. split; [exact D|exact E].
  Qed.
End Generic.
