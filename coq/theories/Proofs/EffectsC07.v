(* Instantiation of the frame theorems at the regenerated decorator program and store table. *)
From Coq Require Import String List QArith Lia.
From OPF Require Import Model.Consts Model.Effects Gen.Decorator_gen Gen.Stores_gen Proofs.EffectsFrame.
Import ListNotations.
Local Open Scope nat_scope.

Lemma decorator_no_inplace : no_augadd decorator_body = true.
Proof. vm_compute. reflexivity. Qed.

Lemma metric_call_pure :
  forall (cval : cname -> Q) (callee : list buffer -> Q) (st : store) (args : list nat),
    firstn (length st) (fst (call_metric cval callee decorator_params decorator_body st args)) = st.
Proof. intros; apply call_pure; exact decorator_no_inplace. Qed.

Lemma lookup_combine_none (ps : list string) (a1 a2 : list nat) p :
  length a1 = length ps -> length a2 = length ps ->
  (lookup (combine ps a1) p = None <-> lookup (combine ps a2) p = None).
Proof.
  revert a1 a2; induction ps as [|k ps IH]; intros [|x a1] [|y a2] H1 H2; simpl in *; try lia; try tauto.
  destruct (String.eqb p k); [split; discriminate|]. apply IH; lia.
Qed.

Lemma lookup_combine_contents (ps : list string) (a1 a2 : list nat) (st1 st2 : store) p :
  length a1 = length ps -> length a2 = length ps ->
  map (fun r => nth r st1 nil) a1 = map (fun r => nth r st2 nil) a2 ->
  contents (combine ps a1) st1 p = contents (combine ps a2) st2 p.
Proof.
  unfold contents.
  revert a1 a2; induction ps as [|k ps IH]; intros [|x a1] [|y a2] H1 H2 Hm; simpl in *; try lia; auto.
  inversion Hm. destruct (String.eqb p k); [assumption|]. apply IH; auto; lia.
Qed.

Lemma env_ok_combine (ps : list string) (a : list nat) (st : store) :
  Forall (fun r => r < length st) a -> env_ok (combine ps a) st.
Proof.
  intros HF p r. revert a HF; induction ps as [|k ps IH]; intros [|x a] HF; simpl; try discriminate.
  inversion HF; subst. destruct (String.eqb p k); [intros E; inversion E; subst; auto|]. apply IH; auto.
Qed.

Lemma metric_value_history_free :
  forall (cval : cname -> Q) (callee : list buffer -> Q) (st1 st2 : store) (a1 a2 : list nat),
    length a1 = length decorator_params -> length a2 = length decorator_params ->
    Forall (fun r => r < length st1) a1 -> Forall (fun r => r < length st2) a2 ->
    map (fun r => nth r st1 nil) a1 = map (fun r => nth r st2 nil) a2 ->
    snd (call_metric cval callee decorator_params decorator_body st1 a1) =
    snd (call_metric cval callee decorator_params decorator_body st2 a2).
Proof.
  intros cval callee st1 st2 a1 a2 H1 H2 F1 F2 Hm. unfold call_metric.
  apply exec_value.
  - exact decorator_no_inplace.
  - apply env_ok_combine; auto.
  - apply env_ok_combine; auto.
  - intros p; apply lookup_combine_none; auto.
  - intros p; apply lookup_combine_contents; auto.
Qed.

Lemma fit_predict_store_free : forallb (fun s => negb (is_caller_store s)) stores = true.
Proof. vm_compute. reflexivity. Qed.
