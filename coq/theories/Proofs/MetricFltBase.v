(* Computed facts about the binary64 evaluator of Model/MetricFlt.v at the regenerated tables: which identifiers are
   inside the primitive-float fragment, and a few concrete evaluations.  All by vm_compute. *)
From Coq Require Import String List Floats.
From OPF Require Import Model.MetricIR Gen.Metrics_gen Gen.ConstsFlt_gen Model.MetricEval Model.MetricFlt Model.RunMetricFlt.
Import ListNotations.
Open Scope string_scope.

Lemma flt_fragment :
  fragment_keys =
    ["additive_symmetric"; "average_euclidean"; "bray_curtis"; "canberra"; "chebyshev"; "chi_squared"; "chord"; "clark";
     "cosine"; "dice"; "divergence"; "euclidean"; "gower"; "hamming"; "hassanat"; "hellinger"; "jaccard"; "kulczynski";
     "manhattan"; "matusita"; "max_symmetric"; "mean_censored_euclidean"; "min_symmetric"; "neyman"; "non_intersection";
     "pearson"; "sangvi"; "soergel"; "squared"; "squared_chord"; "squared_euclidean"; "statistic"; "vicis_symmetric1";
     "vicis_symmetric2"; "vicis_symmetric3"; "vicis_wave_hedges"].
Proof. vm_compute. reflexivity. Qed.

Lemma flt_outside :
  outside_fragment_names =
    ["bhattacharyya_distance"; "gaussian_distance"; "jeffreys_distance"; "jensen_distance"; "jensen_shannon_distance";
     "k_divergence_distance"; "kullback_leibler_distance"; "log_euclidean_distance"; "log_squared_euclidean_distance";
     "lorentzian_distance"; "topsoe_distance"].
Proof. vm_compute. reflexivity. Qed.

(* inside the fragment the evaluator can only fail on a scalar zero division / an empty np.amax; outside it always fails *)
Lemma flt_outside_none :
  forallb (fun km => match metric_flt (snd km) [1%float; 2%float] [3%float; 0.5%float] with
                     | None => negb (in_fragment (snd km)) | Some _ => in_fragment (snd km) end) all_metrics_ir = true.
Proof. vm_compute. reflexivity. Qed.

Lemma flt_examples :
  metric_flt ir_euclidean [0%float; 3%float] [4%float; 0%float] = Some 5%float /\
  metric_flt ir_chi_squared [1%float; 2%float] [3%float; 0.5%float] = Some 0x1.e666666666666p-1%float /\
  metric_flt ir_chi_squared [0%float] [0%float] = Some 0%float /\
  metric_flt ir_bray_curtis [(- cf_EPSILON)%float] [(- cf_EPSILON)%float] = None /\
  metric_flt ir_squared_euclidean [0x1p+600%float] [0%float] = Some infinity /\
  metric_fltc ir_squared_euclidean [0x1p+600%float] [0%float] = None /\
  metric_fltc ir_chi_squared [1%float; 2%float] [3%float; 0.5%float] = Some 0x1.e666666666666p-1%float.
Proof. vm_compute. repeat split; reflexivity. Qed.
