(* Paramcoq set-up shared by the free-theorem files (C10 logic part, C11 rescaling part).

   - the obligation tactic of the plugin (the installed Param.v only declares the ML module,
     so the usual default "destruct the structural argument; reflexivity" is re-declared here);
   - binary parametricity translations of the closed data types the models use;
   - the bridge between the generated [Type]-valued relations and ordinary statements:
     on closed types the relation IS equality ([nat_R a b <-> a = b] ...), on [list W] it is
     [Forall2 R] (and [l' = map f l] when [R a b := b = f a]). *)
From Coq Require Import List Arith Bool.
From OPF Require Import Base.Lists Model.Heap.
From Param Require Import Param.
Import ListNotations.

Ltac param_destruct_reflexivity :=
  intros; repeat match goal with
                 | [ x : _ |- _ = _ ] => destruct x; reflexivity; fail
                 end.
Global Parametricity Tactic := ((param_destruct_reflexivity; fail) || auto).

Parametricity Recursive nat.
Parametricity Recursive bool.
Parametricity Recursive option.
Parametricity Recursive list.
Parametricity Recursive prod.

(* shared vocabulary, translated once so that ParamSup.v and ParamKnn.v reuse the same constants *)
Parametricity Recursive Nat.eqb.
Parametricity Recursive Nat.leb.
Parametricity Recursive Nat.ltb.
Parametricity Recursive negb.
Parametricity Recursive andb.
Parametricity Recursive length.
Parametricity Recursive app.
Parametricity Recursive rev.
Parametricity Recursive map.
Parametricity Recursive firstn.
Parametricity Recursive existsb.
Parametricity Recursive combine.
Parametricity Recursive nth.
Parametricity Recursive repeat.
Parametricity Recursive seq.
Parametricity Recursive fold_left.
Parametricity Recursive upd.
Parametricity Recursive heap.
Parametricity Recursive h_init.
Parametricity Recursive set_cost.
Parametricity Recursive insert.
Parametricity Recursive remove.
Parametricity Recursive update.

(* ---------- closed types: the relation is equality ---------- *)

Lemma nat_R_eq a b : nat_R a b -> a = b.
Proof. intros H; induction H as [|a b _ IH]; [reflexivity | now f_equal]. Qed.

Lemma nat_R_refl a : nat_R a a.
Proof. induction a as [|a IH]; constructor; exact IH. Defined.

Lemma bool_R_eq a b : bool_R a b -> a = b.
Proof. intros H; destruct H; reflexivity. Qed.

Lemma bool_R_refl a : bool_R a a.
Proof. destruct a; constructor. Defined.

Lemma bool_R_of_eq a b : a = b -> bool_R a b.
Proof. intros ->; apply bool_R_refl. Defined.

Lemma option_R_eq {A} (AR : A -> A -> Type) (HA : forall a b, AR a b -> a = b) x y :
  option_R A A AR x y -> x = y.
Proof. intros H; destruct H as [a b Hab|]; [f_equal; now apply HA | reflexivity]. Qed.

Lemma option_R_refl {A} (AR : A -> A -> Type) (HA : forall a, AR a a) x : option_R A A AR x x.
Proof. destruct x as [a|]; constructor; apply HA. Defined.

Lemma list_R_eq {A} (AR : A -> A -> Type) (HA : forall a b, AR a b -> a = b) l l' :
  list_R A A AR l l' -> l = l'.
Proof.
  intros H; induction H as [|a b Hab l l' _ IH]; [reflexivity|].
  f_equal; [now apply HA | exact IH].
Qed.

Lemma list_R_refl {A} (AR : A -> A -> Type) (HA : forall a, AR a a) l : list_R A A AR l l.
Proof. induction l as [|a l IH]; constructor; [apply HA | exact IH]. Defined.

Lemma prod_R_eq {A B} (AR : A -> A -> Type) (BR : B -> B -> Type)
      (HA : forall a b, AR a b -> a = b) (HB : forall a b, BR a b -> a = b) x y :
  prod_R A A AR B B BR x y -> x = y.
Proof. intros H; destruct H as [a a' Ha b b' Hb]; f_equal; [now apply HA | now apply HB]. Qed.

Definition nat_opt_R := option_R nat nat nat_R.

Lemma list_nat_R_eq l l' : list_R nat nat nat_R l l' -> l = l'.
Proof. apply list_R_eq, nat_R_eq. Qed.
Lemma list_nat_R_refl l : list_R nat nat nat_R l l.
Proof. apply list_R_refl, nat_R_refl. Defined.
Lemma list_bool_R_eq l l' : list_R bool bool bool_R l l' -> l = l'.
Proof. apply list_R_eq, bool_R_eq. Qed.
Lemma list_bool_R_refl l : list_R bool bool bool_R l l.
Proof. apply list_R_refl, bool_R_refl. Defined.
Lemma list_optnat_R_eq l l' : list_R _ _ (option_R nat nat nat_R) l l' -> l = l'.
Proof. apply list_R_eq. intros a b; apply option_R_eq, nat_R_eq. Qed.
Lemma list_optnat_R_refl l : list_R _ _ (option_R nat nat nat_R) l l.
Proof. apply list_R_refl. intros a; apply option_R_refl, nat_R_refl. Defined.
Lemma optnat_R_eq x y : option_R nat nat nat_R x y -> x = y.
Proof. apply option_R_eq, nat_R_eq. Qed.
Lemma optnat_R_refl x : option_R nat nat nat_R x x.
Proof. apply option_R_refl, nat_R_refl. Defined.
Lemma list_list_nat_R_eq l l' : list_R _ _ (list_R nat nat nat_R) l l' -> l = l'.
Proof. apply list_R_eq. intros a b; apply list_nat_R_eq. Qed.
Lemma list_list_nat_R_refl l : list_R _ _ (list_R nat nat nat_R) l l.
Proof. apply list_R_refl. intros a; apply list_nat_R_refl. Defined.

(* ---------- the carrier: [list_R R] is [Forall2 R] ---------- *)

Lemma list_R_Forall2 {A B} (R : A -> B -> Prop) l l' : list_R A B R l l' -> Forall2 R l l'.
Proof. intros H; induction H as [|a b Hab l l' _ IH]; constructor; assumption. Qed.

(* [Forall2] lives in [Prop] and [list_R] in [Type]: only the inhabitation can be derived *)
Lemma Forall2_list_R {A B} (R : A -> B -> Prop) l l' : Forall2 R l l' -> inhabited (list_R A B R l l').
Proof.
  intros H; induction H as [|a b l l' Hab _ [IH]]; constructor; constructor; assumption.
Qed.

Lemma list_R_map {A B} (f : A -> B) l : list_R A B (fun a b => b = f a) l (map f l).
Proof. induction l as [|a l IH]; cbn [map]; constructor; [reflexivity | exact IH]. Defined.

Lemma Forall2_fun_map {A B} (f : A -> B) l l' : Forall2 (fun a b => b = f a) l l' <-> l' = map f l.
Proof.
  split.
  - intros H; induction H as [|a b l l' Hab _ IH]; cbn [map]; [reflexivity | now subst].
  - intros ->. induction l as [|a l IH]; cbn [map]; constructor; [reflexivity | exact IH].
Qed.

Lemma Forall2_eq_iff {A} (l l' : list A) : Forall2 eq l l' <-> l = l'.
Proof.
  split.
  - intros H; induction H as [|a b l l' Hab _ IH]; [reflexivity | now subst].
  - intros ->. induction l' as [|a l IH]; constructor; [reflexivity | exact IH].
Qed.

(* Restriction of a relation to a predicate on the left component (used for
   "strictly increasing on the values that occur") *)
Lemma Forall2_on_map {A B} (P : A -> Prop) (f : A -> B) l l' :
  Forall2 (fun a b => P a /\ b = f a) l l' <-> (Forall P l /\ l' = map f l).
Proof.
  split.
  - intros H; induction H as [|a b l l' [Ha Hab] _ [IH1 IH2]]; cbn [map]; [now split|].
    split; [now constructor | now subst].
  - intros [HP ->]. induction HP as [|a l Ha _ IH]; cbn [map]; constructor; [now split | exact IH].
Qed.

(* pointwise-related weight functions, as the abstraction theorems want them *)
Lemma fun2_R {W1 W2} (R : W1 -> W2 -> Type) (w1 : nat -> nat -> W1) (w2 : nat -> nat -> W2) :
  (forall p q, R (w1 p q) (w2 p q)) ->
  forall p p', nat_R p p' -> forall q q', nat_R q q' -> R (w1 p q) (w2 p' q').
Proof. intros H p p' Hp q q' Hq. apply nat_R_eq in Hp, Hq. subst. apply H. Defined.

Lemma fun1_R {W1 W2} (R : W1 -> W2 -> Type) (d1 : nat -> W1) (d2 : nat -> W2) :
  (forall k, R (d1 k) (d2 k)) -> forall k k', nat_R k k' -> R (d1 k) (d2 k').
Proof. intros H k k' Hk. apply nat_R_eq in Hk. subst. apply H. Defined.
