(* C08 at the code level, gaussian: a similarity (no non-negativity / zero-self claim in the axiom table).
   [metric_value] runs the code with gamma at its default 1 (the way every model calls it);
   [metric_value_with (fun _ => g)] supplies gamma = g. *)
From Coq Require Import Reals List Lra.
From OPF Require Import Spec.MetricSpec Gen.Metrics_gen Model.MetricEval Proofs.ClosedForms Proofs.MetricAxioms.
Open Scope R_scope.

Lemma code_sym_gaussian_gamma : forall (g : R) (x y : list R), length x = length y ->
  metric_value_with (fun _ => g) ir_gaussian x y = metric_value_with (fun _ => g) ir_gaussian y x.
Proof.
  intros g x y H. rewrite (closed_form_gaussian_gamma g x y H), (closed_form_gaussian_gamma g y x (eq_sym H)).
  now apply sym_gaussian.
Qed.

Lemma code_gaussian_self_gamma : forall (g : R) (x : list R), metric_value_with (fun _ => g) ir_gaussian x x = 1.
Proof. intros g x. rewrite (closed_form_gaussian_gamma g x x eq_refl). apply gaussian_self. Qed.

Lemma code_gaussian_range_gamma : forall (g : R) (x y : list R), length x = length y -> 0 <= g ->
  0 < metric_value_with (fun _ => g) ir_gaussian x y <= 1.
Proof.
  intros g x y H Hg. rewrite (closed_form_gaussian_gamma g x y H).
  split; [apply gaussian_pos | now apply gaussian_le_1].
Qed.

Lemma code_gaussian_self : forall x : list R, metric_value ir_gaussian x x = 1.
Proof. intros x. rewrite (closed_form_gaussian x x eq_refl). apply gaussian_self. Qed.

Lemma code_gaussian_range : forall x y : list R, length x = length y -> 0 < metric_value ir_gaussian x y <= 1.
Proof.
  intros x y H. rewrite (closed_form_gaussian x y H).
  split; [apply gaussian_pos | apply gaussian_le_1; lra].
Qed.
