(* C08, symmetry: sp_<name> x y = sp_<name> y x for the 42 metrics that claim it
   (counter-examples for the other five are in MetricNotSym.v). *)
From Coq Require Import Reals List Lra Lia.
From OPF Require Import Spec.MetricSpec Proofs.MetricLemmas.
Import ListNotations.
Open Scope R_scope.

(* ----- scalar helpers ----- *)
(* holds for all reals thanks to [/ 0 = 0] and [ln t = 0] for [t <= 0] *)
Lemma ln_div_swap a b : ln (b / a) = - ln (a / b).
Proof.
  destruct (Req_dec a 0) as [Ha|Ha].
  { subst a. unfold Rdiv. rewrite Rinv_0, Rmult_0_r, Rmult_0_l.
    rewrite (ln_nonpos_arg 0); lra. }
  destruct (Req_dec b 0) as [Hb|Hb].
  { subst b. unfold Rdiv. rewrite Rinv_0, Rmult_0_r, Rmult_0_l.
    rewrite (ln_nonpos_arg 0); lra. }
  replace (b / a) with (/ (a / b)) by (field; auto).
  destruct (Rlt_dec 0 (a / b)) as [Hp|Hn].
  - now apply ln_Rinv.
  - assert (Hq : a / b <> 0).
    { unfold Rdiv. apply Rmult_integral_contrapositive_currified; auto.
      now apply Rinv_neq_0_compat. }
    assert (Hneg : a / b < 0) by lra.
    rewrite (ln_nonpos_arg (a / b)) by lra.
    rewrite ln_nonpos_arg; [lra|].
    left. now apply Rinv_lt_0_compat.
Qed.

Lemma hassanat1_sym a b : hassanat1 a b = hassanat1 b a.
Proof. unfold hassanat1. now rewrite (Rmin_comm a b), (Rmax_comm a b). Qed.

Lemma neyman_pearson_swap x y : sp_neyman x y = sp_pearson y x.
Proof.
  unfold sp_neyman, sp_pearson. rewrite sum2_swap.
  apply sum2_ext. intros a b. unfold Rdiv. ring.
Qed.

(* ----- L_p family ----- *)
Lemma sym_squared_euclidean : forall x y, length x = length y -> sp_squared_euclidean x y = sp_squared_euclidean y x.
Proof. intros x y _. apply sum2_sym. intros; ring. Qed.

Lemma sym_euclidean : forall x y, length x = length y -> sp_euclidean x y = sp_euclidean y x.
Proof. intros x y H. unfold sp_euclidean. now rewrite (sym_squared_euclidean x y H). Qed.

Lemma sym_average_euclidean : forall x y, length x = length y -> sp_average_euclidean x y = sp_average_euclidean y x.
Proof.
  intros x y H. unfold sp_average_euclidean, len.
  now rewrite (sym_squared_euclidean x y H), H.
Qed.

Lemma sym_manhattan : forall x y, length x = length y -> sp_manhattan x y = sp_manhattan y x.
Proof. intros x y _. apply sum2_sym. intros; apply Rabs_minus_sym. Qed.

Lemma sym_chebyshev : forall x y, length x = length y -> sp_chebyshev x y = sp_chebyshev y x.
Proof.
  intros x y _. unfold sp_chebyshev. f_equal. rewrite map2_swap.
  apply map2_ext. intros; apply Rabs_minus_sym.
Qed.

Lemma sym_gower : forall x y, length x = length y -> sp_gower x y = sp_gower y x.
Proof. intros x y H. unfold sp_gower, len. now rewrite (sym_manhattan x y H), H. Qed.

Lemma sym_non_intersection : forall x y, length x = length y -> sp_non_intersection x y = sp_non_intersection y x.
Proof. intros x y H. unfold sp_non_intersection. now rewrite (sym_manhattan x y H). Qed.

Lemma sym_hamming : forall x y, length x = length y -> sp_hamming x y = sp_hamming y x.
Proof.
  intros x y _. unfold sp_hamming. rewrite !count2_sum2.
  apply sum2_sym. intros a b. now rewrite Rneqb_sym.
Qed.

Lemma sym_mean_censored_euclidean : forall x y, length x = length y -> sp_mean_censored_euclidean x y = sp_mean_censored_euclidean y x.
Proof.
  intros x y H. unfold sp_mean_censored_euclidean.
  rewrite (sym_squared_euclidean x y H). do 2 f_equal.
  rewrite !count2_sum2. apply sum2_sym. intros a b. now rewrite Rplus_comm.
Qed.

Lemma sym_log_euclidean : forall x y, length x = length y -> sp_log_euclidean x y = sp_log_euclidean y x.
Proof. intros x y H. unfold sp_log_euclidean. now rewrite (sym_euclidean x y H). Qed.

Lemma sym_log_squared_euclidean : forall x y, length x = length y -> sp_log_squared_euclidean x y = sp_log_squared_euclidean y x.
Proof. intros x y H. unfold sp_log_squared_euclidean. now rewrite (sym_squared_euclidean x y H). Qed.

Lemma sym_gaussian : forall g x y, length x = length y -> sp_gaussian g x y = sp_gaussian g y x.
Proof. intros g x y H. unfold sp_gaussian. now rewrite (sym_euclidean x y H). Qed.

(* ----- L1 family ----- *)
Lemma sym_bray_curtis : forall x y, length x = length y -> sp_bray_curtis x y = sp_bray_curtis y x.
Proof.
  intros x y _. unfold sp_bray_curtis. f_equal; apply sum2_sym; intros.
  - apply Rabs_minus_sym.
  - ring.
Qed.

Lemma sym_canberra : forall x y, length x = length y -> sp_canberra x y = sp_canberra y x.
Proof.
  intros x y _. apply sum2_sym. intros a b.
  now rewrite Rabs_minus_sym, (Rplus_comm (Rabs a)).
Qed.

Lemma sym_lorentzian : forall x y, length x = length y -> sp_lorentzian x y = sp_lorentzian y x.
Proof. intros x y _. apply sum2_sym. intros a b. now rewrite Rabs_minus_sym. Qed.

Lemma sym_kulczynski : forall x y, length x = length y -> sp_kulczynski x y = sp_kulczynski y x.
Proof.
  intros x y _. unfold sp_kulczynski. f_equal; apply sum2_sym; intros.
  - apply Rabs_minus_sym.
  - apply Rmin_comm.
Qed.

Lemma sym_soergel : forall x y, length x = length y -> sp_soergel x y = sp_soergel y x.
Proof.
  intros x y _. unfold sp_soergel. f_equal; apply sum2_sym; intros.
  - apply Rabs_minus_sym.
  - apply Rmax_comm.
Qed.

(* ----- inner-product family ----- *)
Lemma sym_cosine : forall x y, length x = length y -> sp_cosine x y = sp_cosine y x.
Proof.
  intros x y _. unfold sp_cosine.
  now rewrite (dot_comm x y), (Rmult_comm (sqrt (dot x x))).
Qed.

Lemma sym_chord : forall x y, length x = length y -> sp_chord x y = sp_chord y x.
Proof.
  intros x y _. unfold sp_chord.
  now rewrite (dot_comm x y), (Rmult_comm (sqrt (dot x x))).
Qed.

Lemma sym_dice : forall x y, length x = length y -> sp_dice x y = sp_dice y x.
Proof.
  intros x y _. unfold sp_dice.
  now rewrite (dot_comm x y), (Rplus_comm (dot x x)).
Qed.

Lemma sym_jaccard : forall x y, length x = length y -> sp_jaccard x y = sp_jaccard y x.
Proof.
  intros x y H. unfold sp_jaccard.
  now rewrite (sym_squared_euclidean x y H), (dot_comm x y), (Rplus_comm (dot x x)).
Qed.

(* ----- squared-chord / fidelity family ----- *)
Lemma sym_squared_chord : forall x y, length x = length y -> sp_squared_chord x y = sp_squared_chord y x.
Proof. intros x y _. apply sum2_sym. intros; ring. Qed.

Lemma sym_matusita : forall x y, length x = length y -> sp_matusita x y = sp_matusita y x.
Proof. intros x y H. unfold sp_matusita. now rewrite (sym_squared_chord x y H). Qed.

Lemma sym_hellinger : forall x y, length x = length y -> sp_hellinger x y = sp_hellinger y x.
Proof. intros x y H. unfold sp_hellinger. now rewrite (sym_squared_chord x y H). Qed.

Lemma sym_bhattacharyya : forall x y, length x = length y -> sp_bhattacharyya x y = sp_bhattacharyya y x.
Proof.
  intros x y _. unfold sp_bhattacharyya. do 2 f_equal.
  apply sum2_sym. intros a b. now rewrite Rmult_comm.
Qed.

(* ----- chi-squared family ----- *)
Lemma sym_squared : forall x y, length x = length y -> sp_squared x y = sp_squared y x.
Proof.
  intros x y _. apply sum2_sym. intros a b.
  rewrite (Rplus_comm b a). unfold Rdiv. ring.
Qed.

Lemma sym_chi_squared : forall x y, length x = length y -> sp_chi_squared x y = sp_chi_squared y x.
Proof. intros x y H. unfold sp_chi_squared. now rewrite (sym_squared x y H). Qed.

Lemma sym_sangvi : forall x y, length x = length y -> sp_sangvi x y = sp_sangvi y x.
Proof. intros x y H. unfold sp_sangvi. now rewrite (sym_squared x y H). Qed.

Lemma sym_divergence : forall x y, length x = length y -> sp_divergence x y = sp_divergence y x.
Proof.
  intros x y _. unfold sp_divergence. f_equal. apply sum2_sym. intros a b.
  rewrite (Rplus_comm b a). unfold Rdiv. ring.
Qed.

Lemma sym_clark : forall x y, length x = length y -> sp_clark x y = sp_clark y x.
Proof.
  intros x y _. unfold sp_clark. f_equal. apply sum2_sym. intros a b.
  rewrite (Rplus_comm b a). unfold Rdiv. ring.
Qed.

Lemma sym_additive_symmetric : forall x y, length x = length y -> sp_additive_symmetric x y = sp_additive_symmetric y x.
Proof.
  intros x y _. unfold sp_additive_symmetric. f_equal. apply sum2_sym. intros a b.
  rewrite (Rplus_comm b a), (Rmult_comm b a). unfold Rdiv. ring.
Qed.

Lemma sym_max_symmetric : forall x y, length x = length y -> sp_max_symmetric x y = sp_max_symmetric y x.
Proof.
  intros x y _. unfold sp_max_symmetric.
  rewrite (neyman_pearson_swap x y), <- (neyman_pearson_swap y x). apply Rmax_comm.
Qed.

Lemma sym_min_symmetric : forall x y, length x = length y -> sp_min_symmetric x y = sp_min_symmetric y x.
Proof.
  intros x y _. unfold sp_min_symmetric.
  rewrite (neyman_pearson_swap x y), <- (neyman_pearson_swap y x). apply Rmin_comm.
Qed.

(* ----- Shannon-entropy family ----- *)
Lemma sym_jeffreys : forall x y, length x = length y -> sp_jeffreys x y = sp_jeffreys y x.
Proof.
  intros x y _. apply sum2_sym. intros a b. rewrite (ln_div_swap a b). ring.
Qed.

Lemma sym_topsoe : forall x y, length x = length y -> sp_topsoe x y = sp_topsoe y x.
Proof. intros x y _. unfold sp_topsoe. apply Rplus_comm. Qed.

Lemma sym_jensen_shannon : forall x y, length x = length y -> sp_jensen_shannon x y = sp_jensen_shannon y x.
Proof. intros x y H. unfold sp_jensen_shannon. now rewrite (sym_topsoe x y H). Qed.

Lemma sym_jensen : forall x y, length x = length y -> sp_jensen x y = sp_jensen y x.
Proof.
  intros x y _. unfold sp_jensen. f_equal. apply sum2_sym. intros a b.
  rewrite (Rplus_comm b a). unfold Rdiv. ring.
Qed.

(* ----- Vicissitude family and others ----- *)
Lemma sym_vicis_wave_hedges : forall x y, length x = length y -> sp_vicis_wave_hedges x y = sp_vicis_wave_hedges y x.
Proof.
  intros x y _. apply sum2_sym. intros a b.
  now rewrite Rabs_minus_sym, (Rmin_comm a b).
Qed.

Lemma sym_vicis_symmetric1 : forall x y, length x = length y -> sp_vicis_symmetric1 x y = sp_vicis_symmetric1 y x.
Proof.
  intros x y _. apply sum2_sym. intros a b.
  rewrite (Rmin_comm b a). unfold Rdiv. ring.
Qed.

Lemma sym_vicis_symmetric2 : forall x y, length x = length y -> sp_vicis_symmetric2 x y = sp_vicis_symmetric2 y x.
Proof.
  intros x y _. apply sum2_sym. intros a b.
  rewrite (Rmin_comm b a). unfold Rdiv. ring.
Qed.

Lemma sym_vicis_symmetric3 : forall x y, length x = length y -> sp_vicis_symmetric3 x y = sp_vicis_symmetric3 y x.
Proof.
  intros x y _. apply sum2_sym. intros a b.
  rewrite (Rmax_comm b a). unfold Rdiv. ring.
Qed.

Lemma sym_hassanat : forall x y, length x = length y -> sp_hassanat x y = sp_hassanat y x.
Proof. intros x y _. apply sum2_sym. apply hassanat1_sym. Qed.

