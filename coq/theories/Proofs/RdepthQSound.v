(* Soundness of the rounding-depth analysis with quotients and the decorator (Model/MetricRdepthQ.v).

   [rdepthq_sound]: if the analysis returns [Some (p, q, c')] for a metric, a vector length [n] and a class [c] of
   user vectors, then for every rounding of the standard model and all user vectors of length n >= 1 in class c
     - the rounded evaluation [metric_rnd rnd m x y] is defined,
     - it is [within2 u p q] of [metric_exact_at rnd m x y]: the exact-real value of the body at the arguments
       the rounded run hands to it (x, y themselves for an undecorated function; rnd (x + EPSILON),
       rnd (y + EPSILON) behind @avoid_zero_division),
     - that exact value is in class c'.
   Same structure as Proofs/RdepthSound.v. *)
From Coq Require Import Reals QArith Qreals String List Lra Lia Bool ZArith Arith.
From OPF Require Import Model.Consts Model.Effects Spec.MetricSpec Gen.Consts_gen Model.MetricIR
     Gen.Metrics_gen Gen.Decorator_gen Model.MetricRnd Model.MetricEval Model.MetricRdepth Model.MetricRdepthQ
     Proofs.IRLemmas Proofs.RobustSign Proofs.RobustSignNeg Proofs.RoundingBounds Proofs.RoundingBoundsQ Proofs.RdepthSound.
Import ListNotations.
Open Scope R_scope.

Section EqsQ.
  Variables (n : nat) (callk : string -> cls -> option rq).
  Local Notation dS := (rqS n callk).
  Local Notation dV := (rqV n callk).
  Lemma rqS_SSum c v :
    dS c (SSum v) = match dV c v with
                    | Some (p, q, c') => if cls_nonneg c' then Some ((p + Nat.pred n)%nat, q, c') else None
                    | None => None end.
  Proof. reflexivity. Qed.
  Lemma rqS_SAmax c v :
    dS c (SAmax v) = match dV c v with
                     | Some r => if cls_nonneg (rq_c r) || rq_exact r then Some r else None
                     | None => None end.
  Proof. reflexivity. Qed.
  Lemma rqS_SCountNe c a b :
    dS c (SCountNe a b) = match dV c a, dV c b with
                          | Some ra, Some rb =>
                              if rq_exact ra && rq_exact rb then Some (0%nat, 0%nat, NonNeg)
                              else if is_zero_const b && cls_strict (rq_c ra) then Some (0%nat, 0%nat, Pos)
                              else None
                          | _, _ => None end.
  Proof. reflexivity. Qed.
  Lemma rqS_SBin c o s1 s2 : dS c (SBin o s1 s2) = obind2 (dS c s1) (dS c s2) (rq_bin o).
  Proof. reflexivity. Qed.
  Lemma rqS_SUn c o s1 : dS c (SUn o s1) = obind (dS c s1) (rq_un o).
  Proof. reflexivity. Qed.
  Lemma rqS_SPowC c s1 p : dS c (SPowC s1 p) = obind (dS c s1) (rq_pow p).
  Proof. reflexivity. Qed.
  Lemma rqS_SCall c f a b :
    dS c (SCall f a b) = match dV c a, dV c b with
                         | Some ra, Some rb =>
                             if rq_exact ra && rq_exact rb then callk f (cls_join (rq_c ra) (rq_c rb)) else None
                         | _, _ => None end.
  Proof. reflexivity. Qed.
  Lemma rqV_VConstS c s : dV c (VConstS s) = dS c s.
  Proof. reflexivity. Qed.
  Lemma rqV_VBin c o v1 v2 : dV c (VBin o v1 v2) = obind2 (dV c v1) (dV c v2) (rq_bin o).
  Proof. reflexivity. Qed.
  Lemma rqV_VUn c o v1 : dV c (VUn o v1) = obind (dV c v1) (rq_un o).
  Proof. reflexivity. Qed.
  Lemma rqV_VPowC c v1 p : dV c (VPowC v1 p) = obind (dV c v1) (rq_pow p).
  Proof. reflexivity. Qed.
End EqsQ.

Lemma rq_exact_inv p q c : rq_exact (p, q, c) = true -> p = 0%nat /\ q = 0%nat.
Proof.
  unfold rq_exact, rq_p, rq_q. cbn [fst snd]. intros H. apply andb_prop in H. destruct H as [H1 H2].
  apply Nat.eqb_eq in H1, H2. auto.
Qed.

Lemma strict_cls c t : cls_strict c = true -> in_cls c t -> t <> 0.
Proof. destruct c; cbn; try discriminate; intros _ H; lra. Qed.

Lemma sum_map2_ones (h : R -> R -> R) (Q1 Q2 : R -> Prop) x y :
  length x = length y -> Forall Q1 x -> Forall Q2 y ->
  (forall a b, Q1 a -> Q2 b -> h a b = 1) -> sum (map2 h x y) = INR (length x).
Proof.
  intros HL HX HY HF. revert y HL HY.
  induction HX as [|a x Ha HX IH]; intros [|b y] HL HY; cbn [length] in HL; try discriminate.
  - reflexivity.
  - inversion HY as [|b' y' Hb HY']; subst. cbn [map2 length]. rewrite rb_sum_cons, S_INR, (HF a b Ha Hb), (IH y); [lra | lia | assumption].
Qed.

Section Sound.
  Variable u : R.
  Hypothesis U0 : 0 <= u.
  Hypothesis U1 : u < 1.
  Variable rnd : R -> R.
  Hypothesis REL : rnd_rel u rnd.
  Local Notation W := (within2 u).

  Definition rq_ok (r : rq) (t : R) (o : option R) : Prop :=
    exists v, o = Some v /\ W (rq_p r) (rq_q r) t v /\ in_cls (rq_c r) t.

  Lemma rq_ok_intro p q c t v : W p q t v -> in_cls c t -> rq_ok (p, q, c) t (Some v).
  Proof. intros H1 H2. exists v. unfold rq_p, rq_q, rq_c. cbn [fst snd]. auto. Qed.

  Local Ltac w0 H := apply (w2_0 u) in H; subst.
  Local Ltac ex2 X := apply andb_prop in X; let X1 := fresh in let X2 := fresh in destruct X as [X1 X2];
                      apply rq_exact_inv in X1; apply rq_exact_inv in X2;
                      let A := fresh in let B := fresh in destruct X1 as [A B]; destruct X2 as [? ?]; subst.

  (* the rounding keeps every sign class *)
  Lemma in_rnd_rel c t : in_cls c t -> in_cls c (rnd t).
  Proof.
    destruct c; cbn [in_cls]; intros H; auto.
    - now apply (rnd_rel_pos u U1).
    - destruct (Req_dec t 0) as [->|NE]; [rewrite (rnd_rel_zero u rnd REL); lra|].
      apply Rlt_le. apply (rnd_rel_pos u U1 rnd REL). lra.
    - now apply (rnd_rel_neg u U1).
  Qed.

  Lemma bin_okq o pa qa ca pb qb cb r a a' b b' :
    rq_bin o (pa, qa, ca) (pb, qb, cb) = Some r ->
    W pa qa a a' -> in_cls ca a -> W pb qb b b' -> in_cls cb b ->
    rq_ok r (binR o a b) (binRnd rnd o a' b').
  Proof.
    intros E Wa Ca Wb Cb. unfold rq_bin in E. destruct o; cbn [binR binRnd].
    - (* add *)
      destruct (cls_nonneg ca && cls_nonneg cb) eqn:N.
      + injection E as <-. apply andb_prop in N. destruct N as [N1 N2].
        apply rq_ok_intro; [|now apply add_sound].
        apply (w2_rnd u U0 U1 rnd REL). apply (w2_add_nonneg u U0 U1); try assumption.
        * now apply (nonneg_cls ca).
        * now apply (nonneg_cls cb).
      + destruct (rq_exact (pa, qa, ca) && rq_exact (pb, qb, cb)) eqn:X; [|discriminate]. injection E as <-.
        ex2 X. w0 Wa. w0 Wb. apply rq_ok_intro; [|now apply add_sound].
        apply (w2_rnd u U0 U1 rnd REL). apply w2_refl.
    - (* sub *)
      destruct (rq_exact (pa, qa, ca) && rq_exact (pb, qb, cb)) eqn:X; [|discriminate]. injection E as <-.
      ex2 X. w0 Wa. w0 Wb. apply rq_ok_intro; [|now apply sub_sound].
      apply (w2_rnd u U0 U1 rnd REL). apply w2_refl.
    - (* mul *)
      injection E as <-. apply rq_ok_intro; [|now apply mul_sound].
      apply (w2_rnd u U0 U1 rnd REL). now apply (w2_mul u U0 U1).
    - (* div *)
      destruct (cls_div ca cb) as [c|] eqn:D; [|discriminate]. injection E as <-.
      destruct (div_sound _ _ _ _ _ D Ca Cb) as [Hb Hc].
      pose proof (w2_nonzero u U0 U1 pb qb b b' Hb Wb) as Hb'.
      destruct (Req_EM_T b' 0) as [E0|_]; [contradiction|].
      apply rq_ok_intro; [|exact Hc].
      apply (w2_rnd u U0 U1 rnd REL). now apply (w2_div u U0 U1).
    - (* min *)
      destruct (rq_exact (pa, qa, ca) && rq_exact (pb, qb, cb)) eqn:X.
      + injection E as <-. ex2 X. w0 Wa. w0 Wb. apply rq_ok_intro; [apply w2_refl | now apply min_sound].
      + destruct (cls_nonneg ca && cls_nonneg cb) eqn:N; [|discriminate]. injection E as <-.
        apply andb_prop in N. destruct N as [N1 N2].
        apply rq_ok_intro; [|now apply min_sound].
        apply (w2_Rmin u U0 U1); [now apply (nonneg_cls ca) | now apply (nonneg_cls cb) | |].
        * apply (w2_weaken u U0 U1 pa qa); [lia | lia | exact Wa].
        * apply (w2_weaken u U0 U1 pb qb); [lia | lia | exact Wb].
    - (* max *)
      destruct (rq_exact (pa, qa, ca) && rq_exact (pb, qb, cb)) eqn:X.
      + injection E as <-. ex2 X. w0 Wa. w0 Wb. apply rq_ok_intro; [apply w2_refl | now apply max_sound].
      + destruct (cls_nonneg ca && cls_nonneg cb) eqn:N; [|discriminate]. injection E as <-.
        apply andb_prop in N. destruct N as [N1 N2].
        apply rq_ok_intro; [|now apply max_sound].
        apply (w2_Rmax u U0 U1); [now apply (nonneg_cls ca) | now apply (nonneg_cls cb) | |].
        * apply (w2_weaken u U0 U1 pa qa); [lia | lia | exact Wa].
        * apply (w2_weaken u U0 U1 pb qb); [lia | lia | exact Wb].
  Qed.

  Lemma sqrt_okq p q c r a a' :
    rq_sqrt (p, q, c) = Some r -> W p q a a' -> in_cls c a ->
    rq_ok r (sqrt a) (if Rlt_dec a' 0 then None else Some (rnd (sqrt a'))).
  Proof.
    intros E Wa Ca. unfold rq_sqrt in E. destruct (cls_sqrt c) as [c'|] eqn:S; [|discriminate].
    injection E as <-. destruct (sqrt_sound _ _ _ S Ca) as [Hn Hs].
    assert (Ha : 0 <= a) by lra.
    pose proof (w2_nonneg_val u U0 U1 p q a a' Ha Wa) as Ha'.
    destruct (Rlt_dec a' 0) as [Hlt|_]; [lra|].
    apply rq_ok_intro; [|exact Hs].
    apply (w2_rnd u U0 U1 rnd REL). now apply (w2_sqrt u U0 U1).
  Qed.

  Lemma un_okq o p q c r a a' :
    rq_un o (p, q, c) = Some r -> W p q a a' -> in_cls c a -> rq_ok r (unR o a) (unRnd rnd o a').
  Proof.
    intros E Wa Ca. destruct o; cbn [rq_un unR unRnd] in *; unfold rq_p, rq_q, rq_c in *; cbn [fst snd] in *; try discriminate.
    - injection E as <-. apply rq_ok_intro; [now apply w2_opp | now apply opp_sound].
    - injection E as <-. apply rq_ok_intro; [now apply (w2_abs_val u U0 U1) | now apply abs_sound].
    - now apply sqrt_okq with (p := p) (q := q) (c := c).
  Qed.

  Lemma pow_okq pc p q c r a a' :
    rq_pow pc (p, q, c) = Some r -> W p q a a' -> in_cls c a -> rq_ok r (powR pc a) (powRnd rnd pc a').
  Proof.
    intros E Wa Ca. destruct pc; cbn [rq_pow powR powRnd] in *; unfold rq_p, rq_q, rq_c in *; cbn [fst snd] in *.
    - injection E as <-. apply rq_ok_intro; [|now apply sq_sound].
      apply (w2_rnd u U0 U1 rnd REL). now apply (w2_sq u U0 U1).
    - now apply sqrt_okq with (p := p) (q := q) (c := c).
  Qed.

  Lemma vec_okq (f : R -> R -> R) (g : R -> R -> option R) (Q1 Q2 : R -> Prop) p q c' x y :
    length x = length y -> Forall Q1 x -> Forall Q2 y ->
    (forall a b, Q1 a -> Q2 b -> rq_ok (p, q, c') (f a b) (g a b)) ->
    exists l, oseq (map2 g x y) = Some l /\ Forall2 (W p q) (map2 f x y) l
              /\ Forall (in_cls c') (map2 f x y).
  Proof.
    intros HL HX HY HF. revert y HL HY.
    induction HX as [|a x Ha HX IH]; intros [|b y] HL HY; cbn [length] in HL; try discriminate.
    - exists []. cbn. auto.
    - inversion HY as [|b' y' Hb HY']; subst.
      destruct (IH y) as [l [El [Wl Cl]]]; [lia | assumption |].
      destruct (HF a b Ha Hb) as [r [Er [Wr Cr]]]. unfold rq_p, rq_q, rq_c in *. cbn [fst snd] in *.
      exists (r :: l). cbn [map2 oseq]. rewrite Er, El. auto.
  Qed.

  Section Expr.
    Variable n : nat.
    Variable call : string -> list R -> list R -> R.
    Variable callR : string -> list R -> list R -> option R.
    Variable callk : string -> cls -> option rq.
    Variable pe : string -> R.
    Hypothesis call_ok : forall f c r x y,
      callk f c = Some r -> in_dom c x y -> length x = n -> rq_ok r (call f x y) (callR f x y).

    Local Notation eS := (evalS call pe).
    Local Notation eV := (evalV call pe).
    Local Notation rS := (evalSR rnd callR pe).
    Local Notation rV := (evalVR rnd callR pe).
    Local Notation dS := (rqS n callk).
    Local Notation dV := (rqV n callk).

    Definition okSq (s : sexpr) : Prop := forall c r x y,
      dS c s = Some r -> in_dom c x y -> length x = n -> rq_ok r (eS s x y) (rS s x y).

    Definition okVq (v : vexpr) : Prop := forall c r x y a b,
      dV c v = Some r -> in_dom c x y -> length x = n -> in_cls c a -> in_cls c b ->
      rq_ok r (eV v x y a b) (rV v x y a b).

    Lemma okVq_vec v c p q c' x y :
      okVq v -> dV c v = Some (p, q, c') -> in_dom c x y -> length x = n ->
      exists l, oseq (map2 (fun a b => rV v x y a b) x y) = Some l
                /\ Forall2 (W p q) (map2 (fun a b => eV v x y a b) x y) l
                /\ Forall (in_cls c') (map2 (fun a b => eV v x y a b) x y).
    Proof.
      intros HV E HD Hn. pose proof HD as [HL [H1 [HX HY]]].
      apply (vec_okq _ _ (in_cls c) (in_cls c)); try assumption.
      intros a b Ha Hb. now apply (HV c (p, q, c') x y a b).
    Qed.

    Lemma zero_constR v x y a b : is_zero_const v = true -> rV v x y a b = Some 0 /\ eV v x y a b = 0.
    Proof.
      destruct v as [| |s| | | |]; try discriminate. destruct s; try discriminate.
      cbn [is_zero_const evalVR evalSR evalV evalS]. intros E. apply Z.eqb_eq in E.
      unfold Q2R. rewrite E. split; [f_equal|]; lra.
    Qed.

    Lemma ok_SSumq v : okVq v -> okSq (SSum v).
    Proof.
      intros HV c r x y E HD Hn. rewrite rqS_SSum in E. rewrite evalS_SSum, evalSR_SSum.
      destruct (dV c v) as [[[p q] c']|] eqn:Ev; [|discriminate].
      destruct (cls_nonneg c') eqn:N; [|discriminate]. injection E as <-.
      destruct (okVq_vec v c p q c' x y HV Ev HD Hn) as [l [El [Wl Cl]]]. rewrite El. cbn [obind].
      pose proof HD as [HL [H1 _]].
      assert (Len : length (map2 (fun a b => eV v x y a b) x y) = n) by (rewrite map2_length; assumption).
      apply rq_ok_intro.
      - rewrite <- Len. apply (rsum_w2 u U0 U1 rnd p q _ _ REL Wl). now apply (Forall_nonneg c').
      - apply sum_cls; [exact N | exact Cl | lia].
    Qed.

    Lemma ok_SAmaxq v : okVq v -> okSq (SAmax v).
    Proof.
      intros HV c r x y E HD Hn. rewrite rqS_SAmax in E. rewrite evalS_SAmax, evalSR_SAmax.
      destruct (dV c v) as [[[p q] c']|] eqn:Ev; [|discriminate].
      destruct (okVq_vec v c p q c' x y HV Ev HD Hn) as [l [El [Wl Cl]]]. rewrite El. cbn [obind].
      pose proof HD as [HL [H1 _]].
      assert (Len : (1 <= length (map2 (fun a b => eV v x y a b) x y))%nat) by (rewrite map2_length; lia).
      unfold rq_c in E. cbn [snd] in E.
      destruct (cls_nonneg c') eqn:N.
      - cbn [orb] in E. injection E as <-. apply rq_ok_intro.
        + apply (lmax_w2 u U0 U1); [exact Wl | now apply (Forall_nonneg c')].
        + now apply lmax_sound.
      - cbn [orb] in E. destruct (rq_exact (p, q, c')) eqn:X; [|discriminate]. injection E as <-.
        apply rq_exact_inv in X. destruct X as [-> ->]. rewrite (Forall2_w2_0_eq u _ _ Wl). apply rq_ok_intro.
        + apply w2_refl.
        + now apply lmax_sound.
    Qed.

    Lemma ok_SCountNeq p q : okVq p -> okVq q -> okSq (SCountNe p q).
    Proof.
      intros HP HQ c r x y E HD Hn. rewrite rqS_SCountNe in E. rewrite evalS_SCountNe, evalSR_SCountNe.
      destruct (dV c p) as [[[pa qa] ca]|] eqn:Ea; [|discriminate].
      destruct (dV c q) as [[[pb qb] cb]|] eqn:Eb; [|discriminate].
      pose proof HD as [HL [H1 [HX HY]]].
      destruct (rq_exact (pa, qa, ca) && rq_exact (pb, qb, cb)) eqn:X.
      - injection E as <-. ex2 X.
        rewrite (oseq_map2_eq _ (fun a b => (eV p x y a b, eV q x y a b)) (in_cls c) (in_cls c) x y HL HX HY).
        + cbn [obind]. rewrite countne_eq. apply rq_ok_intro; [apply w2_refl|].
          cbn [in_cls]. apply sum_nonneg. apply map2_nonneg. intros a b. destruct (Rneqb _ _); lra.
        + intros a b Ha Hb.
          destruct (HP c _ x y a b Ea HD Hn Ha Hb) as [s [Es [Ws _]]].
          destruct (HQ c _ x y a b Eb HD Hn Ha Hb) as [t [Et [Wt _]]].
          unfold rq_p, rq_q in *. cbn [fst snd] in *. w0 Ws. w0 Wt. rewrite Es, Et. reflexivity.
      - unfold rq_c in E. cbn [snd] in E.
        destruct (is_zero_const q && cls_strict ca) eqn:Z; [|discriminate]. injection E as <-.
        apply andb_prop in Z. destruct Z as [Z1 Z2].
        destruct (oseq_map2
                    (fun a b => obind2 (rV p x y a b) (rV q x y a b) (fun s t => Some (s, t)))
                    (fun st => fst st <> snd st) (in_cls c) (in_cls c) x y HL HX HY) as [l [El [Pl Ll]]].
        { intros a b Ha Hb.
          destruct (HP c _ x y a b Ea HD Hn Ha Hb) as [s [Es [Ws Cs]]].
          destruct (zero_constR q x y a b Z1) as [Eq _]. rewrite Es, Eq. cbn [obind2].
          eexists; split; [reflexivity|]. cbn [fst snd]. unfold rq_p, rq_q, rq_c in *. cbn [fst snd] in *.
          apply (w2_nonzero u U0 U1 pa qa (eV p x y a b) s); [now apply (strict_cls ca) | exact Ws]. }
        rewrite El. cbn [obind]. rewrite (countne_all l Pl), Ll.
        rewrite (sum_map2_ones _ (in_cls c) (in_cls c) x y HL HX HY).
        + apply rq_ok_intro; [apply w2_refl|]. cbn [in_cls]. now apply INR_len_pos.
        + intros a b Ha Hb.
          destruct (HP c _ x y a b Ea HD Hn Ha Hb) as [s [Es [Ws Cs]]].
          destruct (zero_constR q x y a b Z1) as [_ Eq]. rewrite Eq. unfold rq_c in Cs. cbn [snd] in Cs.
          pose proof (strict_cls ca _ Z2 Cs) as NE. unfold Rneqb.
          destruct (Req_EM_T (eV p x y a b) 0); [contradiction | reflexivity].
    Qed.

    Lemma ok_SBinq o s1 s2 : okSq s1 -> okSq s2 -> okSq (SBin o s1 s2).
    Proof.
      intros H1 H2 c r x y E HD Hn. rewrite rqS_SBin in E. rewrite evalS_SBin, evalSR_SBin.
      apply obind2_some in E. destruct E as [[[pa qa] ca] [[[pb qb] cb] [E1 [E2 E]]]].
      destruct (H1 c _ x y E1 HD Hn) as [r1 [R1 [W1 C1]]]. destruct (H2 c _ x y E2 HD Hn) as [r2 [R2 [W2 C2]]].
      rewrite R1, R2. unfold rq_p, rq_q, rq_c in *. cbn [obind2 fst snd] in *. now apply (bin_okq o pa qa ca pb qb cb).
    Qed.

    Lemma ok_SUnq o s1 : okSq s1 -> okSq (SUn o s1).
    Proof.
      intros H1 c r x y E HD Hn. rewrite rqS_SUn in E. rewrite evalS_SUn, evalSR_SUn.
      apply obind_some in E. destruct E as [[[pa qa] ca] [E1 E]].
      destruct (H1 c _ x y E1 HD Hn) as [r1 [R1 [W1 C1]]]. rewrite R1. unfold rq_p, rq_q, rq_c in W1, C1. cbn [obind fst snd] in *.
      now apply (un_okq o pa qa ca).
    Qed.

    Lemma ok_SPowCq s1 pc : okSq s1 -> okSq (SPowC s1 pc).
    Proof.
      intros H1 c r x y E HD Hn. rewrite rqS_SPowC in E. rewrite evalS_SPowC, evalSR_SPowC.
      apply obind_some in E. destruct E as [[[pa qa] ca] [E1 E]].
      destruct (H1 c _ x y E1 HD Hn) as [r1 [R1 [W1 C1]]]. rewrite R1. unfold rq_p, rq_q, rq_c in W1, C1. cbn [obind fst snd] in *.
      now apply (pow_okq pc pa qa ca).
    Qed.

    Lemma ok_SCallq f p q : okVq p -> okVq q -> okSq (SCall f p q).
    Proof.
      intros HP HQ c r x y E HD Hn. rewrite rqS_SCall in E. rewrite evalS_SCall, evalSR_SCall.
      destruct (dV c p) as [[[pa qa] ca]|] eqn:Ea; [|discriminate].
      destruct (dV c q) as [[[pb qb] cb]|] eqn:Eb; [|discriminate].
      destruct (rq_exact (pa, qa, ca) && rq_exact (pb, qb, cb)) eqn:X; [|discriminate]. ex2 X.
      destruct (okVq_vec p c 0%nat 0%nat ca x y HP Ea HD Hn) as [lp [Elp [Wlp Clp]]].
      destruct (okVq_vec q c 0%nat 0%nat cb x y HQ Eb HD Hn) as [lq [Elq [Wlq Clq]]].
      rewrite Elp, Elq. cbn [obind2].
      rewrite (Forall2_w2_0_eq u _ _ Wlp), (Forall2_w2_0_eq u _ _ Wlq).
      pose proof HD as [HL [H1 _]]. unfold rq_c in E. cbn [snd] in E.
      apply (call_ok f _ r _ _ E).
      - repeat split.
        + rewrite !map2_length; auto.
        + rewrite map2_length; [lia | assumption].
        + now apply Forall_join_l.
        + now apply Forall_join_r.
      - rewrite map2_length; assumption.
    Qed.

    Lemma ok_VBinq o v1 v2 : okVq v1 -> okVq v2 -> okVq (VBin o v1 v2).
    Proof.
      intros H1 H2 c r x y a b E HD Hn Ha Hb. rewrite rqV_VBin in E. rewrite evalV_VBin, evalVR_VBin.
      apply obind2_some in E. destruct E as [[[pa qa] ca] [[[pb qb] cb] [E1 [E2 E]]]].
      destruct (H1 c _ x y a b E1 HD Hn Ha Hb) as [r1 [R1 [W1 C1]]].
      destruct (H2 c _ x y a b E2 HD Hn Ha Hb) as [r2 [R2 [W2 C2]]].
      rewrite R1, R2. unfold rq_p, rq_q, rq_c in *. cbn [obind2 fst snd] in *. now apply (bin_okq o pa qa ca pb qb cb).
    Qed.

    Lemma ok_VUnq o v1 : okVq v1 -> okVq (VUn o v1).
    Proof.
      intros H1 c r x y a b E HD Hn Ha Hb. rewrite rqV_VUn in E. rewrite evalV_VUn, evalVR_VUn.
      apply obind_some in E. destruct E as [[[pa qa] ca] [E1 E]].
      destruct (H1 c _ x y a b E1 HD Hn Ha Hb) as [r1 [R1 [W1 C1]]]. rewrite R1.
      unfold rq_p, rq_q, rq_c in W1, C1. cbn [obind fst snd] in *. now apply (un_okq o pa qa ca).
    Qed.

    Lemma ok_VPowCq v1 pc : okVq v1 -> okVq (VPowC v1 pc).
    Proof.
      intros H1 c r x y a b E HD Hn Ha Hb. rewrite rqV_VPowC in E. rewrite evalV_VPowC, evalVR_VPowC.
      apply obind_some in E. destruct E as [[[pa qa] ca] [E1 E]].
      destruct (H1 c _ x y a b E1 HD Hn Ha Hb) as [r1 [R1 [W1 C1]]]. rewrite R1.
      unfold rq_p, rq_q, rq_c in W1, C1. cbn [obind fst snd] in *. now apply (pow_okq pc pa qa ca).
    Qed.

    Lemma sound_mutq : (forall v, okVq v) /\ (forall s, okSq s).
    Proof.
      apply expr_mutind.
      - intros c r x y a b E HD Hn Ha Hb. cbn in E. injection E as <-. cbn [evalV evalVR].
        apply rq_ok_intro; [apply w2_refl | assumption].
      - intros c r x y a b E HD Hn Ha Hb. cbn in E. injection E as <-. cbn [evalV evalVR].
        apply rq_ok_intro; [apply w2_refl | assumption].
      - intros s HS c r x y a b E HD Hn Ha Hb. rewrite rqV_VConstS in E. rewrite evalV_VConstS, evalVR_VConstS.
        now apply (HS c r x y).
      - intros o v1 H1 v2 H2. now apply ok_VBinq.
      - intros o v1 H1. now apply ok_VUnq.
      - intros v1 H1 pc. now apply ok_VPowCq.
      - intros cm l _ r0 _ v1 _ v2 _ c r x y a b E. discriminate E.
      - intros v HV. now apply ok_SSumq.
      - intros v HV. now apply ok_SAmaxq.
      - intros p HP q HQ. now apply ok_SCountNeq.
      - intros c r x y E HD Hn. cbn in E. injection E as <-. cbn [evalS evalSR].
        apply rq_ok_intro; [apply w2_refl|]. destruct HD as [_ [H1 _]]. unfold len. cbn [in_cls]. now apply INR_len_pos.
      - intros q c r x y E HD Hn. cbn in E. injection E as <-. cbn [evalS evalSR].
        apply rq_ok_intro; [apply w2_refl | apply Q_sound].
      - intros nm c r x y E HD Hn. cbn in E. injection E as <-. cbn [evalS evalSR].
        apply rq_ok_intro; [apply w2_refl | apply cname_sound].
      - intros s c r x y E HD Hn. cbn in E. injection E as <-. cbn [evalS evalSR].
        apply rq_ok_intro; [apply w2_refl | exact I].
      - intros o s1 H1 s2 H2. now apply ok_SBinq.
      - intros o s1 H1. now apply ok_SUnq.
      - intros s1 H1 pc. now apply ok_SPowCq.
      - intros f p HP q HQ. now apply ok_SCallq.
    Qed.

    Lemma rqS_sound s c r x y :
      dS c s = Some r -> in_dom c x y -> length x = n -> rq_ok r (eS s x y) (rS s x y).
    Proof. apply (proj2 sound_mutq s). Qed.
  End Expr.

  (* ---------- sibling calls ---------- *)
  Lemma wrap_rq_callee_sound n call callR callk pe dparams dprog m c r x y :
    (forall f c r x y, callk f c = Some r -> in_dom c x y -> length x = n -> rq_ok r (call f x y) (callR f x y)) ->
    wrap_rq_callee n callk m c = Some r -> in_dom c x y -> length x = n ->
    rq_ok r (wrap call dparams dprog pe m x y) (wrapR rnd callR dparams dprog pe m x y).
  Proof.
    intros call_ok E HD Hn. unfold wrap_rq_callee in E. unfold wrap, wrapR, eval_body, eval_bodyR.
    destruct (m_avoid_zero m); [discriminate|].
    now apply (rqS_sound n call callR callk pe call_ok (m_body m) c r x y).
  Qed.

  Lemma call_rq_sound n t dparams dprog fuel : forall f c r x y,
    call_rq n t fuel f c = Some r -> in_dom c x y -> length x = n ->
    rq_ok r (call_fuel t dparams dprog fuel f x y) (call_fuelR rnd t dparams dprog fuel f x y).
  Proof.
    induction fuel as [|g IH]; intros f c r x y; cbn [call_rq call_fuel call_fuelR]; [discriminate|].
    destruct (lookup_ir f t) as [m|]; [|discriminate].
    intros E HD Hn. now apply (wrap_rq_callee_sound n _ _ (call_rq n t g) _ _ _ m c r x y IH).
  Qed.

  (* ---------- the module-level function, at the generated tables ---------- *)
  Lemma rshift_dom c x y : in_dom c x y -> in_dom (shift_cls c) (rshift rnd x) (rshift rnd y).
  Proof.
    intros [HL [H1 [HX HY]]]. unfold rshift. repeat split.
    - now rewrite !map_length.
    - now rewrite map_length.
    - apply Forall_map. revert HX. apply Forall_impl. intros a Ha. apply in_rnd_rel.
      unfold shift_cls. rewrite <- cval_eps. apply add_sound; [exact Ha | apply cname_sound].
    - apply Forall_map. revert HY. apply Forall_impl. intros a Ha. apply in_rnd_rel.
      unfold shift_cls. rewrite <- cval_eps. apply add_sound; [exact Ha | apply cname_sound].
  Qed.

  Theorem rdepthq_sound_gen c m n r x y :
    rdepthq_gen all_metrics_ir c m n = Some r -> in_dom c x y -> length x = n ->
    rq_ok r (metric_exact_at rnd m x y) (metric_rnd rnd m x y).
  Proof.
    unfold rdepthq_gen, metric_exact_at, body_value, metric_rnd, evalRnd_wrapped, evalRnd_wrapped_with, wrapR.
    intros E HD Hn. destruct (m_avoid_zero m).
    - rewrite dec_okR. unfold eval_body, eval_bodyR.
      apply (rqS_sound n _ _ (call_rq n all_metrics_ir call_depth) _ (call_rq_sound n _ _ _ call_depth)
                       (m_body m) (shift_cls c) r _ _ E).
      + now apply rshift_dom.
      + unfold rshift. now rewrite map_length.
    - unfold eval_body, eval_bodyR.
      now apply (rqS_sound n _ _ (call_rq n all_metrics_ir call_depth) _ (call_rq_sound n _ _ _ call_depth)
                           (m_body m) c r x y E).
  Qed.
End Sound.

Theorem rdepthq_sound c m n p q c' :
  rdepthq_gen all_metrics_ir c m n = Some (p, q, c') ->
  forall u rnd, 0 <= u < 1 -> rnd_rel u rnd ->
  forall x y, length x = n -> in_dom c x y ->
  exists fl, metric_rnd rnd m x y = Some fl
             /\ within2 u p q (metric_exact_at rnd m x y) fl
             /\ in_cls c' (metric_exact_at rnd m x y).
Proof.
  intros E u rnd [U0 U1] REL x y Hn HD.
  destruct (rdepthq_sound_gen u U0 U1 rnd REL c m n _ x y E HD Hn) as [fl [Efl [Wfl Cfl]]].
  exists fl. auto.
Qed.

Theorem rdepthq_in_sound c m n p q :
  rdepthq_in c m n = Some (p, q) ->
  forall u rnd, 0 <= u < 1 -> rnd_rel u rnd ->
  forall x y, length x = n -> in_dom c x y ->
  exists fl, metric_rnd rnd m x y = Some fl
             /\ within2 u p q (metric_exact_at rnd m x y) fl
             /\ Rabs (fl - metric_exact_at rnd m x y) <= (up_f u p q - 1) * Rabs (metric_exact_at rnd m x y).
Proof.
  unfold rdepthq_in. destruct (rdepthq_gen all_metrics_ir c m n) as [[[p0 q0] c']|] eqn:E; [|discriminate].
  cbn [option_map fst]. intros K. injection K as <- <-. intros u rnd HU REL x y Hn HD.
  destruct (rdepthq_sound c m n p0 q0 c' E u rnd HU REL x y Hn HD) as [fl [Efl [Wfl _]]].
  exists fl. split; [exact Efl|]. split; [exact Wfl|]. destruct HU as [U0 U1].
  now apply (w2_abs u U0 U1).
Qed.
