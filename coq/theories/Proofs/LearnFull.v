(* C17, closed loop (Model/LearnFull.v): learn_full refines Model/Learn.learn on the iteration
   records computed from its own fits, so conservation / keeps-best / snapshot transfer;
   prune_full refines Model/Learn.prune on its own relevance flags. *)
From Coq Require Import ZArith QArith Qabs List Arith Bool Lia Permutation.
From OPF Require Import Base.Lists Model.Heap Model.Sup Model.Learn Model.Measures Model.LearnFull.
From OPF Require Import Proofs.Learn.
Import ListNotations.
Local Open Scope nat_scope.

(* ------------------------------------------------------------------------------------ *)
(* generic part: any weight type, any accuracy domain                                   *)

Section Refine.
  Context {W A : Type}.
  Variable ltb : W -> W -> bool.
  Variables zero top : W.
  Variable w : nat -> nat -> W.
  Variable ao : acc_ops A.

  Local Notation iterate := (iterate ltb zero top w ao).
  Local Notation loop := (learn_full_loop ltb zero top w ao).

  (* the caller's arrays an iteration record was computed from *)
  Definition fi_state (it : fiter W A) : lstate nat := mkL (fi_X it) (fi_Y it) (fi_Xv it) (fi_Yv it).

  Lemma fi_state_iterate prev st : fi_state (iterate prev st) = st.
  Proof. destruct st; reflexivity. Qed.

  (* the record of Model/Learn.v that an iteration of the closed loop stands for, the accuracy
     order-encoded by [rk] *)
  Definition enc_iter (rk : A -> Z) (it : fiter W A) : iter_in :=
    mkIter (rk (fi_acc it)) (fi_errs it) (n_status (fi_nodes it)) (fi_small it).

  Definition exchanges (it : fiter W A) (draws : list nat) (st : lstate nat) : list nat * lstate nat :=
    err_loop (n_status (fi_nodes it)) (fi_errs it) (count_non_prototypes (n_status (fi_nodes it))) draws st.

  Lemma loop_S fuel t n mx prev best snap bnd draws st :
    loop (S fuel) t n mx prev best snap bnd draws st =
    let it := iterate prev st in
    let u := Nat.eqb t 0 || ao_gt ao (fi_acc it) mx in
    let ds := exchanges it draws st in
    if fi_small it || Nat.eqb (S t) n
    then mkFRes (mkRes (if u then t else best) (S t) (if u then (l_Xt st, l_Yt st) else snap) (fst ds) (snd ds))
                (if u then fi_nodes it else bnd) [it]
    else let r := loop fuel (S t) n (if u then fi_acc it else mx) (fi_acc it) (if u then t else best)
                       (if u then (l_Xt st, l_Yt st) else snap) (if u then fi_nodes it else bnd)
                       (fst ds) (snd ds) in
         mkFRes (fr_res r) (fr_nodes r) (it :: fr_trace r).
  Proof. reflexivity. Qed.

  (* one step of Model/Learn.learn_loop on an encoded record *)
  Lemma learn_loop_enc rk it rest t n mz best snap draws st :
    learn_loop (enc_iter rk it :: rest) t n mz best snap draws st =
    let u := Nat.eqb t 0 || Z.ltb mz (rk (fi_acc it)) in
    let ds := exchanges it draws st in
    if fi_small it || Nat.eqb (S t) n
    then mkRes (if u then t else best) (S t) (if u then (l_Xt st, l_Yt st) else snap) (fst ds) (snd ds)
    else learn_loop rest (S t) n (if u then rk (fi_acc it) else mz) (if u then t else best)
                    (if u then (l_Xt st, l_Yt st) else snap) (fst ds) (snd ds).
  Proof.
    cbn [learn_loop enc_iter it_acc it_errs it_proto it_small]. unfold exchanges.
    destruct (err_loop _ _ _ draws st) as [d1 s1]. reflexivity.
  Qed.

  (* [rk] is an order embedding of the accuracies that occur: comparing codes = the code's [>] *)
  Definition rk_compat (rk : A -> Z) (tr : list (fiter W A)) : Prop :=
    forall it it', In it tr -> In it' tr ->
      Z.ltb (rk (fi_acc it')) (rk (fi_acc it)) = ao_gt ao (fi_acc it) (fi_acc it').

  Lemma loop_refines rk : forall fuel t n mx prev best snap bnd draws st mz,
    let r := loop fuel t n mx prev best snap bnd draws st in
    (t <> 0 -> forall it, In it (fr_trace r) -> Z.ltb mz (rk (fi_acc it)) = ao_gt ao (fi_acc it) mx) ->
    rk_compat rk (fr_trace r) ->
    learn_loop (map (enc_iter rk) (fr_trace r)) t n mz best snap draws st = fr_res r.
  Proof.
    induction fuel as [|f IH]; intros t n mx prev best snap bnd draws st mz r H1 H2; [reflexivity|].
    subst r. revert H1 H2. rewrite loop_S. cbv zeta.
    set (it := iterate prev st). set (ds := exchanges it draws st).
    assert (Hu : forall tr, (t <> 0 -> forall it0, In it0 (it :: tr) ->
                               Z.ltb mz (rk (fi_acc it0)) = ao_gt ao (fi_acc it0) mx) ->
                 Nat.eqb t 0 || Z.ltb mz (rk (fi_acc it)) = Nat.eqb t 0 || ao_gt ao (fi_acc it) mx).
    { intros tr H. destruct (Nat.eqb_spec t 0) as [E|E]; [reflexivity|]. cbn [orb].
      apply H; [exact E | left; reflexivity]. }
    destruct (fi_small it || Nat.eqb (S t) n) eqn:Estop.
    - cbn [fr_trace fr_res map]. intros H1 H2.
      rewrite learn_loop_enc. cbv zeta. fold ds. rewrite Estop. rewrite (Hu [] H1). reflexivity.
    - cbn [fr_trace fr_res map]. intros H1 H2.
      rewrite learn_loop_enc. cbv zeta. fold ds. rewrite Estop. rewrite (Hu _ H1).
      set (u := Nat.eqb t 0 || ao_gt ao (fi_acc it) mx) in *.
      apply IH.
      + intros _ it' Hin. destruct u eqn:Eu.
        * apply H2; [right; exact Hin | left; reflexivity].
        * apply H1; [|right; exact Hin].
          intros E. subst t. unfold u in Eu. cbn in Eu. discriminate.
      + intros a b Ha Hb. apply H2; right; assumption.
  Qed.

  (* the closed loop is Model/Learn.learn run on the records of its own iterations *)
  Theorem learn_full_refines_gen rk n draws st :
    let r := learn_full ltb zero top w ao n draws st in
    rk_compat rk (fr_trace r) ->
    fr_res r = learn (map (enc_iter rk) (fr_trace r)) n draws st.
  Proof.
    intros r H. symmetry. unfold learn. apply (loop_refines rk); [|exact H].
    intros E; contradiction E; reflexivity.
  Qed.

  (* ---------------- what the records are ---------------- *)

  (* previous_acc when iteration i starts *)
  Definition prev_at (prev0 : A) (tr : list (fiter W A)) (i : nat) : A :=
    match i with
    | 0 => prev0
    | S j => match nth_error tr j with Some it => fi_acc it | None => prev0 end
    end.

  Lemma state_at_S {R} (it : iter_in) rest k draws (st : lstate R) :
    state_at (it :: rest) (S k) draws st =
    state_at rest k (fst (err_loop (it_proto it) (it_errs it) (count_non_prototypes (it_proto it)) draws st))
                    (snd (err_loop (it_proto it) (it_errs it) (count_non_prototypes (it_proto it)) draws st)).
  Proof. cbn [state_at]. destruct (err_loop _ _ _ draws st); reflexivity. Qed.

  (* iteration i of the trace is [iterate] applied to the caller's arrays as they stand after the
     exchanges of iterations 0..i-1 (Proofs/Learn.v: state_at) *)
  Lemma loop_trace_spec rk : forall fuel t n mx prev best snap bnd draws st i it,
    let r := loop fuel t n mx prev best snap bnd draws st in
    nth_error (fr_trace r) i = Some it ->
    it = iterate (prev_at prev (fr_trace r) i) (state_at (map (enc_iter rk) (fr_trace r)) i draws st).
  Proof.
    induction fuel as [|f IH]; intros t n mx prev best snap bnd draws st i it r; subst r.
    - cbn [learn_full_loop fr_trace]. destruct i; discriminate.
    - rewrite loop_S. cbv zeta.
      set (it0 := iterate prev st). set (ds := exchanges it0 draws st).
      destruct (fi_small it0 || Nat.eqb (S t) n).
      + cbn [fr_trace]. destruct i as [|i]; cbn [nth_error]; [|destruct i; discriminate].
        intros E; inversion E; subst it. reflexivity.
      + cbn [fr_trace]. destruct i as [|i]; cbn [nth_error].
        * intros E; inversion E; subst it. reflexivity.
        * intros E.
          match type of E with nth_error (fr_trace ?rr) i = _ => set (r' := rr) in * end.
          pose proof (IH _ _ _ _ _ _ _ _ _ i it E) as H. fold r' in H.
          cbn [map]. rewrite state_at_S. cbn [enc_iter it_proto it_errs].
          fold (exchanges it0 draws st). fold ds.
          rewrite H at 1. f_equal.
          destruct i as [|i]; [reflexivity|]. cbn [prev_at nth_error].
          destruct (nth_error (fr_trace r') i) eqn:En; [reflexivity|].
          apply nth_error_None in En.
          assert (Hs : nth_error (fr_trace r') (S i) <> None) by (rewrite E; discriminate).
          apply nth_error_Some in Hs. lia.
  Qed.

  Theorem learn_full_trace_spec rk n draws st i it :
    let r := learn_full ltb zero top w ao n draws st in
    nth_error (fr_trace r) i = Some it ->
    it = iterate (prev_at (ao_zero ao) (fr_trace r) i)
                 (state_at (map (enc_iter rk) (fr_trace r)) i draws st).
  Proof. intros r. apply loop_trace_spec. Qed.

  (* number of iterations run = length of the trace *)
  Lemma loop_iters : forall fuel t n mx prev best snap bnd draws st,
    let r := loop fuel t n mx prev best snap bnd draws st in
    r_iters (fr_res r) = t + length (fr_trace r).
  Proof.
    induction fuel as [|f IH]; intros t n mx prev best snap bnd draws st r; subst r.
    - cbn. lia.
    - rewrite loop_S. cbv zeta. destruct (fi_small _ || Nat.eqb (S t) n).
      + cbn. lia.
      + cbn [fr_res fr_trace length]. rewrite IH. lia.
  Qed.

  Lemma loop_len_le : forall fuel t n mx prev best snap bnd draws st,
    length (fr_trace (loop fuel t n mx prev best snap bnd draws st)) <= fuel.
  Proof.
    induction fuel as [|f IH]; intros; [cbn; lia|].
    rewrite loop_S. cbv zeta. destruct (fi_small _ || Nat.eqb (S t) n); cbn [fr_trace length]; [lia|].
    apply le_n_S. apply IH.
  Qed.

  Lemma loop_len_ge : forall fuel t n mx prev best snap bnd draws st,
    1 <= fuel -> 1 <= length (fr_trace (loop fuel t n mx prev best snap bnd draws st)).
  Proof.
    intros [|f] t n mx prev best snap bnd draws st H; [lia|].
    rewrite loop_S. cbv zeta. destruct (fi_small _ || Nat.eqb (S t) n); cbn [fr_trace length]; lia.
  Qed.

  (* the fuel n_iterations is never binding: with t + fuel = n_iterations and fuel >= 1 the loop
     ends through its own stop test (the last iteration run satisfies it) *)
  Lemma loop_stops : forall fuel t n mx prev best snap bnd draws st,
    t + fuel = n -> 1 <= fuel ->
    let r := loop fuel t n mx prev best snap bnd draws st in
    exists it, last (fr_trace r) it = it /\ In it (fr_trace r) /\
               (fi_small it || Nat.eqb (t + length (fr_trace r)) n = true).
  Proof.
    induction fuel as [|f IH]; intros t n mx prev best snap bnd draws st Hn Hf r; [lia|]. subst r.
    rewrite loop_S. cbv zeta. set (it0 := iterate prev st).
    destruct (fi_small it0 || Nat.eqb (S t) n) eqn:Estop.
    - cbn [fr_trace length]. exists it0. split; [reflexivity|]. split; [left; reflexivity|].
      replace (t + 1) with (S t) by lia. exact Estop.
    - destruct f as [|f].
      + exfalso. apply orb_false_iff in Estop. destruct Estop as [_ E].
        apply Nat.eqb_neq in E. lia.
      + cbn [fr_trace length].
        match goal with |- context [loop (S f) (S t) n ?a ?b ?c ?d ?e ?g ?h] =>
          set (r' := loop (S f) (S t) n a b c d e g h);
          destruct (IH (S t) n a b c d e g h ltac:(lia) ltac:(lia)) as (it & Hl & Hin & Hs) end.
        fold r' in Hl, Hin, Hs.
        assert (Hne : 1 <= length (fr_trace r')) by (apply loop_len_ge; lia).
        exists it. split; [|split].
        * destruct (fr_trace r') as [|x tr'] eqn:Etr; [cbn in Hne; lia|]. exact Hl.
        * right. exact Hin.
        * replace (t + S (length (fr_trace r'))) with (S t + length (fr_trace r')) by lia. exact Hs.
  Qed.

  (* the classifier left in the object and the snapshot are those of iteration r_best *)
  Lemma loop_kept : forall fuel t n mx prev best snap bnd draws st,
    let r := loop fuel t n mx prev best snap bnd draws st in
    (r_best (fr_res r) = best /\ r_snap (fr_res r) = snap /\ fr_nodes r = bnd) \/
    (exists i it, r_best (fr_res r) = t + i /\ nth_error (fr_trace r) i = Some it /\
                  r_snap (fr_res r) = (fi_X it, fi_Y it) /\ fr_nodes r = fi_nodes it).
  Proof.
    induction fuel as [|f IH]; intros t n mx prev best snap bnd draws st r; subst r.
    - left. repeat split.
    - rewrite loop_S. cbv zeta. set (it0 := iterate prev st).
      set (u := Nat.eqb t 0 || ao_gt ao (fi_acc it0) mx).
      assert (Hnow : ((if u then t else best) = best /\ (if u then (l_Xt st, l_Yt st) else snap) = snap /\
                      (if u then fi_nodes it0 else bnd) = bnd) \/
                     ((if u then t else best) = t + 0 /\
                      (if u then (l_Xt st, l_Yt st) else snap) = (fi_X it0, fi_Y it0) /\
                      (if u then fi_nodes it0 else bnd) = fi_nodes it0)).
      { destruct u; [right | left]; repeat split; auto. }
      destruct (fi_small it0 || Nat.eqb (S t) n).
      + cbn [fr_res fr_nodes fr_trace r_best r_snap].
        destruct Hnow as [H|(Hb & Hs & Hn)]; [left; exact H|].
        right. exists 0, it0. repeat split; auto.
      + cbn [fr_res fr_nodes fr_trace].
        match goal with |- context [loop f (S t) n ?a ?b ?c ?d ?e ?g ?h] =>
          destruct (IH (S t) n a b c d e g h) as [(Hb & Hs & Hn)|(i & it & Hb & Hi & Hs & Hn)] end.
        * rewrite Hb, Hs, Hn. destruct Hnow as [H|(Hb' & Hs' & Hn')]; [left; exact H|].
          right. exists 0, it0. repeat split; auto.
        * right. exists (S i), it. repeat split; auto. rewrite Hb; lia.
  Qed.

  Theorem learn_full_kept n draws st :
    1 <= n ->
    let r := learn_full ltb zero top w ao n draws st in
    exists it, nth_error (fr_trace r) (r_best (fr_res r)) = Some it /\
               r_snap (fr_res r) = (fi_X it, fi_Y it) /\ fr_nodes r = fi_nodes it.
  Proof.
    intros Hn r. subst r. unfold learn_full. destruct n as [|n]; [lia|].
    rewrite loop_S. cbv zeta. set (it0 := iterate (ao_zero ao) st).
    change (Nat.eqb 0 0) with true. cbn [orb].
    destruct (fi_small it0 || Nat.eqb 1 (S n)).
    - cbn [fr_res fr_nodes fr_trace r_best r_snap]. exists it0.
      split; [reflexivity|]. split; reflexivity.
    - cbn [fr_res fr_nodes fr_trace].
      match goal with |- context [loop n 1 (S n) ?a ?b ?c ?d ?e ?g ?h] =>
        destruct (loop_kept n 1 (S n) a b c d e g h) as [(Hb & Hs & Hn')|(i & it & Hb & Hi & Hs & Hn')] end.
      + rewrite Hb, Hs, Hn'. exists it0. split; [reflexivity|]. split; reflexivity.
      + rewrite Hb, Hs, Hn'. exists it. split; [exact Hi|]. split; reflexivity.
  Qed.

  Theorem learn_full_iters n draws st :
    1 <= n ->
    let r := learn_full ltb zero top w ao n draws st in
    r_iters (fr_res r) = length (fr_trace r) /\ 1 <= length (fr_trace r) <= n.
  Proof.
    intros Hn r. split.
    - unfold r, learn_full. rewrite loop_iters. reflexivity.
    - unfold r, learn_full. split; [apply loop_len_ge; exact Hn | apply loop_len_le].
  Qed.
End Refine.

(* ------------------------------------------------------------------------------------ *)
(* the rank map for rational accuracies                                                 *)

Lemma Qltb_lt a b : Qltb a b = true <-> (a < b)%Q.
Proof.
  unfold Qltb. rewrite negb_true_iff. split.
  - intros H. apply Qnot_le_lt. intros Hle. apply Qle_bool_iff in Hle. congruence.
  - intros H. destruct (Qle_bool b a) eqn:E; [|reflexivity].
    apply Qle_bool_iff in E. exfalso. exact (Qlt_not_le _ _ H E).
Qed.

Lemma Qltb_ge a b : Qltb a b = false <-> (b <= a)%Q.
Proof.
  split.
  - intros H. apply Qnot_lt_le. intros Hlt. apply Qltb_lt in Hlt. congruence.
  - intros H. destruct (Qltb a b) eqn:E; [|reflexivity]. apply Qltb_lt in E.
    exfalso. exact (Qlt_not_le _ _ E H).
Qed.

(* number of listed values strictly below a *)
Definition qrank (l : list Q) (a : Q) : Z := Z.of_nat (length (filter (fun c => Qltb c a) l)).

Lemma filter_length_le {X} (P Q : X -> bool) l :
  (forall x, In x l -> P x = true -> Q x = true) -> length (filter P l) <= length (filter Q l).
Proof.
  induction l as [|x l IH]; intros H; [cbn; lia|]. cbn [filter].
  assert (IH' : length (filter P l) <= length (filter Q l)) by (apply IH; intros; apply H; [right|]; auto).
  destruct (P x) eqn:EP.
  - rewrite (H x (or_introl eq_refl) EP). cbn. lia.
  - destruct (Q x); cbn; lia.
Qed.

Lemma filter_length_lt {X} (P Q : X -> bool) l x0 :
  (forall x, In x l -> P x = true -> Q x = true) -> In x0 l -> P x0 = false -> Q x0 = true ->
  length (filter P l) < length (filter Q l).
Proof.
  induction l as [|x l IH]; intros H Hin HP HQ; [destruct Hin|]. cbn [filter].
  assert (Hle : length (filter P l) <= length (filter Q l))
    by (apply filter_length_le; intros; apply H; [right|]; auto).
  destruct Hin as [->|Hin].
  - rewrite HP, HQ. cbn. lia.
  - assert (IH' : length (filter P l) < length (filter Q l))
      by (apply IH; auto; intros; apply H; [right|]; auto).
    destruct (P x) eqn:EP.
    + rewrite (H x (or_introl eq_refl) EP). cbn. lia.
    + destruct (Q x); cbn; lia.
Qed.

Lemma qrank_lt l a b : In b l -> (Z.ltb (qrank l b) (qrank l a) = Qltb b a).
Proof.
  intros Hb. unfold qrank. destruct (Qltb b a) eqn:E.
  - apply Z.ltb_lt. apply Nat2Z.inj_lt. apply Qltb_lt in E.
    apply (filter_length_lt _ _ l b); auto.
    + intros x _ Hx. apply Qltb_lt in Hx. apply Qltb_lt. eapply Qlt_trans; eauto.
    + apply Qltb_ge. apply Qle_refl.
    + apply Qltb_lt; exact E.
  - apply Z.ltb_ge. apply Nat2Z.inj_le. apply Qltb_ge in E.
    apply filter_length_le. intros x _ Hx. apply Qltb_lt in Hx. apply Qltb_lt.
    eapply Qlt_le_trans; eauto.
Qed.

Lemma qrank_le l a b : In b l -> (Z.leb (qrank l a) (qrank l b) = Qle_bool a b).
Proof.
  intros Hb. rewrite Z.leb_antisym, (qrank_lt l a b Hb). unfold Qltb. now rewrite negb_involutive.
Qed.

Section RefineQ.
  Context {W : Type}.
  Variable ltb : W -> W -> bool.
  Variables zero top : W.
  Variable w : nat -> nat -> W.

  Definition trace_accs (tr : list (fiter W Q)) : list Q := map (@fi_acc W Q) tr.

  (* the records fed to Model/Learn.learn: accuracy = rank among the accuracies of the run *)
  Definition its_of (tr : list (fiter W Q)) : list iter_in := map (enc_iter (qrank (trace_accs tr))) tr.

  Lemma qrank_compat tr : rk_compat QAcc (qrank (trace_accs tr)) tr.
  Proof.
    intros it it' Hi Hi'. cbn [QAcc ao_gt]. apply qrank_lt. unfold trace_accs. now apply in_map.
  Qed.

  Theorem learn_full_refines n draws st :
    let r := learn_full ltb zero top w QAcc n draws st in
    fr_res r = learn (its_of (fr_trace r)) n draws st.
  Proof. intros r. apply learn_full_refines_gen. apply qrank_compat. Qed.
End RefineQ.

(* ------------------------------------------------------------------------------------ *)
(* prune                                                                                *)

Section Prune.
  Context {W : Type}.
  Variable ltb : W -> W -> bool.
  Variables zero top : W.
  Variable w : nat -> nat -> W.

  Local Notation rounds := (prune_rounds ltb zero top w).

  Lemma rounds_nonempty k X Y Xv : rounds k X Y Xv <> [].
  Proof. destruct k; discriminate. Qed.

  Lemma rounds_length : forall k X Y Xv, length (rounds k X Y Xv) = S k.
  Proof. induction k as [|k IH]; intros; cbn [prune_rounds length]; [reflexivity|]. now rewrite IH. Qed.

  Lemma last_indep {X} : forall (l : list X) y d d', last (y :: l) d = last (y :: l) d'.
  Proof.
    induction l as [|z l IH]; intros y d d'; [reflexivity|].
    change (last (z :: l) d = last (z :: l) d'). apply IH.
  Qed.

  Lemma last_cons_nonempty {X} (x : X) l d d' : l <> [] -> last (x :: l) d = last l d'.
  Proof.
    intros H. destruct l as [|y l]; [contradiction|].
    change (last (y :: l) d = last (y :: l) d'). apply last_indep.
  Qed.

  (* the flags each round hands to the next: relevance marks of all rounds but the last *)
  Definition round_flags (rs : list (pround W)) : list (list bool) :=
    map (fun r => n_relevant (pr_nodes r)) (removelast rs).

  Lemma removelast_cons {X} (x : X) l : l <> [] -> removelast (x :: l) = x :: removelast l.
  Proof. destruct l; [contradiction|reflexivity]. Qed.

  (* the closed prune loop is Model/Learn.prune fed with its own relevance flags *)
  Lemma prune_rounds_refines : forall k X Y Xv d,
    let rs := rounds k X Y Xv in
    (pr_X (last rs d), pr_Y (last rs d)) = prune (round_flags rs) X Y.
  Proof.
    induction k as [|k IH]; intros X Y Xv d rs; subst rs.
    - reflexivity.
    - cbn [prune_rounds]. set (r0 := prune_fit ltb zero top w X Y Xv).
      rewrite (last_cons_nonempty _ _ d d) by apply rounds_nonempty.
      unfold round_flags. rewrite removelast_cons by apply rounds_nonempty.
      cbn [map]. unfold prune. cbn [fold_left]. unfold prune_round at 2. cbn [fst snd].
      apply IH.
  Qed.

  Theorem prune_full_refines n st :
    let rs := rounds n (l_Xt st) (l_Yt st) (l_Xv st) in
    let fin := prune_full ltb zero top w n st in
    (pr_X fin, pr_Y fin) = prune (round_flags rs) (l_Xt st) (l_Yt st).
  Proof. intros rs fin. apply prune_rounds_refines. Qed.

  (* consecutive rounds: the next training set is the previous one filtered by the relevance
     flags of the previous classifier, and every round is a fit + predict of its own set *)
  Lemma prune_rounds_step : forall k X Y Xv i r r',
    nth_error (rounds k X Y Xv) i = Some r -> nth_error (rounds k X Y Xv) (S i) = Some r' ->
    pr_X r' = keep (n_relevant (pr_nodes r)) (pr_X r) /\
    pr_Y r' = keep (n_relevant (pr_nodes r)) (pr_Y r).
  Proof.
    induction k as [|k IH]; intros X Y Xv i r r' H H'.
    - destruct i; cbn in H'; discriminate.
    - cbn [prune_rounds] in H, H'. destruct i as [|i].
      + cbn [nth_error] in H, H'. inversion H; subst r. clear H.
        destruct k; cbn [prune_rounds nth_error] in H'; inversion H'; subst r'; split; reflexivity.
      + cbn [nth_error] in H. change (nth_error (_ :: ?l) (S (S i))) with (nth_error l (S i)) in H'.
        eapply IH; eauto.
  Qed.

  Lemma prune_rounds_fit : forall k X Y Xv r,
    In r (rounds k X Y Xv) -> r = prune_fit ltb zero top w (pr_X r) (pr_Y r) Xv.
  Proof.
    induction k as [|k IH]; intros X Y Xv r H; cbn [prune_rounds] in H.
    - destruct H as [<-|[]]. reflexivity.
    - destruct H as [<-|H]; [reflexivity|]. eapply IH; eauto.
  Qed.

  Lemma prune_full_in n st :
    In (prune_full ltb zero top w n st) (rounds n (l_Xt st) (l_Yt st) (l_Xv st)).
  Proof.
    unfold prune_full. set (rs := rounds _ _ _ _).
    assert (H : rs <> []) by apply rounds_nonempty.
    destruct rs as [|x l]; [contradiction|].
    generalize (prune_fit ltb zero top w (l_Xt st) (l_Yt st) (l_Xv st)).
    clear H. revert x. induction l as [|y l IH]; intros x d; [left; reflexivity|].
    right. apply (IH y d).
  Qed.

  Lemma rounds_head k X Y Xv : exists l, rounds k X Y Xv = prune_fit ltb zero top w X Y Xv :: l.
  Proof. destruct k; cbn [prune_rounds]; eexists; reflexivity. Qed.
End Prune.

(* ------------------------------------------------------------------------------------ *)
(* a rank map exists for every accuracy domain whose [>] is a strict weak order on the   *)
(* accuracies of the run (rationals, non-NaN binary64 values, ...)                        *)

Section RankGen.
  Context {A : Type}.
  Variable gt : A -> A -> bool.            (* gt a b  =  "a > b" *)
  Variable l : list A.

  Definition weak_order_on : Prop :=
    (forall a, In a l -> gt a a = false) /\
    (forall a b c, In a l -> In b l -> In c l -> gt a b = true -> gt b c = true -> gt a c = true) /\
    (forall a b c, In a l -> In b l -> In c l -> gt a b = false -> gt b c = false -> gt a c = false).

  (* number of listed values strictly below a *)
  Definition grank (a : A) : Z := Z.of_nat (length (filter (fun c => gt a c) l)).

  Lemma grank_lt : weak_order_on -> forall a b, In a l -> In b l -> Z.ltb (grank b) (grank a) = gt a b.
  Proof.
    intros (Hirr & Htr & Hneg) a b Ha Hb. unfold grank. destruct (gt a b) eqn:E.
    - apply Z.ltb_lt. apply Nat2Z.inj_lt. apply (filter_length_lt _ _ l b); auto.
      intros x Hx Hbx. apply (Htr a b x); auto.
    - apply Z.ltb_ge. apply Nat2Z.inj_le. apply filter_length_le.
      intros x Hx Hax. destruct (gt b x) eqn:Ebx; [reflexivity|].
      rewrite (Hneg a b x Ha Hb Hx E Ebx) in Hax. discriminate.
  Qed.
End RankGen.

Section RefineWeak.
  Context {W A : Type}.
  Variable ltb : W -> W -> bool.
  Variables zero top : W.
  Variable w : nat -> nat -> W.
  Variable ao : acc_ops A.

  Theorem learn_full_refines_weak_order n draws st :
    let r := learn_full ltb zero top w ao n draws st in
    let accs := map (@fi_acc W A) (fr_trace r) in
    weak_order_on (ao_gt ao) accs ->
    fr_res r = learn (map (enc_iter (grank (ao_gt ao) accs)) (fr_trace r)) n draws st.
  Proof.
    intros r accs Hwo. apply learn_full_refines_gen.
    intros it it' Hi Hi'. apply grank_lt; [exact Hwo | |]; unfold accs; now apply in_map.
  Qed.
End RefineWeak.
