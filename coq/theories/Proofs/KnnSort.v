(* Pure list facts behind C12/C14: the stable insertion sort by distance, its first-k prefix,
   the candidate list of a scan, running maxima. Everything at W := Z. *)
From Coq Require Import List Arith Bool ZArith Lia Sorted Permutation.
From OPF Require Import Base.Lists.
Import ListNotations.

(* ------------------------------------------------------------------ *)
(* generic list helpers                                                *)
(* ------------------------------------------------------------------ *)

Lemma nth_firstn_lt {A} (d : A) : forall p (l : list A) i, i < p -> nth i (firstn p l) d = nth i l d.
Proof.
  induction p as [|p IH]; intros l i Hi; [lia|].
  destruct l as [|x l]; [destruct i; reflexivity|].
  destruct i as [|i]; cbn [firstn nth]; [reflexivity|apply IH; lia].
Qed.

Lemma nth_skipn_plus {A} (d : A) : forall p (l : list A) i, nth i (skipn p l) d = nth (p + i) l d.
Proof.
  induction p as [|p IH]; intros l i; [reflexivity|].
  destruct l as [|x l]; [destruct i; reflexivity|]. cbn [skipn plus nth]. apply IH.
Qed.

Lemma In_firstn_nth {A} (d : A) p (l : list A) x :
  In x (firstn p l) <-> exists i, i < p /\ i < length l /\ nth i l d = x.
Proof.
  split.
  - intros Hin. destruct (In_nth _ _ d Hin) as (i & Hi & Hx).
    rewrite firstn_length in Hi. exists i. split; [lia|]. split; [lia|].
    rewrite <- Hx. symmetry. apply nth_firstn_lt. lia.
  - intros (i & Hip & Hil & Hx). rewrite <- Hx, <- (nth_firstn_lt d p l i Hip).
    apply nth_In. rewrite firstn_length. lia.
Qed.

Lemma In_firstn {A} p (l : list A) x : In x (firstn p l) -> In x l.
Proof. intros H. rewrite <- (firstn_skipn p l). apply in_or_app. left; exact H. Qed.

Lemma In_split_firstn {A} p (l : list A) x : In x l -> In x (firstn p l) \/ In x (skipn p l).
Proof. intros H. rewrite <- (firstn_skipn p l) in H. apply in_app_or in H. exact H. Qed.

Lemma NoDup_firstn {A} : forall p (l : list A), NoDup l -> NoDup (firstn p l).
Proof.
  induction p as [|p IH]; intros l Hnd; [constructor|].
  destruct l as [|x l]; [constructor|]. inversion Hnd; subst. cbn [firstn].
  constructor; [|apply IH; assumption]. intros Hx. apply In_firstn in Hx. contradiction.
Qed.

Lemma firstn_snoc {A} (d : A) : forall m (l : list A), m < length l -> firstn (S m) l = firstn m l ++ [nth m l d].
Proof.
  induction m as [|m IH]; intros l Hm; destruct l as [|x l]; cbn [length] in Hm; try lia.
  - reflexivity.
  - cbn [firstn nth app]. f_equal. apply IH. lia.
Qed.

Lemma StronglySorted_nth {A} (R : A -> A -> Prop) (d : A) : forall l,
  StronglySorted R l -> forall a b, a < b -> b < length l -> R (nth a l d) (nth b l d).
Proof.
  induction 1 as [|x l Hs IH Hall]; intros a b Hab Hb; cbn [length] in Hb; [lia|].
  destruct b as [|b]; [lia|]. destruct a as [|a]; cbn [nth].
  - rewrite Forall_forall in Hall. apply Hall, nth_In. lia.
  - apply IH; lia.
Qed.

Lemma StronglySorted_app_cross {A} (R : A -> A -> Prop) : forall l1 l2,
  StronglySorted R (l1 ++ l2) -> forall a b, In a l1 -> In b l2 -> R a b.
Proof.
  induction l1 as [|x l1 IH]; intros l2 Hs a b Ha Hb; [destruct Ha|].
  cbn [app] in Hs. apply StronglySorted_inv in Hs. destruct Hs as [Hs Hall].
  destruct Ha as [<-|Ha].
  - rewrite Forall_forall in Hall. apply Hall, in_or_app. right; exact Hb.
  - eapply IH; eauto.
Qed.

Lemma StronglySorted_app_l {A} (R : A -> A -> Prop) : forall l1 l2,
  StronglySorted R (l1 ++ l2) -> StronglySorted R l1.
Proof.
  induction l1 as [|x l1 IH]; intros l2 Hs; [constructor|].
  cbn [app] in Hs. apply StronglySorted_inv in Hs. destruct Hs as [Hs Hall].
  constructor; [eapply IH; eauto|].
  rewrite Forall_forall in *. intros y Hy. apply Hall, in_or_app. left; exact Hy.
Qed.

Lemma StronglySorted_firstn {A} (R : A -> A -> Prop) p l : StronglySorted R l -> StronglySorted R (firstn p l).
Proof. intros Hs. rewrite <- (firstn_skipn p l) in Hs. eapply StronglySorted_app_l; eauto. Qed.

Lemma StronglySorted_filter {A} (R : A -> A -> Prop) f : forall l,
  StronglySorted R l -> StronglySorted R (filter f l).
Proof.
  induction 1 as [|x l Hs IH Hall]; cbn [filter]; [constructor|].
  destruct (f x); [|exact IH]. constructor; [exact IH|].
  rewrite Forall_forall in *. intros y Hy. apply filter_In in Hy. apply Hall, Hy.
Qed.

Lemma StronglySorted_seq s n : StronglySorted lt (seq s n).
Proof.
  revert s; induction n as [|n IH]; intros s; cbn [seq]; constructor; [apply IH|].
  rewrite Forall_forall. intros y Hy. apply in_seq in Hy. lia.
Qed.

Lemma StronglySorted_impl {A} (R R' : A -> A -> Prop) : (forall a b, R a b -> R' a b) ->
  forall l, StronglySorted R l -> StronglySorted R' l.
Proof.
  intros Himp. induction 1 as [|x l Hs IH Hall]; constructor; [exact IH|].
  rewrite Forall_forall in *. auto.
Qed.

Lemma fold_left_ext_eq {A S} (f g : S -> A -> S) : (forall st j, f st j = g st j) ->
  forall l st, fold_left f l st = fold_left g l st.
Proof. intros H. induction l as [|x l IH]; intros st; cbn [fold_left]; [reflexivity|]. rewrite H. apply IH. Qed.

Lemma fold_left_skip {A S} (p : A -> bool) (g : S -> A -> S) : forall l st,
  fold_left (fun st j => if p j then st else g st j) l st = fold_left g (filter (fun j => negb (p j)) l) st.
Proof.
  induction l as [|x l IH]; intros st; cbn [fold_left filter]; [reflexivity|].
  destruct (p x); cbn [negb fold_left]; apply IH.
Qed.

(* ------------------------------------------------------------------ *)
(* running maxima                                                      *)
(* ------------------------------------------------------------------ *)

Definition zmaxl (z : Z) (l : list Z) : Z := fold_right Z.max z l.

Lemma zmaxl_ge_init z l : (z <= zmaxl z l)%Z.
Proof. unfold zmaxl. induction l as [|x l IH]; cbn [fold_right]; lia. Qed.

Lemma zmaxl_ge z l x : In x l -> (x <= zmaxl z l)%Z.
Proof.
  unfold zmaxl. induction l as [|y l IH]; intros Hin; cbn [fold_right]; [destruct Hin|].
  destruct Hin as [->|Hin]; [lia|]. specialize (IH Hin). lia.
Qed.

Lemma zmaxl_attained z l : zmaxl z l = z \/ In (zmaxl z l) l.
Proof.
  unfold zmaxl. induction l as [|y l IH]; cbn [fold_right In]; [left; reflexivity|].
  destruct (Z.max_spec y (fold_right Z.max z l)) as [[_ ->]|[_ ->]]; [|right; left; reflexivity].
  destruct IH as [IH|IH]; [left; exact IH|right; right; exact IH].
Qed.

Lemma zmaxl_snoc z l d : zmaxl z (l ++ [d]) = Z.max (zmaxl z l) d.
Proof. unfold zmaxl. induction l as [|y l IH]; cbn [app fold_right]; [lia|]. rewrite IH. lia. Qed.

Lemma zmaxl_max_init z d l : zmaxl (Z.max z d) l = Z.max (zmaxl z l) d.
Proof. unfold zmaxl. induction l as [|y l IH]; cbn [fold_right]; [reflexivity|]. rewrite IH. lia. Qed.

Lemma zmaxl_app z l1 l2 : zmaxl z (l1 ++ l2) = zmaxl (zmaxl z l2) l1.
Proof. unfold zmaxl. apply fold_right_app. Qed.

Lemma zmaxl_all_le z l : (forall x, In x l -> (x <= z)%Z) -> zmaxl z l = z.
Proof.
  induction l as [|y l IH]; intros H; [reflexivity|].
  change (zmaxl z (y :: l)) with (Z.max y (zmaxl z l)). rewrite IH by (intros x Hx; apply H; right; exact Hx).
  specialize (H y (or_introl eq_refl)). lia.
Qed.

(* a non-decreasing list bounded below by [z]: the running maximum is the last element *)
Lemma zmaxl_sorted_last z : forall l,
  (forall x, In x l -> (z <= x)%Z) -> StronglySorted Z.le l -> zmaxl z l = last l z.
Proof.
  induction l as [|x l IH]; intros Hz Hs; [reflexivity|].
  apply StronglySorted_inv in Hs. destruct Hs as [Hs Hall].
  destruct l as [|y l'].
  - cbn [zmaxl fold_right last]. specialize (Hz x (or_introl eq_refl)). lia.
  - change (last (x :: y :: l') z) with (last (y :: l') z).
    change (zmaxl z (x :: y :: l')) with (Z.max x (zmaxl z (y :: l'))).
    rewrite IH by (auto; intros; apply Hz; right; assumption).
    rewrite <- IH by (auto; intros; apply Hz; right; assumption).
    rewrite Forall_forall in Hall. specialize (Hall y (or_introl eq_refl)).
    assert (y <= zmaxl z (y :: l'))%Z by (apply zmaxl_ge; left; reflexivity). lia.
Qed.

(* ------------------------------------------------------------------ *)
(* stable insertion by distance                                        *)
(* ------------------------------------------------------------------ *)

Section Sort.
  Variable dist : nat -> Z.

  (* insert [j] behind every element whose distance is <= dist j (the scan's strict "<" bubble) *)
  Fixpoint ins (j : nat) (l : list nat) : list nat :=
    match l with
    | [] => [j]
    | y :: t => if Z.ltb (dist j) (dist y) then j :: y :: t else y :: ins j t
    end.

  Definition isort_from (S0 C : list nat) : list nat := fold_left (fun S j => ins j S) C S0.
  Definition isort (C : list nat) : list nat := isort_from [] C.

  (* sorted by distance, ties by index *)
  Definition lexlt (a b : nat) : Prop := (dist a < dist b)%Z \/ (dist a = dist b /\ a < b).
  Definition dle (a b : nat) : Prop := (dist a <= dist b)%Z.

  Lemma lexlt_dle a b : lexlt a b -> dle a b.
  Proof. unfold lexlt, dle; lia. Qed.

  Lemma lexlt_irrefl a : ~ lexlt a a.
  Proof. unfold lexlt; lia. Qed.

  Lemma ins_In j l x : In x (ins j l) <-> x = j \/ In x l.
  Proof.
    induction l as [|y t IH]; cbn [ins].
    - cbn; intuition.
    - destruct (Z.ltb (dist j) (dist y)); cbn [In]; [intuition|]. rewrite IH. intuition.
  Qed.

  Lemma ins_length j l : length (ins j l) = S (length l).
  Proof. induction l as [|y t IH]; cbn [ins]; [reflexivity|]. destruct (Z.ltb _ _); cbn [length]; lia. Qed.

  Lemma ins_perm j l : Permutation (ins j l) (j :: l).
  Proof.
    induction l as [|y t IH]; cbn [ins]; [reflexivity|].
    destruct (Z.ltb _ _); [reflexivity|]. rewrite IH. apply perm_swap.
  Qed.

  Lemma ins_split j : forall l p, p <= length l ->
    (forall i, i < p -> (dist (nth i l 0%nat) <= dist j)%Z) ->
    (forall i, p <= i -> i < length l -> (dist j < dist (nth i l 0%nat))%Z) ->
    ins j l = firstn p l ++ j :: skipn p l.
  Proof.
    induction l as [|y t IH]; intros p Hp Hlo Hhi; cbn [length] in Hp.
    - assert (p = 0) by lia; subst. reflexivity.
    - cbn [ins]. destruct p as [|p].
      + specialize (Hhi 0 ltac:(lia) ltac:(cbn; lia)). cbn [nth] in Hhi.
        destruct (Z.ltb_spec (dist j) (dist y)); [reflexivity|lia].
      + specialize (Hlo 0 ltac:(lia)) as Hy. cbn [nth] in Hy.
        destruct (Z.ltb_spec (dist j) (dist y)); [lia|].
        cbn [firstn skipn app]. f_equal. apply IH; [lia| |].
        * intros i Hi. apply (Hlo (S i)). lia.
        * intros i Hi Hi'. apply (Hhi (S i)); cbn [length]; lia.
  Qed.

  Lemma nth_ins_split (d : nat) j : forall p l i, p <= length l ->
    nth i (firstn p l ++ j :: skipn p l) d
    = if i <? p then nth i l d else if i =? p then j else nth (i - 1) l d.
  Proof.
    induction p as [|p IH]; intros l i Hp.
    - cbn [firstn skipn app]. destruct i as [|i]; [reflexivity|].
      cbn [nth Nat.ltb Nat.leb Nat.eqb]. now replace (S i - 1) with i by lia.
    - destruct l as [|y t]; cbn [length] in Hp; [lia|].
      cbn [firstn skipn app]. destruct i as [|i]; [reflexivity|].
      cbn [nth]. rewrite IH by lia.
      change (S i <? S p) with (i <? p). change (S i =? S p) with (i =? p).
      destruct (Nat.ltb_spec i p); [reflexivity|].
      destruct (Nat.eqb_spec i p); [reflexivity|].
      destruct i as [|i]; [lia|]. replace (S i - 1) with i by lia. replace (S (S i) - 1) with (S i) by lia.
      reflexivity.
  Qed.

  Lemma firstn_ins k j : forall l, firstn k (ins j (firstn k l)) = firstn k (ins j l).
  Proof.
    induction k as [|k IH]; intros l; [reflexivity|].
    destruct l as [|y t]; [reflexivity|]. cbn [firstn ins].
    destruct (Z.ltb (dist j) (dist y)).
    - cbn [firstn]. f_equal.
      change (y :: firstn k t) with (firstn (S k) (y :: t)). rewrite firstn_firstn.
      now replace (Nat.min k (S k)) with k by lia.
    - cbn [firstn]. f_equal. apply IH.
  Qed.

  (* truncating after every insertion = truncating once at the end *)
  Lemma fold_firstn_ins k : forall C S0,
    fold_left (fun L j => firstn k (ins j L)) C (firstn k S0) = firstn k (isort_from S0 C).
  Proof.
    induction C as [|c C IH]; intros S0; cbn [fold_left isort_from]; [reflexivity|].
    rewrite firstn_ins. apply IH.
  Qed.

  Lemma isort_from_perm : forall C S0, Permutation (isort_from S0 C) (S0 ++ C).
  Proof.
    induction C as [|c C IH]; intros S0; cbn [isort_from fold_left].
    - now rewrite app_nil_r.
    - change (fold_left (fun S j => ins j S) C (ins c S0)) with (isort_from (ins c S0) C).
      rewrite IH, ins_perm. cbn [app]. apply Permutation_middle.
  Qed.

  Lemma isort_perm C : Permutation (isort C) C.
  Proof. apply (isort_from_perm C []). Qed.

  Lemma isort_length C : length (isort C) = length C.
  Proof. apply Permutation_length, isort_perm. Qed.

  Lemma isort_In C x : In x (isort C) <-> In x C.
  Proof. split; apply Permutation_in; [|symmetry]; apply isort_perm. Qed.

  Lemma ins_dle_sorted j : forall l, StronglySorted dle l -> StronglySorted dle (ins j l).
  Proof.
    induction l as [|y t IH]; intros Hs; cbn [ins]; [repeat constructor|].
    pose proof (StronglySorted_inv Hs) as [Hs' Hall]. rewrite Forall_forall in Hall.
    destruct (Z.ltb_spec (dist j) (dist y)).
    - constructor; [exact Hs|]. rewrite Forall_forall. intros z [<-|Hz]; unfold dle in *; [lia|].
      specialize (Hall z Hz). lia.
    - constructor; [apply IH, Hs'|]. rewrite Forall_forall. intros z Hz.
      apply ins_In in Hz. destruct Hz as [->|Hz]; [unfold dle; lia|auto].
  Qed.

  Lemma ins_lex_sorted j : forall l, StronglySorted lexlt l -> (forall y, In y l -> y < j) ->
    StronglySorted lexlt (ins j l).
  Proof.
    induction l as [|y t IH]; intros Hs Hlt; cbn [ins]; [repeat constructor|].
    pose proof (StronglySorted_inv Hs) as [Hs' Hall]. rewrite Forall_forall in Hall.
    destruct (Z.ltb_spec (dist j) (dist y)).
    - constructor; [exact Hs|]. rewrite Forall_forall. intros z [<-|Hz]; unfold lexlt in *; [lia|].
      specialize (Hall z Hz). lia.
    - constructor; [apply IH; [exact Hs'|intros; apply Hlt; right; assumption]|].
      rewrite Forall_forall. intros z Hz.
      apply ins_In in Hz. destruct Hz as [->|Hz]; [|auto].
      specialize (Hlt y (or_introl eq_refl)). unfold lexlt; lia.
  Qed.

  Lemma isort_from_lex_sorted : forall C S0,
    StronglySorted lexlt S0 -> StronglySorted lt C -> (forall s c, In s S0 -> In c C -> s < c) ->
    StronglySorted lexlt (isort_from S0 C).
  Proof.
    induction C as [|c C IH]; intros S0 Hs Hc Hlt; cbn [isort_from fold_left]; [exact Hs|].
    pose proof (StronglySorted_inv Hc) as [Hc' Hall]. rewrite Forall_forall in Hall.
    apply IH; [|exact Hc'|].
    - apply ins_lex_sorted; [exact Hs|]. intros y Hy. apply Hlt; [exact Hy|left; reflexivity].
    - intros s c' Hs' Hc''. apply ins_In in Hs'. destruct Hs' as [->|Hs']; [auto|].
      apply Hlt; [exact Hs'|right; exact Hc''].
  Qed.

  Lemma isort_lex_sorted C : StronglySorted lt C -> StronglySorted lexlt (isort C).
  Proof. intros Hc. apply isort_from_lex_sorted; [constructor|exact Hc|intros s c []]. Qed.

  Lemma lt_sorted_NoDup : forall C, StronglySorted lt C -> NoDup C.
  Proof.
    induction 1 as [|x l Hs IH Hall]; constructor; [|exact IH].
    rewrite Forall_forall in Hall. intros Hx. specialize (Hall x Hx). lia.
  Qed.

  (* ---------------- the k nearest of a candidate list ---------------- *)

  Definition knearest (k : nat) (C : list nat) : list nat := firstn k (isort C).

  Lemma knearest_length k C : length (knearest k C) = Nat.min k (length C).
  Proof. unfold knearest. now rewrite firstn_length, isort_length. Qed.

  Lemma knearest_In k C x : In x (knearest k C) -> In x C.
  Proof. intros H. apply isort_In. eapply In_firstn; eauto. Qed.

  Lemma knearest_NoDup k C : StronglySorted lt C -> NoDup (knearest k C).
  Proof.
    intros Hc. unfold knearest.
    assert (Hnd : NoDup (isort C)).
    { eapply Permutation_NoDup; [symmetry; apply isort_perm|apply lt_sorted_NoDup, Hc]. }
    apply NoDup_firstn, Hnd.
  Qed.

  Lemma knearest_sorted k C : StronglySorted lt C -> StronglySorted lexlt (knearest k C).
  Proof. intros Hc. apply StronglySorted_firstn, isort_lex_sorted, Hc. Qed.

  (* every candidate left out is lex-greater than every one kept *)
  Lemma knearest_minimal k C j a : StronglySorted lt C ->
    In j C -> ~ In j (knearest k C) -> In a (knearest k C) -> lexlt a j.
  Proof.
    intros Hc Hj Hnj Ha. unfold knearest in *.
    pose proof (isort_lex_sorted C Hc) as Hs.
    rewrite <- (firstn_skipn k (isort C)) in Hs.
    eapply StronglySorted_app_cross; [exact Hs|exact Ha|].
    apply isort_In in Hj. destruct (In_split_firstn k _ _ Hj); [contradiction|assumption].
  Qed.
End Sort.

(* ------------------------------------------------------------------ *)
(* the candidates visited by a scan                                    *)
(* ------------------------------------------------------------------ *)

Definition skipb (skip : option nat) (j : nat) : bool :=
  match skip with Some i => Nat.eqb j i | None => false end.

Definition cands (skip : option nat) (n : nat) : list nat :=
  filter (fun j => negb (skipb skip j)) (seq 0 n).

Lemma cands_In skip n j : In j (cands skip n) <-> j < n /\ skip <> Some j.
Proof.
  unfold cands. rewrite filter_In, in_seq. destruct skip as [i|]; cbn [skipb].
  - destruct (Nat.eqb_spec j i) as [->|Hne]; cbn [negb].
    + split; intros [H1 H2]; [discriminate|congruence].
    + split; intros [H1 H2]; (split; [lia|]); [|reflexivity]. intros Heq; inversion Heq; congruence.
  - cbn [negb]. split; intros [H1 H2]; (split; [lia|]); [discriminate|reflexivity].
Qed.

Lemma cands_sorted skip n : StronglySorted lt (cands skip n).
Proof. apply StronglySorted_filter, StronglySorted_seq. Qed.

Lemma cands_none n : cands None n = seq 0 n.
Proof.
  unfold cands. cbn [skipb negb]. induction (seq 0 n) as [|x l IH]; cbn [filter]; [reflexivity|]. now rewrite IH.
Qed.

Lemma cands_length_some i n : length (cands (Some i) n) = if i <? n then n - 1 else n.
Proof.
  unfold cands. induction n as [|n IH]; [reflexivity|].
  rewrite seq_S, filter_app, app_length, IH. cbn [plus filter skipb].
  destruct (Nat.eqb_spec n i) as [->|Hne]; cbn [negb length].
  - rewrite Nat.ltb_irrefl. destruct (Nat.ltb_spec i (S i)); lia.
  - destruct (Nat.ltb_spec i n), (Nat.ltb_spec i (S n)); lia.
Qed.

Lemma cands_length_none n : length (cands None n) = n.
Proof. now rewrite cands_none, seq_length. Qed.
