(* The operation bridge: Coq's primitive binary64 operations compute [rnd64] of the exact real result on finite
   operands, as long as the rounded result stays below 2^1024 ([fits64]).  From Flocq's IEEE754/PrimFloat.v
   (equivalence of the primitives with Flocq's binary_float operations, itself from the standard library's
   FloatAxioms) and IEEE754/BinarySingleNaN.v (B*_correct). *)
From Coq Require Import Reals ZArith Lia Lra Floats Uint63.
From Flocq Require Import Core BinarySingleNaN.
From Flocq Require PrimFloat.
From OPF Require Import Base.NumOps Base.NumOpsRnd Model.MetricRnd Model.Binary64 Proofs.RdepthWitness Proofs.Binary64.
Local Open Scope R_scope.

Module FP := Flocq.IEEE754.PrimFloat.
Local Instance prec53 : Prec_gt_0 53 := eq_refl.

Notation pfloat := Coq.Floats.PrimFloat.float (only parsing).

Lemma ffin_Prim2B (x : pfloat) : ffin x = is_finite (FP.Prim2B x).
Proof. unfold ffin. apply FP.is_finite_equiv. Qed.

(* the format of Flocq's binary_float prec emax is the format of rnd64 *)
Lemma round_b64 t : round radix2 (SpecFloat.fexp prec emax) (round_mode mode_NE) t = rnd64 t.
Proof. reflexivity. Qed.

Lemma fits64_Rlt_bool t : fits64 t ->
  Rlt_bool (Rabs (round radix2 (SpecFloat.fexp prec emax) (round_mode mode_NE) t)) (bpow radix2 emax) = true.
Proof. intros H. apply Rlt_bool_true. exact H. Qed.

Lemma f2r_add (x y : pfloat) :
  ffin x = true -> ffin y = true -> fits64 (f2r x + f2r y) ->
  ffin (x + y)%float = true /\ f2r (x + y)%float = rnd64 (f2r x + f2r y).
Proof.
  rewrite !ffin_Prim2B. unfold f2r. intros Fx Fy Hf. rewrite FP.add_equiv.
  pose proof (Bplus_correct prec emax FP.Hprec FP.Hmax mode_NE (FP.Prim2B x) (FP.Prim2B y) Fx Fy) as H.
  rewrite (fits64_Rlt_bool _ Hf) in H. destruct H as [H1 [H2 _]]. split; [exact H2 | exact H1].
Qed.

Lemma f2r_sub (x y : pfloat) :
  ffin x = true -> ffin y = true -> fits64 (f2r x - f2r y) ->
  ffin (x - y)%float = true /\ f2r (x - y)%float = rnd64 (f2r x - f2r y).
Proof.
  rewrite !ffin_Prim2B. unfold f2r. intros Fx Fy Hf. rewrite FP.sub_equiv.
  pose proof (Bminus_correct prec emax FP.Hprec FP.Hmax mode_NE (FP.Prim2B x) (FP.Prim2B y) Fx Fy) as H.
  rewrite (fits64_Rlt_bool _ Hf) in H. destruct H as [H1 [H2 _]]. split; [exact H2 | exact H1].
Qed.

Lemma f2r_mul (x y : pfloat) :
  ffin x = true -> ffin y = true -> fits64 (f2r x * f2r y) ->
  ffin (x * y)%float = true /\ f2r (x * y)%float = rnd64 (f2r x * f2r y).
Proof.
  rewrite !ffin_Prim2B. unfold f2r. intros Fx Fy Hf. rewrite FP.mul_equiv.
  pose proof (Bmult_correct prec emax FP.Hprec FP.Hmax mode_NE (FP.Prim2B x) (FP.Prim2B y)) as H.
  rewrite (fits64_Rlt_bool _ Hf) in H. destruct H as [H1 [H2 _]]. split; [|exact H1].
  rewrite H2, Fx, Fy. reflexivity.
Qed.

Lemma f2r_div (x y : pfloat) :
  ffin x = true -> ffin y = true -> f2r y <> 0 -> fits64 (f2r x / f2r y) ->
  ffin (x / y)%float = true /\ f2r (x / y)%float = rnd64 (f2r x / f2r y).
Proof.
  rewrite !ffin_Prim2B. unfold f2r. intros Fx Fy Hy Hf. rewrite FP.div_equiv.
  pose proof (Bdiv_correct prec emax FP.Hprec FP.Hmax mode_NE (FP.Prim2B x) (FP.Prim2B y) Hy) as H.
  rewrite (fits64_Rlt_bool _ Hf) in H. destruct H as [H1 [H2 _]]. split; [|exact H1].
  rewrite H2. exact Fx.
Qed.

Lemma B2R_neg_finite m e (H : SpecFloat.bounded prec emax m e = true) :
  B2R (B754_finite true m e H) < 0.
Proof. cbn [B2R]. apply F2R_lt_0. cbn [Fnum cond_Zopp]. lia. Qed.

Lemma f2r_sqrt (x : pfloat) :
  ffin x = true -> 0 <= f2r x ->
  ffin (PrimFloat.sqrt x) = true /\ f2r (PrimFloat.sqrt x) = rnd64 (R_sqrt.sqrt (f2r x)).
Proof.
  rewrite !ffin_Prim2B. unfold f2r. intros Fx Hx. rewrite FP.sqrt_equiv.
  pose proof (Bsqrt_correct prec emax FP.Hprec FP.Hmax mode_NE (FP.Prim2B x)) as [H1 [H2 _]].
  split; [|exact H1]. rewrite H2.
  destruct (FP.Prim2B x) as [s|s| |s m e B]; try reflexivity; try discriminate Fx.
  destruct s; [|reflexivity]. pose proof (B2R_neg_finite m e B). lra.
Qed.

Lemma f2r_opp (x : pfloat) : ffin (- x)%float = ffin x /\ f2r (- x)%float = - f2r x.
Proof.
  rewrite !ffin_Prim2B. unfold f2r. rewrite FP.opp_equiv. split; [apply is_finite_Bopp | apply B2R_Bopp].
Qed.

(* comparisons *)
Lemma Rlt_bool_Rltb a b : Rlt_bool a b = Rltb a b.
Proof. unfold Rltb. destruct (Rlt_dec a b) as [H|H]; [now apply Rlt_bool_true | apply Rlt_bool_false; lra]. Qed.

Lemma Req_bool_Reqb a b : Req_bool a b = Reqb a b.
Proof. unfold Reqb. destruct (Req_EM_T a b) as [H|H]; [now apply Req_bool_true | now apply Req_bool_false]. Qed.

Lemma f2r_ltb (x y : pfloat) :
  ffin x = true -> ffin y = true -> PrimFloat.ltb x y = Rltb (f2r x) (f2r y).
Proof.
  rewrite !ffin_Prim2B. unfold f2r. intros Fx Fy. rewrite FP.ltb_equiv, <- Rlt_bool_Rltb.
  now apply Bltb_correct.
Qed.

Lemma f2r_eqb (x y : pfloat) :
  ffin x = true -> ffin y = true -> PrimFloat.eqb x y = Reqb (f2r x) (f2r y).
Proof.
  rewrite !ffin_Prim2B. unfold f2r. intros Fx Fy. rewrite FP.eqb_equiv, <- Req_bool_Reqb.
  now apply Beqb_correct.
Qed.

Lemma f2r_leb (x y : pfloat) :
  ffin x = true -> ffin y = true -> PrimFloat.leb x y = Rle_bool (f2r x) (f2r y).
Proof.
  rewrite !ffin_Prim2B. unfold f2r. intros Fx Fy. rewrite FP.leb_equiv. now apply Bleb_correct.
Qed.

(* literals *)
Lemma f2r_zero : ffin PrimFloat.zero = true /\ f2r PrimFloat.zero = 0.
Proof. rewrite ffin_Prim2B. unfold f2r. rewrite FP.zero_equiv, FP.Prim2B_B2Prim. split; reflexivity. Qed.

Lemma f2r_one : ffin PrimFloat.one = true /\ f2r PrimFloat.one = 1.
Proof.
  rewrite ffin_Prim2B. unfold f2r. rewrite FP.one_equiv, FP.Prim2B_B2Prim.
  split; [apply is_finite_Bone | apply Bone_correct].
Qed.

(* integers of magnitude at most 2^53 are converted exactly *)
Lemma rnd64_lt_overflow t : Rabs t <= bpow radix2 53 -> fits64 (rnd64 t) /\ fits64 t.
Proof.
  intros H. assert (B : Rabs (rnd64 t) <= bpow radix2 53).
  { apply abs_round_le_generic; auto with typeclass_instances.
    apply generic_format_bpow. unfold FLT_exp. lia. }
  assert (L : bpow radix2 53 < bpow radix2 1024) by (apply bpow_lt; lia).
  split; unfold fits64; [rewrite rnd64_idem|]; lra.
Qed.

Lemma f2r_of_uint63_pos (p : positive) : (Zpos p <= 2 ^ 53)%Z ->
  ffin (PrimFloat.of_uint63 (Uint63.of_Z (Zpos p))) = true /\
  f2r (PrimFloat.of_uint63 (Uint63.of_Z (Zpos p))) = IZR (Zpos p).
Proof.
  intros Hp. rewrite ffin_Prim2B. unfold f2r. rewrite FP.of_int63_equiv.
  assert (Ez : Uint63.to_Z (Uint63.of_Z (Zpos p)) = Zpos p).
  { rewrite Uint63.of_Z_spec. apply Z.mod_small. change wB with (2 ^ 63)%Z. lia. }
  rewrite Ez.
  pose proof (binary_normalize_correct prec emax FP.Hprec FP.Hmax mode_NE (Zpos p) 0 false) as H.
  cbv zeta in H. rewrite <- IZR_F2R in H.
  assert (Hf : fits64 (IZR (Zpos p))).
  { apply rnd64_lt_overflow. rewrite <- abs_IZR. change (bpow radix2 53) with (IZR (2 ^ 53)).
    apply IZR_le. lia. }
  rewrite (fits64_Rlt_bool _ Hf) in H. destruct H as [H1 [H2 _]]. split; [exact H2|].
  rewrite H1. rewrite round_b64. apply rnd64_int. lia.
Qed.

Lemma f2r_float_ofZ z : (Z.abs z <= 2 ^ 53)%Z ->
  ffin (float_ofZ z) = true /\ f2r (float_ofZ z) = IZR z.
Proof.
  intros Hz. destruct z as [|p|p]; cbn [float_ofZ].
  - exact f2r_zero.
  - apply f2r_of_uint63_pos. lia.
  - destruct (f2r_of_uint63_pos p ltac:(lia)) as [F E].
    destruct (f2r_opp (PrimFloat.of_uint63 (Uint63.of_Z (Zpos p)))) as [F' E'].
    split; [now rewrite F' | rewrite E', E; now rewrite <- opp_IZR].
Qed.

(* finite floats have representable values below 2^1024; hence "no overflow" conditions are about the data *)
Lemma f2r_format (x : pfloat) : rnd64 (f2r x) = f2r x.
Proof.
  unfold f2r. apply round_generic; [auto with typeclass_instances|].
  apply (generic_format_B2R prec emax).
Qed.

Lemma f2r_lt_overflow (x : pfloat) : Rabs (f2r x) < bpow radix2 1024.
Proof.
  unfold f2r. destruct (FP.Prim2B x) as [s|s| |s m e B]; cbn [B2R]; try (rewrite Rabs_R0; apply bpow_gt_0).
  apply (abs_B2R_lt_emax prec emax (B754_finite s m e B)).
Qed.

(* ---- the same facts in the development's own vocabulary (2 ^ n with n : nat), for Props/C06_binary64.v ---- *)
Lemma b64_defs :
  rnd64 = Generic_fmt.round Zaux.radix2 (FLT.FLT_exp (-1074) 53) Round_NE.ZnearestE /\
  rnd64x = Generic_fmt.round Zaux.radix2 (FLX.FLX_exp 53) Round_NE.ZnearestE /\
  RdepthWitness.u64 = / 2 ^ 53 /\
  (forall x : pfloat, f2r x = B2R (FP.Prim2B x)) /\
  (forall x : pfloat, ffin x = Coq.Floats.PrimFloat.is_finite x) /\
  (forall t, fits64 t <-> Rabs (rnd64 t) < 2 ^ 1024).
Proof.
  split; [reflexivity|]. split; [reflexivity|]. split; [reflexivity|]. split; [reflexivity|].
  split; [reflexivity|]. intros t. unfold fits64. rewrite bpow_1024. tauto.
Qed.

Lemma rnd64_normal_range t : / 2 ^ 1022 <= Rabs t ->
  rnd64 t = rnd64x t /\ exists d, Rabs d <= RdepthWitness.u64 /\ rnd64 t = t * (1 + d).
Proof.
  rewrite <- bpow_m1022. intros H. split; [now apply rnd64_eq_rnd64x | now apply rnd64_rel_normal].
Qed.

Lemma rnd64_not_rounding' : 0 < / 2 ^ 1076 /\ rnd64 (/ 2 ^ 1076) = 0 /\ ~ MetricRnd.rounding rnd64.
Proof.
  rewrite <- bpow_m1076. split; [apply bpow_gt_0|]. split; [exact rnd64_tiny | exact rnd64_not_rounding].
Qed.

Lemma f2r_values (x : pfloat) : rnd64 (f2r x) = f2r x /\ Rabs (f2r x) < 2 ^ 1024.
Proof. rewrite <- bpow_1024. split; [apply f2r_format | apply f2r_lt_overflow]. Qed.

Lemma f2r_compare (x y : pfloat) : ffin x = true -> ffin y = true ->
  PrimFloat.ltb x y = Rltb (f2r x) (f2r y) /\ PrimFloat.eqb x y = Reqb (f2r x) (f2r y).
Proof. intros Fx Fy. split; [now apply f2r_ltb | now apply f2r_eqb]. Qed.
