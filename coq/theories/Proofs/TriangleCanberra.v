(* Triangle inequality: canberra on strictly positive vectors. *)
From Coq Require Import Reals List Lra Lia.
From OPF Require Import Spec.MetricSpec Proofs.TriangleLemmas.
Import ListNotations.
Open Scope R_scope.

Lemma frac_triangle n1 d1 n2 d2 n3 d3 :
  0 < d1 -> 0 < d2 -> 0 < d3 ->
  n1 * d2 * d3 <= n2 * d1 * d3 + n3 * d1 * d2 ->
  n1 / d1 <= n2 / d2 + n3 / d3.
Proof.
  intros H1 H2 H3 H.
  assert (0 <= (n2 * d1 * d3 + n3 * d1 * d2 - n1 * d2 * d3) / (d1 * d2 * d3)) as Hq.
  { apply Rmult_le_pos; [lra|]. left. apply Rinv_0_lt_compat.
    apply Rmult_lt_0_compat; [apply Rmult_lt_0_compat|]; assumption. }
  replace ((n2 * d1 * d3 + n3 * d1 * d2 - n1 * d2 * d3) / (d1 * d2 * d3))
    with (n2 / d2 + n3 / d3 - n1 / d1) in Hq by (field; lra).
  lra.
Qed.

Lemma canberra_scalar a b c :
  0 < a -> 0 < b -> 0 < c ->
  Rabs (a - c) / (Rabs a + Rabs c) <=
  Rabs (a - b) / (Rabs a + Rabs b) + Rabs (b - c) / (Rabs b + Rabs c).
Proof.
  intros Ha Hb Hc.
  rewrite (Rabs_pos_eq a), (Rabs_pos_eq b), (Rabs_pos_eq c) by lra.
  apply frac_triangle; try lra.
  unfold Rabs.
  destruct (Rcase_abs (a - c)) as [Hac | Hac];
    destruct (Rcase_abs (a - b)) as [Hab | Hab];
    destruct (Rcase_abs (b - c)) as [Hbc | Hbc]; try (exfalso; lra).
  - (* a < b < c *)
    assert (0 <= (b - a) * (c - a) * (c - b)) as HF
      by (apply Rmult_le_pos; [apply Rmult_le_pos|]; lra).
    lra.
  - (* a < c <= b *)
    assert (0 < a * b /\ 0 < a * c /\ 0 < b * c /\ 0 < a * a) as [Hp1 [Hp2 [Hp3 Hp4]]]
      by (repeat split; apply Rmult_lt_0_compat; assumption).
    assert (0 <= (b - c) * (a * a + 3 * (a * b) + 3 * (a * c) + b * c)) as HF
      by (apply Rmult_le_pos; lra).
    lra.
  - (* b <= a < c *)
    assert (0 < a * b /\ 0 < a * c /\ 0 < b * c /\ 0 < c * c) as [Hp1 [Hp2 [Hp3 Hp4]]]
      by (repeat split; apply Rmult_lt_0_compat; assumption).
    assert (0 <= (a - b) * (a * b + 3 * (a * c) + 3 * (b * c) + c * c)) as HF
      by (apply Rmult_le_pos; lra).
    lra.
  - (* c <= a < b *)
    assert (0 < a * b /\ 0 < a * c /\ 0 < b * c /\ 0 < c * c) as [Hp1 [Hp2 [Hp3 Hp4]]]
      by (repeat split; apply Rmult_lt_0_compat; assumption).
    assert (0 <= (b - a) * (a * b + 3 * (a * c) + 3 * (b * c) + c * c)) as HF
      by (apply Rmult_le_pos; lra).
    lra.
  - (* b < c <= a *)
    assert (0 < a * b /\ 0 < a * c /\ 0 < b * c /\ 0 < a * a) as [Hp1 [Hp2 [Hp3 Hp4]]]
      by (repeat split; apply Rmult_lt_0_compat; assumption).
    assert (0 <= (c - b) * (a * a + 3 * (a * b) + 3 * (a * c) + b * c)) as HF
      by (apply Rmult_le_pos; lra).
    lra.
  - (* c <= b <= a *)
    assert (0 <= (a - b) * (a - c) * (b - c)) as HF
      by (apply Rmult_le_pos; [apply Rmult_le_pos|]; lra).
    lra.
Qed.

Lemma triangle_canberra : forall x y z,
  length x = length y -> length y = length z -> (1 <= length x)%nat ->
  all_pos x -> all_pos y -> all_pos z ->
  sp_canberra x z <= sp_canberra x y + sp_canberra y z.
Proof.
  intros x y z Hxy Hyz _ Hx Hy Hz. unfold sp_canberra.
  apply (sum2_triangle_dom (fun a => 0 < a)); auto.
  intros a b c. apply canberra_scalar.
Qed.
