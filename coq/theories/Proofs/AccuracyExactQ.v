(* [acc_exact] (Model/AccuracyRnd.v) is the rational opf_accuracy of Model/Measures.v read as a real, and it is
   [accuracy_F] at the exact reals.  Unconditional: a zero denominator only occurs under a zero numerator, and both
   Coq's Q and Coq's R evaluate x / 0 to 0 (the np.nansum convention of the code). *)
From Coq Require Import Reals QArith Qreals List Arith ZArith Lia Lra.
From OPF Require Import Spec.MetricSpec Model.Measures Model.AccuracyRnd Proofs.MeasuresQ Proofs.RoundingBounds.
From OPF Require Model.KnnLearn Base.NumOps Proofs.AccuracyRounding.
Import ListNotations.
Local Open Scope R_scope.

Lemma Q2R_inject_Z z : Q2R (inject_Z z) = IZR z.
Proof. unfold Q2R, inject_Z. cbn [Qnum Qden]. field. Qed.

Lemma Q2R_qn n : Q2R (qn n) = INR n.
Proof. unfold qn. rewrite Q2R_inject_Z. symmetry. apply INR_IZR_INZ. Qed.

Lemma Q2R_qn_div a b : Q2R (qn a / qn b) = INR a / INR b.
Proof.
  destruct b as [|b].
  - unfold Qdiv. rewrite Q2R_mult. change (/ qn 0)%Q with 0%Q. rewrite RMicromega.Q2R_0.
    cbn [INR]. unfold Rdiv. rewrite Rinv_0. ring.
  - rewrite Q2R_div, !Q2R_qn; [reflexivity|]. intros H.
    apply Qeq_eqR in H. rewrite Q2R_qn, RMicromega.Q2R_0 in H.
    pose proof (lt_0_INR (S b) ltac:(lia)). lra.
Qed.

Lemma Q2R_qsum (f : nat -> Q) (g : nat -> R) L : (forall c, Q2R (f c) = g c) -> Q2R (qsum (map f L)) = sum (map g L).
Proof.
  intros H. induction L as [|c L IH].
  - cbn [map qsum fold_right]. unfold sum. cbn [fold_right]. apply RMicromega.Q2R_0.
  - cbn [map]. rewrite rb_sum_cons. unfold qsum in *. cbn [fold_right]. rewrite Q2R_plus, H, IH. reflexivity.
Qed.

Lemma qn_nonzero n : (0 < n)%nat -> ~ (qn n == 0)%Q.
Proof.
  intros Hn H. apply Qeq_eqR in H. rewrite Q2R_qn, RMicromega.Q2R_0 in H.
  apply lt_0_INR in Hn. lra.
Qed.

Theorem acc_exact_Q2R labels preds : acc_exact labels preds = Q2R (opf_accuracy labels preds).
Proof.
  rewrite opf_accuracy_unfold. unfold acc_exact, acc_x, acc_E, acc_rows.
  rewrite Q2R_minus, RMicromega.Q2R_1, Q2R_div, Q2R_qn by (apply qn_nonzero; unfold n_class; lia).
  rewrite (Q2R_qsum (acc_term labels preds) (fun c => acc_fp labels preds c + acc_fn labels preds c)).
  - reflexivity.
  - intros c. unfold acc_term, acc_fp, acc_fn. rewrite Q2R_plus, !Q2R_qn_div. reflexivity.
Qed.

Theorem acc_exact_facts labels preds :
  acc_exact labels preds = Q2R (opf_accuracy labels preds) /\
  KnnLearn.accuracy_F Base.NumOps.ROps labels preds = acc_exact labels preds /\
  acc_exact labels preds = 1 - acc_x labels preds /\
  acc_x labels preds = acc_E labels preds / INR (2 * n_class labels) /\
  acc_E labels preds
  = sum (map (fun c => INR (FP c labels preds) / INR (length labels - count c labels)
                       + INR (FN c labels preds) / INR (count c labels))
             (seq 0 (n_class labels))).
Proof.
  split; [apply acc_exact_Q2R|]. split; [apply AccuracyRounding.accuracy_F_ROps|].
  split; [reflexivity|]. split; reflexivity.
Qed.
