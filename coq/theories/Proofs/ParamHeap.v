(* The abstraction theorem of the heap model for one operation of a history.

   Model/Heap.v is polymorphic in the cost type [W] and touches costs only through [ltb].
   Paramcoq turns [step] into a proof of its binary parametricity statement; here it is repackaged
   in the "rescaling" form of Proofs/Rescale.v: if [f : W1 -> W2] preserves and reflects the
   comparison on a set [P] of costs that contains the sentinel, the costs stored in the heap and
   the cost carried by the operation, then

       step ltb2 (f top) (map_heap f h) (map_op f o) = (map_heap f h', r)
         where (h', r) = step ltb1 top h o,

   i.e. the two runs return the same output and the same arrays p / pos / color / last, and the
   cost array of the second is the image of the cost array of the first. *)
From Coq Require Import List Arith Bool.
From OPF Require Import Base.Lists Model.Heap Proofs.ParamBase.
From Param Require Import Param.
Import ListNotations.

Global Parametricity Tactic := ((param_destruct_reflexivity; fail) || auto).

Parametricity Recursive step.

Definition map_heap {W1 W2} (f : W1 -> W2) (h : heap W1) : heap W2 :=
  mkHeap (hsize h) (hpol h) (map f (hcost h)) (hcolor h) (hp h) (hpos h) (hn h).

Definition map_op {W1 W2} (f : W1 -> W2) (o : @op W1) : @op W2 :=
  match o with
  | OIns p => OIns p
  | OUpd p c => OUpd p (f c)
  | ORem => ORem
  | OIsEmpty => OIsEmpty
  | OIsFull => OIsFull
  end.

(* the cost carried by an operation *)
Definition op_costs {W} (o : @op W) : list W := match o with OUpd _ c => [c] | _ => [] end.

Lemma color_R_eq a b : color_R a b -> a = b.
Proof. intros H; destruct H; reflexivity. Qed.
Lemma color_R_refl a : color_R a a.
Proof. destruct a; constructor. Defined.
Lemma policy_R_eq a b : policy_R a b -> a = b.
Proof. intros H; destruct H; reflexivity. Qed.
Lemma policy_R_refl a : policy_R a a.
Proof. destruct a; constructor. Defined.
Lemma out_R_eq a b : out_R a b -> a = b.
Proof.
  intros H; destruct H as [b1 b2 Hb|p1 p2 Hp| |]; try reflexivity.
  - f_equal. now apply bool_R_eq.
  - f_equal. now apply nat_R_eq.
Qed.

Lemma prod_R_proj {A1 A2 : Type} (AR : A1 -> A2 -> Type) {B1 B2 : Type} (BR : B1 -> B2 -> Type) x y :
  prod_R A1 A2 AR B1 B2 BR x y -> AR (fst x) (fst y) * BR (snd x) (snd y).
Proof. intros H; destruct H; split; assumption. Defined.

Lemma list_R_on_map {W1 W2} (P : W1 -> Prop) (f : W1 -> W2) (l : list W1) :
  Forall P l -> list_R W1 W2 (fun a b => P a /\ b = f a) l (map f l).
Proof.
  induction l as [|a l IH]; intros H; cbn [map]; constructor.
  - split; [exact (Forall_inv H) | reflexivity].
  - apply IH. exact (Forall_inv_tail H).
Defined.

Lemma heap_R_on_map {W1 W2} (P : W1 -> Prop) (f : W1 -> W2) (h : heap W1) :
  Forall P (hcost h) -> heap_R W1 W2 (fun a b => P a /\ b = f a) h (map_heap f h).
Proof.
  intros H. destruct h as [sz pol c col p pos n]. unfold map_heap.
  cbn [hsize hpol hcost hcolor hp hpos hn] in *. constructor.
  - apply nat_R_refl.
  - apply policy_R_refl.
  - now apply list_R_on_map.
  - apply list_R_refl. exact color_R_refl.
  - apply list_nat_R_refl.
  - apply list_optnat_R_refl.
  - apply nat_R_refl.
Defined.

Lemma heap_R_on_map_inv {W1 W2} (P : W1 -> Prop) (f : W1 -> W2) (h : heap W1) (h' : heap W2) :
  heap_R W1 W2 (fun a b => P a /\ b = f a) h h' -> Forall P (hcost h) /\ h' = map_heap f h.
Proof.
  intros H. destruct H as [s1 s2 Hs pl1 pl2 Hpl c1 c2 Hc col1 col2 Hcol p1 p2 Hp pos1 pos2 Hpos n1 n2 Hn].
  unfold map_heap. cbn [hsize hpol hcost hcolor hp hpos hn].
  apply nat_R_eq in Hs, Hn. apply policy_R_eq in Hpl. apply list_nat_R_eq in Hp.
  apply list_optnat_R_eq in Hpos. apply (list_R_eq color_R color_R_eq) in Hcol.
  apply list_R_Forall2 in Hc. apply Forall2_on_map in Hc. destruct Hc as [HP ->].
  subst. split; [exact HP | reflexivity].
Qed.

Lemma op_R_on_map {W1 W2} (P : W1 -> Prop) (f : W1 -> W2) (o : @op W1) :
  Forall P (op_costs o) -> op_R W1 W2 (fun a b => P a /\ b = f a) o (map_op f o).
Proof.
  destruct o as [p|p c| | |]; intros H; cbn [map_op]; constructor; try apply nat_R_refl.
  split; [exact (Forall_inv H) | reflexivity].
Defined.

Section RescaleHeap.
  Context {W1 W2 : Type} (P : W1 -> Prop) (f : W1 -> W2).
  Variables (ltb1 : W1 -> W1 -> bool) (ltb2 : W2 -> W2 -> bool).
  Hypothesis Hmono : forall a b, P a -> P b -> ltb2 (f a) (f b) = ltb1 a b.

  Theorem rescale_step_on (top : W1) (h : heap W1) (o : @op W1) :
    P top -> Forall P (hcost h) -> Forall P (op_costs o) ->
    Forall P (hcost (fst (step ltb1 top h o))) /\
    step ltb2 (f top) (map_heap f h) (map_op f o)
    = (map_heap f (fst (step ltb1 top h o)), snd (step ltb1 top h o)).
  Proof.
    intros Htop Hh Ho.
    pose proof (step_R W1 W2 (fun a b => P a /\ b = f a) ltb1 ltb2
                  (fun a b Hab a' b' Hab' =>
                     bool_R_of_eq _ _
                       (match Hab, Hab' with
                        | conj Pa Ea, conj Pa' Ea' =>
                            eq_trans (eq_sym (Hmono a a' Pa Pa'))
                                     (f_equal2 ltb2 (eq_sym Ea) (eq_sym Ea'))
                        end))
                  top (f top) (conj Htop eq_refl)
                  h (map_heap f h) (heap_R_on_map P f h Hh)
                  o (map_op f o) (op_R_on_map P f o Ho)) as HR.
    apply prod_R_proj in HR. destruct HR as [Ha Hb].
    apply heap_R_on_map_inv in Ha. destruct Ha as [HP E]. apply out_R_eq in Hb.
    split; [exact HP|].
    destruct (step ltb2 (f top) (map_heap f h) (map_op f o)) as [h2 r2]. cbn [fst snd] in E, Hb.
    now subst.
  Qed.
  (* whole histories *)
  Theorem rescale_run_on (top : W1) (ops : list (@op W1)) : forall (h : heap W1),
    P top -> Forall P (hcost h) -> Forall (fun o => Forall P (op_costs o)) ops ->
    Forall P (hcost (fst (run ltb1 top h ops))) /\
    run ltb2 (f top) (map_heap f h) (map (map_op f) ops)
    = (map_heap f (fst (run ltb1 top h ops)), snd (run ltb1 top h ops)).
  Proof.
    induction ops as [|o os IH]; intros h Htop Hh Hops; cbn [run map].
    - split; [exact Hh | reflexivity].
    - destruct (rescale_step_on top h o Htop Hh (Forall_inv Hops)) as [Hh1 E1].
      rewrite E1. destruct (step ltb1 top h o) as [h1 r1]. cbn [fst snd] in *.
      destruct (IH h1 Htop Hh1 (Forall_inv_tail Hops)) as [Hh2 E2].
      rewrite E2. destruct (run ltb1 top h1 os) as [h2 rs]. cbn [fst snd] in *.
      split; [exact Hh2 | reflexivity].
  Qed.
End RescaleHeap.
