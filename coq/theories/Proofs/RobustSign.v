(* Soundness of the sign-class abstract interpreter of Model/MetricRnd.v.

   Under the rounding model [rounding rnd] (monotone, rnd 0 = 0, strict sign preserved) the function
   [rnd] maps every sign class into itself ([in_rnd]); hence every transfer function that is sound for
   the exact operation is sound for the rounded one.  The main theorem is [robust_sound_gen]:
   if the checker accepts a metric on an input class, then for EVERY admissible [rnd] and all
   equal-length, non-empty arguments in that class the rounded evaluation is defined (never the
   square root of a negative, the logarithm of a non-positive, a division by zero) and the value is
   in the computed class. *)
From Coq Require Import Reals QArith Qreals String List Lra Lia Bool ZArith.
From OPF Require Import Model.Consts Model.Effects Spec.MetricSpec Gen.Consts_gen Model.MetricIR
     Model.MetricRnd.
Import ListNotations.
Open Scope R_scope.

Scheme vexpr_ind2 := Induction for vexpr Sort Prop
  with sexpr_ind2 := Induction for sexpr Sort Prop.
Combined Scheme expr_mutind from vexpr_ind2, sexpr_ind2.

(* ---------- option plumbing ---------- *)
Lemma obind_some {A B} (o : option A) (f : A -> option B) r :
  obind o f = Some r -> exists a, o = Some a /\ f a = Some r.
Proof. destruct o as [a|]; cbn; [intros H; exists a; auto | discriminate]. Qed.

Lemma obind2_some {A B C} (o1 : option A) (o2 : option B) (f : A -> B -> option C) r :
  obind2 o1 o2 f = Some r -> exists a b, o1 = Some a /\ o2 = Some b /\ f a b = Some r.
Proof.
  destruct o1 as [a|]; destruct o2 as [b|]; cbn; try discriminate.
  intros H; exists a, b; auto.
Qed.

Lemma oseq_map2 {A} (f : R -> R -> option A) (P : A -> Prop) (Q1 Q2 : R -> Prop) x y :
  length x = length y -> Forall Q1 x -> Forall Q2 y ->
  (forall a b, Q1 a -> Q2 b -> exists r, f a b = Some r /\ P r) ->
  exists l, oseq (map2 f x y) = Some l /\ Forall P l /\ length l = length x.
Proof.
  intros HL HX HY HF. revert y HL HY.
  induction HX as [|a x Ha HX IH]; intros [|b y] HL HY; cbn [length] in HL; try discriminate.
  - exists []. cbn. auto.
  - inversion HY as [|b' y' Hb HY']; subst.
    destruct (IH y) as [l [El [Pl Ll]]]; [lia | assumption |].
    destruct (HF a b Ha Hb) as [r [Er Pr]].
    exists (r :: l). cbn [map2 oseq length]. rewrite Er, El. auto.
Qed.

(* ---------- classes ---------- *)
Lemma join_l c1 c2 r : in_cls c1 r -> in_cls (cls_join c1 c2) r.
Proof. destruct c1, c2; cbn; intros; auto; lra. Qed.

Lemma join_r c1 c2 r : in_cls c2 r -> in_cls (cls_join c1 c2) r.
Proof. destruct c1, c2; cbn; intros; auto; lra. Qed.

Lemma add_sound c1 c2 a b : in_cls c1 a -> in_cls c2 b -> in_cls (cls_add c1 c2) (a + b).
Proof. destruct c1, c2; cbn; intros; auto; lra. Qed.

Lemma opp_sound c a : in_cls c a -> in_cls (cls_opp c) (- a).
Proof. destruct c; cbn; intros; auto; lra. Qed.

Lemma sub_sound c1 c2 a b : in_cls c1 a -> in_cls c2 b -> in_cls (cls_sub c1 c2) (a - b).
Proof. intros H1 H2. unfold cls_sub, Rminus. apply add_sound; [assumption | now apply opp_sound]. Qed.

Lemma mul_sound c1 c2 a b : in_cls c1 a -> in_cls c2 b -> in_cls (cls_mul c1 c2) (a * b).
Proof. destruct c1, c2; cbn; intros; auto; nra. Qed.

Lemma inv_sound c b : (c = Pos \/ c = Neg) -> in_cls c b -> in_cls c (/ b).
Proof.
  intros [-> | ->]; cbn; intros H.
  - now apply Rinv_0_lt_compat.
  - now apply Rinv_lt_0_compat.
Qed.

Lemma div_sound c1 c2 c a b :
  cls_div c1 c2 = Some c -> in_cls c1 a -> in_cls c2 b -> b <> 0 /\ in_cls c (a / b).
Proof.
  unfold cls_div. intros E H1 H2.
  assert (Hc : c2 = Pos \/ c2 = Neg) by (destruct c2; try discriminate; auto).
  assert (c = cls_mul c1 c2) as -> by (destruct c2; try discriminate; now injection E).
  split.
  - destruct Hc as [-> | ->]; cbn in H2; lra.
  - unfold Rdiv. apply mul_sound; [assumption | now apply inv_sound].
Qed.

Lemma min_sound c1 c2 a b : in_cls c1 a -> in_cls c2 b -> in_cls (cls_min c1 c2) (Rmin a b).
Proof. unfold Rmin. destruct (Rle_dec a b); destruct c1, c2; cbn; intros; auto; lra. Qed.

Lemma max_sound c1 c2 a b : in_cls c1 a -> in_cls c2 b -> in_cls (cls_max c1 c2) (Rmax a b).
Proof. unfold Rmax. destruct (Rle_dec a b); destruct c1, c2; cbn; intros; auto; lra. Qed.

Lemma abs_sound c a : in_cls c a -> in_cls (cls_abs c) (Rabs a).
Proof. unfold Rabs. destruct (Rcase_abs a); destruct c; cbn; intros; auto; lra. Qed.

Lemma sq_sound c a : in_cls c a -> in_cls (cls_abs c) (a ^ 2).
Proof. destruct c; cbn; intros; nra. Qed.

Lemma sqrt_sound c c' a : cls_sqrt c = Some c' -> in_cls c a -> ~ a < 0 /\ in_cls c' (sqrt a).
Proof.
  destruct c; cbn; try discriminate; intros E H; injection E as <-; cbn; split; try lra.
  - now apply sqrt_lt_R0.
  - apply sqrt_pos.
Qed.

Lemma Q_sound q : in_cls (cls_Q q) (Q2R q).
Proof.
  unfold cls_Q, Q2R.
  assert (HD : 0 < / IZR (Z.pos (Qden q))).
  { apply Rinv_0_lt_compat. apply IZR_lt. reflexivity. }
  destruct (0 <? Qnum q)%Z eqn:E1.
  - apply Z.ltb_lt in E1. apply IZR_lt in E1. cbn [in_cls]. nra.
  - destruct (Qnum q =? 0)%Z eqn:E2.
    + apply Z.eqb_eq in E2. rewrite E2. cbn [in_cls]. lra.
    + apply Z.ltb_ge in E1. apply Z.eqb_neq in E2.
      assert (E3 : (Qnum q < 0)%Z) by lia. apply IZR_lt in E3. cbn [in_cls]. nra.
Qed.

Lemma cname_sound n : in_cls (cls_cname n) (cvalR n).
Proof.
  unfold cls_cname, cvalR. destruct (cvalQ n) as [q|]; [apply Q_sound | cbn; lra].
Qed.

Lemma Forall_join_l c1 c2 l : Forall (in_cls c1) l -> Forall (in_cls (cls_join c1 c2)) l.
Proof. apply Forall_impl. intros r. apply join_l. Qed.

Lemma Forall_join_r c1 c2 l : Forall (in_cls c2) l -> Forall (in_cls (cls_join c1 c2)) l.
Proof. apply Forall_impl. intros r. apply join_r. Qed.

(* ---------- exact list operations ---------- *)
Lemma lmax_sound c l : Forall (in_cls c) l -> (1 <= length l)%nat -> in_cls c (lmax l).
Proof.
  intros HF HL. destruct l as [|a t]; [cbn in HL; lia|]. cbn [lmax].
  inversion HF as [|a' t' Ha Ht]; subst. clear HF HL. revert a Ha.
  induction Ht as [|e t He Ht IH]; intros a Ha; cbn [fold_left]; [assumption|].
  apply IH. assert (E : cls_max c c = c) by (destruct c; reflexivity).
  rewrite <- E. now apply max_sound.
Qed.

Lemma countne_nonneg l : 0 <= countne l.
Proof.
  unfold countne. induction l as [|p l IH]; cbn [map]; [unfold sum; cbn; lra|].
  change (sum (?a :: ?t)) with (a + sum t). destruct (Rneqb (fst p) (snd p)); lra.
Qed.

Lemma countne_all l : Forall (fun p => fst p <> snd p) l -> countne l = INR (length l).
Proof.
  unfold countne. induction 1 as [|p l Hp Hl IH]; [reflexivity|].
  cbn [map length]. change (sum (?a :: ?t)) with (a + sum t). rewrite IH, S_INR.
  unfold Rneqb. destruct (Req_EM_T (fst p) (snd p)) as [E|E]; [contradiction | lra].
Qed.

Lemma INR_len_pos {A} (l : list A) : (1 <= length l)%nat -> 0 < INR (length l).
Proof. intros H. apply lt_0_INR. lia. Qed.

(* ---------- unfolding equations (cbn does not refold the mutual fixpoints) ---------- *)
Section Eqs.
  Variables (rnd : R -> R) (call : string -> list R -> list R -> option R) (pe : string -> R).
  Variables (ext : bool) (callc : string -> cls -> option cls).
  Local Notation eS := (evalSR rnd call pe).
  Local Notation eV := (evalVR rnd call pe).
  Local Notation cS := (clsS ext callc).
  Local Notation cV := (clsV ext callc).

  Lemma evalSR_SSum v x y :
    eS (SSum v) x y = obind (oseq (map2 (fun a b => eV v x y a b) x y)) (fun l => Some (rsum rnd l)).
  Proof. reflexivity. Qed.
  Lemma evalSR_SAmax v x y :
    eS (SAmax v) x y = obind (oseq (map2 (fun a b => eV v x y a b) x y)) (fun l => Some (lmax l)).
  Proof. reflexivity. Qed.
  Lemma evalSR_SCountNe u v x y :
    eS (SCountNe u v) x y
    = obind (oseq (map2 (fun a b => obind2 (eV u x y a b) (eV v x y a b) (fun p q => Some (p, q))) x y))
            (fun l => Some (countne l)).
  Proof. reflexivity. Qed.
  Lemma evalSR_SBin o s1 s2 x y : eS (SBin o s1 s2) x y = obind2 (eS s1 x y) (eS s2 x y) (binRnd rnd o).
  Proof. reflexivity. Qed.
  Lemma evalSR_SUn o s1 x y : eS (SUn o s1) x y = obind (eS s1 x y) (unRnd rnd o).
  Proof. reflexivity. Qed.
  Lemma evalSR_SPowC s1 p x y : eS (SPowC s1 p) x y = obind (eS s1 x y) (powRnd rnd p).
  Proof. reflexivity. Qed.
  Lemma evalSR_SCall f u v x y :
    eS (SCall f u v) x y
    = obind2 (oseq (map2 (fun a b => eV u x y a b) x y)) (oseq (map2 (fun a b => eV v x y a b) x y)) (call f).
  Proof. reflexivity. Qed.
  Lemma evalVR_VConstS s x y a b : eV (VConstS s) x y a b = eS s x y.
  Proof. reflexivity. Qed.
  Lemma evalVR_VBin o v1 v2 x y a b :
    eV (VBin o v1 v2) x y a b = obind2 (eV v1 x y a b) (eV v2 x y a b) (binRnd rnd o).
  Proof. reflexivity. Qed.
  Lemma evalVR_VUn o v1 x y a b : eV (VUn o v1) x y a b = obind (eV v1 x y a b) (unRnd rnd o).
  Proof. reflexivity. Qed.
  Lemma evalVR_VPowC v1 p x y a b : eV (VPowC v1 p) x y a b = obind (eV v1 x y a b) (powRnd rnd p).
  Proof. reflexivity. Qed.
  Lemma evalVR_VSel c l r v1 v2 x y a b :
    eV (VSel c l r v1 v2) x y a b
    = obind2 (eV l x y a b) (eV r x y a b) (fun p q => if cmpR c p q then eV v1 x y a b else eV v2 x y a b).
  Proof. reflexivity. Qed.

  Lemma clsS_SSum c v : cS c (SSum v) = cV c v.
  Proof. reflexivity. Qed.
  Lemma clsS_SAmax c v : cS c (SAmax v) = cV c v.
  Proof. reflexivity. Qed.
  Lemma clsS_SCountNe c u v :
    cS c (SCountNe u v)
    = obind2 (cV c u) (cV c v)
             (fun cu _ => if ext && is_zero_const v && (cls_eqb cu Pos || cls_eqb cu Neg)
                          then Some Pos else Some NonNeg).
  Proof. reflexivity. Qed.
  Lemma clsS_SBin c o s1 s2 : cS c (SBin o s1 s2) = obind2 (cS c s1) (cS c s2) (cls_bin o).
  Proof. reflexivity. Qed.
  Lemma clsS_SUn c o s1 : cS c (SUn o s1) = obind (cS c s1) (cls_un o).
  Proof. reflexivity. Qed.
  Lemma clsS_SPowC c s1 p : cS c (SPowC s1 p) = obind (cS c s1) (cls_pow p).
  Proof. reflexivity. Qed.
  Lemma clsS_SCall c f u v :
    cS c (SCall f u v) = obind2 (cV c u) (cV c v) (fun cu cv => callc f (cls_join cu cv)).
  Proof. reflexivity. Qed.
  Lemma clsV_VConstS c s : cV c (VConstS s) = cS c s.
  Proof. reflexivity. Qed.
  Lemma clsV_VBin c o v1 v2 : cV c (VBin o v1 v2) = obind2 (cV c v1) (cV c v2) (cls_bin o).
  Proof. reflexivity. Qed.
  Lemma clsV_VUn c o v1 : cV c (VUn o v1) = obind (cV c v1) (cls_un o).
  Proof. reflexivity. Qed.
  Lemma clsV_VPowC c v1 p : cV c (VPowC v1 p) = obind (cV c v1) (cls_pow p).
  Proof. reflexivity. Qed.
  Lemma clsV_VSel c cm l r v1 v2 :
    cV c (VSel cm l r v1 v2)
    = obind2 (cV c l) (cV c r) (fun _ _ => obind2 (cV c v1) (cV c v2) (fun c1 c2 => Some (cls_join c1 c2))).
  Proof. reflexivity. Qed.
End Eqs.

Section Sound.
  Variable rnd : R -> R.
  Hypothesis RND : rounding rnd.

  Lemma rnd_nonneg a : 0 <= a -> 0 <= rnd a.
  Proof.
    intros H. pose proof (rnd_mono _ RND 0 a H) as H1. rewrite (rnd_zero _ RND) in H1. exact H1.
  Qed.

  (* the rounding maps each sign class into itself *)
  Lemma in_rnd c a : in_cls c a -> in_cls c (rnd a).
  Proof.
    destruct c; cbn; intros H; auto.
    - now apply (rnd_pos _ RND).
    - now apply rnd_nonneg.
    - now apply (rnd_neg _ RND).
  Qed.

  (* ---------- rounded operators ---------- *)
  Lemma bin_sound o c1 c2 c a b :
    cls_bin o c1 c2 = Some c -> in_cls c1 a -> in_cls c2 b ->
    exists r, binRnd rnd o a b = Some r /\ in_cls c r.
  Proof.
    intros E H1 H2. destruct o; cbn [cls_bin binRnd] in *.
    - injection E as <-. eexists; split; [reflexivity|]. apply in_rnd. now apply add_sound.
    - injection E as <-. eexists; split; [reflexivity|]. apply in_rnd. now apply sub_sound.
    - injection E as <-. eexists; split; [reflexivity|]. apply in_rnd. now apply mul_sound.
    - destruct (div_sound _ _ _ _ _ E H1 H2) as [Hb Hc].
      destruct (Req_EM_T b 0) as [E0|_]; [contradiction|].
      eexists; split; [reflexivity|]. now apply in_rnd.
    - injection E as <-. eexists; split; [reflexivity|]. now apply min_sound.
    - injection E as <-. eexists; split; [reflexivity|]. now apply max_sound.
  Qed.

  Lemma sqrt_rnd_sound c c' a :
    cls_sqrt c = Some c' -> in_cls c a ->
    exists r, (if Rlt_dec a 0 then None else Some (rnd (sqrt a))) = Some r /\ in_cls c' r.
  Proof.
    intros E H. destruct (sqrt_sound _ _ _ E H) as [Hn Hs].
    destruct (Rlt_dec a 0) as [Hlt|_]; [contradiction|].
    eexists; split; [reflexivity|]. now apply in_rnd.
  Qed.

  Lemma un_sound o c1 c a :
    cls_un o c1 = Some c -> in_cls c1 a -> exists r, unRnd rnd o a = Some r /\ in_cls c r.
  Proof.
    intros E H. destruct o; cbn [cls_un unRnd] in *.
    - injection E as <-. eexists; split; [reflexivity|]. now apply opp_sound.
    - injection E as <-. eexists; split; [reflexivity|]. now apply abs_sound.
    - destruct c1; try discriminate. injection E as <-. cbn in H.
      destruct (Rlt_dec 0 a) as [_|Hn]; [|contradiction].
      eexists; split; [reflexivity|]. exact I.
    - injection E as <-. eexists; split; [reflexivity|]. apply in_rnd. cbn. apply exp_pos.
    - now apply sqrt_rnd_sound with (c := c1).
  Qed.

  Lemma pow_sound p c1 c a :
    cls_pow p c1 = Some c -> in_cls c1 a -> exists r, powRnd rnd p a = Some r /\ in_cls c r.
  Proof.
    intros E H. destruct p; cbn [cls_pow powRnd] in *.
    - injection E as <-. eexists; split; [reflexivity|]. apply in_rnd. now apply sq_sound.
    - now apply sqrt_rnd_sound with (c := c1).
  Qed.

  Lemma rsum_sound c l : Forall (in_cls c) l -> (1 <= length l)%nat -> in_cls c (rsum rnd l).
  Proof.
    intros HF HL. destruct l as [|a t]; [cbn in HL; lia|]. cbn [rsum].
    inversion HF as [|a' t' Ha Ht]; subst. clear HF HL. revert a Ha.
    induction Ht as [|e t He Ht IH]; intros a Ha; cbn [fold_left]; [assumption|].
    apply IH. apply in_rnd. assert (E : cls_add c c = c) by (destruct c; reflexivity).
    rewrite <- E. now apply add_sound.
  Qed.

  (* ---------- expressions ---------- *)
  Section Expr.
    Variable ext : bool.
    Variable callR : string -> list R -> list R -> option R.
    Variable callc : string -> cls -> option cls.
    Variable pe : string -> R.
    Hypothesis call_ok : forall f c c' x y,
      callc f c = Some c' -> in_dom c x y -> exists r, callR f x y = Some r /\ in_cls c' r.

    Definition okS (s : sexpr) : Prop := forall c c' x y,
      clsS ext callc c s = Some c' -> in_dom c x y ->
      exists r, evalSR rnd callR pe s x y = Some r /\ in_cls c' r.

    Definition okV (v : vexpr) : Prop := forall c c' x y a b,
      clsV ext callc c v = Some c' -> in_dom c x y -> in_cls c a -> in_cls c b ->
      exists r, evalVR rnd callR pe v x y a b = Some r /\ in_cls c' r.

    (* a whole vector *)
    Lemma okV_vec v c c' x y :
      okV v -> clsV ext callc c v = Some c' -> in_dom c x y ->
      exists l, oseq (map2 (fun a b => evalVR rnd callR pe v x y a b) x y) = Some l
                /\ Forall (in_cls c') l /\ length l = length x.
    Proof.
      intros HV E HD. pose proof HD as [HL [H1 [HX HY]]].
      apply (oseq_map2 _ (in_cls c') (in_cls c) (in_cls c)); try assumption.
      intros a b Ha Hb. now apply (HV c c' x y a b).
    Qed.

    Lemma zero_const_eval v x y a b :
      is_zero_const v = true -> evalVR rnd callR pe v x y a b = Some 0.
    Proof.
      destruct v as [| |s| | | |]; try discriminate. destruct s; try discriminate.
      cbn [is_zero_const evalVR evalSR]. intros E. apply Z.eqb_eq in E.
      unfold Q2R. rewrite E. f_equal. lra.
    Qed.

    Lemma ok_SSum v : okV v -> okS (SSum v).
    Proof.
      intros HV c c' x y E HD. rewrite clsS_SSum in E. rewrite evalSR_SSum.
      destruct (okV_vec v c c' x y HV E HD) as [l [El [Pl Ll]]]. rewrite El. cbn [obind].
      eexists; split; [reflexivity|]. apply rsum_sound; [assumption|].
      destruct HD as [_ [H1 _]]. lia.
    Qed.

    Lemma ok_SAmax v : okV v -> okS (SAmax v).
    Proof.
      intros HV c c' x y E HD. rewrite clsS_SAmax in E. rewrite evalSR_SAmax.
      destruct (okV_vec v c c' x y HV E HD) as [l [El [Pl Ll]]]. rewrite El. cbn [obind].
      eexists; split; [reflexivity|]. apply lmax_sound; [assumption|].
      destruct HD as [_ [H1 _]]. lia.
    Qed.

    Lemma ok_SCountNe u v : okV u -> okV v -> okS (SCountNe u v).
    Proof.
      intros HU HV c c' x y E HD. rewrite clsS_SCountNe in E. rewrite evalSR_SCountNe.
      apply obind2_some in E. destruct E as [cu [cv [Eu [Ev E]]]].
      pose proof HD as [HL [H1 [HX HY]]].
      destruct (oseq_map2
                  (fun a b => obind2 (evalVR rnd callR pe u x y a b) (evalVR rnd callR pe v x y a b)
                                     (fun p q => Some (p, q)))
                  (fun pq => in_cls cu (fst pq) /\ (is_zero_const v = true -> snd pq = 0))
                  (in_cls c) (in_cls c) x y HL HX HY) as [l [El [Pl Ll]]].
      { intros a b Ha Hb.
        destruct (HU c cu x y a b Eu HD Ha Hb) as [p [Ep Pp]].
        destruct (HV c cv x y a b Ev HD Ha Hb) as [q [Eq Pq]].
        rewrite Ep, Eq. cbn [obind2]. eexists; split; [reflexivity|]. cbn [fst snd]. split; [assumption|].
        intros Z. rewrite (zero_const_eval v x y a b Z) in Eq. now injection Eq as <-. }
      rewrite El. cbn [obind]. eexists; split; [reflexivity|].
      destruct (ext && is_zero_const v && (cls_eqb cu Pos || cls_eqb cu Neg)) eqn:EX.
      - injection E as <-. apply andb_prop in EX. destruct EX as [EX E3].
        apply andb_prop in EX. destruct EX as [_ E2].
        rewrite countne_all.
        + rewrite Ll. cbn [in_cls]. now apply INR_len_pos.
        + revert Pl. apply Forall_impl. intros pq [P1 P2]. rewrite (P2 E2).
          destruct cu; cbn in E3; try discriminate; cbn in P1; lra.
      - injection E as <-. apply countne_nonneg.
    Qed.

    Lemma ok_SBin o s1 s2 : okS s1 -> okS s2 -> okS (SBin o s1 s2).
    Proof.
      intros H1 H2 c c' x y E HD. rewrite clsS_SBin in E. rewrite evalSR_SBin.
      apply obind2_some in E. destruct E as [c1 [c2 [E1 [E2 E]]]].
      destruct (H1 c c1 x y E1 HD) as [r1 [R1 P1]]. destruct (H2 c c2 x y E2 HD) as [r2 [R2 P2]].
      rewrite R1, R2. cbn [obind2]. now apply bin_sound with (c1 := c1) (c2 := c2).
    Qed.

    Lemma ok_SUn o s1 : okS s1 -> okS (SUn o s1).
    Proof.
      intros H1 c c' x y E HD. rewrite clsS_SUn in E. rewrite evalSR_SUn.
      apply obind_some in E. destruct E as [c1 [E1 E]].
      destruct (H1 c c1 x y E1 HD) as [r1 [R1 P1]]. rewrite R1. cbn [obind].
      now apply un_sound with (c1 := c1).
    Qed.

    Lemma ok_SPowC s1 p : okS s1 -> okS (SPowC s1 p).
    Proof.
      intros H1 c c' x y E HD. rewrite clsS_SPowC in E. rewrite evalSR_SPowC.
      apply obind_some in E. destruct E as [c1 [E1 E]].
      destruct (H1 c c1 x y E1 HD) as [r1 [R1 P1]]. rewrite R1. cbn [obind].
      now apply pow_sound with (c1 := c1).
    Qed.

    Lemma ok_SCall f u v : okV u -> okV v -> okS (SCall f u v).
    Proof.
      intros HU HV c c' x y E HD. rewrite clsS_SCall in E. rewrite evalSR_SCall.
      apply obind2_some in E. destruct E as [cu [cv [Eu [Ev E]]]].
      destruct (okV_vec u c cu x y HU Eu HD) as [lu [Elu [Plu Llu]]].
      destruct (okV_vec v c cv x y HV Ev HD) as [lv [Elv [Plv Llv]]].
      rewrite Elu, Elv. cbn [obind2]. apply (call_ok f _ c' lu lv E).
      destruct HD as [HL [H1 _]]. repeat split.
      - lia.
      - lia.
      - now apply Forall_join_l.
      - now apply Forall_join_r.
    Qed.

    Lemma ok_VBin o v1 v2 : okV v1 -> okV v2 -> okV (VBin o v1 v2).
    Proof.
      intros H1 H2 c c' x y a b E HD Ha Hb. rewrite clsV_VBin in E. rewrite evalVR_VBin.
      apply obind2_some in E. destruct E as [c1 [c2 [E1 [E2 E]]]].
      destruct (H1 c c1 x y a b E1 HD Ha Hb) as [r1 [R1 P1]].
      destruct (H2 c c2 x y a b E2 HD Ha Hb) as [r2 [R2 P2]].
      rewrite R1, R2. cbn [obind2]. now apply bin_sound with (c1 := c1) (c2 := c2).
    Qed.

    Lemma ok_VUn o v1 : okV v1 -> okV (VUn o v1).
    Proof.
      intros H1 c c' x y a b E HD Ha Hb. rewrite clsV_VUn in E. rewrite evalVR_VUn.
      apply obind_some in E. destruct E as [c1 [E1 E]].
      destruct (H1 c c1 x y a b E1 HD Ha Hb) as [r1 [R1 P1]]. rewrite R1. cbn [obind].
      now apply un_sound with (c1 := c1).
    Qed.

    Lemma ok_VPowC v1 p : okV v1 -> okV (VPowC v1 p).
    Proof.
      intros H1 c c' x y a b E HD Ha Hb. rewrite clsV_VPowC in E. rewrite evalVR_VPowC.
      apply obind_some in E. destruct E as [c1 [E1 E]].
      destruct (H1 c c1 x y a b E1 HD Ha Hb) as [r1 [R1 P1]]. rewrite R1. cbn [obind].
      now apply pow_sound with (c1 := c1).
    Qed.

    Lemma ok_VSel cm l r v1 v2 : okV l -> okV r -> okV v1 -> okV v2 -> okV (VSel cm l r v1 v2).
    Proof.
      intros HLl HRr H1 H2 c c' x y a b E HD Ha Hb. rewrite clsV_VSel in E. rewrite evalVR_VSel.
      apply obind2_some in E. destruct E as [cl [cr [El [Er E]]]].
      apply obind2_some in E. destruct E as [c1 [c2 [E1 [E2 E]]]]. injection E as <-.
      destruct (HLl c cl x y a b El HD Ha Hb) as [p [Rp _]].
      destruct (HRr c cr x y a b Er HD Ha Hb) as [q [Rq _]].
      rewrite Rp, Rq. cbn [obind2]. destruct (cmpR cm p q).
      - destruct (H1 c c1 x y a b E1 HD Ha Hb) as [r1 [R1 P1]].
        exists r1; split; [assumption | now apply join_l].
      - destruct (H2 c c2 x y a b E2 HD Ha Hb) as [r2 [R2 P2]].
        exists r2; split; [assumption | now apply join_r].
    Qed.

    Lemma sound_mut : (forall v, okV v) /\ (forall s, okS s).
    Proof.
      apply expr_mutind.
      - intros c c' x y a b E HD Ha Hb. cbn in *. injection E as <-. eauto.
      - intros c c' x y a b E HD Ha Hb. cbn in *. injection E as <-. eauto.
      - intros s HS c c' x y a b E HD Ha Hb. rewrite clsV_VConstS in E. rewrite evalVR_VConstS. now apply (HS c c' x y).
      - intros o v1 H1 v2 H2. now apply ok_VBin.
      - intros o v1 H1. now apply ok_VUn.
      - intros v1 H1 p. now apply ok_VPowC.
      - intros cm l HLl r HRr v1 H1 v2 H2. now apply ok_VSel.
      - intros v HV. now apply ok_SSum.
      - intros v HV. now apply ok_SAmax.
      - intros u HU v HV. now apply ok_SCountNe.
      - intros c c' x y E HD. cbn in *. injection E as <-. eexists; split; [reflexivity|].
        destruct HD as [_ [H1 _]]. unfold len. now apply INR_len_pos.
      - intros q c c' x y E HD. cbn in *. injection E as <-. eexists; split; [reflexivity|]. apply Q_sound.
      - intros n c c' x y E HD. cbn in *. injection E as <-. eexists; split; [reflexivity|]. apply cname_sound.
      - intros p c c' x y E HD. cbn in *. injection E as <-. eexists; split; [reflexivity|]. exact I.
      - intros o s1 H1 s2 H2. now apply ok_SBin.
      - intros o s1 H1. now apply ok_SUn.
      - intros s1 H1 p. now apply ok_SPowC.
      - intros f u HU v HV. now apply ok_SCall.
    Qed.

    Lemma clsS_sound s c c' x y :
      clsS ext callc c s = Some c' -> in_dom c x y ->
      exists r, evalSR rnd callR pe s x y = Some r /\ in_cls c' r.
    Proof. apply (proj2 sound_mut s). Qed.
  End Expr.

  (* ---------- the decorator ---------- *)
  Definition erel (n : nat) (e : venv) (ce : cenv) : Prop :=
    Forall2 (fun kv kc => fst kv = fst kc /\ length (snd kv) = n /\ Forall (in_cls (snd kc)) (snd kv)) e ce.

  Definition vrel (n : nat) (vs : list (list R)) (cs : list cls) : Prop :=
    Forall2 (fun v c => length v = n /\ Forall (in_cls c) v) vs cs.

  Lemma erel_lookup n e ce p c :
    erel n e ce -> clookup p ce = Some c ->
    exists v, vlookup p e = Some v /\ length v = n /\ Forall (in_cls c) v.
  Proof.
    induction 1 as [|[k v] [k' c0] e ce [Hk [Hn Hc]] HR IH]; cbn [clookup vlookup]; [discriminate|].
    cbn [fst snd] in *. subst k'. destruct (String.eqb p k).
    - intros E. injection E as <-. exists v. auto.
    - exact IH.
  Qed.

  Lemma erel_set n e ce p v c :
    erel n e ce -> length v = n -> Forall (in_cls c) v -> erel n (vset p v e) (cset p c ce).
  Proof.
    intros HR Hn Hc.
    induction HR as [|[k w] [k' c0] e ce [Hk [Hn0 Hc0]] HR IH]; cbn [cset vset]; [constructor|].
    cbn [fst snd] in *. subst k'. destruct (String.eqb p k).
    - constructor; [cbn [fst snd]; auto | assumption].
    - constructor; [cbn [fst snd]; auto | assumption].
  Qed.

  Lemma erel_lookups n e ce ps cs :
    erel n e ce -> clookups ps ce = Some cs -> exists vs, vlookups ps e = Some vs /\ vrel n vs cs.
  Proof.
    intros HR. revert cs. induction ps as [|p ps IH]; intros cs; cbn [clookups vlookups].
    - intros E. injection E as <-. exists []. split; [reflexivity | constructor].
    - destruct (clookup p ce) as [c|] eqn:Ec; [|discriminate].
      destruct (clookups ps ce) as [cs'|] eqn:Ecs; [|discriminate].
      intros E. injection E as <-.
      destruct (erel_lookup n e ce p c HR Ec) as [v [Ev [Hn Hc]]].
      destruct (IH cs' eq_refl) as [vs [Evs Hvs]].
      rewrite Ev, Evs. exists (v :: vs). split; [reflexivity|]. constructor; auto.
  Qed.

  Lemma add_const_sound n c v :
    Forall (in_cls c) v -> Forall (in_cls (cls_add c (cls_cname n))) (add_constR rnd n v).
  Proof.
    unfold add_constR. induction 1 as [|a v Ha Hv IH]; cbn [map]; constructor; [|assumption].
    apply in_rnd. apply add_sound; [assumption | apply cname_sound].
  Qed.

  Lemma dec_run_sound n prog : forall e ce cs,
    erel n e ce -> dec_run_cls prog ce = Some cs ->
    exists vs, dec_runR rnd prog e = Some vs /\ vrel n vs cs.
  Proof.
    induction prog as [|st prog IH]; intros e ce cs HR; cbn [dec_run_cls dec_runR]; [discriminate|].
    destruct st as [p c|p c|ps].
    - destruct (clookup p ce) as [c0|] eqn:Ec; [|discriminate]. intros E.
      destruct (erel_lookup n e ce p c0 HR Ec) as [v [Ev [Hn Hc]]]. rewrite Ev.
      apply (IH _ (cset p (cls_add c0 (cls_cname c)) ce)); [|assumption].
      apply erel_set; [assumption | unfold add_constR; now rewrite map_length | now apply add_const_sound].
    - destruct (clookup p ce) as [c0|] eqn:Ec; [|discriminate]. intros E.
      destruct (erel_lookup n e ce p c0 HR Ec) as [v [Ev [Hn Hc]]]. rewrite Ev.
      apply (IH _ (cset p (cls_add c0 (cls_cname c)) ce)); [|assumption].
      apply erel_set; [assumption | unfold add_constR; now rewrite map_length | now apply add_const_sound].
    - now apply erel_lookups.
  Qed.

  Lemma dec_apply_sound dparams dprog c cx cy x y :
    dec_apply_cls dparams dprog [c; c] = Some [cx; cy] -> in_dom c x y ->
    exists x' y', dec_applyR rnd dparams dprog [x; y] = Some [x'; y']
                  /\ length x' = length x /\ length y' = length x
                  /\ Forall (in_cls cx) x' /\ Forall (in_cls cy) y'.
  Proof.
    unfold dec_apply_cls, dec_applyR. intros E [HL [H1 [HX HY]]].
    assert (HR : erel (length x) (combine dparams [x; y]) (combine dparams [c; c])).
    { destruct dparams as [|p1 [|p2 ps]]; cbn [combine].
      - constructor.
      - constructor; [cbn [fst snd]; auto | constructor].
      - constructor; [cbn [fst snd]; auto|]. constructor; [cbn [fst snd]; auto|].
        destruct ps; constructor. }
    destruct (dec_run_sound _ dprog _ _ _ HR E) as [vs [Ev Hv]].
    inversion Hv as [|x' cx' vs1 cs1 [Lx Px] Hv1]; subst.
    inversion Hv1 as [|y' cy' vs2 cs2 [Ly Py] Hv2]; subst.
    inversion Hv2; subst. exists x', y'. auto.
  Qed.

  (* ---------- whole metrics ---------- *)
  Lemma wrap_sound ext callR callc pe dparams dprog m c c' x y :
    (forall f c c' x y, callc f c = Some c' -> in_dom c x y ->
                        exists r, callR f x y = Some r /\ in_cls c' r) ->
    wrap_cls ext callc dparams dprog m c = Some c' -> in_dom c x y ->
    exists r, wrapR rnd callR dparams dprog pe m x y = Some r /\ in_cls c' r.
  Proof.
    intros call_ok E HD. unfold wrap_cls in E. unfold wrapR, eval_bodyR.
    destruct (m_avoid_zero m).
    - destruct (dec_apply_cls dparams dprog [c; c]) as [[|cx [|cy [|? ?]]]|] eqn:Ed; try discriminate.
      destruct (dec_apply_sound _ _ _ _ _ x y Ed HD) as [x' [y' [Ea [Lx [Ly [Px Py]]]]]].
      rewrite Ea. apply (clsS_sound ext callR callc pe call_ok _ _ c' x' y' E).
      destruct HD as [HL [H1 _]]. repeat split.
      + lia.
      + lia.
      + now apply Forall_join_l.
      + now apply Forall_join_r.
    - now apply (clsS_sound ext callR callc pe call_ok _ c c' x y E).
  Qed.

  Lemma call_fuel_sound ext t dparams dprog fuel : forall f c c' x y,
    call_cls ext t dparams dprog fuel f c = Some c' -> in_dom c x y ->
    exists r, call_fuelR rnd t dparams dprog fuel f x y = Some r /\ in_cls c' r.
  Proof.
    induction fuel as [|n IH]; intros f c c' x y; cbn [call_cls call_fuelR]; [discriminate|].
    destruct (lookup_ir f t) as [m|]; [|discriminate].
    intros E HD. now apply (wrap_sound ext _ (call_cls ext t dparams dprog n) _ _ _ m c c' x y IH).
  Qed.

  Theorem robust_sound_gen_with ext t dparams dprog pe c c' m x y :
    robust_class_gen ext t dparams dprog c m = Some c' -> in_dom c x y ->
    exists r, evalRnd_wrapped_with rnd t dparams dprog pe m x y = Some r /\ in_cls c' r.
  Proof.
    unfold robust_class_gen, evalRnd_wrapped_with. intros E HD.
    apply (wrap_sound ext _ (call_cls ext t dparams dprog call_depth) _ _ _ m c c' x y); try assumption.
    apply call_fuel_sound.
  Qed.
End Sound.

(* ---------- the theorems at the generated tables ---------- *)
Theorem robust_class_sound c c' m :
  robust_class c m = Some c' ->
  forall rnd, rounding rnd -> forall x y, in_dom c x y ->
  exists r, metric_rnd rnd m x y = Some r /\ in_cls c' r.
Proof.
  intros E rnd RND x y HD. unfold metric_rnd, evalRnd_wrapped.
  now apply (robust_sound_gen_with rnd RND false _ _ _ _ c c' m x y).
Qed.

Theorem robust_class_cnt_sound c c' m :
  robust_class_cnt c m = Some c' ->
  forall rnd, rounding rnd -> forall x y, in_dom c x y ->
  exists r, metric_rnd rnd m x y = Some r /\ in_cls c' r.
Proof.
  intros E rnd RND x y HD. unfold metric_rnd, evalRnd_wrapped.
  now apply (robust_sound_gen_with rnd RND true _ _ _ _ c c' m x y).
Qed.

(* extra parameters (gaussian's gamma) arbitrary *)
Theorem robust_class_sound_with c c' m :
  robust_class c m = Some c' ->
  forall rnd, rounding rnd -> forall pe x y, in_dom c x y ->
  exists r, metric_rnd_with rnd pe m x y = Some r /\ in_cls c' r.
Proof.
  intros E rnd RND pe x y HD. unfold metric_rnd_with.
  now apply (robust_sound_gen_with rnd RND false _ _ _ _ c c' m x y).
Qed.

(* the statement asked for: the checker accepts => never undefined, and the value is in the class *)
Theorem robust_check_sound c m :
  robust_check c m = true ->
  forall rnd, rounding rnd ->
  forall x y, length x = length y -> (1 <= length x)%nat ->
              Forall (in_cls c) x -> Forall (in_cls c) y ->
  metric_rnd rnd m x y <> None
  /\ exists c' r, robust_class c m = Some c' /\ metric_rnd rnd m x y = Some r /\ in_cls c' r.
Proof.
  unfold robust_check. destruct (robust_class c m) as [c'|] eqn:E; [|discriminate].
  intros _ rnd RND x y HL H1 HX HY.
  destruct (robust_class_sound c c' m E rnd RND x y) as [r [Er Pr]]; [repeat split; assumption|].
  split; [rewrite Er; discriminate | exists c', r; auto].
Qed.

Theorem robust_check_cnt_sound c m :
  robust_check_cnt c m = true ->
  forall rnd, rounding rnd ->
  forall x y, length x = length y -> (1 <= length x)%nat ->
              Forall (in_cls c) x -> Forall (in_cls c) y ->
  metric_rnd rnd m x y <> None
  /\ exists c' r, robust_class_cnt c m = Some c' /\ metric_rnd rnd m x y = Some r /\ in_cls c' r.
Proof.
  unfold robust_check_cnt. destruct (robust_class_cnt c m) as [c'|] eqn:E; [|discriminate].
  intros _ rnd RND x y HL H1 HX HY.
  destruct (robust_class_cnt_sound c c' m E rnd RND x y) as [r [Er Pr]]; [repeat split; assumption|].
  split; [rewrite Er; discriminate | exists c', r; auto].
Qed.
