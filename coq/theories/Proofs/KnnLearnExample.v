(* Non-vacuity of the whole-fit theorems of KnnLearnMain.v: the three rational training samples of
   KnnPipelineExample.v (labels 0, 0, 1; FLOAT_MAX read as 10), two validation rows that are copies of the
   training rows 0 and 2 with their labels, candidates k = 1, 2.  The run itself cannot be computed over R;
   the example shows that the hypotheses are satisfiable and instantiates the theorems. *)
From Coq Require Import Reals List Arith Bool ZArith Lia Lra Permutation.
From OPF Require Import Base.Lists Base.NumOps Model.Heap Model.Knn Model.Pdf Model.KnnFit Model.KnnLearn
  Spec.Paths Spec.Trees Proofs.PdfBase Proofs.KnnPipeline Proofs.KnnPipelineMain Proofs.KnnPipelineExample
  Proofs.KnnLearnFrame Proofs.KnnLearnStages Proofs.KnnLearnLoop Proofs.KnnLearnMain.
Import ListNotations.
Local Open Scope R_scope.

(* validation rows: distances of the training rows 0 and 2 to every training row; labels 0 and 1 *)
Definition exf_dq : list (nat -> R) := [exr_d 0%nat; exr_d 2%nat].
Definition exf_vlabels : list nat := [0; 1]%nat.
(* the same stand-in for exp(-d/constant) at every candidate *)
Definition exf_ep (c : nat) : nat -> nat -> R := exr_e.
Definition exf_eq (c v : nat) : nat -> R := exr_e (nth v [0; 2]%nat 0%nat).

Example exf_premises :
  length exr_labels = 3%nat /\ length exf_vlabels = length exf_dq /\ 0 < 10 /\ INR 3 < 10 /\
  (forall i j, (i < 3)%nat -> (j < 3)%nat -> i <> j -> 0 <= exr_d i j < 10) /\
  (1 <= 1 <= 2)%nat /\ (2 <= 3 - 1)%nat.
Proof.
  destruct exr_premises as (P0 & _ & P1 & _ & P3 & _).
  split; [exact P0|]. split; [reflexivity|]. split; [exact P1|]. split; [cbn [INR]; lra|].
  split; [exact P3|]. split; lia.
Qed.

Example exf_sup :
  exists (accs : list R) (best : nat) (g : @knn R) (c mn mx : R) (pre ord : list nat),
    knn_sup_fit_core ROps 10 (1/100000) 1 (1/100000000) 1000 exr_d exf_dq exf_vlabels exf_ep exf_eq exr_labels 2 exr_e
    = (accs, best, g, (c, mn, mx)) /\
    length accs = 2%nat /\ (1 <= best <= 2)%nat /\
    knn_select Rltb 0 accs = Some best /\
    (forall k, (1 <= k <= 2)%nat -> 0 <= nth (k - 1) accs 0 <= nth (best - 1) accs 0) /\
    (forall k, (1 <= k < best)%nat -> nth (k - 1) accs 0 < nth (best - 1) accs 0) /\
    k_order g = pre ++ ord /\ Permutation ord [0; 1; 2]%nat /\
    (forall q, (q < 3)%nat -> nth q (k_plabel g) 0%nat = nth q exr_labels 0%nat) /\
    (forall q, (q < 3)%nat -> 1 <= nth q (k_dens g) 0 <= 1000).
Proof.
  destruct exf_premises as (_ & P1 & P2 & _ & P4 & _ & _).
  destruct (knn_sup_fit_core ROps 10 (1/100000) 1 (1/100000000) 1000 exr_d exf_dq exf_vlabels exf_ep exf_eq exr_labels 2 exr_e)
    as [[[accs best] g] [[c mn] mx]] eqn:H.
  destruct (knn_sup_fit_selects 10 (1/100000) 1 (1/100000000) exr_d exf_dq exf_vlabels exf_ep exf_eq exr_labels 2 exr_e
              P2 P4 P1 ltac:(lia) accs best g (c, mn, mx) H) as (S1 & S2 & S3 & S4 & S5 & S6 & _).
  destruct (knn_sup_fit_forest 10 (1/100000) 1 (1/100000000) exr_d exf_dq exf_vlabels exf_ep exf_eq exr_labels 2 exr_e
              P2 P4 P1 ltac:(lia) accs best g c mn mx H) as (pre & ord & O1 & T).
  unfold sup_forest_clauses in T. cbv zeta in T. change (length exr_labels) with 3%nat in T.
  destruct T as (_ & T2 & T3 & _ & _ & _ & T7).
  exists accs, best, g, c, mn, mx, pre, ord.
  split; [reflexivity|]. split; [exact S1|]. split; [exact S3|]. split; [exact S2|].
  split; [intros k Hk; split; [apply (S4 k Hk)|apply (S5 k Hk)]|].
  split; [exact S6|]. split; [exact O1|]. split; [exact T2|]. split; [exact T7|exact T3].
Qed.

Example exf_unsup :
  exists (cuts : list R) (best : nat) (g : @knn R) (c mn mx : R) (pre ord : list nat),
    unsup_fit ROps 10 (1/100000) 1 1000 exr_d exf_ep exr_labels 1 2 exr_e = Some (cuts, best, g, (c, mn, mx)) /\
    (1 <= length cuts <= 2)%nat /\ (1 <= best < 1 + length cuts)%nat /\
    cut_select Rltb 0 10 1 cuts = (Some best, length cuts) /\
    (forall k, (1 <= k < 1 + length cuts)%nat -> 0 <= nth (best - 1) cuts 0 <= nth (k - 1) cuts 0) /\
    (length cuts = 2%nat \/ nth (length cuts - 1) cuts 0 = 0) /\
    k_order g = pre ++ ord /\ Permutation ord [0; 1; 2]%nat /\
    (1 <= k_nclusters g <= 3)%nat /\
    (forall q, (q < 3)%nat -> (nth q (k_clabel g) 0 < k_nclusters g)%nat).
Proof.
  destruct exf_premises as (_ & _ & P2 & P3 & P4 & P5 & P6).
  destruct (unsup_fit_selects 10 (1/100000) 1 exr_d exf_ep exr_labels 1 2 exr_e P2 P3 P4 P5 P6)
    as (cuts & best & g & [[c mn] mx] & Hfit & H). cbv zeta in H.
  destruct H as (S1 & S2 & S3 & _ & S5 & S6 & S7 & _ & _).
  destruct (unsup_fit_forest 10 (1/100000) 1 exr_d exf_ep exr_labels 1 2 exr_e P2 P3 P4 P5 P6)
    as (cuts' & best' & g' & c' & mn' & mx' & pre & ord & Hfit' & _ & O1 & T).
  rewrite Hfit in Hfit'. injection Hfit' as <- <- <- <- <- <-.
  unfold unsup_forest_clauses in T. cbv zeta in T. change (length exr_labels) with 3%nat in T.
  destruct T as (_ & T2 & _ & _ & _ & _ & T7 & _ & _ & _ & _ & _ & T13).
  exists cuts, best, g, c, mn, mx, pre, ord.
  split; [exact Hfit|]. split; [lia|]. split; [exact S6|]. split; [exact S1|].
  split; [intros k Hk; split; [apply (S3 best); lia|apply (S7 k Hk)]|].
  split; [destruct S5 as [S5|S5]; [left; lia|right; replace (1 + length cuts - 1 - 1)%nat with (length cuts - 1)%nat in S5 by lia; exact S5]|].
  split; [exact O1|]. split; [exact T2|]. split; [|exact T13].
  pose proof (T13 0%nat ltac:(lia)) as H0. split; [lia|].
  rewrite T7.
  pose proof (filter_length_bound (fun q => match nth q (k_pred g) None with None => true | Some _ => false end) (seq 0 3)) as Hle.
  rewrite seq_length in Hle. exact Hle.
Qed.
