(* C08: the five metrics that do not claim symmetry are indeed asymmetric on their domain. *)
From Coq Require Import Reals List Lra Lia.
From Interval Require Import Tactic.
From OPF Require Import Spec.MetricSpec Proofs.MetricLemmas.
Import ListNotations.
Open Scope R_scope.

(* ------------------------------------------------------------------ *)
(* the five asymmetric ones: concrete witnesses inside their domain     *)
(* ------------------------------------------------------------------ *)
Ltac pos_list := repeat (constructor; try lra).

Lemma not_sym_neyman : exists x y, length x = length y /\ all_pos x /\ all_pos y /\ sp_neyman x y <> sp_neyman y x.
Proof.
  exists [1], [2]. repeat split; try pos_list.
  unfold sp_neyman. rewrite !sum2_cons, !sum2_nil. lra.
Qed.

Lemma not_sym_pearson : exists x y, length x = length y /\ all_pos x /\ all_pos y /\ sp_pearson x y <> sp_pearson y x.
Proof.
  exists [1], [2]. repeat split; try pos_list.
  unfold sp_pearson. rewrite !sum2_cons, !sum2_nil. lra.
Qed.

Lemma not_sym_statistic : exists x y, length x = length y /\ all_pos x /\ all_pos y /\ sp_statistic x y <> sp_statistic y x.
Proof.
  exists [1], [3]. repeat split; try pos_list.
  unfold sp_statistic. rewrite !sum2_cons, !sum2_nil. lra.
Qed.

Lemma not_sym_kullback_leibler : exists x y, length x = length y /\ all_pos x /\ all_pos y /\ sum x = 1 /\ sum y = 1 /\ sp_kullback_leibler x y <> sp_kullback_leibler y x.
Proof.
  exists [/4; 3/4], [/2; /2]. repeat split; try pos_list.
  - rewrite !sum_cons, sum_nil; lra.
  - rewrite !sum_cons, sum_nil; lra.
  - unfold sp_kullback_leibler. rewrite !sum2_cons, !sum2_nil. interval.
Qed.

Lemma not_sym_k_divergence : exists x y, length x = length y /\ all_pos x /\ all_pos y /\ sum x = 1 /\ sum y = 1 /\ sp_k_divergence x y <> sp_k_divergence y x.
Proof.
  exists [/4; 3/4], [/2; /2]. repeat split; try pos_list.
  - rewrite !sum_cons, sum_nil; lra.
  - rewrite !sum_cons, sum_nil; lra.
  - unfold sp_k_divergence. rewrite !sum2_cons, !sum2_nil. interval.
Qed.
