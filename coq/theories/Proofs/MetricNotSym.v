(* C08: the five metrics that do not claim symmetry are indeed asymmetric on their domain. *)
From Coq Require Import Reals List Lra Lia.
From OPF Require Import Spec.MetricSpec Proofs.MetricLemmas.
Import ListNotations.
Open Scope R_scope.

(* ------------------------------------------------------------------ *)
(* the five asymmetric ones: concrete witnesses inside their domain     *)
(* ------------------------------------------------------------------ *)
Ltac pos_list := repeat (constructor; try lra).

Lemma not_sym_neyman : exists x y, length x = length y /\ all_pos x /\ all_pos y /\ sp_neyman x y <> sp_neyman y x.
Proof.
  exists [1], [2]. repeat split; try pos_list.
  unfold sp_neyman. rewrite !sum2_cons, !sum2_nil. lra.
Qed.

Lemma not_sym_pearson : exists x y, length x = length y /\ all_pos x /\ all_pos y /\ sp_pearson x y <> sp_pearson y x.
Proof.
  exists [1], [2]. repeat split; try pos_list.
  unfold sp_pearson. rewrite !sum2_cons, !sum2_nil. lra.
Qed.

Lemma not_sym_statistic : exists x y, length x = length y /\ all_pos x /\ all_pos y /\ sp_statistic x y <> sp_statistic y x.
Proof.
  exists [1], [3]. repeat split; try pos_list.
  unfold sp_statistic. rewrite !sum2_cons, !sum2_nil. lra.
Qed.

(* numeric facts about ln 2, ln 3, ln 5 obtained from monotonicity of ln on integers
   (no floating-point tactic, so no extra axioms) *)
Lemma ln_243_256 : 5 * ln 3 < 8 * ln 2.
Proof.
  assert (H : ln (3 * 3 * 3 * 3 * 3) < ln (2 * 2 * 2 * 2 * 2 * 2 * 2 * 2))
    by (apply ln_increasing; lra).
  rewrite !ln_mult in H by lra. lra.
Qed.

Lemma ln_80_81 : 4 * ln 2 + ln 5 < 4 * ln 3.
Proof.
  assert (H : ln (2 * 2 * 2 * 2 * 5) < ln (3 * 3 * 3 * 3))
    by (apply ln_increasing; lra).
  rewrite !ln_mult in H by lra. lra.
Qed.

Lemma ln_4 : ln 4 = 2 * ln 2.
Proof. replace 4 with (2 * 2) by ring. rewrite ln_mult by lra. ring. Qed.

Lemma ln_6 : ln 6 = ln 2 + ln 3.
Proof. replace 6 with (2 * 3) by ring. now rewrite ln_mult by lra. Qed.

Lemma not_sym_kullback_leibler : exists x y, length x = length y /\ all_pos x /\ all_pos y /\ sum x = 1 /\ sum y = 1 /\ sp_kullback_leibler x y <> sp_kullback_leibler y x.
Proof.
  exists [/4; 3/4], [/2; /2]. repeat split; try pos_list.
  - rewrite !sum_cons, sum_nil; lra.
  - rewrite !sum_cons, sum_nil; lra.
  - unfold sp_kullback_leibler. rewrite !sum2_cons, !sum2_nil.
    replace (/4 / /2) with (/2) by field.
    replace (3/4 / /2) with (3/2) by field.
    replace (/2 / /4) with 2 by field.
    replace (/2 / (3/4)) with (2/3) by field.
    rewrite ln_Rinv, !ln_quot by lra.
    pose proof ln_243_256. lra.
Qed.

Lemma not_sym_k_divergence : exists x y, length x = length y /\ all_pos x /\ all_pos y /\ sum x = 1 /\ sum y = 1 /\ sp_k_divergence x y <> sp_k_divergence y x.
Proof.
  exists [/4; 3/4], [/2; /2]. repeat split; try pos_list.
  - rewrite !sum_cons, sum_nil; lra.
  - rewrite !sum_cons, sum_nil; lra.
  - unfold sp_k_divergence. rewrite !sum2_cons, !sum2_nil.
    replace (2 * /4 / (/4 + /2)) with (2/3) by field.
    replace (2 * (3/4) / (3/4 + /2)) with (6/5) by field.
    replace (2 * /2 / (/2 + /4)) with (4/3) by field.
    replace (2 * /2 / (/2 + 3/4)) with (4/5) by field.
    rewrite !ln_quot, ln_4, ln_6 by lra.
    pose proof ln_80_81. lra.
Qed.
