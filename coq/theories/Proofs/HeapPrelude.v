(* Standard-library vocabulary needed to state the heap theorems (Props/C05.v imports
   only OPF modules). *)
From Coq Require Export List ZArith Permutation.
Export ListNotations.
