(* Every finite set of elements of a strict total order embeds order-isomorphically into Z.

   For a list [vals : list W] the rank [rk a] of [a] is the number of entries of [vals] strictly
   below [a].  On all of [W] the rank is monotone; on the members of [vals] it is strictly
   monotone, hence reflects the order and is injective (this is where totality is used), and it
   commutes with maximum and minimum.  The relation

       rank_rel a z  :=  In a vals /\ z = rk a

   therefore satisfies the compatibility hypothesis of the abstraction theorems of
   ParamSup.v / ParamKnn.v between [(W, ltb)] and [(Z, Z.ltb)].  This is the theorem behind the
   "dense rank encoding" used by the test harness (DESIGN.md 3.1). *)
From Coq Require Import List Arith Bool ZArith Lia.
From OPF Require Import Base.TotalOrder.
Import ListNotations.

Section Rank.
  Context {W : Type} (ltb : W -> W -> bool).
  Hypothesis O : strict_total_order ltb.

  (* number of entries of [l] strictly below [a] *)
  Definition cnt (l : list W) (a : W) : nat := length (filter (fun v => ltb v a) l).

  Lemma cnt_cons x l a : cnt (x :: l) a = (if ltb x a then S (cnt l a) else cnt l a).
  Proof. unfold cnt. cbn [filter]. now destruct (ltb x a). Qed.

  Lemma cnt_mono l a b : ltb a b = true -> cnt l a <= cnt l b.
  Proof.
    intros Hab. induction l as [|x l IH]; [apply Nat.le_refl|].
    rewrite !cnt_cons. destruct (ltb x a) eqn:Exa.
    - rewrite (so_trans ltb O x a b Exa Hab). lia.
    - destruct (ltb x b); lia.
  Qed.

  Lemma cnt_strict l a b : ltb a b = true -> In a l -> cnt l a < cnt l b.
  Proof.
    intros Hab. induction l as [|x l IH]; intros Hin; [destruct Hin|].
    rewrite !cnt_cons. destruct Hin as [->|Hin].
    - rewrite (so_irrefl ltb O a), Hab. pose proof (cnt_mono l a b Hab). lia.
    - specialize (IH Hin). destruct (ltb x a) eqn:Exa.
      + rewrite (so_trans ltb O x a b Exa Hab). lia.
      + destruct (ltb x b); lia.
  Qed.

  Lemma cnt_le_length l a : cnt l a <= length l.
  Proof.
    induction l as [|x l IH]; [apply Nat.le_refl|]. rewrite cnt_cons. cbn [length].
    destruct (ltb x a); lia.
  Qed.

  Variable vals : list W.

  Definition rk (a : W) : Z := Z.of_nat (cnt vals a).

  Lemma rk_nonneg a : (0 <= rk a)%Z.
  Proof. unfold rk. lia. Qed.

  Lemma rk_bound a : (rk a <= Z.of_nat (length vals))%Z.
  Proof. unfold rk. pose proof (cnt_le_length vals a). lia. Qed.

  (* monotone everywhere *)
  Lemma rk_mono a b : ltb a b = true -> (rk a <= rk b)%Z.
  Proof. intros H. unfold rk. pose proof (cnt_mono vals a b H). lia. Qed.

  (* strictly monotone at the members of [vals] *)
  Lemma rk_lt a b : In a vals -> ltb a b = true -> (rk a < rk b)%Z.
  Proof. intros Ha H. unfold rk. pose proof (cnt_strict vals a b H Ha). lia. Qed.

  (* the embedding: on [vals] the two comparisons agree *)
  Theorem rk_ltb a b : In a vals -> In b vals -> Z.ltb (rk a) (rk b) = ltb a b.
  Proof.
    intros Ha Hb. destruct (so_trichotomy ltb O a b) as [H|[<-|H]].
    - rewrite H. apply Z.ltb_lt. now apply rk_lt.
    - rewrite (so_irrefl ltb O). apply Z.ltb_irrefl.
    - rewrite (so_asym ltb O b a H). apply Z.ltb_ge. apply Z.lt_le_incl. now apply rk_lt.
  Qed.

  Lemma rk_lt_iff a b : In a vals -> In b vals -> ((rk a < rk b)%Z <-> ltb a b = true).
  Proof. intros Ha Hb. rewrite <- (rk_ltb a b Ha Hb). symmetry. apply Z.ltb_lt. Qed.

  Lemma rk_le_iff a b : In a vals -> In b vals -> ((rk a <= rk b)%Z <-> ltb b a = false).
  Proof. intros Ha Hb. rewrite <- (rk_ltb b a Hb Ha). symmetry. apply Z.ltb_ge. Qed.

  Lemma rk_inj a b : In a vals -> In b vals -> rk a = rk b -> a = b.
  Proof.
    intros Ha Hb E. apply (so_total ltb O).
    - apply (rk_le_iff b a Hb Ha). lia.
    - apply (rk_le_iff a b Ha Hb). lia.
  Qed.

  Lemma omax_in a b : In a vals -> In b vals -> In (omax ltb a b) vals.
  Proof. intros Ha Hb. destruct (omax_case ltb a b) as [-> | ->]; assumption. Qed.

  Lemma omin_in a b : In a vals -> In b vals -> In (omin ltb a b) vals.
  Proof. intros Ha Hb. destruct (omin_case ltb a b) as [-> | ->]; assumption. Qed.

  Lemma rk_omax a b : In a vals -> In b vals -> rk (omax ltb a b) = Z.max (rk a) (rk b).
  Proof.
    intros Ha Hb. unfold omax. destruct (ltb a b) eqn:E.
    - apply (rk_lt_iff a b Ha Hb) in E. lia.
    - apply (rk_le_iff b a Hb Ha) in E. lia.
  Qed.

  Lemma rk_omin a b : In a vals -> In b vals -> rk (omin ltb a b) = Z.min (rk a) (rk b).
  Proof.
    intros Ha Hb. unfold omin. destruct (ltb b a) eqn:E.
    - apply (rk_lt_iff b a Hb Ha) in E. lia.
    - apply (rk_le_iff a b Ha Hb) in E. lia.
  Qed.

  (* ---------- the relation fed to the abstraction theorems ---------- *)

  Definition rank_rel (a : W) (z : Z) : Prop := In a vals /\ z = rk a.

  Theorem rank_rel_compat a z :
    rank_rel a z -> forall a' z', rank_rel a' z' -> ltb a a' = Z.ltb z z'.
  Proof. intros [Ha ->] a' z' [Ha' ->]. symmetry. now apply rk_ltb. Qed.

  (* the form used by Proofs/Rescale.v *)
  Lemma rk_mono_on a b : In a vals -> In b vals -> Z.ltb (rk a) (rk b) = ltb a b.
  Proof. exact (rk_ltb a b). Qed.

  (* lists related by [rank_rel]: members of [vals], mapped by [rk] *)
  Lemma Forall2_rank_rel l lz :
    Forall2 rank_rel l lz <-> (Forall (fun a => In a vals) l /\ lz = map rk l).
  Proof.
    split.
    - intros H. induction H as [|a z l lz [Ha ->] _ [IH1 ->]]; [split; [constructor|reflexivity]|].
      split; [constructor; assumption | reflexivity].
    - intros [H ->]. induction H as [|a l Ha _ IH]; cbn [map]; constructor; [now split | exact IH].
  Qed.

  Lemma Forall_in_nth l i d :
    Forall (fun a => In a vals) l -> In d vals -> In (nth i l d) vals.
  Proof.
    intros H Hd. revert i. induction H as [|a l Ha _ IH]; intros [|i]; cbn [nth]; auto.
  Qed.
End Rank.

(* ---------- the existence statement, free of the construction ---------- *)

Theorem finite_order_embedding {W} (ltb : W -> W -> bool) :
  strict_total_order ltb ->
  forall vals : list W, exists f : W -> Z,
    (forall a b, In a vals -> In b vals -> Z.ltb (f a) (f b) = ltb a b) /\
    (forall a b, In a vals -> In b vals -> f a = f b -> a = b) /\
    (forall a b, ltb a b = true -> (f a <= f b)%Z) /\
    (forall a, (0 <= f a <= Z.of_nat (length vals))%Z).
Proof.
  intros O vals. exists (rk ltb vals). repeat split.
  - apply rk_ltb; assumption.
  - apply rk_inj; assumption.
  - apply rk_mono; assumption.
  - apply rk_nonneg.
  - apply rk_bound.
Qed.
