(* Non-vacuity of the C13 theorems: a 5-node instance (k = 2) with a density plateau.
   Nodes 0 and 1 have the same density 5 and are mutual neighbours (no insertion happens
   for them); nodes 4 and 2 have the same density 3, node 2 is a neighbour of node 4 but
   not conversely, so the plateau step inserts 4 into the list of 2 (once in the
   KNN-supervised flavour, twice - with n_plateaus = 2 - in the unsupervised flavour).
   The hypotheses hold, both routines are computed by [vm_compute], the theorems are
   instantiated. *)
From Coq Require Import List Arith ZArith Lia Permutation.
From OPF Require Import Base.Lists Model.Heap Model.Knn Spec.Paths Spec.Trees Proofs.ClusterMain.
Import ListNotations.
Open Scope nat_scope.

Definition ex_g : @knn Z :=
  mkKnn [0; 0; 1; 1; 1] [[1; 2]; [0; 2]; [1; 0]; [4; 2]; [3; 2]] [0; 0; 0; 0; 0]%Z [0; 0; 0; 0; 0]
        [5; 5; 3; 4; 3]%Z [4; 4; 2; 3; 2]%Z [None; None; None; None; None]
        [0; 0; 0; 0; 0] [0; 0; 0; 0; 0] [0; 0; 0; 0; 0] [] 0%Z 0.

Definition ex_sup (force : bool) : @knn Z := clustering_sup Z.ltb 0%Z 1000%Z (-1000)%Z force ex_g.
Definition ex_unsup : @knn Z := clustering_unsup Z.ltb 0%Z 1000%Z (-1000)%Z 2 ex_g.

(* the plateau steps *)
Example ex_sup_adj : k_adj (ex_sup false) = [[1; 2]; [0; 2]; [4; 1; 0]; [4; 2]; [3; 2]].
Proof. vm_compute. reflexivity. Qed.
Example ex_unsup_adj :
  k_adj ex_unsup = [[1; 2]; [0; 2]; [4; 4; 1; 0]; [4; 2]; [3; 2]] /\ k_nplat ex_unsup = [0; 0; 2; 0; 0].
Proof. vm_compute. split; reflexivity. Qed.

(* KNN-supervised, force_prototype = False: node 2 (label 1) joins the tree of node 0 (label 0) *)
Example ex_sup_false :
  k_pred (ex_sup false) = [None; Some 0; Some 0; None; Some 3] /\
  k_root (ex_sup false) = [0; 0; 0; 3; 3] /\
  k_cost (ex_sup false) = [5; 5; 3; 4; 3]%Z /\
  k_plabel (ex_sup false) = [0; 0; 0; 1; 1] /\
  k_order (ex_sup false) = [0; 1; 3; 2; 4].
Proof. vm_compute. repeat split; reflexivity. Qed.

(* force_prototype = True: the cross-label offer 0 -> 2 is refused, every label is the own one *)
Example ex_sup_true :
  k_pred (ex_sup true) = [None; Some 0; Some 3; None; Some 3] /\
  k_root (ex_sup true) = [0; 0; 3; 3; 3] /\
  k_cost (ex_sup true) = [5; 5; 3; 4; 3]%Z /\
  k_plabel (ex_sup true) = k_label ex_g /\
  k_order (ex_sup true) = [0; 1; 3; 4; 2].
Proof. vm_compute. repeat split; reflexivity. Qed.

Example ex_unsup_result :
  k_pred ex_unsup = [None; Some 0; Some 0; None; Some 3] /\
  k_root ex_unsup = [0; 0; 0; 3; 3] /\
  k_cost ex_unsup = [5; 5; 3; 4; 3]%Z /\
  k_clabel ex_unsup = [0; 0; 0; 1; 1] /\
  k_order ex_unsup = [0; 1; 3; 2; 4] /\
  k_nclusters ex_unsup = 2 /\
  k_plabel (propagate_labels ex_unsup) = [0; 0; 0; 1; 1].
Proof. vm_compute. repeat split; reflexivity. Qed.

(* the hypotheses of the theorems hold for the instance *)
Lemma ex_adj : forall p q, In q (nth p (k_adj ex_g) []) -> q < 5.
Proof.
  intros p q H.
  destruct p as [|[|[|[|[|p]]]]]; cbn in H; try (destruct p; contradiction); intuition lia.
Qed.

Lemma ex_c0 : forall i, i < 5 -> (nth i (k_cost ex_g) 0 < nth i (k_dens ex_g) 0)%Z.
Proof. intros i Hi. destruct i as [|[|[|[|[|i]]]]]; cbn; lia. Qed.

Lemma ex_bot : forall force, force = true ->
  forall i, i < 5 -> (-1000 < nth i (k_cost ex_g) 0)%Z.
Proof. intros _ _ i Hi. destruct i as [|[|[|[|[|i]]]]]; cbn; lia. Qed.

Lemma ex_arith : forall q, q < 5 -> nth q (k_cost ex_g) 0%Z = (nth q (k_dens ex_g) 0 - 1)%Z.
Proof. intros i Hi. destruct i as [|[|[|[|[|i]]]]]; cbn; lia. Qed.

(* the theorems apply *)
Example ex_forest_sup : forall force q, q < 5 ->
  let pred := fun q => nth q (k_pred (ex_sup force)) None in
  exists r j, j < 5 /\ r < 5 /\ reaches pred q r j /\ pred r = None /\
    (forall r', root_of pred q r' -> r' = r) /\
    nth q (k_root (ex_sup force)) 0 = r /\
    (nth q (k_cost (ex_sup force)) 0 <= nth r (k_cost (ex_sup force)) 0)%Z /\
    nth r (k_cost (ex_sup force)) 0%Z = nth r (k_dens ex_g) 0%Z /\
    nth q (k_plabel (ex_sup force)) 0 = nth r (k_label ex_g) 0.
Proof.
  intros force q Hq pred.
  destruct (clustering_sup_forest 0%Z 1000%Z (-1000)%Z force ex_g 5 eq_refl eq_refl eq_refl
              eq_refl eq_refl eq_refl ex_adj ex_c0 (ex_bot force) q Hq)
    as (r & j & A & B & C & D & E & F & G & H & _ & I & J & _).
  exists r, j. repeat (split; [assumption|]). exact (eq_trans I J).
Qed.

Example ex_labels_own : forall q, q < 5 ->
  nth q (k_plabel (ex_sup true)) 0 = nth q (k_label ex_g) 0.
Proof.
  exact (knn_train_labels_own 0%Z 1000%Z (-1000)%Z true ex_g 5 eq_refl eq_refl eq_refl
           eq_refl eq_refl eq_refl ex_adj ex_c0 (ex_bot true) eq_refl).
Qed.

Example ex_gap_unsup : forall q, q < 5 ->
  (nth q (k_dens ex_g) 0 < nth (nth q (k_root ex_unsup) 0%nat) (k_dens ex_g) 0 + 1)%Z.
Proof.
  exact (clustering_unsup_density_gap 0%Z 1000%Z (-1000)%Z 2 ex_g 5 eq_refl eq_refl eq_refl
           eq_refl eq_refl eq_refl ex_adj ex_c0 ex_arith).
Qed.

Example ex_propagate : forall q, q < 5 ->
  exists r, r < 5 /\ root_of (fun q => nth q (k_pred ex_unsup) None) q r /\
    (forall r', root_of (fun q => nth q (k_pred ex_unsup) None) q r' -> r' = r) /\
    nth q (k_plabel (propagate_labels ex_unsup)) 0 = nth r (k_label ex_g) 0.
Proof.
  exact (propagate_labels_root 0%Z 1000%Z (-1000)%Z 2 ex_g 5 eq_refl eq_refl eq_refl
           eq_refl eq_refl eq_refl ex_adj ex_c0).
Qed.
