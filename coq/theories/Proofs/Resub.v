(* C04, supervised half: [sup_fit] on tie-free data with at least two classes satisfies
   [opf_facts] (C01 + C02), hence assigns every training sample its own label and predicts
   the training set exactly. *)
From Coq Require Import List Arith Bool ZArith Lia Permutation.
From OPF Require Import Base.Lists Model.Heap Model.Sup Spec.Paths Spec.Trees
  Proofs.PrimLists Proofs.PrimMain Proofs.Fit Proofs.FitSup Proofs.Predict Proofs.ResubBase.
Import ListNotations.
Open Scope nat_scope.

Section SupFacts.
  Variables (zero top : Z) (n : nat) (w : nat -> nat -> Z) (labels : list nat).
  Hypothesis Hlen : length labels = n.
  Hypothesis Htf : tie_free n w zero top.
  Hypothesis H2 : two_classes n (fun q => nth q labels 0).

  Let fp := find_prototypes Z.ltb top n w (nodes_init zero labels).
  Let nd := sup_fit Z.ltb zero top labels w.

  Lemma tf_n2 : 2 <= n.
  Proof.
    destruct H2 as (a & b & Ha & Hb & Hab).
    assert (a <> b) by (intros ->; apply Hab; reflexivity). lia.
  Qed.

  Lemma tf_zero_top : (zero < top)%Z.
  Proof.
    destruct H2 as (a & b & Ha & Hb & Hab).
    assert (Hne : a <> b) by (intros ->; apply Hab; reflexivity).
    destruct Htf as (_ & _ & Hr). pose proof (Hr a b Ha Hb Hne). lia.
  Qed.

  Lemma tf_below : forall p q, p < n -> q < n -> p <> q -> (w p q < top)%Z.
  Proof. intros p q Hp Hq Hne. destruct Htf as (_ & _ & Hr). apply Hr; assumption. Qed.

  Lemma tf_range : forall p q, p < n -> q < n -> p <> q -> (zero <= w p q < top)%Z.
  Proof.
    intros p q Hp Hq Hne. destruct Htf as (_ & _ & Hr). pose proof (Hr p q Hp Hq Hne). lia.
  Qed.

  Lemma sup_has_proto : exists s, s < n /\ nth s (n_status fp) false = true.
  Proof.
    pose proof tf_n2. apply init_prototypes_nonempty; [lia|exact Hlen|exact tf_below|exact H2].
  Qed.

  Lemma sup_status : n_status nd = n_status fp.
  Proof.
    pose proof (sup_fit_opf zero top labels w) as X. cbv zeta in X. rewrite Hlen in X.
    apply (X tf_zero_top tf_range sup_has_proto).
  Qed.

  Lemma sup_lengths :
    length (n_cost nd) = n /\ length (n_pred nd) = n /\ length (n_label nd) = n /\
    length (n_plabel nd) = n.
  Proof.
    pose proof (find_prototypes_shaped Z.ltb top zero labels w) as S. rewrite Hlen in S.
    destruct S as (A & B & C & D & E & G).
    assert (Hnd : nd = compete Z.ltb zero top false n n w fp).
    { unfold nd, sup_fit, fp. rewrite Hlen. reflexivity. }
    rewrite Hnd.
    apply (fit_lengths zero top n w false n _ _ tf_zero_top tf_range
             sup_has_proto _ eq_refl eq_refl A B); [unfold fp; rewrite C; exact Hlen|exact D|exact G].
  Qed.

  Lemma sup_order :
    Permutation (n_order nd) (seq 0 n) /\
    (forall i j, i < j -> j < n ->
       (nth (nth i (n_order nd) 0%nat) (n_cost nd) zero <= nth (nth j (n_order nd) 0%nat) (n_cost nd) zero)%Z).
  Proof.
    pose proof (sup_fit_opf zero top labels w) as X. cbv zeta in X. rewrite Hlen in X.
    destruct (X tf_zero_top tf_range sup_has_proto) as (X1 & X2 & _). split; [exact X1|exact X2].
  Qed.

  Theorem sup_fit_facts :
    opf_facts n w zero (fun q => nth q labels 0)
      (fun q => nth q (n_cost nd) zero) (fun q => nth q (n_pred nd) None)
      (fun q => nth q (n_plabel nd) 0) (fun q => nth q (n_status nd) false)
      (fun q => nth q (n_pred fp) None).
  Proof.
    rewrite sup_status. pose proof tf_n2 as Hn2.
    assert (Hn1 : 1 <= n) by lia.
    pose proof tf_below as Hb.
    destruct Htf as (Hsym & Hdist & Hr).
    pose proof (sup_fit_opf zero top labels w) as X. cbv zeta in X. rewrite Hlen in X.
    specialize (X tf_zero_top tf_range sup_has_proto).
    destruct X as (_ & _ & X3 & X4 & X5 & X6 & X7 & _ & _).
    constructor.
    - exact Hsym.
    - exact Hdist.
    - intros p q Hp Hq Hne. apply Hr; assumption.
    - exact X3.
    - intros q Hq Hnp. destruct (X4 q Hq) as (p & A1 & A2 & A3 & A4 & A5 & _).
      { fold fp. rewrite Hnp. discriminate. }
      exists p. auto.
    - intros q Hq. destruct (X5 q Hq) as (r & k & A1 & A2 & A3 & _). exists r, k. auto.
    - exact X6.
    - exact X7.
    - exact (init_prim_tree_connected zero top n w labels Hn1 Hlen Hb).
    - intros u v tp Hu Hv Htp a b Hab.
      exact (init_prim_cycle_optimal zero top n w labels Hn1 Hlen Hb Hsym u v tp Hu Hv Htp a b Hab).
    - exact (init_prototypes_exact zero top n w labels Hn1 Hlen Hb).
  Qed.

  (* C04.1 *)
  Theorem sup_train_labels_own_sec : forall q, q < n -> nth q (n_plabel nd) 0 = nth q labels 0.
  Proof. intros q Hq. exact (labels_own _ _ _ _ _ _ _ _ _ sup_fit_facts q Hq). Qed.

  (* C04.2 *)
  Theorem sup_predict_train_exact_sec (d : nat -> Z) (t : nat) :
    t < n -> d t = zero -> (forall s, s < n -> s <> t -> d s = w s t) ->
    fst (predict_one Z.ltb zero nd d) = nth t labels 0.
  Proof.
    intros Ht Hdt Hd.
    destruct sup_lengths as (Lc & _). destruct sup_order as (O1 & O2).
    pose proof tf_n2 as Hn2.
    pose proof (predict_label_is_argmin zero nd d) as X. cbv zeta in X. rewrite Lc in X.
    destruct (X ltac:(lia) O1 O2) as (ts & Hts & Hfst & _ & Hmin).
    rewrite Hfst. unfold pplabel. unfold pval, pcost in Hmin. rewrite (sup_train_labels_own_sec ts Hts).
    exact (self_query_label _ _ _ _ _ _ _ _ _ sup_fit_facts d t ts Ht Hdt Hd Hts Hmin).
  Qed.
End SupFacts.

Theorem sup_train_labels_own :
  forall (zero top : Z) (n : nat) (w : nat -> nat -> Z) (labels : list nat),
    length labels = n -> tie_free n w zero top ->
    (exists a b, a < n /\ b < n /\ nth a labels 0 <> nth b labels 0) ->
    let nd := sup_fit Z.ltb zero top labels w in
    forall q, q < n -> nth q (n_plabel nd) 0 = nth q labels 0.
Proof. intros zero top n w labels Hl Htf H2 nd. exact (sup_train_labels_own_sec zero top n w labels Hl Htf H2). Qed.

Theorem sup_predict_train_exact :
  forall (zero top : Z) (n : nat) (w : nat -> nat -> Z) (labels : list nat),
    length labels = n -> tie_free n w zero top ->
    (exists a b, a < n /\ b < n /\ nth a labels 0 <> nth b labels 0) ->
    let nd := sup_fit Z.ltb zero top labels w in
    forall (t : nat) (d : nat -> Z), t < n ->
      d t = zero -> (forall s, s < n -> s <> t -> d s = w s t) ->
      fst (predict_one Z.ltb zero nd d) = nth t labels 0.
Proof.
  intros zero top n w labels Hl Htf H2 nd t d.
  exact (sup_predict_train_exact_sec zero top n w labels Hl Htf H2 d t).
Qed.

(* The whole training set as one batch: row t of the distance table is [ds t]. *)
Section Batch.
  Context {W : Type}.
  Variables (ltb : W -> W -> bool) (zero : W).

  (* the scan reads only the costs, the assigned labels and the conquest order *)
  Lemma scan_reads (nd1 nd2 : @nodes W) d n : n_cost nd1 = n_cost nd2 -> n_plabel nd1 = n_plabel nd2 ->
    n_order nd1 = n_order nd2 ->
    forall fuel j mc lab conq,
      scan ltb zero fuel nd1 d n j mc lab conq = scan ltb zero fuel nd2 d n j mc lab conq.
  Proof.
    intros Ec Ep Eo. induction fuel as [|f IH]; intros j mc lab conq; [reflexivity|].
    cbn [scan]. rewrite Ec, Ep, Eo.
    destruct (Nat.ltb j (n - 1) && ltb (nth (nth (j + 1) (n_order nd2) 0) (n_cost nd2) zero) mc);
      [|reflexivity].
    destruct (ltb (wmax ltb (nth (nth (j + 1) (n_order nd2) 0) (n_cost nd2) zero)
                     (d (nth (j + 1) (n_order nd2) 0))) mc); apply IH.
  Qed.

  Lemma predict_one_reads (nd1 nd2 : @nodes W) d : n_cost nd1 = n_cost nd2 ->
    n_plabel nd1 = n_plabel nd2 -> n_order nd1 = n_order nd2 ->
    predict_one ltb zero nd1 d = predict_one ltb zero nd2 d.
  Proof.
    intros Ec Ep Eo. unfold predict_one. rewrite (scan_reads nd1 nd2 d _ Ec Ep Eo).
    rewrite Ec, Ep, Eo. reflexivity.
  Qed.

  Lemma predict_batch_map (nd : @nodes W) ds :
    snd (predict_batch ltb zero nd ds) = map (fun d => fst (predict_one ltb zero nd d)) ds.
  Proof.
    unfold predict_batch.
    assert (G : forall ds nd1 out, n_cost nd1 = n_cost nd -> n_plabel nd1 = n_plabel nd ->
                 n_order nd1 = n_order nd ->
                 snd (fold_left (predict_step ltb zero) ds (nd1, out)) =
                 out ++ map (fun d => fst (predict_one ltb zero nd d)) ds).
    { clear ds. induction ds as [|d ds IH]; intros nd1 out Ec Ep Eo.
      - cbn. rewrite app_nil_r. reflexivity.
      - cbn [fold_left map]. unfold predict_step at 2.
        rewrite (predict_one_reads nd1 nd d Ec Ep Eo).
        destruct (predict_one ltb zero nd d) as [lab conq]. cbn [fst].
        rewrite IH by assumption. rewrite <- app_assoc. reflexivity. }
    rewrite (G ds nd [] eq_refl eq_refl eq_refl). reflexivity.
  Qed.
End Batch.

(* distances of training row t to the training set, zero self-distance *)
Definition train_row (zero : Z) (w : nat -> nat -> Z) (t : nat) : nat -> Z :=
  fun s => if Nat.eqb s t then zero else w s t.

Theorem sup_predict_train_batch_exact :
  forall (zero top : Z) (n : nat) (w : nat -> nat -> Z) (labels : list nat),
    length labels = n -> tie_free n w zero top ->
    (exists a b, a < n /\ b < n /\ nth a labels 0 <> nth b labels 0) ->
    let nd := sup_fit Z.ltb zero top labels w in
    snd (predict_batch Z.ltb zero nd (map (train_row zero w) (seq 0 n))) = labels.
Proof.
  intros zero top n w labels Hl Htf H2 nd.
  rewrite predict_batch_map, map_map.
  apply (nth_ext _ _ 0 0).
  - rewrite map_length, seq_length. symmetry; exact Hl.
  - intros t Ht. rewrite map_length, seq_length in Ht.
    rewrite (nth_indep _ 0 (fst (predict_one Z.ltb zero nd (train_row zero w 0))))
      by (rewrite map_length, seq_length; exact Ht).
    rewrite (map_nth (fun x => fst (predict_one Z.ltb zero nd (train_row zero w x)))), seq_nth by exact Ht.
    cbn [plus].
    apply (sup_predict_train_exact zero top n w labels Hl Htf H2 t (train_row zero w t) Ht).
    + unfold train_row. rewrite Nat.eqb_refl. reflexivity.
    + intros s _ Hne. unfold train_row. destruct (Nat.eqb_spec s t); [contradiction|reflexivity].
Qed.

(* ------------------------------------------------------------------ *)
(* A single class: [_find_prototypes] marks nothing, and the competition never writes the
   prototype flags, so the trained model has no prototype at all. *)
Section StatusFrame.
  Context {W : Type}.
  Variables (ltb : W -> W -> bool) (zero top : W).

  Lemma seed_step_status st i :
    n_status (snd (seed_step ltb zero top st i)) = n_status (snd st).
  Proof.
    destruct st as [h nd]. unfold seed_step.
    destruct (nth i (n_status nd) false); reflexivity.
  Qed.

  Lemma fit_relax_status semi nl w p st q :
    n_status (snd (fit_relax ltb top semi nl w p st q)) = n_status (snd st).
  Proof.
    destruct st as [h nd]. unfold fit_relax.
    destruct (negb (Nat.eqb p q) && ltb (hcost_at top h p) (hcost_at top h q)); [|reflexivity].
    destruct (ltb (wmax ltb (hcost_at top h p) (w p q)) (hcost_at top h q)); reflexivity.
  Qed.

  Lemma fold_status {A} (f : (A * @nodes W) -> nat -> (A * @nodes W)) l :
    (forall st i, n_status (snd (f st i)) = n_status (snd st)) ->
    forall st, n_status (snd (fold_left f l st)) = n_status (snd st).
  Proof.
    intros Hf. induction l as [|i l IH]; intros st; [reflexivity|].
    cbn [fold_left]. rewrite IH. apply Hf.
  Qed.

  Lemma fit_loop_status semi nl w n : forall fuel h nd,
    n_status (snd (fit_loop ltb top fuel n semi nl w h nd)) = n_status nd.
  Proof.
    induction fuel as [|f IH]; intros h nd; [reflexivity|].
    cbn [fit_loop]. destruct (remove ltb top h) as [h1 [p|]]; [|reflexivity].
    pose proof (fold_status (fit_relax ltb top semi nl w p) (seq 0 n)
                  (fit_relax_status semi nl w p)
                  (h1, mkNodes (upd (n_cost nd) p (hcost_at top h1 p)) (n_pred nd) (n_label nd)
                         (n_plabel nd) (n_status nd) (n_relevant nd) (n_order nd ++ [p]))) as E.
    destruct (fold_left (fit_relax ltb top semi nl w p) (seq 0 n) _) as [h2 nd2].
    cbn [snd n_status] in E. rewrite IH. exact E.
  Qed.

  Lemma compete_status semi nl n w nd :
    n_status (compete ltb zero top semi nl n w nd) = n_status nd.
  Proof.
    unfold compete.
    pose proof (fold_status (seed_step ltb zero top) (seq 0 n) seed_step_status
                  (h_init top n PMin, nd)) as E.
    destruct (fold_left (seed_step ltb zero top) (seq 0 n) (h_init top n PMin, nd)) as [h nd1].
    cbn [snd] in E. rewrite fit_loop_status. exact E.
  Qed.
End StatusFrame.

Theorem sup_single_class_no_prototypes :
  forall (zero top : Z) (n : nat) (w : nat -> nat -> Z) (labels : list nat),
    1 <= n -> length labels = n ->
    (forall p q, p < n -> q < n -> p <> q -> (w p q < top)%Z) ->
    (forall a b, a < n -> b < n -> nth a labels 0 = nth b labels 0) ->
    forall q, q < n -> nth q (n_status (sup_fit Z.ltb zero top labels w)) false = false.
Proof.
  intros zero top n w labels Hn Hlen Hb Hone q Hq.
  unfold sup_fit. rewrite compete_status, Hlen.
  destruct (nth q (n_status (find_prototypes Z.ltb top n w (nodes_init zero labels))) false) eqn:E;
    [exfalso|reflexivity].
  apply (init_prototypes_exact zero top n w labels Hn Hlen Hb q Hq) in E.
  destruct E as (r & _ & Hr & Hne). apply Hne. apply Hone; assumption.
Qed.

(* ------------------------------------------------------------------ *)
(* the lemmas of Proofs/ResubBase.v on the trained model *)

Theorem sup_cost_lt_cross :
  forall (zero top : Z) (n : nat) (w : nat -> nat -> Z) (labels : list nat),
    length labels = n -> tie_free n w zero top ->
    (exists a b, a < n /\ b < n /\ nth a labels 0 <> nth b labels 0) ->
    let nd := sup_fit Z.ltb zero top labels w in
    forall a b, a < n -> b < n -> nth a labels 0 <> nth b labels 0 ->
      (nth b (n_cost nd) zero < w a b)%Z.
Proof.
  intros zero top n w labels Hl Htf H2 nd a b.
  exact (cost_lt_cross _ _ _ _ _ _ _ _ _ (sup_fit_facts zero top n w labels Hl Htf H2) a b).
Qed.

Theorem sup_link_same_label :
  forall (zero top : Z) (n : nat) (w : nat -> nat -> Z) (labels : list nat),
    length labels = n -> tie_free n w zero top ->
    (exists a b, a < n /\ b < n /\ nth a labels 0 <> nth b labels 0) ->
    let nd := sup_fit Z.ltb zero top labels w in
    forall q p, q < n -> nth q (n_pred nd) None = Some p -> nth p labels 0 = nth q labels 0.
Proof.
  intros zero top n w labels Hl Htf H2 nd q p Hq Hp.
  pose proof (sup_fit_facts zero top n w labels Hl Htf H2) as F.
  exact (link_same_label _ _ _ _ _ _ _ _ _ F q p Hq (proto_pred_none _ _ _ _ _ _ _ _ _ F q p Hq Hp) Hp).
Qed.

Theorem sup_equal_cost_same_class :
  forall (zero top : Z) (n : nat) (w : nat -> nat -> Z) (labels : list nat),
    length labels = n -> tie_free n w zero top ->
    (exists a b, a < n /\ b < n /\ nth a labels 0 <> nth b labels 0) ->
    let nd := sup_fit Z.ltb zero top labels w in
    forall s s', s < n -> s' < n ->
      nth s (n_cost nd) zero = nth s' (n_cost nd) zero -> (zero < nth s (n_cost nd) zero)%Z ->
      nth s labels 0 = nth s' labels 0.
Proof.
  intros zero top n w labels Hl Htf H2 nd s s'.
  exact (equal_cost_same_class _ _ _ _ _ _ _ _ _ (sup_fit_facts zero top n w labels Hl Htf H2) s s').
Qed.

Theorem sup_equal_val_same_label :
  forall (zero top : Z) (n : nat) (w : nat -> nat -> Z) (labels : list nat),
    length labels = n -> tie_free n w zero top ->
    (exists a b, a < n /\ b < n /\ nth a labels 0 <> nth b labels 0) ->
    let nd := sup_fit Z.ltb zero top labels w in
    forall d : nat -> Z, generic_query n w zero d ->
      forall s s', s < n -> s' < n ->
        Z.max (nth s (n_cost nd) zero) (d s) = Z.max (nth s' (n_cost nd) zero) (d s') ->
        nth s labels 0 = nth s' labels 0.
Proof.
  intros zero top n w labels Hl Htf H2 nd d Hd s s'.
  exact (equal_val_same_label _ _ _ _ _ _ _ _ _ (sup_fit_facts zero top n w labels Hl Htf H2) d s s' Hd).
Qed.
