(* Non-vacuity: concrete instances (tied weights) on which the hypotheses of the C01 / C15
   theorems hold, with the computed forests. *)
From Coq Require Import List Arith Bool ZArith Lia ZifyBool Permutation.
From OPF Require Import Base.Lists Model.Heap Model.Sup Spec.Paths Proofs.FitBase Proofs.Fit
  Proofs.FitSup Proofs.Semi.
Import ListNotations.
Close Scope Z_scope.

(* boolean check of the weight hypothesis *)
Definition w_ok (zero top : Z) (n : nat) (w : nat -> nat -> Z) : bool :=
  forallb (fun p => forallb (fun q =>
    Nat.eqb p q || (Z.leb zero (w p q) && Z.ltb (w p q) top)) (seq 0 n)) (seq 0 n).

Lemma w_ok_sound zero top n w : w_ok zero top n w = true ->
  forall p q, p < n -> q < n -> p <> q -> (zero <= w p q < top)%Z.
Proof.
  intros H p q Hp Hq Hne. unfold w_ok in H. rewrite forallb_forall in H.
  specialize (H p ltac:(apply in_seq; lia)). rewrite forallb_forall in H.
  specialize (H q ltac:(apply in_seq; lia)).
  destruct (Nat.eqb_spec p q); [contradiction|]. cbn [orb] in H. lia.
Qed.

(* five samples, two classes (0,0,0 / 1,1), symmetric weights with ties *)
Definition ex_labels : list nat := [0; 0; 0; 1; 1].
Definition ex_m : list (list Z) :=
  [[0;2;4;5;5]; [2;0;2;5;5]; [4;2;0;3;4]; [5;5;3;0;2]; [5;5;4;2;0]]%Z.
Definition ex_w (p q : nat) : Z := nth q (nth p ex_m []) 0%Z.

Example ex_prototypes :
  n_status (find_prototypes Z.ltb 1000%Z 5 ex_w (nodes_init 0%Z ex_labels))
  = [false; false; true; true; false].
Proof. vm_compute. reflexivity. Qed.

Example ex_sup_fit :
  sup_fit Z.ltb 0%Z 1000%Z ex_labels ex_w =
  mkNodes [2; 2; 0; 0; 2]%Z [Some 1; Some 2; None; None; Some 3] [0; 0; 0; 1; 1] [0; 0; 0; 1; 1]
          [false; false; true; true; false] [false; false; false; false; false] [2; 3; 1; 4; 0].
Proof. vm_compute. reflexivity. Qed.

(* the premises of [sup_fit_opf] (= Props/C01.v) hold on this instance *)
Example ex_premises :
  (0 < 1000)%Z /\
  (forall p q, p < length ex_labels -> q < length ex_labels -> p <> q ->
     (0 <= ex_w p q < 1000)%Z) /\
  (exists s, s < length ex_labels /\
     nth s (n_status (find_prototypes Z.ltb 1000%Z (length ex_labels) ex_w
                        (nodes_init 0%Z ex_labels))) false = true).
Proof.
  split; [lia|]. split.
  - apply w_ok_sound. vm_compute. reflexivity.
  - exists 2. split; [cbn; lia|]. vm_compute. reflexivity.
Qed.

(* hence its conclusion holds; e.g. the conquest order is a permutation *)
Example ex_conclusion :
  Permutation (n_order (sup_fit Z.ltb 0%Z 1000%Z ex_labels ex_w)) (seq 0 5).
Proof.
  destruct ex_premises as (A & B & C).
  exact (proj1 (sup_fit_opf 0%Z 1000%Z ex_labels ex_w A B C)).
Qed.

(* the same five samples, the last two presented as unlabeled: 3 labeled + 2 unlabeled *)
Definition ex2_labels : list nat := [0; 1; 0].
Definition ex2_m : list (list Z) :=
  [[0;3;2;5;5]; [3;0;3;2;5]; [2;3;0;3;2]; [5;2;3;0;4]; [5;5;2;4;0]]%Z.
Definition ex2_w (p q : nat) : Z := nth q (nth p ex2_m []) 0%Z.

Example ex_semi_fit :
  semi_fit Z.ltb 0%Z 1000%Z ex2_labels 2 ex2_w =
  mkNodes [0; 0; 2; 2; 2]%Z [None; None; Some 0; Some 1; Some 2] [0; 1; 0; 1; 0] [0; 1; 0; 1; 0]
          [true; true; false; false; false] [false; false; false; false; false] [0; 1; 2; 3; 4].
Proof. vm_compute. reflexivity. Qed.

Example ex_semi_premises :
  (0 < 1000)%Z /\
  (forall p q, p < length ex2_labels + 2 -> q < length ex2_labels + 2 -> p <> q ->
     (0 <= ex2_w p q < 1000)%Z) /\
  (exists s, s < length ex2_labels /\
     nth s (n_status (find_prototypes Z.ltb 1000%Z (length ex2_labels) ex2_w
                        (nodes_init 0%Z ex2_labels))) false = true).
Proof.
  split; [lia|]. split.
  - apply w_ok_sound. vm_compute. reflexivity.
  - exists 0. split; [cbn; lia|]. vm_compute. reflexivity.
Qed.

(* Former witness of the defect repaired in /repo (semi-supervised training used to overwrite
   the true label of a labeled sample conquered by a prototype of another class): four points
   (2,1) (2,0) (0,1) (0,0) with labels 0 1 0 0 and squared Euclidean distances.  Sample 3 is
   still conquered by the class-1 prototype 1 (tie 4 = 4), but keeps its label. *)
Definition ex3_labels : list nat := [0; 1; 0; 0].
Definition ex3_m : list (list Z) := [[0;1;4;5]; [1;0;5;4]; [4;5;0;1]; [5;4;1;0]]%Z.
Definition ex3_w (p q : nat) : Z := nth q (nth p ex3_m []) 0%Z.

Example ex3_labels_kept :
  n_plabel (semi_fit Z.ltb 0%Z 1000%Z ex3_labels 0 ex3_w) = [0; 1; 0; 1] /\
  n_label (semi_fit Z.ltb 0%Z 1000%Z ex3_labels 0 ex3_w) = ex3_labels /\
  semi_fit Z.ltb 0%Z 1000%Z ex3_labels 0 ex3_w = sup_fit Z.ltb 0%Z 1000%Z ex3_labels ex3_w.
Proof. vm_compute. repeat split; reflexivity. Qed.
