(* Soundness of the rounding-depth analysis of Model/MetricRdepth.v.

   [rdepth_sound_gen]: if the analysis returns [Some (k, c')] for a metric, vector length [n] and argument class
   [c], then for EVERY rounding satisfying the standard model [rnd_rel u rnd] (0 <= u < 1) and all arguments of
   length [n] >= 1 in class [c]:
     - the evaluation with a rounding after every arithmetic node is defined (no sqrt of a negative, no zero
       divisor).  Only [rnd_rel] is used: it preserves the strict sign and 0; monotonicity is not needed.
       (Under the hypotheses of C08_robust -- [rounding rnd] -- the same definedness is [robust_check_sound].)
     - the computed value is [within u k] of the exact-real value,
     - the exact-real value is in class [c'].
   The proof has the structure of Proofs/RobustSign.v (one lemma per constructor, mutual induction). *)
From Coq Require Import Reals QArith Qreals String List Lra Lia Bool ZArith Arith.
From OPF Require Import Model.Consts Model.Effects Spec.MetricSpec Gen.Consts_gen Model.MetricIR
     Model.MetricRnd Model.MetricRdepth Proofs.IRLemmas Proofs.RobustSign Proofs.RoundingBounds.
Import ListNotations.
Open Scope R_scope.

Lemma nonneg_cls c t : cls_nonneg c = true -> in_cls c t -> 0 <= t.
Proof. destruct c; cbn; try discriminate; intros _ H; lra. Qed.

(* unfolding equations of the exact evaluator *)
Section EqsR.
  Variables (call : string -> list R -> list R -> R) (pe : string -> R).
  Local Notation eS := (evalS call pe).
  Local Notation eV := (evalV call pe).
  Lemma evalS_SSum v x y : eS (SSum v) x y = sum (map2 (fun a b => eV v x y a b) x y).
  Proof. reflexivity. Qed.
  Lemma evalS_SAmax v x y : eS (SAmax v) x y = lmax (map2 (fun a b => eV v x y a b) x y).
  Proof. reflexivity. Qed.
  Lemma evalS_SCountNe p q x y :
    eS (SCountNe p q) x y = sum (map2 (fun a b => if Rneqb (eV p x y a b) (eV q x y a b) then 1 else 0) x y).
  Proof. reflexivity. Qed.
  Lemma evalS_SBin o s1 s2 x y : eS (SBin o s1 s2) x y = binR o (eS s1 x y) (eS s2 x y).
  Proof. reflexivity. Qed.
  Lemma evalS_SUn o s1 x y : eS (SUn o s1) x y = unR o (eS s1 x y).
  Proof. reflexivity. Qed.
  Lemma evalS_SPowC s1 p x y : eS (SPowC s1 p) x y = powR p (eS s1 x y).
  Proof. reflexivity. Qed.
  Lemma evalS_SCall f p q x y :
    eS (SCall f p q) x y = call f (map2 (fun a b => eV p x y a b) x y) (map2 (fun a b => eV q x y a b) x y).
  Proof. reflexivity. Qed.
  Lemma evalV_VConstS s x y a b : eV (VConstS s) x y a b = eS s x y.
  Proof. reflexivity. Qed.
  Lemma evalV_VBin o v1 v2 x y a b : eV (VBin o v1 v2) x y a b = binR o (eV v1 x y a b) (eV v2 x y a b).
  Proof. reflexivity. Qed.
  Lemma evalV_VUn o v1 x y a b : eV (VUn o v1) x y a b = unR o (eV v1 x y a b).
  Proof. reflexivity. Qed.
  Lemma evalV_VPowC v1 p x y a b : eV (VPowC v1 p) x y a b = powR p (eV v1 x y a b).
  Proof. reflexivity. Qed.
End EqsR.

Section EqsD.
  Variables (n : nat) (callk : string -> cls -> option rd).
  Local Notation dS := (rdS n callk).
  Local Notation dV := (rdV n callk).
  Lemma rdS_SSum c v :
    dS c (SSum v) = match dV c v with
                    | Some (k, c') => if cls_nonneg c' then Some ((k + Nat.pred n)%nat, c') else None
                    | None => None end.
  Proof. reflexivity. Qed.
  Lemma rdS_SAmax c v :
    dS c (SAmax v) = match dV c v with
                     | Some (k, c') => if cls_nonneg c' || (k =? 0)%nat then Some (k, c') else None
                     | None => None end.
  Proof. reflexivity. Qed.
  Lemma rdS_SCountNe c a b :
    dS c (SCountNe a b) = match dV c a, dV c b with
                          | Some (ka, _), Some (kb, _) =>
                              if (ka =? 0)%nat && (kb =? 0)%nat then Some (0%nat, NonNeg) else None
                          | _, _ => None end.
  Proof. reflexivity. Qed.
  Lemma rdS_SBin c o s1 s2 : dS c (SBin o s1 s2) = obind2 (dS c s1) (dS c s2) (rd_bin o).
  Proof. reflexivity. Qed.
  Lemma rdS_SUn c o s1 : dS c (SUn o s1) = obind (dS c s1) (rd_un o).
  Proof. reflexivity. Qed.
  Lemma rdS_SPowC c s1 p : dS c (SPowC s1 p) = obind (dS c s1) (rd_pow p).
  Proof. reflexivity. Qed.
  Lemma rdS_SCall c f a b :
    dS c (SCall f a b) = match dV c a, dV c b with
                         | Some (ka, ca), Some (kb, cb) =>
                             if (ka =? 0)%nat && (kb =? 0)%nat then callk f (cls_join ca cb) else None
                         | _, _ => None end.
  Proof. reflexivity. Qed.
  Lemma rdV_VConstS c s : dV c (VConstS s) = dS c s.
  Proof. reflexivity. Qed.
  Lemma rdV_VBin c o v1 v2 : dV c (VBin o v1 v2) = obind2 (dV c v1) (dV c v2) (rd_bin o).
  Proof. reflexivity. Qed.
  Lemma rdV_VUn c o v1 : dV c (VUn o v1) = obind (dV c v1) (rd_un o).
  Proof. reflexivity. Qed.
  Lemma rdV_VPowC c v1 p : dV c (VPowC v1 p) = obind (dV c v1) (rd_pow p).
  Proof. reflexivity. Qed.
End EqsD.

Section Sound.
  Variable u : R.
  Hypothesis U0 : 0 <= u.
  Hypothesis U1 : u < 1.
  Variable rnd : R -> R.
  Hypothesis REL : rnd_rel u rnd.
  Local Notation W := (within u).

  (* the analysis result [p] describes the exact value [t] and the computed option [o] *)
  Definition rd_ok (p : rd) (t : R) (o : option R) : Prop :=
    exists r, o = Some r /\ W (fst p) t r /\ in_cls (snd p) t.

  Lemma rd_ok_intro k c t r : W k t r -> in_cls c t -> rd_ok (k, c) t (Some r).
  Proof. intros H1 H2. exists r. cbn [fst snd]. auto. Qed.

  Local Ltac w0 H := apply (within_0 u) in H; subst.

  (* ---------- operators ---------- *)
  Lemma bin_ok o k1 c1 k2 c2 p a a' b b' :
    rd_bin o (k1, c1) (k2, c2) = Some p ->
    W k1 a a' -> in_cls c1 a -> W k2 b b' -> in_cls c2 b ->
    rd_ok p (binR o a b) (binRnd rnd o a' b').
  Proof.
    intros E Wa Ca Wb Cb. unfold rd_bin in E. destruct o; cbn [binR binRnd].
    - (* add *)
      destruct (cls_nonneg c1 && cls_nonneg c2) eqn:N.
      + injection E as <-. apply andb_prop in N. destruct N as [N1 N2].
        apply rd_ok_intro; [|now apply add_sound].
        apply (within_rnd u U0 U1 rnd REL). apply (within_add_nonneg u U0 U1); try assumption.
        * now apply (nonneg_cls c1).
        * now apply (nonneg_cls c2).
      + destruct ((k1 =? 0)%nat && (k2 =? 0)%nat) eqn:X; [|discriminate]. injection E as <-.
        apply andb_prop in X. destruct X as [X1 X2]. apply Nat.eqb_eq in X1, X2. subst k1 k2. w0 Wa. w0 Wb.
        apply rd_ok_intro; [|now apply add_sound].
        apply (within_rnd u U0 U1 rnd REL). apply within_refl.
    - (* sub *)
      destruct ((k1 =? 0)%nat && (k2 =? 0)%nat) eqn:X; [|discriminate]. injection E as <-.
      apply andb_prop in X. destruct X as [X1 X2]. apply Nat.eqb_eq in X1, X2. subst k1 k2. w0 Wa. w0 Wb.
      apply rd_ok_intro; [|now apply sub_sound].
      apply (within_rnd u U0 U1 rnd REL). apply within_refl.
    - (* mul *)
      injection E as <-. apply rd_ok_intro; [|now apply mul_sound].
      apply (within_rnd u U0 U1 rnd REL). now apply (within_mul u U1).
    - (* div by an exact divisor *)
      destruct (k2 =? 0)%nat eqn:X; [|discriminate]. apply Nat.eqb_eq in X. subst k2. w0 Wb.
      destruct (cls_div c1 c2) as [c|] eqn:D; [|discriminate]. injection E as <-.
      destruct (div_sound _ _ _ _ _ D Ca Cb) as [Hb Hc].
      destruct (Req_EM_T b 0) as [E0|_]; [contradiction|].
      apply rd_ok_intro; [|exact Hc].
      apply (within_rnd u U0 U1 rnd REL). now apply within_div_exact.
    - (* min *)
      destruct ((k1 =? 0)%nat && (k2 =? 0)%nat) eqn:X; [|discriminate]. injection E as <-.
      apply andb_prop in X. destruct X as [X1 X2]. apply Nat.eqb_eq in X1, X2. subst k1 k2. w0 Wa. w0 Wb.
      apply rd_ok_intro; [apply within_refl | now apply min_sound].
    - (* max *)
      destruct ((k1 =? 0)%nat && (k2 =? 0)%nat) eqn:X; [|discriminate]. injection E as <-.
      apply andb_prop in X. destruct X as [X1 X2]. apply Nat.eqb_eq in X1, X2. subst k1 k2. w0 Wa. w0 Wb.
      apply rd_ok_intro; [apply within_refl | now apply max_sound].
  Qed.

  Lemma sqrt_ok k c p a a' :
    rd_sqrt (k, c) = Some p -> W k a a' -> in_cls c a ->
    rd_ok p (sqrt a) (if Rlt_dec a' 0 then None else Some (rnd (sqrt a'))).
  Proof.
    intros E Wa Ca. unfold rd_sqrt in E. destruct (cls_sqrt c) as [c'|] eqn:S; [|discriminate].
    injection E as <-. destruct (sqrt_sound _ _ _ S Ca) as [Hn Hs].
    assert (Ha : 0 <= a) by lra.
    pose proof (within_nonneg_val u U1 k a a' Ha Wa) as Ha'.
    destruct (Rlt_dec a' 0) as [Hlt|_]; [lra|].
    apply rd_ok_intro; [|exact Hs].
    apply (within_rnd u U0 U1 rnd REL). now apply (within_sqrt u U0 U1).
  Qed.

  Lemma un_ok o k c p a a' :
    rd_un o (k, c) = Some p -> W k a a' -> in_cls c a -> rd_ok p (unR o a) (unRnd rnd o a').
  Proof.
    intros E Wa Ca. destruct o; cbn [rd_un unR unRnd fst snd] in *; try discriminate.
    - injection E as <-. apply rd_ok_intro; [now apply within_opp | now apply opp_sound].
    - injection E as <-. apply rd_ok_intro; [now apply (within_abs_val u U1) | now apply abs_sound].
    - now apply sqrt_ok with (k := k) (c := c).
  Qed.

  Lemma pow_ok pc k c p a a' :
    rd_pow pc (k, c) = Some p -> W k a a' -> in_cls c a -> rd_ok p (powR pc a) (powRnd rnd pc a').
  Proof.
    intros E Wa Ca. destruct pc; cbn [rd_pow powR powRnd fst snd] in *.
    - injection E as <-. apply rd_ok_intro; [|now apply sq_sound].
      apply (within_rnd u U0 U1 rnd REL). now apply (within_sq u U1).
    - now apply sqrt_ok with (k := k) (c := c).
  Qed.

  (* ---------- vectors ---------- *)
  Lemma vec_ok (f : R -> R -> R) (g : R -> R -> option R) (Q1 Q2 : R -> Prop) k c' x y :
    length x = length y -> Forall Q1 x -> Forall Q2 y ->
    (forall a b, Q1 a -> Q2 b -> rd_ok (k, c') (f a b) (g a b)) ->
    exists l, oseq (map2 g x y) = Some l /\ Forall2 (W k) (map2 f x y) l
              /\ Forall (in_cls c') (map2 f x y).
  Proof.
    intros HL HX HY HF. revert y HL HY.
    induction HX as [|a x Ha HX IH]; intros [|b y] HL HY; cbn [length] in HL; try discriminate.
    - exists []. cbn. auto.
    - inversion HY as [|b' y' Hb HY']; subst.
      destruct (IH y) as [l [El [Wl Cl]]]; [lia | assumption |].
      destruct (HF a b Ha Hb) as [r [Er [Wr Cr]]]. cbn [fst snd] in *.
      exists (r :: l). cbn [map2 oseq]. rewrite Er, El. auto.
  Qed.

  Lemma oseq_map2_eq {A} (g : R -> R -> option A) (f : R -> R -> A) (Q1 Q2 : R -> Prop) x y :
    length x = length y -> Forall Q1 x -> Forall Q2 y ->
    (forall a b, Q1 a -> Q2 b -> g a b = Some (f a b)) ->
    oseq (map2 g x y) = Some (map2 f x y).
  Proof.
    intros HL HX HY HF. revert y HL HY.
    induction HX as [|a x Ha HX IH]; intros [|b y] HL HY; cbn [length] in HL; try discriminate.
    - reflexivity.
    - inversion HY as [|b' y' Hb HY']; subst. cbn [map2 oseq].
      rewrite (HF a b Ha Hb), (IH y); [reflexivity | lia | assumption].
  Qed.

  Lemma map2_nonneg (h : R -> R -> R) x y :
    (forall a b, 0 <= h a b) -> Forall (fun t => 0 <= t) (map2 h x y).
  Proof.
    intros H. revert y. induction x as [|a x IH]; intros [|b y]; cbn [map2]; constructor; auto.
  Qed.

  Lemma countne_eq (p q : R -> R -> R) x y :
    countne (map2 (fun a b => (p a b, q a b)) x y)
    = sum (map2 (fun a b => if Rneqb (p a b) (q a b) then 1 else 0) x y).
  Proof.
    unfold countne. f_equal. revert y. induction x as [|a x IH]; intros [|b y]; cbn [map2 map]; auto.
    cbn [fst snd]. now rewrite IH.
  Qed.

  (* ---------- expressions ---------- *)
  Section Expr.
    Variable n : nat.
    Variable call : string -> list R -> list R -> R.
    Variable callR : string -> list R -> list R -> option R.
    Variable callk : string -> cls -> option rd.
    Variable pe : string -> R.
    Hypothesis call_ok : forall f c p x y,
      callk f c = Some p -> in_dom c x y -> length x = n -> rd_ok p (call f x y) (callR f x y).

    Local Notation eS := (evalS call pe).
    Local Notation eV := (evalV call pe).
    Local Notation rS := (evalSR rnd callR pe).
    Local Notation rV := (evalVR rnd callR pe).
    Local Notation dS := (rdS n callk).
    Local Notation dV := (rdV n callk).

    Definition okS (s : sexpr) : Prop := forall c p x y,
      dS c s = Some p -> in_dom c x y -> length x = n -> rd_ok p (eS s x y) (rS s x y).

    Definition okV (v : vexpr) : Prop := forall c p x y a b,
      dV c v = Some p -> in_dom c x y -> length x = n -> in_cls c a -> in_cls c b ->
      rd_ok p (eV v x y a b) (rV v x y a b).

    Lemma okV_vec v c k c' x y :
      okV v -> dV c v = Some (k, c') -> in_dom c x y -> length x = n ->
      exists l, oseq (map2 (fun a b => rV v x y a b) x y) = Some l
                /\ Forall2 (W k) (map2 (fun a b => eV v x y a b) x y) l
                /\ Forall (in_cls c') (map2 (fun a b => eV v x y a b) x y).
    Proof.
      intros HV E HD Hn. pose proof HD as [HL [H1 [HX HY]]].
      apply (vec_ok _ _ (in_cls c) (in_cls c)); try assumption.
      intros a b Ha Hb. now apply (HV c (k, c') x y a b).
    Qed.

    Lemma Forall_nonneg c l : cls_nonneg c = true -> Forall (in_cls c) l -> Forall (fun t => 0 <= t) l.
    Proof. intros N. apply Forall_impl. intros t. now apply nonneg_cls. Qed.

    Lemma sum_cls c l : cls_nonneg c = true -> Forall (in_cls c) l -> (1 <= length l)%nat -> in_cls c (sum l).
    Proof.
      intros N HF HL. destruct c; try discriminate; cbn [in_cls].
      - now apply sum_pos.
      - now apply sum_nonneg.
    Qed.

    Lemma ok_SSum v : okV v -> okS (SSum v).
    Proof.
      intros HV c p x y E HD Hn. rewrite rdS_SSum in E. rewrite evalS_SSum, evalSR_SSum.
      destruct (dV c v) as [[k c']|] eqn:Ev; [|discriminate].
      destruct (cls_nonneg c') eqn:N; [|discriminate]. injection E as <-.
      destruct (okV_vec v c k c' x y HV Ev HD Hn) as [l [El [Wl Cl]]]. rewrite El. cbn [obind].
      pose proof HD as [HL [H1 _]].
      assert (Len : length (map2 (fun a b => eV v x y a b) x y) = n) by (rewrite map2_length; assumption).
      apply rd_ok_intro.
      - rewrite <- Len. apply (rsum_terms_within u U0 U1 rnd REL); [exact Wl | now apply (Forall_nonneg c')].
      - apply sum_cls; [exact N | exact Cl | lia].
    Qed.

    Lemma ok_SAmax v : okV v -> okS (SAmax v).
    Proof.
      intros HV c p x y E HD Hn. rewrite rdS_SAmax in E. rewrite evalS_SAmax, evalSR_SAmax.
      destruct (dV c v) as [[k c']|] eqn:Ev; [|discriminate].
      destruct (okV_vec v c k c' x y HV Ev HD Hn) as [l [El [Wl Cl]]]. rewrite El. cbn [obind].
      pose proof HD as [HL [H1 _]].
      assert (Len : (1 <= length (map2 (fun a b => eV v x y a b) x y))%nat) by (rewrite map2_length; lia).
      destruct (cls_nonneg c') eqn:N.
      - cbn [orb] in E. injection E as <-. apply rd_ok_intro.
        + apply (lmax_within u U0 U1); [exact Wl | now apply (Forall_nonneg c')].
        + now apply lmax_sound.
      - cbn [orb] in E. destruct (k =? 0)%nat eqn:X; [|discriminate]. injection E as <-.
        apply Nat.eqb_eq in X. subst k. rewrite (Forall2_within0_eq u _ _ Wl). apply rd_ok_intro.
        + apply within_refl.
        + now apply lmax_sound.
    Qed.

    Lemma ok_SCountNe p q : okV p -> okV q -> okS (SCountNe p q).
    Proof.
      intros HP HQ c r x y E HD Hn. rewrite rdS_SCountNe in E. rewrite evalS_SCountNe, evalSR_SCountNe.
      destruct (dV c p) as [[ka ca]|] eqn:Ea; [|discriminate].
      destruct (dV c q) as [[kb cb]|] eqn:Eb; [|discriminate].
      destruct ((ka =? 0)%nat && (kb =? 0)%nat) eqn:X; [|discriminate]. injection E as <-.
      apply andb_prop in X. destruct X as [X1 X2]. apply Nat.eqb_eq in X1, X2. subst ka kb.
      pose proof HD as [HL [H1 [HX HY]]].
      rewrite (oseq_map2_eq _ (fun a b => (eV p x y a b, eV q x y a b)) (in_cls c) (in_cls c) x y HL HX HY).
      - cbn [obind]. rewrite countne_eq. apply rd_ok_intro; [apply within_refl|].
        cbn [in_cls]. apply sum_nonneg. apply map2_nonneg. intros a b. destruct (Rneqb _ _); lra.
      - intros a b Ha Hb.
        destruct (HP c (0%nat, ca) x y a b Ea HD Hn Ha Hb) as [s [Es [Ws _]]].
        destruct (HQ c (0%nat, cb) x y a b Eb HD Hn Ha Hb) as [t [Et [Wt _]]].
        cbn [fst] in *. w0 Ws. w0 Wt. rewrite Es, Et. reflexivity.
    Qed.

    Lemma ok_SBin o s1 s2 : okS s1 -> okS s2 -> okS (SBin o s1 s2).
    Proof.
      intros H1 H2 c p x y E HD Hn. rewrite rdS_SBin in E. rewrite evalS_SBin, evalSR_SBin.
      apply obind2_some in E. destruct E as [[k1 c1] [[k2 c2] [E1 [E2 E]]]].
      destruct (H1 c _ x y E1 HD Hn) as [r1 [R1 [W1 C1]]]. destruct (H2 c _ x y E2 HD Hn) as [r2 [R2 [W2 C2]]].
      rewrite R1, R2. cbn [obind2 fst snd] in *. now apply (bin_ok o k1 c1 k2 c2).
    Qed.

    Lemma ok_SUn o s1 : okS s1 -> okS (SUn o s1).
    Proof.
      intros H1 c p x y E HD Hn. rewrite rdS_SUn in E. rewrite evalS_SUn, evalSR_SUn.
      apply obind_some in E. destruct E as [[k1 c1] [E1 E]].
      destruct (H1 c _ x y E1 HD Hn) as [r1 [R1 [W1 C1]]]. rewrite R1. cbn [obind fst snd] in *.
      now apply (un_ok o k1 c1).
    Qed.

    Lemma ok_SPowC s1 pc : okS s1 -> okS (SPowC s1 pc).
    Proof.
      intros H1 c p x y E HD Hn. rewrite rdS_SPowC in E. rewrite evalS_SPowC, evalSR_SPowC.
      apply obind_some in E. destruct E as [[k1 c1] [E1 E]].
      destruct (H1 c _ x y E1 HD Hn) as [r1 [R1 [W1 C1]]]. rewrite R1. cbn [obind fst snd] in *.
      now apply (pow_ok pc k1 c1).
    Qed.

    Lemma ok_SCall f p q : okV p -> okV q -> okS (SCall f p q).
    Proof.
      intros HP HQ c r x y E HD Hn. rewrite rdS_SCall in E. rewrite evalS_SCall, evalSR_SCall.
      destruct (dV c p) as [[ka ca]|] eqn:Ea; [|discriminate].
      destruct (dV c q) as [[kb cb]|] eqn:Eb; [|discriminate].
      destruct ((ka =? 0)%nat && (kb =? 0)%nat) eqn:X; [|discriminate].
      apply andb_prop in X. destruct X as [X1 X2]. apply Nat.eqb_eq in X1, X2. subst ka kb.
      destruct (okV_vec p c 0%nat ca x y HP Ea HD Hn) as [lp [Elp [Wlp Clp]]].
      destruct (okV_vec q c 0%nat cb x y HQ Eb HD Hn) as [lq [Elq [Wlq Clq]]].
      rewrite Elp, Elq. cbn [obind2].
      rewrite (Forall2_within0_eq u _ _ Wlp), (Forall2_within0_eq u _ _ Wlq).
      pose proof HD as [HL [H1 _]].
      apply (call_ok f _ r _ _ E).
      - repeat split.
        + rewrite !map2_length; auto.
        + rewrite map2_length; [lia | assumption].
        + now apply Forall_join_l.
        + now apply Forall_join_r.
      - rewrite map2_length; assumption.
    Qed.

    Lemma ok_VBin o v1 v2 : okV v1 -> okV v2 -> okV (VBin o v1 v2).
    Proof.
      intros H1 H2 c p x y a b E HD Hn Ha Hb. rewrite rdV_VBin in E. rewrite evalV_VBin, evalVR_VBin.
      apply obind2_some in E. destruct E as [[k1 c1] [[k2 c2] [E1 [E2 E]]]].
      destruct (H1 c _ x y a b E1 HD Hn Ha Hb) as [r1 [R1 [W1 C1]]].
      destruct (H2 c _ x y a b E2 HD Hn Ha Hb) as [r2 [R2 [W2 C2]]].
      rewrite R1, R2. cbn [obind2 fst snd] in *. now apply (bin_ok o k1 c1 k2 c2).
    Qed.

    Lemma ok_VUn o v1 : okV v1 -> okV (VUn o v1).
    Proof.
      intros H1 c p x y a b E HD Hn Ha Hb. rewrite rdV_VUn in E. rewrite evalV_VUn, evalVR_VUn.
      apply obind_some in E. destruct E as [[k1 c1] [E1 E]].
      destruct (H1 c _ x y a b E1 HD Hn Ha Hb) as [r1 [R1 [W1 C1]]]. rewrite R1. cbn [obind fst snd] in *.
      now apply (un_ok o k1 c1).
    Qed.

    Lemma ok_VPowC v1 pc : okV v1 -> okV (VPowC v1 pc).
    Proof.
      intros H1 c p x y a b E HD Hn Ha Hb. rewrite rdV_VPowC in E. rewrite evalV_VPowC, evalVR_VPowC.
      apply obind_some in E. destruct E as [[k1 c1] [E1 E]].
      destruct (H1 c _ x y a b E1 HD Hn Ha Hb) as [r1 [R1 [W1 C1]]]. rewrite R1. cbn [obind fst snd] in *.
      now apply (pow_ok pc k1 c1).
    Qed.

    Lemma sound_mut : (forall v, okV v) /\ (forall s, okS s).
    Proof.
      apply expr_mutind.
      - intros c p x y a b E HD Hn Ha Hb. cbn in E. injection E as <-. cbn [evalV evalVR].
        apply rd_ok_intro; [apply within_refl | assumption].
      - intros c p x y a b E HD Hn Ha Hb. cbn in E. injection E as <-. cbn [evalV evalVR].
        apply rd_ok_intro; [apply within_refl | assumption].
      - intros s HS c p x y a b E HD Hn Ha Hb. rewrite rdV_VConstS in E. rewrite evalV_VConstS, evalVR_VConstS.
        now apply (HS c p x y).
      - intros o v1 H1 v2 H2. now apply ok_VBin.
      - intros o v1 H1. now apply ok_VUn.
      - intros v1 H1 pc. now apply ok_VPowC.
      - intros cm l _ r _ v1 _ v2 _ c p x y a b E. discriminate E.
      - intros v HV. now apply ok_SSum.
      - intros v HV. now apply ok_SAmax.
      - intros p HP q HQ. now apply ok_SCountNe.
      - intros c p x y E HD Hn. cbn in E. injection E as <-. cbn [evalS evalSR].
        apply rd_ok_intro; [apply within_refl|]. destruct HD as [_ [H1 _]]. unfold len. cbn [in_cls]. now apply INR_len_pos.
      - intros q c p x y E HD Hn. cbn in E. injection E as <-. cbn [evalS evalSR].
        apply rd_ok_intro; [apply within_refl | apply Q_sound].
      - intros nm c p x y E HD Hn. cbn in E. injection E as <-. cbn [evalS evalSR].
        apply rd_ok_intro; [apply within_refl | apply cname_sound].
      - intros s c p x y E HD Hn. cbn in E. injection E as <-. cbn [evalS evalSR].
        apply rd_ok_intro; [apply within_refl | exact I].
      - intros o s1 H1 s2 H2. now apply ok_SBin.
      - intros o s1 H1. now apply ok_SUn.
      - intros s1 H1 pc. now apply ok_SPowC.
      - intros f p HP q HQ. now apply ok_SCall.
    Qed.

    Lemma rdS_sound s c p x y :
      dS c s = Some p -> in_dom c x y -> length x = n -> rd_ok p (eS s x y) (rS s x y).
    Proof. apply (proj2 sound_mut s). Qed.
  End Expr.

  (* ---------- whole metrics ---------- *)
  Lemma wrap_rd_sound n call callR callk pe dparams dprog m c p x y :
    (forall f c p x y, callk f c = Some p -> in_dom c x y -> length x = n -> rd_ok p (call f x y) (callR f x y)) ->
    wrap_rd n callk m c = Some p -> in_dom c x y -> length x = n ->
    rd_ok p (wrap call dparams dprog pe m x y) (wrapR rnd callR dparams dprog pe m x y).
  Proof.
    intros call_ok E HD Hn. unfold wrap_rd in E. unfold wrap, wrapR, eval_body, eval_bodyR.
    destruct (m_avoid_zero m); [discriminate|].
    now apply (rdS_sound n call callR callk pe call_ok (m_body m) c p x y).
  Qed.

  Lemma call_rd_sound n t dparams dprog fuel : forall f c p x y,
    call_rd n t fuel f c = Some p -> in_dom c x y -> length x = n ->
    rd_ok p (call_fuel t dparams dprog fuel f x y) (call_fuelR rnd t dparams dprog fuel f x y).
  Proof.
    induction fuel as [|g IH]; intros f c p x y; cbn [call_rd call_fuel call_fuelR]; [discriminate|].
    destruct (lookup_ir f t) as [m|]; [|discriminate].
    intros E HD Hn. now apply (wrap_rd_sound n _ _ (call_rd n t g) _ _ _ m c p x y IH).
  Qed.

  Theorem rdepth_sound_gen t dparams dprog pe c m n p x y :
    rdepth_gen t c m n = Some p -> in_dom c x y -> length x = n ->
    rd_ok p (evalR_wrapped_with t dparams dprog pe m x y) (evalRnd_wrapped_with rnd t dparams dprog pe m x y).
  Proof.
    unfold rdepth_gen, evalR_wrapped_with, evalRnd_wrapped_with. intros E HD Hn.
    apply (wrap_rd_sound n _ _ (call_rd n t call_depth) _ _ _ m c p x y); try assumption.
    apply call_rd_sound.
  Qed.
End Sound.

(* ---------- at the generated tables ---------- *)
From OPF Require Import Gen.Metrics_gen Gen.Decorator_gen Model.MetricEval.

(* the full result of the analysis: depth and class of the exact value *)
Theorem rdepth_gen_sound c m n k c' :
  rdepth_gen all_metrics_ir c m n = Some (k, c') ->
  forall u rnd, 0 <= u < 1 -> rnd_rel u rnd ->
  forall x y, length x = n -> in_dom c x y ->
  exists fl, metric_rnd rnd m x y = Some fl
             /\ within u k (metric_value m x y) fl
             /\ in_cls c' (metric_value m x y).
Proof.
  intros E u rnd [U0 U1] REL x y Hn HD.
  destruct (rdepth_sound_gen u U0 U1 rnd REL all_metrics_ir decorator_params decorator_body
              (param_default (m_params m)) c m n (k, c') x y E HD Hn) as [fl [Efl [Wfl Cfl]]].
  exists fl. auto.
Qed.

(* [k] roundings deep, two-sided and in the closed form *)
Theorem rdepth_in_sound c m n k :
  rdepth_in c m n = Some k ->
  forall u rnd, 0 <= u < 1 -> rnd_rel u rnd ->
  forall x y, length x = n -> in_dom c x y ->
  exists fl, metric_rnd rnd m x y = Some fl
             /\ within u k (metric_value m x y) fl
             /\ Rabs (fl - metric_value m x y) <= ((1 + u) ^ k - 1) * Rabs (metric_value m x y).
Proof.
  unfold rdepth_in. destruct (rdepth_gen all_metrics_ir c m n) as [[k0 c']|] eqn:E; [|discriminate].
  cbn [option_map fst]. intros K. injection K as <-. intros u rnd HU REL x y Hn HD.
  destruct (rdepth_gen_sound c m n k0 c' E u rnd HU REL x y Hn HD) as [fl [Efl [Wfl _]]].
  exists fl. split; [exact Efl|]. split; [exact Wfl|]. destruct HU as [U0 U1].
  now apply (within_abs u U0 U1).
Qed.

Lemma in_dom_any (x y : list R) n : length x = n -> length y = n -> (1 <= n)%nat -> in_dom Any x y.
Proof.
  intros Hx Hy H1. repeat split; try lia.
  - apply Forall_forall. intros; exact I.
  - apply Forall_forall. intros; exact I.
Qed.

Theorem rdepth_sound m n k :
  rdepth m n = Some k ->
  forall u rnd, 0 <= u < 1 -> rnd_rel u rnd ->
  forall x y, length x = n -> length y = n -> (1 <= n)%nat ->
  exists fl, metric_rnd rnd m x y = Some fl
             /\ within u k (metric_value m x y) fl
             /\ Rabs (fl - metric_value m x y) <= ((1 + u) ^ k - 1) * Rabs (metric_value m x y).
Proof.
  intros E u rnd HU REL x y Hx Hy H1. apply (rdepth_in_sound Any m n k E u rnd HU REL x y Hx).
  now apply (in_dom_any x y n).
Qed.

(* by Python function name *)
Theorem rdepth_name_sound f n k :
  rdepth_name f n = Some k ->
  exists m, lookup_ir f all_metrics_ir = Some m /\
  forall u rnd, 0 <= u < 1 -> rnd_rel u rnd ->
  forall x y, length x = n -> length y = n -> (1 <= n)%nat ->
  exists fl, metric_rnd rnd m x y = Some fl
             /\ within u k (metric_value m x y) fl
             /\ Rabs (fl - metric_value m x y) <= ((1 + u) ^ k - 1) * Rabs (metric_value m x y).
Proof.
  unfold rdepth_name. destruct (lookup_ir f all_metrics_ir) as [m|]; [|discriminate].
  intros E. exists m. split; [reflexivity|]. now apply rdepth_sound.
Qed.
