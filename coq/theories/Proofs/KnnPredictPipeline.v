(* KNNSupervisedOPF.predict / UnsupervisedOPF.predict on top of the final training stage, over the reals.

   Part 1 of 2: one query against an ARBITRARY graph [g] whose costs lie above -FLOAT_MAX, with an
   arbitrary recorded density range 0 <= mn <= mx < 1.  Composition of
     - the lifted scan and arg-max theorems (Props/C14_anyorder.v, i.e. Proofs/Lift2Predict.v) at
       W := R, ltb := Rltb ([Rltb_order], Proofs/KnnPipeline.v),
     - the arithmetic of the query density (Props/C14_density.v, i.e. Proofs/PdfReal.v).
   KnnPredictPipelineMain.v instantiates [g], [mn], [mx] with the result of [knn_sup_final] /
   [unsup_final] using Props/C13_pipeline.v.

   New here: the hypothesis "-FLOAT_MAX lies below every candidate value min(cost, density)" of the
   arg-max theorem is DERIVED from the data ([qd_above_bot]): the exp terms lie in [0, 1], so the
   unmapped query density is >= 0 > mn - 1, and the denominator is >= EPSILON, so the query density
   is > 1 - 999/EPSILON >= 1 - FLOAT_MAX as soon as 999 <= EPSILON * FLOAT_MAX (true of the
   library's constants: 1e-20 * 1.8e308). *)
From Coq Require Import Reals List Arith Bool ZArith Lia Lra Permutation.
From OPF Require Import Base.Lists Base.NumOps Base.TotalOrder Model.Heap Model.Knn Model.Pdf Model.KnnFit
  Model.KnnPredict Proofs.PdfBase Proofs.PdfReal Proofs.KnnSort Proofs.Lift2Knn Proofs.Lift2Predict
  Proofs.KnnPipeline.
Import ListNotations.
Local Open Scope R_scope.

(* [N] lists the k nearest of the n training samples, nearest first, ties broken by the smaller
   index: k distinct samples, consecutive entries increase in (distance, index), and every sample
   left out comes after every listed one in (distance, index).  ALL n samples are candidates. *)
Definition k_nearest (dq : nat -> R) (n k : nat) (N : list nat) : Prop :=
  length N = k /\ NoDup N /\ (forall j, In j N -> (j < n)%nat) /\
  (forall a b, (a < b)%nat -> (b < k)%nat ->
     dq (nth a N 0%nat) < dq (nth b N 0%nat) \/
     (dq (nth a N 0%nat) = dq (nth b N 0%nat) /\ (nth a N 0%nat < nth b N 0%nat)%nat)) /\
  (forall j, (j < n)%nat -> ~ In j N -> forall a, In a N ->
     dq a < dq j \/ (dq a = dq j /\ (a < j)%nat)).

(* the unmapped and the mapped query density computed from the listed neighbours *)
Definition query_pdf (E : R -> R) (dq : nat -> R) (k : nat) (N : list nat) : R :=
  Rsum_upto k (fun l => E (dq (nth l N 0%nat))) / INR k.
Definition query_dens (eps mn mx pdfq : R) : R := 1 + 999 * (pdfq - mn) / (mx - mn + eps).

Lemma nth_firstn_below {A} (l : list A) m i d : (i < m)%nat -> nth i (firstn m l) d = nth i l d.
Proof.
  revert l i. induction m as [|m IH]; intros l i Hi; [lia|].
  destruct l as [|x l]; [now destruct i|]. destruct i as [|i]; [reflexivity|].
  cbn [firstn nth]. apply IH. lia.
Qed.

Lemma INR_pos_of k : (1 <= k)%nat -> 0 < INR k.
Proof. intros H. apply lt_0_INR. lia. Qed.

(* ---------- arithmetic of the query density ---------- *)

Section Density.
  Variables (eps mn mx fmax : R).
  Hypothesis Heps : 0 < eps.
  Hypothesis Hmm : mn <= mx.

  Lemma query_dens_qdens s : query_dens eps mn mx s = qdens eps mn mx s.
  Proof. unfold query_dens, qdens. unfold Rdiv. ring. Qed.

  Lemma query_dens_props s :
    0 < mx - mn + eps /\
    (mn <= s <= mx -> 1 <= query_dens eps mn mx s < 1000) /\
    (s < mn -> query_dens eps mn mx s < 1) /\
    (mx < s -> 999 * (mx - mn) / (mx - mn + eps) + 1 < query_dens eps mn mx s) /\
    (forall s', s < s' -> query_dens eps mn mx s < query_dens eps mn mx s').
  Proof.
    rewrite query_dens_qdens.
    split; [lra|]. split; [now apply qdens_range|]. split; [now apply qdens_below|]. split.
    - intro Hs. pose proof (qdens_strict_mono eps mn mx mx s Heps Hmm Hs) as H.
      unfold qdens in H. unfold qdens.
      replace (999 * (mx - mn) / (mx - mn + eps)) with ((mx - mn) * (1000 - 1) / (mx - mn + eps))
        by (unfold Rdiv; ring).
      exact H.
    - intros s' Hs. rewrite query_dens_qdens. now apply qdens_strict_mono.
  Qed.

  (* the query density cannot reach -FLOAT_MAX *)
  Lemma qd_above_bot s :
    0 <= s -> mn < 1 -> 0 < fmax -> 999 <= eps * fmax ->
    1 - fmax < query_dens eps mn mx s.
  Proof.
    intros Hs Hmn Hf Hbig.
    set (D := mx - mn + eps). assert (HD : eps <= D) by (unfold D; lra).
    set (t := / D).
    assert (Ht : 0 < t) by (apply Rinv_0_lt_compat; lra).
    assert (Hte : t <= / eps) by (apply Rinv_le_contravar; lra).
    assert (Hie : 0 < / eps) by (apply Rinv_0_lt_compat; lra).
    assert (H1 : 999 * / eps <= fmax).
    { apply (Rmult_le_compat_r (/ eps)) in Hbig; [|lra].
      replace (eps * fmax * / eps) with fmax in Hbig by (field; lra). exact Hbig. }
    assert (H2 : 999 * t <= fmax) by lra.
    set (u := (s - mn) * t).
    assert (Hu : -1 * t < u) by (unfold u; apply Rmult_lt_compat_r; lra).
    replace (query_dens eps mn mx s) with (1 + 999 * u)
      by (unfold query_dens, u, t, D, Rdiv; ring).
    lra.
  Qed.
End Density.

(* ---------- one query ---------- *)

Section Query.
  Variables (fmax eps : R) (k n : nat) (E : R -> R) (mn mx : R) (g : @knn R) (dq : nat -> R).
  Hypothesis Hk1 : (1 <= k)%nat.
  Hypothesis Hkn : (k <= n)%nat.
  Hypothesis Hfm : 0 < fmax.
  Hypothesis Hdq : forall j, (j < n)%nat -> 0 <= dq j < fmax.
  Hypothesis HE : forall x, 0 <= x -> 0 <= E x <= 1.
  Hypothesis Heps : 0 < eps.
  Hypothesis Hbig : 999 <= eps * fmax.
  Hypothesis Hmm : mn <= mx.
  Hypothesis Hmx : mx < 1.
  Hypothesis Hcost : forall j, (j < n)%nat -> - fmax < nth j (k_cost g) 0.

  Let N := firstn k (isortW Rltb dq (seq 0 n)).
  Let pdfq := query_pdf E dq k N.
  Let qd := query_dens eps mn mx pdfq.
  Let densx_of := query_densx ROps fmax eps 1000 E mn mx k.

  Lemma Hn1 : (1 <= n)%nat. Proof. lia. Qed.

  Lemma dq_top : forall j, (j < n)%nat -> Rltb (dq j) fmax = true.
  Proof. intros j Hj. apply Rltb_true_iff. exact (proj2 (Hdq j Hj)). Qed.

  (* the scan: slots 0..k-1 hold the k nearest of ALL n training samples and their distances *)
  Lemma query_scan ds ns :
    knn_scan Rltb fmax k n dq None (repeat 0%nat (S k)) = (ds, ns) ->
    firstn k ns = N /\ firstn k ds = map dq N.
  Proof.
    intros Hscan.
    destruct (knn_predict_neighbours_isort_anyorder Rltb Rltb_order fmax k n dq (repeat 0%nat (S k))
                ltac:(rewrite repeat_length; lia) dq_top ds ns Hscan) as [A B].
    rewrite (Nat.min_l k n Hkn) in A, B. split; assumption.
  Qed.

  Lemma N_length : length N = k.
  Proof.
    destruct (knn_scan Rltb fmax k n dq None (repeat 0%nat (S k))) as [ds ns] eqn:Hscan.
    pose proof (knn_predict_rule_anyorder Rltb Rltb_order 0 fmax (fbot ROps fmax) g k n
                  (fun _ _ => 0) dq Hk1 Hn1 dq_top ds ns Hscan) as H.
    cbv zeta in H.
    assert (Hb : forall j, (j < n)%nat ->
              Rltb (fbot ROps fmax) (wmin Rltb (nth j (k_cost g) 0) 0) = true).
    { intros j Hj. apply Rltb_true_iff. rewrite wmin_Rmin. unfold fbot. rops.
      pose proof (Hcost j Hj). unfold Rmin. destruct (Rle_dec _ _); lra. }
    destruct (H Hb) as (L & _). fold N in L. rewrite L. now apply Nat.min_l.
  Qed.

  Lemma N_lt j : In j N -> (j < n)%nat.
  Proof.
    destruct (knn_scan Rltb fmax k n dq None (repeat 0%nat (S k))) as [ds ns] eqn:Hscan.
    pose proof (knn_predict_rule_anyorder Rltb Rltb_order 0 fmax (fbot ROps fmax) g k n
                  (fun _ _ => 0) dq Hk1 Hn1 dq_top ds ns Hscan) as H.
    cbv zeta in H.
    assert (Hb : forall j, (j < n)%nat ->
              Rltb (fbot ROps fmax) (wmin Rltb (nth j (k_cost g) 0) 0) = true).
    { intros j' Hj. apply Rltb_true_iff. rewrite wmin_Rmin. unfold fbot. rops.
      pose proof (Hcost j' Hj). unfold Rmin. destruct (Rle_dec _ _); lra. }
    destruct (H Hb) as (_ & _ & _ & _ & L & _). exact (L j).
  Qed.

  Lemma N_nth_lt l : (l < k)%nat -> (nth l N 0%nat < n)%nat.
  Proof. intros Hl. apply N_lt. apply nth_In. rewrite N_length. exact Hl. Qed.

  (* the density computed from the scan result is the density of the k nearest *)
  Lemma query_densx_value ds ns :
    knn_scan Rltb fmax k n dq None (repeat 0%nat (S k)) = (ds, ns) ->
    densx_of ds ns = qd.
  Proof.
    intros Hscan. destruct (query_scan ds ns Hscan) as [_ Hd].
    unfold densx_of, query_densx. rewrite query_density_tree.
    assert (Hs : Rsum_upto k (fun l => E (nth l ds fmax)) = Rsum_upto k (fun l => E (dq (nth l N 0%nat)))).
    { apply Rsum_upto_ext. intros l Hl. f_equal.
      rewrite <- (nth_firstn_below ds k l fmax Hl), Hd.
      rewrite (nth_indep (map dq N) fmax (dq 0%nat)) by (rewrite map_length, N_length; exact Hl).
      apply map_nth. }
    rewrite Hs. unfold qd, query_dens, pdfq, query_pdf. unfold Rdiv. ring.
  Qed.

  Lemma pdfq_01 : 0 <= pdfq <= 1.
  Proof.
    unfold pdfq, query_pdf.
    assert (H : 0 <= Rsum_upto k (fun l => E (dq (nth l N 0%nat))) <= INR k).
    { apply Rsum_upto_01. intros l Hl. apply HE. exact (proj1 (Hdq _ (N_nth_lt l Hl))). }
    pose proof (INR_pos_of k Hk1) as Hk.
    assert (Hi : 0 < / INR k) by now apply Rinv_0_lt_compat.
    assert (Hone : INR k * / INR k = 1) by (apply Rinv_r; lra).
    unfold Rdiv. split.
    - apply Rmult_le_pos; lra.
    - rewrite <- Hone. apply Rmult_le_compat_r; lra.
  Qed.

  Lemma qd_bot : - fmax < qd.
  Proof.
    pose proof (qd_above_bot eps mn mx fmax Heps Hmm pdfq (proj1 pdfq_01) ltac:(lra) Hfm Hbig).
    fold qd in H. lra.
  Qed.

  Lemma val_bot : forall j, (j < n)%nat ->
    Rltb (fbot ROps fmax) (wmin Rltb (nth j (k_cost g) 0) qd) = true.
  Proof.
    intros j Hj. apply Rltb_true_iff. rewrite wmin_Rmin. unfold fbot. rops.
    pose proof (Hcost j Hj). pose proof qd_bot. unfold Rmin. destruct (Rle_dec _ _); lra.
  Qed.

  Theorem query_core :
    let val s := Rmin (nth s (k_cost g) 0) qd in
    k_nearest dq n k N /\
    (0 <= pdfq <= 1 /\ - fmax < qd) /\
    (forall ds ns, knn_scan Rltb fmax k n dq None (repeat 0%nat (S k)) = (ds, ns) ->
       firstn k ns = N /\ firstn k ds = map dq N /\ densx_of ds ns = qd) /\
    exists r, (r < k)%nat /\
      knn_predict_one Rltb 0 fmax (fbot ROps fmax) g k n densx_of dq = Some (nth r N 0%nat) /\
      (forall r', (r' < k)%nat -> val (nth r' N 0%nat) <= val (nth r N 0%nat)) /\
      (forall r', (r' < r)%nat -> val (nth r' N 0%nat) < val (nth r N 0%nat)).
  Proof.
    intros val.
    destruct (knn_scan Rltb fmax k n dq None (repeat 0%nat (S k))) as [ds ns] eqn:Hscan.
    pose proof (query_densx_value ds ns Hscan) as Hqd.
    pose proof (knn_predict_rule_anyorder Rltb Rltb_order 0 fmax (fbot ROps fmax) g k n
                  densx_of dq Hk1 Hn1 dq_top ds ns Hscan) as H.
    cbv zeta in H. rewrite Hqd in H. specialize (H val_bot). fold N in H.
    destruct H as (L & _ & _ & ND & Lt & Srt & Out & r & Hr & Hone & Hmax & Hfirst).
    rewrite (Nat.min_l k n Hkn) in L. rewrite L in Srt, Hr, Hmax.
    split; [|split; [|split]].
    - split; [exact L|]. split; [exact ND|]. split; [exact Lt|]. split.
      + intros a b Hab Hb. destruct (Srt a b Hab Hb) as [H|H]; [left; now apply Rltb_true_iff|now right].
      + intros j Hj Hnin a Ha. destruct (Out j Hj Hnin a Ha) as [H|H];
          [left; now apply Rltb_true_iff|now right].
    - split; [exact pdfq_01 | exact qd_bot].
    - intros ds' ns' Hscan'. injection Hscan' as <- <-.
      destruct (query_scan ds ns Hscan) as [A B]. now repeat split.
    - exists r. split; [exact Hr|]. split; [exact Hone|]. split.
      + intros r' Hr'. specialize (Hmax r' Hr'). rewrite !wmin_Rmin in Hmax.
        now apply Rltb_false_iff.
      + intros r' Hr'. specialize (Hfirst r' Hr'). rewrite !wmin_Rmin in Hfirst.
        now apply Rltb_true_iff.
  Qed.
End Query.

Lemma incl_dec_or_witness (A B : list nat) : incl A B \/ exists y, In y A /\ ~ In y B.
Proof.
  induction A as [|a A IH]; [left; intros x []|].
  destruct (in_dec Nat.eq_dec a B) as [Ha|Ha].
  - destruct IH as [IH|(y & Hy & HyB)].
    + left. intros x [<-|Hx]; [exact Ha | now apply IH].
    + right. exists y. split; [now right | exact HyB].
  - right. exists a. split; [now left | exact Ha].
Qed.

(* [k_nearest] determines the list: it is a specification of the neighbour set, not only a
   property of [isortW] *)
Lemma k_nearest_unique dq n k N N' : k_nearest dq n k N -> k_nearest dq n k N' -> N = N'.
Proof.
  intros (L & ND & Lt & Srt & Out) (L' & ND' & Lt' & Srt' & Out').
  (* strict lexicographic order on (distance, index) *)
  set (lt := fun a b : nat => dq a < dq b \/ (dq a = dq b /\ (a < b)%nat)).
  assert (lt_irr : forall a, ~ lt a a) by (intros a [H|[_ H]]; [lra|lia]).
  assert (lt_tr : forall a b c, lt a b -> lt b c -> lt a c).
  { intros a b c [H1|[H1 H1']] [H2|[H2 H2']]; unfold lt; [left; lra|left; lra|left; lra|right; split; [lra|lia]]. }
  (* same members *)
  assert (Hincl : forall M M', length M = k -> NoDup M -> (forall j, In j M -> (j < n)%nat) ->
            (forall j, (j < n)%nat -> ~ In j M -> forall a, In a M -> lt a j) ->
            length M' = k -> NoDup M' -> (forall j, In j M' -> (j < n)%nat) ->
            (forall j, (j < n)%nat -> ~ In j M' -> forall a, In a M' -> lt a j) ->
            forall x, In x M -> In x M').
  { intros M M' LM NM LtM OM LM' NM' LtM' OM' x Hx.
    destruct (in_dec Nat.eq_dec x M') as [H|H]; [exact H|exfalso].
    (* some y in M' is not in M (pigeonhole), then x < y (Out' on M') and y < x (Out on M) *)
    assert (Hy : exists y, In y M' /\ ~ In y M).
    { destruct (incl_dec_or_witness M' M) as [Hinc|Hw]; [|exact Hw].
      exfalso.
      assert (Hinc' : incl M M').
      { apply NoDup_length_incl; [exact NM'| lia | exact Hinc]. }
      exact (H (Hinc' x Hx)). }
    destruct Hy as (y & Hy & HyM).
    pose proof (OM' x (LtM x Hx) H y Hy) as H1.
    pose proof (OM y (LtM' y Hy) HyM x Hx) as H2.
    exact (lt_irr x (lt_tr _ _ _ H2 H1)). }
  assert (Hsame : forall x, In x N <-> In x N').
  { intros x. split; [apply (Hincl N N')|apply (Hincl N' N)]; assumption. }
  (* two strictly sorted lists with the same members are equal *)
  assert (Hsorted_eq : forall (M M' : list nat),
            (forall a b, (a < b)%nat -> (b < length M)%nat -> lt (nth a M 0%nat) (nth b M 0%nat)) ->
            (forall a b, (a < b)%nat -> (b < length M')%nat -> lt (nth a M' 0%nat) (nth b M' 0%nat)) ->
            (forall x, In x M <-> In x M') -> M = M').
  { induction M as [|x M IH]; intros M' Sm Sm' Hm.
    - destruct M' as [|y M']; [reflexivity|]. exfalso. apply (proj2 (Hm y)). now left.
    - destruct M' as [|y M']; [exfalso; apply (proj1 (Hm x)); now left|].
      assert (Hmin : forall (z : nat) (L0 : list nat),
                (forall a b, (a < b)%nat -> (b < length (z :: L0))%nat ->
                   lt (nth a (z :: L0) 0%nat) (nth b (z :: L0) 0%nat)) ->
                forall u, In u L0 -> lt z u).
      { intros z L0 SL u Hu. destruct (In_nth L0 u 0%nat Hu) as (i & Hi & <-).
        exact (SL 0%nat (S i) ltac:(lia) ltac:(cbn [length]; lia)). }
      assert (Exy : x = y).
      { destruct (proj1 (Hm x) (or_introl eq_refl)) as [E|Hin]; [now symmetry|].
        destruct (proj2 (Hm y) (or_introl eq_refl)) as [E|Hin']; [exact E|].
        exfalso. exact (lt_irr x (lt_tr _ _ _ (Hmin x M Sm y Hin') (Hmin y M' Sm' x Hin))). }
      subst y. f_equal. apply IH.
      + intros a b Hab Hb. exact (Sm (S a) (S b) ltac:(lia) ltac:(cbn [length]; lia)).
      + intros a b Hab Hb. exact (Sm' (S a) (S b) ltac:(lia) ltac:(cbn [length]; lia)).
      + intros u. split; intros Hu.
        * destruct (proj1 (Hm u) (or_intror Hu)) as [E|H]; [|exact H].
          subst u. exfalso. exact (lt_irr x (Hmin x M Sm x Hu)).
        * destruct (proj2 (Hm u) (or_intror Hu)) as [E|H]; [|exact H].
          subst u. exfalso. exact (lt_irr x (Hmin x M' Sm' x Hu)). }
  apply Hsorted_eq; [rewrite L; exact Srt | rewrite L'; exact Srt' | exact Hsame].
Qed.
