(* The indexed heap on binary64 costs compared through PrimFloat.ltb.

   [PrimFloat.ltb] is a strict weak order on the non-NaN floats (Proofs/FloatOrder.v), so the
   weak-order form of the heap theorems (Proofs/HeapLift.v) applies as it stands, -0 and +0 left
   distinct: after every valid history whose costs (and sentinel) are not NaN the invariant holds,
   the history refines the abstract priority queue, [remove] returns an element to which no queued
   element is preferred, elements are conserved.  And the run on the floats and the run on their
   IEEE codes [fenc] (or any integer coding monotone on the non-NaN floats - the rank encoding of
   the test harness) return the same outputs and the same arrays: the statement behind comparing
   the heap model on ranks with the implementation on floats. *)
From Coq Require Import List Arith Bool ZArith Lia Permutation PrimFloat.
From OPF Require Import Base.Lists Base.TotalOrder Model.Heap.
From OPF Require Import Proofs.HeapInv Proofs.HeapHist Proofs.ParamHeap Proofs.WeakOrder Proofs.HeapLift
  Proofs.FloatOrder Proofs.FloatRank.
Import ListNotations.

Section FloatHeap.
  Variable top : float.
  Hypothesis Htop : fnn top.

  Theorem float_heap_inv size pol ops :
    ops_in fnn ops -> valid_histW PrimFloat.ltb top (h_init top size pol) ops ->
    let h := fst (run PrimFloat.ltb top (h_init top size pol) ops) in
    InvW PrimFloat.ltb h /\ hsize h = size /\ hpol h = pol.
  Proof. exact (hist_inv_Ww fnn PrimFloat.ltb float_weak_order top Htop size pol ops). Qed.

  Theorem float_heap_step h o :
    Forall fnn (hcost h) -> Forall fnn (op_costs o) ->
    InvW PrimFloat.ltb h -> valid_opW PrimFloat.ltb top h o ->
    let '(h', res) := step PrimFloat.ltb top h o in
    InvW PrimFloat.ltb h' /\ hsize h' = hsize h /\ hpol h' = hpol h /\
    pq_stepW PrimFloat.ltb top (hsize h) (hpol h) (absW h) o res (absW h') /\
    Permutation (queued h ++ ins_ofW h o res) (rem_of res ++ queued h').
  Proof. exact (step_spec_Ww fnn PrimFloat.ltb float_weak_order top Htop h o). Qed.

  Theorem float_heap_refines size pol ops :
    ops_in fnn ops -> valid_histW PrimFloat.ltb top (h_init top size pol) ops ->
    pq_runW PrimFloat.ltb top size pol (absW (h_init top size pol)) ops
            (snd (run PrimFloat.ltb top (h_init top size pol) ops))
            (absW (fst (run PrimFloat.ltb top (h_init top size pol) ops))).
  Proof. exact (histories_refine_pq_Ww fnn PrimFloat.ltb float_weak_order top Htop size pol ops). Qed.

  Theorem float_heap_conservation size pol ops :
    ops_in fnn ops -> valid_histW PrimFloat.ltb top (h_init top size pol) ops ->
    Permutation (insertedW PrimFloat.ltb top (h_init top size pol) ops)
                (removed (snd (run PrimFloat.ltb top (h_init top size pol) ops))
                 ++ queued (fst (run PrimFloat.ltb top (h_init top size pol) ops))).
  Proof. exact (conservation_Ww fnn PrimFloat.ltb float_weak_order top Htop size pol ops). Qed.

  Theorem float_heap_remove_extremal size pol ops :
    ops_in fnn ops -> valid_histW PrimFloat.ltb top (h_init top size pol) ops ->
    let h := fst (run PrimFloat.ltb top (h_init top size pol) ops) in
    match step PrimFloat.ltb top h ORem with
    | (h', RElem p) =>
        In p (queued h) /\
        (forall q, In q (queued h) ->
           better PrimFloat.ltb pol (nth q (hcost h) top) (nth p (hcost h) top) = false) /\
        Permutation (queued h) (p :: queued h') /\ hcost h' = hcost h
    | (h', RFalse) => queued h = [] /\ h' = h
    | _ => False
    end.
  Proof. exact (hist_remove_extremal_Ww fnn PrimFloat.ltb float_weak_order top Htop size pol ops). Qed.

  (* the run on floats and the run on integer codes *)
  Theorem float_heap_coded (f : float -> Z) size pol ops :
    (forall a b, fnn a -> fnn b -> Z.ltb (f a) (f b) = PrimFloat.ltb a b) ->
    ops_in fnn ops ->
    run Z.ltb (f top) (h_init (f top) size pol) (map (map_op f) ops)
    = (map_heap f (fst (run PrimFloat.ltb top (h_init top size pol) ops)),
       snd (run PrimFloat.ltb top (h_init top size pol) ops)).
  Proof.
    intros Hf Hops.
    destruct (rescale_run_on fnn f PrimFloat.ltb Z.ltb Hf top ops (h_init top size pol) Htop
                (init_costs_in fnn top Htop size pol) Hops) as [_ E].
    rewrite <- E. f_equal. unfold h_init, map_heap.
    cbn [hsize hpol hcost hcolor hp hpos hn]. now rewrite map_repeat_Z.
  Qed.

  Theorem float_heap_enc size pol ops :
    ops_in fnn ops ->
    run Z.ltb (fenc top) (h_init (fenc top) size pol) (map (map_op fenc) ops)
    = (map_heap fenc (fst (run PrimFloat.ltb top (h_init top size pol) ops)),
       snd (run PrimFloat.ltb top (h_init top size pol) ops)).
  Proof.
    apply float_heap_coded. intros a b Ha Hb. symmetry. now apply fenc_ltb.
  Qed.
End FloatHeap.

(* ---------- non-vacuity: capacity 3, minimum policy, costs with ties and both zeros ---------- *)

Definition exfh_top : float := 0x1.fffffffffffffp+1023%float.

Definition exfh_ops : list (@op float) :=
  [OIsEmpty; OUpd 0 0.5; OUpd 1 0.5; OIns 2; OIsFull; ORem; OUpd 2 0; OUpd 1 (-0);
   OIns 0; OIsFull; ORem; ORem; OUpd 0 0.25; ORem; ORem; OIsEmpty]%float.

Lemma exfh_premises :
  fnn exfh_top /\ ops_in fnn exfh_ops /\
  valid_histW PrimFloat.ltb exfh_top (h_init exfh_top 3 PMin) exfh_ops.
Proof.
  split; [reflexivity|]. split.
  - unfold exfh_ops. repeat constructor.
  - apply valid_histbW_sound. vm_compute. reflexivity.
Qed.

(* elements 2 (cost +0) and 1 (cost -0) tie for the second removal *)
Lemma exfh_outputs :
  snd (run PrimFloat.ltb exfh_top (h_init exfh_top 3 PMin) exfh_ops) =
    [RBool true; RUnit; RUnit; RBool true; RBool true; RElem 0; RUnit; RUnit; RBool true;
     RBool true; RElem 2; RElem 1; RUnit; RElem 0; RFalse; RBool true].
Proof. vm_compute. reflexivity. Qed.
