(* C03 / C09 (supervised part): SupervisedOPF.predict (Model/Sup.v: scan, predict_one,
   predict_batch).

   - the cost-ordered scan with early exit returns the FIRST minimiser (in conquest order)
     of max(cost t, d t) over ALL training samples, and that sample is the conqueror;
   - the scan without the early-exit test ([scan_full]) returns the same pair;
   - a batch prediction is the pointwise map of [predict_one] over the batch and changes
     nothing in the node table but the relevance flags. *)
From Coq Require Import ZArith List Arith Bool Lia Permutation.
From OPF Require Import Base.Lists Model.Sup.
Import ListNotations.

(* ------------------------------------------------------------------------------------ *)
(* generic part: any weight type                                                        *)

Section Generic.
  Context {W : Type}.
  Variable ltb : W -> W -> bool.
  Variable zero : W.

  (* the node table with other relevance flags *)
  Definition set_rel (nd : @nodes W) (r : list bool) : @nodes W :=
    mkNodes (n_cost nd) (n_pred nd) (n_label nd) (n_plabel nd) (n_status nd) r (n_order nd).

  (* the scan of [predict] WITHOUT the early-exit test on the next node's cost *)
  Fixpoint scan_full (fuel : nat) (nd : @nodes W) (d : nat -> W) (n j : nat) (min_cost : W) (lab : nat)
           (conq : option nat) : nat * option nat :=
    match fuel with
    | 0 => (lab, conq)
    | S f =>
      if Nat.ltb j (n - 1) then
        let l := nth (j + 1) (n_order nd) 0 in
        let tmp := wmax ltb (nth l (n_cost nd) zero) (d l) in
        if ltb tmp min_cost
        then scan_full f nd d n (j + 1) tmp (nth l (n_plabel nd) 0) (Some l)
        else scan_full f nd d n (j + 1) min_cost lab conq
      else (lab, conq)
    end.

  Definition predict_one_full (nd : @nodes W) (d : nat -> W) : nat * option nat :=
    let n := length (n_cost nd) in
    let k := nth 0 (n_order nd) 0 in
    scan_full n nd d n 0 (wmax ltb (nth k (n_cost nd) zero) (d k)) (nth k (n_plabel nd) 0) (Some k).

  (* the scan reads only cost, predicted label and conquest order *)
  Lemma scan_fields : forall fuel (nd1 nd2 : @nodes W) d n j mc lab conq,
    n_cost nd1 = n_cost nd2 -> n_plabel nd1 = n_plabel nd2 -> n_order nd1 = n_order nd2 ->
    scan ltb zero fuel nd1 d n j mc lab conq = scan ltb zero fuel nd2 d n j mc lab conq.
  Proof.
    induction fuel as [|f IH]; intros nd1 nd2 d n j mc lab conq Hc Hp Ho; cbn [scan]; auto.
    rewrite Hc, Hp, Ho.
    destruct (Nat.ltb j (n - 1) && ltb (nth (nth (j + 1) (n_order nd2) 0) (n_cost nd2) zero) mc); auto.
    destruct (ltb (wmax ltb (nth (nth (j + 1) (n_order nd2) 0) (n_cost nd2) zero)
                        (d (nth (j + 1) (n_order nd2) 0))) mc); apply IH; auto.
  Qed.

  Lemma predict_one_fields : forall (nd1 nd2 : @nodes W) d,
    n_cost nd1 = n_cost nd2 -> n_plabel nd1 = n_plabel nd2 -> n_order nd1 = n_order nd2 ->
    predict_one ltb zero nd1 d = predict_one ltb zero nd2 d.
  Proof.
    intros nd1 nd2 d Hc Hp Ho. unfold predict_one.
    rewrite (scan_fields _ nd1 nd2) by auto. now rewrite Hc, Hp, Ho.
  Qed.

  Lemma predict_one_set_rel : forall (nd : @nodes W) r d,
    predict_one ltb zero (set_rel nd r) d = predict_one ltb zero nd d.
  Proof. intros; apply predict_one_fields; reflexivity. Qed.

  (* one relevance update of [predict_step] *)
  Definition rel_step (nd : @nodes W) (rel : list bool) (d : nat -> W) : list bool :=
    match snd (predict_one ltb zero nd d) with
    | Some c => mark_nodes (S (length (n_cost nd))) (n_pred nd) rel c
    | None => rel
    end.

  Lemma rel_step_set_rel : forall (nd : @nodes W) r rel d,
    rel_step (set_rel nd r) rel d = rel_step nd rel d.
  Proof. intros; unfold rel_step; rewrite predict_one_set_rel; reflexivity. Qed.

  Lemma fold_left_ext {A B} (f g : A -> B -> A) : (forall a b, f a b = g a b) ->
    forall l a, fold_left f l a = fold_left g l a.
  Proof. intros H l; induction l as [|x l IH]; intros a; cbn; auto. rewrite H; apply IH. Qed.

  Lemma predict_step_shape : forall (nd : @nodes W) out d,
    predict_step ltb zero (nd, out) d =
    (set_rel nd (rel_step nd (n_relevant nd) d), out ++ [fst (predict_one ltb zero nd d)]).
  Proof.
    intros nd out d. unfold predict_step, rel_step.
    destruct (predict_one ltb zero nd d) as [lab conq]; cbn [fst snd].
    destruct conq; reflexivity.
  Qed.

  (* the whole batch: relevance flags are folded, labels are the pointwise map *)
  Lemma predict_fold_shape : forall ds (nd : @nodes W) out,
    fold_left (predict_step ltb zero) ds (nd, out) =
    (set_rel nd (fold_left (rel_step nd) ds (n_relevant nd)),
     out ++ map (fun d => fst (predict_one ltb zero nd d)) ds).
  Proof.
    induction ds as [|d ds IH]; intros nd out; cbn [fold_left map].
    - rewrite app_nil_r. destruct nd; reflexivity.
    - rewrite predict_step_shape, IH. f_equal.
      + rewrite (fold_left_ext _ (rel_step nd)) by (intros; apply rel_step_set_rel).
        reflexivity.
      + rewrite <- app_assoc; cbn [app]. f_equal. f_equal.
        apply map_ext; intros; rewrite predict_one_set_rel; reflexivity.
  Qed.

  Lemma predict_batch_shape : forall (nd : @nodes W) ds,
    predict_batch ltb zero nd ds =
    (set_rel nd (fold_left (rel_step nd) ds (n_relevant nd)),
     map (fun d => fst (predict_one ltb zero nd d)) ds).
  Proof. intros; unfold predict_batch; rewrite predict_fold_shape; reflexivity. Qed.

  (* C09, supervised / semi-supervised: position in the batch, the other rows, duplicates and
     earlier calls are irrelevant; only the relevance flags of the model change *)
  Lemma sup_predict_pointwise_gen : forall (nd : @nodes W) ds,
    snd (predict_batch ltb zero nd ds) = map (fun d => fst (predict_one ltb zero nd d)) ds /\
    let nd' := fst (predict_batch ltb zero nd ds) in
    n_cost nd' = n_cost nd /\ n_pred nd' = n_pred nd /\ n_label nd' = n_label nd /\
    n_plabel nd' = n_plabel nd /\ n_status nd' = n_status nd /\ n_order nd' = n_order nd.
  Proof. intros; rewrite predict_batch_shape; cbn; repeat split. Qed.

  (* a later call sees the same model: predictions of a second batch do not depend on the first *)
  Lemma sup_predict_after_predict_gen : forall (nd : @nodes W) ds1 ds2,
    snd (predict_batch ltb zero (fst (predict_batch ltb zero nd ds1)) ds2) =
    snd (predict_batch ltb zero nd ds2).
  Proof.
    intros. rewrite !predict_batch_shape; cbn [fst snd].
    apply map_ext; intros; rewrite predict_one_set_rel; reflexivity.
  Qed.
End Generic.

(* ------------------------------------------------------------------------------------ *)
(* W := Z                                                                               *)

Local Open Scope Z_scope.

Lemma wmax_Zmax a b : wmax Z.ltb a b = Z.max a b.
Proof. unfold wmax; destruct (Z.ltb_spec a b); lia. Qed.

(* cost of a training node, and the value it offers to a query with distances [d] *)
Definition pcost (zero : Z) (nd : @nodes Z) (q : nat) : Z := nth q (n_cost nd) zero.
Definition pval (zero : Z) (nd : @nodes Z) (d : nat -> Z) (q : nat) : Z := Z.max (pcost zero nd q) (d q).
Definition pplabel (nd : @nodes Z) (q : nat) : nat := nth q (n_plabel nd) 0%nat.

(* specification: the first minimiser of [val] along a list (strict improvement only) *)
Fixpoint first_min (val : nat -> Z) (l : list nat) (best : nat) : nat :=
  match l with
  | [] => best
  | x :: t => if Z.ltb (val x) (val best) then first_min val t x else first_min val t best
  end.

Definition first_minimiser (val : nat -> Z) (order : list nat) : nat :=
  match order with
  | [] => 0%nat
  | x :: t => first_min val t x
  end.

Lemma first_min_spec (val : nat -> Z) : forall l b,
  (first_min val l b = b \/ In (first_min val l b) l) /\
  val (first_min val l b) <= val b /\
  (forall x, In x l -> val (first_min val l b) <= val x).
Proof.
  induction l as [|x l IH]; intros b; cbn [first_min].
  - repeat split; auto; try lia. intros x [].
  - destruct (Z.ltb_spec (val x) (val b)) as [Hlt|Hge].
    + destruct (IH x) as (Hin & Hle & Hall). repeat split.
      * right. destruct Hin as [->|Hin]; [left; auto | right; auto].
      * lia.
      * intros y [<-|Hy]; auto.
    + destruct (IH b) as (Hin & Hle & Hall). repeat split.
      * destruct Hin as [->|Hin]; [left; auto | right; right; auto].
      * lia.
      * intros y [<-|Hy]; auto. lia.
Qed.

(* ... and it is the first one: everything before it in [b :: l] is strictly worse *)
Lemma first_min_first (val : nat -> Z) : forall l b,
  exists i, (i <= length l)%nat /\ nth i (b :: l) 0%nat = first_min val l b /\
    forall i', (i' < i)%nat -> val (first_min val l b) < val (nth i' (b :: l) 0%nat).
Proof.
  induction l as [|x l IH]; intros b; cbn [first_min].
  - exists 0%nat. repeat split; auto. intros i' Hi; lia.
  - destruct (Z.ltb_spec (val x) (val b)) as [Hlt|Hge].
    + destruct (IH x) as (i & Hi & Hn & Hbefore).
      destruct (first_min_spec val l x) as (_ & Hle & _).
      exists (S i). cbn [length]. repeat split; try lia.
      * cbn [nth]. exact Hn.
      * intros [|i'] Hlt'; cbn [nth]; [lia|]. apply Hbefore; lia.
    + destruct (IH b) as (i & Hi & Hn & Hbefore).
      destruct i as [|i0].
      * exists 0%nat. cbn [length]. repeat split; try lia.
        cbn [nth] in *. exact Hn.
      * exists (S (S i0)). cbn [length]. repeat split; try lia.
        -- cbn [nth] in *. exact Hn.
        -- intros [|[|k]] Hlt'; cbn [nth].
           ++ apply (Hbefore 0%nat); lia.
           ++ specialize (Hbefore 0%nat ltac:(lia)); cbn [nth] in Hbefore; lia.
           ++ specialize (Hbefore (S k) ltac:(lia)); cbn [nth] in Hbefore; exact Hbefore.
Qed.

Lemma skipn_cons_nth {A} (d : A) : forall (l : list A) i,
  (i < length l)%nat -> skipn i l = nth i l d :: skipn (S i) l.
Proof.
  induction l as [|x l IH]; intros [|i] Hi; cbn [length] in *; try lia; auto.
  cbn [skipn nth]. rewrite IH by lia. reflexivity.
Qed.

Section ScanZ.
  Variable zero : Z.
  Variable nd : @nodes Z.
  Variable d : nat -> Z.

  Let n := length (n_cost nd).
  Let order := n_order nd.
  Let val := pval zero nd d.

  (* the full scan from position j with current best [c] = first minimiser of the rest *)
  Lemma scan_full_first_min : forall fuel j c,
    length order = n -> (j < n)%nat -> (n - 1 - j <= fuel)%nat ->
    scan_full Z.ltb zero fuel nd d n j (val c) (pplabel nd c) (Some c) =
    (pplabel nd (first_min val (skipn (S j) order) c), Some (first_min val (skipn (S j) order) c)).
  Proof.
    induction fuel as [|f IH]; intros j c Hlen Hj Hf.
    - cbn [scan_full]. rewrite skipn_all2 by (fold order in Hlen; lia). reflexivity.
    - cbn [scan_full]. destruct (Nat.ltb_spec j (n - 1)) as [Hlt|Hge].
      + rewrite (skipn_cons_nth 0%nat order (S j)) by lia.
        cbn [first_min]. rewrite Nat.add_1_r. fold order. rewrite wmax_Zmax.
        change (Z.max (nth (nth (S j) order 0%nat) (n_cost nd) zero) (d (nth (S j) order 0%nat)))
          with (val (nth (S j) order 0%nat)).
        destruct (Z.ltb (val (nth (S j) order 0%nat)) (val c)).
        * apply IH; auto; lia.
        * apply IH; auto; lia.
      + rewrite skipn_all2 by lia. reflexivity.
  Qed.

  Lemma predict_one_full_first_min :
    length order = n -> (1 <= n)%nat ->
    predict_one_full Z.ltb zero nd d =
    (pplabel nd (first_minimiser val order), Some (first_minimiser val order)).
  Proof.
    intros Hlen Hn. unfold predict_one_full. fold n. fold order. rewrite wmax_Zmax.
    change (Z.max (nth (nth 0 order 0%nat) (n_cost nd) zero) (d (nth 0 order 0%nat)))
      with (val (nth 0 order 0%nat)).
    change (nth (nth 0 order 0%nat) (n_plabel nd) 0%nat) with (pplabel nd (nth 0 order 0%nat)).
    rewrite scan_full_first_min by (auto; lia).
    destruct order as [|x t] eqn:E; [cbn in Hlen; lia|]. reflexivity.
  Qed.

  (* once every remaining node offers at least the current minimum, the full scan changes nothing *)
  Lemma scan_full_stable : forall fuel j mc lab conq,
    (forall i, (j < i)%nat -> (i < n)%nat -> mc <= val (nth i order 0%nat)) ->
    scan_full Z.ltb zero fuel nd d n j mc lab conq = (lab, conq).
  Proof.
    induction fuel as [|f IH]; intros j mc lab conq Hall; cbn [scan_full]; auto.
    destruct (Nat.ltb_spec j (n - 1)) as [Hlt|Hge]; auto.
    rewrite wmax_Zmax, Nat.add_1_r. fold order.
    change (Z.max (nth (nth (S j) order 0%nat) (n_cost nd) zero) (d (nth (S j) order 0%nat)))
      with (val (nth (S j) order 0%nat)).
    destruct (Z.ltb_spec (val (nth (S j) order 0%nat)) mc) as [Hlt'|Hge'].
    - specialize (Hall (S j) ltac:(lia) ltac:(lia)); lia.
    - apply IH. intros i Hi Hin; apply Hall; lia.
  Qed.

  Hypothesis sorted : forall i j, (i < j)%nat -> (j < n)%nat ->
    pcost zero nd (nth i order 0%nat) <= pcost zero nd (nth j order 0%nat).

  (* the early exit is sound: the scan as coded equals the scan without the cost test *)
  Lemma scan_eq_full : forall fuel j mc lab conq,
    scan Z.ltb zero fuel nd d n j mc lab conq = scan_full Z.ltb zero fuel nd d n j mc lab conq.
  Proof.
    induction fuel as [|f IH]; intros j mc lab conq; auto.
    destruct (Nat.ltb j (n - 1) &&
              Z.ltb (nth (nth (j + 1) (n_order nd) 0%nat) (n_cost nd) zero) mc) eqn:E.
    - cbn [scan scan_full]. rewrite E.
      apply andb_true_iff in E. destruct E as [E1 E2]. rewrite E1.
      destruct (Z.ltb (wmax Z.ltb (nth (nth (j + 1) (n_order nd) 0%nat) (n_cost nd) zero)
                         (d (nth (j + 1) (n_order nd) 0%nat))) mc); apply IH.
    - cbn [scan]. rewrite E. symmetry.
      destruct (Nat.ltb_spec j (n - 1)) as [Hlt|Hge].
      + cbn [andb] in E. apply Z.ltb_ge in E.
        apply scan_full_stable. intros i Hi Hin.
        assert (Hs : pcost zero nd (nth (j + 1) order 0%nat) <= pcost zero nd (nth i order 0%nat)).
        { destruct (Nat.eq_dec i (j + 1)) as [->|Hne]; [lia|]. apply sorted; lia. }
        unfold val, pval. unfold pcost in Hs at 1. fold order in E. lia.
      + cbn [scan_full]. destruct (Nat.ltb_spec j (n - 1)); [lia|]. reflexivity.
  Qed.

  Lemma predict_one_eq_full : predict_one Z.ltb zero nd d = predict_one_full Z.ltb zero nd d.
  Proof. unfold predict_one, predict_one_full. apply scan_eq_full. Qed.
End ScanZ.

(* ------------------------------------------------------------------------------------ *)
(* C03                                                                                  *)

Theorem early_exit_sound : forall (zero : Z) (nd : @nodes Z) (d : nat -> Z),
  let n := length (n_cost nd) in
  (1 <= n)%nat ->
  length (n_order nd) = n ->
  (forall i j, (i < j)%nat -> (j < n)%nat ->
     pcost zero nd (nth i (n_order nd) 0%nat) <= pcost zero nd (nth j (n_order nd) 0%nat)) ->
  predict_one Z.ltb zero nd d = predict_one_full Z.ltb zero nd d /\
  predict_one Z.ltb zero nd d =
    (pplabel nd (first_minimiser (pval zero nd d) (n_order nd)),
     Some (first_minimiser (pval zero nd d) (n_order nd))).
Proof.
  intros zero nd d n Hn Hlen Hsorted.
  assert (E : predict_one Z.ltb zero nd d = predict_one_full Z.ltb zero nd d)
    by (apply predict_one_eq_full; exact Hsorted).
  split; auto. rewrite E. apply predict_one_full_first_min; auto.
Qed.

Theorem predict_is_argmin : forall (zero : Z) (nd : @nodes Z) (d : nat -> Z),
  let n := length (n_cost nd) in
  (1 <= n)%nat ->
  Permutation (n_order nd) (seq 0 n) ->
  (forall i j, (i < j)%nat -> (j < n)%nat ->
     pcost zero nd (nth i (n_order nd) 0%nat) <= pcost zero nd (nth j (n_order nd) 0%nat)) ->
  exists t i,
    (t < n)%nat /\
    predict_one Z.ltb zero nd d = (pplabel nd t, Some t) /\
    (forall s, (s < n)%nat -> pval zero nd d t <= pval zero nd d s) /\
    (i < n)%nat /\ nth i (n_order nd) 0%nat = t /\
    (forall i', (i' < i)%nat -> pval zero nd d t < pval zero nd d (nth i' (n_order nd) 0%nat)).
Proof.
  intros zero nd d n Hn Hperm Hsorted.
  assert (Hlen : length (n_order nd) = n)
    by (rewrite (Permutation_length Hperm), seq_length; reflexivity).
  destruct (early_exit_sound zero nd d Hn Hlen Hsorted) as [_ E].
  set (val := pval zero nd d) in *.
  destruct (n_order nd) as [|b l] eqn:Eo; [cbn in Hlen; lia|].
  cbn [first_minimiser] in E.
  destruct (first_min_spec val l b) as (Hin & Hle & Hall).
  destruct (first_min_first val l b) as (i & Hi & Hnth & Hbefore).
  set (t := first_min val l b) in *.
  assert (Hint : In t (b :: l)) by (destruct Hin as [->|Hin]; [left; auto | right; auto]).
  exists t, i. repeat split; auto.
  - apply (Permutation_in _ Hperm) in Hint. apply in_seq in Hint. lia.
  - intros s Hs.
    assert (Hins : In s (b :: l)).
    { apply (Permutation_in _ (Permutation_sym Hperm)). apply in_seq. lia. }
    destruct Hins as [<-|Hins]; auto.
  - cbn [length] in Hlen. lia.
Qed.

(* the label alone, as in the property text *)
Corollary predict_label_is_argmin : forall (zero : Z) (nd : @nodes Z) (d : nat -> Z),
  let n := length (n_cost nd) in
  (1 <= n)%nat ->
  Permutation (n_order nd) (seq 0 n) ->
  (forall i j, (i < j)%nat -> (j < n)%nat ->
     pcost zero nd (nth i (n_order nd) 0%nat) <= pcost zero nd (nth j (n_order nd) 0%nat)) ->
  exists t, (t < n)%nat /\ fst (predict_one Z.ltb zero nd d) = pplabel nd t /\
    snd (predict_one Z.ltb zero nd d) = Some t /\
    forall s, (s < n)%nat -> pval zero nd d t <= pval zero nd d s.
Proof.
  intros zero nd d n Hn Hperm Hsorted.
  destruct (predict_is_argmin zero nd d Hn Hperm Hsorted) as (t & i & Ht & E & Hmin & _).
  exists t. rewrite E. repeat split; auto.
Qed.

(* ------------------------------------------------------------------------------------ *)
(* example: the forest of Proofs/FitExample.v (5 samples, 2 classes) and a query that is
   equidistant (distance 1) from the two prototypes 2 (class 0) and 3 (class 1): both are
   minimisers of max(cost, d); the first in conquest order, sample 2, wins. *)

Definition ex_nd : @nodes Z :=
  mkNodes [2; 2; 0; 0; 2] [Some 1; Some 2; None; None; Some 3]%nat [0; 0; 0; 1; 1]%nat
          [0; 0; 0; 1; 1]%nat [false; false; true; true; false]
          [false; false; false; false; false] [2; 3; 1; 4; 0]%nat.

Definition ex_d (k : nat) : Z := nth k [5; 3; 1; 1; 4] 0.

Lemma ex_equidistant :
  predict_one Z.ltb 0 ex_nd ex_d = (0%nat, Some 2%nat) /\
  predict_one_full Z.ltb 0 ex_nd ex_d = (0%nat, Some 2%nat) /\
  pval 0 ex_nd ex_d 2 = 1 /\ pval 0 ex_nd ex_d 3 = 1 /\
  pplabel ex_nd 2 = 0%nat /\ pplabel ex_nd 3 = 1%nat /\
  map (pval 0 ex_nd ex_d) (seq 0 5) = [5; 3; 1; 1; 4].
Proof. vm_compute. repeat split. Qed.

(* the same facts with the definitions written out (statement of Props/C03.v) *)
Lemma ex_equidistant_props :
  predict_one Z.ltb 0 ex_nd ex_d = (0%nat, Some 2%nat) /\
  predict_one_full Z.ltb 0 ex_nd ex_d = (0%nat, Some 2%nat) /\
  map (fun q => Z.max (nth q (n_cost ex_nd) 0) (ex_d q)) (seq 0 5) = [5; 3; 1; 1; 4] /\
  nth 2 (n_plabel ex_nd) 0%nat = 0%nat /\ nth 3 (n_plabel ex_nd) 0%nat = 1%nat.
Proof. vm_compute. repeat split. Qed.
