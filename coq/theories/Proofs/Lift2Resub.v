(* C04 (supervised half) for an arbitrary strict total order: with tie-free weights (symmetric,
   pairwise distinct on unordered pairs, strictly between [zero] and [top]) and at least two
   classes, supervised training gives every training sample its own label and predicting the
   training set returns the training labels.

   Lifted from W := Z (Resub.v).  The run on (W, ltb) and the run on (Z, Z.ltb) with
   rank-encoded weights are related by [LiftSup.sup_fit_rank_related] (abstraction theorem
   [param_sup_fit]); the rank map is injective on the weights below [n], so the ranked weights are
   again tie-free; the prediction is related by [param_predict_one] after clipping the query
   distances to the node numbers the scan reads ([predict_one_b]). *)
From Coq Require Import List Arith Bool ZArith Lia Permutation.
From OPF Require Import Base.Lists Base.TotalOrder Model.Heap Model.Sup.
From OPF Require Import Proofs.ParamBase Proofs.ParamSup Proofs.Rescale Proofs.WeightsExtBounded
  Proofs.OrderEmbed Proofs.LiftSup Proofs.ResubBase Proofs.Resub.
Import ListNotations.
Close Scope Z_scope.

Definition tie_freeW {W} (ltb : W -> W -> bool) (n : nat) (w : nat -> nat -> W) (zero top : W) : Prop :=
  (forall p q, p < n -> q < n -> w p q = w q p) /\
  (forall a b c d, a < n -> b < n -> c < n -> d < n -> a <> b -> c <> d ->
     w a b = w c d -> (a = c /\ b = d) \/ (a = d /\ b = c)) /\
  (forall p q, p < n -> q < n -> p <> q -> ltb zero (w p q) = true /\ ltb (w p q) top = true).

(* distances of training row t to the training set, [zero] self-distance *)
Definition train_rowW {W} (zero : W) (w : nat -> nat -> W) (t : nat) : nat -> W :=
  fun s => if Nat.eqb s t then zero else w s t.

Section LiftResub.
  Context {W : Type} (ltb : W -> W -> bool).
  Hypothesis O : strict_total_order ltb.
  Variables (zero top : W) (n : nat) (w : nat -> nat -> W) (labels : list nat).
  Hypothesis Hl : length labels = n.
  Hypothesis Htf : tie_freeW ltb n w zero top.
  Hypothesis H2 : exists a b, a < n /\ b < n /\ nth a labels 0 <> nth b labels 0.

  Local Notation vals := (zero :: top :: weight_vals n w).
  Local Notation r := (rk ltb vals).
  Local Notation wZ := (fun p q => r (w p q)).
  Local Notation nd := (sup_fit ltb zero top labels w).
  Local Notation ndZ := (sup_fit Z.ltb (r zero) (r top) labels wZ).

  Let Hz : In zero vals.
  Proof. now left. Qed.
  Let Ht : In top vals.
  Proof. right; now left. Qed.
  Let Hwv : forall p q, p < n -> q < n -> In (w p q) vals.
  Proof. intros p q Hp Hq. right; right. now apply weight_vals_in. Qed.

  Let Hrel : nodes_rel (rank_rel ltb vals) nd ndZ.
  Proof.
    pose proof (sup_fit_rank_related ltb O zero top labels w) as H. cbv zeta in H.
    rewrite Hl in H. exact H.
  Qed.

  Let HtfZ : tie_free n wZ (r zero) (r top).
  Proof.
    destruct Htf as (S & D & B). split; [|split].
    - intros p q Hp Hq. now rewrite (S p q Hp Hq).
    - intros a b c d Ha Hb Hc Hd Hab Hcd E. apply (D a b c d); try assumption.
      exact (rk_inj ltb O vals _ _ (Hwv a b Ha Hb) (Hwv c d Hc Hd) E).
    - intros p q Hp Hq Hpq. destruct (B p q Hp Hq Hpq) as [B1 B2]. split.
      + exact (proj2 (rk_lt_iff ltb O vals _ _ Hz (Hwv p q Hp Hq)) B1).
      + exact (proj2 (rk_lt_iff ltb O vals _ _ (Hwv p q Hp Hq) Ht) B2).
  Qed.

  Theorem sup_train_labels_own_anyorder :
    forall q, q < n -> nth q (n_plabel nd) 0 = nth q labels 0.
  Proof.
    intros q Hq. destruct Hrel as (_ & _ & _ & Epl & _). rewrite Epl.
    exact (sup_train_labels_own (r zero) (r top) n wZ labels Hl HtfZ H2 q Hq).
  Qed.

  Theorem sup_cost_lt_cross_anyorder :
    forall a b, a < n -> b < n -> nth a labels 0 <> nth b labels 0 ->
      ltb (nth b (n_cost nd) zero) (w a b) = true.
  Proof.
    intros a b Ha Hb Hab. destruct Hrel as (Ec & _).
    apply Forall2_rank_rel in Ec. destruct Ec as [Hin Ec].
    pose proof (sup_cost_lt_cross (r zero) (r top) n wZ labels Hl HtfZ H2 a b Ha Hb Hab) as H.
    cbv zeta in H. rewrite Ec, map_nth in H.
    apply (rk_lt_iff ltb O vals _ _); [|now apply Hwv|exact H].
    now apply (Forall_in_nth vals).
  Qed.

  Theorem sup_link_same_label_anyorder :
    forall q p, q < n -> nth q (n_pred nd) None = Some p -> nth p labels 0 = nth q labels 0.
  Proof.
    intros q p Hq Hp. destruct Hrel as (_ & Epr & _). rewrite Epr in Hp.
    exact (sup_link_same_label (r zero) (r top) n wZ labels Hl HtfZ H2 q p Hq Hp).
  Qed.

  Theorem sup_predict_train_exact_anyorder :
    forall (t : nat) (d : nat -> W), t < n ->
      d t = zero -> (forall s, s < n -> s <> t -> d s = w s t) ->
      fst (predict_one ltb zero nd d) = nth t labels 0.
  Proof.
    intros t d Htn Hdt Hd.
    set (dc := clip1 n zero d).
    assert (Hdin : forall k, k < n -> In (d k) vals).
    { intros k Hk. destruct (Nat.eq_dec k t) as [->|Hne].
      - rewrite Hdt. exact Hz.
      - rewrite (Hd k Hk Hne). now apply Hwv. }
    assert (Hdc : forall k, In (dc k) vals) by (intros k; now apply clip1_in).
    assert (Hord : Forall (fun k => k < n) (n_order nd)).
    { destruct (sup_fit_ext_bounded ltb zero top labels w w (fun p q _ _ => eq_refl)) as [_ H].
      rewrite Hl in H. exact H. }
    assert (E1 : predict_one ltb zero nd d = predict_one ltb zero nd dc).
    { apply predict_one_b. intros k [->|Hk].
      - symmetry. apply clip1_below. lia.
      - symmetry. apply clip1_below. exact (proj1 (Forall_forall _ _) Hord k Hk). }
    assert (E2 : predict_one ltb zero nd dc = predict_one Z.ltb (r zero) ndZ (fun k => r (dc k))).
    { apply (param_predict_one (rank_rel ltb vals) ltb Z.ltb (rank_rel_compat ltb O vals)).
      - split; [exact Hz | reflexivity].
      - exact Hrel.
      - intros k. split; [apply Hdc | reflexivity]. }
    rewrite E1, E2.
    apply (sup_predict_train_exact (r zero) (r top) n wZ labels Hl HtfZ H2 t (fun k => r (dc k)) Htn).
    - unfold dc. rewrite clip1_below by exact Htn. now rewrite Hdt.
    - intros s Hs Hne. unfold dc. rewrite clip1_below by exact Hs. now rewrite (Hd s Hs Hne).
  Qed.

  (* the whole training set as one batch: zero resubstitution error *)
  Theorem sup_predict_train_batch_exact_anyorder :
    snd (predict_batch ltb zero nd (map (train_rowW zero w) (seq 0 n))) = labels.
  Proof.
    rewrite predict_batch_map, map_map.
    apply (nth_ext _ _ 0 0).
    - rewrite map_length, seq_length. symmetry; exact Hl.
    - intros t Htn. rewrite map_length, seq_length in Htn.
      rewrite (nth_indep _ 0 (fst (predict_one ltb zero nd (train_rowW zero w 0))))
        by (rewrite map_length, seq_length; exact Htn).
      rewrite (map_nth (fun x => fst (predict_one ltb zero nd (train_rowW zero w x)))), seq_nth
        by exact Htn.
      cbn [plus].
      apply (sup_predict_train_exact_anyorder t (train_rowW zero w t) Htn).
      + unfold train_rowW. rewrite Nat.eqb_refl. reflexivity.
      + intros s _ Hne. unfold train_rowW. destruct (Nat.eqb_spec s t); [contradiction|reflexivity].
  Qed.
End LiftResub.

(* ---------- W := nat: five points 0, 2, 6, 14, 30 on a line, classes 0 0 0 1 1 (the instance
   of ResubExample.v), weights read as naturals ---------- *)
From OPF Require Import Proofs.LiftInst Proofs.ResubExample.

Definition rxn_w (p q : nat) : nat := Z.to_nat (rx_w p q).

Example rxn_premises :
  strict_total_order Nat.ltb /\ tie_freeW Nat.ltb 5 rxn_w 0 1000 /\ length rx_labels = 5 /\
  (exists a b, a < 5 /\ b < 5 /\ nth a rx_labels 0 <> nth b rx_labels 0).
Proof.
  split; [exact nat_order|]. split; [|split; [reflexivity | exact rx_two_classes]].
  destruct rx_tie_free as (S & D & B). unfold rx_top in B. split; [|split].
  - intros p q Hp Hq. unfold rxn_w. now rewrite (S p q Hp Hq).
  - intros a b c d Ha Hb Hc Hd Hab Hcd E. apply (D a b c d); try assumption.
    unfold rxn_w in E. pose proof (B a b Ha Hb Hab). pose proof (B c d Hc Hd Hcd). lia.
  - intros p q Hp Hq Hpq. unfold rxn_w. pose proof (B p q Hp Hq Hpq).
    split; apply Nat.ltb_lt; lia.
Qed.

Example rxn_result :
  sup_fit Nat.ltb 0 1000 rx_labels rxn_w
  = mkNodes [4; 4; 0; 0; 16] [Some 1; Some 2; None; None; Some 3] [0; 0; 0; 1; 1]
            [0; 0; 0; 1; 1] [false; false; true; true; false]
            [false; false; false; false; false] [2; 3; 1; 0; 4] /\
  snd (predict_batch Nat.ltb 0 (sup_fit Nat.ltb 0 1000 rx_labels rxn_w)
         (map (train_rowW 0 rxn_w) (seq 0 5))) = rx_labels.
Proof. vm_compute. split; reflexivity. Qed.
