(* Summary theorem for calculate_pdf over the reals (property C12, arithmetic half). *)
From Coq Require Import Reals List ZArith Bool Lia Lra.
From OPF Require Import Base.Lists Base.NumOps Model.Pdf Proofs.PdfBase Proofs.PdfReal.
Import ListNotations.
Local Open Scope R_scope.

Theorem density_le_iff fmax n k gdens e c mn mx dc :
  calculate_pdf ROps fmax 1000 n k gdens e = (c, mn, mx, dc) ->
  forall i j, mn < mx -> (i < n)%nat -> (j < n)%nat ->
  (fst (nth i dc (0, 0)) <= fst (nth j dc (0, 0)) <-> pdfR k e i <= pdfR k e j).
Proof.
  intros Hcalc i j Hlt Hi Hj. split; [|eapply density_mono; eassumption].
  intro Hd. destruct (Rle_lt_dec (pdfR k e i) (pdfR k e j)) as [H|H]; [exact H|].
  pose proof (density_strict_mono _ _ _ _ _ _ _ _ _ Hcalc j i Hlt Hj Hi H). lra.
Qed.

Theorem calculate_pdf_summary fmax n k gdens e c mn mx dc :
  (1 <= n)%nat ->
  (forall i, (i < n)%nat -> - fmax <= Rsum_upto k (e i) / INR (k + 1) <= fmax) ->
  calculate_pdf ROps fmax 1000 n k gdens e = (c, mn, mx, dc) ->
  let pdf := fun i => Rsum_upto k (e i) / INR (k + 1) in
  let dens := fun i => fst (nth i dc (0, 0)) in
  let cost := fun i => snd (nth i dc (0, 0)) in
  c = 2 * gdens / 9 /\
  (forall i, pdf_value ROps k (e i) = pdf i) /\
  length dc = n /\
  (* recorded minimum and maximum of the unmapped values *)
  (exists i, (i < n)%nat /\ mn = pdf i) /\ (forall i, (i < n)%nat -> mn <= pdf i) /\
  (exists i, (i < n)%nat /\ mx = pdf i) /\ (forall i, (i < n)%nat -> pdf i <= mx) /\
  mn <= mx /\
  (mn = mx <-> forall i j, (i < n)%nat -> (j < n)%nat -> pdf i = pdf j) /\
  (* affine, order-preserving map onto [1, 1000] *)
  (mn < mx -> forall i, (i < n)%nat ->
     dens i = 1 + (1000 - 1) * (pdf i - mn) / (mx - mn) /\
     (pdf i = mn -> dens i = 1) /\ (pdf i = mx -> dens i = 1000)) /\
  (mn < mx -> forall i j, (i < n)%nat -> (j < n)%nat ->
     (dens i < dens j <-> pdf i < pdf j) /\
     (dens i = dens j <-> pdf i = pdf j) /\
     (dens i <= dens j <-> pdf i <= pdf j)) /\
  (mn = mx -> forall i, (i < n)%nat -> dens i = 1000 /\ cost i = 999) /\
  (forall i, (i < n)%nat -> 1 <= dens i <= 1000 /\ cost i = dens i - 1 /\ cost i < dens i).
Proof.
  intros Hn Hf Hcalc pdf dens cost.
  change (forall i, (i < n)%nat -> - fmax <= pdfR k e i <= fmax) in Hf.
  change pdf with (pdfR k e).
  destruct (pdf_minmax_spec _ _ _ _ _ _ _ _ _ Hn Hcalc Hf) as [M1 [M2 [M3 M4]]].
  split; [eapply pdf_constant_spec; eassumption|].
  split; [intro i; apply pdf_value_spec|].
  split; [eapply dc_length; eassumption|].
  split; [exact M1|]. split; [exact M2|]. split; [exact M3|]. split; [exact M4|].
  split; [eapply pdf_min_le_max; eassumption|].
  split; [eapply pdf_flat_iff; eassumption|].
  split.
  { intros Hlt i Hi. split; [apply (density_affine _ _ _ _ _ _ _ _ _ Hcalc i Hlt Hi)|].
    split; intro Hp.
    - eapply density_min_to_1; eassumption.
    - eapply density_max_to_maxd; eassumption. }
  split.
  { intros Hlt i j Hi Hj. split; [eapply density_lt_iff; eassumption|].
    split; [eapply density_eq_iff; eassumption|eapply density_le_iff; eassumption]. }
  split; [intros He i Hi; eapply density_flat; eassumption|].
  intros i Hi. split; [eapply density_range; eassumption|].
  split; [eapply cost_density; eassumption|eapply cost_lt_density; eassumption].
Qed.
